/-
  BufrModel.Own — C16: an abstract ownership heap for the objects of libecbufr.

  What is modelled.  Every object the library allocates has a *kind* (the 18 kinds counted by the
  LIBECBUFR_VERIF hook).  Objects that are created, handed around or referenced on their own are *nodes*:
  BUFR_Tables, the Table B/D arrays of a tables object (they are what `TYPE_REFERENCED` fields point to),
  BUFR_Template, BUFR_Dataset, DataSubset, BUFR_Message, a list of tables.  Objects that live and die with
  their owner and are never referenced from outside it (table entries, descriptors, values, associated
  fields and their definitions, run-time meta data, bit maps, element arrays, list nodes) are the *payload*
  of the owning node: a count per kind.

  A node has at most one owner (`owner`), or is a root held by the application through a handle; `refs` are
  its non-owning pointers (role, target).  The six primitive steps below are all the API does to the heap;
  each API operation is a *plan*: a list of primitive steps computed from the state and from the
  data-dependent shape the implementation reports (how many descriptors a subset has, how many entries a
  table file yields).  `step` runs the plan; it is `none` when a primitive's precondition fails, i.e. when
  the operation is not valid in that state (freeing something a live object still points into, using a
  handle that is not held).

  The protocol mirrored (bufr_tables.c, bufr_template.c, bufr_dataset.c, bufr_message.c, cmc_tables.c):
  * `bufr_merge_tables(t1, t2)`: master tables are *referenced* (the field points to the array of whoever
    owns it: t2 or the object t2 itself references), an owned master table of t1 is released; local tables
    are *copied* into arrays t1 owns.
  * loading a file into a referenced field drops the reference and makes an owned array; into an owned one
    it merges in place.
  * a template owns a tables object made by `bufr_merge_tables` from the tables it was created with; a copy
    of a template is a new template made from the original's tables; a dataset owns a copy of its template.
  * a subset owns its descriptors, their values, AF, AFD, RTMD, its bit map and its element array; its
    descriptors point to Table B entries reachable from the dataset's own template tables.
  * `bufr_merge_dataset` duplicates subsets (everything but the bit map) and replaces or appends.
  * decoding builds a dataset from the tables given; encoding builds a message; both are new roots.
-/
namespace Bufr.Own

inductive Kind
  | tables | entryB | entryD | template | dataset | subset | descriptor | value | af | afd | message
  | sequence | list | listnode | array | rtmd | ddop | dpbm
deriving DecidableEq, Repr, Inhabited

/-- the order of the hook's counters (`bufr_verif_counts`) -/
def Kind.all : List Kind :=
  [.tables, .entryB, .entryD, .template, .dataset, .subset, .descriptor, .value, .af, .afd, .message,
   .sequence, .list, .listnode, .array, .rtmd, .ddop, .dpbm]

/-- leaf objects bundled with their owner -/
structure Pay where
  entryB : Nat := 0
  entryD : Nat := 0
  descriptor : Nat := 0
  value : Nat := 0
  af : Nat := 0
  afd : Nat := 0
  rtmd : Nat := 0
  dpbm : Nat := 0
  array : Nat := 0
  listnode : Nat := 0
deriving DecidableEq, Repr, Inhabited

def Pay.count (p : Pay) : Kind → Nat
  | .entryB => p.entryB | .entryD => p.entryD | .descriptor => p.descriptor | .value => p.value
  | .af => p.af | .afd => p.afd | .rtmd => p.rtmd | .dpbm => p.dpbm | .array => p.array
  | .listnode => p.listnode | _ => 0

structure Node where
  id : Nat
  kind : Kind
  role : Nat
  owner : Option Nat
  root : Nat
  refs : List (Nat × Nat)
  pay : Pay
  /-- pointers to objects outside the workload (the immortal table sets of the process), as (field, size):
  they can never dangle and carry no obligation; kept so that the state of a tables object prints as in C -/
  ext : List (Nat × Nat) := []
deriving DecidableEq, Repr, Inhabited

structure State where
  nodes : List Node := []          -- newest first
  next : Nat := 0
  handles : List (Nat × Nat) := [] -- (slot, root id) held by the application
deriving DecidableEq, Repr, Inhabited

def State.find? (s : State) (i : Nat) : Option Node := s.nodes.find? (fun n => n.id = i)
def State.slot? (s : State) (k : Nat) : Option Nat := (s.handles.find? (fun h => h.1 = k)).map (·.2)
def State.child? (s : State) (o role : Nat) : Option Node :=
  s.nodes.find? (fun n => n.owner = some o ∧ n.role = role)

/-- a reference from a node of root `root` to node `t`: the target is live and belongs to the same or an
older root -/
def refOK (s : State) (root : Nat) (r : Nat × Nat) : Bool :=
  s.nodes.any (fun t => t.id = r.2 ∧ t.root ≤ root)

/-! ## The six primitive steps -/

inductive Prim
  | allocRoot (slot : Nat) (kind : Kind) (pay : Pay) (refs : List (Nat × Nat))
  | allocChild (owner role : Nat) (kind : Kind) (pay : Pay) (refs : List (Nat × Nat))
  | freeRoot (slot : Nat)
  | freeLeaf (id : Nat)
  | setPay (id : Nat) (pay : Pay)
  | setRefs (id : Nat) (refs : List (Nat × Nat))
  | setExt (id : Nat) (ext : List (Nat × Nat))
deriving Repr

/-- nothing that survives points into the tree of root `r` -/
def noRefInto (s : State) (r : Nat) : Bool :=
  s.nodes.all fun n => n.root = r || n.refs.all fun x => s.nodes.all fun t => t.id ≠ x.2 || t.root ≠ r

def Prim.exec (s : State) : Prim → Option State
  | .allocRoot slot kind pay refs =>
    if s.handles.all (fun h => h.1 ≠ slot) ∧ refs.all (refOK s s.next) then
      some { nodes := { id := s.next, kind := kind, role := 0, owner := none, root := s.next, refs := refs, pay := pay } :: s.nodes,
             next := s.next + 1, handles := (slot, s.next) :: s.handles }
    else none
  | .allocChild owner role kind pay refs =>
    match s.find? owner with
    | none => none
    | some p =>
      if refs.all (refOK s p.root) then
        some { s with nodes := { id := s.next, kind := kind, role := role, owner := some owner, root := p.root, refs := refs, pay := pay } :: s.nodes,
                      next := s.next + 1 }
      else none
  | .freeRoot slot =>
    match s.slot? slot with
    | none => none
    | some r =>
      if noRefInto s r then
        some { s with nodes := s.nodes.filter (fun n => n.root ≠ r), handles := s.handles.filter (fun h => h.2 ≠ r) }
      else none
  | .freeLeaf i =>
    if s.nodes.any (fun n => n.id = i ∧ n.owner ≠ none) ∧ s.nodes.all (fun n => n.owner ≠ some i) ∧
       s.nodes.all (fun m => m.id = i || m.refs.all (fun x => x.2 ≠ i)) then
      some { s with nodes := s.nodes.filter (fun n => n.id ≠ i) }
    else none
  | .setPay i pay =>
    if s.nodes.any (fun n => n.id = i) then
      some { s with nodes := s.nodes.map fun n => if n.id = i then { n with pay := pay } else n }
    else none
  | .setRefs i refs =>
    match s.find? i with
    | none => none
    | some n =>
      if refs.all (refOK s n.root) then
        some { s with nodes := s.nodes.map fun m => if m.id = i then { m with refs := refs } else m }
      else none
  | .setExt i ext =>
    if s.nodes.any (fun n => n.id = i) then
      some { s with nodes := s.nodes.map fun n => if n.id = i then { n with ext := ext } else n }
    else none

def execAll : State → List Prim → Option State
  | s, [] => some s
  | s, p :: ps => match p.exec s with
    | none => none
    | some s' => execAll s' ps

/-! ## Well-formedness -/

def idsOK (s : State) : Prop :=
  s.nodes.Pairwise (fun a b => b.id < a.id) ∧ ∀ n ∈ s.nodes, n.id < s.next
def ownersOK (s : State) : Prop :=
  ∀ n ∈ s.nodes, match n.owner with
    | none => n.root = n.id
    | some o => o < n.id ∧ ∃ p ∈ s.nodes, p.id = o ∧ p.root = n.root
def rootsOK (s : State) : Prop := ∀ n ∈ s.nodes, ∃ h ∈ s.handles, h.2 = n.root
def handlesOK (s : State) : Prop :=
  (∀ h ∈ s.handles, ∃ n ∈ s.nodes, n.id = h.2 ∧ n.owner = none) ∧
  s.handles.Pairwise (fun a b => a.1 ≠ b.1 ∧ a.2 ≠ b.2)
def refsOK (s : State) : Prop :=
  ∀ n ∈ s.nodes, ∀ r ∈ n.refs, ∃ t ∈ s.nodes, t.id = r.2 ∧ t.root ≤ n.root

/-- every live node has exactly one owner (a live, older node of the same root) or is a root held by the
application through a handle; every reference points to a live node of the same or an older root -/
def WF (s : State) : Prop := idsOK s ∧ ownersOK s ∧ rootsOK s ∧ handlesOK s ∧ refsOK s

/-- executable form of `WF` (what `own.audit` evaluates on the model side) -/
def wfb (s : State) : Bool :=
  (s.nodes.zip (s.nodes.drop 1)).all (fun ab => ab.2.id < ab.1.id) &&
  s.nodes.all (fun n => n.id < s.next) &&
  s.nodes.all (fun n => match n.owner with
    | none => n.root = n.id
    | some o => o < n.id && s.nodes.any (fun p => p.id = o && p.root = n.root)) &&
  s.nodes.all (fun n => s.handles.any (fun h => h.2 = n.root)) &&
  s.handles.all (fun h => s.nodes.any (fun n => n.id = h.2 && n.owner = none)) &&
  s.nodes.all (fun n => n.refs.all (fun r => s.nodes.any (fun t => t.id = r.2 && t.root ≤ n.root)))

/-! ## Counting -/

def Node.count (n : Node) (k : Kind) : Nat := (if n.kind = k then 1 else 0) + n.pay.count k
def countNodes (ns : List Node) (k : Kind) : Nat := (ns.map (fun n => n.count k)).sum
/-- number of live objects of kind `k` -/
def State.count (s : State) (k : Kind) : Nat := countNodes s.nodes k
def State.counts (s : State) : List Nat := Kind.all.map s.count

/-! ## Freeing everything the application still holds: newest root first -/

def maxHandle : List (Nat × Nat) → Option (Nat × Nat)
  | [] => none
  | h :: hs => match maxHandle hs with
    | none => some h
    | some m => if m.2 < h.2 then some h else some m

def freeAllF : Nat → State → Option State
  | 0, s => some s
  | f+1, s => match maxHandle s.handles with
    | none => some s
    | some h => match (Prim.freeRoot h.1).exec s with
      | none => none
      | some s' => freeAllF f s'

def freeAll (s : State) : Option State := freeAllF s.handles.length s

/-! ## API operations as plans -/

/-- slots of the application: tables 0.., templates 10.., datasets 20.., messages 30.., lists 40.. -/
def slotT (i : Nat) : Nat := i
def slotM (i : Nat) : Nat := 10 + i
def slotD (i : Nat) : Nat := 20 + i
def slotG (i : Nat) : Nat := 30 + i
def slotL (i : Nat) : Nat := 40 + i

/-- roles: table arrays 0 mB, 1 mD, 2 lB, 3 lD; 10 the tables of a template; 11 the template of a dataset;
100+k the k-th subset of a dataset; 100000+v the tables of master table version v in a list (versions
are unique in a list: `bufr_load_tables_list` skips a version it already has) -/
def roleTables : Nat := 10
def roleTemplate : Nat := 11
def roleListed (v : Nat) : Nat := 100000 + v
def roleSubset (k : Nat) : Nat := 100 + k

/-- a tables argument of the API: an immortal table set outside the workload, a tables handle, or the
entry of a list that `bufr_use_tables_list` picks for a version -/
inductive TArg
  | ext | slot (t : Nat) | listed (l v : Nat)
deriving Repr, DecidableEq

inductive Fld | none | own (id : Nat) | ref (target : Nat)
deriving Repr, DecidableEq

/-- state of field `f` of the tables node `x` -/
def fld (s : State) (x f : Nat) : Fld :=
  match s.child? x f with
  | some c => .own c.id
  | none => match s.find? x with
    | some n => match n.refs.find? (fun r => r.1 = f) with
      | some r => .ref r.2
      | none => .none
    | none => .none

/-- the array a merge from this field would reference -/
def Fld.target : Fld → Option Nat
  | .none => Option.none | .own i => some i | .ref t => some t

/-- the master table version of a tables node that belongs to a list -/
def versionOf (n : Node) : Nat := n.role - 100000

/-- children of a list root in list order -/
def listed (s : State) (l : Nat) : List Node :=
  (s.nodes.filter (fun n => n.owner = some l ∧ n.kind = .tables)).reverse

/-- `bufr_use_tables_list(list, version)` -/
def useTablesList (ts : List (Nat × Nat)) (version : Nat) : Option Nat :=
  let rec go : List (Nat × Nat) → Option (Nat × Nat) → Option (Nat × Nat) → Option Nat
    | [], btn, ltn => (match btn with | some b => some b.1 | none => ltn.map (·.1))
    | (i, v) :: rest, btn, ltn =>
      if v = version then some i
      else if v > version then go rest (match btn with | none => some (i, v) | some b => some b) ltn
      else go rest btn (match ltn with | none => some (i, v) | some l => if l.2 < v then some (i, v) else some l)
  go ts none none

/-- `some none`: an immortal set (no node); `some (some id)`: a tables node; `none`: no such handle -/
def resolveT (s : State) : TArg → Option (Option Nat)
  | .ext => some none
  | .slot t => (s.slot? (slotT t)).map some
  | .listed l v => match s.slot? (slotL l) with
    | none => none
    | some r => (useTablesList ((listed s r).map fun n => (n.id, versionOf n)) v).map some

structure Shape where
  d : Nat := 0
  v : Nat := 0
  af : Nat := 0
  afd : Nat := 0
  rt : Nat := 0
  dpbm : Nat := 0
  arr : Nat := 0
deriving Repr, DecidableEq, Inhabited

def Shape.pay (x : Shape) : Pay :=
  { descriptor := x.d, value := x.v, af := x.af, afd := x.afd, rtmd := x.rt, dpbm := x.dpbm, array := x.arr }

/-- what a template owns apart from its tables: the descriptors of the expanded list with their values and
meta data, its arrays (descriptor/value list, expanded list, operator Table B entries) and those entries -/
structure TShape where
  d : Nat := 0
  v : Nat := 0
  af : Nat := 0
  afd : Nat := 0
  rt : Nat := 0
  arr : Nat := 0
  tbe : Nat := 0
deriving Repr, DecidableEq, Inhabited

def TShape.pay (x : TShape) : Pay :=
  { descriptor := x.d, value := x.v, af := x.af, afd := x.afd, rtmd := x.rt, array := x.arr, entryB := x.tbe }

def payOfArray (isB : Bool) (n : Nat) : Pay := if isB then { entryB := n } else { entryD := n }
def fieldIsB (f : Nat) : Bool := f = 0 || f = 2
def cachePay (c : Bool) : Pay := { array := if c then 1 else 0 }

/-- plan builder: primitives in order and the id the next allocation will get -/
structure PB where
  rev : List Prim := []
  next : Nat
deriving Repr

def PB.add (b : PB) (p : Prim) : PB := { b with rev := p :: b.rev }
def PB.alloc (b : PB) (p : Prim) : PB × Nat := ({ rev := p :: b.rev, next := b.next + 1 }, b.next)
def PB.prims (b : PB) : List Prim := b.rev.reverse

/-- the tables object `bufr_create_template` makes for itself from the tables `src` it is given
(`bufr_create_tables` + `bufr_merge_tables`): master referenced, local copied (always two owned arrays);
`srcTarget f` is what field `f` of the source points to -/
def planTablesCopy (b : PB) (owner : Nat) (srcTarget : Nat → Option Nat) (ext : List (Nat × Nat))
    (nlB nlD : Nat) (cache : Bool) : PB :=
  let refs := (match srcTarget 0 with | some t => [(0, t)] | none => []) ++
              (match srcTarget 1 with | some t => [(1, t)] | none => [])
  let (b1, tid) := b.alloc (.allocChild owner roleTables .tables (cachePay cache) refs)
  let b1' := if ext.isEmpty then b1 else b1.add (.setExt tid ext)
  let (b2, _) := b1'.alloc (.allocChild tid 2 .array (payOfArray true nlB) [])
  let (b3, _) := b2.alloc (.allocChild tid 3 .array (payOfArray false nlD) [])
  b3

def srcTargets (s : State) (src : Option Nat) (f : Nat) : Option Nat :=
  match src with
  | none => none
  | some x => (fld s x f).target

/-- the external master references a tables object made from `src` inherits: those of a tables node, or
the sizes observed when the source is itself an immortal set -/
def srcExt (s : State) (src : Option Nat) (obs : List (Nat × Nat)) : List (Nat × Nat) :=
  match src with
  | none => obs
  | some x => match s.find? x with
    | some n => n.ext.filter fun e => (fld s x e.1) = .none
    | none => []

/-- the reference a subset of dataset root `d` holds: the master Table B its descriptors' entries live in -/
def subsetRefs (s : State) (d : Nat) : List (Nat × Nat) :=
  match s.child? d roleTemplate with
  | none => []
  | some tm => match s.child? tm.id roleTables with
    | none => []
    | some tb => match (fld s tb.id 0).target with
      | some t => (match fld s tb.id 0 with | .ref _ => [(0, t)] | _ => [])
      | none => []

def subsetsOf (s : State) (d : Nat) : List Node :=
  (s.nodes.filter (fun n => n.owner = some d ∧ n.kind = .subset)).reverse

inductive Op
  | tnew (t : Nat)
  /-- load a file into field `f` (0 mB, 1 mD, 2 lB, 3 lD) of the tables node `x` -/
  | tload (x : TArg) (f : Nat) (present : Bool) (n : Nat)
  | tmerge (t : Nat) (src : TArg) (nlB nlD : Nat) (ext : List (Nat × Nat))
  | tfree (t : Nat)
  /-- the lookup cache of a tables object is allocated by the first lookup and released by loads and merges -/
  | tcache (x : TArg) (c : Bool)
  | mnew (m : Nat) (src : TArg) (sh : TShape) (nlB nlD : Nat) (cache : Bool) (ext : List (Nat × Nat))
  /-- a template read from a file: the file says which tables it loads itself (`own` with a count), the
  rest comes from `src` -/
  | mload (m : Nat) (src : Option TArg) (sh : TShape) (flds : List (Nat × Nat)) (cache : Bool) (ext : List (Nat × Nat))
  | mcopy (m2 m1 : Nat) (nlB nlD : Nat) (cache : Bool)
  | mfree (m : Nat)
  /-- a finalized template is extended (`bufr_template_add_DescValue`) and finalized again: the expanded form it
  owned is released and a new one built -/
  | mset (m : Nat) (sh : TShape)
  /-- lookup cache of the tables a template owns (looked into when the template is copied) -/
  | mcache (m : Nat) (c : Bool)
  | dnew (d m : Nat) (nlB nlD : Nat) (cache : Bool)
  | dsub (d : Nat) (sh : Shape)
  /-- the payload of subset `k` is replaced: expansion, values set (old released, new allocated) -/
  | dset (d k : Nat) (sh : Shape)
  /-- operator Table B entries and lookup cache of the dataset's own template -/
  | dtmpl (d : Nat) (tbe : Nat) (cache : Bool)
  | dmerge (dd dpos ds spos nb : Nat) (made : Nat) (blanks : List Shape)
  /-- every subset released, the given ones read in (`bufr_read_dataset_dump`) -/
  | dreload (d : Nat) (shs : List Shape)
  | dfree (d : Nat)
  | gnew (g : Nat)
  | gfree (g : Nat)
  | dec (d : Nat) (src : TArg) (sh : TShape) (nlB nlD : Nat) (cache : Bool) (shs : List Shape) (ext : List (Nat × Nat))
  | extract (t : Nat) (nB nD : Nat)
  | lnew (l : Nat) (tabs : List (Nat × Nat × Nat))
  | lfree (l : Nat)
deriving Repr

def templatePlan (s : State) (b : PB) (root : Option Nat) (slot : Nat) (src : Option Nat) (sh : TShape)
    (nlB nlD : Nat) (cache : Bool) (ext : List (Nat × Nat)) : PB :=
  let (b1, mid) := match root with
    | none => b.alloc (.allocRoot slot .template sh.pay [])
    | some o => b.alloc (.allocChild o roleTemplate .template sh.pay [])
  planTablesCopy b1 mid (srcTargets s src) (srcExt s src ext) nlB nlD cache

/-- external references of the tables owned by the template (or dataset template) node `m` -/
def extOfTables (s : State) (tb : Node) : List (Nat × Nat) := tb.ext.filter fun e => (fld s tb.id e.1) = .none

/-- the primitives of an API operation; `none`: a handle it needs is not held -/
def plan (s : State) : Op → Option (List Prim)
  | .tnew t => some [.allocRoot (slotT t) .tables {} []]
  | .tload xa f present n =>
    match resolveT s xa with
    | some (some x) =>
      match s.find? x with
      | none => none
      | some xn =>
        let flush : List Prim := if fieldIsB f then [.setPay x {}] else []
        let body : List Prim :=
          match fld s x f with
          | .own a => [.setPay a (payOfArray (fieldIsB f) n)]
          | .ref _ => [.setRefs x (xn.refs.filter fun r => r.1 ≠ f)] ++
                      (if present then [.allocChild x f .array (payOfArray (fieldIsB f) n) []] else [])
          | .none => if present then [.allocChild x f .array (payOfArray (fieldIsB f) n) []] else []
        some (flush ++ [.setExt x (xn.ext.filter fun e => e.1 ≠ f)] ++ body)
    | _ => none
  | .tmerge t src nlB nlD ext =>
    match s.slot? (slotT t), resolveT s src with
    | some x, some sx =>
      match s.find? x with
      | none => none
      | some xn =>
        -- master: referenced when the source has one (its own, one it references, or an immortal one);
        -- an owned one is released
        let tgt (f : Nat) : Option Nat := srcTargets s sx f
        let sext := srcExt s sx ext
        let over (f : Nat) : Bool := (tgt f).isSome || sext.any (fun e => e.1 = f)
        let dropOwn (f : Nat) : List Prim :=
          match fld s x f with
          | .own a => if over f then [.freeLeaf a] else []
          | _ => []
        let newRefs : List (Nat × Nat) :=
          (xn.refs.filter fun r => !(((r.1 = 0 || r.1 = 1) && over r.1) || r.1 = 2 || r.1 = 3)) ++
          (match tgt 0 with | some a => [(0, a)] | none => []) ++ (match tgt 1 with | some a => [(1, a)] | none => [])
        let newExt : List (Nat × Nat) :=
          (xn.ext.filter fun e => !(over e.1)) ++ (sext.filter fun e => (tgt e.1).isNone && (e.1 = 0 || e.1 = 1))
        let loc (f : Nat) (n : Nat) : List Prim :=
          match fld s x f with
          | .own a => [.setPay a (payOfArray (fieldIsB f) n)]
          | _ => [.allocChild x f .array (payOfArray (fieldIsB f) n) []]
        some ([.setPay x {}] ++ dropOwn 0 ++ dropOwn 1 ++ [.setRefs x newRefs, .setExt x newExt] ++ loc 2 nlB ++ loc 3 nlD)
    | _, _ => none
  | .tfree t => some [.freeRoot (slotT t)]
  | .tcache xa c =>
    match resolveT s xa with
    | some (some x) => some [.setPay x (cachePay c)]
    | some none => some []
    | none => none
  | .mnew m src sh nlB nlD cache ext =>
    match resolveT s src with
    | some sx => some (templatePlan s { next := s.next } none (slotM m) sx sh nlB nlD cache ext).prims
    | none => none
  | .mload m src sh flds cache ext =>
    match (match src with | none => some none | some a => resolveT s a) with
    | some sx =>
      let b0 : PB := { next := s.next }
      let (b1, mid) := b0.alloc (.allocRoot (slotM m) .template sh.pay [])
      let st (f : Nat) : Nat × Nat := (flds.getD f (0, 0))
      let refs := (List.range 2).filterMap fun f =>
        if (st f).1 = 2 then (srcTargets s sx f).map fun t => (f, t) else none
      let (b2a, tid) := b1.alloc (.allocChild mid roleTables .tables (cachePay cache) refs)
      let ex := (srcExt s sx ext).filter fun e => (st e.1).1 = 2 ∧ (srcTargets s sx e.1).isNone
      let b2 := if ex.isEmpty then b2a else b2a.add (.setExt tid ex)
      let b3 := (List.range 4).foldl (fun (b : PB) f =>
        if (st f).1 = 1 then (b.alloc (.allocChild tid f .array (payOfArray (fieldIsB f) (st f).2) [])).1 else b) b2
      some b3.prims
    | none => none
  | .mcopy m2 m1 nlB nlD cache =>
    match s.slot? (slotM m1) with
    | none => none
    | some r1 =>
      match s.find? r1, s.child? r1 roleTables with
      | some n1, some t1 =>
        let b0 : PB := { next := s.next }
        let (b1, mid) := b0.alloc (.allocRoot (slotM m2) .template n1.pay [])
        some (planTablesCopy b1 mid (fun f => (fld s t1.id f).target) (extOfTables s t1) nlB nlD cache).prims
      | _, _ => none
  | .mfree m => some [.freeRoot (slotM m)]
  | .mset m sh =>
    match s.slot? (slotM m) with
    | none => none
    | some r => some [.setPay r sh.pay]
  | .mcache m c =>
    match s.slot? (slotM m) with
    | none => none
    | some r => match s.child? r roleTables with
      | none => none
      | some tb => some [.setPay tb.id (cachePay c)]
  | .dnew d m nlB nlD cache =>
    match s.slot? (slotM m) with
    | none => none
    | some r1 =>
      match s.find? r1, s.child? r1 roleTables with
      | some n1, some t1 =>
        let b0 : PB := { next := s.next }
        let (b1, did) := b0.alloc (.allocRoot (slotD d) .dataset { array := 1 } [])
        let (b2, mid) := b1.alloc (.allocChild did roleTemplate .template n1.pay [])
        some (planTablesCopy b2 mid (fun f => (fld s t1.id f).target) (extOfTables s t1) nlB nlD cache).prims
      | _, _ => none
  | .dsub d sh =>
    match s.slot? (slotD d) with
    | none => none
    | some r => some [.allocChild r (roleSubset (subsetsOf s r).length) .subset sh.pay (subsetRefs s r)]
  | .dset d k sh =>
    match s.slot? (slotD d) with
    | none => none
    | some r => match s.child? r (roleSubset k) with
      | none => none
      | some n => some [.setPay n.id sh.pay]
  | .dtmpl d tbe cache =>
    match s.slot? (slotD d) with
    | none => none
    | some r => match s.child? r roleTemplate with
      | none => none
      | some tm => match s.child? tm.id roleTables with
        | none => none
        | some tb => some [.setPay tm.id { tm.pay with entryB := tbe }, .setPay tb.id (cachePay cache)]
  | .dmerge dd dpos ds spos nb made blanks =>
    match s.slot? (slotD dd), s.slot? (slotD ds) with
    | some rd, some rs =>
      let dcount := (subsetsOf s rd).length
      let src := subsetsOf s rs
      let nb' := min nb src.length
      -- `made` blank subsets were created to reach the destination position (all of dcount..dpos unless
      -- the template refuses to make a subset); the one at `dpos` itself is replaced at once when nb' > 0
      let dcount' := dcount + made
      let mk : List Prim := (List.range made).filterMap fun i =>
        if dcount + i = dpos ∧ nb' > 0 then none
        else some (.allocChild rd (roleSubset (dcount + i)) .subset (blanks.getD i {}).pay (subsetRefs s rd))
      let dupPay (i : Nat) : Pay := match src[spos + i]? with
        | some n => { n.pay with dpbm := 0, array := 1 }
        | none => { array := 1 }
      let put : List Prim := (List.range nb').map fun i =>
        let pos := dpos + i
        if pos < dcount' then
          (if pos < dcount then
             (match s.child? rd (roleSubset pos) with
              | some n => .setPay n.id (dupPay i)
              | none => .setPay s.next (dupPay i))   -- not reachable: subsets are numbered densely
           else .allocChild rd (roleSubset pos) .subset (dupPay i) (subsetRefs s rd))
        else .allocChild rd (roleSubset (dcount' + (pos - max dpos dcount'))) .subset (dupPay i) (subsetRefs s rd)
      some (mk ++ put)
    | _, _ => none
  | .dreload d shs =>
    match s.slot? (slotD d) with
    | none => none
    | some r =>
      let old : List Prim := (subsetsOf s r).map fun n => .freeLeaf n.id
      let new : List Prim := (List.range shs.length).map fun i =>
        .allocChild r (roleSubset i) .subset (shs.getD i {}).pay (subsetRefs s r)
      some (old ++ new)
  | .dfree d => some [.freeRoot (slotD d)]
  | .gnew g => some [.allocRoot (slotG g) .message { array := 1 } []]
  | .gfree g => some [.freeRoot (slotG g)]
  | .dec d src sh nlB nlD cache shs ext =>
    match resolveT s src with
    | none => none
    | some sx =>
      let b0 : PB := { next := s.next }
      let (b1, did) := b0.alloc (.allocRoot (slotD d) .dataset { array := 1 } [])
      let b2 := templatePlan s b1 (some did) 0 sx sh nlB nlD cache ext
      let mB : List (Nat × Nat) := match sx with
        | none => []
        | some x => match (fld s x 0).target with | some t => [(0, t)] | none => []
      let subs : List Prim := (List.range shs.length).map fun i =>
        .allocChild did (roleSubset i) .subset (shs.getD i {}).pay mB
      some (b2.prims ++ subs)
  | .extract t nB nD =>
    let b0 : PB := { next := s.next }
    let (b1, tid) := b0.alloc (.allocRoot (slotT t) .tables {} [])
    let (b2, _) := b1.alloc (.allocChild tid 2 .array (payOfArray true nB) [])
    let (b3, _) := b2.alloc (.allocChild tid 3 .array (payOfArray false nD) [])
    some b3.prims
  | .lnew l tabs =>
    let b0 : PB := { next := s.next }
    let (b1, lid) := b0.alloc (.allocRoot (slotL l) .list { listnode := tabs.length } [])
    let b2 := (List.range tabs.length).foldl (fun (b : PB) i =>
      let (v, nB, nD) := tabs.getD i (0, 0, 0)
      let (c1, tid) := b.alloc (.allocChild lid (roleListed v) .tables {} [])
      let (c2, _) := c1.alloc (.allocChild tid 0 .array (payOfArray true nB) [])
      let (c3, _) := c2.alloc (.allocChild tid 1 .array (payOfArray false nD) [])
      c3) b1
    some b2.prims
  | .lfree l => some [.freeRoot (slotL l)]

/-- one API operation; `none` = not valid in this state -/
def step (s : State) (op : Op) : Option State :=
  match plan s op with
  | none => none
  | some ps => execAll s ps

def Valid (s : State) (op : Op) : Prop := (step s op).isSome

def run : State → List Op → Option State
  | s, [] => some s
  | s, op :: ops => match step s op with
    | none => none
    | some s' => run s' ops

end Bufr.Own
