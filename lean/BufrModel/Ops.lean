import BufrModel.Core
/-
  BufrModel.Ops — the Table C operator state machine (`BufrDDOp`, bufr_ddo.c:
  `bufr_resolve_tableC_v2..v5`) and its application to one descriptor node
  (`bufr_apply_tables2node`, `bufr_apply_op_crefval`, `bufr_reassign_table2code`;
  bufr_sequence.c).  Bitmap/quality operators 2 22–2 37 only set their flag bits
  (their data-present machinery is outside the model).
-/
namespace Bufr

inductive Enforce | lax | warnAllow | strict
deriving DecidableEq, Repr, Inhabited

def DDO_DEFINE_EVENT : Nat := 1
def DDO_SUBST_VAL_FOLLOW : Nat := 2
def DDO_FO_STATS_VAL_FOLLOW : Nat := 4
def DDO_QUAL_INFO_FOLLOW : Nat := 8
def DDO_BIT_MAP_FOLLOW : Nat := 16
def DDO_USE_PREV_BIT_MAP : Nat := 32

/-- `BufrDDOp` -/
structure DDO where
  flags : Nat := 0
  addNbits : Int := 0
  multiplyScale : Int := 0
  changeRefValOp : Nat := 0
  addAfNbits : Int := 0
  localNbitsFollows : Nat := 0
  useIeee : Nat := 0
  changeRefValue : Nat := 0
  redefineCcitt : Nat := 0
  /-- `override_tableb`: descriptor ↦ new reference value, newest first -/
  overrides : List (Nat × Int) := []
  /-- `af_list`: widths of the associated fields in force, oldest first -/
  afList : List Nat := []
  enforce : Enforce := .strict
deriving DecidableEq, Repr, Inhabited

/-- result of resolving an operator: new state, return code (`< 0` = error), and the change
2 05 YYY makes to the operator node itself -/
structure Resolved where
  ddo : DDO
  rc : Int
  enc : Option (DType × Int) := none

def resolveV2 (ddo : DDO) (x y : Nat) : Resolved :=
  match x with
  | 1 => { ddo := { ddo with addNbits := if y = 0 then 0 else (y : Int) - 128 }, rc := 1 }
  | 2 => { ddo := { ddo with multiplyScale := if y = 0 then 0 else (y : Int) - 128 }, rc := 2 }
  | 3 =>
    if y = 255 then { ddo := { ddo with changeRefValOp := 0 }, rc := 3 }
    else if y = 0 then { ddo := { ddo with changeRefValOp := 0, overrides := [] }, rc := 3 }
    else { ddo := { ddo with changeRefValOp := y }, rc := 3 }
  | 4 =>
    if y > 0 then
      { ddo := { ddo with afList := ddo.afList ++ [y], addAfNbits := ddo.addAfNbits + y }, rc := 4 }
    else
      match ddo.afList.getLast? with
      | some w => { ddo := { ddo with afList := ddo.afList.dropLast, addAfNbits := ddo.addAfNbits - w }, rc := 4 }
      | none => { ddo := ddo, rc := 4 }
  | 5 => { ddo := ddo, rc := 5, enc := some (.ccitt, (y : Int) * 8) }
  | 6 => { ddo := { ddo with localNbitsFollows := y }, rc := 6 }
  | _ => { ddo := ddo, rc := -1 }

/-- the common tail of v3/v4/v5: an operator newer than the message edition -/
def badVersionTail (r : Resolved) (bad : Bool) (x : Nat) : Resolved :=
  if bad && r.ddo.enforce ≠ .lax && r.ddo.enforce = .strict then { r with rc := -1 } else { r with rc := x }

def resolveV3 (ddo : DDO) (x y version : Nat) : Resolved :=
  let bad := decide (version < 3)
  match x with
  | 23 => badVersionTail { ddo := if y = 0 then { ddo with flags := ddo.flags ||| DDO_SUBST_VAL_FOLLOW } else ddo, rc := 0 } bad x
  | 24 => badVersionTail { ddo := if y = 0 then { ddo with flags := ddo.flags ||| DDO_FO_STATS_VAL_FOLLOW } else ddo, rc := 0 } bad x
  | 36 => badVersionTail { ddo := { ddo with flags := ddo.flags ||| DDO_BIT_MAP_FOLLOW }, rc := 0 } bad x
  | 37 => badVersionTail { ddo := { ddo with flags := ddo.flags ||| DDO_USE_PREV_BIT_MAP }, rc := 0 } bad x
  | 22 => badVersionTail { ddo := if y = 0 then { ddo with flags := ddo.flags ||| DDO_QUAL_INFO_FOLLOW } else ddo, rc := 0 } bad x
  | 21 | 25 | 32 | 35 => { ddo := ddo, rc := -1 }
  | _ =>
    let r := resolveV2 ddo x y
    if r.rc < 0 then { r with rc := -1 } else { r with rc := x }

def resolveV4 (ddo : DDO) (x y version : Nat) : Resolved :=
  let bad := decide (version < 4)
  match x with
  | 7 =>
    let d := if y = 0 then { ddo with addNbits := 0, multiplyScale := 0, changeRefValue := 0 }
             else { ddo with addNbits := ((10 * y + 2) / 3 : Nat), multiplyScale := y, changeRefValue := y }
    badVersionTail { ddo := d, rc := 0 } bad x
  | 41 =>
    let d := if y = 255 then { ddo with flags := ddo.flags &&& (2^32 - 1 - DDO_DEFINE_EVENT) }
             else { ddo with flags := ddo.flags ||| DDO_DEFINE_EVENT }
    badVersionTail { ddo := d, rc := 0 } bad x
  | 8 => badVersionTail { ddo := { ddo with redefineCcitt := y }, rc := 0 } bad x
  | 42 | 43 => { ddo := ddo, rc := -1 }
  | _ =>
    let r := resolveV3 ddo x y version
    if r.rc < 0 then { r with rc := -1 } else { r with rc := x }

def resolveV5 (ddo : DDO) (x y version : Nat) : Resolved :=
  let bad := decide (version < 5)
  match x with
  | 9 =>
    let d := if y = 32 ∨ y = 64 then { ddo with useIeee := y }
             else if y = 0 then { ddo with useIeee := 0 } else ddo
    badVersionTail { ddo := d, rc := 0 } bad x
  | _ =>
    let r := resolveV4 ddo x y version
    if r.rc < 0 then { r with rc := -1 } else { r with rc := x }

/-- dispatch of `bufr_apply_tables2node` on the template edition and enforcement -/
def resolveTableC (ddo : DDO) (x y edition : Nat) : Resolved :=
  if ddo.enforce = .strict then
    match edition with
    | 5 => resolveV5 ddo x y edition
    | 4 => resolveV4 ddo x y edition
    | 3 => resolveV3 ddo x y edition
    | _ => resolveV2 ddo x y
  else resolveV5 ddo x y edition

/-- `bufr_reassign_table2code` with the entry found (override → Table B) or the defaults by F -/
def reassign (d : Nat) (tb : Option Enc) : Enc :=
  match tb with
  | some e => { e with afNbits := 0 }
  | none =>
    let t : DType := match Desc.f d with
      | 2 => .operator | 3 => .sequence | 1 => .replicator
      | _ => if isLocalDescriptor d then .numeric else .undefined
    { type := t, scale := 0, ref := 0, nbits := 0, afNbits := 0 }

def INT_MAX : Int := 2147483647
def INT_MIN : Int := -2147483648

/-- the entry `bufr_apply_tables2node` starts from for an F=0 descriptor: an override installed
by 2 03 YYY replaces the reference of the Table B entry -/
def baseEnc (T : Tables) (ddo : DDO) (d : Nat) : Option Enc :=
  if Desc.f d ≠ 0 then none
  else match T.fetchB d with
    | none => none
    | some e =>
      match ddo.overrides.find? (·.1 = d) with
      | some (_, r) => some { e.enc with ref := r }
      | none => some e.enc

/-- numeric branch of `bufr_apply_tables2node` (not class 31): 2 09, 2 03, 2 06, 2 01, 2 02, 2 07.
Returns the encoding, the state (2 06 is consumed) and an error flag (reference overflow). -/
def applyNumeric (ddo : DDO) (n : Node) (e : Enc) : Enc × DDO × Bool :=
  if ddo.useIeee > 0 then ({ e with type := .ieee, nbits := ddo.useIeee }, ddo, false)
  else if ddo.changeRefValOp > 0 then
    ({ type := .chngRef, ref := 0, scale := 0, afNbits := 0, nbits := ddo.changeRefValOp }, ddo, false)
  else
    let (e1, ddo1) :=
      if ddo.localNbitsFollows > 0 then
        (if isLocalDescriptor n.desc then { e with nbits := ddo.localNbitsFollows } else e,
         { ddo with localNbitsFollows := 0 })
      else if ddo.addNbits ≠ 0 then ({ e with nbits := e.nbits + ddo.addNbits }, ddo)
      else (e, ddo)
    let e2 := if ddo.multiplyScale ≠ 0 then { e1 with scale := e1.scale + ddo.multiplyScale } else e1
    if ddo.changeRefValue ≠ 0 then
      let r := e2.ref * 10 ^ ddo.changeRefValue
      if r > INT_MAX ∨ r < INT_MIN then (e2, ddo1, true)
      else ({ e2 with ref := r }, ddo1, false)
    else (e2, ddo1, false)

/-- does the associated-field prefix apply to this encoding (first `switch` of
`bufr_apply_tables2node`) -/
def afApplies (ddo : DDO) (class31 : Bool) (e : Enc) : Bool :=
  (e.type = .ccitt || e.type = .numeric || e.type = .codetable || e.type = .flagtable) && !class31 &&
    decide (ddo.addAfNbits > 0)

def applyAF (ddo : DDO) (class31 : Bool) (e : Enc) : Enc :=
  if afApplies ddo class31 e then { e with afNbits := ddo.addAfNbits.toNat % 256 } else e

def applyAFList (ddo : DDO) (class31 : Bool) (e : Enc) (naf : List Nat) : List Nat :=
  if afApplies ddo class31 e then ddo.afList else naf

/-- width / scale / reference (second `switch`) -/
def applyWidth (ddo : DDO) (n : Node) (class31 : Bool) (e : Enc) : Enc × DDO × Bool :=
  match e.type with
  | .ccitt => (if ddo.redefineCcitt > 0 then { e with nbits := (ddo.redefineCcitt : Int) * 8 } else e, ddo, false)
  | .numeric => if class31 then (e, ddo, false) else applyNumeric ddo n e
  | _ => (e, ddo, false)

/-- what follows the operator dispatch -/
def applyTail (ddo1 : DDO) (n : Node) (e1 : Enc) (err1 : Bool) : DDO × Node × Bool :=
  let class31 := n.flags.class31 || decide (Desc.x n.desc = 31)
  let e2 := applyAF ddo1 class31 e1
  let af := applyAFList ddo1 class31 e1 n.af
  let w := applyWidth ddo1 n class31 e2
  -- `bufr_set_descriptor_afd` → `bufr_set_value_af`: an existing value gets the associated field the
  -- descriptor now asks for, unless it has it already (layouts are compared by total width here)
  let renew := afApplies ddo1 class31 e1 && n.val.isSome && n.afW != listSumN ddo1.afList
  let afW := if renew then listSumN ddo1.afList else n.afW
  let afBits := if renew then 0 else n.afBits
  (w.2.1, { n with flags := { n.flags with class31 := class31 }, enc := w.1, af := af, afW := afW, afBits := afBits },
   err1 || w.2.2)

/-- `bufr_apply_tables2node(ddo, bsq, tmplt, node, &errcode)` for descriptors outside the bitmap
machinery.  Returns the new state, the node with its encoding recomputed, and `true` when
`*errcode` was set negative. -/
def applyTables2node (T : Tables) (edition : Nat) (ddo : DDO) (n : Node) : DDO × Node × Bool :=
  let e0 := reassign n.desc (baseEnc T ddo n.desc)
  -- an operator flagged SKIPPED sits in a replication that occurs zero times: no effect
  if Desc.f n.desc = 2 ∧ !n.flags.skipped then
    let r := resolveTableC ddo (Desc.x n.desc) (Desc.y n.desc) edition
    let e1 := match r.enc with
      | some (t, nb) => { e0 with type := t, nbits := nb }
      | none => e0
    applyTail r.ddo n e1 (decide (r.rc < 0))
  else applyTail ddo n e0 false

/-- `(int)(float)v`: an `int` pushed through single precision (24 significant bits, ties to even) -/
def f32RoundInt (v : Int) : Int :=
  let a := v.natAbs
  if a < 2^24 then v
  else
    let sh := a.log2 + 1 - 24
    let q := a >>> sh
    let r := a &&& (2^sh - 1)
    let half := 2^(sh - 1)
    let q' := if r > half ∨ (r = half ∧ q % 2 = 1) then q + 1 else q
    let m : Int := ((q' <<< sh : Nat) : Int)
    if v < 0 then -m else m

/-- second call of `bufr_apply_op_crefval`, made by the decoder/loader after the value of a
`TYPE_CHNG_REF_VAL_OP` node is known: install the new reference as an override -/
def applyOpCrefval (T : Tables) (ddo : DDO) (n : Node) : DDO :=
  -- `bufr_value_is_missing(cb->value)` means "no redefinition" (an integer -1 included: the library's
  -- sentinel); otherwise `reference = bufr_value_get_int32(cb->value)`
  if n.enc.type = .chngRef ∧ ddo.changeRefValOp > 0 ∧ !n.val.isMissing then
    if Desc.f n.desc = 0 then
      match T.fetchB n.desc with
      | some _ => { ddo with overrides := (n.desc, n.val.getInt32) :: ddo.overrides }
      | none => ddo
    else ddo
  else ddo

/-- `bufr_apply_Tables(ddo, bsq, tmplt, NULL, &errcode)`: every node in order.  `*errcode` is the
code of the *last* node (the C resets it only at the start and overwrites on error), so the
result is "some operator failed". -/
def applyTablesAll (T : Tables) (edition : Nat) : DDO → List Node → List Node × DDO × Bool
  | ddo, [] => ([], ddo, false)
  | ddo, n :: ns =>
    let (ddo1, n1, e1) := applyTables2node T edition ddo n
    let (ns', ddo2, e2) := applyTablesAll T edition ddo1 ns
    (n1 :: ns', ddo2, e1 || e2)

end Bufr
