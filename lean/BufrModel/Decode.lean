import BufrModel.Codec
/-
  BufrModel.Decode — the body of `bufr_decode_message_subsets` (bufr_dataset.c): template
  expansion for decoding, the uncompressed subset loop with on-the-fly delayed replication,
  and the compressed lock-step walk.
-/
namespace Bufr

/-- `bufr_check_sequence` run only for its flags (the decoder ignores its return code): was a
delayed replication seen before the loop stopped -/
def checkFlagsLoop (T : Tables) : List Nat → ChkSt → Bool
  | [], st => st.delayed
  | d :: ds, st =>
    match checkLoop T [d] st with
    | some st' => checkFlagsLoop T ds st'
    | none =>
      -- the loop breaks here; a delayed replication descriptor sets the flag before the break
      -- only if the break comes from the counters (the F=1 branch has run)
      st.delayed || (Desc.f d = 1 && Desc.y d = 0 && !(Desc.f d = 3) &&
        !(st.next31 && !isClass31Factor d) && !(st.next31021 && d ≠ 31021))

/-- `bufr_expand_node_descriptor(list, node, OP_EXPAND_DELAY_REPL|OP_ZDRC_IGNORE, tables, …, &s4)`
as the decoder calls it on a delayed replication node whose factor has just been read.
`rest` is the list after the factor node.  Returns the nodes replacing `[n, c31] ++ rest`. -/
def expandNodeDecode (T : Tables) (fuel : Nat) (s4 : Option Nat) (n c31 : Node) (rest : List Node) :
    Except XErr (List Node × Bool) :=
  let flags := OP_EXPAND_DELAY_REPL ||| OP_ZDRC_IGNORE
  let x := Desc.x n.desc
  if n.skipped ∨ n.expanded then .ok (n :: c31 :: rest, false)
  else
    let done := { n with flags := { n.flags with expanded := true, skipped := true } }
    let value0 : Int := if c31.hasVal then c31.ival else -1
    let c31v : Node := { c31 with val := if value0 < 0 then
                           (match c31.val with | .none => Val.i32 0 | v => v.setInt32 0) else c31.val }
    let value : Int := if value0 < 0 then 0 else value0
    let rep0 := solveReplication value (Desc.y c31.desc)
    let rep := if rep0 < 0 then 0 else rep0
    let c31f := { c31v with flags := { c31v.flags with class31 := true } }
    if rep > 0 then
      if rest.length < x then .error .null
      else
        match replDescriptors T fuel flags s4 (rest.take x) rep.toNat with
        | .error e => .error e
        | .ok (sub, e1) =>
          .ok (done :: { c31f with flags := { c31f.flags with expanded := true } } :: sub ++ rest.drop x, e1)
    else
      .ok (n :: c31f :: assignDescriptors T flags (rest.take x) ++ rest.drop x, false)

structure DecSt where
  r : R
  invalid : Bool := false
  s4len : Int := 0           -- `s4.len`: bits accounted for so far
  early : Bool := false      -- `return dts` from inside the loop: Section 1 is not copied to the dataset
deriving Repr

inductive SubsetEnd
  | complete                 -- walked to the end of the list
  | shortRead                -- premature end of data: INVALID, stop decoding after this subset
  | tooLong                  -- expansion refused / "message too short": return what there is
deriving DecidableEq, Repr

/-- the `while (node)` loop of the uncompressed decoder for one subset.  `done` is reversed. -/
def decodeSubsetLoop (T : Tables) (edition : Nat) (s4max : Nat) :
    Nat → DDO → DecSt → List Node → List Node → Except XErr (DecSt × List Node × SubsetEnd)
  | 0, _, _, _, _ => .error .fuel
  | _, _, st, done, [] => .ok (st, done.reverse, .complete)
  | f+1, ddo, st, done, n :: rest =>
    let (ddo1, n1, err) := applyTables2node T edition ddo n
    let st1 := { st with invalid := st.invalid || err }
    if n.flags.skipped then decodeSubsetLoop T edition s4max f ddo1 st1 (n1 :: done) rest
    else
      match getDescValue st1.r n1 with
      | none => .ok ({ st1 with invalid := true }, done.reverse ++ n1 :: rest, .shortRead)
      | some (r2, n2) =>
        let st2 := { st1 with r := r2 }
        let ddo2 := applyOpCrefval T ddo1 n2
        if Desc.f n2.desc = 1 ∧ Desc.y n2.desc = 0 then
          match rest with
          | [] => .error .null          -- the C dereferences a NULL node here
          | c31 :: rest' =>
            if Desc.f c31.desc = 0 ∧ Desc.x c31.desc = 31 then
              match getDescValue st2.r c31 with
              | none => .ok ({ st2 with invalid := true }, done.reverse ++ n2 :: c31 :: rest', .shortRead)
              | some (r3, c31r) =>
                let st3 := { st2 with r := r3 }
                match expandNodeDecode T f (some s4max) n2 c31r rest' with
                | .error .null =>
                  .ok ({ st3 with invalid := true }, done.reverse ++ n2 :: c31r :: rest', .tooLong)
                | .error e => .error e
                | .ok (lst, eflag) =>
                  let st4 := { st3 with invalid := st3.invalid || eflag }
                  let whole := done.reverse ++ lst
                  let len := minSeqLength whole
                  if (st4.s4len + len) / 8 > (s4max : Int) * 3 then
                    .ok (st4, whole, .tooLong)
                  else
                    match lst with
                    | a :: b :: more => decodeSubsetLoop T edition s4max f ddo2 st4 (b :: a :: done) more
                    | _ => .error .null
            else decodeSubsetLoop T edition s4max f ddo2 st2 (n2 :: done) rest
        else decodeSubsetLoop T edition s4max f ddo2 st2 (n2 :: done) rest

structure DecodeOut where
  subsets : List (List Node)
  invalid : Bool
  early : Bool := false        -- the decoder returned before copying Section 1 (`bufr_contains_tables` sees defaults)
deriving Repr

/-- the `for (j…)` loop of the uncompressed decoder -/
def decodeUncompressed (T : Tables) (edition : Nat) (enforce : Enforce) (fuel : Nat) (s4max : Nat)
    (bsq : List Node) (nbitsSeq : Int) (lenConst : Bool) (from_ to : Int) :
    Nat → Nat → DecSt → List (List Node) → Except XErr (DecSt × List (List Node))
  | 0, _, st, acc => .ok (st, acc.reverse)
  | k+1, j, st, acc =>
    match decodeSubsetLoop T edition s4max fuel { enforce := enforce } st [] bsq with
    | .error e => .error e
    | .ok (st1, nodes, fin) =>
      let filled := mkvalAll nodes
      match fin with
      | .tooLong => .ok ({ st1 with early := true }, (filled :: acc).reverse)
      | .shortRead =>
        -- the C sets `j = nbsubset` to leave the loop and then tests `j+1` against the requested range:
        -- `nbsubset + 1 <= subset_to` never holds (`to` is clamped to the subset count by the caller)
        let keep := lenConst ∨ from_ ≤ 0
        .ok (st1, (if keep then filled :: acc else acc).reverse)
      | .complete =>
        let st2 := { st1 with s4len := st1.s4len + (if lenConst then nbitsSeq else estimateSeqLength T fuel nodes) }
        let keep := lenConst ∨ from_ ≤ 0 ∨ (from_ ≤ (j : Int) + 1 ∧ (j : Int) + 1 ≤ to)
        decodeUncompressed T edition enforce fuel s4max bsq nbitsSeq lenConst from_ to k (j + 1) st2
          (if keep then filled :: acc else acc)

/-! ### compressed -/

/-- `bufr_descriptor_set_bitsvalue(cb, ival)` -/
def setBitsValue (n : Node) (ival : Nat) : Node :=
  if n.flags.skipped then n
  else if !(n.enc.type = .numeric || n.enc.type = .codetable || n.enc.type = .flagtable || n.enc.type = .chngRef) then n
  else
    let n1 := mkvalNode n
    let e := n1.enc
    let msng := missingIvalue e.nbits
    -- regulation 94.1.5 does not apply to the numeric elements of class 31: all ones is a count there
    let iv : Int := if ival = msng then (if e.type = .numeric ∧ Desc.x n1.desc = 31 then ival else -1) else ival
    match e.type with
    | .numeric =>
      match n1.val with
      | .i32 _ | .i64 _ => { n1 with val := n1.val.setInt64 (if iv ≠ -1 then iv + e.ref else iv) }
      | .f32 _ => { n1 with val := .f32 (.fin (Scale.cvtI32ToFval (sEnc e) ival)) }
      | .f64 _ => { n1 with val := .f64 (.fin (Scale.cvtI64ToDval (sEnc e) ival)) }
      | _ => n1
    | .chngRef => { n1 with val := n1.val.setInt64 (cvtIvalue ival e.nbits) }
    | _ => { n1 with val := n1.val.setInt64 iv }

/-- skip `k` bits (`bufr_skip_bits`), ignoring its error code as the callers do -/
def skipN (r : R) (k : Int) : R := if k ≤ 0 then r else (r.skipBits k.toNat).2

/-- read `count` increments of `nbinc` bits after skipping `(from-1)`; then skip `(n-to)` -/
def readIncs (r : R) (nbinc : Nat) : Nat → Option (List Nat × R)
  | 0 => some ([], r)
  | k+1 =>
    let (v, e, r1) := r.getbits nbinc
    if e < 0 then none
    else match readIncs r1 nbinc k with
      | some (vs, r2) => some (v :: vs, r2)
      | none => none

structure Range where
  nsub : Nat
  from_ : Int
  to : Int

def Range.count (g : Range) : Nat := if g.from_ > 0 then (g.to - g.from_ + 1).toNat else g.nsub

def zipWithNodes (f : Node → Nat → Node) : List Node → List Nat → List Node
  | n :: ns, v :: vs => f n v :: zipWithNodes f ns vs
  | ns, _ => ns

/-- `bufr_get_numeric_compressed` -/
def getNumericCompressed (r : R) (col : List Node) (g : Range) : Option (R × List Node) :=
  match col with
  | [] => some (r, col)
  | cb :: _ =>
    let nb := cb.enc.nbits
    let missing := missingIvalue nb
    let (imin, e1, r1) := r.getbits nb.toNat
    if e1 < 0 then none else
    let (nbinc0, e2, r2) := r1.getbits 6
    if (nbinc0 : Int) > nb then none        -- errcode = -2
    else
      -- 63 is a real increment width for elements of 63 bits or more
      let nbinc := if nbinc0 = 63 ∧ (nbinc0 : Int) > nb then 0 else nbinc0
      if e2 < 0 then none
      else if nbinc = 0 then some (r2, col.map (fun n => setBitsValue n imin))
      else
        let r3 := if g.from_ > 1 then skipN r2 (nbinc * (g.from_ - 1)) else r2
        let msng := missingIvalue nbinc
        match readIncs r3 nbinc g.count with
        | none => none
        | some (vs, r4) =>
          let col' := zipWithNodes (fun n v => setBitsValue n (if v = msng then missing else v + imin)) col vs
          let r5 := if g.from_ > 0 then skipN r4 (nbinc * ((g.nsub : Int) - g.to)) else r4
          some (r5, col')

/-- the increments `bufr_get_numeric_compressed` had read when a read failed -/
def readIncsPartial (r : R) (nbinc : Nat) : Nat → List Nat
  | 0 => []
  | k+1 =>
    let (v, e, r1) := r.getbits nbinc
    if e < 0 then [] else v :: readIncsPartial r1 nbinc k

/-- the column `bufr_get_numeric_compressed` leaves behind when it gives up (`getNumericCompressed = none`):
the subsets whose increment was read before the data ran out carry their value, the others are untouched -/
def numericPartial (r : R) (col : List Node) (g : Range) : List Node :=
  match col with
  | [] => col
  | cb :: _ =>
    let nb := cb.enc.nbits
    let missing := missingIvalue nb
    let (imin, e1, r1) := r.getbits nb.toNat
    if e1 < 0 then col else
    let (nbinc0, e2, r2) := r1.getbits 6
    if (nbinc0 : Int) > nb then col
    else
      let nbinc := if nbinc0 = 63 ∧ (nbinc0 : Int) > nb then 0 else nbinc0
      if e2 < 0 then col
      else if nbinc = 0 then col
      else
        let r3 := if g.from_ > 1 then skipN r2 (nbinc * (g.from_ - 1)) else r2
        let msng := missingIvalue nbinc
        zipWithNodes (fun n v => setBitsValue n (if v = msng then missing else v + imin)) col (readIncsPartial r3 nbinc g.count)

/-- `bufr_get_af_compressed`: `none` = error, otherwise reader and column -/
def getAfCompressed (r : R) (col : List Node) (g : Range) : Option (R × List Node) :=
  match col with
  | [] => some (r, col)
  | cb0 :: _ =>
    if cb0.enc.afNbits = 0 then some (r, col)
    else
      let cb := mkvalNode cb0
      let (imin, e1, r1) := r.getbits cb.afW
      if e1 < 0 then none else
      let (nbinc, e2, r2) := r1.getbits 6
      if e2 < 0 then none
      else if nbinc = 0 then some (r2, col.map (fun n => { mkvalNode n with afBits := imin }))
      else
        let r3 := if g.from_ > 1 then skipN r2 (nbinc * (g.from_ - 1)) else r2
        match readIncs r3 nbinc g.count with
        | none => none
        | some (vs, r4) =>
          let col' := zipWithNodes (fun n v => { mkvalNode n with afBits := v + imin }) col vs
          let r5 := if g.from_ > 0 then skipN r4 (nbinc * ((g.nsub : Int) - g.to)) else r4
          some (r5, col')

def readStrs (r : R) (len : Nat) : Nat → Option (List (List Nat) × R)
  | 0 => some ([], r)
  | k+1 =>
    let (cs, e, r1) := r.getstring len
    if len > 0 ∧ e < 0 then none
    else match readStrs r1 len k with
      | some (ss, r2) => some (cs :: ss, r2)
      | none => none

def zipWithStrs (f : Node → List Nat → Node) : List Node → List (List Nat) → List Node
  | n :: ns, v :: vs => f n v :: zipWithStrs f ns vs
  | ns, _ => ns

/-- `bufr_get_ccitt_compressed` -/
def getCcittCompressed (r : R) (col : List Node) (g : Range) : Option (R × List Node) :=
  match col with
  | [] => some (r, col)
  | cb :: _ =>
    let len := (cb.enc.nbits / 8).toNat
    let (cs, e1, r1) := r.getstring len
    if len > 0 ∧ e1 < 0 then none else
    let cbv := mkvalNode cb
    let v0 := cbv.val.setString (some cs) len
    let (nbinc0, e2, r2) := r1.getbits 6
    if e2 < 0 then none
    else
      let nbinc := if nbinc0 = 63 ∧ cb.enc.nbits ≠ 63 * 8 then 0 else nbinc0
      if nbinc = 0 then some (r2, col.map (fun n => { mkvalNode n with val := v0 }))
      else
        let r3 := if g.from_ > 1 then skipN r2 ((nbinc : Int) * 8 * (g.from_ - 1)) else r2
        match readStrs r3 nbinc g.count with
        | none => none
        | some (ss, r4) =>
          let col' := zipWithStrs (fun n s =>
            let m := mkvalNode n
            { m with val := m.val.setString (some s) (m.enc.nbits / 8).toNat }) col ss
          let r5 := if g.from_ > 0 then skipN r4 ((nbinc : Int) * 8 * ((g.nsub : Int) - g.to)) else r4
          some (r5, col')

/-- `bufr_get_ieeefp_compressed` -/
def getIeeeCompressed (r : R) (col : List Node) (g : Range) : Option (R × List Node) :=
  match col with
  | [] => some (r, col)
  | cb :: _ =>
    let nb : Nat := cb.enc.nbits.toNat
    let setv (n : Node) (v : Nat) : Node :=
      let m := mkvalNode n
      if m.enc.nbits = 64 then { m with val := m.val.setDouble (SF.ofDoubleBits v) }
      else { m with val := m.val.setFloat (SF.ofFloatBits v) }
    let (v0, e1, r1) := r.getbits nb
    if e1 < 0 then none else
    let (nbinc, e2, r2) := r1.getbits 6
    if e2 < 0 then none
    else if nbinc = 0 then some (r2, col.map (fun n => setv n v0))
    else
      let r3 := if g.from_ > 1 then skipN r2 ((nb : Int) * (g.from_ - 1)) else r2
      match readIncs r3 nb g.count with
      | none => none
      | some (vs, r4) =>
        let r5 := if g.from_ > 0 then skipN r4 ((nb : Int) * ((g.nsub : Int) - g.to)) else r4
        some (r5, zipWithNodes setv col vs)

/-- the `switch (cb->encoding.type)` of the compressed decoder: the column reader for the body of the
element (after its associated field) -/
def readBody (ty : DType) (r1 : R) (col2 : List Node) (g : Range) : Option (R × List Node) :=
  match ty with
  | .ccitt => getCcittCompressed r1 col2 g
  | .ieee => getIeeeCompressed r1 col2 g
  | .numeric | .codetable | .flagtable | .chngRef => getNumericCompressed r1 col2 g
  | _ => some (r1, col2)

/-- the expansion of one subset copy at the delayed replication node that precedes the factor just
read (`bufr_expand_node_descriptor` in the `for (i…)` loop of the compressed decoder), folded over
the copies: `p` = (what the copy has walked, reversed; the factor node; what is left); the lists
are built reversed -/
def expStep (T : Tables) (f s4max : Nat) (acc : Except XErr (List (List Node) × List (List Node) × Bool))
    (p : List Node × Node × List Node) : Except XErr (List (List Node) × List (List Node) × Bool) :=
  match acc with
  | .error e => .error e
  | .ok (ds, ts, inv) =>
    match p.1 with
    | rnode :: dprev =>
      match expandNodeDecode T f (some s4max) rnode p.2.1 p.2.2 with
      | .error e => .error e
      | .ok (lst, eflag) =>
        match lst with
        | a :: b :: more => .ok ((b :: a :: dprev) :: ds, more :: ts, inv || eflag)
        | _ => .error .null
    | [] => .error .null

structure CompSt where
  r : R
  invalid : Bool := false
  ddos : List DDO
  dones : List (List Node)      -- reversed, one per kept subset
  todos : List (List Node)
  pendingDelayed : Bool := false
  early : Bool := false

/-- the lock-step `while (node)` loop of the compressed decoder -/
def decodeCompressedLoop (T : Tables) (edition : Nat) (s4max : Nat) (g : Range) :
    Nat → CompSt → Except XErr CompSt
  | 0, _ => .error .fuel
  | f+1, st =>
    match st.todos with
    | [] => .ok st
    | todo0 :: _ =>
      match todo0 with
      | [] => .ok st
      | cb :: _ =>
        -- heads of every copy; a copy that ran out makes the C dereference NULL
        if st.todos.any (·.isEmpty) then .error .null else
        let heads := st.todos.filterMap (·.head?)
        let tails := st.todos.map (·.drop 1)
        let applied := List.zipWith (fun ddo n => applyTables2node T edition ddo n) st.ddos heads
        let ddos1 := applied.map (·.1)
        let col1 := applied.map (·.2.1)
        let inv1 := st.invalid || applied.any (·.2.2)
        if cb.flags.skipped then
          decodeCompressedLoop T edition s4max g f
            { st with invalid := inv1, ddos := ddos1, dones := List.zipWith (· :: ·) col1 st.dones, todos := tails }
        else
          let cb1 := col1.headD cb
          -- associated fields, then the body
          let afRes := getAfCompressed st.r col1 g
          match afRes with
          | none => .ok { st with invalid := true, ddos := ddos1,
                                  dones := List.zipWith (fun n d => n :: d) col1 st.dones, todos := tails }
          | some (r1, col2) =>
            let body : Option (R × List Node) := readBody cb1.enc.type r1 col2 g
            match body with
            | none =>
              -- the loop ends here (`node = NULL`), but only after the rest of this iteration: a delayed
              -- replication factor that was cut short is still expanded, in every copy, with whatever the
              -- column reader had set before it gave up
              if st.pendingDelayed ∧ (Desc.f cb.desc = 0 ∧ Desc.x cb.desc = 31) ∧ cb1.enc.type = .numeric then
                let colP := numericPartial r1 col2 g
                let stepP := expStep T f s4max
                match (List.zip st.dones (List.zip colP tails)).foldl stepP (.ok ([], [], false)) with
                | .error .null => .ok { st with r := r1, invalid := true, early := true, ddos := ddos1,
                                                dones := st.dones.map (fun _ => []), todos := tails.map (fun _ => []) }
                | .error e => .error e
                | .ok (ds, ts, _) =>
                  if ts.any (fun t => t.length != (ts.headD []).length) then
                    .ok { st with r := r1, invalid := true, early := true, ddos := ddos1,
                                  dones := st.dones.map (fun _ => []), todos := tails.map (fun _ => []) }
                  else
                    .ok { st with r := r1, invalid := true, ddos := ddos1, dones := ds.reverse, todos := ts.reverse }
              else
              .ok { st with r := r1, invalid := true, ddos := ddos1,
                                    dones := List.zipWith (fun n d => n :: d) col2 st.dones, todos := tails }
            | some (r2, col3) =>
              let ddos2 := List.zipWith (fun ddo n => applyOpCrefval T ddo n) ddos1 col3
              let isFactor := Desc.f cb.desc = 0 ∧ Desc.x cb.desc = 31
              if st.pendingDelayed ∧ isFactor then
                -- expand every copy at the delayed replication node that precedes the factor
                let step := expStep T f s4max
                match (List.zip st.dones (List.zip col3 tails)).foldl step (.ok ([], [], false)) with
                -- `return dts` with the subsets allocated but never filled (`subset->data == NULL`):
                -- an unfilled subset is the empty list
                | .error .null => .ok { st with r := r2, invalid := true, early := true, ddos := ddos2,
                                                dones := st.dones.map (fun _ => []), todos := tails.map (fun _ => []) }
                | .error e => .error e
                | .ok (ds, ts, inv) =>
                  -- a factor that differs between subsets leaves copies of different lengths: refused
                  -- like a failed expansion (94.6.3)
                  if ts.any (fun t => t.length != (ts.headD []).length) then
                    .ok { st with r := r2, invalid := true, early := true, ddos := ddos2,
                                  dones := st.dones.map (fun _ => []), todos := tails.map (fun _ => []) }
                  else
                  decodeCompressedLoop T edition s4max g f
                    { r := r2, invalid := inv1 || inv, ddos := ddos2, dones := ds.reverse, todos := ts.reverse, pendingDelayed := false }
              else
                let pend := !st.pendingDelayed && (Desc.f cb.desc = 1 && Desc.y cb.desc = 0)
                decodeCompressedLoop T edition s4max g f
                  { r := r2, invalid := inv1, ddos := ddos2, dones := List.zipWith (fun n d => n :: d) col3 st.dones,
                    todos := tails, pendingDelayed := pend }

/-- the compressed branch of `bufr_decode_message_subsets`: one copy of the expanded template per
subset kept, the lock-step loop, and the subsets put together -/
def decodeCompressedAll (T : Tables) (edition : Nat) (enforce : Enforce) (fuel s4max : Nat) (bsq : List Node)
    (err : Bool) (g : Range) (r0 : R) : Except XErr (Option DecodeOut) :=
  let n1 := g.count
  let st0 : CompSt := { r := r0, invalid := err, ddos := List.replicate n1 { enforce := enforce },
                        dones := List.replicate n1 [], todos := List.replicate n1 bsq }
  if n1 = 0 then .ok (some { subsets := [], invalid := err }) else
  match decodeCompressedLoop T edition s4max g fuel st0 with
  | .error e => .error e
  | .ok st =>
    let subs := List.zipWith (fun d t => mkvalAll (d.reverse ++ t)) st.dones st.todos
    .ok (some { subsets := subs, invalid := st.invalid, early := st.early })

/-- `bufr_decode_message_subsets(msg, tables, from, to)` after the template has been built:
`none` = the C returned NULL. -/
def decodeData (T : Tables) (fuel : Nat) (t : Template) (enforce : Enforce) (nsub : Nat) (compressed : Bool)
    (s4max : Nat) (data : List Nat) (from0 to0 : Int) : Except XErr (Option DecodeOut) :=
  if from0 > nsub then .ok none else
  -- a template made from an empty descriptor list is never finalised: `bufr_create_dataset` refuses it
  if t.descs.isEmpty then .ok none else
  let from_ : Int := if from0 < 0 then 1 else from0
  let to1 : Int := if to0 < from_ then from_ else to0
  let to : Int := if to1 > nsub then nsub else to1
  match expandSequence T fuel (OP_EXPAND_DELAY_REPL ||| OP_ZDRC_SKIP) t.gabarit with
  | .error .fuel => .error .fuel
  | .error _ => .ok none
  | .ok bsq0 =>
    let (bsq, _, err) := applyTablesAll T t.edition { enforce := enforce } bsq0
    if afAbort bsq then .error .abort else
    let hasDelayed := checkFlagsLoop T (bsq.map (·.desc)) {}
    let r0 : R := R.ofBytes data
    if !compressed then
      let lenConst := !(hasDelayed && decide (from_ > 0))
      let nbitsSeq := estimateSeqLength T fuel bsq
      let n1 : Nat := if lenConst ∧ from_ > 0 then (to - from_ + 1).toNat else nsub
      let r1 := if lenConst ∧ from_ > 1 then skipN r0 (nbitsSeq * (from_ - 1)) else r0
      match decodeUncompressed T t.edition enforce fuel s4max bsq nbitsSeq lenConst from_ to n1 0
              { r := r1, invalid := err } [] with
      | .error e => .error e
      | .ok (st, subs) => .ok (some { subsets := subs, invalid := st.invalid, early := st.early })
    else decodeCompressedAll T t.edition enforce fuel s4max bsq err { nsub := nsub, from_ := from_, to := to } r0

end Bufr
