import BufrModel.Core
import BufrModel.Scale
/-
  BufrModel.Find — searching a data subset (C17), mirrored branch by branch:

    findDescriptor      bufr_subset_find_descriptor            (bufr_api.c)
    findValues          bufr_subset_find_values: the split of the keys by flag bits and the
                        `i / j / jj` loop with its restart (`findLoop`)
    setKeyInt32 …       bufr_set_key_int32 / _flt32 / _string / _qualifier / _qualifier_int32 / _flt32
    compareValue        bufr_compare_value                      (bufr_value.c)
    betweenValues       bufr_between_values
    expandQualifiers    bufr_expand_qualifiers                  (bufr_dataset.c): the stack of qualifiers
                        of classes 01–09, one list of positions per descriptor
    fetchRtmdQualifier  bufr_fetch_rtmd_qualifier               (bufr_meta.c)

  A qualifier list (`BufrRTMD.qualifiers`, pointers to descriptors of the same subset) is a list of
  positions; `quals : List (List Nat)` runs parallel to the descriptors (`[]`: no run-time metadata, or
  none with qualifiers — the search cannot tell them apart).

  Floating point: `fabs(f1-f2) <= eps` is one correctly rounded subtraction (`fpSub`) and an exact
  comparison; `eps = 0.5 / pow(10, scale)` with `pow` as in BufrModel.Scale (contract: correctly rounded).

  NOT modelled: time/location keys (TLC_FLAG_BIT, they need the location part of the run-time
  metadata); the driver and the harness answer `unsupported` for them.  Callback keys
  (CB_FLAG_BIT with a value) are modelled for the three callbacks the harness registers (`cbEval`).  A key whose descriptor merely has the callback bit set and no value
  (a replication or operator descriptor used as a key) is modelled: it can never match.
-/
namespace Bufr.Find
open Bufr Bufr.SF

def TLC_FLAG_BIT : Nat := 0x80000
def QUAL_FLAG_BIT : Nat := 0x40000
def CB_FLAG_BIT : Nat := 0x20000

/-- bit `b` (a power of two) of the nonnegative `int` `d` is set: `d & b` -/
def hasBit (d b : Nat) : Bool := d / b % 2 = 1

/-- `d | b` for a single bit `b` -/
def setBit (d b : Nat) : Nat := if hasBit d b then d else d + b

/-- `d & ~FLAG_BITS`: bits 17, 18 and 19 cleared -/
def stripFlags (d : Nat) : Nat := d % 0x20000 + d / 0x100000 * 0x100000

/-- `BufrDescValue` used as a search key: `descriptor` (with its flag bits) and `values[0..nbval)` -/
structure Key where
  desc : Nat
  vals : List Val
deriving DecidableEq, Repr, Inhabited

def Key.isTlc (k : Key) : Bool := hasBit k.desc TLC_FLAG_BIT
def Key.isQual (k : Key) : Bool := hasBit k.desc QUAL_FLAG_BIT
def Key.hasCb (k : Key) : Bool := hasBit k.desc CB_FLAG_BIT

/-! ### key constructors -/

/-- the value `bufr_set_key_int32` makes for one `int`: the missing integer becomes a FLT32 value,
left as `bufr_create_value` made it (missing) -/
def keyValInt32 (v : Int) : Val :=
  let v := wrapI32 v
  if v = -1 then .f32 (.fin maxFloat) else .i32 v

/-- `bufr_set_key_int32(cv, descriptor, values, nbval)` -/
def setKeyInt32 (desc : Nat) (vs : List Int) : Key := { desc := desc, vals := vs.map keyValInt32 }
/-- `bufr_set_key_flt32(cv, descriptor, values, nbval)` -/
def setKeyFlt32 (desc : Nat) (xs : List FP) : Key := { desc := desc, vals := xs.map Val.f32 }
/-- `bufr_set_key_string(cv, descriptor, values, nbval)`: each value is a C string, stored with its `strlen` -/
def setKeyString (desc : Nat) (ss : List (List Nat)) : Key :=
  { desc := desc, vals := ss.map fun bs => Val.str (bs.takeWhile (· ≠ 0)) }
/-- `bufr_set_key_qualifier(cv, descriptor, value)`: `value` may be NULL (no value) -/
def setKeyQualifier (desc : Nat) (v : Option Val) : Key := { desc := setBit desc QUAL_FLAG_BIT, vals := v.toList }
/-- `bufr_set_key_qualifier_int32(cv, descriptor, value)` -/
def setKeyQualifierInt32 (desc : Nat) (v : Int) : Key := { desc := setBit desc QUAL_FLAG_BIT, vals := [keyValInt32 v] }
/-- `bufr_set_key_qualifier_flt32(cv, descriptor, value)` -/
def setKeyQualifierFlt32 (desc : Nat) (x : FP) : Key := { desc := setBit desc QUAL_FLAG_BIT, vals := [.f32 x] }

/-! ### floating point pieces -/

def rabs (q : Rat) : Rat := if q < 0 then -q else q

/-- `a - b` in a format of `p` significant bits whose largest finite value is `mx` -/
def fpSub (p : Nat) (mx : Rat) : FP → FP → FP
  | .nan, _ => .nan
  | _, .nan => .nan
  | .inf s, .inf t => if s = t then .nan else .inf s
  | .inf s, .fin _ => .inf s
  | .fin _, .inf t => .inf (!t)
  | .fin a, .fin b =>
    let r := fl p (a - b)
    if rabs r > mx then .inf (decide (r < 0)) else .fin r

/-- `fabs(x) <= eps` -/
def fpAbsLe (x : FP) (eps : Rat) : Bool :=
  match x with
  | .fin q => decide (rabs q ≤ eps)
  | _ => false

/-- IEEE `a <= b` -/
def fpLe : FP → FP → Bool
  | .nan, _ => false
  | _, .nan => false
  | .inf true, _ => true
  | _, .inf false => true
  | .inf false, _ => false
  | _, .inf true => false
  | .fin a, .fin b => decide (a ≤ b)

/-- `epsilon = 0.5 / (scale ? pow(10,(double)scale) : 1)` -/
def epsilonOf (scale : Int) : Rat :=
  fl 53 ((1/2 : Rat) / (if scale = 0 then 1 else Scale.pow10 scale))

/-! ### strings -/

/-- `strncmp(s1, s2, n) == 0`; the buffers hold `a` and `b` followed by a NUL -/
def strncmpEq : Nat → List Nat → List Nat → Bool
  | 0, _, _ => true
  | n+1, a, b =>
    let c1 := a.headD 0
    let c2 := b.headD 0
    if c1 ≠ c2 then false else if c1 = 0 then true else strncmpEq n a.tail b.tail

/-- the rest of the longer string up to its NUL is blank -/
def restIsPadding : List Nat → Bool
  | [] => true
  | c :: cs => if c = 0 then true else if c ≠ 32 then false else restIsPadding cs

/-- the VALTYPE_STRING case of `bufr_compare_value` returns 0 -/
def compareStrEq (a b : List Nat) : Bool :=
  let len := min a.length b.length
  if !strncmpEq len a b then false
  else restIsPadding ((if a.length > b.length then a else b).drop len)

/-- `strcmp(a, b) == 0` -/
def cstrEq (a b : List Nat) : Bool := a.takeWhile (· ≠ 0) == b.takeWhile (· ≠ 0)

/-! ### bufr_compare_value, bufr_between_values -/

def isIntVal : Val → Bool | .i32 _ => true | .i64 _ => true | _ => false
def isFltVal : Val → Bool | .f32 _ => true | .f64 _ => true | _ => false
def isStrVal : Val → Bool | .str _ => true | _ => false

/-- `bufr_compare_value(bv1, bv2, eps)`: 0 = equal.  Only "zero or not" is observable through the search. -/
def compareValue (bv1 bv2 : Val) (eps : Rat) : Int :=
  if isIntVal bv1 && isFltVal bv2 then
    -- an integer compared with a real: as reals
    if fpAbsLe (fpSub 53 maxDouble bv1.getDouble bv2.getDouble) eps then 0 else -1
  else
  match bv1 with
  | .i32 _ => if bv1.getInt32 = bv2.getInt32 then 0 else -1
  | .i64 _ => if bv1.getInt64 = bv2.getInt64 then 0 else -1
  | .f32 _ => if fpAbsLe (fpSub 24 maxFloat bv1.getFloat bv2.getFloat) eps then 0 else -1
  | .f64 _ => if fpAbsLe (fpSub 53 maxDouble bv1.getDouble bv2.getDouble) eps then 0 else -1
  | .str a =>
    -- `bufr_value_get_string` of a value that is not a string: NULL with length 0
    let b := match bv2 with | .str b => b | _ => []
    if compareStrEq a b then 0 else 1
  | .none => -1

/-- `bufr_between_values(bv1, bv, bv2)`: 1 = `bv1 <= bv <= bv2` -/
def betweenValues (bv1 bv bv2 : Val) : Int :=
  if (isStrVal bv1 != isStrVal bv) || (isStrVal bv2 != isStrVal bv) then -1
  else if !isStrVal bv && bv.isMissing then 0
  else
    let dbl : Int :=
      if fpLe bv1.getDouble bv.getDouble && fpLe bv.getDouble bv2.getDouble then 1 else 0
    match bv with
    | .i32 _ | .i64 _ =>
      if !isFltVal bv1 && !isFltVal bv2 then
        (if bv1.getInt64 ≤ bv.getInt64 ∧ bv.getInt64 ≤ bv2.getInt64 then 1 else 0)
      else dbl
    | .f32 _ | .f64 _ => dbl
    | .str s =>
      match bv1, bv2 with
      | .str s1, .str s2 => if cstrEq s1 s || cstrEq s2 s then 1 else 0
      | _, _ => 0
    | .none => 0

/-! ### qualifiers -/

/-- `bufr_is_qualifier(desc)`: an element descriptor of classes 01–09 -/
def isQualifier (d : Nat) : Bool := Desc.f d = 0 && 1 ≤ Desc.x d && Desc.x d ≤ 9

/-- the backward search of the stack for an entry with descriptor `d` (`for (qpos = nb_quals-1; …; qpos--)`)
and what is done with the entry found: it is redefined in place (`new = some i`), or cancelled and the
entries behind it moved up (`new = none`).  `none`: no entry has that descriptor. -/
def stackReplaceLast (ns : List Node) (d : Nat) (new : Option Nat) : List Nat → Option (List Nat)
  | [] => none
  | k :: rest =>
    match stackReplaceLast ns d new rest with
    | some rest' => some (k :: rest')
    | none => if (ns[k]?.map (·.desc)) = some d then some (new.toList ++ rest) else none

/-- the qualifier part of one turn of the loop of `bufr_expand_qualifiers` at position `i`:
the new stack -/
def stackUpdate (ns : List Node) (st : List Nat) (i : Nat) (n : Node) : List Nat :=
  if isQualifier n.desc && n.val.isSome && !n.flags.skipped then
    if n.val.isMissing then
      (stackReplaceLast ns n.desc none st).getD st            -- cancel; nothing to do when absent
    else
      (stackReplaceLast ns n.desc (some i) st).getD (st ++ [i])   -- redefine in place, or append
  else st

/-- the list a descriptor is given: the entries of the stack that have a value that is not missing -/
def stackCopy (ns : List Node) (st : List Nat) : List Nat :=
  st.filter fun k => match ns[k]? with
    | some q => q.val.isSome && !q.val.isMissing
    | none => false

def expandQualsGo (enabled : Bool) (ns : List Node) : List Node → List (List Nat) → Nat → List Nat → List (List Nat)
  | [], _, _, _ => []
  | n :: rest, prev, i, st =>
    let old := prev.headD []
    if n.flags.class31 || n.flags.class33 then old :: expandQualsGo enabled ns rest prev.tail (i+1) st
    else
      -- rewritten whenever the tracking is enabled (also to the empty list when nothing is in effect)
      let mine := if enabled then stackCopy ns st else old
      mine :: expandQualsGo enabled ns rest prev.tail (i+1) (stackUpdate ns st i n)

/-- `bufr_expand_qualifiers(dss)` with `bufr_meta_enabled = enabled`; `prev` = the lists the descriptors
already have.  Result: the return code and the new lists. -/
def expandQualifiers (enabled : Bool) (ns : List Node) (prev : List (List Nat)) : Int × List (List Nat) :=
  if ns.isEmpty then (-1, []) else (ns.length, expandQualsGo enabled ns ns prev 0 [])

/-- the entry `k` of a qualifier list, if its descriptor is `d` -/
def qualAt (ns : List Node) (d : Nat) (k : Nat) : Option Node :=
  match ns[k]? with
  | some q => if q.desc = d then some q else none
  | none => none

/-- `bufr_fetch_rtmd_qualifier(descriptor, rtmd)`: the first entry of the list with that descriptor -/
def fetchRtmdQualifier (ns : List Node) (ql : List Nat) (d : Nat) : Option Node :=
  ql.findSome? (qualAt ns d)

/-! ### the search -/

/-- `bufr_subset_find_descriptor(dts, descriptor, startpos)` -/
def findDescGo (d : Int) : List Node → Nat → Int
  | [], _ => -1
  | n :: rest, i => if (n.desc : Int) = d then i else findDescGo d rest (i+1)

def findDescriptor (ns : List Node) (d : Int) (start : Int) : Int :=
  let s := if start < 0 then 0 else start.toNat
  if s ≥ ns.length then -1 else findDescGo d (ns.drop s) s

/-- the three lists the keys are broken into: (time/location, qualifier, descriptor) -/
def splitKeys : List Key → List Key × List Key × List Key
  | [] => ([], [], [])
  | k :: rest =>
    let (t, q, d) := splitKeys rest
    if k.isTlc then (k :: t, q, d) else if k.isQual then (t, k :: q, d) else (t, q, k :: d)

/-- one qualifier key against the qualifiers of the descriptor at the current position -/
def qualKeyOk (ns : List Node) (ql : List Nat) (qk : Key) : Bool :=
  match fetchRtmdQualifier ns ql (stripFlags qk.desc) with
  | none => false
  | some qd =>
    match qk.vals with
    | [] => true
    | v :: _ => compareValue qd.val v (epsilonOf qd.enc.scale) == 0

/-- the callbacks the correspondence harness registers with `bufr_set_key_callback` (a callback is the
application's code; a key made by the harness carries `[kind, argument]` in place of the function
pointer): 0 = always matches, 1 = never matches, 2 = the element holds the INT32 value `argument`.
The callback answers 0 for a match. -/
def cbEval (cb : Node) (vals : List Val) : Bool :=
  match vals with
  | [.i32 0, _] => true
  | [.i32 1, _] => false
  | [.i32 2, .i32 a] => (match cb.val with | .i32 v => v == a | _ => false)
  | _ => false

/-- the value test of the descriptor key `k` on the descriptor `cb` (same descriptor already) -/
def elemKeyOk (cb : Node) (k : Key) : Bool :=
  if k.hasCb && k.vals.length > 0 then cbEval cb k.vals        -- callback keys
  else
    match k.vals with
    | [] => true
    | [lo, hi] => cb.val.isSome && betweenValues lo cb.val hi == 1
    | vs => cb.val.isSome && vs.any fun v => compareValue cb.val v (epsilonOf cb.enc.scale) == 0

/-- everything the loop body tests at position `i` for the `j`-th descriptor key -/
def posMatch (ns : List Node) (quals : List (List Nat)) (qk dk : List Key) (i j : Nat) : Bool :=
  match ns[i]?, dk[j]? with
  | some cb, some k =>
    cb.desc == stripFlags k.desc && qk.all (qualKeyOk ns (quals.getD i [])) && elemKeyOk cb k
  | _, _ => false

/-- the loop `for (i = startpos; j < nb_desc && i < count; i++)` with its three variables; `m i j` is the
outcome of the body's tests.  On a mismatch `i` goes back to `jj` (when there is a partial match) so that
the `i++` of the loop resumes at `jj+1`. -/
def findLoop (m : Nat → Nat → Bool) (nb count : Nat) : Nat → Nat → Nat → Int → Int
  | 0, _, j, jj => if j = nb then jj else -1
  | fuel+1, i, j, jj =>
    if j < nb ∧ i < count then
      if m i j then findLoop m nb count fuel (i+1) (j+1) (if jj < 0 then (i : Int) else jj)
      else findLoop m nb count fuel ((if jj ≥ 0 then jj.toNat else i) + 1) 0 (-1)
    else if j = nb then jj else -1

/-- enough turns for every run of the loop (`BufrProofs.Find.findLoop_eq`) -/
def findFuel (nb count : Nat) : Nat := (count + 1) * (nb + 1)

/-- `bufr_subset_find_values(dts, codes, nb, startpos)` on a subset with descriptors `ns` whose
qualifier lists are `quals` -/
def findValues (ns : List Node) (quals : List (List Nat)) (keys : List Key) (start : Int) : Int :=
  let count := ns.length
  if count = 0 then -1
  else if start ≥ count then -1
  else
    let s : Nat := if start < 0 then 0 else start.toNat
    if keys.isEmpty then s
    else
      let (_, qk, dk) := splitKeys keys
      findLoop (posMatch ns quals qk dk) dk.length count (findFuel dk.length count) s 0 s

end Bufr.Find
