import BufrModel.Ops
import BufrModel.Expand
/-
  BufrModel.Template — `bufr_create_template`/`bufr_finalize_template` (bufr_template.c) and
  the build of a data subset from it: `bufr_create_datasubset`, `bufr_expand_datasubset`
  (bufr_dataset.c), at the level of descriptor nodes, encodings and class 31 factors.
-/
namespace Bufr

structure Template where
  edition : Nat
  descs : List Nat
  gabarit : List Node
  hasDelayed : Bool
deriving Repr

/-- the per-descriptor validity test of `bufr_create_template` and `bufr_finalize_template` -/
def descsValid (T : Tables) : Option Nat → List Nat → Bool
  | _, [] => true
  | prev, d :: ds =>
    let ok :=
      if !isDescriptor d then false
      else if isTableB d then
        (T.fetchB d).isSome || (match prev with | some p => isSigDatawidth p | none => false)
      else true
    ok && descsValid T (some d) ds

/-- fuel for expansions: generous, and checked by `C10_total` to suffice for acyclic tables -/
def defaultFuel : Nat := 4000000

/-- `bufr_create_template(descs, nb, tbls, edition)`; `none` = NULL -/
def createTemplate (T : Tables) (fuel : Nat) (edition : Nat) (descs : List Nat) : Except XErr Template :=
  if !descsValid T none descs then .error .null
  else match checkSequence T descs with
    | none => .error .null
    | some delayed =>
      match expandSequence T fuel 0 (descs.map (mkNode T)) with
      | .error e => .error e
      | .ok g =>
        -- a delayed replication may also come from inside a Table D sequence
        let d2 := g.any fun n => Desc.f n.desc = 1 && Desc.y n.desc = 0
        .ok { edition := edition, descs := descs, gabarit := g, hasDelayed := delayed || d2 }

/-- `bufr_sequence_to_array(bsq, 1)`: every node of a value-bearing type gets a value (missing) -/
def mkvalAll (ns : List Node) : List Node := ns.map mkvalNode

/-- `bufr_create_afd` calls `bufr_abort` when the associated fields in force exceed 64 bits -/
def afAbort (ns : List Node) : Bool := ns.any fun n => decide (n.af.foldl (· + ·) 0 > 64)

structure Subset where
  nodes : List Node
deriving Repr

/-- `bufr_create_datasubset(dts)`: result nodes and whether BUFR_FLAG_INVALID was raised -/
def createDatasubset (T : Tables) (fuel : Nat) (t : Template) : Except XErr (Subset × Bool) :=
  let r := if t.hasDelayed then expandSequence T fuel (OP_EXPAND_DELAY_REPL ||| OP_ZDRC_SKIP) t.gabarit
           else .ok t.gabarit
  match r with
  | .error e => .error e
  | .ok ns =>
    let (ns', _, err) := applyTablesAll T t.edition { enforce := .strict } ns
    if afAbort ns' then .error .abort else
    .ok ({ nodes := mkvalAll ns' }, err)

/-- `bufr_expand_datasubset(dts, pos)` -/
def expandDatasubset (T : Tables) (fuel : Nat) (t : Template) (s : Subset) : Except XErr (Subset × Bool) :=
  match expandSequence T fuel (OP_EXPAND_DELAY_REPL ||| OP_ZDRC_SKIP) s.nodes with
  | .error e => .error e
  | .ok ns =>
    let (ns', _, err) := applyTablesAll T t.edition { enforce := .strict } ns
    if afAbort ns' then .error .abort else
    .ok ({ nodes := mkvalAll ns' }, err)

/-- `bufr_check_class31_set`: a factor that has been used for an expansion is locked -/
def class31Locked (n : Node) : Bool :=
  (n.desc = 31000 || n.desc = 31001 || n.desc = 31002) &&
  n.flags.class31 && n.hasVal && decide (n.ival > 0) && n.flags.expanded

end Bufr
