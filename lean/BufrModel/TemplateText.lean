import BufrModel.Template
/-
  BufrModel.TemplateText — templates with default values and their text form (C18):
  `bufr_create_template` / `bufr_template_add_DescValue` / `bufr_finalize_template` with
  `BufrDescValue` default values, `bufr_copy_template`, `bufr_compare_template`,
  `bufr_save_template` (byte for byte) and `bufr_load_template` (bufr_template.c), together
  with the libc routines the two text functions lean on:

    * `printf("%d")`, `atoi`, `atol`  (`printInt`, `atoiC`, `atolC`: `strtol` saturates, the cast
      to `int` wraps);
    * `strtok_r` (`nextTok`) and the library's own `bufr_next_tmplt_value` (`nextValue`);
    * `printf("%.15g")` / `printf("%.17g")` of a finite double (`printG`: the exact value rounded
      half-even to P significant decimal digits, `%e`/`%f` style by the C rule, trailing zeros removed)
      and `strtod` / `strtof` (`strtodC`, `strtofC`: the exact decimal or hexadecimal value rounded
      to nearest-even binary64 / binary32 with subnormals and overflow to infinity; `inf`, `nan`).
      Both are CONTRACTS on glibc (exactly rounded conversions in the C locale), checked by the
      correspondence on every value that goes through a template text.

  A text is a list of bytes.  Lines are what `bufr_read_tmplt_line` returns (up to and including
  the newline, any length); the C string functions stop at the first NUL of a line.

  Not modelled: the `LOCAL_TABLEB` / `MASTER_TABLEB` / `LOCAL_TABLED` / `MASTER_TABLED` lines make the
  loader read table files; here they are skipped (the tables are the parameter `T`), and a NULL
  master table argument does not occur.  `−0.0` is identified with `0` (`SF.FP`).  VALTYPE_INT8
  values are not distinguished from VALTYPE_INT32 (the loader never creates them).
-/
namespace Bufr
namespace TT
open SF

/-! ### byte constants -/
def kwLOCAL_TABLEB : List Nat := [76, 79, 67, 65, 76, 95, 84, 65, 66, 76, 69, 66]   -- "LOCAL_TABLEB"
def kwMASTER_TABLEB : List Nat := [77, 65, 83, 84, 69, 82, 95, 84, 65, 66, 76, 69, 66]   -- "MASTER_TABLEB"
def kwLOCAL_TABLED : List Nat := [76, 79, 67, 65, 76, 95, 84, 65, 66, 76, 69, 68]   -- "LOCAL_TABLED"
def kwMASTER_TABLED : List Nat := [77, 65, 83, 84, 69, 82, 95, 84, 65, 66, 76, 69, 68]   -- "MASTER_TABLED"
def kwBUFR_EDITION : List Nat := [66, 85, 70, 82, 95, 69, 68, 73, 84, 73, 79, 78]   -- "BUFR_EDITION"
def kwVALUE : List Nat := [86, 65, 76, 85, 69]   -- "VALUE"
def kwMSNG : List Nat := [77, 83, 78, 71]   -- "MSNG"
def kwCommaValueEq : List Nat := [44, 86, 65, 76, 85, 69, 61]   -- ",VALUE="
def hdrA : List Nat := [35, 32, 84, 104, 105, 115, 32, 102, 105, 108, 101, 32, 99, 111, 110, 116, 97, 105, 110, 115, 32]   -- "# This file contains "
def hdrB : List Nat := [32, 67, 111, 100, 101, 115, 32, 111, 102, 32, 115, 101, 99, 116, 105, 111, 110, 32, 51, 32, 111, 114, 32, 84, 101, 109, 112, 108, 97, 116, 101]   -- " Codes of section 3 or Template"
def hdrEd : List Nat := [66, 85, 70, 82, 95, 69, 68, 73, 84, 73, 79, 78, 61]   -- "BUFR_EDITION="
def hdrSep : List Nat := [35]   -- "#"
def kwInf : List Nat := [105, 110, 102]   -- "inf"
def kwNan : List Nat := [110, 97, 110]   -- "nan"

/-! ### templates with default values -/

/-- `BufrDescValue`: a descriptor and its default values (`nbval`, `values[]`; `Val.none` = a NULL entry) -/
structure DescVal where
  desc : Nat
  vals : List Val := []
deriving DecidableEq, Repr, Inhabited

/-- `BUFR_Template`: edition, the descriptor list as given (`codets`), the expanded list
(`gabarit`) and HAS_DELAYED_REPLICATION; the tables are a parameter of every function -/
structure TmplV where
  edition : Int
  codets : List DescVal
  gabarit : List Node
  hasDelayed : Bool
deriving DecidableEq, Repr

/-- `bufr_duplicate_value`: `bufr_create_value(type)` then `bufr_copy_value`; a string goes through
`bufr_value_set_string(dest, src->value, src->len)` -/
def dupVal : Val → Val
  | .str bs => .str (strPad (some bs) bs.length)
  | v => v

/-- the value `bufr_finalize_template` gives the descriptor: `code->values ? dup(values[0]) : NULL` -/
def firstVal (c : DescVal) : Val :=
  match c.vals with
  | [] => .none
  | v :: _ => dupVal v

/-- `bufr_finalize_template(tmplt)` on `tmplt->codets`; `.null` = −1 -/
def finalizeV (T : Tables) (fuel : Nat) (edition : Int) (cs : List DescVal) : Except XErr TmplV :=
  let descs := cs.map (·.desc)
  if !descsValid T none descs then .error .null
  else match checkSequence T descs with
    | none => .error .null
    | some delayed =>
      match expandSequence T fuel 0 (cs.map fun c => { mkNode T c.desc with val := firstVal c }) with
      | .error e => .error e
      | .ok g =>
        let d2 := g.any fun n => Desc.f n.desc = 1 && Desc.y n.desc = 0
        .ok { edition := edition, codets := cs, gabarit := g, hasDelayed := delayed || d2 }

/-- `bufr_template_add_DescValue`: every value is duplicated -/
def addDescValue (cs : List DescVal) : List DescVal := cs.map fun c => { c with vals := c.vals.map dupVal }

/-- `bufr_create_template(descs, nb, tbls, edition)` with `nb > 0` (its validity loop is the one of
`bufr_finalize_template`) -/
def createTemplateV (T : Tables) (fuel : Nat) (edition : Int) (cs : List DescVal) : Except XErr TmplV :=
  finalizeV T fuel edition (addDescValue cs)

/-- `bufr_copy_template(tmplt)` = `bufr_create_template(codets, count, tmplt->tables, tmplt->edition)` -/
def copyTemplate (T : Tables) (fuel : Nat) (t : TmplV) : Except XErr TmplV :=
  createTemplateV T fuel t.edition t.codets

/-- `bufr_compare_template(t1, t2)`: 0 when the expanded lists have the same length and the same
descriptors, −1 otherwise.  Editions, default values and the unexpanded lists are not looked at. -/
def compareTemplate (t1 t2 : TmplV) : Int :=
  if t1.gabarit.length ≠ t2.gabarit.length then -1
  else if (t1.gabarit.zip t2.gabarit).all (fun p => p.1.desc = p.2.desc) then 0 else -1

/-- the view of a template the expansion and codec models work on -/
def TmplV.toTemplate (t : TmplV) : Template :=
  { edition := t.edition.toNat, descs := t.codets.map (·.desc), gabarit := t.gabarit, hasDelayed := t.hasDelayed }

/-! ### integers: `%d`, `atoi`, `atol` -/

def isSpace (c : Nat) : Bool := c = 32 || (9 ≤ c && c ≤ 13)
def isDigit (c : Nat) : Bool := 48 ≤ c && c ≤ 57

def digitsAux : Nat → Nat → List Nat → List Nat
  | 0, _, acc => acc
  | f + 1, n, acc => if n < 10 then (48 + n) :: acc else digitsAux f (n / 10) ((48 + n % 10) :: acc)

/-- decimal digits, most significant first (`%u`) -/
def natDigits (n : Nat) : List Nat := digitsAux (n + 1) n []

/-- `%d` / `%lld` -/
def printInt (z : Int) : List Nat := if z < 0 then 45 :: natDigits z.natAbs else natDigits z.toNat

/-- value of the leading decimal digits, continuing from `a` -/
def digitsVal : List Nat → Nat → Nat
  | [], a => a
  | c :: cs, a => if isDigit c then digitsVal cs (a * 10 + (c - 48)) else a

/-- optional sign: `(negative, rest)` -/
def takeSign : List Nat → Bool × List Nat
  | 45 :: r => (true, r)
  | 43 :: r => (false, r)
  | r => (false, r)

/-- `strtol(s, NULL, 10)` on a 64-bit `long`: white space, sign, digits; saturates -/
def strtolC (s : List Nat) : Int :=
  let (neg, s2) := takeSign (s.dropWhile isSpace)
  let v : Int := digitsVal s2 0
  let z := if neg then -v else v
  if z < -(2:Int)^63 then -(2:Int)^63 else if z > (2:Int)^63 - 1 then (2:Int)^63 - 1 else z

/-- `atoi(s)` = `(int)strtol(s, NULL, 10)` -/
def atoiC (s : List Nat) : Int := wrapI32 (strtolC s)
/-- `atol(s)` -/
def atolC (s : List Nat) : Int := strtolC s

/-! ### reals: `strtod`, `strtof`, `%.Pg` -/

/-- round to the nearest binary floating-point number with `p` significant bits, smallest ulp
`2^umin`, ties to even; a result of `2^emax` or more is an overflow -/
def roundBin (p : Nat) (umin emax : Int) (q : Rat) : FP :=
  if q = 0 then .fin 0 else
  let a := if q < 0 then -q else q
  let u := max (ilog2 a - ((p : Int) - 1)) umin
  let r := (rne (a / pow2 u) : Rat) * pow2 u
  if pow2 emax ≤ r then .inf (decide (q < 0)) else .fin (if q < 0 then -r else r)

def lower (c : Nat) : Nat := if 65 ≤ c ∧ c ≤ 90 then c + 32 else c
def startsWithCI (s kw : List Nat) : Bool := (s.take kw.length).map lower == kw

/-- the exponent part `e [sign] digits` (markers `c1`, `c2`); it counts only when a digit follows -/
def parseExpPart (c1 c2 : Nat) (r2 : List Nat) : Int :=
  match r2 with
  | c :: r =>
    if c = c1 ∨ c = c2 then
      match (takeSign r).2 with
      | d :: _ =>
        if isDigit d then (if (takeSign r).1 then -(digitsVal (takeSign r).2 0 : Int) else (digitsVal (takeSign r).2 0 : Int)) else 0
      | [] => 0
    else 0
  | [] => 0

/-- the fraction digits after a radix point, if `r1` begins with one -/
def fracDigits (p : Nat → Bool) : List Nat → List Nat
  | 46 :: r => r.takeWhile p
  | _ => []
/-- what follows the fraction (or `r1` itself when it does not begin with a radix point) -/
def fracRest (p : Nat → Bool) : List Nat → List Nat
  | 46 :: r => r.dropWhile p
  | r1 => r1

/-- `digits [. digits] [e [sign] digits]`: mantissa `M` and exponent `E` with value `M·10^E`;
`none` when there is no digit (no conversion) -/
def parseDecimal (s : List Nat) : Option (Nat × Int) :=
  let ip := s.takeWhile isDigit
  let r1 := s.dropWhile isDigit
  let fp := fracDigits isDigit r1
  let r2 := fracRest isDigit r1
  if ip.isEmpty ∧ fp.isEmpty then none else
  some (digitsVal (ip ++ fp) 0, parseExpPart 101 69 r2 - fp.length)

def hexDigitVal (c : Nat) : Option Nat :=
  if 48 ≤ c ∧ c ≤ 57 then some (c - 48)
  else if 97 ≤ c ∧ c ≤ 102 then some (c - 87)
  else if 65 ≤ c ∧ c ≤ 70 then some (c - 55)
  else none
def isHex (c : Nat) : Bool := (hexDigitVal c).isSome
def hexVal : List Nat → Nat → Nat
  | [], a => a
  | c :: cs, a => match hexDigitVal c with
    | some d => hexVal cs (a * 16 + d)
    | none => a

/-- what follows `0x`: hex digits `[. hex digits] [p [sign] digits]`, value `M·2^E` -/
def parseHexFloat (s : List Nat) : Option (Nat × Int) :=
  let ip := s.takeWhile isHex
  let r1 := s.dropWhile isHex
  let fp := fracDigits isHex r1
  let r2 := fracRest isHex r1
  if ip.isEmpty ∧ fp.isEmpty then none else
  some (hexVal (ip ++ fp) 0, parseExpPart 112 80 r2 - 4 * fp.length)

/-- a hexadecimal floating constant: `0x` or `0X` and what `parseHexFloat` makes of the rest -/
def hexPrefix (s : List Nat) : Option (Nat × Int) :=
  match s with
  | 48 :: x :: r => if x = 120 ∨ x = 88 then parseHexFloat r else none
  | _ => none

def negFP : FP → FP
  | .fin q => .fin (-q)
  | .inf n => .inf (!n)
  | .nan => .nan

/-- `M·10^E` rounded; exponents far outside the format are decided without computing the power -/
def decimalToFP (p : Nat) (umin emax : Int) (M : Nat) (E : Int) : FP :=
  if M = 0 then .fin 0 else
  let nd : Int := (natDigits M).length
  if E + nd > 400 then .inf false
  else if E + nd < -400 then .fin 0
  else roundBin p umin emax ((M : Rat) * pow10r E)

def binaryToFP (p : Nat) (umin emax : Int) (M : Nat) (E : Int) : FP :=
  if M = 0 then .fin 0 else
  let nb : Int := M.log2 + 1
  if E + nb > 1200 then .inf false
  else if E + nb < -1300 then .fin 0
  else roundBin p umin emax ((M : Rat) * pow2 E)

/-- the decimal reading of `s2`: no digit, no conversion, zero -/
def decimalValue (p : Nat) (umin emax : Int) (s2 : List Nat) : FP :=
  match parseDecimal s2 with
  | some (M, E) => decimalToFP p umin emax M E
  | none => .fin 0

/-- `strtod` / `strtof` of glibc in the C locale (`p, umin, emax` = 53, −1074, 1024 / 24, −149, 128) -/
def strtoGen (p : Nat) (umin emax : Int) (s : List Nat) : FP :=
  let (neg, s2) := takeSign (s.dropWhile isSpace)
  let r : FP :=
    if startsWithCI s2 kwInf then .inf false
    else if startsWithCI s2 kwNan then .nan
    else
      match hexPrefix s2 with
      | some (M, E) => binaryToFP p umin emax M E
      | none => decimalValue p umin emax s2
  if neg then negFP r else r

def strtodC (s : List Nat) : FP := strtoGen 53 (-1074) 1024 s
def strtofC (s : List Nat) : FP := strtoGen 24 (-149) 128 s

/-- the largest `e ≤ start` with `10^e ≤ a`, searched downwards -/
def decExpDown : Nat → Rat → Int → Int
  | 0, _, e => e
  | f + 1, a, e => if pow10r e ≤ a then e else decExpDown f a (e - 1)

/-- `⌊log₁₀ a⌋` for a positive binary64 magnitude (`a < 10^309`) -/
def decExp (a : Rat) : Int :=
  let est : Int := (ilog2 a + 1) * 30103 / 100000 + 1
  let start : Int := if est ≤ 309 ∧ a < pow10r (est + 1) then est else 309
  decExpDown 700 a start

def stripZeros : Nat → Nat → Nat → Nat × Nat
  | 0, d, z => (d, z)
  | f + 1, d, z => if d ≠ 0 ∧ d % 10 = 0 then stripZeros f (d / 10) (z + 1) else (d, z)

def zeros (k : Nat) : List Nat := List.replicate k 48

/-- the exponent part of `%e`: sign and at least two digits -/
def expPart (x : Int) : List Nat :=
  let ds := natDigits x.natAbs
  101 :: (if x < 0 then 45 else 43) :: (if ds.length < 2 then 48 :: ds else ds)

/-- `%.Pg` layout of the digit string `ds` (no trailing zeros) whose last digit has weight `10^q` -/
def layoutG (P : Nat) (ds : List Nat) (q : Int) : List Nat :=
  let n : Int := ds.length
  let X : Int := q + n - 1
  if -4 ≤ X ∧ X < P then
    if 0 ≤ q then ds ++ zeros q.toNat
    else if 0 ≤ X then ds.take (X.toNat + 1) ++ 46 :: ds.drop (X.toNat + 1)
    else 48 :: 46 :: (zeros (-X - 1).toNat ++ ds)
  else
    match ds with
    | [] => []
    | [d] => d :: expPart X
    | d :: rest => d :: 46 :: (rest ++ expPart X)

/-- `sprintf("%.Pg", x)` for a finite `x` -/
def printG (P : Nat) (x : Rat) : List Nat :=
  if x = 0 then [48] else
  let a := if x < 0 then -x else x
  let e := decExp a
  let D0 := (rne (a / pow10r (e - (P : Int) + 1))).toNat
  let (D, z) := stripZeros 400 D0 0
  let body := layoutG P (natDigits D) (e - (P : Int) + 1 + z)
  if x < 0 then 45 :: body else body

/-- `bufr_print_tmplt_value` for a real that is not missing: 15 significant digits if they read
back as the same double, 17 otherwise -/
def printReal (x : Rat) : List Nat :=
  let s := printG 15 x
  if strtodC s = .fin x then s else printG 17 x

/-! ### `bufr_save_template` -/

/-- one default value as `bufr_save_template` writes it -/
def saveVal : Val → List Nat
  | .none => []
  | .i32 v => if v = -1 then kwMSNG else printInt v
  | .i64 v => if v = -1 then kwMSNG else printInt v
  | .f32 x => match (Val.f32 x).getDouble with
    | .fin q => if q = maxDouble then kwMSNG else printReal q
    | _ => kwMSNG
  | .f64 x => match x with
    | .fin q => if q = maxDouble then kwMSNG else printReal q
    | _ => kwMSNG
  | .str bs => 34 :: (bs.takeWhile (· ≠ 0) ++ [34])

def joinComma : List (List Nat) → List Nat
  | [] => []
  | [a] => a
  | a :: rest => a ++ 44 :: joinComma rest

/-- a line of text: its characters and the newline -/
def line (l : List Nat) : List Nat := l ++ [10]

def saveLineBody (c : DescVal) : List Nat :=
  natDigits c.desc ++ (if c.vals.isEmpty then [] else kwCommaValueEq ++ joinComma (c.vals.map saveVal))

def saveLines : List DescVal → List Nat
  | [] => []
  | c :: cs => line (saveLineBody c) ++ saveLines cs

/-- the bytes `bufr_save_template(filename, tmplt)` writes -/
def save (t : TmplV) : List Nat :=
  line (hdrA ++ natDigits t.codets.length ++ hdrB) ++ line (hdrEd ++ printInt t.edition) ++ line hdrSep ++
  saveLines t.codets ++ line hdrSep

/-! ### `bufr_load_template` -/

/-- `bufr_read_tmplt_line` until the end of the file: every line keeps its newline -/
def splitLines : List Nat → List Nat → List (List Nat)
  | [], cur => if cur.isEmpty then [] else [cur.reverse]
  | c :: cs, cur => if c = 10 then (c :: cur).reverse :: splitLines cs [] else splitLines cs (c :: cur)

/-- a C string ends at its first NUL -/
def cstr (l : List Nat) : List Nat := l.takeWhile (· ≠ 0)

/-- `strtok_r`: the token and what follows it, starting at the delimiter that ended it -/
def nextTok (isDelim : Nat → Bool) (s : List Nat) : Option (List Nat × List Nat) :=
  let s1 := s.dropWhile isDelim
  if s1.isEmpty then none
  else some (s1.takeWhile (fun c => !isDelim c), s1.dropWhile (fun c => !isDelim c))

/-- delimiters `" \t\n,="`, `" =\t\n"`, `"\t\n,="`, `"\t\n,"` -/
def delimLine (c : Nat) : Bool := c = 32 || c = 9 || c = 10 || c = 44 || c = 61
def delimKey (c : Nat) : Bool := c = 32 || c = 61 || c = 9 || c = 10
def delimVal1 (c : Nat) : Bool := c = 9 || c = 10 || c = 44 || c = 61
def delimVal (c : Nat) : Bool := c = 9 || c = 10 || c = 44

/-- the text ends here or goes on with a tab, a newline or a comma -/
def endOrDelim : List Nat → Bool
  | [] => true
  | d :: _ => delimVal d

/-- scanning after an opening quote: the text up to and including the closing quote (the first
quote followed by a tab, a newline, a comma or the end), and what follows it -/
def closeQuote : List Nat → Option (List Nat × List Nat)
  | [] => none
  | c :: cs =>
    if c = 34 && endOrDelim cs then some ([c], cs)
    else (closeQuote cs).map fun p => (c :: p.1, p.2)

/-- `bufr_next_tmplt_value(&rest, delims)`: the value and the new `rest` -/
def nextValue (isDelim : Nat → Bool) (s : List Nat) : Option (List Nat × List Nat) :=
  match s.dropWhile isDelim with
  | [] => none
  | c :: cs =>
    let (pre, after) : List Nat × List Nat :=
      if c = 34 then
        match closeQuote cs with
        | some (a, r) => (c :: a, r)
        | none => ([], c :: cs)
      else ([], c :: cs)
    some (pre ++ after.takeWhile (fun c => !isDelim c), (after.dropWhile (fun c => !isDelim c)).drop 1)

/-- what the loader strips from a string token: the quotes `bufr_save_template` writes -/
def stripQuotes (tok : List Nat) : List Nat :=
  if tok.head? = some 34 ∧ tok.length > 1 ∧ tok.getLast? = some 34 then (tok.drop 1).dropLast else tok

/-- C integer division and remainder (toward zero) for the DESC_TO_F/X/Y macros -/
def cdiv (a b : Int) : Int := Int.tdiv a b
def cmod (a b : Int) : Int := Int.tmod a b

/-- value type and string length the loader uses for descriptor `icode` -/
def loadVT (T : Tables) (icode : Int) : VT × Nat :=
  let e := if 0 ≤ icode then T.fetchB icode.toNat else none
  match e with
  | some e => (valtypeOf e.enc, e.nbits / 8)
  | none =>
    -- bufr_datatype_to_valtype(bufr_descriptor_to_datatype(tbls, NULL, icode, &vlen), 32, 0)
    if cdiv icode 100000 = 2 ∧ cmod (cdiv icode 1000) 100 = 5 then (.string, (cmod icode 1000).toNat)
    else (.undefined, 0)

/-- one default value read from its token -/
def parseVal (vt : VT) (vlen : Nat) (tok : List Nat) : Val :=
  match vt with
  | .string => .str (strPad (some (stripQuotes tok)) vlen)
  | .int64 => if tok = kwMSNG then .i64 (-1) else .i64 (atolC tok)
  | .int32 => if tok = kwMSNG then .i32 (-1) else .i32 (wrapI32 (atoiC tok))
  | .flt64 =>
    if tok = kwMSNG then .f64 (.fin maxDouble)
    else let d := strtodC tok
         if fpMissingD d then .f64 (.fin maxDouble) else .f64 d
  | .flt32 =>
    if tok = kwMSNG then .f32 (.fin maxFloat)
    else let d := strtofC tok
         if fpMissingF d then .f32 (.fin maxFloat) else .f32 d
  | .undefined => .none

/-- the `while (tok)` loop over the values of a line -/
def parseVals (vt : VT) (vlen : Nat) : Nat → List Nat → List Val
  | 0, _ => []
  | f + 1, s =>
    match nextValue delimVal s with
    | none => []
    | some (tok, rest) => parseVal vt vlen tok :: parseVals vt vlen f rest

/-- loader state: `edition` and the descriptors read so far (most recent first) -/
structure LoadSt where
  edition : Int := 4
  codets : List (Int × List Val) := []
deriving Repr

def hasPrefix (l kw : List Nat) : Bool := l.take kw.length == kw

/-- the values after the word `VALUE`: the first one is separated with `"\t\n,="`, the others with `"\t\n,"` -/
def valuesAfter (vt : VT) (vlen : Nat) (rest2 : List Nat) : List Val :=
  match nextValue delimVal1 rest2 with
  | none => []
  | some (t1, r1) => parseVal vt vlen t1 :: parseVals vt vlen r1.length r1

/-- what follows the descriptor on its line: default values when the next word is `VALUE` -/
def lineValues (T : Tables) (icode : Int) (rest : List Nat) : List Val :=
  match nextTok delimLine rest with
  | some (tok2, rest2) =>
    if tok2 = kwVALUE then valuesAfter (loadVT T icode).1 (loadVT T icode).2 rest2 else []
  | none => []

/-- a descriptor line (`continue` when it holds no token) -/
def descLine (T : Tables) (st : LoadSt) (l : List Nat) : LoadSt :=
  match nextTok delimLine l with
  | none => st
  | some (tok, rest) => { st with codets := (atoiC tok, lineValues T (atoiC tok) rest) :: st.codets }

/-- `BUFR_EDITION` line -/
def editionLine (st : LoadSt) (l : List Nat) : LoadSt :=
  match nextTok delimKey (l.drop 12) with
  | some (tok, _) => { st with edition := atoiC tok }
  | none => st

def isTableKey (l : List Nat) : Bool :=
  hasPrefix l kwLOCAL_TABLEB || hasPrefix l kwMASTER_TABLEB || hasPrefix l kwLOCAL_TABLED || hasPrefix l kwMASTER_TABLED

/-- the body of the `while` loop of `bufr_load_template` for one line -/
def loadLine (T : Tables) (st : LoadSt) (line : List Nat) : LoadSt :=
  let l := cstr line
  if l.head? = some 35 ∨ l.head? = some 42 then st
  else if isTableKey l then st
  else if hasPrefix l kwBUFR_EDITION then editionLine st l
  else descLine T st l

def parseText (T : Tables) (text : List Nat) : LoadSt :=
  (splitLines text []).foldl (loadLine T) {}

inductive LoadErr
  | refused      -- NULL: the text does not define a valid template
  | diverge      -- the model ran out of fuel
deriving DecidableEq, Repr

/-- `bufr_load_template(filename, mtbls)` on the bytes of the file.  `bufr_is_descriptor` refuses
negative numbers, so `bufr_finalize_template` fails when `atoi` produced one. -/
def load (T : Tables) (fuel : Nat) (text : List Nat) : Except LoadErr TmplV :=
  let st := parseText T text
  let cs := st.codets.reverse
  if cs.any (fun c => decide (c.1 < 0)) then .error .refused
  else
    match finalizeV T fuel st.edition (cs.map fun c => { desc := c.1.toNat, vals := c.2 }) with
    | .ok t => .ok t
    | .error .fuel => .error .diverge
    | .error _ => .error .refused

/-! ### which templates the text form can carry (C18) -/

def fitsI32 (v : Int) : Bool := decide (-(2:Int)^31 ≤ v ∧ v < (2:Int)^31)
def fitsI64 (v : Int) : Bool := decide (-(2:Int)^63 ≤ v ∧ v < (2:Int)^63)

/-- a finite binary64 value other than the library's "missing" (`DBL_MAX`) -/
def isDouble (q : Rat) : Bool :=
  q = 0 ||
  (let a := if q < 0 then -q else q
   let u := max (ilog2 a - 52) (-1074)
   (a / pow2 u).den = 1 && decide (a < pow2 1024))

/-- no quote inside the string is followed by a tab, a newline or a comma, nothing is a newline or NUL -/
def nextDelim : List Nat → Bool
  | [] => false
  | d :: _ => delimVal d

def strSavable : List Nat → Bool
  | [] => true
  | c :: cs => c ≠ 0 && c ≠ 10 && !(c = 34 && nextDelim cs) && strSavable cs

/-- the value has the type and form the loader gives the values of this descriptor -/
def valSavable (vt : VT) (vlen : Nat) : Val → Bool
  | .i32 v => vt = .int32 && fitsI32 v
  | .i64 v => vt = .int64 && fitsI64 v
  | .f64 (.fin q) => vt = .flt64 && isDouble q
  | .str bs => vt = .string && bs.length = vlen && strSavable bs
  | _ => false

def dvSavable (T : Tables) (c : DescVal) : Bool :=
  let (vt, vlen) := loadVT T c.desc
  c.vals.all (valSavable vt vlen)

/-- templates whose text form identifies them: an `int` edition, and default values of the type
(and, for strings, the length) the descriptor calls for -/
def Savable (T : Tables) (t : TmplV) : Bool :=
  fitsI32 t.edition && t.codets.all (dvSavable T)

end TT
end Bufr
