/-
  BufrModel.SoftFloat — exact soft-float on core `Rat` (Mathlib-free, executable).

  A finite IEEE value is represented by its exact rational value.  `fl p q` rounds the
  rational `q` to `p` significant bits, round-to-nearest, ties-to-even (`p = 53`: double,
  `p = 24`: float).  The exponent range is NOT modelled (no overflow to infinity, no
  subnormals): every theorem that needs it carries a range hypothesis, and the element
  ranges of BUFR stay ~900 binades away from either end.

  Every C floating-point operation `a ∘ b` evaluated in a type of precision `p` is
  `fl p (a ∘ b)` on the exact operands (IEEE 754 correct rounding, FLT_EVAL_METHOD = 0, no FMA
  contraction: the harness is compiled with -ffp-contract=off).

  Also here: C `round` (half away from zero), truncation, the float→integer casts as gcc/x86-64
  executes them (in range: the C semantics; out of range — undefined behaviour in C — the
  "integer indefinite" result of cvttsd2si, so that the model stays total and equal to the
  compiled code on every input), and the conversions between IEEE bit patterns and `Rat`
  used by the protocol to exchange doubles/floats exactly.
-/
namespace Bufr.SF

/-- `2^e` for an integer exponent, as a rational -/
def pow2 (e : Int) : Rat :=
  if 0 ≤ e then ((2 ^ e.toNat : Nat) : Rat) else 1 / ((2 ^ (-e).toNat : Nat) : Rat)

/-- `10^s` for an integer exponent, as a rational -/
def pow10r (s : Int) : Rat :=
  if 0 ≤ s then ((10 ^ s.toNat : Nat) : Rat) else 1 / ((10 ^ (-s).toNat : Nat) : Rat)

/-- `⌊log₂ |q|⌋` for `q ≠ 0` (0 for `q = 0`) -/
def ilog2 (q : Rat) : Int :=
  let a := q.num.natAbs
  let b := q.den
  let e0 : Int := (a.log2 : Int) - (b.log2 : Int)
  -- 2^(e0-1) < a/b < 2^(e0+1)
  if pow2 e0 * (b : Rat) ≤ (a : Rat) then e0 else e0 - 1

/-- round to nearest integer, ties to even -/
def rne (x : Rat) : Int :=
  let f := x.floor
  let r := x - (f : Rat)
  if r < 1/2 then f else if 1/2 < r then f + 1 else if f % 2 = 0 then f else f + 1

/-- round `q` to `p` significant bits, nearest-even, unbounded exponent -/
def fl (p : Nat) (q : Rat) : Rat :=
  if q = 0 then 0 else
    let sc := pow2 (ilog2 q - ((p : Int) - 1))
    (rne (q / sc) : Rat) * sc

/-- C `round`: nearest integer, halves away from zero -/
def cround (x : Rat) : Int :=
  if 0 ≤ x then (x + 1/2).floor else -((-x + 1/2).floor)

/-- truncation toward zero (the in-range meaning of a float→integer cast) -/
def ctrunc (x : Rat) : Int :=
  if 0 ≤ x then x.floor else -((-x).floor)

/-! ### float → integer casts of an already truncated value `t`, as executed by gcc on x86-64
In range they are the C semantics (the value itself).  Out of range is UB in C; the branches
below are what `cvttsd2si`/`cvttss2si` and gcc's unsigned sequences return. -/

def castI64 (t : Int) : Int := if -(2:Int)^63 ≤ t ∧ t < (2:Int)^63 then t else -(2:Int)^63
def castI32 (t : Int) : Int := if -(2:Int)^31 ≤ t ∧ t < (2:Int)^31 then t else -(2:Int)^31
def castU64 (t : Int) : Nat :=
  if 0 ≤ t ∧ t < (2:Int)^64 then t.toNat
  else if t < 0 then (castI64 t % (2:Int)^64).toNat
  else 0
def castU32 (t : Int) : Nat := (castI64 t % (2:Int)^32).toNat

/-! ### integer wraps (C unsigned arithmetic, and the implementation-defined narrowing to signed) -/
def wrapU64 (z : Int) : Nat := (z % (2:Int)^64).toNat
def wrapU32 (z : Int) : Nat := (z % (2:Int)^32).toNat
def wrapI32 (z : Int) : Int :=
  let m := z % (2:Int)^32
  if m < (2:Int)^31 then m else m - (2:Int)^32

def wrapI64 (z : Int) : Int :=
  let m := z % (2:Int)^64
  if m < (2:Int)^63 then m else m - (2:Int)^64

/-! ### IEEE special values -/

/-- a C `double`/`float` value: finite (exact rational; −0 is identified with 0), NaN, ±∞ -/
inductive FP where
  | fin (q : Rat)
  | nan
  | inf (neg : Bool)
  deriving Repr, DecidableEq

/-- `DBL_MAX` -/
def maxDouble : Rat := (((2:Nat)^53 - 1 : Nat) : Rat) * ((2:Nat)^971 : Nat)
/-- `FLT_MAX` -/
def maxFloat : Rat := (((2:Nat)^24 - 1 : Nat) : Rat) * ((2:Nat)^104 : Nat)

/-! ### bit patterns  (ebits exponent bits, fbits fraction bits; double = 11/52, float = 8/23) -/

/-- value of an IEEE bit pattern -/
def ofBits (ebits fbits : Nat) (b : Nat) : FP :=
  let frac := b % 2^fbits
  let ex := (b / 2^fbits) % 2^ebits
  let neg := (b / 2^(fbits + ebits)) % 2 = 1
  let bias : Int := (2:Int)^(ebits - 1) - 1
  if ex = 2^ebits - 1 then (if frac = 0 then .inf neg else .nan)
  else
    let m : Rat :=
      if ex = 0 then (frac : Rat) * pow2 (1 - bias - fbits)
      else ((2^fbits + frac : Nat) : Rat) * pow2 ((ex : Int) - bias - fbits)
    .fin (if neg then -m else m)

/-- IEEE bit pattern of a value (finite values are assumed representable; a finite value beyond
the largest finite number prints as infinity, NaN as the default quiet NaN) -/
def toBits (ebits fbits : Nat) (x : FP) : Nat :=
  let bias : Int := (2:Int)^(ebits - 1) - 1
  let signBit (neg : Bool) : Nat := if neg then 2^(fbits + ebits) else 0
  match x with
  | .nan => (2^ebits - 1) * 2^fbits + 2^(fbits - 1)
  | .inf neg => signBit neg + (2^ebits - 1) * 2^fbits
  | .fin q =>
    if q = 0 then 0 else
    let neg := q < 0
    let a := if neg then -q else q
    let e := ilog2 a
    if e > bias then signBit neg + (2^ebits - 1) * 2^fbits
    else if e < 1 - bias then
      signBit neg + (a / pow2 (1 - bias - fbits)).floor.toNat
    else
      let m := (a / pow2 (e - fbits)).floor.toNat      -- in [2^fbits, 2^(fbits+1))
      signBit neg + (e + bias).toNat * 2^fbits + (m - 2^fbits)

def ofDoubleBits (b : Nat) : FP := ofBits 11 52 b
def toDoubleBits (x : FP) : Nat := toBits 11 52 x
def ofFloatBits (b : Nat) : FP := ofBits 8 23 b
def toFloatBits (x : FP) : Nat := toBits 8 23 x

/-- `(float)d` for a double `d` -/
def toFloat (x : FP) : FP :=
  match x with
  | .fin q => .fin (fl 24 q)
  | y => y

end Bufr.SF
