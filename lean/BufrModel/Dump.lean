import BufrModel.Printf
import BufrModel.Decode
import BufrModel.SetValue
import BufrModel.Frame
/-
  BufrModel.Dump — the text dump of a dataset and its loader (bufr_dataset.c):
  `bufr_fdump_dataset` with `bufr_print_dscptr_value` (bufr_desc.c), `bufr_print_scaled_value`,
  `bufr_print_binary`, `bufr_print_float/double` (bufr_value.c), `bufr_print_af` (bufr_af.c);
  `bufr_read_dataset_dump` = `bufr_load_header` + `bufr_load_datasubsets` with
  `bufr_mkval_rest_sequence`, `bufr_str_is_binary`, `bufr_binary_to_int`; the loop of
  `bufr_genmsgs_from_dump`; and the message a dataset encodes to (`bufr_encode_message`
  followed by `bufr_memwrite_message`).

  What is NOT mirrored: the run-time meta data printed between the descriptor and the value
  (`{FXXYYY} ` substituted descriptor, `{R=…}{tlc…} ` replication nesting and time/location
  coordinates, bufr_meta.c).  The printer takes that text as a parameter (one byte string per
  node); the loader skips every leading `{…}` block whatever it contains, which is all the
  library ever does with it.

  Mathlib-free: linked into `bvp_lean`.
-/
namespace Bufr.Dump
open Bufr Bufr.SF Bufr.Printf

/-- a literal as bytes -/
def B (s : String) : List Nat := s.toList.map Char.toNat

/-! ## The dataset -/

/-- `BUFR_Dataset.s1` (as far as the dump shows it), `data_flag`, `header_string`.  Fields hold the
C value (`short`s except `centre` and `dataFlag`, which are `int`). -/
structure Hdr where
  masterTable : Int := 0
  centre : Int := 54
  subCentre : Int := 0
  updSeq : Int := 0
  msgType : Int := 0
  interSub : Int := 0
  localSub : Int := 0
  masterVer : Int := 17
  localVer : Int := 0
  year : Int := 0
  month : Int := 0
  day : Int := 0
  hour : Int := 0
  minute : Int := 0
  second : Int := 0
  dataFlag : Int := 0
  headerString : Option (List Nat) := none
  /-- additional (local use) octets of Section 1: in the dataset and in the message it encodes to,
  but NOT in the text dump (no key for them) -/
  s1data : List Nat := []
deriving DecidableEq, Repr, Inhabited

structure Dataset where
  hdr : Hdr := {}
  subsets : List (List Node) := []
deriving Repr, Inhabited, DecidableEq

def BUFR_FLAG_INVALID : Int := 256

/-- `flag |= m` on a C `int` -/
def orI32 (v : Int) (m : Nat) : Int := wrapI32 ((wrapU32 v ||| m : Nat) : Int)

/-! ## Printing -/

/-- `bufr_print_binary(outstr, ival, nbit)` for `ival ≥ 0`: the binary digits of `ival`, left-padded
with zeros to `nbit` characters -/
def binDigits : Nat → Nat → List Nat
  | 0, _ => []
  | f+1, v => if v = 0 then [] else binDigits f (v / 2) ++ [48 + v % 2]

def printBinary (ival : Int) (nbit : Int) : List Nat :=
  if ival < 0 then List.replicate nbit.toNat 49
  else
    let ds := binDigits 64 ival.toNat
    List.replicate (nbit.toNat - ds.length) 48 ++ ds

/-- `bufr_print_double` / `bufr_print_float`: `%f`, trailing zeros trimmed when the switch is on -/
def printPlain (trim : Bool) (q : Rat) : List Nat :=
  let s := fmtF 6 q
  if trim then trimZeros s else s

/-- `bufr_print_scaled_double` / `_float`: `%.{scale}f`, `%.1f` for a negative scale -/
def printScaled (scale : Int) (q : Rat) : List Nat :=
  if scale < 0 then fmtF 1 q else fmtF scale.toNat q

/-- `dval < 0.00001 || dval > INT_MAX` for a double; for a float `INT_MAX` is converted to
`float`, i.e. to 2^31 -/
def useExp (q : Rat) : Bool := decide (q < fl 53 (1 / 100000)) || decide (q > 2147483647)
def useExpF (q : Rat) : Bool := decide (q < fl 53 (1 / 100000)) || decide (q > 2147483648)

/-- `bufr_print_scaled_value(outstr, bv, scale)`; `scale = none` is `INT_MAX` (`bufr_print_value`) -/
def printScaledValue (trim : Bool) (v : Val) (scale : Option Int) : List Nat :=
  match v with
  | .none => []
  | .str bs => [34] ++ cstr bs ++ [34]
  | .i32 x => if x = -1 then B "MSNG" else fmtInt x
  | .i64 x => if x = -1 then B "MSNG" else fmtInt x
  | .f32 x =>
    if fpMissingF x then B "MSNG" else
    match x with
    | .fin q =>
      (match scale with
       | none => if useExpF q then fmtE 14 q else printPlain trim q
       | some s => printScaled s q)
    | _ => B "MSNG"
  | .f64 x =>
    if fpMissingD x then B "MSNG" else
    match x with
    | .fin q =>
      (match scale with
       | none => if useExp q then fmtE 14 q else printPlain trim q
       | some s => printScaled s q)
    | _ => B "MSNG"

/-- `bufr_print_dscptr_value(outstr, cb)` for a node that is not SKIPPED and has a value -/
def printDscptrValue (trim : Bool) (n : Node) : List Nat :=
  match n.enc.type with
  | .numeric => printScaledValue trim n.val (some n.enc.scale)
  | .flagtable =>
    let iv := n.val.getInt64
    if iv < 0 then B "MSNG" else printBinary iv n.enc.nbits
  | _ => printScaledValue trim n.val none

/-- `bufr_print_af`: `(0x%llx:%dbits)` -/
def printAf (bits nbits : Nat) : List Nat :=
  B "(0x" ++ hexNat bits ++ B ":" ++ decNat nbits ++ B "bits)"

/-- does the node's value carry an associated field (`value->af != NULL`) -/
def hasAf (n : Node) : Bool := n.val.isSome && decide (n.afW > 0)

/-- one line of a DATASUBSET block; `meta` is the text the library puts between the descriptor
and the associated field / value of a node that is not SKIPPED (`mt`: empty, or `{…}` blocks and a
blank) -/
def printNode (trim : Bool) (mt : List Nat) (n : Node) : List Nat :=
  (if n.flags.skipped then
     (if n.flags.ignored && !n.flags.expanded then B "#" else []) ++ fmtD6 n.desc ++ B " "
   else
     fmtD6 n.desc ++ B " " ++ mt ++
       (if n.val.isSome then
          (if hasAf n then printAf n.afBits n.afW else []) ++ printDscptrValue trim n
        else [])) ++ [10]

def zipMeta : List Node → List (List Nat) → List (Node × List Nat)
  | [], _ => []
  | n :: ns, [] => (n, []) :: zipMeta ns []
  | n :: ns, m :: ms => (n, m) :: zipMeta ns ms

/-- the block of subset number `i` (0-based) -/
def printSubset (trim : Bool) (i : Nat) (metas : List (List Nat)) (ns : List Node) : List Nat :=
  B "DATASUBSET " ++ decNat (i + 1) ++ B " : " ++ decNat ns.length ++ B " codes\n" ++
  (zipMeta ns metas).flatMap (fun p => printNode trim p.2 p.1) ++ [10]

def kv (k : String) (v : Int) : List Nat := B k ++ B "=" ++ fmtInt v ++ [10]

def printHeader (edition : Nat) (h : Hdr) : List Nat :=
  kv "BUFR_EDITION" edition ++
  (match h.headerString with
   | some s => B "HEADER_STRING=\"" ++ cstr s ++ B "\"\n"
   | none => []) ++
  kv "BUFR_MASTER_TABLE" h.masterTable ++ kv "ORIG_CENTER" h.centre ++
  (if edition ≥ 3 then kv "ORIG_SUB_CENTER" h.subCentre else []) ++
  kv "UPDATE_SEQUENCE" h.updSeq ++ kv "DATA_CATEGORY" h.msgType ++
  kv "INTERN_SUB_CATEGORY" h.interSub ++ kv "LOCAL_SUB_CATEGORY" h.localSub ++
  kv "MASTER_TABLE_VERSION" h.masterVer ++ kv "LOCAL_TABLE_VERSION" h.localVer ++
  kv "YEAR" h.year ++ kv "MONTH" h.month ++ kv "DAY" h.day ++ kv "HOUR" h.hour ++
  kv "MINUTE" h.minute ++ kv "SECOND" h.second ++ kv "DATA_FLAG" h.dataFlag ++
  kv "COMPRESSED" (if wrapU32 h.dataFlag &&& 64 ≠ 0 then 1 else 0)

def zipMetas : List (List Node) → List (List (List Nat)) → List (List Node × List (List Nat))
  | [], _ => []
  | s :: ss, [] => (s, []) :: zipMetas ss []
  | s :: ss, m :: ms => (s, m) :: zipMetas ss ms

def printSubsets (trim : Bool) : Nat → List (List Node × List (List Nat)) → List Nat
  | _, [] => []
  | i, (s, m) :: rest => printSubset trim i m s ++ printSubsets trim (i + 1) rest

/-- `bufr_fdump_dataset(dts, fp)`: the text written; `metas` gives the meta text of every node
(missing entries are empty) -/
def print (trim : Bool) (edition : Nat) (metas : List (List (List Nat))) (ds : Dataset) : List Nat :=
  printHeader edition ds.hdr ++ printSubsets trim 0 (zipMetas ds.subsets metas)

/-! ## Reading lines -/

/-- `fgets(ligne, 2048, fp)`: at most 2047 characters, through the first line feed -/
def fgetsAux : Nat → List Nat → List Nat → List Nat × List Nat
  | 0, acc, s => (acc.reverse, s)
  | _, acc, [] => (acc.reverse, [])
  | f+1, acc, c :: s => if c = 10 then ((c :: acc).reverse, s) else fgetsAux f (c :: acc) s

def fgets (s : List Nat) : Option (List Nat × List Nat) :=
  if s.isEmpty then none else some (fgetsAux 2047 [] s)

/-- `fseek(fp, -strlen(ligne), SEEK_CUR)` after `ligne` was read: the stream again -/
def unread (line rest : List Nat) : List Nat :=
  line.drop (line.length - (cstr line).length) ++ rest

def startsWith (p s : List Nat) : Bool := s.take p.length == p

/-! ## Header -/

/-- `strtok(ligne + n, " =\t\n")` then `atoi` -/
def hdrInt (line : List Nat) (n : Nat) : Option Int :=
  (strtok [32, 61, 9, 10] (line.drop n)).map fun p => atoi p.1

/-- the HEADER_STRING line: between the first and the last quote, or (no quote) the first token -/
def hdrString (line : List Nat) : Option (List Nat) :=
  let tail := line.drop 13
  let b := (tail.takeWhile (· ≠ 34)).length
  if b < tail.length then
    -- position of the last quote after `b`; none: to the end of the line
    let after := tail.drop (b + 1)
    let lastq := (after.reverse.dropWhile (· ≠ 34)).length       -- 1 + index of the last quote, 0 if none
    some (if lastq = 0 then after else after.take (lastq - 1))
  else
    (strtok [61, 9, 10] tail).map (·.1)

/-- the keys `bufr_load_header` knows, in the order its `strncmp` chain tests them -/
inductive HKey
  | edition | masterTable | centre | subCentre | updSeq | msgType | interSub | localSub | masterVer
  | localVer | year | month | day | hour | minute | second | dataFlag | compressed | headerString
deriving DecidableEq, Repr

def hkeys : List (HKey × String) :=
  [(.edition, "BUFR_EDITION"), (.masterTable, "BUFR_MASTER_TABLE"), (.centre, "ORIG_CENTER"),
   (.subCentre, "ORIG_SUB_CENTER"), (.updSeq, "UPDATE_SEQUENCE"), (.msgType, "DATA_CATEGORY"),
   (.interSub, "INTERN_SUB_CATEGORY"), (.localSub, "LOCAL_SUB_CATEGORY"), (.masterVer, "MASTER_TABLE_VERSION"),
   (.localVer, "LOCAL_TABLE_VERSION"), (.year, "YEAR"), (.month, "MONTH"), (.day, "DAY"), (.hour, "HOUR"),
   (.minute, "MINUTE"), (.second, "SECOND"), (.dataFlag, "DATA_FLAG"), (.compressed, "COMPRESSED"),
   (.headerString, "HEADER_STRING")]

/-- the first key (in the order of the chain) the line starts with, and its length -/
def findKey (l : List Nat) : Option (HKey × Nat) :=
  (hkeys.find? fun k => startsWith (B k.2) l).map fun k => (k.1, k.2.length)

/-- what the branch of key `k` (of length `n`) does with the line -/
def applyKey (h : Hdr) (k : HKey) (n : Nat) (l : List Nat) : Hdr :=
  let set (f : Hdr → Int → Hdr) : Hdr := match hdrInt l n with | some v => f h v | none => h
  match k with
  | .edition => h
  | .masterTable => set fun h v => { h with masterTable := wrapI16 v }
  | .centre => set fun h v => { h with centre := v }
  | .subCentre => set fun h v => { h with subCentre := wrapI16 v }
  | .updSeq => set fun h v => { h with updSeq := wrapI16 v }
  | .msgType => set fun h v => { h with msgType := wrapI16 v }
  | .interSub => set fun h v => { h with interSub := wrapI16 v }
  | .localSub => set fun h v => { h with localSub := wrapI16 v }
  | .masterVer => set fun h v => { h with masterVer := wrapI16 v }
  | .localVer => set fun h v => { h with localVer := wrapI16 v }
  | .year => set fun h v => { h with year := wrapI16 v }
  | .month => set fun h v => { h with month := wrapI16 v }
  | .day => set fun h v => { h with day := wrapI16 v }
  | .hour => set fun h v => { h with hour := wrapI16 v }
  | .minute => set fun h v => { h with minute := wrapI16 v }
  | .second => set fun h v => { h with second := wrapI16 v }
  | .dataFlag => set fun h v => { h with dataFlag := v }
  | .compressed => set fun h v => if v ≠ 0 then { h with dataFlag := orI32 h.dataFlag 64 } else h
  | .headerString => match hdrString l with | some s => { h with headerString := some s } | none => h

/-- one header line (a C string): the updated header, or `none` when it is not a header key -/
def hdrLine (h : Hdr) (l : List Nat) : Option Hdr :=
  (findKey l).map fun p => applyKey h p.1 p.2 l

/-- `bufr_load_header(fp, dts)`: header, stream left, and whether a DATASUBSET line follows
(return value `> 0`) -/
def loadHeader : Nat → Hdr → List Nat → Hdr × List Nat × Bool
  | 0, h, s => (h, s, false)
  | f+1, h, s =>
    match fgets s with
    | none => (h, s, false)
    | some (line, rest) =>
      let l := cstr line
      if l.head? = some 35 ∨ l.head? = some 42 then loadHeader f h rest
      else match hdrLine h l with
        | some h' => loadHeader f h' rest
        | none => (h, unread line rest, startsWith (B "DATASUBSE") l)

/-! ## One data line -/

/-- what a data line says, independently of the node it is for: the descriptor, the associated
field bits (`some none` = `(` present but nothing to read after it), the value token -/
structure Rec where
  icode : Int
  af : Option (Option Nat) := none
  tok : Option (List Nat) := none
  quoted : Bool := false
deriving DecidableEq, Repr, Inhabited

/-- skip every leading `{…}` block and the blanks after it (`ptr` and the index `i` of the C) -/
def skipMeta : Nat → List Nat → List Nat
  | 0, s => s
  | f+1, s =>
    let s1 := s.dropWhile isSpace
    match s1 with
    | 123 :: _ =>
      let blk := s1.takeWhile (· ≠ 125)
      if blk.length < s1.length then skipMeta f (s1.drop (blk.length + 1)) else s
    | _ => s

/-- drop trailing white space (`ptr[i--] = '\0'`) -/
def rstrip (s : List Nat) : List Nat := (s.reverse.dropWhile isSpace).reverse

/-- cut the token at its last quote, if that quote is not the first character -/
def cutLastQuote (tok : List Nat) : List Nat :=
  let k := (tok.reverse.dropWhile (· ≠ 34)).length     -- 1 + index of the last quote
  if k ≥ 2 then tok.take (k - 1) else tok

/-- the part of `bufr_load_datasubsets` that looks only at the text of a data line.
`none`: no token at all (`strtok_r` returned NULL), the line is ignored. -/
def parseLine (line : List Nat) : Option Rec :=
  match strtok [32, 9, 10, 13, 44, 61] line with
  | none => none
  | some (tok0, ptr0) =>
    let icode := atoi tok0
    let p1 := skipMeta (line.length + 1) (rstrip ptr0)
    let p2 := p1.dropWhile isSpace
    -- associated field
    let (af, p3) : Option (Option Nat) × List Nat :=
      match p2 with
      | 40 :: _ =>
        -- `strtok_r(NULL, " \t\n\r():", &ptr)` tokenises from `ptr`, not from the parenthesis
        (match strtok [32, 9, 10, 13, 40, 41, 58] p1 with
         | none => (some none, [])
         | some (t, rest) =>
           let r2 := rest.dropWhile (· ≠ 41)
           let r3 := match r2 with | 41 :: r => r | _ => r2
           (some (scanHex t), r3.dropWhile isSpace))
      | _ => (none, p2)
    match p3 with
    | 34 :: q =>
      (match strtok [10, 13] q with
       | none => some { icode := icode, af := af, tok := none, quoted := true }
       | some (t, _) => some { icode := icode, af := af, tok := some (cutLastQuote t), quoted := true })
    | _ =>
      some { icode := icode, af := af, tok := (strtok [32, 9, 10, 13, 61] p3).map (·.1) }

/-! ## Values from tokens -/

/-- `bufr_str_is_binary(str)`: only `0`/`1`, with an optional leading `b` -/
def strIsBinary : List Nat → Bool
  | [] => true
  | c :: t => (c = 48 || c = 49 || c = 98) && t.all (fun c => c = 48 || c = 49)

/-- the binary number a string of `0`/`1` spells (any other character counts as `0`) -/
def binVal (s : List Nat) : Nat := s.foldl (fun a c => 2 * a + (if c = 49 then 1 else 0)) 0

def castToI64 (u : Nat) : Int := if u < 2 ^ 63 then u else (u : Int) - 2 ^ 64

/-- `bufr_binary_to_int(str)`: `-1` when the string is not binary.  The C adds weights, the first
character having `2^(len-1)` in 64-bit arithmetic and each following one half of it: that is the
binary number for up to 64 characters, and 0 beyond (every weight is then 0). -/
def binaryToInt (s : List Nat) : Int :=
  if !strIsBinary s then -1
  else castToI64 (if s.length > 64 then 0 else binVal s)

/-- the integer an INT32/INT64 element reads from its token -/
def intOfTok (isFlag : Bool) (tok : List Nat) : Int :=
  if tok = B "MSNG" then -1
  else if isFlag && strIsBinary tok then binaryToInt tok
  else match tok with
    | 105 :: r => ((scanDec r).getD 0)                        -- 'i'
    | 111 :: r => ((scanUnsigned 8 r).getD 0 : Nat)           -- 'o'
    | 120 :: r => ((scanUnsigned 16 r).getD 0 : Nat)          -- 'x'
    | 98 :: _ => binaryToInt tok                              -- 'b'
    | _ => atol tok

/-- the `switch (cb->value->type)` of the loader: store the token in the node -/
def storeTok (n : Node) (r : Rec) (tok : List Nat) : Node :=
  match n.val with
  | .str _ =>
    if r.quoted ∨ tok ≠ B "MSNG" then (setSvalue n tok).1
    else (setSvalue n (List.replicate (n.enc.nbits / 8).toNat 255)).1
  | .i32 _ => (setIvalue n (wrapI32 (intOfTok (n.enc.type = .flagtable) tok))).1
  | .i64 _ =>
    -- `bufr_descriptor_set_ivalue` takes 32 bits: a 64-bit value goes straight into the value
    { n with val := n.val.setInt64 (intOfTok (n.enc.type = .flagtable) tok) }
  | .f64 _ =>
    if tok = B "MSNG" then n
    else
      let x := strtod tok
      if fpMissingD x then n else (setDvalue n x).1
  | .f32 _ =>
    if tok = B "MSNG" then n
    else
      let x := strtof tok
      if fpMissingF x then n else (setFvalue n x).1
  | .none => n

/-! ## The subset loader -/

/-- `bufr_expand_node_descriptor(list, prev, OP_EXPAND_DELAY_REPL|OP_ZDRC_IGNORE, tbls, …, NULL)` as
the loader calls it on the node before a class 31 element `c31`; `rest` follows `c31`.  Returns the
list that replaces `prev :: c31 :: rest` and the error flag. -/
def expandAtPrev (T : Tables) (fuel : Nat) (prev c31 : Node) (rest : List Node) :
    Except XErr (List Node × Bool) :=
  if prev.skipped ∨ prev.expanded then .ok (prev :: c31 :: rest, false)
  else if Desc.f prev.desc = 1 then
    if Desc.y prev.desc = 0 then
      if Desc.f c31.desc = 0 ∧ Desc.x c31.desc = 31 then expandNodeDecode T fuel none prev c31 rest
      else .ok (prev :: c31 :: rest, true)
    else .error .abort      -- an unexpanded fixed replication cannot precede a class 31 element
  else if Desc.f prev.desc = 3 then .error .abort
  else .ok (prev :: c31 :: rest, false)

structure LdSt where
  ddo : Option DDO := none
  done : List Node := []        -- reversed
  todo : List Node := []
  invalid : Bool := false
deriving Repr, Inhabited, DecidableEq

/-- `bufr_mkval_rest_sequence(tbls, bsq2, node, &errflg)` from the current node to the end -/
def mkvalRest (T : Tables) : Nat → List Node → List Node → List Node
  | 0, done, todo => done.reverse ++ todo
  | _, done, [] => done.reverse
  | f+1, done, n :: rest =>
    let n1 := if !n.flags.skipped then mkvalNode n else n
    if n1.flags.class31 then
      match done with
      | prev :: dprev =>
        (match expandAtPrev T f prev n1 rest with
         | .ok (p :: c :: more, _) => mkvalRest T f (c :: p :: dprev) more
         | _ => mkvalRest T f (n1 :: done) rest)
      | [] => mkvalRest T f (n1 :: done) rest
    else mkvalRest T f (n1 :: done) rest

/-- the nodes of a finished subset: `bufr_mkval_rest_sequence` then `bufr_add_datasubset` -/
def finishSubset (T : Tables) (fuel : Nat) (st : LdSt) : List Node :=
  mkvalAll (mkvalRest T fuel st.done st.todo)

inductive LineRes
  | next (st : LdSt)         -- go on with the next line
  | stop (st : LdSt)         -- "no more descriptors for data": leave the loop
  | fail                     -- return -1

/-- advance over SKIPPED nodes whose descriptor is not `icode` -/
def advance (icode : Int) : List Node → List Node → List Node × List Node
  | done, [] => (done, [])
  | done, n :: rest =>
    if (icode ≠ n.desc) && n.flags.skipped then advance icode (n :: done) rest else (done, n :: rest)

/-- the next node that is not SKIPPED: the nodes passed (reversed) and the list from that node on -/
def nextLive : List Node → List Node → List Node × List Node
  | acc, [] => (acc, [])
  | acc, n :: rest => if n.flags.skipped then nextLive (n :: acc) rest else (acc, n :: rest)

/-- one data line against the current subset -/
def loadLine (T : Tables) (edition : Nat) (fuel : Nat) (st : LdSt) (r : Rec) : LineRes :=
  let ddo0 : DDO := st.ddo.getD { enforce := .strict }
  let st := { st with ddo := some ddo0 }
  let (done1, todo1) := advance r.icode st.done st.todo
  match todo1 with
  | [] => .stop { st with done := done1, todo := [] }
  | cb :: rest =>
    -- a SKIPPED node with this descriptor: the value may be for a live node further down; when the
    -- next live node has another descriptor, or there is none, the line is for the skipped node
    let look : Option (List Node × Node × List Node) :=
      if (r.icode = cb.desc) && cb.flags.skipped then
        match nextLive [] rest with
        | (passed, n1 :: rest1) => if (n1.desc : Int) ≠ r.icode then none else some (passed ++ cb :: done1, n1, rest1)
        | (_, []) => none
      else some (done1, cb, rest)
    match look with
    | none => .next { st with done := cb :: done1, todo := rest }
    | some (done2, cb, rest) =>
      if r.icode ≠ cb.desc then .fail
      else
        let (ddo1, n1, err) := applyTables2node T edition ddo0 cb
        let n2 := if n1.val.isSome then n1 else mkvalNode n1
        -- associated field
        let n3 := match r.af with
          | some a => if hasAf n2 then { n2 with afBits := a.getD 0 } else n2
          | none => n2
        match r.tok with
        | none => .next { st with ddo := some ddo1, done := n3 :: done2, todo := rest, invalid := st.invalid || err }
        | some tok =>
          let n4 := if n3.val.isSome then storeTok n3 r tok else n3
          let ddo2 := if n3.val.isSome then applyOpCrefval T ddo1 n4 else ddo1
          let st1 := { st with ddo := some ddo2, invalid := st.invalid || err }
          if n4.flags.class31 then
            match done2 with
            | prev :: dprev =>
              (match expandAtPrev T fuel prev n4 rest with
               | .error _ => .fail
               | .ok (p :: c :: more, e) =>
                 .next { st1 with done := c :: p :: dprev, todo := more, invalid := st1.invalid || e }
               | .ok _ => .fail)
            | [] => .next { st1 with done := n4 :: done2, todo := rest }
          else .next { st1 with done := n4 :: done2, todo := rest }

/-- outcome of `bufr_load_datasubsets` -/
structure LoadOut where
  status : Int                       -- the C return value: 1, 0 or -1
  subsets : List (List Node)         -- the subsets added to the dataset
  invalid : Bool
  rest : List Nat                    -- the stream after the call
deriving Repr

/-- `bufr_load_datasubsets(fp, dts, lineno, BUFR_STRICT)`.  `bsq` is the template copy with Table C
applied; `cur` the subset being filled (`bsq2`). -/
def loadSubsets (T : Tables) (edition : Nat) (fuel : Nat) (bsq : List Node) :
    Nat → Option LdSt → List (List Node) → Bool → List Nat → LoadOut
  | 0, _, acc, inv, s => { status := -1, subsets := acc.reverse, invalid := inv, rest := s }
  | f+1, cur, acc, inv, s =>
    let fin (cur : Option LdSt) : List (List Node) × Bool :=
      match cur with
      | some st => ((finishSubset T fuel st :: acc), inv || st.invalid)
      | none => (acc, inv)
    match fgets s with
    | none =>
      let (acc', inv') := fin cur
      { status := if cur.isSome then 1 else 0, subsets := acc'.reverse, invalid := inv', rest := [] }
    | some (line, rest) =>
      let l := cstr line
      if l.head? = some 35 ∨ l.head? = some 42 then loadSubsets T edition fuel bsq f cur acc inv rest
      else if startsWith (B "BUFR_EDITION=") l then
        let (acc', inv') := fin cur
        { status := 1, subsets := acc'.reverse, invalid := inv', rest := unread line rest }
      else if startsWith (B "DATASUBSET") l then
        let (acc', inv') := fin cur
        loadSubsets T edition fuel bsq f (some { todo := bsq }) acc' inv' rest
      else
        match parseLine l with
        | none =>
          -- the C creates the operator state before it looks at the line
          let cur' := cur.map fun st => { st with ddo := some (st.ddo.getD { enforce := .strict }) }
          loadSubsets T edition fuel bsq f cur' acc inv rest
        | some r =>
          match cur with
          | none => { status := 0, subsets := acc.reverse, invalid := inv, rest := rest }
          | some st =>
            match loadLine T edition fuel st r with
            | .next st' => loadSubsets T edition fuel bsq f (some st') acc inv rest
            | .stop st' =>
              let (acc', inv') := fin (some st')
              { status := 1, subsets := acc'.reverse, invalid := inv', rest := rest }
            | .fail => { status := -1, subsets := acc.reverse, invalid := inv || st.invalid, rest := rest }

/-- `bufr_read_dataset_dump(dts, fp)` on a dataset of template `t` whose header is `h0`
(`bufr_empty_datasubsets` first, and the header string is dropped: the text only has one when the
dataset has one): status, the dataset, the stream left -/
def readDataset (T : Tables) (t : Template) (fuel : Nat) (h0 : Hdr) (s : List Nat) : Int × Dataset × List Nat :=
  let (h1, s1, more) := loadHeader (s.length + 1) { h0 with headerString := none } s
  if !more then (0, { hdr := h1, subsets := [] }, s1)
  else
    let (bsq, _, err) := applyTablesAll T t.edition { enforce := .strict } t.gabarit
    let out := loadSubsets T t.edition fuel bsq (s1.length + 1) none [] err s1
    let flag : Int := if out.invalid then orI32 h1.dataFlag 256 else h1.dataFlag
    (out.status, { hdr := { h1 with dataFlag := flag }, subsets := out.subsets }, out.rest)

/-- the loop of `bufr_genmsgs_from_dump`: one dataset object read again and again while the reader
returns `> 0`; the datasets in order, and the status that ended the loop -/
def loadAll (T : Tables) (t : Template) (fuel : Nat) : Nat → Hdr → List Nat → List Dataset × Int
  | 0, _, _ => ([], -1)
  | f+1, h, s =>
    let (st, ds, rest) := readDataset T t fuel h s
    if st > 0 then
      let (more, fin) := loadAll T t fuel f ds.hdr rest
      (ds :: more, fin)
    else ([], st)

/-! ## The message a dataset encodes to -/

def natOf (v : Int) : Nat := (v % 65536).toNat

/-- `dts->s1` as a Section 1 of edition `ed`: lengths as `bufr_init_sect1` sets them, or, with
additional octets, as the message reader leaves them (`len = header_len + data_len`) -/
def sect1Of (ed : Nat) (h : Hdr) : Frame.Sect1 :=
  { Frame.initSect1 ed with
    data := h.s1data,
    len := if h.s1data.isEmpty then (Frame.initSect1 ed).len else (Frame.initSect1 ed).headerLen + h.s1data.length,
    masterTable := natOf h.masterTable, centre := (h.centre % 2 ^ 32).toNat, subCentre := natOf h.subCentre,
    updSeq := natOf h.updSeq, msgType := natOf h.msgType, interSub := natOf h.interSub,
    localSub := natOf h.localSub, masterVer := natOf h.masterVer, localVer := natOf h.localVer,
    year := natOf h.year, month := natOf h.month, day := natOf h.day, hour := natOf h.hour,
    minute := natOf h.minute, second := natOf h.second }

/-- `bufr_encode_message(dts, x_compress)` then `bufr_memwrite_message`: the subsets after the
encoder has settled new reference values, whether that flagged the dataset invalid, and the
bytes (`none`: the writer refused) -/
def encodeMessage (T : Tables) (t : Template) (ds : Dataset) (xCompress : Int) :
    List (List Node) × Bool × Option (List Nat) :=
  let settled := ds.subsets.map fun s => settleNewRefs T t.edition s
  let ss := settled.map (·.1)
  let bad := settled.any (·.2)
  let dflag : Nat := wrapU32 ds.hdr.dataFlag
  let (flag, w) := if ds.hdr.dataFlag ≥ 0 then encodeData ss dflag xCompress
                   else
                     -- a negative data flag leaves the fresh message's flag (0) in place
                     encodeData ss 0 (if xCompress < 0 then (if dflag &&& 64 ≠ 0 then 1 else 0) else xCompress)
  let m0 := Frame.createMessage t.edition
  let m1 : Frame.Msg :=
    { m0 with s1 := Frame.copySect1 m0.s1 (sect1Of m0.edition ds.hdr), header := ds.hdr.headerString.map cstr,
              descs := t.descs, nSubsets := ss.length, s3Flag := flag,
              s4Data := w.bytes, s4Filled := w.filled, s4Bitno := w.bitno }
  let m2 := m1.endMessage
  match Frame.writeMessage m2 with
  | .ok (_, bytes) => (ss, bad, some bytes)
  | .err => (ss, bad, none)

end Bufr.Dump
