/-
  BufrModel.Switches — the library's run-time switches, and the types of the generated inventories
  of C15: the places where the C reads a switch (Generated/SwitchSites.lean) and the variables of
  static storage duration (Generated/StaticState.lean).

  Where the C keeps them: `bufr_debugmode`, `verbosemode`, `trimzero_mode` (bufr_io.c),
  `bufr_meta_enabled` (bufr_api.c), `C_use_ieee754` (bufr_ieee754.c).  Where it reads them: the
  generated table, one row per read.  The model functions of encoding and decoding (`encodeData`,
  `decodeData`, `createTemplate`, …) take NO `Switches` argument: C15's claim is that this is
  adequate, i.e. that every read is an accessor, or guards text production only, or is annotated
  as result-neutral (`SwitchSite.covered`), tied by the 16-configuration stream of props/c15.py.
  The only model functions that do take a switch are the dump printer (`trim`, C13) and the IEEE
  codec (`useC`, C19), each with its own independence theorem.

  Mathlib-free: linked into `bvp_lean`.
-/
namespace Bufr

inductive Sw | debug | verbose | rtmd | trimzero | ieee
deriving DecidableEq, Repr

/-- the switch variables with their C values -/
structure Switches where
  /-- `bufr_debugmode` -/
  debugmode : Int := 0
  /-- `verbosemode`: `-1` = switched on by debug mode -/
  verbosemode : Int := 0
  /-- `bufr_meta_enabled` -/
  metaEnabled : Int := 1
  /-- `trimzero_mode` -/
  trimzero : Int := 1
  /-- `C_use_ieee754` (set through the self test of `bufr_use_C_ieee754`: see C19) -/
  ieeeNative : Bool := false
deriving DecidableEq, Repr

/-- `bufr_set_debug(mode)`: debug mode drags verbose mode along (`-1`), and lets go of it -/
def Switches.setDebug (s : Switches) (mode : Int) : Switches :=
  let s1 := { s with debugmode := mode }
  if mode = 0 then (if s1.verbosemode = -1 then { s1 with verbosemode := 0 } else s1)
  else (if s1.verbosemode = 0 then { s1 with verbosemode := -1 } else s1)

/-- `bufr_set_verbose(mode)`: verbose stays on while in debug mode -/
def Switches.setVerbose (s : Switches) (mode : Int) : Switches :=
  if s.debugmode ≠ 0 ∧ mode = 0 then { s with verbosemode := -1 } else { s with verbosemode := mode }

/-- `bufr_enable_meta(mode)` -/
def Switches.setMeta (s : Switches) (mode : Int) : Switches := { s with metaEnabled := mode }
/-- `bufr_set_trimzero(mode)` -/
def Switches.setTrimzero (s : Switches) (mode : Int) : Switches := { s with trimzero := mode }

/-- `bufr_is_debug()` -/
def Switches.isDebug (s : Switches) : Bool := s.debugmode ≠ 0
/-- `bufr_is_verbose()` -/
def Switches.isVerbose (s : Switches) : Bool := s.verbosemode ≠ 0
/-- `bufr_is_trimzero()` -/
def Switches.isTrimzero (s : Switches) : Bool := s.trimzero ≠ 0
def Switches.isMeta (s : Switches) : Bool := s.metaEnabled ≠ 0

/-- the setter named as in the protocol (`sw.set name value`); `ieee` is answered by C19's model -/
def Switches.set (s : Switches) (w : Sw) (v : Int) : Switches :=
  match w with
  | .debug => s.setDebug v
  | .verbose => s.setVerbose v
  | .rtmd => s.setMeta v
  | .trimzero => s.setTrimzero v
  | .ieee => s

/-! ### generated inventories -/

/-- what a read of a switch can influence (translate/switch_sites.py) -/
inductive SiteClass
  /-- inside the setter/getter of the switch itself: mirrored above -/
  | accessor
  /-- `int debug = bufr_is_debug();`: the local's reads are rows of their own -/
  | alias
  /-- the condition of an `if` whose branches only produce text (syntactic check of the translator) -/
  | harmless
  /-- result-neutral by reading, with the justification (translate/switch_annotations.json) -/
  | annotated (why : String)
  | unclassified
deriving DecidableEq, Repr

structure SwitchSite where
  file : String
  func : String
  line : Nat
  sw : Sw
  cls : SiteClass
deriving DecidableEq, Repr

def SwitchSite.covered (s : SwitchSite) : Bool :=
  match s.cls with
  | SiteClass.unclassified => false
  | SiteClass.annotated why => !why.isEmpty
  | _ => true

/-- what a variable of static storage duration holds (translate/state_sites.py) -/
inductive StateClass | switch | handler | lazyconst | pool | errinfo | unclassified
deriving DecidableEq, Repr

structure StateVar where
  file : String
  func : String
  name : String
  type : String
  cls : StateClass
deriving DecidableEq, Repr

def StateVar.covered (v : StateVar) : Bool := v.cls ≠ .unclassified

end Bufr
