import BufrModel.Codec
/-
  BufrModel.SetValue — the descriptor-level setters with their range checks
  (`bufr_descriptor_set_ivalue/fvalue/dvalue/svalue`, `bufr_descriptor_get_range`; bufr_desc.c)
  and the harness-level "set the value this raw pattern decodes to".
-/
namespace Bufr
open SF

/-- `bufr_descriptor_get_range`: `none` when the type has no range (return 0) -/
def getRangeN (n : Node) : Option (Rat × Rat) :=
  match n.enc.type with
  | .ieee => if n.enc.nbits = 64 then some (-maxDouble, maxDouble) else some (-maxFloat, maxFloat)
  | .chngRef => let imax : Int := 2 ^ (n.enc.nbits.toNat - 1) - 1; some (-(imax : Rat), (imax : Rat))
  | .numeric | .codetable | .flagtable => some (Scale.getRange n.desc (sEnc n.enc))
  | _ => none

/-- `bufr_descriptor_set_ivalue(cb, ival)`: new node and return code -/
def setIvalue (n : Node) (ival : Int) : Node × Int :=
  if class31Locked n then (n, -1) else
  let n1 := if n.val.isSome then n else mkvalNode n
  if !n1.val.isSome then (n1, -1)
  else if ival = -1 then ({ n1 with val := n1.val.setInt32 ival }, 1)
  else match getRangeN n1 with
    | some (mn, mx) =>
      let lo := castI32 (ctrunc mn)
      let hi0 := castI32 (ctrunc mx)
      let hi := if n1.desc = 20011 then hi0 + 1 else hi0
      if lo ≤ ival ∧ ival ≤ hi then ({ n1 with val := n1.val.setInt32 ival }, 1)
      else ({ n1 with val := n1.val.setInt32 (-1) }, 1)      -- the return code is that of `bufr_value_set_int32`
    | none => ({ n1 with val := n1.val.setInt32 (-1) }, 1)

/-- `bufr_descriptor_set_dvalue(cb, dval)` for a finite or missing `dval` -/
def setDvalue (n : Node) (x : FP) : Node × Int :=
  if class31Locked n then (n, -1) else
  let n1 := if n.val.isSome then n else mkvalNode n
  if !n1.val.isSome then (n1, -1)
  else if fpMissingD x then ({ n1 with val := n1.val.setDouble x }, 1)
  else match getRangeN n1, x with
    | some (mn, mx), .fin q =>
      if mn ≤ q ∧ q ≤ mx then ({ n1 with val := n1.val.setDouble x }, 1)
      else ({ n1 with val := n1.val.setDouble (.fin maxDouble) }, -1)
    | _, _ => ({ n1 with val := n1.val.setDouble (.fin maxDouble) }, -1)

/-- `bufr_descriptor_set_fvalue(cb, fval)` -/
def setFvalue (n : Node) (x : FP) : Node × Int :=
  if class31Locked n then (n, -1) else
  let n1 := if n.val.isSome then n else mkvalNode n
  if !n1.val.isSome then (n1, -1)
  else if fpMissingF x then ({ n1 with val := n1.val.setFloat x }, 1)
  else match getRangeN n1, x with
    | some (mn, mx), .fin q =>
      if fl 24 mn ≤ q ∧ q ≤ fl 24 mx then ({ n1 with val := n1.val.setFloat x }, 1)
      else ({ n1 with val := n1.val.setFloat (.fin maxFloat) }, -1)
    | _, _ => ({ n1 with val := n1.val.setFloat (.fin maxFloat) }, 1)

/-- harness op `ss.setraw`: give the node the value that the raw pattern `raw` decodes to, through
the setter matching the value's type (what an application filling a subset would do) -/
def setRaw (n : Node) (raw : Nat) : Node × Int :=
  let e := n.enc
  let miss := missingIvalue e.nbits
  match e.type with
  | .numeric =>
    match n.val with
    | .i32 _ =>
      let v : Int := if raw = miss ∧ Desc.x n.desc ≠ 31 then -1 else (raw : Int) + e.ref
      setIvalue n v
    | .i64 _ =>
      let v : Int := if raw = miss ∧ Desc.x n.desc ≠ 31 then -1 else (raw : Int) + e.ref
      ({ n with val := n.val.setInt64 v }, 1)
    | .f32 _ => setFvalue n (.fin (if raw = miss then maxFloat else Scale.cvtI32ToFval (sEnc e) raw))
    | .f64 _ => setDvalue n (.fin (if raw = miss then maxDouble else Scale.cvtI64ToDval (sEnc e) raw))
    | _ => (n, 0)
  | .codetable | .flagtable =>
    match n.val with
    | .i64 _ => ({ n with val := n.val.setInt64 (if raw = miss then -1 else raw) }, 1)
    | _ => setIvalue n (if raw = miss then -1 else raw)
  | .chngRef => setIvalue n (cvtIvalue raw e.nbits)
  | _ => (n, 0)

/-- `bufr_descriptor_set_svalue(cb, sval)` -/
def setSvalue (n : Node) (s : List Nat) : Node × Int :=
  let n1 := if n.val.isSome then n else mkvalNode n
  match n1.val with
  | .str _ => ({ n1 with val := n1.val.setString (some s) (n1.enc.nbits / 8).toNat }, 1)
  | _ => (n1, -1)

end Bufr
