/-
  BufrModel.Header — the header string that may precede a BUFR message
  (`str_schar2oct`, `str_oct2char` in bufr_util.c; the scanner of
  `bufr_seek_msg_start` in bufr_io.c lives in BufrModel.Frame because it reads
  from a byte source).

  `BUFR_Message.header_string` holds the *escaped* form (a C string): the reader
  stores `str_schar2oct(collected bytes)`, the writer sends `str_oct2char(stored)`.

  Mathlib-free: this file is linked into the `bvp_lean` driver.
-/
namespace Bufr.Frame

/-- `isspace(c) || iscntrl(c) || c == 0` in the C locale (bytes ≥ 128 are neither) -/
def isEscByte (c : Nat) : Bool := c ≤ 32 || c == 127

/-- `sprintf(buf, "%.3o", c)` for an octet -/
def oct3 (c : Nat) : List Nat := [48 + c / 64 % 8, 48 + c / 8 % 8, 48 + c % 8]

/-- `str_schar2oct`: a backslash is doubled; white space, control characters and NUL become
a backslash and three octal digits; everything else is copied. -/
def schar2oct : List Nat → List Nat
  | [] => []
  | c :: cs => (if c = 92 then [92, 92] else if isEscByte c then 92 :: oct3 c else [c]) ++ schar2oct cs

def isSpaceByte (c : Nat) : Bool := (9 ≤ c && c ≤ 13) || c == 32
def isOctDigit (c : Nat) : Bool := 48 ≤ c && c ≤ 55

/-- `sscanf(buf, "%o", &c)` on the (at most three) characters of `buf`:
skip white space, optional sign, at least one octal digit.  `none` = matching
failure. The value is returned as
the `unsigned int` the C holds.  (`str_oct2char` only calls it with a leading octal digit, so
it cannot fail there.) -/
def sscanfOct (buf : List Nat) : Option Nat :=
  let b := buf.dropWhile isSpaceByte
  let (neg, b) := match b with
    | 45 :: r => (true, r)
    | 43 :: r => (false, r)
    | _ => (false, b)
  let ds := b.takeWhile isOctDigit
  if ds.isEmpty then none
  else
    let v := ds.foldl (fun a d => 8 * a + (d - 48)) 0
    some (if neg then (4294967296 - v) % 4294967296 else v)

/-- `str_oct2char` on a stored string without NUL: two backslashes are one backslash,
backslash `n` is a line feed, a backslash followed by an octal digit and two more characters
is `sscanf("%o")` of those three characters; any other backslash (also one too close to the
end of the string) is kept as a character. -/
def oct2charF : Nat → List Nat → List Nat
  | 0, _ => []
  | _ + 1, [] => []
  | _ + 1, [c] => [c]
  | fuel + 1, c :: d :: r =>
    if c = 92 then
      if d = 92 then 92 :: oct2charF fuel r
      else if d = 110 then 10 :: oct2charF fuel r
      else match r with
        | e :: f :: r' =>
          if 48 ≤ d ∧ d ≤ 55 then ((sscanfOct [d, e, f]).getD 0 % 256) :: oct2charF fuel r'
          else 92 :: oct2charF fuel (d :: r)
        | _ => 92 :: oct2charF fuel (d :: r)
    else c :: oct2charF fuel (d :: r)

/-- fuel = length of the string (every round consumes at least one character) -/
def oct2char (s : List Nat) : List Nat := oct2charF s.length s

/-! The start marker and "does not contain the start marker". -/

/-- the list starts with `BUFR` -/
def sw4 (l : List Nat) : Bool :=
  match l with
  | a :: b :: c :: d :: _ => a == 66 && b == 85 && c == 70 && d == 82
  | _ => false

/-- some suffix starts with `BUFR` -/
def hasMarker : List Nat → Bool
  | [] => false
  | x :: t => sw4 (x :: t) || hasMarker t

/-- foreign bytes "not containing the start marker" -/
def NoMarker (s : List Nat) : Prop := hasMarker s = false

instance (s : List Nat) : Decidable (NoMarker s) := by unfold NoMarker; infer_instance

end Bufr.Frame
