import BufrModel.Decode
/-
  BufrModel.Bitmap — the data present bit-map machinery (`BufrDPBM`, bufr_ddo.c; the head of
  `bufr_apply_tables2node`, `bufr_index_dpbm`, `bufr_init_dpbm`; bufr_sequence.c) and the
  decoder loops that carry it.

  The functions of BufrModel.Ops / BufrModel.Decode describe `bufr_apply_tables2node` *behind* its
  bit-map head.  Here the head is put in front of them: `applyTables2nodeB` is the whole C
  function, `decodeSubsetLoopB` / `decodeUncompressedB` / `decodeDataB` are the loops of
  `bufr_decode_message_subsets` with the bit-map state (`ddo->dpbm`, `ddo->remain_dpi`,
  `ddo->start_dpi`) threaded through.  BufrProofs.Bitmap shows that they coincide with the plain
  functions as long as no bit-map operator (2 36 YYY) has been met, so the theorems about the plain
  functions are theorems about these.

  Not modelled: `s_descriptor` (the descriptor a marker or class 33 element refers to; it only shows
  in the text dump).
-/
namespace Bufr

/-- `BufrDPBM`: `index[k]` = 1-based position in the sequence of the k-th data descriptor in front
of the first bit-map start operator (`nb_codes = index.length`); `dp[0..nb_dp)` = the `k` whose
bit is 0 ("data present"), in the order the bits were read.  `dp` is never reset by the C, and it
is an array of `nb_codes` ints: `dpOverflow` records a write past its end. -/
structure DPBM where
  index : List Nat := []
  dp : List Nat := []
  dpOverflow : Bool := false
deriving DecidableEq, Repr, Inhabited

/-- the bit-map part of `BufrDDOp` -/
structure BM where
  dpbm : Option DPBM := none
  remainDpi : Int := 0
deriving DecidableEq, Repr, Inhabited

/-- `bufr_is_start_dpbm` -/
def isStartDpbm (d : Nat) : Bool :=
  d = 222000 || d = 223000 || d = 224000 || d = 225000 || d = 232000

/-- `bufr_is_marker_dpbm` -/
def isMarkerDpbm (d : Nat) : Bool :=
  d = 223255 || d = 224255 || d = 225255 || d = 232255

/-- `bufr_is_dd_for_dpbm`: descriptors that do not count as data for the bit-map -/
def isDdForDpbm (n : Node) : Bool :=
  if n.flags.skipped then true
  else match Desc.f n.desc with
    | 0 => false
    | 2 => !(Desc.x n.desc = 5)
    | _ => true

/-- the two passes of `bufr_index_dpbm` in one: positions (1-based) of the counted descriptors up
to the first start operator, and the position after that operator -/
def indexScan : List Node → Nat → List Nat → List Nat × Option Nat
  | [], _, acc => (acc.reverse, none)
  | n :: ns, i, acc =>
    if isStartDpbm n.desc then (acc.reverse, some (i + 1))
    else if isDdForDpbm n then indexScan ns (i + 1) acc
    else indexScan ns (i + 1) ((i + 1) :: acc)

/-- `bufr_index_dpbm(ddo, bsq)` with `ddo != NULL` -/
def indexDpbm (bsq : List Node) : BM :=
  let (idx, _) := indexScan bsq 0 []
  { dpbm := some { index := idx }, remainDpi := idx.length }

/-- `bufr_find_start_dpi(bsq)`: 0-based position of the node that follows the first start operator,
in the list as it is now (the C used to keep a node pointer from `bufr_index_dpbm`, which dangled
once a delayed replication holding that node had been expanded) -/
def startPos (bsq : List Node) : Option Nat := (indexScan bsq 0 []).2

/-- the `for` loop of `bufr_init_dpbm` -/
def initBits (nbCodes : Nat) : List Node → Nat → DPBM → DPBM
  | [], _, d => d
  | n :: ns, i, d =>
    if i ≥ nbCodes then d
    else
      let d1 := if n.ival = 0 then
                  { d with dp := d.dp ++ [i], dpOverflow := d.dpOverflow || decide (d.dp.length ≥ nbCodes) }
                else d
      initBits nbCodes ns (i + 1) d1

/-- `bufr_init_dpbm(dpbm, start_dpi)` -/
def initDpbm (d : DPBM) (bsq : List Node) (start : Option Nat) : DPBM :=
  match start with
  | none => d
  | some p => initBits d.index.length ((bsq.drop p).dropWhile (fun n => n.desc ≠ 31031)) 0 d

inductive BMPre
  | ret (bm : BM) (n : Node)                 -- the marker branch: `return 0`
  | cont (ddo : DDO) (bm : BM)               -- go on with the rest of the function
deriving Repr

def ensureIndexed (bm : BM) (bsq : Unit → List Node) : BM :=
  if bm.dpbm.isNone then indexDpbm (bsq ()) else bm

/-- the value a marker operator gets: `bufr_mkval_for_descriptor(cbm)` -/
def markerVal (cbm : Node) : Val × Nat × Nat :=
  match cbm.enc.type with
  | .ccitt | .ieee | .numeric | .codetable | .flagtable | .chngRef =>
    if cbm.val.isSome then (cbm.val, listSumN cbm.af, cbm.afBits)
    else (freshVal cbm.enc, listSumN cbm.af, 0)
  | _ => (.none, 0, 0)

/-- the head of `bufr_apply_tables2node`: marker operators, class 33 elements, 2 36 000, and the
count-down over the 0 31 031 of a bit-map -/
/- `bsq` is the sequence the node belongs to, as it is now; it is only looked at by the branches that
index, evaluate or resolve (a thunk: the loops would otherwise rebuild the list at every node) -/
def bmPre (bsq : Unit → List Node) (ddo : DDO) (bm : BM) (n : Node) : BMPre :=
  if bm.dpbm.isSome ∧ isMarkerDpbm n.desc then
    match bm.dpbm with
    | none => .cont ddo bm
    | some d =>
      let idp := n.replRank
      if idp = 0 ∨ idp > d.index.length then .ret bm n
      else
        match d.dp[idp - 1]? with
        | none => .ret bm n
        | some k =>
          match d.index[k]? with
          | none => .ret bm n
          | some pos =>
            match (if pos = 0 then none else (bsq ())[pos - 1]?) with
            | none => .ret bm n
            | some cbm =>
              let (v, w, b) := markerVal cbm
              .ret bm { n with enc := cbm.enc, val := v, afW := w, afBits := b }
  else if n.flags.class33 then .cont ddo (ensureIndexed bm bsq)
  else if n.desc = 236000 then .cont ddo (ensureIndexed bm bsq)
  else if hasFlag ddo.flags DDO_BIT_MAP_FOLLOW ∧ n.desc = 31031 then
    .cont ddo (if bm.remainDpi > 0 then { bm with remainDpi := bm.remainDpi - 1 } else bm)
  else if hasFlag ddo.flags DDO_BIT_MAP_FOLLOW then
    let bm1 := ensureIndexed bm bsq
    match bm1.dpbm with
    | none => .cont ddo bm1
    | some d =>
      if bm1.remainDpi = 0 then
        .cont ddo { bm1 with dpbm := some (initDpbm d (bsq ()) (startPos (bsq ()))), remainDpi := -1 }
      else if bm1.remainDpi > 0 ∧ bm1.remainDpi < d.index.length then
        .cont { ddo with flags := ddo.flags &&& (2^32 - 1 - DDO_BIT_MAP_FOLLOW) }
              { bm1 with dpbm := some (initDpbm d (bsq ()) (startPos (bsq ()))), remainDpi := -1 }
      else .cont ddo bm1
  else .cont ddo bm

/-- `bufr_apply_tables2node(ddo, bsq, tmplt, node, &errcode)`, the whole function -/
def applyTables2nodeB (T : Tables) (edition : Nat) (bsq : Unit → List Node) (ddo : DDO) (bm : BM) (n : Node) :
    DDO × BM × Node × Bool :=
  -- (`if (x == 31) cb->flags |= FLAG_CLASS31` comes before the head; no marker operator has X = 31)
  match bmPre bsq ddo bm n with
  | .ret bm1 n1 => (ddo, bm1, n1, false)
  | .cont ddo1 bm1 =>
    let (ddo2, n2, e) := applyTables2node T edition ddo1 n
    (ddo2, bm1, n2, e)

/-- `bufr_apply_Tables(ddo, bsq, tmplt, NULL, &errcode)` with the bit-map head; every node sees the
list as it is when its turn comes (the nodes in front already recomputed) -/
def applyTablesAllB (T : Tables) (edition : Nat) :
    DDO → BM → List Node → List Node → List Node × DDO × BM × Bool
  | ddo, bm, _, [] => ([], ddo, bm, false)
  | ddo, bm, doneRev, n :: ns =>
    let (ddo1, bm1, n1, e1) := applyTables2nodeB T edition (fun _ => doneRev.reverse ++ n :: ns) ddo bm n
    let (ns', ddo2, bm2, e2) := applyTablesAllB T edition ddo1 bm1 (n1 :: doneRev) ns
    (n1 :: ns', ddo2, bm2, e1 || e2)

/-- `decodeSubsetLoop` with the bit-map state -/
def decodeSubsetLoopB (T : Tables) (edition : Nat) (s4max : Nat) :
    Nat → DDO → BM → DecSt → List Node → List Node → Except XErr (DecSt × List Node × SubsetEnd × BM)
  | 0, _, _, _, _, _ => .error .fuel
  | _, _, bm, st, done, [] => .ok (st, done.reverse, .complete, bm)
  | f+1, ddo, bm, st, done, n :: rest =>
    let (ddo1, bm1, n1, err) := applyTables2nodeB T edition (fun _ => done.reverse ++ n :: rest) ddo bm n
    let st1 := { st with invalid := st.invalid || err }
    if n.flags.skipped then decodeSubsetLoopB T edition s4max f ddo1 bm1 st1 (n1 :: done) rest
    else
      match getDescValue st1.r n1 with
      | none => .ok ({ st1 with invalid := true }, done.reverse ++ n1 :: rest, .shortRead, bm1)
      | some (r2, n2) =>
        let st2 := { st1 with r := r2 }
        let ddo2 := applyOpCrefval T ddo1 n2
        if Desc.f n2.desc = 1 ∧ Desc.y n2.desc = 0 then
          match rest with
          | [] => .error .null
          | c31 :: rest' =>
            if Desc.f c31.desc = 0 ∧ Desc.x c31.desc = 31 then
              match getDescValue st2.r c31 with
              | none => .ok ({ st2 with invalid := true }, done.reverse ++ n2 :: c31 :: rest', .shortRead, bm1)
              | some (r3, c31r) =>
                let st3 := { st2 with r := r3 }
                match expandNodeDecode T f (some s4max) n2 c31r rest' with
                | .error .null =>
                  .ok ({ st3 with invalid := true }, done.reverse ++ n2 :: c31r :: rest', .tooLong, bm1)
                | .error e => .error e
                | .ok (lst, eflag) =>
                  let st4 := { st3 with invalid := st3.invalid || eflag }
                  let whole := done.reverse ++ lst
                  let len := minSeqLength whole
                  if (st4.s4len + len) / 8 > (s4max : Int) * 3 then
                    .ok (st4, whole, .tooLong, bm1)
                  else
                    match lst with
                    | a :: b :: more => decodeSubsetLoopB T edition s4max f ddo2 bm1 st4 (b :: a :: done) more
                    | _ => .error .null
            else decodeSubsetLoopB T edition s4max f ddo2 bm1 st2 (n2 :: done) rest
        else decodeSubsetLoopB T edition s4max f ddo2 bm1 st2 (n2 :: done) rest

/-- `decodeUncompressed` with the bit-map state (a fresh `BufrDDOp` per subset) -/
def decodeUncompressedB (T : Tables) (edition : Nat) (enforce : Enforce) (fuel : Nat) (s4max : Nat)
    (bsq : List Node) (nbitsSeq : Int) (lenConst : Bool) (from_ to : Int) :
    Nat → Nat → DecSt → List (List Node) → Except XErr (DecSt × List (List Node))
  | 0, _, st, acc => .ok (st, acc.reverse)
  | k+1, j, st, acc =>
    match decodeSubsetLoopB T edition s4max fuel { enforce := enforce } {} st [] bsq with
    | .error e => .error e
    | .ok (st1, nodes, fin, _) =>
      let filled := mkvalAll nodes
      match fin with
      | .tooLong => .ok ({ st1 with early := true }, (filled :: acc).reverse)
      | .shortRead =>
        let keep := lenConst ∨ from_ ≤ 0
        .ok (st1, (if keep then filled :: acc else acc).reverse)
      | .complete =>
        let st2 := { st1 with s4len := st1.s4len + (if lenConst then nbitsSeq else estimateSeqLength T fuel nodes) }
        let keep := lenConst ∨ from_ ≤ 0 ∨ (from_ ≤ (j : Int) + 1 ∧ (j : Int) + 1 ≤ to)
        decodeUncompressedB T edition enforce fuel s4max bsq nbitsSeq lenConst from_ to k (j + 1) st2
          (if keep then filled :: acc else acc)

/-- one copy's turn in the lock-step loop: `bufr_apply_tables2node(ddos[i], bseq[i], …, nodes[i])`, the
copy's sequence being what it has walked (reversed) followed by what is left -/
def stepFB (T : Tables) (edition : Nat) (p : DDO × BM) (q : List Node × List Node) : DDO × BM × Node × Bool :=
  match q.2 with
  | n :: _ => applyTables2nodeB T edition (fun _ => q.1.reverse ++ q.2) p.1 p.2 n
  | [] => (p.1, p.2, ({ desc := 0 } : Node), false)

structure CompStB where
  r : R
  invalid : Bool := false
  ddos : List DDO
  bms : List BM
  dones : List (List Node)
  todos : List (List Node)
  pendingDelayed : Bool := false
  early : Bool := false

def CompStB.plain (s : CompStB) : CompSt :=
  { r := s.r, invalid := s.invalid, ddos := s.ddos, dones := s.dones, todos := s.todos,
    pendingDelayed := s.pendingDelayed, early := s.early }

/-- `decodeCompressedLoop` with one bit-map state per subset copy (`ddos[i]->dpbm` …), each copy seeing
its own sequence `bseq[i]` -/
def decodeCompressedLoopB (T : Tables) (edition : Nat) (s4max : Nat) (g : Range) :
    Nat → CompStB → Except XErr CompStB
  | 0, _ => .error .fuel
  | f+1, st =>
    match st.todos with
    | [] => .ok st
    | todo0 :: _ =>
      match todo0 with
      | [] => .ok st
      | cb :: _ =>
        -- heads of every copy; a copy that ran out makes the C dereference NULL
        if st.todos.any (·.isEmpty) then .error .null else
        let heads := st.todos.filterMap (·.head?)
        let tails := st.todos.map (·.drop 1)
        let applied := List.zipWith (stepFB T edition) (List.zip st.ddos st.bms) (List.zip st.dones st.todos)
        let ddos1 := applied.map (·.1)
        let bms1 := applied.map (·.2.1)
        let col1 := applied.map (·.2.2.1)
        let inv1 := st.invalid || applied.any (·.2.2.2)
        if cb.flags.skipped then
          decodeCompressedLoopB T edition s4max g f
            { st with invalid := inv1, ddos := ddos1, bms := bms1, dones := List.zipWith (· :: ·) col1 st.dones, todos := tails }
        else
          let cb1 := col1.headD cb
          -- associated fields, then the body
          let afRes := getAfCompressed st.r col1 g
          match afRes with
          | none => .ok { st with invalid := true, ddos := ddos1, bms := bms1,
                                  dones := List.zipWith (fun n d => n :: d) col1 st.dones, todos := tails }
          | some (r1, col2) =>
            let body : Option (R × List Node) := readBody cb1.enc.type r1 col2 g
            match body with
            | none =>
              -- the loop ends here (`node = NULL`), but only after the rest of this iteration: a delayed
              -- replication factor that was cut short is still expanded, in every copy, with whatever the
              -- column reader had set before it gave up
              if st.pendingDelayed ∧ (Desc.f cb.desc = 0 ∧ Desc.x cb.desc = 31) ∧ cb1.enc.type = .numeric then
                let colP := numericPartial r1 col2 g
                let stepP := expStep T f s4max
                match (List.zip st.dones (List.zip colP tails)).foldl stepP (.ok ([], [], false)) with
                | .error .null => .ok { st with r := r1, invalid := true, early := true, ddos := ddos1, bms := bms1,
                                                dones := st.dones.map (fun _ => []), todos := tails.map (fun _ => []) }
                | .error e => .error e
                | .ok (ds, ts, _) =>
                  if ts.any (fun t => t.length != (ts.headD []).length) then
                    .ok { st with r := r1, invalid := true, early := true, ddos := ddos1, bms := bms1,
                                  dones := st.dones.map (fun _ => []), todos := tails.map (fun _ => []) }
                  else
                    .ok { st with r := r1, invalid := true, ddos := ddos1, bms := bms1, dones := ds.reverse, todos := ts.reverse }
              else
              .ok { st with r := r1, invalid := true, ddos := ddos1, bms := bms1,
                                    dones := List.zipWith (fun n d => n :: d) col2 st.dones, todos := tails }
            | some (r2, col3) =>
              let ddos2 := List.zipWith (fun ddo n => applyOpCrefval T ddo n) ddos1 col3
              let isFactor := Desc.f cb.desc = 0 ∧ Desc.x cb.desc = 31
              if st.pendingDelayed ∧ isFactor then
                -- expand every copy at the delayed replication node that precedes the factor
                let step := expStep T f s4max
                match (List.zip st.dones (List.zip col3 tails)).foldl step (.ok ([], [], false)) with
                -- `return dts` with the subsets allocated but never filled (`subset->data == NULL`):
                -- an unfilled subset is the empty list
                | .error .null => .ok { st with r := r2, invalid := true, early := true, ddos := ddos2, bms := bms1,
                                                dones := st.dones.map (fun _ => []), todos := tails.map (fun _ => []) }
                | .error e => .error e
                | .ok (ds, ts, inv) =>
                  -- a factor that differs between subsets leaves copies of different lengths: refused
                  -- like a failed expansion (94.6.3)
                  if ts.any (fun t => t.length != (ts.headD []).length) then
                    .ok { st with r := r2, invalid := true, early := true, ddos := ddos2, bms := bms1,
                                  dones := st.dones.map (fun _ => []), todos := tails.map (fun _ => []) }
                  else
                  decodeCompressedLoopB T edition s4max g f
                    { r := r2, invalid := inv1 || inv, ddos := ddos2, bms := bms1, dones := ds.reverse, todos := ts.reverse, pendingDelayed := false }
              else
                let pend := !st.pendingDelayed && (Desc.f cb.desc = 1 && Desc.y cb.desc = 0)
                decodeCompressedLoopB T edition s4max g f
                  { r := r2, invalid := inv1, ddos := ddos2, bms := bms1, dones := List.zipWith (fun n d => n :: d) col3 st.dones,
                    todos := tails, pendingDelayed := pend }

/-- `decodeCompressedAll` with one bit-map state per copy -/
def decodeCompressedAllB (T : Tables) (edition : Nat) (enforce : Enforce) (fuel s4max : Nat) (bsq : List Node)
    (err : Bool) (g : Range) (r0 : R) : Except XErr (Option DecodeOut) :=
  let n1 := g.count
  let st0 : CompStB := { r := r0, invalid := err, ddos := List.replicate n1 { enforce := enforce },
                         bms := List.replicate n1 {},
                         dones := List.replicate n1 [], todos := List.replicate n1 bsq }
  if n1 = 0 then .ok (some { subsets := [], invalid := err }) else
  match decodeCompressedLoopB T edition s4max g fuel st0 with
  | .error e => .error e
  | .ok st =>
    let subs := List.zipWith (fun d t => mkvalAll (d.reverse ++ t)) st.dones st.todos
    .ok (some { subsets := subs, invalid := st.invalid, early := st.early })

/-- `decodeData` with the bit-map state in the template-level pass and in both loops -/
def decodeDataB (T : Tables) (fuel : Nat) (t : Template) (enforce : Enforce) (nsub : Nat) (compressed : Bool)
    (s4max : Nat) (data : List Nat) (from0 to0 : Int) : Except XErr (Option DecodeOut) :=
  if from0 > nsub then .ok none else
  if t.descs.isEmpty then .ok none else
  let from_ : Int := if from0 < 0 then 1 else from0
  let to1 : Int := if to0 < from_ then from_ else to0
  let to : Int := if to1 > nsub then nsub else to1
  match expandSequence T fuel (OP_EXPAND_DELAY_REPL ||| OP_ZDRC_SKIP) t.gabarit with
  | .error .fuel => .error .fuel
  | .error _ => .ok none
  | .ok bsq0 =>
    let (bsq, _, _, err) := applyTablesAllB T t.edition { enforce := enforce } {} [] bsq0
    if afAbort bsq then .error .abort else
    let hasDelayed := checkFlagsLoop T (bsq.map (·.desc)) {}
    let r0 : R := R.ofBytes data
    if !compressed then
      let lenConst := !(hasDelayed && decide (from_ > 0))
      let nbitsSeq := estimateSeqLength T fuel bsq
      let n1 : Nat := if lenConst ∧ from_ > 0 then (to - from_ + 1).toNat else nsub
      let r1 := if lenConst ∧ from_ > 1 then skipN r0 (nbitsSeq * (from_ - 1)) else r0
      match decodeUncompressedB T t.edition enforce fuel s4max bsq nbitsSeq lenConst from_ to n1 0
              { r := r1, invalid := err } [] with
      | .error e => .error e
      | .ok (st, subs) => .ok (some { subsets := subs, invalid := st.invalid, early := st.early })
    else decodeCompressedAllB T t.edition enforce fuel s4max bsq err { nsub := nsub, from_ := from_, to := to } r0

/-- `bufr_create_af` calls `bufr_abort` for more than 64 bits of associated fields ("current
implementation does not support >64 AF bits"): a decoded node that was given a value while more
than 64 bits of associated fields were in force for it -/
def afOverflow (out : DecodeOut) : Bool :=
  out.subsets.any fun s => s.any fun n => n.val.isSome && decide (listSumN n.af > 64)

/-- `decodeDataB` with that implementation limit: the decoder never returns such a dataset, the
application's abort handler is called while it is being built (a refusal) -/
def decodeDataC (T : Tables) (fuel : Nat) (t : Template) (enforce : Enforce) (nsub : Nat) (compressed : Bool)
    (s4max : Nat) (data : List Nat) (from0 to0 : Int) : Except XErr (Option DecodeOut) :=
  match decodeDataB T fuel t enforce nsub compressed s4max data from0 to0 with
  | .ok (some out) => if afOverflow out then .error .abort else .ok (some out)
  | r => r

/-- `bufr_create_datasubset(dts)` with the bit-map head (`createDatasubset`) -/
def createDatasubsetB (T : Tables) (fuel : Nat) (t : Template) : Except XErr (Subset × Bool) :=
  let r := if t.hasDelayed then expandSequence T fuel (OP_EXPAND_DELAY_REPL ||| OP_ZDRC_SKIP) t.gabarit
           else .ok t.gabarit
  match r with
  | .error e => .error e
  | .ok ns =>
    let (ns', _, _, err) := applyTablesAllB T t.edition { enforce := .strict } {} [] ns
    if afAbort ns' then .error .abort else
    .ok ({ nodes := mkvalAll ns' }, err)

/-- `bufr_expand_datasubset(dts, pos)` with the bit-map head (`expandDatasubset`) -/
def expandDatasubsetB (T : Tables) (fuel : Nat) (t : Template) (s : Subset) : Except XErr (Subset × Bool) :=
  match expandSequence T fuel (OP_EXPAND_DELAY_REPL ||| OP_ZDRC_SKIP) s.nodes with
  | .error e => .error e
  | .ok ns =>
    let (ns', _, _, err) := applyTablesAllB T t.edition { enforce := .strict } {} [] ns
    if afAbort ns' then .error .abort else
    .ok ({ nodes := mkvalAll ns' }, err)

end Bufr
