import BufrModel.SoftFloat
/-
  BufrModel.Printf — the libc text conversions the dump format relies on, on byte lists:
  `printf` of `%d`, `%lld`, `%.6d`, `%llx`, `%.*f`, `%f`, `%.14E`; `atoi`, `atol` (`strtol` base 10),
  `sscanf` of `%llx`, `%d`, `%o`, `%x`; `strtod`, `strtof`; `strtok_r`, `isspace` ("C" locale).

  CONTRACTS (DESIGN §6): `printf("%.*f")`/`"%E"` render the exact binary value correctly rounded
  (ties to even on the exact decimal expansion, glibc in round-to-nearest); `strtod`/`strtof` return
  the correctly rounded binary64/binary32 of the decimal they read.  Not mirrored (only garbage input
  reaches them): hexadecimal floats, `nan(…)` payloads, and conversions `sscanf` leaves unassigned
  (the C then uses an uninitialised variable; the model says 0).

  Mathlib-free: linked into `bvp_lean`.
-/
namespace Bufr.Printf
open Bufr.SF

/-! ### output -/

/-- decimal digits of `n`, least significant first (`fuel` rounds are enough when `n < 10^fuel`) -/
def decRev : Nat → Nat → List Nat
  | 0, _ => []
  | f+1, n => (48 + n % 10) :: (if n / 10 = 0 then [] else decRev f (n / 10))

/-- `%u` -/
def decNat (n : Nat) : List Nat := (decRev (n + 1) n).reverse

/-- `%d` / `%lld` -/
def fmtInt (v : Int) : List Nat := if v < 0 then 45 :: decNat v.natAbs else decNat v.natAbs

/-- left-pad with `0` to `w` characters -/
def zpad (w : Nat) (ds : List Nat) : List Nat := List.replicate (w - ds.length) 48 ++ ds

/-- `%.6d`: at least six digits (the sign is not counted) -/
def fmtD6 (v : Int) : List Nat := if v < 0 then 45 :: zpad 6 (decNat v.natAbs) else zpad 6 (decNat v.natAbs)

def hexDig (d : Nat) : Nat := if d < 10 then 48 + d else 87 + d

def hexRev : Nat → Nat → List Nat
  | 0, _ => []
  | f+1, n => hexDig (n % 16) :: (if n / 16 = 0 then [] else hexRev f (n / 16))

/-- `%llx` -/
def hexNat (n : Nat) : List Nat := (hexRev (n + 1) n).reverse

/-- round a non-negative rational to the nearest integer, ties to even, as a `Nat` -/
def rneNat (a : Rat) : Nat := (rne a).toNat

/-- `%.{k}f` of the finite value `q`: sign, integer part, `.` and `k` decimals (no `.` when `k = 0`),
correctly rounded.  A negative value that rounds to zero keeps its sign (`-0.00`), as in C. -/
def fmtF (k : Nat) (q : Rat) : List Nat :=
  let a := if q < 0 then -q else q
  let m := rneNat (a * ((10 ^ k : Nat) : Rat))
  (if q < 0 then [45] else []) ++ decNat (m / 10 ^ k) ++
    (if k = 0 then [] else 46 :: zpad k (decNat (m % 10 ^ k)))

/-- `⌊log₁₀ a⌋` for `a > 0`, searched from the binary logarithm (`fuel` steps each way) -/
def ilog10Up : Nat → Rat → Int → Int
  | 0, _, e => e
  | f+1, a, e => if pow10r (e + 1) ≤ a then ilog10Up f a (e + 1) else e
def ilog10Down : Nat → Rat → Int → Int
  | 0, _, e => e
  | f+1, a, e => if a < pow10r e then ilog10Down f a (e - 1) else e
def ilog10 (a : Rat) : Int :=
  -- 2^b ≤ a < 2^(b+1);  b·log10(2) within one of the answer
  let b := ilog2 a
  let e0 : Int := b * 30103 / 100000
  ilog10Up 4 a (ilog10Down 4 a e0)

/-- `%.{k}E` of the finite value `q` -/
def fmtE (k : Nat) (q : Rat) : List Nat :=
  let a := if q < 0 then -q else q
  let sgn := if q < 0 then [45] else []
  let (m, e) : Nat × Int :=
    if a = 0 then (0, 0) else
    let e := ilog10 a
    let m := rneNat (a / pow10r (e - k))
    if m ≥ 10 ^ (k + 1) then (m / 10, e + 1) else (m, e)
  let ds := zpad (k + 1) (decNat m)
  let mant := ds.take 1 ++ (if k = 0 then [] else 46 :: ds.drop 1)
  sgn ++ mant ++ [69] ++ (if e < 0 then [45] else [43]) ++ zpad 2 (decNat e.natAbs)

/-- `str_trimchar(str, '0')` (bufr_util.c): drop trailing zeros, then a trailing `.`.  The C walks
down from the last character without a lower bound; on the outputs of `%f` (which contain a `.`)
that is the same. -/
def trimZeros (s : List Nat) : List Nat :=
  let t := (s.reverse.dropWhile (· = 48)).reverse
  if t.getLast? = some 46 then t.dropLast else t

/-! ### C strings and tokens -/

/-- `isspace` in the "C" locale -/
def isSpace (c : Nat) : Bool := c = 32 || (9 ≤ c && c ≤ 13)
def isDigit (c : Nat) : Bool := 48 ≤ c && c ≤ 57

/-- a byte buffer read as a C string: up to the first NUL -/
def cstr (s : List Nat) : List Nat := s.takeWhile (· ≠ 0)

/-- `strtok_r(s, delims, &ptr)` on a C string: `none` when only delimiters remain; otherwise the
token and the new `ptr` (just after the delimiter that ended the token, or the empty string) -/
def strtok (delims : List Nat) (s : List Nat) : Option (List Nat × List Nat) :=
  let s1 := s.dropWhile (delims.contains ·)
  if s1.isEmpty then none
  else
    let tok := s1.takeWhile (fun c => !delims.contains c)
    some (tok, (s1.drop tok.length).drop 1)

/-- value of a run of decimal digits -/
def digitsVal (ds : List Nat) : Nat := ds.foldl (fun a d => 10 * a + (d - 48)) 0

/-- `strtol(s, NULL, 10)`: white space, optional sign, digits; saturates at `LONG_MIN`/`LONG_MAX` -/
def strtol (s : List Nat) : Int :=
  let s1 := s.dropWhile isSpace
  let (neg, s2) := match s1 with
    | 45 :: r => (true, r)
    | 43 :: r => (false, r)
    | _ => (false, s1)
  let v : Int := digitsVal (s2.takeWhile isDigit)
  if neg then (if v > 2 ^ 63 then -(2:Int) ^ 63 else -v) else (if v > 2 ^ 63 - 1 then 2 ^ 63 - 1 else v)

/-- `atol` -/
def atol (s : List Nat) : Int := strtol s
/-- `atoi`: `(int) strtol(s, NULL, 10)` -/
def atoi (s : List Nat) : Int := wrapI32 (strtol s)
/-- assignment to a C `short` -/
def wrapI16 (z : Int) : Int :=
  let m := z % 65536
  if m < 32768 then m else m - 65536

def hexDigVal (c : Nat) : Option Nat :=
  if 48 ≤ c ∧ c ≤ 57 then some (c - 48)
  else if 97 ≤ c ∧ c ≤ 102 then some (c - 87)
  else if 65 ≤ c ∧ c ≤ 70 then some (c - 55)
  else none

def takeHex : List Nat → List Nat
  | [] => []
  | c :: r => match hexDigVal c with
    | some d => d :: takeHex r
    | none => []

/-- `sscanf(s, "%llx", &v)`: white space, optional sign, optional `0x`, hexadecimal digits;
saturates at `ULLONG_MAX`; `none` = matching failure (nothing assigned) -/
def scanHex (s : List Nat) : Option Nat :=
  let s1 := s.dropWhile isSpace
  let (neg, s2) := match s1 with
    | 45 :: r => (true, r)
    | 43 :: r => (false, r)
    | _ => (false, s1)
  let s3 := match s2 with
    | 48 :: x :: r => if (x = 120 ∨ x = 88) ∧ (r.head?.bind hexDigVal).isSome then r else s2
    | _ => s2
  let ds := takeHex s3
  if ds.isEmpty then none
  else
    let v := ds.foldl (fun a d => 16 * a + d) 0
    let v := if v ≥ 2 ^ 64 then 2 ^ 64 - 1 else v
    some (if neg then (2 ^ 64 - v) % 2 ^ 64 else v)

/-- `sscanf(s, "%d", &i)` stored in an `int` -/
def scanDec (s : List Nat) : Option Int :=
  let s1 := s.dropWhile isSpace
  let s2 := match s1 with
    | 45 :: r => r
    | 43 :: r => r
    | _ => s1
  if (s2.takeWhile isDigit).isEmpty then none else some (wrapI32 (strtol s1))

/-- `sscanf(s, "%o", &u)` / `"%x"` stored in an `unsigned int` (`base` 8 or 16) -/
def scanUnsigned (base : Nat) (s : List Nat) : Option Nat :=
  let s1 := s.dropWhile isSpace
  let (neg, s2) := match s1 with
    | 45 :: r => (true, r)
    | 43 :: r => (false, r)
    | _ => (false, s1)
  let s3 := if base = 16 then (match s2 with
    | 48 :: x :: r => if (x = 120 ∨ x = 88) ∧ (r.head?.bind hexDigVal).isSome then r else s2
    | _ => s2) else s2
  let ds := (takeHex s3).takeWhile (· < base)
  if ds.isEmpty then none
  else
    let v := ds.foldl (fun a d => base * a + d) 0
    let v := if v ≥ 2 ^ 64 then 2 ^ 64 - 1 else v
    let v := if neg then (2 ^ 64 - v) % 2 ^ 64 else v
    some (v % 2 ^ 32)

/-! ### strtod / strtof -/

def lower (c : Nat) : Nat := if 65 ≤ c ∧ c ≤ 90 then c + 32 else c

def startsWithCI (p s : List Nat) : Bool := (s.take p.length).map lower == p

/-- the decimal number `strtod` reads at the start of `s` (after white space and sign): digits with
an optional point and an optional exponent; `none` when there is no digit -/
def scanDecimal (s : List Nat) : Option Rat :=
  let ip := s.takeWhile isDigit
  let r1 := s.drop ip.length
  let (fp, r2) := match r1 with
    | 46 :: r => let f := r.takeWhile isDigit; (f, r.drop f.length)
    | _ => ([], r1)
  if ip.isEmpty ∧ fp.isEmpty then none
  else
    let mant : Rat := (digitsVal (ip ++ fp) : Rat) / ((10 ^ fp.length : Nat) : Rat)
    let ex : Int := match r2 with
      | c :: r =>
        if c = 101 ∨ c = 69 then
          let (neg, r') := match r with
            | 45 :: t => (true, t)
            | 43 :: t => (false, t)
            | _ => (false, r)
          let ds := r'.takeWhile isDigit
          if ds.isEmpty then 0 else (if neg then -(digitsVal ds : Int) else digitsVal ds)
        else 0
      | [] => 0
    -- an absurd exponent is clamped: the result is 0 or infinity either way
    let ex := if ex > 100000 then 100000 else if ex < -100000 then -100000 else ex
    some (mant * pow10r ex)

/-- round the exact value `q` to a binary format with `p` significant bits, minimum normal exponent
`emin` and overflow threshold `2^(emax+1)`: IEEE round-to-nearest-even with gradual underflow -/
def roundIEEE (p : Nat) (emin emax : Int) (q : Rat) : FP :=
  if q = 0 then .fin 0
  else
    let a := if q < 0 then -q else q
    if a < pow2 emin then
      let ulp := pow2 (emin - ((p : Int) - 1))
      let r := (rne (a / ulp) : Rat) * ulp
      .fin (if q < 0 then -r else r)
    else
      let r := fl p q
      if pow2 (emax + 1) ≤ r ∨ r ≤ -pow2 (emax + 1) then .inf (decide (q < 0)) else .fin r

def strtoFP (p : Nat) (emin emax : Int) (s : List Nat) : FP :=
  let s1 := s.dropWhile isSpace
  let (neg, s2) := match s1 with
    | 45 :: r => (true, r)
    | 43 :: r => (false, r)
    | _ => (false, s1)
  if startsWithCI [105, 110, 102] s2 then .inf neg          -- "inf", "infinity"
  else if startsWithCI [110, 97, 110] s2 then .nan           -- "nan"
  else match scanDecimal s2 with
    | none => .fin 0
    | some q => roundIEEE p emin emax (if neg then -q else q)

/-- `strtod(s, NULL)` -/
def strtod (s : List Nat) : FP := strtoFP 53 (-1022) 1023 s
/-- `strtof(s, NULL)` -/
def strtof (s : List Nat) : FP := strtoFP 24 (-126) 127 s

end Bufr.Printf
