import BufrModel.Core
/-
  BufrModel.Expand — template expansion on flat flagged lists
  (`bufr_expand_list`, `bufr_expand_node_descriptor`, `bufr_repl_descriptors`,
  `bufr_assign_descriptors`, `bufr_expand_desc`, `bufr_solve_replication`,
  `bufr_estimate_seq_length`; bufr_sequence.c) and the replication-count check
  (`bufr_check_sequence`, `decrease_repeat_counters`).

  The C mutates a linked list in place; here a step takes the list from the current
  node onwards and returns the nodes to emit.  `OP_RM_XPNDBL_DESC` (used only by the
  table-update code and the length estimate) is not modelled: for the length estimate
  removed and flagged nodes both count zero.
-/
namespace Bufr

def OP_EXPAND_DELAY_REPL : Nat := 1
def OP_ZDRC_SKIP : Nat := 4
def OP_ZDRC_IGNORE : Nat := 8

inductive XErr
  | null     -- the C function returned NULL
  | fuel     -- the model ran out of fuel (the C would not terminate / overflow its stack)
  | abort    -- the C called `bufr_abort` (documented implementation limit), a refusal
deriving DecidableEq, Repr, Inhabited

/-- result of an expansion: nodes plus the sticky `*errflg` -/
abbrev XRes := Except XErr (List Node × Bool)

/-- `bufr_solve_replication(value, y2, desc)` -/
def solveReplication (value : Int) (y2 : Nat) : Int :=
  match y2 with
  | 0 => if value ≠ -1 then (if value ≠ 0 then 1 else 0) else 0
  | 1 | 2 => if value ≠ -1 then value else 0
  | 11 | 12 => if value ≠ -1 then 1 else 0
  | _ => 0

/-- encoding fix-up shared by `bufr_repl_descriptors` and `bufr_assign_descriptors` for a node
whose width is still unknown (`nbits == -1`) -/
def resolveUnknown (T : Tables) (n : Node) : Node :=
  if n.enc.nbits = -1 then
    let n0 := { n with enc := { n.enc with nbits := 0 } }
    if isTableB n.desc then
      match T.fetchB n.desc with
      | some e => { n0 with enc := e.enc }
      | none => n0
    else n0
  else n

/-- `bufr_assign_descriptors(node, nbdesc, flags, tbls)` on the first `x` nodes -/
def assignDescriptors (T : Tables) (flags : Nat) (body : List Node) : List Node :=
  body.map fun n =>
    if hasFlag flags OP_EXPAND_DELAY_REPL ∧ (hasFlag flags OP_ZDRC_SKIP ∨ hasFlag flags OP_ZDRC_IGNORE) then
      { n with flags := { n.flags with skipped := true, ignored := true } }
    else resolveUnknown T n

/-- a placeholder (missing) value from a replication that occurred zero times is dropped when the
descriptor is replicated, to be made again from the final encoding -/
def dropPlaceholder (n : Node) : Node :=
  if n.flags.ignored ∧ n.val.isSome ∧ n.val.isMissing then { n with val := .none, afW := 0, afBits := 0 } else n

/-- one replica of `bufr_repl_descriptors`: duplicate the body with rank `j+1` -/
def replicaOf (T : Tables) (extra : Bool) (body : List Node) (j : Nat) : List Node :=
  body.map fun n =>
    let n1 := resolveUnknown T n
    -- a placeholder value from a replication that occurred zero times is made again later
    let n2 := dropPlaceholder n1
    { n2 with flags := { n2.flags with skipped := false, class33 := n2.flags.class33 || extra }, replRank := j + 1 }

def replicas (T : Tables) (extra : Bool) (body : List Node) (count : Nat) : List Node :=
  (List.range count).flatMap (replicaOf T extra body)

/-- members of a Table D entry as fresh nodes; `none` when a member is unknown to Table B and not
preceded by 2 06 YYY (`bufr_expand_desc`) -/
def memberNodes (T : Tables) : Option Nat → List Nat → Option (List Node)
  | _, [] => some []
  | prev, c :: cs =>
    let n := mkNode T c
    let ok : Bool := Desc.f c != 0 || n.enc.nbits != -1 || (prev.map isSigDatawidth).getD false
    if ok then (memberNodes T (some c) cs).map (n :: ·) else none

/-- `bufr_minimum_seq_length`: a lower bound of the bits the list takes in Section 4 whatever
operators are in force; state `(dlyNext, dlyX, dlyDesc, dlyCnt)` -/
def minSeqLoop : List Node → (Bool × Nat × Nat × Int) → Int → Int
  | [], _, acc => acc
  | n :: ns, (dlyNext, dlyX, dlyDesc, dlyCnt), acc =>
    let fx := Desc.f n.desc
    let x := Desc.x n.desc
    if dlyDesc > 0 ∧ dlyCnt ≤ 0 then minSeqLoop ns (dlyNext, dlyX, dlyDesc - 1, dlyCnt) acc
    else
      let dlyDesc1 := if dlyDesc > 0 then dlyDesc - 1 else dlyDesc
      if n.flags.skipped then minSeqLoop ns (dlyNext, dlyX, dlyDesc1, dlyCnt) acc
      else
        let dly : Bool × Nat × Nat × Int :=
          if dlyNext ∧ fx = 0 ∧ x = 31 then (false, dlyX, dlyX, if n.hasVal then n.ival else -1)
          else if fx = 1 ∧ Desc.y n.desc = 0 then (true, x, dlyDesc1, dlyCnt)
          else (dlyNext, dlyX, dlyDesc1, dlyCnt)
        let w : Int :=
          if fx ≠ 0 ∨ n.enc.nbits ≤ 0 then 0
          else match n.enc.type with
            | .codetable | .flagtable => n.enc.nbits
            | .ccitt => if x = 31 then n.enc.nbits else 8
            | .numeric => if x = 31 then n.enc.nbits else 1
            | .chngRef | .ieee => 1
            | _ => 0
        minSeqLoop ns dly (acc + w)

def minSeqLength (ns : List Node) : Int := minSeqLoop ns (false, 0, 0, 0) 0

/-- no replication descriptor of a Table D sequence reaches past the end of the sequence
(`bufr_expand_desc`) -/
def spansClosedFrom (count : Nat) : Nat → List Nat → Bool
  | _, [] => true
  | i, d :: ds =>
    (if Desc.f d = 1 then decide (i + (Desc.x d + (if Desc.y d = 0 then 1 else 0)) < count) else true) &&
      spansClosedFrom count (i + 1) ds

/-- the end (index of its last descriptor) of the replication at index `i` -/
def spanEnd (i d : Nat) : Nat := i + Desc.x d + (if Desc.y d = 0 then 1 else 0)

/-- no replication of the sequence runs past the end of a replication it lies in (`bufr_expand_desc`):
`pre` = the replications met so far as (index, descriptor), newest first -/
def spansNestedFrom : Nat → List (Nat × Nat) → List Nat → Bool
  | _, _, [] => true
  | i, pre, d :: ds =>
    (if Desc.f d = 1 then
       pre.all fun (j, dj) => !(decide (spanEnd j dj ≥ i) && decide (spanEnd i d > spanEnd j dj))
     else true) &&
      spansNestedFrom (i + 1) (if Desc.f d = 1 then (i, d) :: pre else pre) ds

def spansClosed (ms : List Nat) : Bool := spansClosedFrom ms.length 0 ms && spansNestedFrom 0 [] ms

/-- `bufr_tabled_reaches_itself(tbls, desc, path)`: depth first walk of the sequences a Table D
descriptor refers to; `some true` = a descriptor being expanded is met again.  The C walk ends
because a table is finite; the model walks to a fixed depth (`none` beyond it) -/
def reachesItself (T : Tables) : Nat → List Nat → Nat → Option Bool
  | 0, _, _ => none
  | f+1, path, d =>
    if Desc.f d ≠ 3 then some false
    else if path.contains d then some true
    else match T.fetchD d with
      | none => some false
      | some e => e.members.foldl (fun acc m => match acc with
          | some false => reachesItself T f (d :: path) m
          | r => r) (some false)

/-- `bufr_tabled_is_circular(tbls, desc)`; shipped tables nest 6 deep -/
def tabledCircular (T : Tables) (d : Nat) : Bool := reachesItself T 64 [] d == some true

mutual
/-- `bufr_estimate_seq_length` with its running state: `(lastDesc, lastNbits)`, `(repDesc, repCnt)`
and the delayed-replication tracking `(dlyNext, dlyX, dlyDesc, dlyCnt)` that makes the estimate a
lower bound (skipped descriptors and those under a delayed replication with factor ≤ 0 or unknown
take no bits) -/
def estimateLoop (T : Tables) : Nat → List Node → Nat × Int → Nat × Int → (Bool × Nat × Nat × Int) → Int → Int
  | 0, _, _, _, _, acc => acc
  | _, [], _, _, _, acc => acc
  | f+1, n :: ns, (lastDesc, lastNbits), (repDesc, repCnt), (dlyNext, dlyX, dlyDesc, dlyCnt), acc =>
    let fx := Desc.f n.desc
    if dlyDesc > 0 ∧ dlyCnt ≤ 0 then
      estimateLoop T f ns (lastDesc, lastNbits) (repDesc, repCnt) (dlyNext, dlyX, dlyDesc - 1, dlyCnt) acc
    else
      let dlyDesc1 := if dlyDesc > 0 then dlyDesc - 1 else dlyDesc
      if n.flags.skipped then
        estimateLoop T f ns (lastDesc, lastNbits) (repDesc, repCnt) (dlyNext, dlyX, dlyDesc1, dlyCnt) acc
      else
        let dly : Bool × Nat × Nat × Int :=
          if dlyNext ∧ fx = 0 ∧ Desc.x n.desc = 31 then (false, dlyX, dlyX, if n.hasVal then n.ival else -1)
          else if fx = 1 ∧ Desc.y n.desc = 0 then (true, Desc.x n.desc, dlyDesc1, dlyCnt)
          else (dlyNext, dlyX, dlyDesc1, dlyCnt)
        let a1 := if n.enc.afNbits > 0 then acc + n.enc.afNbits else acc
        let (a2, last) :=
          if n.enc.nbits > 0 then (a1 + n.enc.nbits, (lastDesc, lastNbits))
          else if n.flags.skipped ∨ n.flags.expanded ∨ n.flags.ignored then
            (a1, (lastDesc, lastNbits))
          else if lastDesc = n.desc then (a1 + lastNbits, (lastDesc, lastNbits))
          else if fx = 3 ∧ (repDesc = 0 ∨ (repDesc > 0 ∧ repCnt > 0)) then
            match expandDesc T f 0 none n.desc with
            | .ok (sub, _) =>
              let l := estimateLoop T f sub (0, 0) (0, 0) (false, 0, 0, 0) 0
              (a1 + l, (n.desc, l))
            | .error _ => (a1, (lastDesc, lastNbits))
          else (a1, (lastDesc, lastNbits))
        let rd := if repDesc > 0 then repDesc - 1 else repDesc
        let rep :=
          if fx = 1 then (Desc.x n.desc + (if Desc.y n.desc = 0 then 1 else 0), repCnt)
          else if fx = 0 ∧ Desc.x n.desc = 31 then (rd, if n.hasVal then n.ival else -1)
          else (rd, repCnt)
        estimateLoop T f ns last rep dly a2

/-- `bufr_repl_descriptors(first, nbdesc, count, flags, tbls, errflg, s4)`; `body` is already the
`nbdesc` nodes (the caller refuses a short list) -/
def replDescriptors (T : Tables) : Nat → Nat → Option Nat → List Node → Nat → XRes
  | 0, _, _, _, _ => .error .fuel
  | f+1, flags, s4, body, count =>
    let extra := match body with
      | [b] => decide (Desc.f b.desc = 0 ∧ Desc.x b.desc = 33)
      | _ => false
    let tooLong := match s4 with
      | some maxLen =>
        if count > 0 then
          -- the first occurrence is measured with its Table D sequences and fixed replications
          -- expanded (a copy, no section 4 guard); unexpanded when that expansion fails
          let one := replicaOf T extra body 0
          let fl1 := if hasFlag flags OP_ZDRC_IGNORE then flags - OP_ZDRC_IGNORE else flags
          let len := match expandList T f fl1 none one with
            | .ok (xl, _) => minSeqLength xl
            | .error _ => minSeqLength one
          decide (len * count / 8 > maxLen * 3)
        else false
      | none => false
    if tooLong then .error .null
    else
      let flags' := if hasFlag flags OP_ZDRC_IGNORE then flags - OP_ZDRC_IGNORE else flags
      expandList T f flags' s4 (replicas T extra body count)

/-- `bufr_expand_desc(desc, flags, tbls, errflg, s4)` -/
def expandDesc (T : Tables) : Nat → Nat → Option Nat → Nat → XRes
  | 0, _, _, _ => .error .fuel
  | f+1, flags, s4, d =>
    if Desc.f d ≠ 3 then .error .null
    else match T.fetchD d with
      | none => .error .null
      | some e =>
        -- a sequence that refers to itself is refused
        if tabledCircular T d then .error .null else
        -- a replication inside a Table D sequence must be closed within the sequence
        if !spansClosed e.members then .error .null else
        match memberNodes T none e.members with
        | none => .error .null
        | some nodes => expandList T f flags s4 nodes

/-- `bufr_expand_list`: walk the list, expanding each node in place -/
def expandList (T : Tables) : Nat → Nat → Option Nat → List Node → XRes
  | 0, _, _, _ => .error .fuel
  | _, _, _, [] => .ok ([], false)
  | f+1, flags, s4, n :: rest =>
    if n.skipped ∨ n.expanded then
      (expandList T f flags s4 rest).map fun (r, e) => (n :: r, e)
    else
      let fx := Desc.f n.desc
      let x := Desc.x n.desc
      let y := Desc.y n.desc
      let done := { n with flags := { n.flags with expanded := true, skipped := true } }
      if fx = 1 then
        if y > 0 then
          if rest.length < x then .error .null
          else do
            let (sub, e1) ← replDescriptors T f flags s4 (rest.take x) y
            let (r, e2) ← expandList T f flags s4 (rest.drop x)
            pure (done :: sub ++ r, e1 || e2)
        else
          match rest with
          | [] => .ok ([done], true)
          | c31 :: rest' =>
            if Desc.f c31.desc = 0 ∧ Desc.x c31.desc = 31 then
              let value0 : Int := if c31.hasVal then c31.ival else -1
              -- `if (value < 0) { if (cb31->value == NULL) mkval; bufr_value_set_int32(value, 0); }`
              let c31v : Node := { c31 with val := if value0 < 0 then
                                     (match c31.val with | .none => Val.i32 0 | v => v.setInt32 0) else c31.val }
              let value : Int := if value0 < 0 then 0 else value0
              let rep0 := solveReplication value (Desc.y c31.desc)
              let rep := if rep0 < 0 then 0 else rep0
              let c31f := { c31v with flags := { c31v.flags with class31 := true } }
              if rep > 0 ∧ hasFlag flags OP_EXPAND_DELAY_REPL then
                if rest'.length < x then .error .null
                else do
                  let (sub, e1) ← replDescriptors T f flags s4 (rest'.take x) rep.toNat
                  let (r, e2) ← expandList T f flags s4 (rest'.drop x)
                  pure (done :: { c31f with flags := { c31f.flags with expanded := true } } :: sub ++ r, e1 || e2)
              else do
                let body := assignDescriptors T flags (rest'.take x)
                let (r, e2) ← expandList T f flags s4 (rest'.drop x)
                pure (n :: c31f :: body ++ r, e2)
            else
              -- not followed by a class 31 factor: errflg, and `bufr_expand_list` drops the node
              (expandList T f flags s4 rest).map fun (r, _) => (r, true)
      else if fx = 3 then do
        let (sub, e1) ← expandDesc T f flags s4 n.desc
        let (r, e2) ← expandList T f flags s4 rest
        pure (done :: sub ++ r, e1 || e2)
      else
        let n' := { n with flags := { n.flags with class31 := n.flags.class31 || decide (fx = 0 ∧ x = 31) } }
        (expandList T f flags s4 rest).map fun (r, e) => (n' :: r, e)
end

/-- `bufr_estimate_seq_length(seq, tbls)` -/
def estimateSeqLength (T : Tables) (fuel : Nat) (ns : List Node) : Int :=
  estimateLoop T fuel ns (0, 0) (0, 0) (false, 0, 0, 0) 0

/-- `bufr_expand_sequence(bsq, flags, tbls)`: `-1` when the list came back NULL or `errflg` is set -/
def expandSequence (T : Tables) (fuel flags : Nat) (ns : List Node) : Except XErr (List Node) :=
  match expandList T fuel flags none ns with
  | .ok (r, false) => .ok r
  | .ok (_, true) => .error .null
  | .error e => .error e

/-! ### `bufr_check_sequence` -/

/-- `decrease_repeat_counters`: stack newest first.  Returns the new stack and the code the
caller tests: `-1` if any counter went negative, otherwise the largest remaining count. -/
def decreaseRepeatCounters (stack : List Int) (skip1 : Bool) : List Int × Int :=
  match stack with
  | [] => ([], 0)
  | top :: older =>
    let top' := if skip1 then top else top - 1
    let dec := top' :: older.map (· - 1)
    let neg := dec.any (· < 0)
    let mx := dec.foldl max 0
    let popped := dec.dropWhile (· = 0)
    (popped, if neg then -1 else mx)

structure ChkSt where
  stack : List Int := []
  next31 : Bool := false       -- delayed replication must be followed by a class 31 factor
  next31021 : Bool := false    -- 2 04 YYY must be followed by 0 31 021
  skip1 : Bool := false
  active : Int := 0
  delayed : Bool := false
deriving Repr

def isClass31Factor (d : Nat) : Bool :=
  Desc.f d = 0 && Desc.x d = 31 && (Desc.y d = 0 || Desc.y d = 1 || Desc.y d = 2 || Desc.y d = 11 || Desc.y d = 12)

/-- `bufr_check_sequence(bsq, NULL, &flags, tbls, 0)`: `none` = rejected (`-1`);
`some delayed` = accepted, with HAS_DELAYED_REPLICATION. -/
def checkLoop (T : Tables) : List Nat → ChkSt → Option ChkSt
  | [], st => some st
  | d :: ds, st =>
    if Desc.f d = 3 ∧ (T.fetchD d).isNone then none
    else
      -- the expectation set by the previous descriptor
      let r : Option ChkSt :=
        if st.next31 then
          if isClass31Factor d then some { st with next31 := false, skip1 := true } else none
        else if st.next31021 then
          if d = 31021 then some { st with next31021 := false } else none
        else some st
      match r with
      | none => none
      | some st1 =>
        let st2 :=
          if Desc.f d = 2 then
            if Desc.x d = 4 ∧ Desc.y d ≠ 0 then { st1 with next31021 := true } else st1
          else if Desc.f d = 1 then
            { st1 with next31 := st1.next31 || Desc.y d = 0, delayed := st1.delayed || Desc.y d = 0,
                       stack := (Desc.x d : Int) :: st1.stack, skip1 := true }
          else st1
        let (stk, act) := decreaseRepeatCounters st2.stack st2.skip1
        if act < 0 then none
        else checkLoop T ds { st2 with stack := stk, skip1 := false, active := act }

def checkSequence (T : Tables) (ds : List Nat) : Option Bool :=
  match checkLoop T ds {} with
  | none => none
  | some st => if st.next31021 ∨ st.next31 ∨ st.active ≠ 0 then none else some st.delayed

end Bufr
