import BufrModel.Basic
import BufrModel.TableTypes
import BufrModel.Value
/-
  BufrModel.Core — descriptor nodes, encodings and flags (`BufrDescriptor`,
  `BufrValueEncoding`, FLAG_* in bufr_desc.h; `BufrDataType` in bufr_tables.h).
-/
namespace Bufr

inductive DType
  | undefined | replicator | operator | sequence | numeric | ccitt | codetable | flagtable | chngRef | ieee
deriving DecidableEq, Repr, Inhabited

/-- numeric value of the C enum `BufrDataType` -/
def DType.code : DType → Nat
  | .undefined => 0 | .replicator => 1 | .operator => 2 | .sequence => 3 | .numeric => 4
  | .ccitt => 5 | .codetable => 6 | .flagtable => 7 | .chngRef => 8 | .ieee => 9

def BType.toDType : BType → DType
  | .numeric => .numeric | .ccitt => .ccitt | .codetable => .codetable | .flagtable => .flagtable

/-- `BufrValueEncoding` (ref_nbits is a cache and not modelled) -/
structure Enc where
  type : DType := .undefined
  scale : Int := 0
  ref : Int := 0
  nbits : Int := -1
  afNbits : Nat := 0
deriving DecidableEq, Repr, Inhabited

def EntryB.enc (e : EntryB) : Enc :=
  { type := e.typ.toDType, scale := e.scale, ref := e.ref, nbits := e.nbits, afNbits := 0 }

/-- the `flags` byte of a `BufrDescriptor` (FLAG_CLASS31 = 1, FLAG_EXPANDED = 2, FLAG_SKIPPED = 4,
FLAG_CLASS33 = 8, FLAG_IGNORED = 16), one field per bit -/
structure Flags where
  class31 : Bool := false
  expanded : Bool := false
  skipped : Bool := false
  class33 : Bool := false
  ignored : Bool := false
deriving DecidableEq, Repr, Inhabited

def Flags.toNat (f : Flags) : Nat :=
  (if f.class31 then 1 else 0) + (if f.expanded then 2 else 0) + (if f.skipped then 4 else 0) +
  (if f.class33 then 8 else 0) + (if f.ignored then 16 else 0)

/-- bit test on option masks (`OP_*`, `DDO_*`) -/
def hasFlag (flags f : Nat) : Bool := flags &&& f ≠ 0

/-- `BufrDescriptor` -/
structure Node where
  desc : Nat
  flags : Flags := {}
  enc : Enc := {}
  val : Val := .none           -- `value`
  af : List Nat := []          -- widths of the associated fields in force (`afd`)
  afW : Nat := 0               -- `value->af->nbits` (0: the value carries no associated field)
  afBits : Nat := 0            -- `value->af->bits`
  replRank : Nat := 0
deriving DecidableEq, Repr, Inhabited

/-- `value != NULL` -/
def Node.hasVal (n : Node) : Bool := n.val.isSome
/-- `bufr_value_get_int32(value)`: the integer view (`-1` = missing or no value) -/
def Node.ival (n : Node) : Int := n.val.getInt32

/-- `ValueType` a descriptor's encoding calls for (`bufr_encoding_to_valtype`) -/
inductive VT | undefined | int32 | int64 | flt32 | flt64 | string
deriving DecidableEq, Repr, Inhabited

/-- `bufr_value_nbits(val)` for `val ≥ 0`: least `i ≥ 1` with `2^i - 1 > val` (64 at most) -/
def valueNbitsF : Nat → Nat → Nat → Nat
  | 0, i, _ => i
  | f+1, i, v => if 2^i - 1 > v then i else valueNbitsF f (i+1) v

def valueNbits (v : Nat) : Nat := valueNbitsF 64 1 v

def valtypeOf (e : Enc) : VT :=
  match e.type with
  | .ccitt => .string
  | .ieee => if e.nbits = 64 then .flt64 else .flt32
  | .numeric =>
    if e.scale = 0 ∧ e.ref ≥ 0 then
      let rb : Int := if e.ref ≠ 0 then (valueNbits e.ref.toNat : Int) else 0
      if e.nbits + rb ≤ 31 then .int32
      else if e.nbits + rb ≤ 64 then .int64
      else .flt64
    else .flt64
  | .codetable | .flagtable => if e.nbits ≤ 31 then .int32 else .int64
  | .chngRef => .int32
  | _ => .undefined

/-- a fresh (missing) value of the type the encoding calls for: `bufr_create_value` followed, for
strings, by `bufr_value_set_string(bv, NULL, nbits/8)` -/
def freshVal (e : Enc) : Val :=
  match valtypeOf e with
  | .int32 => .i32 (-1)
  | .int64 => .i64 (-1)
  | .flt32 => .f32 (.fin SF.maxFloat)
  | .flt64 => .f64 (.fin SF.maxDouble)
  | .string => .str (List.replicate (e.nbits / 8).toNat 255)
  | .undefined => .none

def listSumN (l : List Nat) : Nat := l.foldl (· + ·) 0

/-- `bufr_mkval_for_descriptor` when the node has no value yet (`bufr_sequence_to_array(…, 1)`),
including `bufr_set_value_af`: the value gets an associated field when the node has definitions -/
def mkvalNode (n : Node) : Node :=
  if n.val.isSome then n
  else
    let v := freshVal n.enc
    if v.isSome then { n with val := v, afW := listSumN n.af, afBits := 0 } else n

def Node.skipped (n : Node) : Bool := n.flags.skipped
def Node.expanded (n : Node) : Bool := n.flags.expanded

def isLocalDescriptor (d : Nat) : Bool := Desc.x d > 47 || (Desc.y d > 191 && Desc.y d ≤ 255)
def isTableB (d : Nat) : Bool := Desc.f d = 0
def isDescriptor (d : Nat) : Bool := Desc.f d ≤ 3 && Desc.y d < 256
def isSigDatawidth (d : Nat) : Bool := d / 1000 = 206

/-- `bufr_create_descriptor(tbls, desc)` -/
def mkNode (T : Tables) (d : Nat) : Node :=
  match (if Desc.f d = 0 then T.fetchB d else none) with
  | some e => { desc := d, enc := e.enc }
  | none => { desc := d }

/-- `bufr_missing_ivalue(nbits)` as a mathematical value (the C table is only defined to 64) -/
def missingIvalue (nbits : Int) : Nat :=
  if nbits ≤ 0 then 0 else if nbits ≥ 64 then 2^64 - 1 else 2^nbits.toNat - 1


end Bufr
