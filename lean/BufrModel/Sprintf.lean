import BufrModel.Printf
/-
  BufrModel.Sprintf — `sprintf` as a whole: a format string (bytes) is cut into literal characters
  and directives, every directive renders one argument with the conversions of BufrModel/Printf.lean
  (`decNat`, `hexNat`, `fmtF`, `fmtE`), and `maxLen` bounds the length of the rendering from what the
  C types of the arguments allow (C15: "diagnostic text of any length is produced without memory
  errors").  `Site` is one call in the library as transcribed by translate/sprintf_sites.py;
  `siteSafe` compares the bound with the capacity of the destination.

  Directives modelled: flags `- + space # 0`, a decimal width, a decimal precision, the length
  modifiers `l ll z j t`, the conversions `d i u x o c s f e E g p %`.  Anything else (`*`, `%G`, `%a`,
  `%n`, `L`) does not parse: the site is then not provably safe.

  CONTRACT (DESIGN §6): glibc renders `%f`/`%e` correctly rounded (`Printf.fmtF`, `Printf.fmtE`),
  infinities as `inf`/`-inf` and NaNs as `nan`/`-nan`.  Known differences in CONTENT, none in length:
  `%F` prints `INF`/`NAN` in upper case; `FP` has no negative zero and no signed NaN (`-0.000000`
  and `-nan` are one character longer than what the model renders; `maxLen` always reserves the sign);
  `%lc`/`%ls` are read as `%c`/`%s`; `%#g` keeps the zeros but prints no point when no fraction digit follows.  Not modelled (the format then has no bound): `*`, `%G`, `%a`,
  `%n`, `L`, `h`/`hh`, `%#o`, `%#e`, `%p` with flags or precision.

  Mathlib-free: linked into `bvp_lean`.
-/
namespace Bufr.Sprintf
open Bufr.SF Bufr.Printf

/-! ### format strings -/

inductive Conv | d | u | x | o | c | s | f | e | E | g | p | pct
deriving DecidableEq, Repr

structure Dir where
  minus : Bool := false
  plus : Bool := false
  space : Bool := false
  hash : Bool := false
  zero : Bool := false
  width : Nat := 0
  prec : Option Nat := none
  /-- width in bits of the integer type the directive converts its argument to -/
  size : Nat := 32
  conv : Conv
deriving DecidableEq, Repr

inductive Piece | lit (c : Nat) | dir (d : Dir)
deriving DecidableEq, Repr

/-- flags: any sequence of `-+ #0` -/
def takeFlags : List Nat → Dir → Dir × List Nat
  | [], d => (d, [])
  | c :: r, d =>
    if c = 45 then takeFlags r { d with minus := true }
    else if c = 43 then takeFlags r { d with plus := true }
    else if c = 32 then takeFlags r { d with space := true }
    else if c = 35 then takeFlags r { d with hash := true }
    else if c = 48 then takeFlags r { d with zero := true }
    else (d, c :: r)

/-- a run of decimal digits: its value and the rest -/
def takeNum (s : List Nat) : Nat × List Nat :=
  let ds := s.takeWhile isDigit
  (digitsVal ds, s.drop ds.length)

/-- length modifier: the size in bits of the converted integer, and the rest (`none`: `L`) -/
def takeSize : List Nat → Option (Nat × List Nat)
  | 104 :: 104 :: r => some (8, r)         -- hh (converted to char: no bound is derived)
  | 104 :: r => some (16, r)               -- h  (converted to short: no bound is derived)
  | 108 :: 108 :: r => some (64, r)        -- ll
  | 108 :: r => some (64, r)               -- l (LP64)
  | 122 :: r => some (64, r)               -- z
  | 106 :: r => some (64, r)               -- j
  | 116 :: r => some (64, r)               -- t
  | 76 :: _ => none                        -- L
  | r => some (32, r)

def convOf (c : Nat) : Option Conv :=
  if c = 100 ∨ c = 105 then some .d else if c = 117 then some .u else if c = 120 then some .x
  else if c = 111 then some .o else if c = 99 then some .c else if c = 115 then some .s
  else if c = 102 ∨ c = 70 then some .f else if c = 101 then some .e else if c = 69 then some .E
  else if c = 103 then some .g else if c = 112 then some .p else if c = 37 then some .pct else none

/-- one directive, after the `%` -/
def parseDir (s : List Nat) : Option (Dir × List Nat) :=
  let (d1, r1) := takeFlags s { conv := .pct }
  match r1 with
  | 42 :: _ => none                       -- `*`
  | _ =>
  let (w, r2) := takeNum r1
  let pr : Option (Option Nat × List Nat) :=
    match r2 with
    | 46 :: 42 :: _ => none
    | 46 :: r => let (p, r3) := takeNum r; some (some p, r3)
    | r => some (none, r)
  match pr with
  | none => none
  | some (p, r3) =>
    match takeSize r3 with
    | none => none
    | some (sz, r4) =>
      match r4 with
      | c :: r5 =>
        match convOf c with
        | some cv => some ({ d1 with width := w, prec := p, size := sz, conv := cv }, r5)
        | none => none
      | [] => none

/-- cut a format into pieces (`fuel` ≥ its length) -/
def pieces : Nat → List Nat → Option (List Piece)
  | _, [] => some []
  | 0, _ :: _ => none
  | f + 1, c :: r =>
    if c = 37 then
      match parseDir r with
      | some (d, r') => (pieces f r').map (Piece.dir d :: ·)
      | none => none
    else (pieces f r).map (Piece.lit c :: ·)

def parseFmt (fmt : List Nat) : Option (List Piece) := pieces (fmt.length + 1) fmt

/-! ### arguments and rendering -/

inductive Arg
  | int (v : Int)
  | dbl (x : FP)
  | str (s : List Nat)
  | ptr (p : Nat)
deriving DecidableEq, Repr

/-- conversion to the signed integer type of `n` bits -/
def wrapS (n : Nat) (v : Int) : Int :=
  let m := v % (2:Int) ^ n
  if m < (2:Int) ^ (n - 1) then m else m - (2:Int) ^ n
/-- conversion to the unsigned integer type of `n` bits -/
def wrapU (n : Nat) (v : Int) : Nat := (v % (2:Int) ^ n).toNat

def radixRev (b : Nat) : Nat → Nat → List Nat
  | 0, _ => []
  | f + 1, n => hexDig (n % b) :: (if n / b = 0 then [] else radixRev b f (n / b))
/-- digits of `n` in base `b` (2 ≤ b ≤ 16) -/
def radixNat (b n : Nat) : List Nat := (radixRev b (n + 1) n).reverse

/-- precision of an integer conversion: at least `p` digits; precision 0 prints nothing for 0 -/
def intDigits (p : Option Nat) (ds : List Nat) (isZero : Bool) : List Nat :=
  match p with
  | none => ds
  | some k => if k = 0 ∧ isZero then [] else zpad k ds

def signOf (d : Dir) (neg : Bool) : List Nat :=
  if neg then [45] else if d.plus then [43] else if d.space then [32] else []

/-- field padding: left-justified with blanks, or zeros between the prefix and the digits, or
blanks on the left -/
def pad (d : Dir) (numeric : Bool) (pre body : List Nat) : List Nat :=
  let n := pre.length + body.length
  if d.minus then pre ++ body ++ List.replicate (d.width - n) 32
  else if d.zero ∧ numeric then pre ++ List.replicate (d.width - n) 48 ++ body
  else List.replicate (d.width - n) 32 ++ pre ++ body

def fpText (d : Dir) (x : FP) (fin : Rat → List Nat) : List Nat × List Nat × Bool :=
  match x with
  | .fin q =>
    let t := fin q
    match t with
    | 45 :: r => ([45], r, true)
    | _ => (signOf d false, t, true)
  | .nan => (signOf d false, [110, 97, 110], false)
  | .inf neg => (signOf d neg, [105, 110, 102], false)

/-- decimal significand (`k+1` digits) and exponent of `a ≥ 0` rounded to `k+1` significant digits:
the pair `Printf.fmtE` prints -/
def expPair (k : Nat) (a : Rat) : Nat × Int :=
  if a = 0 then (0, 0) else
  let e := ilog10 a
  let m := rneNat (a / pow10r (e - k))
  if m ≥ 10 ^ (k + 1) then (m / 10, e + 1) else (m, e)

/-- `%g` removes the trailing zeros of the fraction, and the point when nothing is left -/
def stripFrac (s : List Nat) : List Nat := if s.contains 46 then trimZeros s else s

/-- `%.{P}g` of the finite value `q` (`alt`: the `#` flag keeps the zeros): style `f` with
`P-1-X` decimals when the decimal exponent `X` of the value rounded to `P` significant digits
satisfies `-4 ≤ X < P`, else style `e` with `P-1` decimals -/
def fmtG (P : Nat) (alt : Bool) (q : Rat) : List Nat :=
  let p := if P = 0 then 1 else P
  let a := if q < 0 then -q else q
  let x := (expPair (p - 1) a).2
  if -4 ≤ x ∧ x < (p : Int) then
    let t := fmtF ((p : Int) - 1 - x).toNat q
    if alt then t else stripFrac t
  else
    let t := (fmtE (p - 1) q).map (fun c => if c = 69 then 101 else c)
    if alt then t else stripFrac (t.takeWhile (· ≠ 101)) ++ t.dropWhile (· ≠ 101)

/-- `%E` prints `INF`/`NAN` in upper case -/
def upperIf (b : Bool) (s : List Nat) : List Nat :=
  if b then s.map (fun c => if 97 ≤ c ∧ c ≤ 122 then c - 32 else c) else s

/-- one directive applied to one argument (`none`: the argument has the wrong kind) -/
def renderDir (d : Dir) (a : Arg) : Option (List Nat) :=
  match d.conv, a with
  | .d, .int v =>
    let w := wrapS d.size v
    some (pad d (d.prec.isNone) (signOf d (decide (w < 0))) (intDigits d.prec (decNat w.natAbs) (decide (w = 0))))
  | .u, .int v =>
    let w := wrapU d.size v
    some (pad d (d.prec.isNone) [] (intDigits d.prec (decNat w) (decide (w = 0))))
  | .x, .int v =>
    let w := wrapU d.size v
    some (pad d (d.prec.isNone) (if d.hash ∧ w ≠ 0 then [48, 120] else []) (intDigits d.prec (hexNat w) (decide (w = 0))))
  | .o, .int v =>
    if d.hash then none else        -- `%#o` is not modelled
    let w := wrapU d.size v
    some (pad d (d.prec.isNone) [] (intDigits d.prec (radixNat 8 w) (decide (w = 0))))
  | .c, .int v => some (pad d false [] [wrapU 8 v])
  | .s, .str s => some (pad d false [] (match d.prec with | some k => s.take k | none => s))
  | .f, .dbl x =>
    let k := d.prec.getD 6
    let (sg, body, num) := fpText d x (fun q => fmtF k q ++ (if k = 0 ∧ d.hash then [46] else []))
    some (pad d num sg body)
  | .E, .dbl x =>
    if d.hash then none else        -- `%#e` is not modelled
    let k := d.prec.getD 6
    let (sg, body, num) := fpText d x (fmtE k)
    some (pad d num sg (upperIf (!num) body))
  | .e, .dbl x =>
    if d.hash then none else
    let k := d.prec.getD 6
    let (sg, body, num) := fpText d x (fun q => (fmtE k q).map (fun c => if c = 69 then 101 else c))
    some (pad d num sg body)
  | .g, .dbl x =>
    let (sg, body, num) := fpText d x (fmtG (d.prec.getD 6) d.hash)
    some (pad d num sg body)
  | .p, .ptr p =>
    -- only the plain form (and a width) is modelled
    if d.prec.isSome ∨ d.plus ∨ d.space ∨ d.hash ∨ d.zero then none else
    some (pad d false [] (if p = 0 then [40, 110, 105, 108, 41] else 48 :: 120 :: hexNat p))
  | _, _ => none

/-- `sprintf(fmt, args…)`: `none` when the format does not parse or the arguments do not match -/
def renderPieces : List Piece → List Arg → Option (List Nat)
  | [], _ => some []
  | .lit c :: r, as => (renderPieces r as).map (c :: ·)
  | .dir d :: r, as =>
    if d.conv = .pct then (renderPieces r as).map (37 :: ·)
    else match as with
      | [] => none
      | a :: as' =>
        match renderDir d a, renderPieces r as' with
        | some x, some y => some (x ++ y)
        | _, _ => none

def render (fmt : List Nat) (as : List Arg) : Option (List Nat) :=
  match parseFmt fmt with
  | some ps => renderPieces ps as
  | none => none

/-! ### bounds from the C types -/

/-- what is known of an argument without running the program -/
inductive ArgB
  | int (bits : Nat) (signed : Bool)      -- a value of that integer type
  | dbl                                   -- any `double`
  | flt                                   -- a `float` promoted to `double`
  | str (n : Nat)                         -- a C string of at most `n` characters
  | ptr
  | unk                                   -- nothing: the site is not provably safe
deriving DecidableEq, Repr

def inRange (bits : Nat) (signed : Bool) (v : Int) : Bool :=
  if signed then decide (-(2:Int) ^ (bits - 1) ≤ v ∧ v < (2:Int) ^ (bits - 1)) else decide (0 ≤ v ∧ v < (2:Int) ^ bits)

/-- a value of a binary floating-point type with largest finite number `M` and smallest positive
(subnormal) number `2^lo` -/
def fpWithin (lo : Int) (M : Rat) : FP → Bool
  | .fin q => decide (-M ≤ q ∧ q ≤ M ∧ (q = 0 ∨ pow2 lo ≤ q ∨ q ≤ -pow2 lo))
  | _ => true

def argOK : ArgB → Arg → Bool
  | .int b s, .int v => 1 ≤ b && inRange b s v
  | .dbl, .dbl x => fpWithin (-1074) maxDouble x
  | .flt, .dbl x => fpWithin (-149) maxFloat x
  | .str n, .str s => decide (s.length ≤ n)
  | .ptr, .ptr p => decide (p < 2 ^ 64)
  | _, _ => false

def argsOK : List ArgB → List Arg → Bool
  | [], [] => true
  | b :: bs, a :: as => argOK b a && argsOK bs as
  | _, _ => false

/-- number of digits of `n` in base `b`, found by search (`fuel` steps) -/
def ndigFrom (b : Nat) : Nat → Nat → Nat → Nat
  | 0, k, _ => k
  | f + 1, k, n => if n < b ^ k then k else ndigFrom b f (k + 1) n
/-- the least `k ≥ 1` with `n < b^k` (for `b ≥ 2`) -/
def ndig (b n : Nat) : Nat := ndigFrom b (n + 1) 1 n

/-- largest magnitude an integer argument can have after conversion to the directive's type:
`(maxAbs, canBeNegative)` for the signed conversion, `maxVal` for the unsigned ones -/
def sMax (size : Nat) (bits : Nat) (signed : Bool) : Nat × Bool :=
  if signed ∧ bits ≤ size then (2 ^ (bits - 1), true)
  else if ¬ signed ∧ bits < size then (2 ^ bits - 1, false)
  else (2 ^ (size - 1), true)

def uMax (size : Nat) (bits : Nat) (signed : Bool) : Nat :=
  if ¬ signed ∧ bits ≤ size then 2 ^ bits - 1 else 2 ^ size - 1

def intBody (p : Option Nat) (nd : Nat) : Nat :=
  match p with
  | none => nd
  | some k => max k nd

/-- characters one directive can produce for an argument with bound `b` (`none`: kinds differ,
or the argument does not fit the directive's type) -/
def maxLenDir (d : Dir) (b : ArgB) : Option Nat :=
  let fld (n : Nat) : Option Nat := some (max d.width n)
  let sg : Nat := if d.plus ∨ d.space then 1 else 0
  match d.conv, b with
  | .d, .int bits s =>
    if 1 ≤ bits ∧ bits ≤ d.size ∧ (d.size = 32 ∨ d.size = 64) then
      let (m, neg) := sMax d.size bits s
      fld ((if neg then 1 else sg) + intBody d.prec (ndig 10 m))
    else none
  | .u, .int bits s =>
    if 1 ≤ bits ∧ bits ≤ d.size ∧ (d.size = 32 ∨ d.size = 64) then fld (intBody d.prec (ndig 10 (uMax d.size bits s))) else none
  | .x, .int bits s =>
    if 1 ≤ bits ∧ bits ≤ d.size ∧ (d.size = 32 ∨ d.size = 64) then fld ((if d.hash then 2 else 0) + intBody d.prec (ndig 16 (uMax d.size bits s))) else none
  | .o, .int bits s =>
    if 1 ≤ bits ∧ bits ≤ d.size ∧ (d.size = 32 ∨ d.size = 64) ∧ ¬ d.hash then fld (intBody d.prec (ndig 8 (uMax d.size bits s))) else none
  | .c, .int bits _ => if 1 ≤ bits ∧ bits ≤ 32 then fld 1 else none
  | .s, .str n => fld (match d.prec with | some k => min k n | none => n)
  | .f, .dbl => let k := d.prec.getD 6; fld (1 + 309 + (if k = 0 then (if d.hash then 1 else 0) else 1 + k))
  | .f, .flt => let k := d.prec.getD 6; fld (1 + 39 + (if k = 0 then (if d.hash then 1 else 0) else 1 + k))
  | .e, .dbl | .E, .dbl | .e, .flt | .E, .flt =>
    if d.hash then none else
    let k := d.prec.getD 6; fld (1 + 1 + (if k = 0 then 0 else 1 + k) + 5)
  | .g, .dbl | .g, .flt =>
    let p := d.prec.getD 6; fld ((if p = 0 then 1 else p) + 7)
  | .p, .ptr => if d.prec.isSome ∨ d.plus ∨ d.space ∨ d.hash ∨ d.zero then none else fld 18
  | _, _ => none

def maxLenPieces : List Piece → List ArgB → Option Nat
  | [], _ => some 0
  | .lit _ :: r, bs => (maxLenPieces r bs).map (· + 1)
  | .dir d :: r, bs =>
    if d.conv = .pct then (maxLenPieces r bs).map (· + 1)
    else match bs with
      | [] => none
      | b :: bs' =>
        match maxLenDir d b, maxLenPieces r bs' with
        | some x, some y => some (x + y)
        | _, _ => none

/-- upper bound of `(render fmt args).length` over all arguments within `bs` -/
def maxLen (fmt : List Nat) (bs : List ArgB) : Option Nat :=
  match parseFmt fmt with
  | some ps => maxLenPieces ps bs
  | none => none

/-! ### call sites -/

inductive Kind
  /-- `sprintf`/`strcpy`/`strcat`: the text follows `pre` characters already in the buffer
  (`none`: unknown) and is terminated by a NUL -/
  | fmt (pre : Option Nat)
  /-- `snprintf`/`strncpy`/a callee with a capacity contract: at most `n` bytes are written
  (`none`: the size argument is not a known constant) -/
  | bounded (n : Option Nat)
  /-- the destination and the size argument are the enclosing function's own (buffer, size)
  parameters, handed on unchanged: safe by the contract of that function, whose calls are sites
  of their own -/
  | relay
  /-- safe by reading, with the justification (translate/sprintf_annotations.json, "manual"; or a
  pattern the translator recognises: `alloc`, `idiom`) -/
  | manual (why : String)
deriving DecidableEq, Repr

structure Site where
  file : String
  func : String
  line : Nat
  kind : Kind
  /-- bytes available at the destination (`none`: unknown) -/
  cap : Option Nat
  /-- the format, or its alternatives (plural forms, translations) -/
  fmts : List (List Nat)
  args : List ArgB
  /-- the format is a literal (or annotated) -/
  fmtKnown : Bool := true
deriving Repr

def Site.isManual (s : Site) : Bool := match s.kind with | .manual _ => true | _ => false
def Site.isRelay (s : Site) : Bool := match s.kind with | .relay => true | _ => false

def siteSafe (s : Site) : Bool :=
  match s.kind with
  | .relay => true
  | .manual _ => true
  | _ =>
  match s.cap with
  | none => false
  | some c =>
    match s.kind with
    | .relay | .manual _ => true
    | .bounded (some n) => decide (n ≤ c)
    | .bounded none => false
    | .fmt none => false
    | .fmt (some pre) =>
      s.fmtKnown && !s.fmts.isEmpty &&
      s.fmts.all fun f => match maxLen f s.args with
        | some m => decide (pre + m + 1 ≤ c)
        | none => false

end Bufr.Sprintf
