import BufrModel.Basic
import BufrModel.TableTypes
/-
  BufrModel.Tables — executable model of Table B / Table D loading and lookup
  (bufr_tables.c, cmc_tables.c, bufr_array.c, bufr_util.c).  Mathlib-free.

  Part 1  C string / libc vocabulary (atoi, isspace, fgets chunking, the persistent line buffer)
  Part 2  file readers: CMC Table B, CMC Table D, CSV Table B, CSV Table D  (pure functions of
          the file *bytes*; the driver does the IO)
  Part 3  in-memory state: heap of Table B entries (pointer identity matters: the lookup cache
          holds pointers), master/local sets, loads, merges, lookups, Table D loop check,
          version selection

  `Libc` packages the two libc routines whose result the C standard leaves partly open
  (`bsearch`, `qsort`).  Every model function takes it as a parameter; the theorems are proved
  for *any* `Libc` satisfying the contracts, the driver runs `glibc` (binary search as glibc
  2.36 does it, stable sort as its merge sort is).
-/
namespace Bufr.Tbl

abbrev Bytes := List Nat

/-! ## Part 1 — C vocabulary -/

def isSpace (c : Nat) : Bool := c == 32 || (9 ≤ c && c ≤ 13)
def isDigit (c : Nat) : Bool := 48 ≤ c && c ≤ 57
def toUpper (c : Nat) : Nat := if 97 ≤ c ∧ c ≤ 122 then c - 32 else c

/-- the C string starting at the head of `b` -/
def cstr (b : Bytes) : Bytes := b.takeWhile (· != 0)

def rtrim (p : Nat → Bool) (b : Bytes) : Bytes := (b.reverse.dropWhile p).reverse

def strOfBytes (b : Bytes) : String := String.ofList (b.map Char.ofNat)
def bytesOfStr (s : String) : Bytes := s.toList.map Char.toNat

def digitsVal : Bytes → Nat → Nat
  | [], acc => acc
  | c :: cs, acc => if isDigit c then digitsVal cs (acc * 10 + (c - 48)) else acc

/-- mathematical value read by `strtol(s, NULL, 10)` before range handling -/
def atoiRaw (s : Bytes) : Int :=
  match s.dropWhile isSpace with
  | 45 :: r => - (digitsVal r 0 : Int)
  | 43 :: r => (digitsVal r 0 : Int)
  | r => (digitsVal r 0 : Int)

def clamp64 (v : Int) : Int :=
  if v > 9223372036854775807 then 9223372036854775807
  else if v < -9223372036854775808 then -9223372036854775808 else v

def wrap32 (v : Int) : Int := (v + 2147483648) % 4294967296 - 2147483648

/-- glibc `atoi` = `(int) strtol(s, NULL, 10)`: saturate to `long`, truncate to `int` -/
def atoi (s : Bytes) : Int := wrap32 (clamp64 (atoiRaw s))

/-- `fgets(buf, lim+1, fp)` repeatedly: chunks end after `\n` or after `lim` bytes -/
def fgetsAux (lim : Nat) : Bytes → Bytes → Nat → List Bytes
  | [], cur, _ => if cur.isEmpty then [] else [cur.reverse]
  | b :: rest, cur, k =>
    if b == 10 || k + 1 == lim then (b :: cur).reverse :: fgetsAux lim rest [] 0
    else fgetsAux lim rest (b :: cur) (k + 1)

def fgetsChunks (lim : Nat) (file : Bytes) : List Bytes := fgetsAux lim file [] 0

/-- what a `char ligne[N]` holds after `fgets` wrote `chunk`: the chunk, a NUL, and whatever the
buffer held before beyond that (the loaders index the buffer at fixed columns without looking
at the terminator, so the stale tail is observable) -/
def fgetsInto (buf chunk : Bytes) : Bytes := chunk ++ 0 :: buf.drop (chunk.length + 1)

def startsWith (b pre : Bytes) : Bool := pre.isPrefixOf b

def asciiBytes (s : String) : Bytes := s.toList.map Char.toNat

/-- positions of `*` in the line, scanning stops at `\n` or NUL (`bufr_parse_columns`, which
looks at no more than 256 characters) -/
def starPosAux : Bytes → Nat → List Nat
  | [], _ => []
  | c :: cs, i =>
    if c == 10 || c == 0 || i ≥ 256 then []
    else if c == 42 then i :: starPosAux cs (i + 1) else starPosAux cs (i + 1)

/-- `bufr_parse_columns(ligne, column, limit)`: the count of `*` and the first `limit` positions -/
def parseColumns (line : Bytes) (limit : Nat) : Nat × List Nat :=
  let ps := starPosAux line 0
  (ps.length, ps.take limit)

/-! ### Table B unit → data type (`bufr_unit_to_datatype`) -/

def unitToType (unit : Bytes) : BType :=
  let u := unit.map toUpper
  let pre (s : String) : Bool := startsWith u (asciiBytes s)
  if pre "NUMERI" then .numeric
  else if pre "FLAG TABLE" || pre "TABLE FLAG" || pre "TABLEFLAG" || pre "MARQUEURS" || pre "FLAGTABLE"
    then .flagtable
  else if pre "TABLE CODE" || pre "TABLECODE" || pre "CODE TABLE" || pre "CODETABLE" then .codetable
  else if pre "CCITT IA5" || pre "CCITTIA5" then .ccitt
  else .numeric

/-- the C enum value of `encoding.type` (`TYPE_NUMERIC` = 4 … `TYPE_FLAGTABLE` = 7) -/
def typeCode : BType → Nat
  | .numeric => 4 | .ccitt => 5 | .codetable => 6 | .flagtable => 7

def typeOfCode : Nat → Option BType
  | 4 => some .numeric | 5 => some .ccitt | 6 => some .codetable | 7 => some .flagtable | _ => none

/-! ## Part 2 — readers -/

/-- `bufr_is_local_descriptor` -/
def isLocalDesc (d : Nat) : Bool :=
  let x := d / 1000 % 100
  let y := d % 1000
  x > 47 || (y > 191 && y ≤ 255)

def stdCols : List Nat := [0, 8, 52, 63, 66, 78]

/-- state of `bufr_tableb_read` between two `fgets` -/
structure BRead where
  buf     : Bytes                -- `char ligne[1024]`, blank-filled (memset) before the first `fgets`
  count   : Nat := 6
  col     : List Nat := stdCols
  desclen : Nat := 44
  ver     : Int := -1
  out     : List EntryB := []    -- reversed
  deriving Repr

def BRead.init : BRead := { buf := List.replicate 1024 32 }

def colAt (c : List Nat) (i : Nat) : Nat := c.getD i 0

/-- the `while(len && ligne[column[1]+len-1]==' ') len--;` loop -/
def trimLen (buf : Bytes) (start : Nat) : Nat → Nat
  | 0 => 0
  | len + 1 => if buf.getD (start + len) 0 == 32 then trimLen buf start len else len + 1

/-- the entry built from the line held in `buf` at columns `col` (lines 1034–1051) -/
def entryOfBuf (buf : Bytes) (col : List Nat) (desclen : Nat) : EntryB :=
  let c1 := colAt col 1
  let len := trimLen buf c1 desclen
  let descr := rtrim (· == 32) (cstr ((buf.drop c1).take len))
  let unit := rtrim isSpace (cstr ((buf.drop (colAt col 2)).take 11))
  { desc := (atoi (buf.drop (colAt col 0))).toNat
    scale := atoi (buf.drop (colAt col 3))
    ref := atoi (buf.drop (colAt col 4))
    nbits := (atoi (buf.drop (colAt col 5))).toNat
    typ := unitToType unit
    unit := strOfBytes unit
    descr := strOfBytes descr }

/-- one data/comment line (everything after the first-line column detection);
`isLocal` is the C parameter `local` (1 from both public loaders) -/
def bLine (isLocal : Bool) (s : BRead) : BRead :=
  let l := s.buf
  if startsWith l (asciiBytes "DATA_CATEGORY=") then s
  else if startsWith l (asciiBytes "DATA_DESCRIPTION=") then s
  else if l.head? == some 35 then s
  else
    let s := if s.ver < 0 && startsWith l (asciiBytes "** VERSION") then { s with ver := atoi (l.drop 11) } else s
    if l.head? == some 42 then s
    else if l.head? != some 48 then s
    else if (cstr l).length < 82 then s
    else
      let desc := atoi l
      if desc.tdiv 100000 != 0 then s
      else if isLocal && s.count == 7 && l.getD (colAt s.col 6) 0 == 45 then s
      else if !isLocal && isLocalDesc desc.toNat then s
      else { s with out := entryOfBuf l s.col s.desclen :: s.out }

def bStep (isLocal : Bool) (s : BRead) (lineno : Nat) (chunk : Bytes) : BRead :=
  let s := { s with buf := fgetsInto s.buf chunk }
  if lineno == 1 then
    let (cnt, cols) := parseColumns s.buf 7
    if cnt < 6 then bLine isLocal { s with count := 6, col := stdCols, desclen := 44 }
    else { s with count := cnt, col := cols, desclen := colAt cols 2 - colAt cols 1 }
  else bLine isLocal s

def bFold (isLocal : Bool) : BRead → Nat → List Bytes → BRead
  | s, _, [] => s
  | s, n, c :: cs => bFold isLocal (bStep isLocal s n c) (n + 1) cs

/-- `bufr_tableb_read` on the bytes of an existing file: entries in file order and `*version` -/
def readTableB (isLocal : Bool) (file : Bytes) : List EntryB × Int :=
  let s := bFold isLocal BRead.init 1 (fgetsChunks 1023 file)
  (s.out.reverse, s.ver)

/-! ### CMC Table D -/

/-- `strtok(s, " \t\n")` to exhaustion on the C string `s` -/
def tokAux : Bytes → Bytes → List Bytes
  | [], cur => if cur.isEmpty then [] else [cur.reverse]
  | c :: cs, cur =>
    if c == 32 || c == 9 || c == 10 then
      (if cur.isEmpty then tokAux cs [] else cur.reverse :: tokAux cs [])
    else tokAux cs (c :: cur)

def strtokAll (s : Bytes) : List Bytes := tokAux (cstr s) []

structure DRead where
  buf     : Bytes
  desclen : Nat := 0
  out     : List EntryD := []
  deriving Repr

def dStep (s : DRead) (chunk : Bytes) : DRead :=
  let s := { s with buf := fgetsInto s.buf chunk }
  let l := s.buf
  if l.head? == some 42 then
    if startsWith l (asciiBytes "*TABLED7890123456") then
      let (cnt, cols) := parseColumns l 3
      { s with desclen := if cnt == 3 then colAt cols 1 - colAt cols 0 else 0 }
    else s
  else if l.head? == some 35 then s
  else if l.head? != some 51 then s
  else
    match strtokAll (l.drop s.desclen) with
    | [] => s
    | t0 :: ts0 =>
      if t0.head? != some 51 then s
      else
        let ts := ts0.take 1023        -- `int descriptors[1024]`: the rest of the line is dropped (warning)
        if ts.isEmpty then s
        else { s with out := { desc := (atoi t0).toNat, members := ts.map (fun t => (atoi t).toNat) } :: s.out }

def dFold : DRead → List Bytes → DRead
  | s, [] => s
  | s, c :: cs => dFold (dStep s c) cs

/-- `bufr_tabled_read` on the bytes of an existing file -/
def readTableD (file : Bytes) : List EntryD :=
  (dFold { buf := List.replicate 16 0 } (fgetsChunks 8191 file)).out.reverse

/-! ### CSV (`str_nstrtok`, `bufr_csv_split_cells`, the two CSV readers)

The tokenizer writes NULs into `tmpstr`, returns pointers into it and (for a quoted cell that is
not followed by a comma or a line terminator) can walk past the terminator into what earlier
lines left behind, so it is modelled on an indexed buffer that persists from line to line. -/

def bget (b : Array Nat) (i : Nat) : Nat := b.getD i 0

def scanWhile (b : Array Nat) (p : Nat → Bool) : Nat → Nat → Nat
  | 0, i => i
  | fuel + 1, i => if p (bget b i) then scanWhile b p fuel (i + 1) else i

/-- `strcspn(&b[i], "<c>")` -/
def strcspn1 (b : Array Nat) (c : Nat) (i : Nat) : Nat :=
  scanWhile b (fun x => x != 0 && x != c) (b.size + 1) i - i

def quoteLoop (b : Array Nat) (p : Nat) : Nat → Nat → Nat → Nat × Nat
  | 0, ff, len => (ff, len)
  | fuel + 1, ff, len =>
    if (bget b (p + ff + len) == 92 || bget b (p + ff + len + 2) != 44) && bget b (p + ff + len) != 0
        && bget b (p + ff + len + 2) != 13 && bget b (p + ff + len + 2) != 10 then
      let ff' := ff + len + 1
      quoteLoop b p fuel ff' (strcspn1 b 34 (p + ff' + 1))
    else (ff, len)

/-- `str_nstrtok(&ptr, ",")`: `none` = NULL; otherwise (token offset, buffer, new `ptr`) -/
def nstrtok (b : Array Nat) (ptr : Option Nat) : Option (Nat × Array Nat × Option Nat) :=
  match ptr with
  | none => none
  | some p0 =>
    let p := scanWhile b isSpace (b.size + 1) p0
    if bget b p == 0 then none
    else if bget b p == 44 then some (p, b.setIfInBounds p 0, some (p + 1))   -- empty cell: the comma becomes its NUL
    else if bget b p == 34 then
      let (ff, len) := quoteLoop b p (b.size + 2) 0 (strcspn1 b 34 (p + 1))
      let len := len + ff
      some (p + 1, b.setIfInBounds (p + len + 1) 0, some (p + len + 3))
    else
      let len := strcspn1 b 44 p
      if bget b (p + len) == 0 then some (p, b, none)
      else some (p, b.setIfInBounds (p + len) 0, some (p + len + 1))

def splitAux : Nat → Array Nat → Option Nat → List Nat → Array Nat × List Nat
  | 0, b, _, acc => (b, acc.reverse)
  | fuel + 1, b, ptr, acc =>
    match nstrtok b ptr with
    | none => (b, acc.reverse)
    | some (t, b', ptr') => splitAux fuel b' ptr' (t :: acc)

def cstrFromAux (b : Array Nat) : Nat → Nat → Bytes
  | 0, _ => []
  | fuel + 1, i => if bget b i == 0 then [] else bget b i :: cstrFromAux b fuel (i + 1)

/-- the C string a cell pointer designates once the whole line has been split -/
def cellStr (b : Array Nat) (off : Nat) : Bytes := cstrFromAux b (b.size + 1) off

/-- `while (i > 0 && (tok[i-1]=='\n' || tok[i-1]=='\r')) tok[--i] = 0;` -/
def trimEol (b : Array Nat) (off : Nat) : Nat → Array Nat
  | 0 => b
  | i + 1 => if bget b (off + i) == 10 || bget b (off + i) == 13 then trimEol (b.setIfInBounds (off + i) 0) off i else b

/-- `bufr_csv_split_cells(tmpstr, …)`: final buffer and the cell offsets; the last cell loses the
line terminator -/
def splitCells (b : Array Nat) : Array Nat × List Nat :=
  let r := splitAux (b.size + 2) b (some 0) []
  match r.2.getLast? with
  | none => r
  | some off => (trimEol r.1 off (cellStr r.1 off).length, r.2)

/-- `strcpy(tmpstr, ligne)` -/
def strcpyInto (tmp : Array Nat) (line : Bytes) : Array Nat :=
  let s := cstr line
  ((List.range (s.length + 1)).zip (s ++ [0])).foldl (fun t (i, c) => t.setIfInBounds i c) tmp

def cellsOfLine (tmp : Array Nat) (chunk : Bytes) : Array Nat × List Bytes :=
  let (b, offs) := splitCells (strcpyInto tmp chunk)
  (b, offs.map (cellStr b))

/-- `bufr_csv_find_cell`: `strcmp` against the cells in order -/
def findCell (name : String) (cells : List Bytes) : Option Nat :=
  let i := cells.findIdx (· == asciiBytes name)
  if i < cells.length then some i else none

structure CsvB where
  tmp   : Array Nat
  hdr   : Option (Nat × List Nat) := none   -- csv_line_size, the six positions
  out   : List EntryB := []

/-- one line of a CSV Table B file; `none` = the header lacks a column: the reader returns NULL -/
def csvBRow (s : CsvB) (chunk : Bytes) : Option CsvB :=
  match cellsOfLine s.tmp chunk with
  | (tmp, cells) =>
    let s := { s with tmp := tmp }
    match s.hdr with
    | none =>
      match [ "FXY", "ElementName_en", "BUFR_Unit", "BUFR_Scale", "BUFR_ReferenceValue",
              "BUFR_DataWidth_Bits" ].mapM (findCell · cells) with
      | none => none                                  -- "Error reading Table B file": NULL
      | some ps => some { s with hdr := some (cells.length, ps) }
    | some (n, ps) =>
      if cells.length != n then some s                -- skipped with a (bounded) message
      else
        let cell (k : Nat) : Bytes := cells.getD (ps.getD k 0) []
        let desc := atoi (cell 0)
        if desc.tdiv 100000 != 0 then some s
        else
          let unit := cell 2
          some { s with out :=
            { desc := desc.toNat, scale := atoi (cell 3), ref := atoi (cell 4), nbits := (atoi (cell 5)).toNat
              typ := unitToType unit, unit := strOfBytes unit, descr := strOfBytes (cell 1) } :: s.out }

def csvBFold : CsvB → List Bytes → Option CsvB
  | s, [] => some s
  | s, c :: cs =>
    match csvBRow s c with
    | none => none
    | some s' => csvBFold s' cs

/-- `bufr_csv_read_tableb` on the bytes of an existing file; `none` = returns NULL -/
def readCsvB (file : Bytes) : Option (List EntryB) :=
  (csvBFold { tmp := Array.replicate 1024 0 } (fgetsChunks 1023 file)).map (·.out.reverse)

structure CsvD where
  tmp   : Array Nat
  hdr   : Option (Nat × List Nat) := none   -- csv_line_size, positions FXY1 Title_en FXY2
  descs : List Int := [0]                   -- `descriptors[0..max(count,1))`, reversed
  count : Nat := 0
  out   : List EntryD := []

def mkD (descs : List Int) : EntryD :=
  let ds := descs.reverse
  { desc := (ds.headD 0).toNat, members := ds.tail.map Int.toNat }

def csvDRow (s : CsvD) (chunk : Bytes) : Option CsvD :=
  match cellsOfLine s.tmp chunk with
  | (tmp, cells) =>
    let s := { s with tmp := tmp }
    match s.hdr with
    | none =>
      match [ "FXY1", "Title_en", "FXY2" ].mapM (findCell · cells) with
      | none => none
      | some ps => some { s with hdr := some (cells.length, ps) }
    | some (n, ps) =>
      if cells.length != n then some s
      else
        let cell (k : Nat) : Bytes := cells.getD (ps.getD k 0) []
        let fxy1 := atoi (cell 0)
        let first := s.descs.getLastD 0          -- descriptors[0]
        -- if (count == 0) { descriptors[count++] = fxy1; }
        let (descs, count) := if s.count == 0 then ([fxy1], 1) else (s.descs, s.count)
        let first' := if s.count == 0 then fxy1 else first
        let fxy2 := atoi (cell 2)
        if fxy1 == first' then
          if count ≥ 1024 then some { s with descs := descs, count := count }   -- `int descriptors[1024]` full: row ignored
          else some { s with descs := fxy2 :: descs, count := count + 1 }
        else if count > 1 then
          some { s with out := mkD descs :: s.out, descs := [fxy2, fxy1], count := 2 }
        else some { s with descs := descs, count := count }

def csvDFold : CsvD → List Bytes → Option CsvD
  | s, [] => some s
  | s, c :: cs =>
    match csvDRow s c with
    | none => none
    | some s' => csvDFold s' cs

/-- `bufr_csv_read_tabled` on the bytes of an existing file; `none` = returns NULL -/
def readCsvD (file : Bytes) : Option (List EntryD) :=
  (csvDFold { tmp := Array.replicate 4096 0 } (fgetsChunks 4095 file)).map
    (fun s => (if s.count > 1 then mkD s.descs :: s.out else s.out).reverse)

/-! ## Part 3 — tables in memory -/

/-- the two libc routines the C standard leaves partly open -/
structure Libc where
  /-- `bsearch` over an array whose elements have the given keys: an index holding the key -/
  bsearch : List Nat → Nat → Option Nat
  /-- `qsort` of an array by an integer key -/
  qsort : {α : Type} → (α → Nat) → List α → List α

/-- glibc `bsearch`: `l = 0, u = n; idx = (l+u)/2; <0 → u = idx; >0 → l = idx+1; else found`,
whatever the order of the array -/
def bsearchGo (keys : List Nat) (k : Nat) : Nat → Nat → Nat → Option Nat
  | 0, _, _ => none
  | fuel + 1, l, u =>
    if l < u then
      let idx := (l + u) / 2
      let x := keys.getD idx 0
      if k < x then bsearchGo keys k fuel l idx
      else if x < k then bsearchGo keys k fuel (idx + 1) u
      else some idx
    else none

def bsearchG (keys : List Nat) (k : Nat) : Option Nat := bsearchGo keys k (keys.length + 1) 0 keys.length

def insertBy {α : Type} (f : α → Nat) (x : α) : List α → List α
  | [] => [x]
  | y :: ys => if f x ≤ f y then x :: y :: ys else y :: insertBy f x ys

/-- stable insertion sort (glibc 2.36 `qsort` is a stable merge sort for these sizes) -/
def isort {α : Type} (f : α → Nat) (xs : List α) : List α := xs.foldr (insertBy f) []

def glibc : Libc := { bsearch := bsearchG, qsort := isort }

abbrev Heap := Array (Option EntryB)

def deref (h : Heap) (id : Nat) : Option EntryB := (h.getD id none)
def keyOf (h : Heap) (id : Nat) : Nat := match deref h id with | some e => e.desc | none => 0
def keysOf (h : Heap) (ids : List Nat) : List Nat := ids.map (keyOf h)
def live (h : Heap) (id : Nat) : Bool := (deref h id).isSome

/-- `BufrTablesSet` -/
structure TSet where
  version : Int := 0
  tableB  : Option (List Nat) := none       -- array of `EntryTableB *`
  ownsB   : Bool := false                   -- TYPE_ALLOCATED
  tableD  : Option (List EntryD) := none
  ownsD   : Bool := false
  deriving Repr, DecidableEq

/-- `BUFR_Tables` (named `BTables`: `Bufr.Tables` is the as-loaded lookup record of TableTypes) -/
structure BTables where
  master : TSet := {}
  loc    : TSet := {}
  cache  : Option (List Nat) := none        -- `tableB_cache`
  last   : Option Nat := none               -- `last_searched`
  deriving Repr, DecidableEq

def allocAll : Heap → List EntryB → Heap × List Nat
  | h, [] => (h, [])
  | h, e :: es => let r := allocAll (h.push (some e)) es; (r.1, h.size :: r.2)

def freeIds (h : Heap) (ids : List Nat) : Heap := ids.foldl (fun h id => h.setIfInBounds id none) h

/-- `bufr_tableb_fetch_entry(arr, d)`: the pointer found -/
def searchB (L : Libc) (h : Heap) (arr : List Nat) (d : Nat) : Option Nat :=
  (L.bsearch (keysOf h arr) d).map (arr.getD · 0)

def sortB (L : Libc) (h : Heap) (ids : List Nat) : List Nat := L.qsort (keyOf h) ids
def sortD (L : Libc) (es : List EntryD) : List EntryD := L.qsort (·.desc) es

/-- `bufr_merge_tableB(table1, table2)`: for every entry of `table2` in order, overwrite the entry
`bsearch` finds in `table1`, or append a copy and sort `table1` again -/
def mergeB (L : Libc) : Heap → List Nat → List EntryB → Heap × List Nat
  | h, arr, [] => (h, arr)
  | h, arr, e2 :: rest =>
    match searchB L h arr e2.desc with
    | some id => mergeB L (h.setIfInBounds id (some e2)) arr rest
    | none => mergeB L (h.push (some e2)) (sortB L (h.push (some e2)) (arr ++ [h.size])) rest

def searchD (L : Libc) (arr : List EntryD) (d : Nat) : Option EntryD :=
  (L.bsearch (arr.map (·.desc)) d).bind (arr[·]?)

/-- `bufr_merge_tableD` -/
def mergeD (L : Libc) : List EntryD → List EntryD → List EntryD
  | arr, [] => arr
  | arr, e2 :: rest =>
    match L.bsearch (arr.map (·.desc)) e2.desc with
    | some i => mergeD L (arr.set i { desc := (arr.getD i e2).desc, members := e2.members }) rest
    | none => mergeD L (sortD L (arr ++ [e2])) rest

def fOf (d : Nat) : Nat := d / 100000

/-- `bufr_fetch_tableD` -/
def fetchD (L : Libc) (t : BTables) (d : Nat) : Option EntryD :=
  if fOf d != 3 then none else
  match (match t.loc.tableD with | some a => searchD L a d | none => none) with
  | some e => some e
  | none => match t.master.tableD with | some a => searchD L a d | none => none

/-- `bufr_tabled_match_sequence` / `bufr_match_tableD_sequence` -/
def matchSeq (t : BTables) (seq : List Nat) : Option EntryD :=
  if seq.isEmpty then none else
  match (t.loc.tableD.getD []).find? (·.members == seq) with
  | some e => some e
  | none => (t.master.tableD.getD []).find? (·.members == seq)

/-- members of one entry through `f = bufr_check_desc_tableD` at one level less of fuel:
`if (check(member) < 0) return -1;` (no pop) -/
def checkMembers (f : Nat → List Nat → Int × List Nat) : List Nat → List Nat → Bool × List Nat
  | [], st => (true, st)
  | m :: ms, st => let r := f m st; if r.1 < 0 then (false, r.2) else checkMembers f ms r.2

/-- `bufr_check_desc_tableD(tbls, desc, array)`: result code and the path stack afterwards.
Fuel bounds the recursion depth; `-99` = fuel exhausted (cannot happen with the fuel
`checkLoop` supplies, see `checkDesc_fuel`) -/
def checkDesc (L : Libc) (t : BTables) : Nat → Nat → List Nat → Int × List Nat
  | 0, _, st => (-99, st)
  | fuel + 1, d, st =>
    if fOf d != 3 then (1, st)
    else if st.contains d then (-2, st)
    else
      let st1 := st ++ [d]
      match fetchD L t d with
      | none => (-1, st1.dropLast)
      | some e =>
        match checkMembers (checkDesc L t fuel) e.members st1 with
        | (true, st2) => (1, st2.dropLast)
        | (false, st2) => (-1, st2)

def loopFuel (t : BTables) : Nat := (t.loc.tableD.getD []).length + (t.master.tableD.getD []).length + 2

/-- top-level members of one entry: `if (errcode < 0 && errcode < has_error) has_error = errcode` -/
def loopMembers (f : Nat → List Nat → Int × List Nat) : List Nat → Int × List Nat → Int × List Nat
  | [], acc => acc
  | m :: ms, (err, st) =>
    let r := f m st
    loopMembers f ms (if r.1 < 0 ∧ r.1 < err then r.1 else err, r.2)

def loopEntries (f : Nat → List Nat → Int × List Nat) : List EntryD → Int × List Nat → Int × List Nat
  | [], acc => acc
  | e :: es, acc => loopEntries f es (loopMembers f e.members acc)

/-- `bufr_check_loop_tableD(tbls, set)`: 0, −1 (unknown member) or −2 (descriptor met on the path
stack, which is not unwound after an error) -/
def checkLoop (L : Libc) (t : BTables) (arr : Option (List EntryD)) : Int :=
  (loopEntries (checkDesc L t (loopFuel t)) (arr.getD []) (0, [])).1

/-- which set an operation addresses -/
inductive Which | master | loc
  deriving DecidableEq, Repr

def BTables.get (t : BTables) : Which → TSet
  | .master => t.master
  | .loc => t.loc
def BTables.put (t : BTables) : Which → TSet → BTables
  | .master, s => { t with master := s }
  | .loc, s => { t with loc := s }

/-- body shared by `bufr_load_tableB` (CMC format; `ver = some v` when the reader ran) and
`bufr_load_csv_tableB` (`ver = none`): `ents = none` is a reader returning NULL -/
def loadBEntries (L : Libc) (h : Heap) (t : BTables) (w : Which) (ents : Option (List EntryB))
    (ver : Option Int) : Heap × BTables × Int :=
  let t := { t with cache := none, last := none }       -- bufr_flush_tableB_cache
  let s := { t.get w with ownsB := true }
  let r : Heap × TSet :=
    match s.tableB, ents with
    | none, none => (h, s)      -- the reader returned NULL: the version is left alone
    | none, some es =>
      let a := allocAll h es
      (a.1, { s with tableB := some a.2, version := ver.getD s.version })
    | some _, none => (h, s)
    | some arr, some es =>
      let m := mergeB L h arr es
      (m.1, { s with tableB := some m.2, version := ver.getD s.version })
  let s' := r.2
  match s'.tableB with
  | none => (r.1, t.put w s', -1)
  | some arr => (r.1, t.put w { s' with tableB := some (sortB L r.1 arr) }, 0)

/-- `bufr_load_tableD` / `bufr_load_csv_tableD` after the reader -/
def loadDEntries (L : Libc) (t : BTables) (w : Which) (ents : Option (List EntryD)) : BTables × Int :=
  let s := { t.get w with ownsD := true }
  let s :=
    match s.tableD, ents with
    | none, e => { s with tableD := e }
    | some arr, none => { s with tableD := some arr }
    | some arr, some es => { s with tableD := some (mergeD L arr es) }
  let s := { s with tableD := s.tableD.map (sortD L) }
  let t' := t.put w s
  (t', checkLoop L t' s.tableD)

/-- `bufr_load_m_tableB` / `bufr_load_l_tableB` (both pass `local = 1`); `file = none`: cannot open -/
def loadTableB (L : Libc) (h : Heap) (t : BTables) (w : Which) (file : Option Bytes) : Heap × BTables × Int :=
  match file with
  | none => loadBEntries L h t w none none
  | some f => let r := readTableB true f; loadBEntries L h t w (some r.1) (some r.2)

def loadTableD (L : Libc) (t : BTables) (w : Which) (file : Option Bytes) : BTables × Int :=
  loadDEntries L t w (file.map readTableD)

def loadCsvB (L : Libc) (h : Heap) (t : BTables) (file : Option Bytes) : Heap × BTables × Int :=
  loadBEntries L h t .master (file.bind readCsvB) none

def loadCsvD (L : Libc) (t : BTables) (file : Option Bytes) : BTables × Int :=
  loadDEntries L t .master (file.bind readCsvD)

/-- `bufr_merge_tables(dst, src)` -/
def mergeTables (L : Libc) (h : Heap) (dst src : BTables) : Heap × BTables :=
  let hm : Heap × TSet :=
    match src.master.tableB with
    | some a =>
      ((if dst.master.ownsB then freeIds h (dst.master.tableB.getD []) else h),
       { dst.master with tableB := some a, version := src.master.version, ownsB := false })
    | none => (h, dst.master)
  let m := match src.master.tableD with
    | some a => { hm.2 with tableD := some a, ownsD := false }
    | none => hm.2
  let l := dst.loc
  let lB := if l.ownsB then l.tableB.getD [] else []
  let lD := if l.ownsD then l.tableD.getD [] else []
  let srcB := (src.loc.tableB.getD []).filterMap (deref hm.1)
  let mb := mergeB L hm.1 lB srcB
  let md := mergeD L lD (src.loc.tableD.getD [])
  let l' : TSet :=
    { version := if l.version < src.loc.version then src.loc.version else l.version
      tableB := some (sortB L mb.1 mb.2), ownsB := true
      tableD := some (sortD L md), ownsD := true }
  (mb.1, { dst with master := m, loc := l', cache := none, last := none })   -- bufr_flush_tableB_cache

/-- `if (local.tableB) e = fetch_entry(local.tableB, d); if (e == NULL) e = fetch_entry(master.tableB, d);` -/
def tableSearch (L : Libc) (h : Heap) (t : BTables) (d : Nat) : Option Nat :=
  match (match t.loc.tableB with | some a => searchB L h a d | none => none) with
  | some id => some id
  | none => searchB L h (t.master.tableB.getD []) d

/-- the part of `bufr_fetch_tableB` after a cache miss; `c` = cache contents -/
def fetchSlow (L : Libc) (h : Heap) (t : BTables) (c : List Nat) (d : Nat) : Option (Option EntryB) × BTables :=
  let t := { t with cache := some c }
  if fOf d == 1 || fOf d == 2 || fOf d == 3 then (some none, t)
  else
    match tableSearch L h t d with
    | none => (some none, t)
    | some id => (some (deref h id), { t with cache := some (sortB L h (c ++ [id])), last := some id })

/-- `bufr_fetch_tableB(tbls, d)`.  First component: `none` = the C reads freed memory (a cached
pointer dangles; conservative: any dangling cache pointer counts, the C touches those on the
binary-search path), `some none` = NULL, `some (some e)` = the entry pointed to. -/
def fetchB (L : Libc) (h : Heap) (t : BTables) (d : Nat) : Option (Option EntryB) × BTables :=
  match t.last with
  | some id =>
    match deref h id with
    | none => (none, t)
    | some e =>
      if e.desc == d then (some (some e), t) else fetchCache
  | none => fetchCache
where
  fetchCache : Option (Option EntryB) × BTables :=
    match t.cache with
    | some c =>
      if !(c.all (live h)) then (none, t)
      else match searchB L h c d with
        | some id => (some (deref h id), { t with last := some id })
        | none => fetchSlow L h t c d
    | none => fetchSlow L h t [] d

/-- `bufr_use_tables_list(list, version)` over the master versions of the list: index chosen -/
def useListGo (v : Int) : List Int → Nat → Option (Nat × Int) → Option (Nat × Int) → Option Nat
  | [], _, btn, ltn => (match btn with | some b => some b.1 | none => ltn.map (·.1))
  | x :: xs, i, btn, ltn =>
    if x == v then some i
    else if x > v then
      (match btn with
       | none => useListGo v xs (i + 1) (some (i, x)) ltn
       | some (_, bv) => if bv < x then useListGo v xs (i + 1) (some (i, x)) ltn
                         else useListGo v xs (i + 1) btn ltn)
    else
      (match ltn with
       | none => useListGo v xs (i + 1) btn (some (i, x))
       | some (_, lv) => if lv < x then useListGo v xs (i + 1) btn (some (i, x))
                         else useListGo v xs (i + 1) btn ltn)

def useTablesList (versions : List Int) (v : Int) : Option Nat := useListGo v versions 0 none none

/-- all Table B entries of a set as values, in array order -/
def entriesB (h : Heap) (s : TSet) : List EntryB := (s.tableB.getD []).filterMap (deref h)

end Bufr.Tbl
