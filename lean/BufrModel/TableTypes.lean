/-
  BufrModel.TableTypes — Table B / Table D entries as the library holds them
  after loading (`EntryTableB`, `EntryTableD` in bufr_tables.h).  Nothing else.
-/
namespace Bufr

/-- unit classes a Table B file can declare (`bufr_unit_to_datatype`) -/
inductive BType | numeric | ccitt | codetable | flagtable
deriving DecidableEq, Repr, Inhabited

structure EntryB where
  desc : Nat
  scale : Int
  ref : Int
  nbits : Nat
  typ : BType
  unit : String := ""
  descr : String := ""
deriving Repr, Inhabited, DecidableEq

structure EntryD where
  desc : Nat
  members : List Nat
deriving Repr, Inhabited, DecidableEq

/-- lookups "as loaded": what `bufr_fetch_tableB/D` return for a descriptor -/
structure Tables where
  fetchB : Nat → Option EntryB
  fetchD : Nat → Option EntryD

end Bufr
