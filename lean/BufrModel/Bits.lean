/-
  BufrModel.Bits — executable model of the Section 4 bit cursor of libecbufr
  (`bufr_putbits`, `bufr_getbits`, `bufr_skip_bits`, `bufr_putstring`,
  `bufr_put_padstring`, `bufr_getstring`, `bufr_alloc_sect4`; bufr_io.c).

  Mathlib-free: this file is linked into the `bvp_lean` driver.
-/
namespace Bufr

/-- the low `n` bits of `v`, most significant first -/
def bitsMSB : Nat → Nat → List Bool
  | 0, _ => []
  | n+1, v => v.testBit n :: bitsMSB n v

/-- value of a bit list read most significant first -/
def ofBitsMSB (bs : List Bool) : Nat :=
  bs.foldl (fun acc b => 2 * acc + b.toNat) 0

/-! ## Writer

State of a message being written.  In the C structure `s4.current == s4.data +
s4.filled` while writing, so the bytes `data[0..filled)` are `done` and the
byte under the cursor is `curb` (only its top `bitno` bits are meaningful).
`maxDataLen` is `s4.max_data_len`; the allocation is `maxDataLen + 10` bytes. -/
structure W where
  done : Array Nat
  curb : Nat
  bitno : Nat
  maxDataLen : Nat
deriving Repr, BEq

def W.filled (w : W) : Nat := w.done.size

/-- `bufr_alloc_sect4` as seen from the writer: only ever grows. -/
def W.alloc (w : W) (len : Nat) : W :=
  if w.maxDataLen + 10 < len + 10 then { w with maxDataLen := len } else w

/-- one chunk of at most `8 - bitno` bits: OR the low `t` bits of `x` into the
byte under the cursor (`*ptrData |= … << nbit_move`; the C assigns instead of
OR-ing in the loop, which is the same thing on a zeroed byte). -/
def W.chunk (w : W) (x t : Nat) : W :=
  let b := w.curb ||| ((x &&& (2^t - 1)) <<< (8 - w.bitno - t))
  if w.bitno + t = 8 then { w with done := w.done.push b, curb := 0, bitno := 0 }
  else { w with curb := b, bitno := w.bitno + t }

/-- the `while (nbit_left > 0)` loop of `bufr_putbits` -/
def W.putLoopF : Nat → W → Nat → Nat → W
  | 0, w, _, _ => w
  | f+1, w, v, left =>
    if left = 0 then w
    else
      let t := min left 8
      W.putLoopF f (w.chunk (v >>> (left - t)) t) v (left - t)

/-- fuel = number of bits left (each round consumes at least one) -/
def W.putLoop (w : W) (v : Nat) (left : Nat) : W := W.putLoopF left w v left

/-- index of the last byte `bufr_putbits` may write, relative to `s4.data` -/
def W.maxTouched (w : W) (n : Nat) : Nat := w.filled + (w.bitno + n) / 8

/-- `bufr_putbits(bufr, v, n)` for `n ≤ 64` (the C aborts above 64). -/
def W.putbits (w : W) (v n : Nat) : W :=
  if n = 0 then w
  else
    let t := min n (8 - w.bitno)
    let w1 := w.chunk (v >>> (n - t)) t
    let w2 := w1.putLoop v (n - t)
    if w2.filled > w2.maxDataLen then w2.alloc (w2.maxDataLen + 4096) else w2

/-- `bufr_putstring` -/
def W.putstring (w : W) (s : List Nat) : W := s.foldl (fun w c => w.putbits c 8) w

/-- `bufr_put_padstring(bufr, str, len, enclen)` with `len = s.length` -/
def W.putPadString (w : W) (s : List Nat) (enclen : Nat) : W :=
  let w1 := (s.take enclen).foldl (fun w c => w.putbits c 8) w
  (List.replicate (enclen - s.length) 32).foldl (fun w c => w.putbits c 8) w1

def W.new (maxDataLen : Nat) : W := { done := #[], curb := 0, bitno := 0, maxDataLen := maxDataLen }

/-- the bytes a message written so far occupies (`filled` plus a partial byte) -/
def W.bytes (w : W) : List Nat := w.done.toList ++ (if w.bitno = 0 then [] else [w.curb])

/-- abstraction: the bit stream written so far -/
def W.bits (w : W) : List Bool :=
  w.done.toList.flatMap (bitsMSB 8) ++ (bitsMSB 8 w.curb).take w.bitno

/-! ## Reader -/

structure R where
  data : Array Nat
  cur : Nat
  bitno : Nat
  maxDataLen : Nat
deriving Repr, BEq

def R.byte (r : R) (i : Nat) : Nat := r.data.getD i 0

/-- loop of `bufr_getbits`; at entry `bitno = 0`.  Returns (bits, err, cur, bitno). -/
def R.getLoopF (r : R) : Nat → Nat → Nat → Nat → Nat × Int × Nat × Nat
  | 0, bits, cur, _ => (bits, 0, cur, 0)
  | f+1, bits, cur, left =>
    if left = 0 then (bits, 0, cur, 0)
    else
      let t := min left 8
      let bits' := (bits <<< t) ||| ((r.byte cur >>> (8 - t)) &&& (2^t - 1))
      if t = 8 then
        if cur + 1 ≥ r.maxDataLen ∧ left - t > 0 then (bits', -1, cur, 0)
        else R.getLoopF r f bits' (cur + 1) (left - t)
      else (bits', 0, cur, t)

def R.getLoop (r : R) (_n : Nat) (bits : Nat) (cur : Nat) (left : Nat) : Nat × Int × Nat × Nat :=
  r.getLoopF left bits cur left

/-- `bufr_getbits(bufr, n, &err)`; result (value, err, new state). -/
def R.getbits (r : R) (n : Nat) : Nat × Int × R :=
  if n > 64 then (0, -2, r)
  else if n = 0 then (0, 0, r)
  else if r.cur ≥ r.maxDataLen then (0, -1, r)
  else
    let t := min n (8 - r.bitno)
    let left := n - t
    let bits := (r.byte r.cur >>> (8 - (t + r.bitno))) &&& (2^t - 1)
    if r.bitno + t = 8 then
      if r.cur + 1 ≥ r.maxDataLen ∧ left > 0 then (0, -1, r)
      else
        let (b, e, c, bn) := r.getLoop n bits (r.cur + 1) left
        (b, e, { r with cur := c, bitno := bn })
    else (bits, 0, { r with bitno := r.bitno + t })

/-- loop of `bufr_skip_bits` -/
def R.skipLoopF (r : R) : Nat → Nat → Nat → Int × Nat × Nat
  | 0, cur, _ => (0, cur, 0)
  | f+1, cur, left =>
    if left = 0 then (0, cur, 0)
    else
      let t := min left 8
      if t = 8 then
        if cur + 1 ≥ r.maxDataLen ∧ left - t > 0 then (-1, cur, 0)
        else R.skipLoopF r f (cur + 1) (left - t)
      else (0, cur, t)

def R.skipLoop (r : R) (cur : Nat) (left : Nat) : Int × Nat × Nat := r.skipLoopF left cur left

/-- `bufr_skip_bits(bufr, n, &err)`: like `bufr_getbits`, refused when the cursor already stands at the end. -/
def R.skipBits (r : R) (n : Nat) : Int × R :=
  if n = 0 then (0, r)
  else if r.cur ≥ r.maxDataLen then (-1, r)
  else
    let t := min n (8 - r.bitno)
    let left := n - t
    if r.bitno + t = 8 then
      if r.cur + 1 ≥ r.maxDataLen ∧ left > 0 then (-1, r)
      else
        let (e, c, bn) := r.skipLoop (r.cur + 1) left
        (e, { r with cur := c, bitno := bn })
    else (0, { r with bitno := r.bitno + t })

/-- `bufr_getstring(bufr, str, len)`: bytes read (stops after the first error) and last errcode -/
def R.getstring (r : R) : Nat → List Nat × Int × R
  | 0 => ([], 0, r)
  | k+1 =>
    let (c, e, r1) := r.getbits 8
    if e < 0 then ([], e, r1)           -- the string ends where the data did
    else
      let (cs, e2, r2) := R.getstring r1 k
      ((c &&& 255) :: cs, (if k = 0 then e else e2), r2)

/-- the bit position of the cursor -/
def R.pos (r : R) : Nat := 8 * r.cur + r.bitno

/-- abstraction: all bits of the section -/
def R.allBits (r : R) : List Bool :=
  ((List.range r.maxDataLen).map r.byte).flatMap (bitsMSB 8)

/-- abstraction: the bits not yet consumed -/
def R.bits (r : R) : List Bool := r.allBits.drop r.pos

def R.ofBytes (bs : List Nat) : R :=
  { data := bs.toArray, cur := 0, bitno := 0, maxDataLen := bs.length }

end Bufr
