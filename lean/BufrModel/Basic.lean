/-
  BufrModel.Basic — small utilities shared by the model and the driver
  (hex, token parsing, descriptor arithmetic).  Mathlib-free.
-/
namespace Bufr

def hexDigit (n : Nat) : Char :=
  if n < 10 then Char.ofNat (48 + n) else Char.ofNat (87 + n)

def hexByte (b : Nat) : String :=
  String.ofList [hexDigit ((b / 16) % 16), hexDigit (b % 16)]

def toHex (bs : List Nat) : String :=
  if bs.isEmpty then "-" else String.join (bs.map hexByte)

def hexVal (c : Char) : Option Nat :=
  if '0' ≤ c ∧ c ≤ '9' then some (c.toNat - 48)
  else if 'a' ≤ c ∧ c ≤ 'f' then some (c.toNat - 87)
  else if 'A' ≤ c ∧ c ≤ 'F' then some (c.toNat - 55)
  else none

def parseHexAux : List Char → List Nat → Option (List Nat)
  | [], acc => some acc.reverse
  | [_], _ => none
  | a :: b :: rest, acc =>
    match hexVal a, hexVal b with
    | some x, some y => parseHexAux rest ((16 * x + y) :: acc)
    | _, _ => none

/-- "-" is the empty byte string -/
def parseHex (s : String) : Option (List Nat) :=
  if s = "-" then some [] else parseHexAux s.toList []

def parseInt? (s : String) : Option Int := s.toInt?

/-- descriptor FXXYYY as the C `int` -/
abbrev Desc := Nat
def Desc.f (d : Desc) : Nat := d / 100000
def Desc.x (d : Desc) : Nat := d / 1000 % 100
def Desc.y (d : Desc) : Nat := d % 1000
def Desc.mk' (f x y : Nat) : Desc := f * 100000 + x * 1000 + y

end Bufr
