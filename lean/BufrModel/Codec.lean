import BufrModel.Bits
import BufrModel.Template
import BufrModel.Scale
/-
  BufrModel.Codec — Section 4 codec of libecbufr (bufr_dataset.c):
  `bufr_put_desc_value` / `bufr_get_desc_value` (uncompressed), the compressed column
  writers/readers (`bufr_put_*_compressed`, `bufr_get_*_compressed`,
  `bufr_descriptor_set_bitsvalue`), `bufr_dataset_compressible`, the body of
  `bufr_encode_message` and of `bufr_decode_message_subsets`.

  2 09 (IEEE) elements: the message-level model represents `bufr_ieee_encode/decode_*` as the
  identity on bit patterns, which is what C19 proves of them.
-/
namespace Bufr
open SF

def sEnc (e : Enc) : Scale.Enc := { scale := e.scale, ref := e.ref, nbits := e.nbits.toNat }

/-- `bufr_negative_ivalue(value, nbits)` for `value < 0` -/
def negativeIvalue (v : Int) (nbits : Int) : Nat :=
  if v ≥ 0 then v.toNat
  else if nbits ≤ 0 then 2^64 - 1
  else
    let nb := if nbits > 64 then 64 else nbits.toNat
    (v.natAbs % 2^31) ||| 2^(nb - 1)     -- `abs()` is the int version

/-- `bufr_cvt_ivalue(value, nbits)` -/
def cvtIvalue (value : Nat) (nbits : Int) : Int :=
  if value = missingIvalue nbits then -1
  else
    let sb := 2^(nbits.toNat - 1)
    if value &&& sb ≠ 0 then -((value % sb : Nat) : Int) else value

/-- the raw bit pattern `bufr_put_desc_value` writes for the value of a node (after AF) -/
def valueBits (n : Node) : Nat :=
  let e := n.enc
  let nb := e.nbits
  match e.type with
  | .numeric =>
    if nb ≤ 32 then
      match n.val with
      | .i32 v =>
        if e.ref ≠ 0 ∨ e.scale ≠ 0 then Scale.cvtDvalToI64 n.desc (sEnc e) (.fin v)
        else if v < 0 then missingIvalue nb else v.toNat
      | .i64 v =>
        if e.ref ≠ 0 ∨ e.scale ≠ 0 then Scale.cvtDvalToI64 n.desc (sEnc e) (.fin (fl 53 v))
        else if v < 0 then missingIvalue nb else v.toNat
      | .f32 x => Scale.cvtFvalToI32 n.desc (sEnc e) x
      | .f64 x => Scale.cvtDvalToI64 n.desc (sEnc e) x
      | _ => 0
    else
      match n.val with
      | .i64 v =>
        if e.ref ≠ 0 ∨ e.scale ≠ 0 then Scale.cvtDvalToI64 n.desc (sEnc e) (.fin (fl 53 v))
        else wrapU64 v
      | v => Scale.cvtDvalToI64 n.desc (sEnc e) v.getDouble
  | .chngRef =>
    let v := n.val.getInt32
    if v < 0 then negativeIvalue v nb else v.toNat
  | .codetable | .flagtable =>
    let v := n.val.getInt64
    if v < 0 then missingIvalue nb else v.toNat
  | .ieee =>
    if nb = 64 then toDoubleBits n.val.getDouble else toFloatBits n.val.getFloat
  | _ => 0

/-- the string `bufr_put_desc_value` writes for a CCITT element: the value's bytes, or a missing
string when the value is not a string -/
def valueString (n : Node) : List Nat :=
  match n.val with
  | .str bs => bs
  | _ => strPad none (n.enc.nbits / 8).toNat

/-- does this node carry bits of this type at all -/
def isValueType (t : DType) : Bool :=
  t = .numeric || t = .chngRef || t = .codetable || t = .flagtable || t = .ieee

/-- `bufr_put_desc_value(bufr, bd)` -/
def putDescValue (w : W) (n : Node) : W :=
  if n.flags.skipped then w
  else
    let w1 := if n.enc.afNbits > 0 ∧ n.afW > 0 then w.putbits n.afBits n.afW else w
    match n.enc.type with
    | .ccitt => w1.putPadString (valueString n) (n.enc.nbits / 8).toNat
    | .ieee => w1.putbits (valueBits n) (if n.enc.nbits = 64 then 64 else 32)
    | .numeric | .chngRef | .codetable | .flagtable => w1.putbits (valueBits n) n.enc.nbits.toNat
    | _ => w1

/-! ### reading one value -/

/-- the value `bufr_get_desc_value` stores for raw bits `ival` (numeric / code / flag / new ref) -/
def valueOfBits (n : Node) (v0 : Val) (ival : Nat) : Val :=
  let e := n.enc
  let miss := missingIvalue e.nbits
  match e.type with
  | .numeric =>
    match v0 with
    | .i32 _ | .i64 _ =>
      let v : Int := if ival = miss then (if Desc.x n.desc ≠ 31 then -1 else ival) else (ival : Int) + e.ref
      v0.setInt64 v
    | .f32 _ => .f32 (.fin (if ival = miss then maxFloat else Scale.cvtI32ToFval (sEnc e) ival))
    | .f64 _ => .f64 (.fin (if ival = miss then maxDouble else Scale.cvtI64ToDval (sEnc e) ival))
    | other => other
  | .chngRef => v0.setInt32 (cvtIvalue ival e.nbits)
  | .codetable | .flagtable => v0.setInt64 (if ival = miss then -1 else ival)
  | _ => v0

/-- `bufr_get_desc_value(bufr, bd)`: `none` = read error (premature end of data) -/
def getDescValue (r : R) (n : Node) : Option (R × Node) :=
  if n.flags.skipped then some (r, n)
  else
    let n1 := mkvalNode n
    if !n1.val.isSome then some (r, n1)
    else
      -- associated field
      let afr : Option (R × Node) :=
        if n1.enc.afNbits > 0 ∧ n1.afW > 0 then
          let (v, e, r') := r.getbits n1.afW
          if e < 0 then none else some (r', { n1 with afBits := v })
        else some (r, n1)
      match afr with
      | none => none
      | some (r1, n2) =>
        match n2.enc.type with
        | .ccitt =>
          let len := (n2.enc.nbits / 8).toNat
          let (cs, e, r2) := r1.getstring len
          -- `bufr_descriptor_set_svalue` happens before the error is looked at
          if len > 0 ∧ e < 0 then none
          else some (r2, { n2 with val := n2.val.setString (some cs) len })
        | .ieee =>
          let (v, e, r2) := r1.getbits n2.enc.nbits.toNat
          if e < 0 then none
          else if n2.enc.nbits = 64 then some (r2, { n2 with val := n2.val.setDouble (ofDoubleBits v) })
          else some (r2, { n2 with val := n2.val.setFloat (ofFloatBits v) })
        | .numeric | .chngRef | .codetable | .flagtable =>
          let (v, e, r2) := r1.getbits n2.enc.nbits.toNat
          if e < 0 then none else some (r2, { n2 with val := valueOfBits n2 n2.val v })
        | _ => some (r1, n2)

/-! ### compressed columns: writer -/

/-- `bufr_value2bits(bd)` (numeric, code, flag, new reference) -/
def value2bits (n : Node) : Nat :=
  let e := n.enc
  let iv : Int :=
    match e.type with
    | .numeric =>
      -- an INT64 value of an element wider than 32 bits is taken as it is (`ival = bufr_value_get_int64`), so
      -- that -1 is recognised as "missing" below whatever the width
      if e.nbits > 32 ∧ e.ref = 0 ∧ e.scale = 0 then
        match n.val with
        | .i64 v => v
        | _ => (valueBits n : Int)
      else (valueBits n : Int)
    | .chngRef => (valueBits n : Int)
    | .codetable | .flagtable => let v := n.val.getInt64; if v < -1 then -1 else v
    | _ => 0
  if iv = -1 then missingIvalue e.nbits else wrapU64 iv

def listMin (l : List Nat) (d : Nat) : Nat := l.foldl min (l.headD d)
def listMax (l : List Nat) (d : Nat) : Nat := l.foldl max (l.headD d)

/-- the local reference value, increment width and increments `bufr_put_numeric_compressed`
chooses for a column of raw values: `imin = imax = value2bits(bcv)`; missing values are skipped,
the first present one seeds both; a constant (or all-missing) column has no increments -/
def encNumCol (nbits : Int) (vals : List Nat) : Nat × Nat × List Nat :=
  let missing := missingIvalue nbits
  let present := vals.filter (· ≠ missing)
  let nbMsng := vals.length - present.length
  let imin := if present.isEmpty then missing else listMin present missing
  let imax := if present.isEmpty then missing else listMax present missing
  if (imin = imax ∧ nbMsng = 0) ∨ nbMsng = vals.length then (imin, 0, [])
  else
    let nbinc := valueNbits (imax - imin)
    (imin, nbinc, vals.map fun v => if v = missing then missingIvalue nbinc else v - imin)

/-- `bufr_put_numeric_compressed` for the column `col` (one node per subset) -/
def putNumericCompressed (w : W) (col : List Node) : W :=
  match col with
  | [] => w
  | n0 :: _ =>
    let plan := encNumCol n0.enc.nbits (col.map value2bits)
    plan.2.2.foldl (fun w v => w.putbits v plan.2.1) ((w.putbits plan.1 n0.enc.nbits.toNat).putbits plan.2.1 6)

/-- `bufr_put_af_compressed` -/
def putAfCompressed (w : W) (col : List Node) : W :=
  match col with
  | [] => w
  | n0 :: _ =>
    if n0.enc.afNbits = 0 ∨ n0.afW = 0 then w
    else
      let vals := col.map (·.afBits)
      let umin := listMin vals 0
      let umax := listMax vals 0
      if umin = umax then (w.putbits umin n0.afW).putbits 0 6
      else
        let w1 := w.putbits umin n0.afW
        let nbinc := valueNbits (umax - umin)
        let w2 := w1.putbits nbinc 6
        col.foldl (fun w n => if n.afW > 0 then w.putbits (n.afBits - umin) nbinc else w) w2

/-- `strncmp(a, b, n) ≠ 0` on byte lists of equal length (stops at a NUL) -/
def strncmpNe : List Nat → List Nat → Bool
  | [], _ => false
  | _, [] => false
  | a :: as, b :: bs => if a ≠ b then true else if a = 0 then false else strncmpNe as bs

/-- `strbufrcmp(a, b, alen, blen, enclen) ≠ 0`: trailing blanks and anything past the encoded
length do not count -/
def strDiffers (a b : List Nat) (enclen : Nat) : Bool :=
  let trim (s : List Nat) := ((s.take enclen).reverse.dropWhile (· = 32)).reverse
  let a' := trim a; let b' := trim b
  a'.length ≠ b'.length || strncmpNe a' b'

/-- `bufr_put_ccitt_compressed` -/
def putCcittCompressed (w : W) (col : List Node) : W :=
  match col with
  | [] => w
  | n0 :: _ =>
    let enclen := (n0.enc.nbits / 8).toNat
    let s0 := valueString n0
    let differs := col.any fun n => strDiffers s0 (valueString n) (n.enc.nbits / 8).toNat
    if !differs then (w.putPadString s0 enclen).putbits 0 6
    else
      let w1 := w.putstring (strPad none enclen)
      let w2 := w1.putbits enclen 6
      col.foldl (fun w n => w.putPadString (valueString n) (n.enc.nbits / 8).toNat) w2

/-- `bufr_put_ieeefp_compressed` -/
def putIeeeCompressed (w : W) (col : List Node) : W :=
  match col with
  | [] => w
  | n0 :: _ =>
    let nb : Nat := if n0.enc.nbits = 64 then 64 else 32
    let vals := col.map valueBits
    if vals.all (· = valueBits n0) then (w.putbits (valueBits n0) nb).putbits 0 6
    else
      let w1 := (w.putbits 0 nb).putbits (nb / 8) 6
      vals.foldl (fun w v => w.putbits v nb) w1

/-- one column of the compressed body of `bufr_encode_message` -/
def putColumn (w : W) (col : List Node) : W :=
  match col with
  | [] => w
  | n0 :: _ =>
    if n0.flags.skipped then w
    else
      let w1 := putAfCompressed w col
      match n0.enc.type with
      | .ccitt => putCcittCompressed w1 col
      | .ieee => putIeeeCompressed w1 col
      | .numeric | .codetable | .flagtable | .chngRef =>
        if n0.enc.nbits ≤ 0 then w1 else putNumericCompressed w1 col
      | _ => w1

/-- transpose subsets (all of the same length) into columns -/
def columns : List (List Node) → List (List Node)
  | [] => []
  | s0 :: rest => (List.range s0.length).map fun j => (s0 :: rest).filterMap (·[j]?)

/-- position-wise test of `bufr_dataset_compressible`: same descriptor, same SKIPPED flag, and for
data-bearing positions the same encoding, the same replication factor, and equal strings when the
field is wider than the 62 octets the 6-bit width can describe (63 = all ones reads as none) -/
def sameShape (a b : Node) : Bool :=
  a.desc == b.desc && a.flags.skipped == b.flags.skipped &&
  (a.flags.skipped ||
    (a.enc.type == b.enc.type && a.enc.nbits == b.enc.nbits && a.enc.scale == b.enc.scale &&
     a.enc.ref == b.enc.ref && a.enc.afNbits == b.enc.afNbits &&
     (if isClass31Factor a.desc then a.val.getInt32 == b.val.getInt32
      else if a.enc.type == .ccitt && decide (a.enc.nbits / 8 > 62) then
        (match a.val, b.val with
         | .str s1, .str s2 => !strDiffers s1 s2 (a.enc.nbits / 8).toNat
         | _, _ => false)
      else true)))

/-- `bufr_dataset_compressible(dts)` -/
def compressible (ss : List (List Node)) : Bool :=
  match ss with
  | [] => false
  | [_] => false
  | s0 :: rest =>
    (rest.all fun s => s.length = s0.length && (List.zipWith sameShape s0 s).all id) &&
    -- the increment width field has 6 bits: a 64-bit column spanning the whole range cannot be listed
    (columns (s0 :: rest)).all fun col =>
      match col with
      | [] => true
      | n0 :: _ =>
        -- the same for a column of associated fields of 63 or 64 bits
        if !n0.flags.skipped ∧ n0.val.isSome ∧ n0.enc.afNbits > 0 ∧ n0.afW ≥ 63 ∧
            listMax (col.map (·.afBits)) 0 - listMin (col.map (·.afBits)) 0 ≥ 2^63 - 1 then false
        else
        if n0.flags.skipped ∨ n0.enc.nbits < 64 then true
        else if !(n0.enc.type = .numeric || n0.enc.type = .codetable || n0.enc.type = .flagtable) then true
        else
          let missing := missingIvalue n0.enc.nbits
          let present := (col.map value2bits).filter (· ≠ missing)
          decide (listMax present 0 - listMin present 0 < 2^63 - 1)

def BUFR_FLAG_OBSERVED : Nat := 128
def BUFR_FLAG_COMPRESSED : Nat := 64

/-- size of the initial Section 4 allocation computed by `bufr_encode_message` -/
def s4Estimate (ss : List (List Node)) : Nat :=
  let (blen, nbits) := ss.foldl (fun (acc : Nat × Int) s =>
    let nb := s.foldl (fun a n => if n.flags.skipped then a else a + n.enc.nbits + n.enc.afNbits) acc.2
    (acc.1 + (nb / 8).toNat, nb % 8)) (0, 0)
  blen + (if nbits > 0 then 1 else 0)

/-- `bufr_settle_new_refvalues`: a subset holding 2 03 YYY definitions gets Table C applied once
more, each new reference value installed as it is met -/
def settleLoop (T : Tables) (edition : Nat) : DDO → List Node → List Node × Bool
  | _, [] => ([], false)
  | ddo, n :: ns =>
    let (ddo1, n1, e1) := applyTables2node T edition ddo n
    let ddo2 := applyOpCrefval T ddo1 n1
    let (r, e2) := settleLoop T edition ddo2 ns
    (n1 :: r, e1 || e2)

def settleNewRefs (T : Tables) (edition : Nat) (s : List Node) : List Node × Bool :=
  if s.any (fun n => n.enc.type = .chngRef) then settleLoop T edition { enforce := .strict } s
  else (s, false)

/-- the data part of `bufr_encode_message(dts, x_compress)`: Section 3 flag and Section 4
(`ss` already settled) -/
def encodeData (ss : List (List Node)) (dataFlag : Nat) (xCompress : Int) : Nat × W :=
  let xc : Bool :=
    if xCompress > 0 then compressible ss
    else if xCompress < 0 then (dataFlag &&& BUFR_FLAG_COMPRESSED ≠ 0) && compressible ss
    else false
  let flag0 := dataFlag &&& (BUFR_FLAG_OBSERVED ||| BUFR_FLAG_COMPRESSED)
  let flag := if xc then flag0 ||| BUFR_FLAG_COMPRESSED else flag0 &&& (255 - BUFR_FLAG_COMPRESSED)
  let w0 := (W.new 0).alloc (s4Estimate ss)
  if !xc then (flag, ss.foldl (fun w s => s.foldl putDescValue w) w0)
  else (flag, (columns ss).foldl putColumn w0)

/-- the Section 4 part of `bufr_end_message`: editions up to 3 pad the section to an even number
of octets (4 header octets + data) with zero bits -/
def padSection4 (edition : Nat) (w : W) : W :=
  let len := w.filled + 4 + (if w.bitno > 0 then 1 else 0)
  if edition ≤ 3 ∧ len % 2 = 1 then
    w.putbits 0 (if w.bitno = 0 then 8 else 8 - w.bitno + 8)
  else w

end Bufr
