import BufrProofs.Bits
