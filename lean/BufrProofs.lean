import BufrProofs.Bits
import BufrProofs.Expand
import BufrProofs.Ops
import BufrProofs.Ieee
import BufrProofs.Tables
import BufrProofs.Frame
import BufrProofs.FrameRead
