import BufrProofs.Bits
import BufrProofs.Expand
