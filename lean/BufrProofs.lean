import BufrProofs.Bits
import BufrProofs.Expand
import BufrProofs.Ops
