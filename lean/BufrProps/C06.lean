import BufrProofs.FrameRead
/-
  C06 — Messages are framed consistently and read back identically on every I/O path.

  Property theorems only (helper lemmas live in BufrProofs/Frame.lean and FrameRead.lean).
  Model: BufrModel/Frame.lean and Header.lean, tied to bufr_io.c / bufr_message.c / bufr_sio.c /
  bufr_util.c by the `msg.*` correspondence streams (four writers, four readers).

  Vocabulary
  * `m` is a message as the application has filled it in; `m.endMessage` is what
    `bufr_end_message` makes of it; `writeMessage` is `bufr_callback_write_message`.
  * `FieldsInRange m` is the quantifier of the property: editions 2–4, Section 1 values the
    edition's octets and the API's `short`/`int` fields can hold, valid descriptors, a consistent
    bit cursor, Section 1 length at least the edition's default (even for editions 2–3), an
    even Section 2 payload for editions 2–3 (what `bufr_sect2_set_data` produces), and a total
    length below 2^24.
  * `normalize h m` is the message a reader returns: `h` is the header string; the master
    table is 0 (forced by the writer), edition ≤ 3 year is `(y−1)%100+1`, edition 2 has no
    sub-centre, edition ≤ 3 has no international sub-category and no seconds, Section 1 extra
    data comes back with its zero padding, Section 4 has no write cursor.
  * The header string is stored escaped; `headerOf raw` is what the reader stores for the
    bytes `raw`, and what an application must store to get `raw` on the wire.

  What is *not* true of the C and therefore appears as a hypothesis (`_partial`) with a witness
  of its necessity (`_fails`): a header byte `\004` is dropped by the scanner (kept as a known
  finding: EOT between GTS bulletins may be deliberate).  Repaired since the first version of
  this file: the backslash in header strings (escaped by the reader now, never read past),
  the writer's length guard (2^24 is refused), negative Section 4 lengths (refused).
-/
namespace Bufr.C06
open Bufr Bufr.Frame

/-- **length**: the writer accepts the message; it sends the header bytes followed by exactly
`len_msg` bytes; `len_msg` is the sum of the stored section lengths; every section's stored
length is the number of bytes written for it. -/
theorem C06_length (m : Msg) (h : FieldsInRange m) :
    let m' := m.endMessage
    writeMessage m' = .ok (m'.written, rawHeader m ++ writeBody m') ∧
    (rawHeader m ++ writeBody m').length = (rawHeader m).length + m'.lenMsg ∧
    m'.lenMsg = 8 + m'.s1.len + m'.s2Len + m'.s3Len + m'.s4Len + 4 ∧
    (wrSection0 m').length = 8 ∧ (wrSection1 m').length = m'.s1.len ∧
    (wrSection2 m').length = m'.s2Len ∧ (wrSection3 m').length = m'.s3Len ∧
    (wrSection4 m').length = m'.s4Len ∧ wrSection5.length = 4 := by
  intro m'
  have hR : Ready m' := ready_endMessage m h
  have hsm := hR.small
  have hraw' : rawHeader m' = rawHeader m := by
    simp [rawHeader, m', endMessage_header]
  refine ⟨?_, ?_, hR.len, wrSection0_length m', wrSection1_length m' hR.ed hR.s1,
    wrSection2_length m' hR, wrSection3_length m' hR, wrSection4_length m' hR, rfl⟩
  · have : ¬ (m'.lenMsg ≥ BUFR_MAX_MSG_LEN) := by unfold BUFR_MAX_MSG_LEN; omega
    simp [writeMessage, this, hraw']
  · rw [List.length_append, writeBody_length m' hR]

/-- **length, refusal**: a total length that does not fit the three octets of Section 0 is
refused by the writer (so `FieldsInRange`'s bound is exactly what the writer accepts). -/
theorem C06_maxlen_refused (m : Msg) (h : m.lenMsg ≥ 16777216) : writeMessage m = .err := by
  simp [writeMessage, BUFR_MAX_MSG_LEN, h]

/-- **even**: in editions 2 and 3 every section has even length. -/
theorem C06_even (m : Msg) (h : FieldsInRange m) (he : m.edition ≤ 3) :
    let m' := m.endMessage
    ∀ s ∈ [8, m'.s1.len, m'.s2Len, m'.s3Len, m'.s4Len, 4], s % 2 = 0 := by
  intro m'
  obtain ⟨hed, hs1, hs2, _, _, _, _, hs4, _⟩ := h
  obtain ⟨_, _, _, _, h5, _⟩ := hs1
  have e1 : m'.s1.len % 2 = 0 := by
    show m.endMessage.s1.len % 2 = 0
    rw [endMessage_s1]; exact h5 he
  have e2 : m'.s2Len % 2 = 0 := by
    show m.endMessage.s2Len % 2 = 0
    rw [endMessage_s2Len]
    by_cases hs : hasSect2 m.s1.flag = true
    · have := hs2 he hs
      simp [hs]; omega
    · simp [hs]
  have e3 : m'.s3Len % 2 = 0 := by
    show m.endMessage.s3Len % 2 = 0
    rw [endMessage_s3Len m hed]
    simp [he]; omega
  have e4 : m'.s4Len % 2 = 0 := by
    show m.endMessage.s4Len % 2 = 0
    unfold Msg.endMessage; dsimp only
    by_cases hp : (m.s4Filled + 4 + if m.s4Bitno > 0 then 1 else 0) % 2 = 1
    · simp only [he, hp, and_self, decide_true, if_true]
      by_cases hb : m.s4Bitno = 0
      · simp [hb] at hp ⊢; omega
      · have : m.s4Bitno > 0 := by omega
        simp [hb, this] at hp ⊢; omega
    · simp only [hp, and_false, decide_false, if_false, Bool.false_eq_true]
      omega
  intro s hs
  simp only [List.mem_cons, List.mem_nil_iff, or_false] at hs
  rcases hs with rfl | rfl | rfl | rfl | rfl | rfl <;> first | rfl | assumption

/-- **end**: the bytes written end with `7777`. -/
theorem C06_end (m : Msg) (h : FieldsInRange m) :
    let bytes := rawHeader m ++ writeBody m.endMessage
    writeMessage m.endMessage = .ok (m.endMessage.written, bytes) ∧
    bytes.drop (bytes.length - 4) = [55, 55, 55, 55] := by
  intro bytes
  refine ⟨(C06_length m h).1, ?_⟩
  have e : bytes = (rawHeader m ++ (wrSection0 m.endMessage ++ wrSection1 m.endMessage ++ wrSection2 m.endMessage ++
      wrSection3 m.endMessage ++ wrSection4 m.endMessage)) ++ [55, 55, 55, 55] := by
    simp [bytes, writeBody, wrSection5, List.append_assoc]
  rw [e]
  apply List.drop_left'
  simp only [List.length_append, List.length_cons, List.length_nil]
  omega

/-- the bytes `bufr_wr_header_string` sends for a stored string that is the reader's escaping
of `raw` are `raw` again — for every `raw`, backslashes and control characters included -/
theorem rawHeader_headerOf (m : Msg) (raw : List Nat) (hh : m.header = headerOf raw) :
    rawHeader m = raw := by
  unfold rawHeader
  rw [hh]
  unfold headerOf
  cases raw with
  | nil => rfl
  | cons c r =>
    simp only [List.isEmpty_cons, Bool.false_eq_true, if_false]
    exact oct2char_schar2oct _

/-- **read-back** (partial: the header string must not contain `\004`, see
`C06_readback_fails_eot`; nothing else is missing, and with `raw = []` — no header string — the
statement is full strength).  The bytes the writer sends are read back as
`normalize m.header m.endMessage`: every Section 1 field (normalised as documented), the
Section 2 payload, the Section 3 flags and descriptor list, the Section 4 data bytes and the
header string; the number of bytes consumed is the number written. -/
theorem C06_readback_partial (m : Msg) (raw : List Nat) (h : FieldsInRange m)
    (hh : m.header = headerOf raw) (hmk : NoMarker raw) (h4 : 4 ∉ raw) :
    let bytes := raw ++ writeBody m.endMessage
    writeMessage m.endMessage = .ok (m.endMessage.written, bytes) ∧
    readMessage bytes = .ok (normalize m.header m.endMessage, bytes.length) := by
  intro bytes
  have hraw := rawHeader_headerOf m raw hh
  refine ⟨by have := (C06_length m h).1; rwa [hraw] at this, ?_⟩
  have hR := ready_endMessage m h
  have := readMessage_prefix raw [] m.endMessage hR hmk
  rw [List.append_nil] at this
  rw [this, seekCollect_no_eot raw 0 h4, ← hh, List.length_append]

/-- **stream**: a concatenation of messages, each preceded by foreign bytes that do not contain
the start marker (a separator and the message's own header string), followed by trailing bytes
without the marker, is split by the documented caller loop into exactly those messages, in
order, each call consuming exactly the foreign bytes and the message.  Full strength: no
condition on `\004` or backslashes — those only affect the header string reported, which is
`headerOf (seekCollect 0 pre)`. -/
theorem C06_stream (items : List (List Nat × Msg)) (tail : List Nat) (fuel : Nat)
    (hI : ∀ it ∈ items, FieldsInRange it.2 ∧ NoMarker it.1) (ht : NoMarker tail)
    (hf : items.length < fuel) :
    readAll fuel (streamOf (items.map (fun it => (it.1, it.2.endMessage))) tail) =
      items.map (fun it => (normalize (headerOf (seekCollect 0 it.1)) it.2.endMessage,
                            it.1.length + (writeBody it.2.endMessage).length)) := by
  have := readAll_stream (items.map (fun it => (it.1, it.2.endMessage))) tail fuel
    (by
      intro it hit
      simp only [List.mem_map] at hit
      obtain ⟨it0, h0, rfl⟩ := hit
      exact ⟨ready_endMessage _ (hI it0 h0).1, (hI it0 h0).2⟩)
    ht (by simpa using hf)
  rw [this, List.map_map]
  rfl

/-- **stream, header strings** (partial: no `\004` in the foreign bytes): the header string
reported for each message is the reader's escaping of all the foreign bytes before it. -/
theorem C06_stream_header_partial (pre : List Nat) (h4 : 4 ∉ pre) :
    headerOf (seekCollect 0 pre) = headerOf pre := by
  rw [seekCollect_no_eot pre 0 h4]

/-- **paths**: the four real read callbacks (memory, stdio, file descriptor, a user callback that
loops until it has the bytes) give what the ideal byte list gives: the same message and the
same bytes left, or the same failure. -/
theorem C06_paths (c : Cur) (hc : c.pos ≤ c.data.length) :
    Res.matches Cur.rest Cur.Inv ((readMessageP (c.rest.length + 1)).runList c.rest) (readMessageSrc memSrc c) ∧
    Res.matches Cur.rest Cur.Inv ((readMessageP (c.rest.length + 1)).runList c.rest) (readMessageSrc (cbSrc 0) c) ∧
    (c.data.length < 2147483648 →
      Res.matches Cur.rest (fun c => c.pos ≤ c.data.length ∧ c.data.length < 2147483648)
        ((readMessageP (c.rest.length + 1)).runList c.rest) (readMessageSrc fileSrc c)) ∧
    (c.data.length < 9223372036854775808 →
      Res.matches Cur.rest (fun c => c.pos ≤ c.data.length ∧ c.data.length < 9223372036854775808)
        ((readMessageP (c.rest.length + 1)).runList c.rest) (readMessageSrc fdSrc c)) := by
  refine ⟨?_, ?_, ?_, ?_⟩
  · have := runSrc_sim memSrc Cur.rest Cur.Inv memSrc_faithful (readMessageP (c.rest.length + 1)) c hc
    unfold readMessageSrc; rw [memSrc_faithful.fuel c hc]; exact this
  · have := runSrc_sim (cbSrc 0) Cur.rest Cur.Inv cbSrc_faithful (readMessageP (c.rest.length + 1)) c hc
    unfold readMessageSrc; rw [cbSrc_faithful.fuel c hc]; exact this
  · intro hs
    have := runSrc_sim fileSrc Cur.rest _ fileSrc_faithful (readMessageP (c.rest.length + 1)) c ⟨hc, hs⟩
    unfold readMessageSrc; rw [fileSrc_faithful.fuel c ⟨hc, hs⟩]; exact this
  · intro hs
    have := runSrc_sim fdSrc Cur.rest _ fdSrc_faithful (readMessageP (c.rest.length + 1)) c ⟨hc, hs⟩
    unfold readMessageSrc; rw [fdSrc_faithful.fuel c ⟨hc, hs⟩]; exact this

/-- **padding**: the zero octet `Msg.endMessage` appends to an odd edition ≤ 3 Section 4 is what
`bufr_putbits(bufr, 0, nbits)` of the bit-cursor model (C11) does: one zero octet after the
octets written so far, cursor on an octet boundary. -/
theorem C06_pad_is_putbits (w : W) (hI : WInv w) :
    let w' := w.putbits 0 (if w.bitno = 0 then 8 else 16 - w.bitno)
    w'.bytes = w.bytes ++ [0] ∧ w'.bitno = 0 ∧
    w'.filled = (if w.bitno = 0 then w.filled + 1 else w.filled + 2) := pad_putbits w hI

/-! ### witnesses: the hypotheses of `C06_readback_partial` are forced -/

/-- a small edition-4 message used by the witnesses -/
def wmsg (h : Option (List Nat)) : Msg :=
  { createMessage 4 with
    s1 := { initSect1 4 with year := 2024, month := 9, day := 29 },
    nSubsets := 1, s3Flag := 128, descs := [1001, 12101],
    s4Data := [170, 187, 204], s4Filled := 3, s4Len := 68, header := h }

/-- the header string read back for the bytes the writer sends -/
def headerReadBack (m : Msg) : Option (Option (List Nat)) :=
  match writeMessage m.endMessage with
  | .ok (_, bytes) =>
    (match readMessage bytes with
     | .ok (m', _) => some m'.header
     | _ => none)
  | _ => none

/-- **`\004` is forced**: the header `A\004B` (stored as its escaping) is sent as the three bytes
and read back as `AB`. -/
theorem C06_readback_fails_eot :
    FieldsInRange (wmsg (headerOf [65, 4, 66])) ∧
    rawHeader (wmsg (headerOf [65, 4, 66])) = [65, 4, 66] ∧
    headerReadBack (wmsg (headerOf [65, 4, 66])) = some (some [65, 66]) ∧
    (wmsg (headerOf [65, 4, 66])).header = some [65, 92, 48, 48, 52, 66] := by
  decide

/-- **Section 1 copy**: `bufr_copy_sect1` hands over every field and the additional octets of
a Section 1 that has its lengths set; only the flag octet stays the destination's. -/
theorem C06_copy_sect1 (d s : Sect1) (hl : s.len > 0) (hh : s.headerLen > 0) :
    copySect1 d s = { s with flag := d.flag } := by
  simp [copySect1, hl, hh]

/-! ### non-vacuity: the hypotheses hold on concrete, non-trivial messages -/

/-- edition 3, Section 2 present, odd number of data bits, control characters in the header -/
def ex3 : Msg :=
  (({ createMessage 3 with
      s1 := { initSect1 3 with centre := 200, subCentre := 7, year := 2024, month := 5, masterTable := 10 },
      nSubsets := 2, s3Flag := 128, descs := [1001, 301011, 5002],
      s4Data := [170, 187, 224], s4Filled := 2, s4Bitno := 3,
      header := headerOf [1, 13, 13, 10, 73, 85, 66] } : Msg).sect2SetData [1, 2, 3])

example : FieldsInRange ex3 := by decide
example : ex3.endMessage.lenMsg = 60 ∧ ex3.endMessage.s2Data = [1, 2, 3, 0] := by decide
example : NoMarker [1, 13, 13, 10, 73, 85, 66] ∧ 4 ∉ [1, 13, 13, 10, 73, 85, 66] := by decide
example : ∃ bytes, writeMessage ex3.endMessage = .ok (ex3.endMessage.written, bytes) ∧
    readMessage bytes = .ok (normalize ex3.header ex3.endMessage, 67) := by
  refine ⟨_, (C06_readback_partial ex3 [1, 13, 13, 10, 73, 85, 66] (by decide) (by decide) (by decide)
    (by decide)).1, ?_⟩
  have := (C06_readback_partial ex3 [1, 13, 13, 10, 73, 85, 66] (by decide) (by decide) (by decide)
    (by decide)).2
  rw [this]
  decide
set_option maxRecDepth 100000 in
/-- the same by evaluation, independently of the theorem -/
example : (match writeMessage ex3.endMessage with
           | .ok (_, bytes) => decide (readMessage bytes = .ok (normalize ex3.header ex3.endMessage, bytes.length))
           | _ => false) = true := by decide +kernel
/-- the normal form differs from the message written exactly where documented -/
example : (normalize ex3.header ex3.endMessage).s1.year = 24 ∧ (normalize ex3.header ex3.endMessage).s1.masterTable = 0 ∧
    (normalize ex3.header ex3.endMessage).s4Data = [170, 187, 224, 0] := by decide

set_option maxRecDepth 100000 in
/-- a stream of two messages with a separator that ends in `BUF` and contains `\004`, and trailing bytes -/
example : (readAll 5 (streamOf [([66, 85, 70], ex3.endMessage), ([9, 4, 66, 85], (wmsg none).endMessage)] [13, 10, 66, 85, 70])).map (·.2) =
    [3 + 60, 4 + 52] := by decide
example : NoMarker [66, 85, 70] ∧ NoMarker [9, 4, 66, 85] ∧ NoMarker [13, 10, 66, 85, 70] ∧ FieldsInRange (wmsg none) := by decide

/-- header strings with backslashes: `C:\101` and a trailing backslash are sent as they are and
read back as they were stored -/
example : rawHeader (wmsg (headerOf [67, 58, 92, 49, 48, 49])) = [67, 58, 92, 49, 48, 49] ∧
    headerReadBack (wmsg (headerOf [67, 58, 92, 49, 48, 49])) = some (headerOf [67, 58, 92, 49, 48, 49]) ∧
    headerOf [67, 58, 92, 49, 48, 49] = some [67, 58, 92, 92, 49, 48, 49] ∧
    headerReadBack (wmsg (headerOf [65, 92])) = some (some [65, 92, 92]) := by decide
/-- a stored string with backslashes that start no escape is sent with them -/
example : rawHeader (wmsg (some [65, 92, 66, 92])) = [65, 92, 66, 92] ∧
    rawHeader (wmsg (some [92, 49, 48, 49, 92, 110, 92, 56, 48, 48])) = [65, 10, 92, 56, 48, 48] := by decide

end Bufr.C06
