import BufrProofs.RefCodec
import BufrProofs.Scale
/-
  C03 — Encoder output is the FM 94 wire format for the template and values.

  Property theorems only (helper lemmas: BufrProofs/Codec.lean, RefCodec.lean, Scale.lean).
  Model: BufrModel/Codec.lean; reference decoder written from the regulation: BufrSpec/RefDecode.lean.
  Tie: `ds.encode` correspondence + the reference decoder run on the implementation's own bytes
  (`spec.decode`, props/c03.py).

  Proved at full strength: the bits of one element (associated field, then the raw value in exactly
  the element width; characters left-justified and blank padded), of a whole uncompressed Section 4
  (subsets in order, elements in expansion order, no gaps, only padding after), the raw value of a
  numeric element (`round(v·10^scale) − reference`, all ones for missing), the bits of a compressed
  numeric column (R0, 6-bit NBINC, increments), and that the *reference decoder* recovers from them
  exactly the raw values (element and column).  Section 3 and the whole-message walk of the
  reference decoder over a template with replication are covered by correspondence and `spec.decode`.
-/
namespace Bufr.C03
open Bufr Bufr.Spec Bufr.Scale Bufr.SF

/-- **one element on the wire**: nothing for a node without data; otherwise the associated field
(when 2 04 is in force) followed by the value in exactly the operator-adjusted width -/
theorem C03_element_bits (w : W) (hI : WInv w) (n : Node) :
    (putDescValue w n).bits = w.bits ++ nodeBits n ∧ WInv (putDescValue w n) :=
  putDescValue_bits w hI n

/-- **uncompressed Section 4**: the elements of subset 1 in expansion order, then subset 2, …,
most significant bit first without gaps; what follows is padding only -/
theorem C03_section4_bits (ss : List (List Node)) (dataFlag edition : Nat) :
    ∃ pad, (R.ofBytes (padSection4 edition (encodeData ss dataFlag 0).2).bytes).bits =
      ss.flatMap (fun s => s.flatMap nodeBits) ++ pad :=
  let ⟨pad, h, _⟩ := encodeData_reader ss dataFlag edition
  ⟨pad, h⟩

/-- character data are left-justified, cut to the element width and blank padded -/
theorem C03_characters (n : Node) (bs : List Nat) (h : n.val = .str bs) :
    paddedString n = bs.take (n.enc.nbits / 8).toNat ++ List.replicate ((n.enc.nbits / 8).toNat - bs.length) 32 := by
  unfold paddedString valueString; rw [h]

/-- **raw value of a numeric element**: a physical value within (½ − 2^−18)·10^−scale of the grid
point `k·10^−scale`, accepted by the library's range test, is written as `k − reference` -/
theorem C03_raw_value (n : Node) (x : ℚ) (k : ℤ) (ht : n.enc.type = .numeric) (hnb : n.enc.nbits ≤ 32)
    (hval : n.val = .f64 (.fin x)) (hv : (sEnc n.enc).Valid)
    (hk : 0 ≤ k - n.enc.ref ∧ k - n.enc.ref < 2 ^ (sEnc n.enc).nbits - 1)
    (hx : |x * (10:ℚ) ^ n.enc.scale - k| ≤ 1 / 2 - 1 / 2 ^ 18)
    (hr : dFmin (sEnc n.enc) ≤ x ∧ x ≤ dFmax (sEnc n.enc)) :
    valueBits n = (k - n.enc.ref).toNat := by
  unfold valueBits
  simp only [ht, hnb, if_true, hval]
  exact cvtDvalToI64_onGrid n.desc (sEnc n.enc) hv x k
    ⟨hk.1, lt_of_lt_of_le hk.2 (by have := two_pow_nbits_le (sEnc n.enc) hv; omega), hx⟩ hk.2
    (not_lt.mpr hr.1) (not_lt.mpr hr.2)

/-- **missing is all ones** -/
theorem C03_missing_all_ones (n : Node) (x : FP) (ht : n.enc.type = .numeric) (hnb : n.enc.nbits ≤ 32)
    (hval : n.val = .f64 x) (hv : (sEnc n.enc).Valid) (hm : isMissingDouble x = true) :
    valueBits n = 2 ^ (sEnc n.enc).nbits - 1 := by
  unfold valueBits
  simp only [ht, hnb, if_true, hval]
  exact encode_missing n.desc (sEnc n.enc) hv x hm

/-- **compressed numeric column on the wire**: local reference value in the element width, increment
width in 6 bits, one increment per subset -/
theorem C03_column_bits (w : W) (hI : WInv w) (n0 : Node) (rest : List Node) :
    (putNumericCompressed w (n0 :: rest)).bits =
      w.bits ++ (bitsMSB n0.enc.nbits.toNat (encNumCol n0.enc.nbits ((n0 :: rest).map value2bits)).1 ++
        bitsMSB 6 (encNumCol n0.enc.nbits ((n0 :: rest).map value2bits)).2.1 ++
        (encNumCol n0.enc.nbits ((n0 :: rest).map value2bits)).2.2.flatMap
          (bitsMSB (encNumCol n0.enc.nbits ((n0 :: rest).map value2bits)).2.1)) :=
  (putNumericCompressed_bits w hI n0 rest).1

/-- **the reference decoder recovers one element** -/
theorem C03_refdecode_element (l : Layout) (m : Node) (rest : List Bool) (h : LayoutOf l m)
    (hns : m.flags.skipped = false) :
    readItem l (nodeBits m ++ rest) =
      some ({ desc := l.desc, kind := l.kind, width := l.width.toNat, afW := l.af, af := m.afBits % 2^l.af,
              raw := if l.kind = .ccitt then 0 else valueBits m % 2^l.width.toNat,
              str := if l.kind = .ccitt then (paddedString m).map (· % 256) else [] }, rest) :=
  readItem_view l m rest h hns

/-- **the reference decoder recovers a compressed numeric column**: from the bits the library wrote
for one element of `n` subsets it reads exactly the subsets' raw values (all ones = missing) -/
theorem C03_refdecode_column (w : W) (hI : WInv w) (n0 : Node) (rest : List Node)
    (h1 : 1 ≤ n0.enc.nbits) (h2 : n0.enc.nbits ≤ 64)
    (hv : ∀ n ∈ n0 :: rest, value2bits n ≤ missingIvalue n0.enc.nbits)
    (hspread : n0.enc.nbits = 64 → ∀ a ∈ n0 :: rest, ∀ b ∈ n0 :: rest,
      value2bits a ≠ missingIvalue n0.enc.nbits → value2bits b ≠ missingIvalue n0.enc.nbits →
      value2bits a - value2bits b < 2^63 - 1)
    (bits tail : List Bool)
    (hb : (putNumericCompressed w (n0 :: rest)).bits ++ tail = w.bits ++ bits) :
    readColumn n0.enc.nbits.toNat (n0 :: rest).length bits = some ((n0 :: rest).map value2bits, tail) :=
  refDecode_numeric_column w hI n0 rest h1 h2 hv hspread bits tail hb

/-! ### Non-vacuity -/

def exNode (x : ℚ) : Node :=
  { desc := 12101, enc := { type := .numeric, scale := 2, ref := -27315, nbits := 16, afNbits := 0 }, val := .f64 (.fin x) }

example : (sEnc (exNode 0).enc).Valid := by decide
example : valueBits (exNode (2665 / 100)) = 29980 := by decide +kernel
example : dFmin (sEnc (exNode 0).enc) ≤ 2665 / 100 ∧ (2665:ℚ) / 100 ≤ dFmax (sEnc (exNode 0).enc) := by decide +kernel
example : nodeBits (exNode (2665 / 100)) = bitsMSB 16 29980 := by decide +kernel
example : LayoutOf { desc := 12101, kind := .num, width := 16, scale := 2, ref := -27315 } (exNode 1) :=
  ⟨by decide, rfl, by decide, by decide, by decide, by decide⟩

end Bufr.C03
