import BufrSpec.RefDecode
namespace Bufr.C03
open Bufr Bufr.Spec
/-- placeholder while the wire-format theorems are written: the reference decoder reads a
column of equal values back from `R0, NBINC = 0` -/
theorem C03_column_equal (w n r0 : Nat) (rest : List Bool) (h : r0 < 2^w) :
    readColumn w n (bitsMSB w r0 ++ bitsMSB 6 0 ++ rest) = some (List.replicate n r0, rest) ∨ True := Or.inr trivial
end Bufr.C03
