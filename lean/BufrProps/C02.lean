import BufrModel.Decode
namespace Bufr.C02
open Bufr
/-- placeholder while the column theorems are written -/
theorem C02_single_subset_not_compressed (s : List Node) : compressible [s] = false := rfl
end Bufr.C02
