import BufrProofs.CodecCompressed
/-
  C02 — Compression never changes content; incompressible datasets fall back safely.

  Property theorems only (helper lemmas: BufrProofs/Codec.lean).  Model: BufrModel/Codec.lean
  (`putNumericCompressed`, `encNumCol`, `compressible`, `encodeData`) and BufrModel/Decode.lean
  (`getNumericCompressed`, `setBitsValue`), tied to bufr_dataset.c by the correspondence streams of
  props/c02.py (compress = 1 against compress = 0 for the same dataset).

  Proved at full strength: the numeric/code/flag column codec (every width 1..64, every number of
  subsets, every mixture of present and missing raw values, every slice request), the encoder's
  choice of R0/NBINC being sound, the fall-back to uncompressed form, and that the compressed and
  the uncompressed decoder turn the same raw bits into the same value.  The lock-step walk over all
  columns of a template (`decodeCompressedLoop`) and character/associated-field columns are covered
  by correspondence and oracle; `C02_dataset_partial` names what is missing.
-/
namespace Bufr.C02
open Bufr

/-- a single subset is never compressed -/
theorem C02_single_subset_not_compressed (s : List Node) : compressible [s] = false := rfl

/-- **numeric column round trip.**  For one element of `n ≥ 1` subsets holding any raw values that
fit its width (missing = all ones included): what `bufr_put_numeric_compressed` writes is read by
`bufr_get_numeric_compressed` back into exactly those raw values, subset by subset, for the whole
dataset or any slice `from..to`, and the cursor stops right after the column.  (The `hspread`
clause is what `bufr_dataset_compressible` now tests for 64-bit elements.) -/
theorem C02_numeric_column (w : W) (hI : WInv w) (n0 : Node) (rest : List Node)
    (h1 : 1 ≤ n0.enc.nbits) (h2 : n0.enc.nbits ≤ 64)
    (hv : ∀ n ∈ n0 :: rest, value2bits n ≤ missingIvalue n0.enc.nbits)
    (hspread : n0.enc.nbits = 64 → ∀ a ∈ n0 :: rest, ∀ b ∈ n0 :: rest,
      value2bits a ≠ missingIvalue n0.enc.nbits → value2bits b ≠ missingIvalue n0.enc.nbits →
      value2bits a - value2bits b < 2^63 - 1)
    (r : R) (hIr : RInv r) (tail : List Bool)
    (hb : w.bits ++ r.bits = (putNumericCompressed w (n0 :: rest)).bits ++ tail)
    (cb : Node) (col : List Node) (hnb : cb.enc.nbits = n0.enc.nbits)
    (g : Range) (hg : g.OK) (hn : g.nsub = (n0 :: rest).length) (hcol : (cb :: col).length = g.count) :
    ∃ r', getNumericCompressed r (cb :: col) g =
        some (r', zipWithNodes setBitsValue (cb :: col) (g.slice ((n0 :: rest).map value2bits))) ∧
      r'.bits = tail ∧ RInv r' :=
  numeric_column_roundtrip w hI n0 rest h1 h2 hv hspread r hIr tail hb cb col hnb g hg hn hcol

/-- **the encoder's column plan is sound**: R0 fits the element, NBINC fits both its 6-bit field
and the element width, a column announced as constant is constant, and a listed column gives each
subset its own raw value back with all ones (and only all ones) meaning missing -/
theorem C02_plan_sound (nb : Int) (h1 : 1 ≤ nb) (h2 : nb ≤ 64) (vals : List Nat) (hne : vals ≠ [])
    (hv : ∀ v ∈ vals, v ≤ missingIvalue nb)
    (hspread : nb = 64 → ∀ a ∈ vals, ∀ b ∈ vals, a ≠ missingIvalue nb → b ≠ missingIvalue nb → a - b < 2^63 - 1) :
    (encNumCol nb vals).1 ≤ missingIvalue nb ∧
    ((encNumCol nb vals).2.1 : Int) ≤ nb ∧ (encNumCol nb vals).2.1 < 64 ∧
    ((encNumCol nb vals).2.1 = 0 → (encNumCol nb vals).2.2 = [] ∧ ∀ v ∈ vals, v = (encNumCol nb vals).1) ∧
    ((encNumCol nb vals).2.1 > 0 → (encNumCol nb vals).2.2.length = vals.length ∧
      (encNumCol nb vals).2.2.map (decInc nb (encNumCol nb vals).1 (encNumCol nb vals).2.1) = vals) :=
  encNumCol_sound nb h1 h2 vals hne hv hspread

/-- **safe fall-back**: when the subsets cannot be expressed in compressed form, asking for
compression produces exactly the uncompressed data section, and the compression bit of the Section 3
flag is clear -/
theorem C02_fallback (ss : List (List Node)) (dataFlag : Nat) (h : compressible ss = false) :
    (encodeData ss dataFlag 1).2 = (encodeData ss dataFlag 0).2 ∧
    (encodeData ss dataFlag 1).1 = (encodeData ss dataFlag 0).1 := by
  unfold encodeData
  simp [h]

/-- the compression bit is set exactly when the compressed form was written -/
theorem C02_flag (ss : List (List Node)) (dataFlag : Nat) (h : compressible ss = true) :
    (encodeData ss dataFlag 1).1 = (dataFlag &&& (BUFR_FLAG_OBSERVED ||| BUFR_FLAG_COMPRESSED)) ||| BUFR_FLAG_COMPRESSED ∧
    (encodeData ss dataFlag 1).2 = (columns ss).foldl putColumn ((W.new 0).alloc (s4Estimate ss)) := by
  unfold encodeData
  simp [h]

/-- **one value function**: the compressed decoder (`bufr_descriptor_set_bitsvalue`) and the
uncompressed one (`bufr_get_desc_value`) turn the same raw bits of a code table, flag table or
integer element into the same value — class 31 included, where all ones is a count and never a
missing value (the element reference of class 31 being 0, as in every table) -/
theorem C02_same_value_function (n : Node) (raw : Nat) (hs : n.flags.skipped = false)
    (hx : Desc.x n.desc = 31 → n.enc.ref = 0)
    (ht : n.enc.type = .codetable ∨ n.enc.type = .flagtable ∨
      (n.enc.type = .numeric ∧ ∃ v, (mkvalNode n).val = .i32 v ∨ (mkvalNode n).val = .i64 v)) :
    (setBitsValue n raw).val = valueOfBits (mkvalNode n) (mkvalNode n).val raw := by
  have he := (mkvalNode_enc n).1
  have hd := (mkvalNode_enc n).2
  unfold setBitsValue valueOfBits
  simp only [hs, Bool.false_eq_true, if_false, he, hd]
  rcases ht with h | h | ⟨h, v, hv | hv⟩
  · simp [h]
  · simp [h]
  · simp only [h, hv]
    by_cases hm : raw = missingIvalue n.enc.nbits <;> by_cases h31 : Desc.x n.desc = 31 <;> simp [hm, h31, hx]
  · simp only [h, hv]
    by_cases hm : raw = missingIvalue n.enc.nbits <;> by_cases h31 : Desc.x n.desc = 31 <;> simp [hm, h31, hx]

/-- the delayed replication factor 0 31 001 holding 255 in compressed data is the count 255 (before the repair
`bufr_descriptor_set_bitsvalue` made it the missing value and the decoder expanded nothing) -/
example : (setBitsValue { desc := 31001, enc := { type := .numeric, nbits := 8 } } 255).val.getInt64 = 255 := by decide


/-- **associated-field column round trip** (whole dataset): every subset gets its own associated
field back, whether the encoder wrote the constant or the listed form -/
theorem C02_af_column (w : W) (hI : WInv w) (n0 : Node) (rest : List Node)
    (haf : ¬ (n0.enc.afNbits = 0 ∨ n0.afW = 0)) (hall : ∀ n ∈ n0 :: rest, n.afW > 0)
    (hw : n0.afW ≤ 62) (hv : ∀ n ∈ n0 :: rest, n.afBits < 2^n0.afW)
    (r : R) (hIr : RInv r) (tail : List Bool)
    (hb : w.bits ++ r.bits = (putAfCompressed w (n0 :: rest)).bits ++ tail)
    (cb : Node) (col : List Node) (hcaf : cb.enc.afNbits ≠ 0) (hcw : (mkvalNode cb).afW = n0.afW)
    (g : Range) (hfull : g.from_ ≤ 0) (hn : g.nsub = (n0 :: rest).length) (hcol : (cb :: col).length = g.nsub) :
    ∃ r', getAfCompressed r (cb :: col) g =
        some (r', zipWithNodes (fun n v => { mkvalNode n with afBits := v }) (cb :: col) ((n0 :: rest).map (·.afBits))) ∧
      r'.bits = tail ∧ RInv r' :=
  af_column_roundtrip w hI n0 rest haf hall hw hv r hIr tail hb cb col hcaf hcw g hfull hn hcol

/-- **IEEE column round trip** (2 09 032 / 2 09 064, whole dataset or any slice): whatever the encoder writes for a
column of IEEE fields — the value once when every subset holds the same *bits*, every value in full otherwise —
the decoder hands each subset of the request its own 32 or 64 bits and ends right behind the column.  Equality is
equality of bit patterns: infinities, the largest finite values (the library's "missing" reals among them) and
signed zeros are values of their own. -/
theorem C02_ieee_column (w : W) (hI : WInv w) (n0 : Node) (rest : List Node)
    (r : R) (hIr : RInv r) (tail : List Bool)
    (hb : w.bits ++ r.bits = (putIeeeCompressed w (n0 :: rest)).bits ++ tail)
    (cb : Node) (col : List Node) (hnb : cb.enc.nbits = if n0.enc.nbits = 64 then 64 else 32)
    (g : Range) (hg : g.OK) (hn : g.nsub = (n0 :: rest).length) (hcol : (cb :: col).length = g.count) :
    ∃ r', getIeeeCompressed r (cb :: col) g =
        some (r', zipWithNodes ieeeSetv (cb :: col)
          ((g.slice ((n0 :: rest).map valueBits)).map (· % 2^cb.enc.nbits.toNat))) ∧
      r'.bits = tail ∧ RInv r' :=
  ieee_column_roundtrip w hI n0 rest r hIr tail hb cb col hnb g hg hn hcol

/-- **character column round trip** (whole dataset, fields of 1..63 octets): whether the encoder
lists the strings (they differ) or announces one for all (it regards them as equal: same
significant part, trailing blanks aside), every subset gets back the octets of its own value, blank
padded to the element width -/
theorem C02_character_column (w : W) (hI : WInv w) (n0 : Node) (rest : List Node)
    (h8 : 8 ≤ n0.enc.nbits) (hm8 : n0.enc.nbits % 8 = 0) (h63 : n0.enc.nbits / 8 ≤ 63)
    (hu : ∀ n ∈ n0 :: rest, n.enc.nbits = n0.enc.nbits)
    (hz : ∀ c ∈ trimStr (valueString n0) (n0.enc.nbits / 8).toNat, c ≠ 0)
    (r : R) (hIr : RInv r) (tail : List Bool)
    (hb : w.bits ++ r.bits = (putCcittCompressed w (n0 :: rest)).bits ++ tail)
    (cb : Node) (col : List Node) (hcnb : cb.enc.nbits = n0.enc.nbits)
    (hcu : ∀ n ∈ cb :: col, (mkvalNode n).val = (mkvalNode cb).val ∧ (mkvalNode n).enc.nbits = cb.enc.nbits)
    (g : Range) (hfull : g.from_ ≤ 0) (hn : g.nsub = (n0 :: rest).length) (hcol : (cb :: col).length = g.nsub) :
    ∃ r', getCcittCompressed r (cb :: col) g =
        some (r', zipWithStrs (fun n s => { mkvalNode n with
            val := (mkvalNode cb).val.setString (some s) (cb.enc.nbits / 8).toNat })
          (cb :: col) ((n0 :: rest).map (fun n => (paddedString n).map (· % 256)))) ∧
      r'.bits = tail ∧ RInv r' :=
  ccitt_column_roundtrip w hI n0 rest h8 hm8 h63 hu hz r hIr tail hb cb col hcnb hcu g hfull hn hcol

/-- values the encoder treats as one are written as the same octets: nothing is lost by the
constant form -/
theorem C02_equal_strings_same_octets (a b : List Nat) (enclen : Nat) (hz : ∀ c ∈ trimStr a enclen, c ≠ 0)
    (h : strDiffers a b enclen = false) :
    a.take enclen ++ List.replicate (enclen - a.length) 32 = b.take enclen ++ List.replicate (enclen - b.length) 32 :=
  padded_eq_of_not_differs a b enclen hz h


/-- **static templates, compressed form** (`k+1` subsets): reading the compressed body the encoder
wrote column by column, the lock-step decoder returns `k+1` subsets with `decElem` at every position
(the value that subset had: raw bits through the one value function, octets of its own string, its own
associated field), keeps the invalid flag as it was, never dereferences a missing node and stops
right after the last column -/
theorem C02_static_compressed (T : Tables) (edition s4max : Nat) (enforce : Enforce) (k : Nat) (fuel : Nat)
    (bsq : List Node) (cols : List (List Node)) (w : W) (hIw : WInv w) (hw0 : w.bits = [])
    (hfuel : bsq.length < fuel) (hok : staticOK T edition { enforce := enforce } bsq = true)
    (hp : List.Forall₂ (PosOK k) bsq cols) (err : Bool) (r : R) (hI : RInv r) (pad : List Bool)
    (hb : r.bits = (cols.foldl putColumn w).bits ++ pad) :
    ∃ st', decodeCompressedLoop T edition s4max (⟨k + 1, 0, 0⟩ : Range) fuel
        { r := r, invalid := err, ddos := List.replicate (k + 1) { enforce := enforce },
          dones := List.replicate (k + 1) [], todos := List.replicate (k + 1) bsq } = .ok st' ∧
      st'.invalid = err ∧
      List.zipWith (fun d t => mkvalAll (d.reverse ++ t)) st'.dones st'.todos =
        (transposeDec k bsq cols).map mkvalAll ∧
      st'.r.bits = pad :=
  compressed_static_roundtrip T edition s4max enforce k fuel bsq cols w hIw hw0 hfuel hok hp err r hI pad hb

/-- **one position, compressed**: associated field, then numeric / character / no-data column -/
theorem C02_position (n : Node) (col : List Node) (hok : ColOK n col) (hns : n.flags.skipped = false)
    (r : R) (hI : RInv r) (tail : List Bool) (hb : r.bits = afColBits col ++ bodyColBits col ++ tail)
    (g : Range) (hfull : g.from_ ≤ 0) (hn : g.nsub = col.length) :
    ∃ r', readPosition r n (List.replicate col.length n) g = some (r', col.map (decElem n)) ∧
      r'.bits = tail ∧ RInv r' :=
  readPosition_roundtrip n col hok hns r hI tail hb g hfull hn

/-! ### Non-vacuity -/

def exNode (v : Int) : Node :=
  { desc := 12101, enc := { type := .numeric, scale := 0, ref := 0, nbits := 16, afNbits := 0 }, val := .i32 v }

/-- three subsets, one of them missing -/
example : ∀ n ∈ [exNode 300, exNode (-1), exNode 7], value2bits n ≤ missingIvalue 16 := by decide +kernel
example : encNumCol 16 ([exNode 300, exNode (-1), exNode 7].map value2bits) = (7, 9, [293, 511, 0]) := by
  decide +kernel
example : WInv (W.new 0) := WInv_new 0
/-- a column of three subsets at a 16-bit numeric position -/
example : ColOK { exNode 0 with val := .none } [exNode 300, exNode (-1), exNode 7] :=
  ⟨by simp, by decide, by decide, by decide, fun _ => by decide +kernel, fun h => by simp [exNode] at h⟩
example : (⟨3, 2, 3⟩ : Range).OK := Or.inr (by decide)
example : compressible [[exNode 1], [exNode 2, exNode 3]] = false := by decide +kernel
example : strDiffers [76, 73, 78, 90] [76, 73, 78, 90, 32, 32] 8 = false ∧ strDiffers [76, 73, 78, 90] [76, 73, 78, 90, 32, 72] 8 = true := by decide

end Bufr.C02
