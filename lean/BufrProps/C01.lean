import BufrProofs.Codec
import BufrProofs.CodecDynamic
import BufrProofs.Bitmap
import BufrProofs.BitmapCompressed
/-
  C01 — Encode then decode returns every value and the subset structure unchanged.

  Property theorems only (helper lemmas: BufrProofs/Codec.lean, BufrProofs/Bits.lean).
  Model: BufrModel/Codec.lean (`encodeData`, `putDescValue`) and BufrModel/Decode.lean
  (`decodeUncompressed`, `decodeSubsetLoop`, `getDescValue`), tied to bufr_dataset.c by the
  `ds.encode` / `ds.decode` correspondence streams (props/c01.py).

  What is proved at full strength: for *static* templates (no delayed replication, no 2 03 — any
  tables, any other operators, any fixed replication, any number of subsets, any values) the
  decoder walks exactly the layout the encoder wrote and reads each value from exactly the bits it
  was written to (`C01_static_roundtrip`, `C01_layout_rederived`, `C01_element`).  What the bits of
  one element decode to, per element kind, is `C01_raw_bits` (and BufrProofs/CodecValues.lean).

  Delayed replication and 2 03: `C01_dynamic_subset` / `C01_dynamic_roundtrip` /
  `C01_dynamic_positions` hold for *every* template.  Their hypothesis is a bit-free, computable walk
  (`walk`, `walkAll` in BufrProofs/CodecDynamic.lean) that makes the decoder's structural decisions
  (Table C application, expansion at each factor, the Section 4 size guard, the 2 03 state) from the
  encoder's nodes: whenever it goes through, the real decoder fed the encoder's bits follows it, reads
  every data-bearing position from exactly the bits its value was written to, and flags nothing.
  That the walk goes through for every dataset the API can build is *not* proved (it is the statement
  that `bufr_expand_datasubset` and the decoder's expansion produce the same lists); it is evaluated
  by `decide +kernel` on the instance below (nested delayed replication, a zero count, 2 03) and
  tied by the correspondence streams and the oracle.
-/
namespace Bufr.C01
open Bufr

/-- **C01, static templates.**  `bsq` is the decoder's template copy, `ss` the subsets to encode
(one node list per subset, position for position the same layout: `pairsb`).  Decoding the
uncompressed encoding gives back `ss.length` subsets, each the list `bsq` with every data-bearing
position `n` holding `readBack n m` — the value read from exactly the bits `m`'s value was written to —
and the dataset is not flagged invalid. -/
theorem C01_static_roundtrip (T : Tables) (edition : Nat) (enforce : Enforce) (fuel s4max : Nat)
    (bsq : List Node) (nbitsSeq : Int) (ss : List (List Node)) (dataFlag : Nat)
    (hfuel : bsq.length < fuel) (hok : staticOK T edition { enforce := enforce } bsq = true)
    (hp : ∀ ms ∈ ss, pairsb bsq ms = true) :
    ∃ st', decodeUncompressed T edition enforce fuel s4max bsq nbitsSeq true 0 0 ss.length 0
        { r := R.ofBytes (padSection4 edition (encodeData ss dataFlag 0).2).bytes, invalid := false } [] =
        .ok (st', ss.map (fun ms => mkvalAll (List.zipWith readBack' bsq ms))) ∧ st'.invalid = false :=
  encode_decode_static T edition enforce fuel s4max bsq nbitsSeq ss dataFlag hfuel hok
    (fun ms h => pairs_of_b bsq ms (hp ms h))

/-- same number of subsets, same number of positions in each -/
theorem C01_structure (bsq : List Node) (ss : List (List Node)) (hp : ∀ ms ∈ ss, pairsb bsq ms = true) :
    (ss.map (fun ms => mkvalAll (List.zipWith readBack' bsq ms))).length = ss.length ∧
    ∀ s ∈ ss.map (fun ms => mkvalAll (List.zipWith readBack' bsq ms)), s.length = bsq.length := by
  refine ⟨by simp, ?_⟩
  intro s hs
  obtain ⟨ms, hms, rfl⟩ := List.mem_map.mp hs
  have := forall2_length (pairs_of_b bsq ms (hp ms hms))
  simp [mkvalAll, this]

/-- **the decoder re-derives the encoder's layout**: the decoder's template copy is, node by node,
a fixed point of a second pass of Table C application (the pass the decode loop makes), as soon as
the template raises no operator error and holds no 2 03 definition and no delayed replication -/
theorem C01_layout_rederived (T : Tables) (edition : Nat) (ddo : DDO) (ns : List Node)
    (h : plainOK T edition ddo (applyTablesAll T edition ddo ns).1 = true) :
    staticOK T edition ddo (applyTablesAll T edition ddo ns).1 = true :=
  staticOK_of_applied T edition ns ddo h

/-- **one element**: whatever the encoder node `m` holds, a decoder node of the same layout reads
`readBack n m` from its bits and leaves the cursor at the next element -/
theorem C01_element (r : R) (hI : RInv r) (n m : Node) (rest : List Bool) (hl : SameLayout n m)
    (hns : m.flags.skipped = false) (hw : widthOK m) (hb : r.bits = nodeBits m ++ rest) :
    ∃ r', getDescValue r n = some (r', readBack n m) ∧ r'.bits = rest ∧ RInv r' :=
  getDescValue_view r hI n m rest hl hns hw.1 hw.2 hb

/-- code and flag tables, and integers without scale or reference: the decoded raw bits are the
encoder's raw bits whenever those fit the width (they do for every value below the all-ones
pattern); character data come back as the blank-padded octets that were written -/
theorem C01_raw_bits (n m : Node) (h : (mkvalNode n).enc.afNbits = 0 ∨ (mkvalNode n).afW = 0)
    (ht : (mkvalNode n).enc.type = .codetable ∨ (mkvalNode n).enc.type = .flagtable ∨
          (mkvalNode n).enc.type = .numeric ∨ (mkvalNode n).enc.type = .chngRef) :
    (readBack n m).val = valueOfBits (mkvalNode n) (mkvalNode n).val
      (valueBits m % 2^(mkvalNode n).enc.nbits.toNat) := by
  unfold readBack
  have hno : ¬ ((mkvalNode n).enc.afNbits > 0 ∧ (mkvalNode n).afW > 0) := by omega
  simp only [hno, if_false]
  rcases ht with h | h | h | h <;> simp [h]

/-- **C01, any template, one subset.**  `walk` makes the decisions of the decode loop from the
encoder's nodes `ms` alone.  If it reaches the end, the decoder — started anywhere (`done`, `todo`,
operator state `ddo`) on the bits the encoder wrote for `ms` — returns the very list the walk
computed, reports the subset complete, leaves the dataset's flag as it was and stops on the first bit
after the subset. -/
theorem C01_dynamic_subset (T : Tables) (edition s4max fuel : Nat) (ddo : DDO) (st : DecSt)
    (done todo ms out : List Node) (rest : List Bool)
    (h : walk T edition s4max st.s4len fuel ddo done todo ms = some out)
    (hI : RInv st.r) (hb : st.r.bits = ms.flatMap nodeBits ++ rest) :
    ∃ r', decodeSubsetLoop T edition s4max fuel ddo st done todo = .ok ({ st with r := r' }, out, .complete) ∧
      r'.bits = rest ∧ RInv r' :=
  decodeSubsetLoop_walk T edition s4max fuel ddo st done todo ms out rest h hI hb

/-- **C01, any template, whole message.**  Decoding the uncompressed encoding of the subsets `ss`
returns the subsets the walk computed — as many as were encoded — and the dataset is not flagged
invalid. -/
theorem C01_dynamic_roundtrip (T : Tables) (edition : Nat) (enforce : Enforce) (fuel s4max : Nat)
    (bsq : List Node) (nbitsSeq : Int) (lenConst : Bool) (ss outs : List (List Node)) (dataFlag : Nat)
    (h : walkAll T edition enforce s4max fuel bsq lenConst nbitsSeq 0 ss = some outs) :
    ∃ st', decodeUncompressed T edition enforce fuel s4max bsq nbitsSeq lenConst 0 0 ss.length 0
        { r := R.ofBytes (padSection4 edition (encodeData ss dataFlag 0).2).bytes, invalid := false } [] =
        .ok (st', outs) ∧ st'.invalid = false :=
  encode_decode_walk T edition enforce fuel s4max bsq nbitsSeq lenConst ss outs dataFlag h

/-- **what each decoded position holds**: the walk's result is the nodes already done followed by one
node per encoder node, each the decoder's own node (descriptor and encoding as Table C application
derived them) with the value `readBack'` reads from the bits of the facing encoder node.  The one
exception is the library's: a replication factor that arrives without a usable value (missing) is
given the value 0 by the expansion. -/
theorem C01_dynamic_positions (T : Tables) (edition s4max : Nat) (s4len : Int) (fuel : Nat) (ddo : DDO)
    (done todo ms out : List Node) (h : walk T edition s4max s4len fuel ddo done todo ms = some out) :
    ∃ tail, out = done.reverse ++ tail ∧ List.Forall₂ Reads tail ms :=
  walk_reads T edition s4max s4len fuel ddo done todo ms out h

/-- **the decoder the correspondence runs (`decodeDataB`: `bufr_decode_message_subsets` with the data
present bit-map head of `bufr_apply_tables2node`) is the decoder the theorems above are about
(`decodeData`)**, for uncompressed and compressed data, whenever neither the template nor any
Table D sequence holds a 2 36 YYY operator or a class 33 element (`QuietTables`; the closure of such
node lists under template expansion and under the decoder's on-the-fly expansion of delayed
replications is proved, `quiet_ok`, `qclosed_of_quietTables`; the compressed lock-step loop keeps
an invariant over all subset copies, `decodeCompressedLoopB_quiet`) — i.e. on every template of
this property's quantifier. -/
theorem C01_bitmap_head_inert (T : Tables) (hT : QuietTables T) (fuel : Nat) (t : Template)
    (ht : ∀ n ∈ t.gabarit, quietNode n = true) (enforce : Enforce) (nsub : Nat) (compressed : Bool)
    (s4max : Nat) (data : List Nat) (from0 to0 : Int) :
    decodeDataB T fuel t enforce nsub compressed s4max data from0 to0 =
      decodeData T fuel t enforce nsub compressed s4max data from0 to0 :=
  decodeDataB_quiet T fuel t enforce nsub compressed s4max data from0 to0 (qclosed_of_quietTables T hT)
    (fun bsq0 h => expandSequence_quiet T hT fuel _ t.gabarit bsq0 ht h)

/-- the dataset-building side: `bufr_create_datasubset` / `bufr_expand_datasubset` with the bit-map
head (what the correspondence runs) are the functions the theorems are about, under the same
condition -/
theorem C01_bitmap_head_inert_build (T : Tables) (hT : QuietTables T) (fuel : Nat) (t : Template)
    (ht : ∀ n ∈ t.gabarit, quietNode n = true) :
    createDatasubsetB T fuel t = createDatasubset T fuel t ∧
    (∀ s : Subset, (∀ n ∈ s.nodes, quietNode n = true) → expandDatasubsetB T fuel t s = expandDatasubset T fuel t s) :=
  ⟨createDatasubsetB_quiet T hT fuel t ht, fun s hs => expandDatasubsetB_quiet T hT fuel t s hs⟩

/-- the subset loop itself, for any template: while no bit-map operator is met the loop with the
bit-map head *is* the plain loop -/
theorem C01_subset_loop_head_inert (T : Tables) (edition s4max : Nat) (hT : QClosed T)
    (fuel : Nat) (ddo : DDO) (st : DecSt) (done todo : List Node)
    (hd : quietDDO ddo) (hq : ∀ x ∈ todo, quietNode x = true) :
    decodeSubsetLoopB T edition s4max fuel ddo {} st done todo =
      liftB (decodeSubsetLoop T edition s4max fuel ddo st done todo) :=
  decodeSubsetLoopB_quiet T edition s4max hT fuel ddo st done todo hd hq

/-! ### Non-vacuity -/

def exT : Tables :=
  { fetchB := fun d =>
      if d = 7002 then some { desc := 7002, scale := -1, ref := -40, nbits := 16, typ := .numeric }
      else if d = 12101 then some { desc := 12101, scale := 2, ref := 0, nbits := 16, typ := .numeric }
      else if d = 1015 then some { desc := 1015, scale := 0, ref := 0, nbits := 160, typ := .ccitt }
      else if d = 20003 then some { desc := 20003, scale := 0, ref := 0, nbits := 9, typ := .codetable }
      else if d = 31021 then some { desc := 31021, scale := 0, ref := 0, nbits := 6, typ := .codetable }
      else none,
    fetchD := fun _ => none }

/-- 2 07 on a negative reference, 2 01 with 2 02, a 7-bit associated field over numeric, character
and code elements, 2 08 -/
def exSeq : List Nat :=
  [207002, 7002, 207000, 201130, 202129, 12101, 202000, 201000, 204007, 31021, 12101, 1015, 20003, 204000,
   208003, 1015, 208000, 7002]

def exBsq : List Node := (applyTablesAll exT 4 { enforce := .strict } (exSeq.map (mkNode exT))).1

/-- a subset: every data position given a value of its own type -/
def exFill (k : Int) (n : Node) : Node :=
  let m := mkvalNode n
  match m.val with
  | .i32 _ => { m with val := .i32 k, afBits := 5 }
  | .i64 _ => { m with val := .i64 k, afBits := 5 }
  | .f64 _ => { m with val := .f64 (.fin k), afBits := 5 }
  | .str bs => { m with val := .str (bs.map fun _ => 65), afBits := 5 }
  | _ => m

example : staticOK exT 4 { enforce := .strict } exBsq = true := by decide +kernel
example : plainOK exT 4 { enforce := .strict } exBsq = true := by decide +kernel
example : pairsb exBsq (exBsq.map (exFill 3)) = true ∧ pairsb exBsq (exBsq.map (exFill 17)) = true := by
  decide +kernel
example : exBsq.length < 100 := by decide +kernel

/-! #### a template with nested delayed replication, a zero count and a 2 03 redefinition -/

def dT : Tables :=
  { fetchB := fun d =>
      if d = 7002 then some { desc := 7002, scale := -1, ref := -40, nbits := 16, typ := .numeric }
      else if d = 12101 then some { desc := 12101, scale := 2, ref := 0, nbits := 16, typ := .numeric }
      else if d = 1015 then some { desc := 1015, scale := 0, ref := 0, nbits := 160, typ := .ccitt }
      else if d = 20003 then some { desc := 20003, scale := 0, ref := 0, nbits := 9, typ := .codetable }
      else if d = 31001 then some { desc := 31001, scale := 0, ref := 0, nbits := 8, typ := .numeric }
      else if d = 31002 then some { desc := 31002, scale := 0, ref := 0, nbits := 16, typ := .numeric }
      else none,
    fetchD := fun _ => none }

/-- 1 04 000 over (0 12 101, 1 01 000 0 31 002 0 20 003); then 2 03 010 … 2 03 255 redefining 0 12 101 -/
def dSeq : List Nat := [7002, 104000, 31001, 12101, 101000, 31002, 20003, 203010, 12101, 203255, 12101, 203000, 1015]

def dFuel : Nat := 300
def dTmpl : Option Template := match createTemplate dT dFuel 4 dSeq with | .ok t => some t | _ => none

/-- set the factors not yet used for an expansion, in order (what an application does between
`bufr_create_datasubset` and `bufr_expand_datasubset`) -/
def setFactors (vs : List Nat) (ns : List Node) : List Node :=
  (ns.foldl (fun (acc : List Node × Nat) (n : Node) =>
    if isClass31Factor n.desc && n.flags.class31 && !n.expanded && !n.skipped && n.hasVal then
      (acc.1 ++ [{ n with val := n.val.setInt32 (vs.getD (acc.2 % vs.length) 0) }], acc.2 + 1)
    else (acc.1 ++ [n], acc.2)) ([], 0)).1

def dFill (k : Int) (n : Node) : Node :=
  if n.flags.class31 || n.flags.skipped then n else
  match n.val with
  | .i32 _ => { n with val := .i32 k }
  | .i64 _ => { n with val := .i64 k }
  | .f64 _ => { n with val := .f64 (.fin (10 * k)) }
  | .str bs => { n with val := .str (bs.map fun _ => 65) }
  | _ => n

/-- the subset as the library's own calls build it: create, set the outer factor, expand, set the
inner factors, expand, fill, settle the new reference values (first step of the encoder) -/
def dSubset (outer : Nat) (inner : List Nat) (k : Int) : Option (List Node) :=
  match dTmpl with
  | none => none
  | some t =>
    match createDatasubset dT dFuel t with
    | .ok (s0, false) =>
      match expandDatasubset dT dFuel t { nodes := setFactors [outer] s0.nodes } with
      | .ok (s1, false) =>
        match expandDatasubset dT dFuel t { nodes := setFactors inner s1.nodes } with
        | .ok (s2, false) => some (settleNewRefs dT 4 (s2.nodes.map (dFill k))).1
        | _ => none
      | _ => none
    | _ => none

/-- the decoder's template copy, as `decodeData` derives it -/
def dBsq : Option (List Node) :=
  match dTmpl with
  | none => none
  | some t =>
    match expandSequence dT dFuel (OP_EXPAND_DELAY_REPL ||| OP_ZDRC_SKIP) t.gabarit with
    | .ok b => some (applyTablesAll dT 4 { enforce := .strict } b).1
    | _ => none

/-- a value as plain numbers (the kernel compares these directly) -/
def valKey : Val → Nat × List Int × List Nat
  | .none => (0, [], [])
  | .i32 v => (1, [v], [])
  | .i64 v => (2, [v], [])
  | .f32 (.fin q) => (3, [q.num, q.den], [])
  | .f32 .nan => (3, [], [0])
  | .f32 (.inf true) => (3, [], [2])
  | .f32 (.inf false) => (3, [], [1])
  | .f64 (.fin q) => (4, [q.num, q.den], [])
  | .f64 .nan => (4, [], [0])
  | .f64 (.inf true) => (4, [], [2])
  | .f64 (.inf false) => (4, [], [1])
  | .str bs => (5, [], bs)

theorem valKey_inj (a b : Val) (h : valKey a = valKey b) : a = b := by
  rcases a with _ | v | v | (q | _ | (_ | _)) | (q | _ | (_ | _)) | bs <;>
  rcases b with _ | v' | v' | (q' | _ | (_ | _)) | (q' | _ | (_ | _)) | bs' <;>
  simp [valKey] at h ⊢ <;>
  first
    | exact h
    | exact Rat.ext h.1 (by exact_mod_cast h.2)

/-- three subsets of different shapes (outer count 2 with inner counts 3 and 0; outer count 0; outer
count 1 with inner count 2): the walk goes through, and every position comes back with the descriptor
and the value that were encoded -/
def dCheck : Bool :=
  match dBsq, dSubset 2 [3, 0] 7, dSubset 0 [] 9, dSubset 1 [2] 11 with
  | some b, some s1, some s2, some s3 =>
    ((walkAll dT 4 .strict 1000 dFuel b true 0 0 [s1, s2, s3]).map
        (fun (o : List (List Node)) => o.map (fun (s : List Node) => s.map (fun (n : Node) => (n.desc, valKey n.val)))) ==
      some ([s1, s2, s3].map (fun (s : List Node) => s.map (fun (n : Node) => (n.desc, valKey n.val))))) &&
    decide (s1.length = 19 ∧ s2.length = 13 ∧ s3.length = 14)
  | _, _, _, _ => false

example : dCheck = true := by decide +kernel

end Bufr.C01
