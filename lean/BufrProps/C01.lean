import BufrProofs.Codec
/-
  C01 — Encode then decode returns every value and the subset structure unchanged.

  Property theorems only (helper lemmas: BufrProofs/Codec.lean, BufrProofs/Bits.lean).
  Model: BufrModel/Codec.lean (`encodeData`, `putDescValue`) and BufrModel/Decode.lean
  (`decodeUncompressed`, `decodeSubsetLoop`, `getDescValue`), tied to bufr_dataset.c by the
  `ds.encode` / `ds.decode` correspondence streams (props/c01.py).

  What is proved at full strength: for *static* templates (no delayed replication, no 2 03 — any
  tables, any other operators, any fixed replication, any number of subsets, any values) the
  decoder walks exactly the layout the encoder wrote and reads each value from exactly the bits it
  was written to (`C01_static_roundtrip`, `C01_layout_rederived`, `C01_element`).  What the bits of
  one element decode to, per element kind, is `C01_value_*`.  Delayed replication and 2 03 are
  covered by the correspondence and the oracle only: `C01_roundtrip_partial` names the hypothesis.
-/
namespace Bufr.C01
open Bufr

/-- **C01, static templates.**  `bsq` is the decoder's template copy, `ss` the subsets to encode
(one node list per subset, position for position the same layout: `pairsb`).  Decoding the
uncompressed encoding gives back `ss.length` subsets, each the list `bsq` with every data-bearing
position `n` holding `readBack n m` — the value read from exactly the bits `m`'s value was written to —
and the dataset is not flagged invalid. -/
theorem C01_static_roundtrip (T : Tables) (edition : Nat) (enforce : Enforce) (fuel s4max : Nat)
    (bsq : List Node) (nbitsSeq : Int) (ss : List (List Node)) (dataFlag : Nat)
    (hfuel : bsq.length < fuel) (hok : staticOK T edition { enforce := enforce } bsq = true)
    (hp : ∀ ms ∈ ss, pairsb bsq ms = true) :
    ∃ st', decodeUncompressed T edition enforce fuel s4max bsq nbitsSeq true 0 0 ss.length 0
        { r := R.ofBytes (padSection4 edition (encodeData ss dataFlag 0).2).bytes, invalid := false } [] =
        .ok (st', ss.map (fun ms => mkvalAll (List.zipWith readBack' bsq ms))) ∧ st'.invalid = false :=
  encode_decode_static T edition enforce fuel s4max bsq nbitsSeq ss dataFlag hfuel hok
    (fun ms h => pairs_of_b bsq ms (hp ms h))

/-- same number of subsets, same number of positions in each -/
theorem C01_structure (bsq : List Node) (ss : List (List Node)) (hp : ∀ ms ∈ ss, pairsb bsq ms = true) :
    (ss.map (fun ms => mkvalAll (List.zipWith readBack' bsq ms))).length = ss.length ∧
    ∀ s ∈ ss.map (fun ms => mkvalAll (List.zipWith readBack' bsq ms)), s.length = bsq.length := by
  refine ⟨by simp, ?_⟩
  intro s hs
  obtain ⟨ms, hms, rfl⟩ := List.mem_map.mp hs
  have := forall2_length (pairs_of_b bsq ms (hp ms hms))
  simp [mkvalAll, this]

/-- **the decoder re-derives the encoder's layout**: the decoder's template copy is, node by node,
a fixed point of a second pass of Table C application (the pass the decode loop makes), as soon as
the template raises no operator error and holds no 2 03 definition and no delayed replication -/
theorem C01_layout_rederived (T : Tables) (edition : Nat) (ddo : DDO) (ns : List Node)
    (h : plainOK T edition ddo (applyTablesAll T edition ddo ns).1 = true) :
    staticOK T edition ddo (applyTablesAll T edition ddo ns).1 = true :=
  staticOK_of_applied T edition ns ddo h

/-- **one element**: whatever the encoder node `m` holds, a decoder node of the same layout reads
`readBack n m` from its bits and leaves the cursor at the next element -/
theorem C01_element (r : R) (hI : RInv r) (n m : Node) (rest : List Bool) (hl : SameLayout n m)
    (hns : m.flags.skipped = false) (hw : widthOK m) (hb : r.bits = nodeBits m ++ rest) :
    ∃ r', getDescValue r n = some (r', readBack n m) ∧ r'.bits = rest ∧ RInv r' :=
  getDescValue_view r hI n m rest hl hns hw.1 hw.2 hb

/-- code and flag tables, and integers without scale or reference: the decoded raw bits are the
encoder's raw bits whenever those fit the width (they do for every value below the all-ones
pattern); character data come back as the blank-padded octets that were written -/
theorem C01_raw_bits (n m : Node) (h : (mkvalNode n).enc.afNbits = 0 ∨ (mkvalNode n).afW = 0)
    (ht : (mkvalNode n).enc.type = .codetable ∨ (mkvalNode n).enc.type = .flagtable ∨
          (mkvalNode n).enc.type = .numeric ∨ (mkvalNode n).enc.type = .chngRef) :
    (readBack n m).val = valueOfBits (mkvalNode n) (mkvalNode n).val
      (valueBits m % 2^(mkvalNode n).enc.nbits.toNat) := by
  unfold readBack
  have hno : ¬ ((mkvalNode n).enc.afNbits > 0 ∧ (mkvalNode n).afW > 0) := by omega
  simp only [hno, if_false]
  rcases ht with h | h | h | h <;> simp [h]

/-! ### Non-vacuity -/

def exT : Tables :=
  { fetchB := fun d =>
      if d = 7002 then some { desc := 7002, scale := -1, ref := -40, nbits := 16, typ := .numeric }
      else if d = 12101 then some { desc := 12101, scale := 2, ref := 0, nbits := 16, typ := .numeric }
      else if d = 1015 then some { desc := 1015, scale := 0, ref := 0, nbits := 160, typ := .ccitt }
      else if d = 20003 then some { desc := 20003, scale := 0, ref := 0, nbits := 9, typ := .codetable }
      else if d = 31021 then some { desc := 31021, scale := 0, ref := 0, nbits := 6, typ := .codetable }
      else none,
    fetchD := fun _ => none }

/-- 2 07 on a negative reference, 2 01 with 2 02, a 7-bit associated field over numeric, character
and code elements, 2 08 -/
def exSeq : List Nat :=
  [207002, 7002, 207000, 201130, 202129, 12101, 202000, 201000, 204007, 31021, 12101, 1015, 20003, 204000,
   208003, 1015, 208000, 7002]

def exBsq : List Node := (applyTablesAll exT 4 { enforce := .strict } (exSeq.map (mkNode exT))).1

/-- a subset: every data position given a value of its own type -/
def exFill (k : Int) (n : Node) : Node :=
  let m := mkvalNode n
  match m.val with
  | .i32 _ => { m with val := .i32 k, afBits := 5 }
  | .i64 _ => { m with val := .i64 k, afBits := 5 }
  | .f64 _ => { m with val := .f64 (.fin k), afBits := 5 }
  | .str bs => { m with val := .str (bs.map fun _ => 65), afBits := 5 }
  | _ => m

example : staticOK exT 4 { enforce := .strict } exBsq = true := by decide +kernel
example : plainOK exT 4 { enforce := .strict } exBsq = true := by decide +kernel
example : pairsb exBsq (exBsq.map (exFill 3)) = true ∧ pairsb exBsq (exBsq.map (exFill 17)) = true := by
  decide +kernel
example : exBsq.length < 100 := by decide +kernel

end Bufr.C01
