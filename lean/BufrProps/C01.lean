import BufrModel.Decode
namespace Bufr.C01
open Bufr
/-- placeholder while the round-trip theorem is written -/
theorem C01_compressible_needs_two (s : List Node) : compressible [s] = false := rfl
end Bufr.C01
