import BufrProofs.RefCodec
import BufrProofs.Bitmap
import BufrSpec.RefEncode
/-
  C04 — The decoder accepts every well-formed FM 94 message and returns the encoded values.

  Property theorems only (helper lemmas: BufrProofs/Codec.lean, RefCodec.lean).  Model:
  BufrModel/Decode.lean; inputs the library never produces itself come from the reference encoder
  BufrSpec/RefEncode.lean (`spec.reencode`, props/c04.py), each checked against the reference decoder.

  Proved at full strength, for *every* bit string of the stated form (not only the library's own
  output): a compressed numeric column with ANY local reference value and ANY increment width from 1
  up to the element width — in particular non-minimal widths — decodes to `R0 + increment`, all ones
  meaning missing; a constant column decodes to R0 whatever R0 is; a request for subsets `from..to`
  returns exactly that slice and the cursor ends after the column; one uncompressed element is read
  from exactly its bits; and on all these inputs the library's column reader and the reference
  decoder agree.  The walk over a whole template is `C01_static_roundtrip` (static templates);
  message-level freedoms (Section 2, headers, odd lengths) are C06's theorems.
-/
namespace Bufr.C04
open Bufr Bufr.Spec

/-- **constant column**, arbitrary local reference value -/
theorem C04_const_column (r : R) (cb : Node) (col : List Node) (g : Range) (r0 : Nat)
    (rest : List Bool) (hI : RInv r) (hnb : 1 ≤ cb.enc.nbits ∧ cb.enc.nbits ≤ 64)
    (hb : r.bits = bitsMSB cb.enc.nbits.toNat r0 ++ bitsMSB 6 0 ++ rest) :
    ∃ r', getNumericCompressed r (cb :: col) g =
        some (r', (cb :: col).map (fun n => setBitsValue n (r0 % 2^cb.enc.nbits.toNat))) ∧
      r'.bits = rest ∧ RInv r' :=
  getNumericCompressed_const r cb col g r0 rest hI hnb hb

/-- **listed column**, arbitrary local reference value, arbitrary (also non-minimal) increment
width `1 ≤ NBINC ≤ element width`, any slice request -/
theorem C04_listed_column (r : R) (cb : Node) (col : List Node) (g : Range) (r0 k : Nat)
    (incs : List Nat) (rest : List Bool) (hI : RInv r) (hnb : 1 ≤ cb.enc.nbits ∧ cb.enc.nbits ≤ 64)
    (hk0 : 0 < k) (hk : (k : Int) ≤ cb.enc.nbits) (hk63 : k < 64) (hg : g.OK) (hlen : incs.length = g.nsub)
    (hb : r.bits = bitsMSB cb.enc.nbits.toNat r0 ++ bitsMSB 6 k ++ incs.flatMap (bitsMSB k) ++ rest) :
    ∃ r', getNumericCompressed r (cb :: col) g =
        some (r', zipWithNodes (fun n v => setBitsValue n
                    (if v = missingIvalue k then missingIvalue cb.enc.nbits else v + r0 % 2^cb.enc.nbits.toNat))
                  (cb :: col) ((g.slice incs).map (· % 2^k))) ∧
      r'.bits = rest ∧ RInv r' :=
  getNumericCompressed_listed r cb col g r0 k incs rest hI hnb hk0 hk hk63 hg hlen hb

/-- the reference decoder on the same bits (whole dataset): the same values, `R0 + increment` or
all ones — so on every well-formed column the library and the regulation agree -/
theorem C04_listed_column_spec (w k r0 : Nat) (incs : List Nat) (rest : List Bool)
    (hk0 : 0 < k) (hk : k < 64) (hr0 : r0 < 2^w)
    (hfit : ∀ i ∈ incs, i % 2^k ≠ allOnes k → r0 + i % 2^k ≤ allOnes w) :
    readColumn w incs.length (bitsMSB w r0 ++ bitsMSB 6 k ++ incs.flatMap (bitsMSB k) ++ rest) =
      some (incs.map (fun i => if i % 2^k = allOnes k then allOnes w else r0 + i % 2^k), rest) := by
  rw [List.append_assoc, List.append_assoc]
  unfold readColumn
  have hk6 : k % 2^6 = k := Nat.mod_eq_of_lt (by omega)
  simp only [takeBits_view, Nat.mod_eq_of_lt hr0, hk6, Option.bind_eq_bind, Option.bind_some, bind, pure]
  rw [if_neg (by omega)]
  simp only [takeIncs_view, Option.bind_some, List.map_map]
  have hall : ((incs.map ((fun i => if i = allOnes k then allOnes w else r0 + i) ∘ (· % 2^k))).all
      fun x => decide (x ≤ allOnes w)) = true := by
    rw [List.all_eq_true]
    intro v hv
    obtain ⟨i, hi, rfl⟩ := List.mem_map.mp hv
    simp only [Function.comp, decide_eq_true_eq]
    by_cases h : i % 2^k = allOnes k
    · simp [h]
    · simp only [h, if_false]; exact hfit i hi h
  rw [if_pos hall]
  rfl

/-- **one uncompressed element** -/
theorem C04_element (r : R) (hI : RInv r) (n m : Node) (rest : List Bool) (hl : SameLayout n m)
    (hns : m.flags.skipped = false) (hw : widthOK m) (hb : r.bits = nodeBits m ++ rest) :
    ∃ r', getDescValue r n = some (r', readBack n m) ∧ r'.bits = rest ∧ RInv r' :=
  getDescValue_view r hI n m rest hl hns hw.1 hw.2 hb


/-- **listed character column**: ANY reference string, strings of `NBINC` octets each -/
theorem C04_character_column_listed (r : R) (cb : Node) (col : List Node) (g : Range) (r0 : List Nat) (k : Nat)
    (strs : List (List Nat)) (rest : List Bool) (hI : RInv r)
    (hlen : r0.length = (cb.enc.nbits / 8).toNat) (hpos : 0 < r0.length)
    (hk0 : 0 < k) (hk : k < 64) (hk63 : k = 63 → cb.enc.nbits = 63 * 8)
    (hfull : g.from_ ≤ 0) (hn : strs.length = g.nsub) (hsl : ∀ s ∈ strs, s.length = k)
    (hb : r.bits = r0.flatMap (bitsMSB 8) ++ bitsMSB 6 k ++ strs.flatMap (fun s => s.flatMap (bitsMSB 8)) ++ rest) :
    ∃ r', getCcittCompressed r (cb :: col) g =
        some (r', zipWithStrs (fun n s => { mkvalNode n with
          val := (mkvalNode n).val.setString (some s) ((mkvalNode n).enc.nbits / 8).toNat })
          (cb :: col) (strs.map (fun s => s.map (· % 256)))) ∧
      r'.bits = rest ∧ RInv r' :=
  getCcittCompressed_listed r cb col g r0 k strs rest hI hlen hpos hk0 hk hk63 hfull hn hsl hb

/-- **constant character column** -/
theorem C04_character_column_const (r : R) (cb : Node) (col : List Node) (g : Range) (cs : List Nat)
    (rest : List Bool) (hI : RInv r) (hlen : cs.length = (cb.enc.nbits / 8).toNat) (hpos : 0 < cs.length)
    (hb : r.bits = cs.flatMap (bitsMSB 8) ++ bitsMSB 6 0 ++ rest) :
    ∃ r', getCcittCompressed r (cb :: col) g =
        some (r', (cb :: col).map (fun n => { mkvalNode n with
          val := (mkvalNode cb).val.setString (some (cs.map (· % 256))) (cb.enc.nbits / 8).toNat })) ∧
      r'.bits = rest ∧ RInv r' :=
  getCcittCompressed_const r cb col g cs rest hI hlen hpos hb

/-- **associated-field column**, any local reference value and increment width -/
theorem C04_af_column_listed (r : R) (cb : Node) (col : List Node) (g : Range) (r0 k : Nat) (incs : List Nat)
    (rest : List Bool) (hI : RInv r) (haf : cb.enc.afNbits ≠ 0) (hw : 1 ≤ (mkvalNode cb).afW ∧ (mkvalNode cb).afW ≤ 64)
    (hk0 : 0 < k) (hk : k < 64) (hfull : g.from_ ≤ 0) (hn : incs.length = g.nsub)
    (hb : r.bits = bitsMSB (mkvalNode cb).afW r0 ++ bitsMSB 6 k ++ incs.flatMap (bitsMSB k) ++ rest) :
    ∃ r', getAfCompressed r (cb :: col) g =
        some (r', zipWithNodes (fun n v => { mkvalNode n with afBits := v + r0 % 2^(mkvalNode cb).afW })
          (cb :: col) (incs.map (· % 2^k))) ∧
      r'.bits = rest ∧ RInv r' :=
  getAfCompressed_listed r cb col g r0 k incs rest hI haf hw hk0 hk hfull hn hb

/-- **data present bit-map: what a marker operator stands for.**  With the bit-map evaluated over
the sequence `bsq0` — `dataPositions bsq0` the data elements in front of the first operator that
opens a bit-map section (2 22/2 23/2 24/2 25/2 32 000), `zeroBits` the positions of the bits that
say "present" among the first `|dataPositions|` 0 31 031 values behind it (`initDpbm_eval`: this
is what `bufr_init_dpbm` leaves in `dp[]`) — the `k+1`-th replica of a marker operator
(2 23 255, 2 24 255, 2 25 255, 2 32 255) is decoded with the type, width, scale, reference value
and associated-field width of the `k+1`-th element flagged present, into a value of that element's
type; the operator state is left alone.  FM 94 lets a bit-map refer to the N elements *preceding*
the operator with N smaller than their number; the library only supports bit-maps over all of them
(it warns otherwise) and the statement is about exactly that reading. -/
theorem C04_marker_refers (bsq0 : List Node) (bsq : Unit → List Node) (ddo : DDO) (r : Int) (d : DPBM) (n : Node) (k pos q : Nat) (cbm : Node)
    (hd : d.dp = zeroBits (dataPositions bsq0).length (bitmapNodes bsq0) 0 ∧ d.index = dataPositions bsq0)
    (hm : isMarkerDpbm n.desc = true) (hk : n.replRank = k + 1)
    (hz : (zeroBits (dataPositions bsq0).length (bitmapNodes bsq0) 0)[k]? = some pos)
    (hq1 : (dataPositions bsq0)[pos]? = some (q + 1)) (hq2 : (bsq ())[q]? = some cbm) :
    bmPre bsq ddo { dpbm := some d, remainDpi := r } n =
      .ret { dpbm := some d, remainDpi := r }
        { n with enc := cbm.enc, val := (markerVal cbm).1, afW := (markerVal cbm).2.1, afBits := (markerVal cbm).2.2 } :=
  marker_refers bsq0 bsq ddo r d n k pos q cbm hd hm hk hz hq1 hq2

/-- the premise of `C04_marker_refers` is what the evaluation of the bit-map produces -/
theorem C04_bitmap_evaluated (bsq0 : List Node) :
    (initDpbm { index := dataPositions bsq0 } bsq0 (startPos bsq0)).dp =
      zeroBits (dataPositions bsq0).length (bitmapNodes bsq0) 0 ∧
    (initDpbm { index := dataPositions bsq0 } bsq0 (startPos bsq0)).index = dataPositions bsq0 :=
  initDpbm_eval bsq0

/-- **what the bit-map is about**: the index built by `bufr_index_dpbm` lists, in order, exactly the
data entities in front of the first operator that opens a bit-map section — element descriptors and
2 05 YYY inserts, leaving out replication, sequence and other operator descriptors and whatever a
replication occurring zero times left out (`dataPositionsSpec`, written as the rule reads) -/
theorem C04_bitmap_index (bsq : List Node) : dataPositions bsq = dataPositionsSpec bsq 0 :=
  dataPositions_spec bsq

/-- **which entries are flagged present**: `k` is among the evaluated bits exactly when it is below the
number of data entities and the `k`-th bit-map value is 0; they come out in increasing order, so the
`k`-th marker stands for the `k`-th element flagged present -/
theorem C04_bitmap_bits (nb : Nat) (ns : List Node) (k : Nat) :
    (k ∈ zeroBits nb ns 0 ↔ k < nb ∧ ∃ n, ns[k]? = some n ∧ n.ival = 0) ∧ (zeroBits nb ns 0).Pairwise (· < ·) := by
  refine ⟨?_, zeroBits_sorted nb ns 0⟩
  have := mem_zeroBits nb ns 0 k
  simpa using this

/-- the reference encoder never asks for less than one bit per increment -/
theorem C04_minNbinc_pos (d : Nat) : 1 ≤ minNbinc d := by unfold minNbinc; omega

/-! ### Non-vacuity -/

/-- a 12-bit element, three subsets, R0 = 100 (not the minimum), NBINC = 9 (not minimal), one missing -/
example : readColumn 12 3 (bitsMSB 12 100 ++ bitsMSB 6 9 ++ [5, 511, 300].flatMap (bitsMSB 9) ++ [true]) =
    some ([105, 4095, 400], [true]) := by decide +kernel
example : (⟨3, 0, 0⟩ : Range).OK := Or.inl (by decide)

/-- pressure, (a replication, left out), temperature, 2 24 000, 2 36 000, three bits 0 1 0 … : the data elements
sit at positions 1 and 3, the bits flagged present are the first and the third, so a bit-map of two bits has
positions [0] … here with three elements and bits 0,1,0 -/
def bmExample : List Node :=
  [{ desc := 10004 }, { desc := 12101 }, { desc := 12103 }, { desc := 224000 }, { desc := 236000 },
   { desc := 101003, flags := { expanded := true, skipped := true } },
   { desc := 31031, val := .i32 0 }, { desc := 31031, val := .i32 (-1) }, { desc := 31031, val := .i32 0 },
   { desc := 101002, flags := { expanded := true, skipped := true } },
   { desc := 224255, replRank := 1 }, { desc := 224255, replRank := 2 }]
example : dataPositions bmExample = [1, 2, 3] := by decide
example : zeroBits 3 (bitmapNodes bmExample) 0 = [0, 2] := by decide
-- the second marker stands for the third element (0 12 103)
example : (zeroBits (dataPositions bmExample).length (bitmapNodes bmExample) 0)[1]? = some 2 ∧
    (dataPositions bmExample)[2]? = some (2 + 1) ∧ (bmExample[2]?).map (·.desc) = some 12103 := by decide

end Bufr.C04
