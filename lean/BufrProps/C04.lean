import BufrSpec.RefEncode
namespace Bufr.C04
open Bufr Bufr.Spec
/-- placeholder while the decoder refinement theorems are written -/
theorem C04_minNbinc_pos (d : Nat) : 1 ≤ minNbinc d := by unfold minNbinc; omega
end Bufr.C04
