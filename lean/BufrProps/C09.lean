import BufrModel.Template
import BufrProofs.Ops
/-
  C09 — Table C operators change width, scale, reference and fields exactly as regulated.

  Model: BufrModel/Ops.lean (`BufrDDOp`, `bufr_resolve_tableC_v2..v5`, `bufr_apply_tables2node`).
  Spec:  BufrSpec/Ops.lean (FM 94 Table C as a register file over the expanded sequence).
-/
namespace Bufr.C09
open Bufr Bufr.Spec

/-- **Layouts are the regulated ones.**  For every table set, every edition 2..5 and every
expanded sequence of element and operator descriptors inside the scope of the transcription
(`inScope`: operators 2 01–2 09 that the edition defines, used as FM 94 allows), applying the
library's Table C machinery node by node gives every descriptor exactly the type, data width,
scale, reference value and associated-field width the regulation gives it, and raises no
error.  No bound on the length of the sequence or on operand values. -/
theorem C09_layout (T : Tables) (ed : Nat) (hed : 2 ≤ ed ∧ ed ≤ 5) (ns : List Node)
    (hN : ∀ n ∈ ns, NodeOK n) (hin : inScope T ed {} (ns.map (·.desc)) = true) :
    (applyTablesAll T ed { enforce := .strict } ns).1.map layoutOf = layoutAll T {} (ns.map (·.desc)) ∧
    (applyTablesAll T ed { enforce := .strict } ns).2.2 = false :=
  layout_sim T ed hed ns _ _ sim_init (by simp [listSum]) hN hin

/-- **Class 31 elements are never touched**, whatever operators are in force. -/
theorem C09_class31_untouched (T : Tables) (ed : Nat) (ddo : DDO) (n : Node) (e : EntryB)
    (hf : Desc.f n.desc = 0) (hx : Desc.x n.desc = 31) (hfb : T.fetchB n.desc = some e)
    (hno : ddo.overrides.find? (·.1 = n.desc) = none) (ht : e.typ ≠ .ccitt) :
    (applyTables2node T ed ddo n).2.1.enc = { e.enc with afNbits := 0 } ∧ (applyTables2node T ed ddo n).1 = ddo := by
  have hf2 : ¬ (Desc.f n.desc = 2 ∧ (!n.flags.skipped) = true) := by omega
  unfold applyTables2node
  rw [if_neg hf2]
  unfold applyTail baseEnc
  simp only [hf, hfb, hno, hx, decide_true, Bool.or_true, ne_eq, not_true_eq_false, if_false, reassign]
  rw [applyAF_class31]
  cases h : e.typ with
  | ccitt => exact absurd h ht
  | numeric => simp [applyWidth, EntryB.enc, BType.toDType, h]
  | codetable => simp [applyWidth, EntryB.enc, BType.toDType, h]
  | flagtable => simp [applyWidth, EntryB.enc, BType.toDType, h]

/-- **Edition gate** (strict enforcement, as used for encoding): an operator the edition does
not define marks the dataset invalid instead of being applied silently. -/
theorem C09_edition_gate (ddo : DDO) (y : Nat) (hs : ddo.enforce = .strict) :
    (resolveTableC ddo 7 y 3).rc < 0 ∧ (resolveTableC ddo 8 y 3).rc < 0 ∧
    (resolveTableC ddo 7 y 2).rc < 0 ∧ (resolveTableC ddo 8 y 2).rc < 0 ∧
    (resolveTableC ddo 9 y 4).rc < 0 := by
  simp [resolveTableC, hs, resolveV4, resolveV3, resolveV2]

/-- operators inside a replication that occurs zero times (nodes flagged SKIPPED) change nothing -/
theorem C09_skipped_operator_inert (T : Tables) (ed : Nat) (ddo : DDO) (n : Node)
    (hf : Desc.f n.desc = 2) (hsk : n.flags.skipped = true) :
    (applyTables2node T ed ddo n).1 = ddo := by
  have hf2 : ¬ (Desc.f n.desc = 2 ∧ (!n.flags.skipped) = true) := by simp [hsk]
  unfold applyTables2node
  rw [if_neg hf2]
  unfold applyTail baseEnc
  simp [hf, reassign, applyAF, afApplies, applyWidth]

/-! ### Non-vacuity -/

def exT : Tables :=
  { fetchB := fun d =>
      if d = 7002 then some { desc := 7002, scale := -1, ref := -40, nbits := 16, typ := .numeric }
      else if d = 12101 then some { desc := 12101, scale := 2, ref := 0, nbits := 16, typ := .numeric }
      else if d = 1015 then some { desc := 1015, scale := 0, ref := 0, nbits := 160, typ := .ccitt }
      else if d = 20003 then some { desc := 20003, scale := 0, ref := 0, nbits := 9, typ := .codetable }
      else if d = 31021 then some { desc := 31021, scale := 0, ref := 0, nbits := 6, typ := .codetable }
      else if d = 31001 then some { desc := 31001, scale := 0, ref := 0, nbits := 8, typ := .numeric }
      else none,
    fetchD := fun _ => none }

def exSeq : List Nat :=
  [207002, 7002, 207000, 201130, 202129, 12101, 202000, 201000, 204007, 31021, 12101, 1015, 31001, 20003, 204000,
   208003, 1015, 208000, 206012, 63250, 7002]

/-- the hypotheses of `C09_layout` hold for a sequence exercising 2 07 on a negative reference,
2 01 with 2 02, a 7-bit associated field over numeric/character/code/class 31 elements, 2 08 and
2 06 with an unknown local descriptor -/
example : inScope exT 4 {} exSeq = true := by decide +kernel

/-- and the layout computed by the model for it is the regulated one: reference −40 × 10² = −4000 -/
example : ((applyTablesAll exT 4 { enforce := .strict } (exSeq.map (mkNode exT))).1.map layoutOf)[1]? =
    some { desc := 7002, kind := .num, width := 23, scale := 1, ref := -4000, af := 0 } := by decide +kernel

/-- freshly created descriptor nodes (what a template is made of) satisfy `NodeOK` -/
theorem mkNode_ok (T : Tables) (d : Nat) : NodeOK (mkNode T d) := by
  unfold NodeOK mkNode; split <;> simp

example : ∀ n ∈ exSeq.map (mkNode exT), NodeOK n := by
  intro n hn
  simp only [List.mem_map] at hn
  obtain ⟨d, _, rfl⟩ := hn
  exact mkNode_ok exT d

end Bufr.C09
