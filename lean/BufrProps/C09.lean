import BufrModel.Ops
namespace Bufr.C09
open Bufr
/-- placeholder while the simulation theorem is written: 2 01 YYY adds YYY-128 bits -/
theorem C09_201_operand (ddo : DDO) (y : Nat) (hy : y ≠ 0) :
    (resolveV2 ddo 1 y).ddo.addNbits = (y : Int) - 128 := by
  simp [resolveV2, hy]
end Bufr.C09
