import BufrProofs.LocalTables
import BufrProps.C06
/-
  C20 — Local table update messages round-trip the tables they carry.

  Model: BufrModel/LocalTables.lean (`store`, `extract`, `mergeLocal`, `tablesOf`), tied to
  bufr_local.c by the `lt.*` correspondence streams (props/c20.py).  The model describes the code
  with the five C20 repairs (known_findings.json).

  Chain of the round trip, every link a theorem below:
    writer   `C20_section4`      Section 4 is exactly the items of the table set, in order
    decoder  `C20_refdecode`     the reference decoder (BufrSpec.RefDecode, FM 94) reads Section 4 of
                                 the message written under Section 3 back as these items
    walk     `C20_extract_items` `bufr_extract_tables` over these items gives the table set back,
                                 text fields cut to the element widths and trimmed (`carried`)
    fields   `C20_fields_*`      each printed field is inverted by its parser over its whole range
    whole    `C20_roundtrip_partial`  store → frame → read → reference decode → extract
    tables   `C20_decodes_alike`, `C20_decode_congr`  merged tables answer every lookup alike,
                                 hence the decoder model decodes every message alike
-/
namespace Bufr.C20
open Bufr Bufr.LT Bufr.Tbl Bufr.Frame

/-- **numbers**: `%<w>d` and `%.<w>d` fill their field and `atoi` reads the value back -/
theorem C20_fields_number (w v : Nat) (h : v < 10 ^ w) (hw : 0 < w) (hi : v ≤ 2147483647) :
    (fmtBlank w v).length = w ∧ (fmtZero w v).length = w ∧
    atoi (fmtBlank w v) = v ∧ atoi (fmtZero w v) = v :=
  ⟨fmtBlank_length w v h hw, fmtZero_length w v h hw, atoi_fmtBlank w v h hw hi, atoi_fmtZero w v h hw hi⟩

/-- **sign and magnitude**: scale (−999..999, three digits through `atoi`) and reference (every
`int`, −2147483648 included, ten digits through `atoll`) come back from their sign character
and magnitude field -/
theorem C20_fields_signed (s r : Int) (hs : s.natAbs ≤ 999) (hr1 : -2147483648 ≤ r) (hr2 : r ≤ 2147483647) :
    wrap32 ((if [signChar s].head? = some 45 then (-1 : Int) else 1) * atoi (fmtBlank 3 s.natAbs)) = s ∧
    wrap32 ((if [signChar r].head? = some 45 then (-1 : Int) else 1) * atoll (fmtBlank 10 r.natAbs)) = r :=
  ⟨signed_scale s hs, signed_ref r hr1 hr2⟩

/-- **text**: the two name lines give the first 64 characters without trailing white space, the
unit line the first 24; within these lengths that is the text itself up to trailing white space;
and the data type inferred from the unit is unchanged (for every unit, of any length) -/
theorem C20_fields_text (name unit : Bytes) (hn : NoNul name) (hu : NoNul unit) :
    strim ((splitLines 32 32 name).1 ++ (splitLines 32 32 name).2) = normName name ∧
    strim (splitLines 24 0 unit).1 = normUnit unit ∧
    (name.length ≤ 64 → normName name = rtrim isSpace name) ∧
    (unit.length ≤ 24 → normUnit unit = rtrim isSpace unit) ∧
    unitToType (normUnit unit) = unitToType unit := by
  refine ⟨strim_lines name hn 32 32, strim_line unit hu 24, ?_, ?_, unitToType_normUnit unit⟩
  · intro h; unfold normName; rw [List.take_of_length_le h]
  · intro h; unfold normUnit; rw [List.take_of_length_le h]

/-- **descriptor**: F, X, Y printed as 1, 2 and 3 digits give the descriptor back -/
theorem C20_fields_fxy (d : Nat) (h : d < 1000000) :
    atoi (fmtZero 1 (Desc.f d)) = Desc.f d ∧ atoi (fmtZero 2 (Desc.x d)) = Desc.x d ∧
    atoi (fmtZero 3 (Desc.y d)) = Desc.y d ∧
    wrap32 ((Desc.f d : Int) * 100000 + (Desc.x d : Int) * 1000 + (Desc.y d : Int)) = d :=
  fxy_back d h

/-- **the walk inverts the writer**: `bufr_extract_tables` over the items `bufr_store_tables`
wrote gives every entry back, in order: descriptors, scale, reference, width and member lists
unchanged, names and units as carried (cut to 64/24 characters, trailing white space removed),
the category together with Table B entries -/
theorem C20_extract_items (l : Local) (h : InRange l) :
    extractItems (specItems l) = some (Extracted.ofLocal (carried l)) :=
  extract_specItems l h

/-- **the writer**: Section 4 as `bufr_store_tables` fills it is the items one after the other
(octets for text, 8 or 16 bits for counts), nothing else, for every table set -/
theorem C20_section4 (l : Local) :
    (storeBits stdMeta l).bits = itemsBits (specItems l) ∧ WInv (storeBits stdMeta l) :=
  storeBits_bits l

/-- **the decoder**: under tables that define the class 00 elements as WMO does, the reference
decoder reads the bits written (followed by any padding) under the Section 3 written back as
exactly these items, in the neutral operator state, leaving the padding -/
theorem C20_refdecode (T : Tables) (hT : StdT T) (l : Local) (h : InRange l) (F : Nat)
    (hF : F ≥ l.b.length + l.d.length + 300) (pad : List Bool) :
    Spec.decSeq T F {} (sec3 l.b.length l.d.length) (itemsBits (specItems l) ++ pad) = some (specItems l, {}, pad) :=
  refdecode_store T hT l h F hF pad

/-- Section 3 as written -/
theorem C20_section3 (nb nd : Nat) : sec3 nb nd =
    (if nb > 0 then [103000, 31001, 1, 2, 3, 101000, if nb < 256 then 31001 else 31002, 300004] else []) ++
    (if nd > 0 then (if nd < 256 then [101000 + nd] else [101000, 31002]) ++ [300010] else []) := rfl


/-! ### the whole message -/

theorem bytesBits_bytes (w : W) (hI : WInv w) : ∃ pad, bytesBits w.bytes = w.bits ++ pad := by
  unfold bytesBits W.bytes W.bits
  by_cases h0 : w.bitno = 0
  · exact ⟨[], by simp [h0]⟩
  · refine ⟨(bitsMSB 8 w.curb).drop w.bitno, ?_⟩
    simp only [h0, if_false, List.flatMap_append, List.flatMap_cons, List.flatMap_nil, List.append_nil,
      List.append_assoc, List.take_append_drop]

theorem sec3_descOk (nb nd : Nat) : ∀ d ∈ sec3 nb nd, DescOk d := by
  intro d hd
  rw [C20_section3] at hd
  rcases List.mem_append.mp hd with h | h
  · by_cases h0 : nb > 0
    · simp only [h0, if_true] at h
      by_cases h1 : nb < 256
      · simp only [h1, if_true, List.mem_cons, List.mem_nil_iff, or_false] at h
        rcases h with rfl | rfl | rfl | rfl | rfl | rfl | rfl | rfl <;> decide
      · simp only [h1, if_false, List.mem_cons, List.mem_nil_iff, or_false] at h
        rcases h with rfl | rfl | rfl | rfl | rfl | rfl | rfl | rfl <;> decide
    · simp [h0] at h
  · by_cases h0 : nd > 0
    · simp only [h0, if_true] at h
      by_cases h1 : nd < 256
      · simp only [h1, if_true, List.cons_append, List.nil_append, List.mem_cons, List.mem_nil_iff, or_false] at h
        rcases h with rfl | rfl
        · unfold DescOk; omega
        · decide
      · simp only [h1, if_false, List.cons_append, List.nil_append, List.mem_cons, List.mem_nil_iff, or_false] at h
        rcases h with rfl | rfl | rfl <;> decide
    · simp [h0] at h

/-- the message `bufr_store_tables` hands to the writer is within what framing round-trips (C06) -/
theorem preMsg_inRange (ed : Nat) (l : Local) (hed : ed = 2 ∨ ed = 3 ∨ ed = 4)
    (hsize : (storeMsg stdMeta ed l).lenMsg < 16777216) : FieldsInRange (preMsg stdMeta ed l) := by
  have hI := (storeBits_bits l).2
  have hlen : (storeBits stdMeta l).bytes.length =
      (storeBits stdMeta l).filled + (if (storeBits stdMeta l).bitno > 0 then 1 else 0) := by
    unfold W.bytes W.filled
    by_cases h0 : (storeBits stdMeta l).bitno = 0
    · simp [h0]
    · have : (storeBits stdMeta l).bitno > 0 := by omega
      simp [h0, this]
  unfold FieldsInRange
  refine ⟨?_, ?_, ?_, ?_, ?_, ?_, ?_, ?_, ?_⟩
  · rcases hed with rfl | rfl | rfl
    · show (createMessage 2).edition = 2 ∨ (createMessage 2).edition = 3 ∨ (createMessage 2).edition = 4; decide
    · show (createMessage 3).edition = 2 ∨ (createMessage 3).edition = 3 ∨ (createMessage 3).edition = 4; decide
    · show (createMessage 4).edition = 2 ∨ (createMessage 4).edition = 3 ∨ (createMessage 4).edition = 4; decide
  · rcases hed with rfl | rfl | rfl
    · show S1InRange (createMessage 2).edition { (createMessage 2).s1 with msgType := 11 }; decide
    · show S1InRange (createMessage 3).edition { (createMessage 3).s1 with msgType := 11 }; decide
    · show S1InRange (createMessage 4).edition { (createMessage 4).s1 with msgType := 11 }; decide
  · intro _ h2
    rcases hed with rfl | rfl | rfl
    · exact absurd (show hasSect2 (createMessage 2).s1.flag = true from h2) (by decide)
    · exact absurd (show hasSect2 (createMessage 3).s1.flag = true from h2) (by decide)
    · exact absurd (show hasSect2 (createMessage 4).s1.flag = true from h2) (by decide)
  · show 1 < 65536; decide
  · show 0 < 256; decide
  · exact sec3_descOk _ _
  · exact hI.bitno_lt
  · exact hlen
  · exact hsize


/-- Section 4 of the message after `bufr_end_message`, as a reader gets it: the octets written,
and one zero octet when an edition ≤ 3 section would have odd length -/
theorem endMessage_s4 (m : Msg) (h : m.s4Data.length = m.s4Filled + (if m.s4Bitno > 0 then 1 else 0)) :
    ∃ z : List Nat, (z = [] ∨ z = [0]) ∧
      m.endMessage.s4Data.take (m.endMessage.s4Len - 4) = m.s4Data ++ z := by
  unfold Msg.endMessage
  simp only
  by_cases hp : m.edition ≤ 3 ∧ (m.s4Filled + 4 + if m.s4Bitno > 0 then 1 else 0) % 2 = 1
  · refine ⟨[0], Or.inr rfl, ?_⟩
    simp only [hp, and_self, decide_true, if_true]
    apply List.take_of_length_le
    rw [List.length_append, h]
    by_cases hb : m.s4Bitno = 0
    · simp [hb]
    · have : m.s4Bitno > 0 := by omega
      simp [hb, this]
  · refine ⟨[], Or.inl rfl, ?_⟩
    simp only [hp, decide_false, Bool.false_eq_true, if_false, List.append_nil]
    apply List.take_of_length_le
    rw [h]; omega

/-- **round trip** (partial: the decoder in the chain is the *reference* decoder of BufrSpec —
FM 94 read off the regulation — not the model of `bufr_decode_message`; what is missing is the
refinement theorem "the decoder model returns the items the reference decoder returns" for this
template, which is property C03/C04's business and is covered here by the correspondence: the
`lt.extract` stream runs the decoder model, and `spec.decode` compares both decoders).

For every table set within what the message can carry (`InRange`: descriptors and members below
1 000 000, C strings of octets, |scale| ≤ 999, reference any `int`, width ≤ 999, 1..255 members,
fewer than 65 536 entries each), written in edition 2, 3 or 4 under tables with the WMO class 00
widths, `bufr_store_tables` writes a message that reads back (C06) as a table update (data
category 11) whose Section 3/4 the reference decoder turns into items over which
`bufr_extract_tables` returns the table set as carried: same descriptors, scale, reference,
width, sequences; names and units up to the trailing white space the code trims. -/
theorem C20_roundtrip_partial (Tw Tr : Tables) (l : Local) (ed fuel F : Nat)
    (hed : ed = 2 ∨ ed = 3 ∨ ed = 4) (hl : InRange l) (hne : ¬ (l.b = [] ∧ l.d = []))
    (hmeta : metaOf (tablesOf Tw l) fuel (!l.b.isEmpty) (!l.d.isEmpty) = .ok stdMeta)
    (hsize : (storeMsg stdMeta ed l).lenMsg < 16777216)
    (hTr : StdT Tr) (hF : F ≥ l.b.length + l.d.length + 300) :
    ∃ bytes m, store Tw fuel ed l = .wrote bytes ∧
      readMessage bytes = .ok (m, bytes.length) ∧ m.s1.msgType = 11 ∧ m.edition = ed ∧
      m.descs = sec3 l.b.length l.d.length ∧
      (Spec.refDecode Tr F m.edition m.descs m.nSubsets (m.s3Flag &&& 64 ≠ 0) false (bytesBits m.s4Data)).bind
        (fun subs => extractItems subs.flatten) = some (Extracted.ofLocal (carried l)) := by
  have hR := preMsg_inRange ed l hed hsize
  obtain ⟨hw, hr⟩ := Bufr.C06.C06_readback_partial (preMsg stdMeta ed l) [] hR rfl (by decide) (by simp)
  simp only [List.nil_append] at hw hr
  refine ⟨writeBody (preMsg stdMeta ed l).endMessage, normalize (preMsg stdMeta ed l).header (preMsg stdMeta ed l).endMessage,
    ?_, hr, ?_, ?_, ?_, ?_⟩
  · -- the writer
    unfold store
    have hemp : ¬ (l.b.isEmpty = true ∧ l.d.isEmpty = true) := by
      intro ⟨h1, h2⟩
      exact hne ⟨List.isEmpty_iff.mp h1, List.isEmpty_iff.mp h2⟩
    simp only [hemp, if_false, hmeta]
    show (match writeMessage (preMsg stdMeta ed l).endMessage with
          | .ok (_, bytes) => StoreRes.wrote bytes
          | .err => StoreRes.wrote []) = _
    rw [hw]
  · show 11 % 256 = 11; decide
  · rcases hed with rfl | rfl | rfl <;> rfl
  · show (sec3 l.b.length l.d.length).map normDesc = _
    have : ∀ d ∈ sec3 l.b.length l.d.length, normDesc d = d := fun d hd => normDesc_ok d (sec3_descOk _ _ d hd)
    rw [List.map_congr_left this, List.map_id']
  · -- the reader's Section 4 is the writer's bits and padding
    obtain ⟨z, hz, hs4⟩ := endMessage_s4 (preMsg stdMeta ed l) hR.2.2.2.2.2.2.2.1
    obtain ⟨hbits, hI⟩ := storeBits_bits l
    obtain ⟨pad0, hpad0⟩ := bytesBits_bytes (storeBits stdMeta l) hI
    have hdata : bytesBits (normalize (preMsg stdMeta ed l).header (preMsg stdMeta ed l).endMessage).s4Data =
        itemsBits (specItems l) ++ (pad0 ++ bytesBits z) := by
      show bytesBits ((preMsg stdMeta ed l).endMessage.s4Data.take ((preMsg stdMeta ed l).endMessage.s4Len - 4)) = _
      rw [hs4]
      show bytesBits ((storeBits stdMeta l).bytes ++ z) = _
      unfold bytesBits at hpad0 ⊢
      rw [List.flatMap_append, hpad0, hbits, List.append_assoc]
    have hdescs : (normalize (preMsg stdMeta ed l).header (preMsg stdMeta ed l).endMessage).descs =
        sec3 l.b.length l.d.length := by
      show (sec3 l.b.length l.d.length).map normDesc = _
      have : ∀ d ∈ sec3 l.b.length l.d.length, normDesc d = d := fun d hd => normDesc_ok d (sec3_descOk _ _ d hd)
      rw [List.map_congr_left this, List.map_id']
    have hns : (normalize (preMsg stdMeta ed l).header (preMsg stdMeta ed l).endMessage).nSubsets = 1 := rfl
    have hfl : (normalize (preMsg stdMeta ed l).header (preMsg stdMeta ed l).endMessage).s3Flag = 0 := rfl
    rw [hdata, hdescs, hns, hfl]
    have hdec := refdecode_store Tr hTr l hl F hF (pad0 ++ bytesBits z)
    obtain ⟨F', rfl⟩ : ∃ F', F = F' + 1 := ⟨F - 1, by omega⟩
    unfold Spec.refDecode
    simp only [show ¬ ((0 : Nat) &&& 64 ≠ 0) by decide, decide_false, Bool.false_eq_true, if_false, false_and,
      Spec.decSubsets, hdec, Option.bind_eq_bind, Option.bind_some, Option.pure_def, List.flatten_cons,
      List.flatten_nil, List.append_nil]
    exact extract_specItems l hl


/-! ### the tables a reader builds -/

/-- the lookups of table set `b` agree with those of `a` on every encoding field -/
def SameEncoding (a b : Option EntryB) : Prop :=
  a.map (fun e => (e.desc, e.scale, e.ref, e.nbits, e.typ)) = b.map (fun e => (e.desc, e.scale, e.ref, e.nbits, e.typ))

/-- **same tables**: merging the extracted entries into a table set (`bufr_merge_tables`) gives
exactly the table set that merging the original entries *as carried* gives — as functions, for
every descriptor — and against the original entries themselves every Table D lookup is equal
and every Table B lookup has the same descriptor, scale, reference, width and data type (the
type inferred from the trimmed unit is the original type).  For entries that are already
trimmed (`normB e = e`, which every loader guarantees) the two table sets are equal. -/
theorem C20_decodes_alike (M : Tables) (l : Local) :
    tablesOf M (mergeLocal {} (Extracted.ofLocal (carried l)).toLocal) = tablesOf M (mergeLocal {} (normalizeL l)) ∧
    (∀ k, (tablesOf M (mergeLocal {} (normalizeL l))).fetchD k = (tablesOf M (mergeLocal {} l)).fetchD k) ∧
    (∀ k, SameEncoding ((tablesOf M (mergeLocal {} (normalizeL l))).fetchB k) ((tablesOf M (mergeLocal {} l)).fetchB k)) ∧
    ((∀ e ∈ l.b, normB e = e) → tablesOf M (mergeLocal {} (normalizeL l)) = tablesOf M (mergeLocal {} l)) := by
  obtain ⟨hb, hd⟩ := mergeLocal_normalizeL l
  refine ⟨by rw [toLocal_ofLocal, mergeLocal_carried], ?_, ?_, ?_⟩
  · intro k
    unfold tablesOf
    simp only [hd]
  · intro k
    unfold tablesOf SameEncoding
    simp only [hb]
    by_cases hf : Desc.f k = 0
    · simp only [hf, if_true, List.find?_map]
      have hcomp : ((fun e : LB => decide (e.desc = k)) ∘ normB) = fun e : LB => decide (e.desc = k) := by
        funext e; rfl
      rw [hcomp]
      cases (mergeLocal {} l).b.find? (fun e => decide (e.desc = k)) with
      | none => rfl
      | some e => simp [toEntryB_normB]
    · simp only [hf, if_false]
  · intro h
    have : normalizeL l = l := by
      unfold normalizeL
      have : l.b.map normB = l.b := by
        rw [List.map_congr_left h, List.map_id']
      rw [this]
    rw [this]

/-- **same decoding**: table sets that answer every lookup alike make the decoder model — template
creation and the whole of `bufr_decode_message` — return the same for every message -/
theorem C20_decode_congr (T1 T2 : Tables) (hB : ∀ k, T1.fetchB k = T2.fetchB k) (hD : ∀ k, T1.fetchD k = T2.fetchD k) :
    createTemplate T1 = createTemplate T2 ∧ decodeData T1 = decodeData T2 ∧
    (fun nonEmpty fuel bytes => extractFromBytes T1 nonEmpty fuel bytes) =
      (fun nonEmpty fuel bytes => extractFromBytes T2 nonEmpty fuel bytes) := by
  have : T1 = T2 := by
    cases T1; cases T2
    simp only [Tables.mk.injEq]
    exact ⟨funext hB, funext hD⟩
  subst this
  exact ⟨rfl, rfl, rfl⟩


/-! ### Non-vacuity: the hypotheses are met by concrete, non-trivial data, and the whole chain
— including the *decoder model* `decodeData`, not only the reference decoder — computes the
table set back on them (kernel evaluation) -/

def ccittE (d n : Nat) : EntryB := { desc := d, scale := 0, ref := 0, nbits := 8 * n, typ := .ccitt }

/-- master tables with the WMO class 00 elements, the replication factors, 0 01 001 and the three sequences -/
def wmoT : Tables where
  fetchB k :=
    if k = 1 then some (ccittE 1 3) else if k = 2 then some (ccittE 2 32) else if k = 3 then some (ccittE 3 32)
    else if k = 10 then some (ccittE 10 1) else if k = 11 then some (ccittE 11 2) else if k = 12 then some (ccittE 12 3)
    else if k = 13 then some (ccittE 13 32) else if k = 14 then some (ccittE 14 32) else if k = 15 then some (ccittE 15 24)
    else if k = 16 then some (ccittE 16 1) else if k = 17 then some (ccittE 17 3) else if k = 18 then some (ccittE 18 1)
    else if k = 19 then some (ccittE 19 10) else if k = 20 then some (ccittE 20 3) else if k = 30 then some (ccittE 30 6)
    else if k = 31001 then some { desc := 31001, scale := 0, ref := 0, nbits := 8, typ := .numeric }
    else if k = 31002 then some { desc := 31002, scale := 0, ref := 0, nbits := 16, typ := .numeric }
    else if k = 1001 then some { desc := 1001, scale := 0, ref := 0, nbits := 7, typ := .numeric }
    else none
  fetchD k :=
    if k = 300003 then some { desc := 300003, members := [10, 11, 12] }
    else if k = 300004 then some { desc := 300004, members := [300003, 13, 14, 15, 16, 17, 18, 19, 20] }
    else if k = 300010 then some { desc := 300010, members := [300003, 101000, 31001, 30] }
    else none

def asc (s : String) : Bytes := asciiBytes s

/-- a table set: a name of 33 characters (both lines), trailing blanks and a tab, lower case and
punctuation, a unit of every type keyword and a plain one, scale and reference of both signs at
their limits (−999, −2147483648, 2147483647), widths 1 and 999, sequences with fixed and delayed
replication and a nested local sequence -/
def exL : Local :=
  { cat := 11, catDesc := asc "LOCAL TEST TABLES" ++ List.replicate 47 32,
    b := [ { desc := 48001, name := asc "AIR TEMPERATURE AT 2 M ABOVE GROUND", unit := asc "K", scale := 1, ref := -999, width := 12 },
           { desc := 48002, name := asc "station (type), see note 3   \t ", unit := asc "CODE TABLE  ", scale := 0, ref := 0, width := 1 },
           { desc := 48003, name := asc "", unit := asc "flag table", scale := -999, ref := -2147483648, width := 999 },
           { desc := 63255, name := asc "NAME OF SOMETHING", unit := asc "CCITT IA5", scale := 999, ref := 2147483647, width := 64 },
           { desc := 1192, name := List.replicate 64 78, unit := List.replicate 24 85, scale := -1, ref := 1000000000, width := 31 } ],
    d := [ { desc := 348001, members := [48001, 101002, 48002] },
           { desc := 348002, members := [348001, 102000, 31001, 48003, 63255] } ] }

example : StdT wmoT :=
  { c1 := ⟨_, rfl, rfl, rfl⟩, c2 := ⟨_, rfl, rfl, rfl⟩, c3 := ⟨_, rfl, rfl, rfl⟩, c10 := ⟨_, rfl, rfl, rfl⟩,
    c11 := ⟨_, rfl, rfl, rfl⟩, c12 := ⟨_, rfl, rfl, rfl⟩, c13 := ⟨_, rfl, rfl, rfl⟩, c14 := ⟨_, rfl, rfl, rfl⟩,
    c15 := ⟨_, rfl, rfl, rfl⟩, c16 := ⟨_, rfl, rfl, rfl⟩, c17 := ⟨_, rfl, rfl, rfl⟩, c18 := ⟨_, rfl, rfl, rfl⟩,
    c19 := ⟨_, rfl, rfl, rfl⟩, c20 := ⟨_, rfl, rfl, rfl⟩, c30 := ⟨_, rfl, rfl, rfl⟩,
    f1 := ⟨_, rfl, rfl, rfl⟩, f2 := ⟨_, rfl, rfl, rfl⟩,
    d3 := ⟨_, rfl, rfl⟩, d4 := ⟨_, rfl, rfl⟩, d10 := ⟨_, rfl, rfl⟩ }

example : InRange exL := by decide +kernel

/-- the writer finds the WMO widths in these tables (through the model of `bufr_expand_descriptor`) -/
example : metaOf (tablesOf wmoT exL) 100 (!exL.b.isEmpty) (!exL.d.isEmpty) = .ok stdMeta := by decide +kernel


/-- what the message carries of `exL`: the 33-character name is whole, the trailing blanks and the
tab are gone, the units are trimmed -/
example : (carried exL).b.map (fun e => (e.name.length, e.unit.length)) = [(35, 1), (26, 10), (0, 10), (17, 9), (64, 24)] := by
  decide +kernel

/-- a smaller table set for the evaluation of the whole chain by the kernel -/
def exS : Local :=
  { cat := 11, catDesc := asc "LOCAL TEST TABLES" ++ List.replicate 47 32,
    b := [ { desc := 48002, name := asc "station (type), see note 3   \t ", unit := asc "CODE TABLE  ", scale := -999, ref := -2147483648, width := 999 },
           { desc := 1192, name := List.replicate 33 78, unit := asc "K", scale := 1, ref := 1000, width := 12 } ],
    d := [ { desc := 348002, members := [348001, 102000, 31001, 48002, 1192] } ] }

def chain (ed : Nat) : ExtractRes :=
  match store wmoT 1000 ed exS with
  | .wrote bytes => extractFromBytes wmoT true 1000 bytes
  | _ => .noread

example : InRange exS := by decide +kernel

set_option maxRecDepth 100000 in
example : (storeMsg stdMeta 3 exS).lenMsg < 16777216 := by decide +kernel

set_option maxRecDepth 100000 in
/-- **the whole chain on the decoder model**: `bufr_store_tables`, the framing, the reader,
`decodeData` (template expansion, delayed replications resolved on the fly, every element read)
and `bufr_extract_tables` return the table set as carried (edition 3 with its pad octet, edition 4) -/
example : chain 3 = .ok false (Extracted.ofLocal (carried exS)) ∧ chain 4 = .ok false (Extracted.ofLocal (carried exS)) := by
  decide +kernel

/-- the bounds are needed: a scale of 1000 does not fit its three characters and comes back as 100 -/
example : extractItems (specItems { b := [{ desc := 48001, name := asc "X", unit := asc "M", scale := 1000, ref := 0, width := 8 }] })
    = some (Extracted.ofLocal { b := [{ desc := 48001, name := asc "X", unit := asc "M", scale := 100, ref := 0, width := 8 }] }) := by
  decide +kernel

end Bufr.C20
