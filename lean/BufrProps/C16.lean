import BufrProofs.Own
import BufrProofs.OwnGrowth
/-
  C16 — Valid workloads are memory-clean: no overflow, use-after-free or leak.   (PARTIAL by nature)

  What is proved here is about the *model* `BufrModel/Own.lean`: an ownership heap whose transitions are the
  object-level API operations (tables created, loaded, merged; templates created, copied, loaded; datasets and
  subsets created, expanded, given values, merged, reloaded; messages encoded, read; datasets decoded; tables
  extracted; lists of tables; every free), and about the bit-level encoder of `BufrModel/Codec.lean`.

  * `C16_inv`, `C16_no_dangling`: every operation that is valid in a well-formed heap leaves it well-formed —
    each live object has exactly one live owner or is a root the application holds, and every non-owning pointer
    targets a live object — so no valid operation releases something a live object still points into.
  * `C16_no_leak`: after any valid workload, releasing the roots the application still holds (newest first)
    always succeeds and leaves nothing allocated, of any kind.
  * `C16_counts`: the number of live objects of each kind moves by exactly what the operation's plan allocates
    and releases; this is the quantity compared with the library's LIBECBUFR_VERIF counters at quiescent points.
  * `C16_growth`: the Section 4 encoder only ever calls `bufr_putbits`; with fields of at most 64 bits every
    write lands inside the allocation and the buffer is grown before the next one, whatever its initial size
    (compressed data larger than the uncompressed estimate included).

  What is *not* expressible in the model and is observed instead (ASan/LSan, hook counters, the harness's
  reachability walk): the C allocator itself, heap bytes, and that the library's functions perform exactly the
  allocations and releases of the plans (tied by the `own.*` correspondence, not proved).
-/
namespace Bufr.C16
open Bufr Bufr.Own

/-- **Invariant.** A valid operation keeps the heap well-formed: ids are unique, every live node has one live,
older owner of the same root or is a root held through a handle, every root has a handle, every reference points
to a live node of the same or an older root. -/
theorem C16_inv (s s' : State) (op : Op) (hw : WF s) (hv : step s op = some s') : WF s' :=
  step_wf s s' op hw hv

/-- the same for a whole workload started from nothing -/
theorem C16_inv_run (ops : List Op) (s : State) (h : run {} ops = some s) : WF s :=
  run_wf ops {} s wf_empty h

/-- **No dangling pointer.** Whatever a valid operation releases (`x` was live before and is not after) is not
referenced by any object that is still live: a use-after-free cannot be expressed by a valid workload. -/
theorem C16_no_dangling (s s' : State) (op : Op) (hw : WF s) (hv : step s op = some s') :
    ∀ x, (∃ n ∈ s.nodes, n.id = x) → (∀ n ∈ s'.nodes, n.id ≠ x) → ∀ m ∈ s'.nodes, ∀ r ∈ m.refs, r.2 ≠ x := by
  intro x _ hgone m hm r hr hrx
  obtain ⟨t, ht, h1, _⟩ := (step_wf s s' op hw hv).2.2.2.2 m hm r hr
  exact hgone t ht (by rw [h1, hrx])

/-- and owners: every live object's owner is live after the operation (nothing is released from under it) -/
theorem C16_owner_live (s s' : State) (op : Op) (hw : WF s) (hv : step s op = some s') :
    ∀ n ∈ s'.nodes, ∀ o, n.owner = some o → ∃ p ∈ s'.nodes, p.id = o := by
  intro n hn o ho
  have := (step_wf s s' op hw hv).2.1 n hn
  simp only [ho] at this
  obtain ⟨_, p, hp, h1, _⟩ := this
  exact ⟨p, hp, h1⟩

/-- **No leak.** After every valid workload, freeing the roots the application still holds — newest first —
is itself valid at every step and leaves no live object of any kind. -/
theorem C16_no_leak (ops : List Op) (s : State) (h : run {} ops = some s) :
    ∃ s', freeAll s = some s' ∧ s'.nodes = [] ∧ s'.handles = [] ∧ ∀ k, s'.count k = 0 := by
  obtain ⟨s', h1, h2, h3⟩ := freeAll_spec s (run_wf ops {} s wf_empty h)
  exact ⟨s', h1, h2, h3, fun k => count_of_nodes_nil s' h2 k⟩

/-- **Counts.** The live count of every kind after an operation is the count before, plus what the primitives of
its plan allocate, minus what they release (`planAllocated`/`planFreed` sum `Prim.allocated`/`Prim.freed` along
the execution: a node counts 1 for its own kind plus its payload). -/
theorem C16_counts (s s' : State) (op : Op) (ps : List Prim) (k : Kind)
    (hp : plan s op = some ps) (hv : step s op = some s') :
    s'.count k + planFreed k s ps = s.count k + planAllocated k s ps := by
  unfold step at hv
  rw [hp] at hv
  exact execAll_count k ps s s' hv

/-- per primitive -/
theorem C16_counts_prim (s s' : State) (p : Prim) (k : Kind) (h : p.exec s = some s') :
    s'.count k + p.freed s k = s.count k + p.allocated s k := exec_count s s' p k h

/-- **Growth.** Section 4 of `bufr_encode_message` is a sequence of `bufr_putbits` calls on the buffer first
allocated from the uncompressed size estimate; when no field is wider than 64 bits, then from a buffer of *any*
initial size every write lands inside the current allocation and the capacity invariant holds at the end. -/
theorem C16_growth (ss : List (List Node)) (dataFlag : Nat) (xCompress : Int) :
    ∃ c : Bool,
      (encodeData ss dataFlag xCompress).2 = ((W.new 0).alloc (s4Estimate ss)).putFields (encodeFields ss c) ∧
      ((∀ f ∈ encodeFields ss c, f.2 ≤ 64) → ∀ est : Nat,
        SafeWrites ((W.new 0).alloc est) (encodeFields ss c) ∧
        CapInv (((W.new 0).alloc est).putFields (encodeFields ss c))) := by
  obtain ⟨c, hc⟩ := encodeData_fields ss dataFlag xCompress
  refine ⟨c, hc, ?_⟩
  intro hfs est
  have hI : WInv ((W.new 0).alloc est) := alloc_inv _ _ (WInv_new 0)
  have hC : CapInv ((W.new 0).alloc est) := by
    unfold CapInv
    rw [alloc_filled]
    simp [W.new, W.filled]
  obtain ⟨a, b, _⟩ := putFields_safe _ hfs _ hI hC
  exact ⟨a, b⟩

/-- for uncompressed data the hypothesis of `C16_growth` follows from the elements: widths and associated
fields of at most 64 bits -/
theorem C16_growth_elements (ss : List (List Node))
    (h : ∀ s ∈ ss, ∀ n ∈ s, n.enc.nbits ≤ 64 ∧ n.afW ≤ 64) : ∀ f ∈ encodeFields ss false, f.2 ≤ 64 := by
  intro f hf
  unfold encodeFields at hf
  simp only [Bool.false_eq_true, if_false, List.mem_flatMap] at hf
  obtain ⟨s, hs, n, hn, hfn⟩ := hf
  exact fieldsDesc_le n (h s hs n hn).1 (h s hs n hn).2 f hfn

/-! ## Non-vacuity -/

/-- a workload: tables loaded, a template and a dataset made from them, two subsets, an encoded message, a decoded
dataset, a merge, then frees in an allowed order (dependants before what they point into) -/
def wl : List Op :=
  [ .tnew 0, .tload (.slot 0) 0 true 5, .tload (.slot 0) 1 true 2, .tload (.slot 0) 2 true 1,
    .mnew 0 (.slot 0) { d := 3, v := 1, rt := 2, arr := 3 } 1 0 true [],
    .dnew 0 0 1 0 true,
    .dsub 0 { d := 4, v := 3, rt := 3, dpbm := 1, arr := 1 },
    .dsub 0 { d := 4, v := 3, rt := 3, dpbm := 1, arr := 1 },
    .dset 0 1 { d := 7, v := 6, rt := 6, dpbm := 1, arr := 1 },
    .gnew 0,
    .dec 1 (.slot 0) { d := 3, v := 1, rt := 2, arr := 3 } 1 0 true [{ d := 4, v := 3, rt := 3, arr := 1 }] [],
    .dmerge 0 3 1 0 1 2 [{ d := 4, v := 3, rt := 3, dpbm := 1, arr := 1 }],
    .mfree 0, .dfree 1 ]

example : (run {} wl).isSome = true := by decide
/-- what is live after it, per kind in the order of the hook's counters: the tables handle (3 arrays, 6 B and 2 D
entries), the dataset with its own template, tables copy, four subsets, and the message -/
example : (run {} wl).map (·.counts) = some [2, 7, 2, 1, 1, 4, 22, 16, 0, 0, 1, 0, 0, 0, 15, 17, 0, 3] := by decide
example : ((run {} wl).bind freeAll).map (·.counts) = some (Kind.all.map fun _ => 0) := by decide
/-- the tables cannot be released while the dataset made from them is alive: the operation is not valid -/
example : ((run {} wl).bind fun s => step s (.tfree 0)) = none := by decide
/-- but after the dataset they can -/
example : ((run {} wl).bind fun s => run s [.dfree 0, .gfree 0, .tfree 0]).map (·.nodes.length) = some 0 := by decide
/-- loading a master table into a handle that only references it drops the reference instead of writing into the
owner's table: the owner can then be released first -/
example : (run {} [.tnew 0, .tload (.slot 0) 0 true 5, .tnew 1, .tmerge 1 (.slot 0) 0 0 [], .tload (.slot 1) 0 true 7,
                   .tfree 0]).map (·.counts) = some [1, 7, 0, 0, 0, 0, 0, 0, 0, 0, 0, 0, 0, 0, 3, 0, 0, 0] := by decide
/-- a merge that would release a master table someone else points into is not valid -/
example : run {} [.tnew 0, .tload (.slot 0) 0 true 5, .tnew 1, .tmerge 1 (.slot 0) 0 0 [],
                  .tnew 2, .tload (.slot 2) 0 true 9, .tmerge 0 (.slot 2) 0 0 []] = none := by decide

/-- growth: two subsets of one 2-character element that differ; compressed, the data (R0, 6-bit width, two
increments = 54 bits) outgrow the 4 octets estimated from the uncompressed size -/
def strNode (a b : Nat) : Node :=
  { desc := 1015, enc := { type := .ccitt, nbits := 16 }, val := .str [a, b] }

example : ∀ f ∈ encodeFields [[strNode 65 66], [strNode 67 68]] true, f.2 ≤ 64 := by decide
example : s4Estimate [[strNode 65 66], [strNode 67 68]] = 4 := by decide
example : (encodeFields [[strNode 65 66], [strNode 67 68]] true).foldl (fun a f => a + f.2) 0 = 54 := by decide

end Bufr.C16
