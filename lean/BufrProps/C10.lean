import BufrModel.Template
import BufrProofs.Expand
import BufrProofs.ExpandTotal
/-
  C10 — template expansion equals the regulated expansion, and always terminates.

  Model: BufrModel/Expand.lean, BufrModel/Template.lean (tied to bufr_sequence.c /
  bufr_template.c by the `tm.*`/`ss.*` correspondence streams).
  Spec:  BufrSpec/Expand.lean (regulation 94.5 as inductive relations `Static`, `Full`).
-/
namespace Bufr.C10
open Bufr Bufr.Spec

/-- **Static expansion refines regulation 94.5.**  Whenever `bufr_create_template` accepts a
descriptor list, the expanded template it stores (`gabarit`), read without its SKIPPED
placeholders, is *the* regulation expansion of that list: Table D sequences replaced by their
members recursively, fixed replications unrolled, delayed replication groups kept for later.
No bound on sizes, nesting depth or fuel. -/
theorem C10_static_refines (T : Tables) (fuel edition : Nat) (ds : List Nat) (t : Template)
    (h : createTemplate T fuel edition ds = .ok t) :
    Static T ds (items t.gabarit) := by
  unfold createTemplate at h
  split at h
  · simp at h
  · split at h
    · simp at h
    · rename_i delayed _
      cases he : expandSequence T fuel 0 (ds.map (mkNode T)) with
      | error e => rw [he] at h; simp at h
      | ok g =>
        rw [he] at h
        simp only [Except.ok.injEq] at h
        subst h
        unfold expandSequence at he
        split at he
        · rename_i r heq
          simp only [Except.ok.injEq] at he
          subst he
          have hf : ∀ n ∈ ds.map (mkNode T), Fresh n := by
            intro n hn
            simp only [List.mem_map] at hn
            obtain ⟨d, _, rfl⟩ := hn
            exact mkNode_fresh T d
          have := (static_ok T fuel).1 _ _ hf heq
          simpa [List.map_map, Function.comp_def, mkNode_desc] using this
        · simp at he
        · simp at he

/-- **Malformed templates are rejected, never expanded wrongly.**  If the regulation expansion of
a descriptor list does not exist — an unknown Table D descriptor, a fixed replication whose X
descriptors run past the end of the list or of the sequence they are in, spans that overlap so
that unrolling never ends, a delayed replication not followed by a class 31 element — the
template is refused.  (The model has no other outcome than `ok`, `null` = refused, and `fuel`;
a crash or an abort of the C code shows up as a disagreement in the correspondence.) -/
theorem C10_rejects (T : Tables) (fuel edition : Nat) (ds : List Nat)
    (h : ¬ ∃ out, Static T ds out) : ∀ t, createTemplate T fuel edition ds ≠ .ok t := by
  intro t ht
  exact h ⟨_, C10_static_refines T fuel edition ds t ht⟩

theorem expandSequence_fuel (T : Tables) (f flags : Nat) (ns : List Node)
    (h : expandSequence T f flags ns = .error .fuel) : expandList T f flags none ns = .error .fuel := by
  unfold expandSequence at h
  split at h
  · cases h
  · cases h
  · rename_i e he
    injection h with h
    subst h
    exact he

theorem createTemplate_fuel (T : Tables) (f edition : Nat) (ds : List Nat)
    (h : createTemplate T f edition ds = .error .fuel) :
    expandSequence T f 0 (ds.map (mkNode T)) = .error .fuel := by
  unfold createTemplate at h
  split at h
  · cases h
  · split at h
    · cases h
    · split at h
      · rename_i e he
        injection h with h
        subst h
        exact he
      · cases h

/-- **Termination.**  The model's recursion is bounded by a fuel argument and answers `.error .fuel` where the
C would recurse without end (a Table D sequence that contains itself, replication spans that keep unrolling).
Whenever the regulation expansion of the list exists — a finite derivation — there is a recursion depth from
which on the template builder never gives that answer: it returns the template of `C10_static_refines`, or
refuses the list for one of the library's own reasons.  No bound on the list, the table or the nesting. -/
theorem C10_terminates (T : Tables) (edition : Nat) (ds : List Nat) (h : ∃ out, Static T ds out) :
    ∃ f0, ∀ f, f0 ≤ f → createTemplate T f edition ds ≠ .error .fuel := by
  obtain ⟨out, hs⟩ := h
  obtain ⟨f0, hE⟩ := static_total T ds out hs
  refine ⟨f0, ?_⟩
  intro f hf
  have hx := hE f hf (ds.map (mkNode T)) (by simp [List.map_map, Function.comp_def, mkNode_desc])
    (by intro n hn; simp only [List.mem_map] at hn; obtain ⟨d, _, rfl⟩ := hn; exact mkNode_fresh T d)
  intro hh
  exact hx (expandSequence_fuel T f 0 _ (createTemplate_fuel T f edition ds hh))

/-- and then the outcome is the regulation's: with that much fuel the builder either returns the regulation
expansion or refuses; it never diverges and never returns anything else -/
theorem C10_total_correct (T : Tables) (edition : Nat) (ds : List Nat) (h : ∃ out, Static T ds out) :
    ∃ f0, ∀ f, f0 ≤ f →
      (∃ t, createTemplate T f edition ds = .ok t ∧ Static T ds (items t.gabarit)) ∨
      createTemplate T f edition ds = .error .null ∨ createTemplate T f edition ds = .error .abort := by
  obtain ⟨f0, hT⟩ := C10_terminates T edition ds h
  refine ⟨f0, ?_⟩
  intro f hf
  cases hc : createTemplate T f edition ds with
  | ok t => exact Or.inl ⟨t, rfl, C10_static_refines T f edition ds t hc⟩
  | error e =>
    cases e with
    | null => exact Or.inr (Or.inl rfl)
    | abort => exact Or.inr (Or.inr rfl)
    | fuel => exact absurd hc (hT f hf)

/-- **The fuel is only a bound.**  An answer of the template builder that is not "out of fuel" is the answer at
every larger recursion bound: template or refusal, nothing in the model depends on the bound itself.  With
`C10_terminates`: for every list whose regulation expansion exists the outcome of building the template is
well defined. -/
theorem C10_fuel_irrelevant (T : Tables) (edition : Nat) (ds : List Nat) (f : Nat)
    (h : createTemplate T f edition ds ≠ .error .fuel) :
    ∀ g, f ≤ g → createTemplate T g edition ds = createTemplate T f edition ds := by
  intro g hg
  obtain ⟨k, rfl⟩ : ∃ k, g = f + k := ⟨g - f, by omega⟩
  have he : expandList T f 0 none (ds.map (mkNode T)) ≠ .error .fuel →
      expandList T (f + k) 0 none (ds.map (mkNode T)) = expandList T f 0 none (ds.map (mkNode T)) := by
    intro hx
    rcases expandList_mono T 0 (ds.map (mkNode T)) f k with h1 | h1
    · exact absurd h1 hx
    · exact h1.symm
  unfold createTemplate at h ⊢
  by_cases hv : (!descsValid T none ds) = true
  · simp only [hv, if_true]
  · simp only [hv, Bool.false_eq_true, if_false] at h ⊢
    cases hc : checkSequence T ds with
    | none => rfl
    | some delayed =>
      simp only [hc] at h ⊢
      have hx : expandList T f 0 none (ds.map (mkNode T)) ≠ .error .fuel := by
        intro hh
        apply h
        unfold expandSequence
        rw [hh]
      unfold expandSequence
      rw [he hx]

/-- templates naming an element that is in no table (and not described by 2 06 YYY), or a number
that is not a descriptor at all, are refused before anything is expanded -/
theorem C10_rejects_unknown (T : Tables) (fuel edition : Nat) (ds : List Nat)
    (h : descsValid T none ds = false) : createTemplate T fuel edition ds = .error .null := by
  unfold createTemplate; simp [h]

/-- the replication count the library derives from a class 31 factor is the regulation's:
0 31 000 is a yes/no switch, 0 31 001/002 the count itself, 0 31 011/012 a repetition
(data present once). -/
theorem C10_factor_count (v : Nat) :
    solveReplication v 0 = factorCount 31000 v ∧ solveReplication v 1 = factorCount 31001 v ∧
    solveReplication v 2 = factorCount 31002 v ∧
    solveReplication v 11 = factorCount 31011 v ∧ solveReplication v 12 = factorCount 31012 v := by
  unfold solveReplication factorCount
  by_cases hv : v = 0
  · subst hv; simp
  · refine ⟨?_, ?_, ?_, ?_, ?_⟩ <;> simp [hv] <;> omega

/-! ### Non-vacuity -/

/-- a small table set: one Table D sequence containing a fixed replication -/
def exT : Tables :=
  { fetchB := fun d => if d = 1001 then some { desc := 1001, scale := 0, ref := 0, nbits := 7, typ := .numeric }
                       else if d = 12101 then some { desc := 12101, scale := 2, ref := 0, nbits := 16, typ := .numeric }
                       else if d = 31001 then some { desc := 31001, scale := 0, ref := 0, nbits := 8, typ := .numeric }
                       else none,
    fetchD := fun d => if d = 301001 then some { desc := 301001, members := [1001, 102002, 12101, 1001] } else none }

/-- the hypothesis of `C10_static_refines` is met by a template nesting Table D, fixed and delayed
replication, and the expansion is what the regulation says -/
example : (createTemplate exT 100 4 [301001, 101000, 31001, 12101]).toOption.map (fun t => items t.gabarit) =
    some [1001, 12101, 1001, 12101, 1001, 101000, 31001, 12101] := by decide +kernel

/-- the hypothesis of `C10_rejects` is met by the template the original code aborted on -/
example : ¬ ∃ out, Static exT [102003, 1001] out := by
  rintro ⟨out, h⟩
  cases h with
  | elem _ _ _ h => simp [Desc.f] at h
  | seq _ _ _ _ _ h => simp [Desc.f] at h
  | fixed _ _ _ _ _ _ hl => simp [Desc.x] at hl
  | delayed _ _ _ _ _ hy => simp [Desc.y] at hy

/-- the hypothesis of `C10_terminates` is met by the nested template above: its regulation expansion exists -/
example : ∃ out, Static exT [301001, 101000, 31001, 12101] out := by
  refine ⟨_, Static.seq 301001 _ { desc := 301001, members := [1001, 102002, 12101, 1001] } _ _ (by decide) rfl
    (Static.elem 1001 _ _ (by decide)
      (Static.fixed 102002 [12101, 1001] _ _ (by decide) (by decide) (by decide)
        (Static.elem 12101 _ _ (by decide) (Static.elem 1001 _ _ (by decide)
          (Static.elem 12101 _ _ (by decide) (Static.elem 1001 _ _ (by decide) Static.nil))))
        Static.nil))
    (Static.delayed 101000 31001 [12101] _ (by decide) (by decide) (by unfold isClass31; decide) Static.nil)⟩

def refused (r : Except XErr Template) : Bool := match r with | .error .null => true | _ => false

/-- and a table whose sequence contains itself (directly, or through another sequence) has no regulation
expansion: it is refused (`bufr_tabled_is_circular`; before the repair recorded as C10-tabled-circular the
C recursed until its stack was gone, and the model ran out of any fuel) -/
def cycT : Tables := { exT with fetchD := fun d => if d = 301001 then some { desc := 301001, members := [1001, 301001] } else none }
example : refused (createTemplate cycT 50 4 [301001]) = true := by decide +kernel
def cyc2D (d : Nat) : Option EntryD :=
  if d = 301001 then some { desc := 301001, members := [1001, 301002] }
  else if d = 301002 then some { desc := 301002, members := [12101, 301001] } else none
def cycT2 : Tables := { exT with fetchD := cyc2D }
example : refused (createTemplate cycT2 50 4 [12101, 301002]) = true := by decide +kernel
/-- overlapping replications inside a Table D sequence (closed within the sequence) are refused as well -/
def ovlD (d : Nat) : Option EntryD :=
  if d = 301001 then some { desc := 301001, members := [102002, 102002, 1001, 12101, 1001] } else none
def ovlT : Tables := { exT with fetchD := ovlD }
example : refused (createTemplate ovlT 50 4 [301001]) = true := by decide +kernel
example : refused (createTemplate exT 100 4 [102003, 1001]) = true := by decide +kernel
example : refused (createTemplate exT 100 4 [101001]) = true := by decide +kernel
example : refused (createTemplate exT 100 4 [102002, 102002, 1001, 12101]) = true := by decide +kernel

end Bufr.C10
