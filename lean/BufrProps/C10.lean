import BufrModel.Template
/-
  C10 — template expansion equals the regulated expansion, and always terminates.
  (theorems are being added; see BufrProofs/Expand.lean)
-/
namespace Bufr.C10
open Bufr

/-- the replication count the library derives from a class 31 factor is the regulation's:
0 31 000 is a yes/no switch, 0 31 001/002 the count itself, 0 31 011/012 a repetition
(data present once). -/
theorem C10_factor_count (v : Nat) :
    solveReplication v 0 = (if v = 0 then 0 else 1) ∧ solveReplication v 1 = v ∧ solveReplication v 2 = v ∧
    solveReplication v 11 = 1 ∧ solveReplication v 12 = 1 := by
  unfold solveReplication
  refine ⟨?_, ?_, ?_, ?_, ?_⟩ <;> simp <;> omega

end Bufr.C10
