import BufrProofs.Codec
import BufrModel.Merge
/-
  C14 — Subset ranges: partial decode equals a slice; merged subsets stay equal.

  Property theorems only.  Model: BufrModel/Decode.lean (`Range`, `getNumericCompressed`,
  `decodeUncompressed`), tied to bufr_decode_message_subsets by the `ds.decode … from to` streams;
  `bufr_merge_dataset` is mirrored in the driver (`dd.merge`).
-/
namespace Bufr.C14
open Bufr

/-- **compressed column, any slice**: for every column the encoder writes and every request
`1 ≤ from ≤ to ≤ n`, the reader returns exactly the raw values of subsets `from..to` (`g.slice`),
skipping `from − 1` increments before and `n − to` after, so that the next column is read from the
right place -/
theorem C14_compressed_column (w : W) (hI : WInv w) (n0 : Node) (rest : List Node)
    (h1 : 1 ≤ n0.enc.nbits) (h2 : n0.enc.nbits ≤ 64)
    (hv : ∀ n ∈ n0 :: rest, value2bits n ≤ missingIvalue n0.enc.nbits)
    (hspread : n0.enc.nbits = 64 → ∀ a ∈ n0 :: rest, ∀ b ∈ n0 :: rest,
      value2bits a ≠ missingIvalue n0.enc.nbits → value2bits b ≠ missingIvalue n0.enc.nbits →
      value2bits a - value2bits b < 2^63 - 1)
    (r : R) (hIr : RInv r) (tail : List Bool)
    (hb : w.bits ++ r.bits = (putNumericCompressed w (n0 :: rest)).bits ++ tail)
    (cb : Node) (col : List Node) (hnb : cb.enc.nbits = n0.enc.nbits)
    (g : Range) (hg : 1 ≤ g.from_ ∧ g.from_ ≤ g.to ∧ g.to ≤ g.nsub) (hn : g.nsub = (n0 :: rest).length)
    (hcol : (cb :: col).length = g.count) :
    ∃ r', getNumericCompressed r (cb :: col) g =
        some (r', zipWithNodes setBitsValue (cb :: col)
                    ((((n0 :: rest).map value2bits).drop (g.from_ - 1).toNat).take (g.to - g.from_ + 1).toNat)) ∧
      r'.bits = tail ∧ RInv r' := by
  obtain ⟨r', e, hb', hI'⟩ := numeric_column_roundtrip w hI n0 rest h1 h2 hv hspread r hIr tail hb cb col hnb g
    (Or.inr hg) hn hcol
  refine ⟨r', ?_, hb', hI'⟩
  rw [e]
  unfold Range.slice Range.count
  rw [if_pos (by omega), if_pos (by omega)]

/-- **IEEE column (2 09 YYY), constant form, any request**: a column whose value is written once (`NBINC = 0`)
gives that value to every subset of the request and the reader stands right behind NBINC — nothing is skipped.
(The library skipped `nbits·(from−1)` and `nbits·(n−to)` bits here when a range was asked for: repaired.) -/
theorem C14_ieee_column_const (r : R) (cb : Node) (col : List Node) (g : Range) (v0 : Nat)
    (rest : List Bool) (hI : RInv r) (hnb : 1 ≤ cb.enc.nbits ∧ cb.enc.nbits ≤ 64)
    (hb : r.bits = bitsMSB cb.enc.nbits.toNat v0 ++ bitsMSB 6 0 ++ rest) :
    ∃ r', getIeeeCompressed r (cb :: col) g =
        some (r', (cb :: col).map (fun n => ieeeSetv n (v0 % 2^cb.enc.nbits.toNat))) ∧
      r'.bits = rest ∧ RInv r' :=
  getIeeeCompressed_const r cb col g v0 rest hI hnb hb

/-- **IEEE column, listed form, any slice, any encoder**: for *every* bit string of the listed form (any first
value, any non-zero NBINC) a request `from..to` returns exactly the values of subsets `from..to` and leaves the
reader behind the whole column -/
theorem C14_ieee_column_listed (r : R) (cb : Node) (col : List Node) (g : Range) (v0 k : Nat)
    (vals : List Nat) (rest : List Bool) (hI : RInv r) (hnb : 1 ≤ cb.enc.nbits ∧ cb.enc.nbits ≤ 64)
    (hk0 : 0 < k) (hk63 : k < 64) (hg : g.OK) (hlen : vals.length = g.nsub)
    (hb : r.bits = bitsMSB cb.enc.nbits.toNat v0 ++ bitsMSB 6 k ++ vals.flatMap (bitsMSB cb.enc.nbits.toNat) ++ rest) :
    ∃ r', getIeeeCompressed r (cb :: col) g =
        some (r', zipWithNodes ieeeSetv (cb :: col) ((g.slice vals).map (· % 2^cb.enc.nbits.toNat))) ∧
      r'.bits = rest ∧ RInv r' :=
  getIeeeCompressed_listed r cb col g v0 k vals rest hI hnb hk0 hk63 hg hlen hb

/-- the hypotheses are met: three 32-bit values listed (NBINC = 32), subsets 2..3 asked for -/
example :
    let r := R.ofBytes [0x40, 0x49, 0x0f, 0xdb, 0x81, 0x01, 0x24, 0x3f, 0x6c, 0xfe, 0x00, 0x00, 0x03, 0x0b, 0xdb, 0xa5, 0xe4]
    let cb : Node := { desc := 12101, enc := { type := .ieee, nbits := 32 } }
    (getIeeeCompressed r [cb, cb] (⟨3, 2, 3⟩ : Range)).map (fun p => p.2.map (·.val)) =
      some [(ieeeSetv cb 0x3f800000).val, (ieeeSetv cb 0xc2f6e979).val] := by decide +kernel

/-- a request `from..to` keeps exactly `to − from + 1` subsets -/
theorem C14_slice_length {α} (g : Range) (hg : 1 ≤ g.from_ ∧ g.from_ ≤ g.to ∧ g.to ≤ g.nsub) (l : List α)
    (hl : l.length = g.nsub) : (g.slice l).length = (g.to - g.from_ + 1).toNat := by
  rw [Range.slice_length g (Or.inr hg) l hl]
  unfold Range.count; rw [if_pos (by omega)]

/-- **uncompressed, fixed length** (static templates): starting the subset loop at the bits of
subset `a` and running it for `b − a + 1` subsets returns exactly those subsets — the bits of the other
subsets are never looked at -/
theorem C14_fixed_subsets (T : Tables) (edition : Nat) (enforce : Enforce) (fuel s4max : Nat)
    (bsq : List Node) (nbitsSeq : Int) (from_ to_ : Int)
    (hfuel : bsq.length < fuel) (hok : staticOK T edition { enforce := enforce } bsq = true)
    (kept : List (List Node)) (st : DecSt) (rest : List Bool)
    (hp : ∀ ms ∈ kept, List.Forall₂ Pair bsq ms) (hI : RInv st.r)
    (hb : st.r.bits = kept.flatMap (fun ms => ms.flatMap nodeBits) ++ rest) :
    ∃ st', decodeUncompressed T edition enforce fuel s4max bsq nbitsSeq true from_ to_ kept.length 0 st [] =
        .ok (st', kept.map (fun ms => mkvalAll (List.zipWith readBack' bsq ms))) ∧
      st'.invalid = st.invalid ∧ st'.r.bits = rest := by
  obtain ⟨st', e, hinv, hb', _⟩ := decodeUncompressed_static T edition enforce fuel s4max bsq nbitsSeq true from_ to_
    (Or.inl rfl) hfuel hok kept 0 st [] rest hp hI hb
  exact ⟨st', by simpa using e, hinv, hb'⟩

/-- datasets of a different template are refused, and the destination is left as it was -/
theorem C14_merge_refuses (blank : List Node) (dest src : List (List Node)) (dp sp : Nat) (nb : Int) :
    mergeDataset false blank dest src dp sp nb = (-1, dest) := by
  unfold mergeDataset; simp

theorem mergeCore_step (dest1 src : List (List Node)) (dc dp sp k : Nat) :
    mergeCore dest1 src dc dp sp (k + 1) =
      (if dp + k < dc then (mergeCore dest1 src dc dp sp k).set (dp + k) ((src[sp + k]?).getD [])
       else mergeCore dest1 src dc dp sp k ++ [(src[sp + k]?).getD []]) := by
  unfold mergeCore
  rw [List.range_succ, List.foldl_append]; rfl

theorem mergeCore_length (src : List (List Node)) (sp : Nat) (dest1 : List (List Node)) (dp : Nat)
    (h : dp < dest1.length) : ∀ (nb : Nat),
    (mergeCore dest1 src dest1.length dp sp nb).length = max dest1.length (dp + nb) := by
  intro nb
  induction nb with
  | zero => simp [mergeCore]; omega
  | succ k ih =>
    rw [mergeCore_step]
    split
    · rw [List.length_set, ih]; omega
    · rw [List.length_append, ih]; simp; omega

theorem mergeCore_places (src : List (List Node)) (sp : Nat) (dest1 : List (List Node)) (dp : Nat)
    (h : dp < dest1.length) : ∀ (nb : Nat), sp + nb ≤ src.length →
    (∀ i, i < nb → (mergeCore dest1 src dest1.length dp sp nb)[dp + i]? = src[sp + i]?) ∧
    (∀ j, j < dp → (mergeCore dest1 src dest1.length dp sp nb)[j]? = dest1[j]?) ∧
    (∀ j, dp + nb ≤ j → (mergeCore dest1 src dest1.length dp sp nb)[j]? = dest1[j]?) := by
  intro nb
  induction nb with
  | zero => intro _; simp [mergeCore]
  | succ k ih =>
    intro hs
    obtain ⟨a, b, c⟩ := ih (by omega)
    have hl := mergeCore_length src sp dest1 dp h k
    have hsrc : (src[sp + k]?).getD [] = src[sp + k]'(by omega) := by
      rw [List.getElem?_eq_getElem (by omega)]; rfl
    rw [mergeCore_step]
    split
    · next hlt =>
      have hlt' : dp + k < (mergeCore dest1 src dest1.length dp sp k).length := by rw [hl]; omega
      refine ⟨?_, ?_, ?_⟩
      · intro i hi
        by_cases hik : i = k
        · subst hik
          rw [List.getElem?_set_self hlt', hsrc, List.getElem?_eq_getElem (by omega)]
        · rw [List.getElem?_set_ne (by omega)]; exact a i (by omega)
      · intro j hj; rw [List.getElem?_set_ne (by omega)]; exact b j hj
      · intro j hj; rw [List.getElem?_set_ne (by omega)]; exact c j (by omega)
    · next hge =>
      have hlen : (mergeCore dest1 src dest1.length dp sp k).length = dp + k := by omega
      refine ⟨?_, ?_, ?_⟩
      · intro i hi
        by_cases hik : i = k
        · subst hik
          rw [List.getElem?_append_right (by omega), hlen]
          simp [hsrc, List.getElem?_eq_getElem (show sp + i < src.length by omega)]
        · rw [List.getElem?_append_left (by omega)]; exact a i (by omega)
      · intro j hj; rw [List.getElem?_append_left (by omega)]; exact b j hj
      · intro j hj
        rw [List.getElem?_eq_none (by simp; omega)]
        rw [List.getElem?_eq_none (by omega)]

/-- the number of subsets `bufr_merge_dataset` copies: what was asked for, but no more than the
source holds from `sp` on -/
def mergeCount (srcLen sp nb : Nat) : Nat := min nb (srcLen - sp)

theorem mergeDataset_nb1 (srcLen sp nb : Nat) :
    (let nb0 : Int := if (nb : Int) > (srcLen : Int) then (srcLen : Int) else (nb : Int)
     if sp > 0 ∧ nb0 > (srcLen : Int) - sp then (srcLen : Int) - sp else nb0) =
    (if sp ≤ srcLen then ((mergeCount srcLen sp nb : Nat) : Int) else (srcLen : Int) - sp) := by
  unfold mergeCount
  simp only []
  split <;> split <;> split <;> omega

/-- **equal subsets at the requested positions, for every (destination position, source position,
count) triple** with the source position inside the source.  For datasets of the same template, at
any destination position — inside, at the end or beyond the end of the destination — and for any
count, also one that runs past the end of the source: `bufr_merge_dataset` copies
`m = min nb (|src| − sp)` subsets and returns `m`, destination position `dp + i` holds source
subset `sp + i` for `i < m`, and every destination subset outside `dp … dp+m−1` is what it was.
(Before the repair recorded as C14-merge-count-past-source the library copied `nb` "subsets", the
ones past the end of the source as subsets without descriptors, over valid destination subsets.) -/
theorem C14_merge_clamps (blank : List Node) (dest src : List (List Node)) (dp sp nb : Nat)
    (hs : sp ≤ src.length) :
    (mergeDataset true blank dest src dp sp nb).1 = mergeCount src.length sp nb ∧
    (∀ i, i < mergeCount src.length sp nb → (mergeDataset true blank dest src dp sp nb).2[dp + i]? = src[sp + i]?) ∧
    (∀ j, j < dest.length → (j < dp ∨ dp + mergeCount src.length sp nb ≤ j) →
      (mergeDataset true blank dest src dp sp nb).2[j]? = dest[j]?) := by
  unfold mergeDataset
  simp only [Bool.not_true, Bool.false_eq_true, if_false]
  have h1 := mergeDataset_nb1 src.length sp nb
  simp only [] at h1
  rw [h1, if_pos hs]
  generalize hm : mergeCount src.length sp nb = m
  have hmle : sp + m ≤ src.length := by rw [← hm]; unfold mergeCount; omega
  have hneg : ¬ ((m : Int) < 0) := by omega
  simp only [hneg, if_false, Int.toNat_natCast, true_and]
  generalize hd1 : (if dp ≥ dest.length then dest ++ List.replicate (dp - dest.length + 1) blank else dest) = dest1
  have hdp : dp < dest1.length := by
    rw [← hd1]; split
    · simp; omega
    · omega
  have hpre : ∀ j, j < dest.length → dest1[j]? = dest[j]? := by
    intro j hj; rw [← hd1]; split
    · rw [List.getElem?_append_left hj]
    · rfl
  obtain ⟨a, b, c⟩ := mergeCore_places src sp dest1 dp hdp m hmle
  refine ⟨a, ?_⟩
  intro j hj hor
  rcases hor with h | h
  · rw [b j h, hpre j hj]
  · rw [c j h, hpre j hj]

/-- the request inside the source (`sp + nb ≤ |src|`): exactly `nb` subsets -/
theorem C14_merge_places (blank : List Node) (dest src : List (List Node)) (dp sp nb : Nat)
    (hs : sp + nb ≤ src.length) :
    (mergeDataset true blank dest src dp sp nb).1 = nb ∧
    (∀ i, i < nb → (mergeDataset true blank dest src dp sp nb).2[dp + i]? = src[sp + i]?) ∧
    (∀ j, j < dest.length → (j < dp ∨ dp + nb ≤ j) → (mergeDataset true blank dest src dp sp nb).2[j]? = dest[j]?) := by
  have hm : mergeCount src.length sp nb = nb := by unfold mergeCount; omega
  have := C14_merge_clamps blank dest src dp sp nb (by omega)
  rw [hm] at this
  exact this

/-! ### Non-vacuity -/
example : (⟨5, 2, 4⟩ : Range).slice [10, 20, 30, 40, 50] = [20, 30, 40] := by decide
example : (mergeDataset true [] [[], [], []] [[{ desc := 1 }], [{ desc := 2 }]] 2 0 2).2 = [[], [], [{ desc := 1 }], [{ desc := 2 }]] := by
  decide
-- a count that runs past the end of the source: one subset is copied, the destination's others stay
example : mergeDataset true [] [[{ desc := 7 }], [{ desc := 8 }], [{ desc := 9 }]] [[{ desc := 1 }], [{ desc := 2 }]] 0 1 2 =
    (1, [[{ desc := 2 }], [{ desc := 8 }], [{ desc := 9 }]]) := by decide

end Bufr.C14
