import BufrProofs.Bits
/-
  C11 — Bit-level I/O: what is written is what is read, at every width and offset.

  Property theorems only (helper lemmas live in BufrProofs/Bits.lean).
  Model: BufrModel/Bits.lean (`W` writer, `R` reader), tied to bufr_io.c by the
  `w.*`/`r.*` correspondence streams.
-/
namespace Bufr.C11
open Bufr

/-- **put**: a write of up to 64 bits appends exactly those bits, most significant first, with
no gap; it touches nothing beyond the 10-byte slack of the allocation; and the buffer is grown so
the same holds for the next call. -/
theorem C11_put (w : W) (v n : Nat) (hI : WInv w) (hc : CapInv w) (hn : n ≤ 64) :
    (w.putbits v n).bits = w.bits ++ bitsMSB n v ∧ WInv (w.putbits v n) ∧
    CapInv (w.putbits v n) ∧ w.maxTouched n < w.maxDataLen + 10 := by
  have h1 := putbits_bits w v n hI
  have h2 := putbits_cap w v n hI hc hn
  exact ⟨h1.1, h1.2, h2.2, h2.1⟩

/-- **get**: a read that fits returns the next `n` bits, no error, cursor advanced by `n`. -/
theorem C11_get (r : R) (n : Nat) (hI : RInv r) (hn : 1 ≤ n ∧ n ≤ 64) (hr : n ≤ r.bits.length) :
    (r.getbits n).1 = ofBitsMSB (r.bits.take n) ∧ (r.getbits n).2.1 = 0 ∧
    (r.getbits n).2.2.bits = r.bits.drop n ∧ RInv (r.getbits n).2.2 := by
  obtain ⟨hn1, hn2⟩ := hn
  have hfit : r.pos + n ≤ 8 * r.maxDataLen := by rw [bits_length_r] at hr; omega
  obtain ⟨r', e, _, hI', _, _⟩ := getbits_ok r n hI hn1 hn2 hfit
  have hb := getbits_ok_bits r n hI hn1 hn2 hfit
  rw [e] at hb ⊢
  exact ⟨rfl, rfl, hb, hI'⟩

/-- **get past the end**: an error is reported (and the model reads no byte at an index
`≥ maxDataLen`: every access in `R.getbits` is `r.byte cur` under the guard `cur < maxDataLen`). -/
theorem C11_get_past_end (r : R) (n : Nat) (hI : RInv r) (hn : 1 ≤ n ∧ n ≤ 64)
    (hr : r.bits.length < n) (hpos : r.pos ≤ 8 * r.maxDataLen) : (r.getbits n).2.1 < 0 := by
  apply getbits_past_end r n hI hn.1 hn.2
  rw [bits_length_r] at hr; omega

/-- **skip**: skipping `n ≥ 0` bits leaves the cursor exactly where reading `n` bits would. -/
theorem C11_skip (r : R) (n : Nat) (hI : RInv r) (hn : n ≤ 64) (hr : n ≤ r.bits.length) :
    (r.skipBits n).1 = 0 ∧ (r.skipBits n).2 = (r.getbits n).2.2 := by
  by_cases h0 : n = 0
  · subst h0; simp [R.skipBits, R.getbits]
  have hfit : r.pos + n ≤ 8 * r.maxDataLen := by rw [bits_length_r] at hr; omega
  obtain ⟨rs, es, hps, hIs, hds, hms⟩ := skipBits_ok r n hI hfit
  obtain ⟨rg, eg, hpg, hIg, hdg, hmg⟩ := getbits_ok r n hI (by omega) hn hfit
  rw [es, eg]
  refine ⟨rfl, ?_⟩
  exact R.ext_pos _ _ hIs hIg (by rw [hds, hdg]) (by rw [hms, hmg]) (by rw [hps, hpg])

/-- skipping any number of bits (not only `≤ 64`) that fit: cursor `+ n`, no error. -/
theorem C11_skip_any (r : R) (n : Nat) (hI : RInv r) (hr : n ≤ r.bits.length) :
    (r.skipBits n).1 = 0 ∧ (r.skipBits n).2.pos = r.pos + n ∧ (r.skipBits n).2.bits = r.bits.drop n := by
  by_cases h0 : n = 0
  · subst h0; simp [R.skipBits]
  have hfit : r.pos + n ≤ 8 * r.maxDataLen := by rw [bits_length_r] at hr; omega
  obtain ⟨rs, es, hps, _, hds, hms⟩ := skipBits_ok r n hI hfit
  rw [es]
  refine ⟨rfl, hps, ?_⟩
  simp only
  unfold R.bits
  rw [List.drop_drop, hps]
  have : rs.allBits = r.allBits := by unfold R.allBits R.byte; rw [hds, hms]
  rw [this]

/-- **skip past the end**: a skip that does not fit reports an error — also when the cursor already stands at
the end of the section, where `bufr_skip_bits` used to answer 0 for skips of 1 to 8 bits and move the cursor
beyond the end (repaired in the library; `r.skip` in the stream). -/
theorem C11_skip_past_end (r : R) (n : Nat) (hI : RInv r) (hn : 0 < n)
    (hr : r.bits.length < n) (hpos : r.pos ≤ 8 * r.maxDataLen) : (r.skipBits n).1 = -1 := by
  apply skipBits_past_end r n hI hn
  rw [bits_length_r] at hr; omega

/-- the case the original code got wrong: the cursor at the end of a 2-octet section, one more bit to skip -/
example : (((R.ofBytes [0xaa, 0xbb]).skipBits 16).2.skipBits 1).1 = -1 := by decide

/-- **fields**: any sequence of fields of 1..64 bits written starting at *any* bit offset (any
writer state satisfying the invariant) is read back identically from the bytes produced. -/
theorem C11_fields (w0 : W) (fs : List (Nat × Nat)) (hI : WInv w0) (hc : CapInv w0)
    (hfs : ∀ f ∈ fs, 1 ≤ f.2 ∧ f.2 ≤ 64) :
    let w := w0.putFields fs
    let r0 := R.ofBytes w.bytes
    let r := { r0 with cur := w0.filled, bitno := w0.bitno }
    CapInv w ∧ ∃ r', r.getFields (fs.map (·.2)) = some (fs.map (fun f => f.1 % 2^f.2), r') ∧
      r'.pos = w.pos := by
  intro w r0 r
  obtain ⟨hb, hIw⟩ := putFields_bits fs w0 hI
  have hcap := putFields_cap fs (fun f hf => (hfs f hf).2) w0 hI hc
  refine ⟨hcap, ?_⟩
  obtain ⟨pad, hall⟩ := ofBytes_allBits w hIw
  have hrI : RInv r := ⟨hI.bitno_lt⟩
  have hrb : r.bits = fieldBits fs ++ pad := by
    have : r.allBits = r0.allBits := rfl
    unfold R.bits
    rw [this, hall]
    have hpos : r.pos = w0.bits.length := by rw [bits_length _ hI]; rfl
    rw [hpos]
    show List.drop _ ((w0.putFields fs).bits ++ pad) = _
    rw [hb, List.append_assoc, List.drop_left]
  obtain ⟨r', e, _, _, hp⟩ := getFields_ok fs hfs r pad hrI hrb
  refine ⟨r', e, ?_⟩
  rw [hp]
  have h1 : r.pos = w0.pos := rfl
  have h2 := bits_length _ hIw
  have h3 := bits_length _ hI
  show _ = (w0.putFields fs).pos
  rw [h1, ← h2, hb, List.length_append, h3]

/-- **strings**: a padded string written with `bufr_put_padstring` occupies exactly `enclen`
octets: the first `min len enclen` characters, then blanks. -/
theorem C11_padstring (w : W) (s : List Nat) (enclen : Nat) (hI : WInv w) :
    (w.putPadString s enclen).bits =
      w.bits ++ ((s.take enclen ++ List.replicate (enclen - s.length) 32).flatMap (bitsMSB 8)) := by
  unfold W.putPadString
  have key : ∀ (cs : List Nat) (w : W), WInv w →
      (cs.foldl (fun w c => w.putbits c 8) w).bits = w.bits ++ cs.flatMap (bitsMSB 8) ∧
      WInv (cs.foldl (fun w c => w.putbits c 8) w) := by
    intro cs
    induction cs with
    | nil => intro w h; simp [h]
    | cons c cs ih =>
      intro w h
      obtain ⟨p1, p2⟩ := putbits_bits w c 8 h
      obtain ⟨q1, q2⟩ := ih _ p2
      simp only [List.foldl_cons]
      exact ⟨by rw [q1, p1, List.append_assoc]; simp [List.flatMap_cons], q2⟩
  obtain ⟨a1, a2⟩ := key (s.take enclen) w hI
  obtain ⟨b1, _⟩ := key (List.replicate (enclen - s.length) 32) _ a2
  simp only
  rw [b1, a1, List.append_assoc, List.flatMap_append]

/-! ### Non-vacuity: the hypotheses are met by concrete, non-trivial states -/

example : WInv (W.new 4) ∧ CapInv (W.new 4) := ⟨WInv_new 4, by simp [CapInv, W.new, W.filled]⟩

/-- a writer at bit offset 3 with one byte done -/
example : WInv ((W.new 4).putbits 0x5a5 11) ∧ ((W.new 4).putbits 0x5a5 11).bitno = 3 :=
  ⟨(putbits_bits _ _ _ (WInv_new 4)).2, by decide⟩

/-- the model really reads back a 64-bit field written across 9 bytes at offset 3 -/
example :
    let w := ((W.new 4).putbits 5 3).putbits 0xfedcba9876543210 64
    let r := R.ofBytes w.bytes
    ((r.getbits 3).2.2.getbits 64).1 = 0xfedcba9876543210 := by decide

/-- a reader in the middle of a section -/
example : RInv { data := #[0xaa, 0xbb, 0xcc], cur := 1, bitno := 5, maxDataLen := 3 } := ⟨by decide⟩

/-- the boundary case the original code got wrong: a 16-bit read ending exactly at the end,
then one more read, which must fail -/
example :
    let r := R.ofBytes [0xaa, 0xbb]
    (r.getbits 16).1 = 0xaabb ∧ ((r.getbits 16).2.2.getbits 8).2.1 = -1 := by decide

/-- the other boundary case: a zero-length skip on a byte boundary does not move -/
example : ((R.ofBytes [1, 2, 3]).skipBits 0).2.pos = 0 := by decide

end Bufr.C11
