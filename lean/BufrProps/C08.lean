import BufrProofs.Scale
import BufrProofs.ScaleSingle
/-
  C08 — Scaling arithmetic: every representable raw value survives decode then encode.

  Property theorems only (helper lemmas: BufrProofs/SoftFloat.lean, Scale.lean, ScaleSingle.lean).
  Model: BufrModel/Scale.lean over the exact soft-float BufrModel/SoftFloat.lean, tied to
  bufr_tables.c / bufr_value.c / bufr_desc.c by the `cvt.*` correspondence streams.

  Domain (`Enc.Valid`): width 1..32, |reference| ≤ 2^30, scale −16..15 — every numeric entry of every
  shipped Table B version and the synthetic sweep of the check.  All statements quantify over ALL
  encodings of the domain and ALL raw values / rationals; nothing is enumerated.
  `pow(10,s)` is `fl 53 (10^s)` (contract checked at run time by `scale.powcheck`).
-/
namespace Bufr.C08
open Bufr Bufr.SF Bufr.Scale

/-! ## clause 4b — a value on the quantisation grid encodes to its raw value -/

/-- **encode on the grid**: a physical value within ½ − 2^−18 (in units of 10^−scale) of grid
point `k`, whose raw value `k − ref` is a valid non-missing pattern, and which passes the library's
own range test `fmin ≤ x ≤ fmax`, is stored as `k − ref` — whichever of the four arithmetic
branches (`delta < reference`, `fval > 0`, `round(fval·10^s)`, and `round(fval/10^−s)` for
`scale < 0`) the C code takes.
(The margin is 2^−18 rather than DESIGN's 2^−20: with |k| up to 2^32+2^30 two roundings of
a product already cost 1.25·2^−20.) -/
theorem C08_encode_grid (code : Desc) (e : Enc) (hv : e.Valid) (x : ℚ) (k : ℤ)
    (hk : 0 ≤ k - e.ref ∧ k - e.ref < 2 ^ e.nbits - 1)
    (hx : |x * (10:ℚ) ^ e.scale - k| ≤ 1 / 2 - 1 / 2 ^ 18)
    (hr : dFmin e ≤ x ∧ x ≤ dFmax e) :
    cvtDvalToI64 code e (.fin x) = (k - e.ref).toNat :=
  cvtDvalToI64_onGrid code e hv x k
    ⟨hk.1, lt_of_lt_of_le hk.2 (by have := two_pow_nbits_le e hv; omega), hx⟩ hk.2
    (not_lt.mpr hr.1) (not_lt.mpr hr.2)

example : (⟨2, -27315, 16⟩ : Enc).Valid := by decide
example : cvtDvalToI64 12101 ⟨2, -27315, 16⟩ (.fin (2665 / 100)) = 29980 := by decide +kernel
example : dFmin ⟨2, -27315, 16⟩ ≤ 2665 / 100 ∧ (2665:ℚ) / 100 ≤ dFmax ⟨2, -27315, 16⟩ := by
  decide +kernel

/-- the same away from the two edge grid points: no range hypothesis is needed, the library's
range test cannot reject the value -/
theorem C08_encode_grid_interior (code : Desc) (e : Enc) (hv : e.Valid) (x : ℚ) (k : ℤ)
    (hk : 1 ≤ k - e.ref ∧ k - e.ref < 2 ^ e.nbits - 2)
    (hx : |x * (10:ℚ) ^ e.scale - k| ≤ 1 / 2 - 1 / 2 ^ 18) :
    cvtDvalToI64 code e (.fin x) = (k - e.ref).toNat := by
  have hp := two_pow_nbits_le e hv
  have hg : OnGrid e x k := ⟨by omega, by omega, hx⟩
  have hy := hg.ybound hv
  have hxx := abs_le.mp hx
  have hkq : ((e.ref:ℚ)) + 1 ≤ (k:ℚ) := by
    have : e.ref + 1 ≤ k := by omega
    exact_mod_cast this
  have hkM : (k:ℚ) + 1 ≤ (((2:ℤ) ^ e.nbits - 2 + e.ref : ℤ) : ℚ) := by
    have : k + 1 ≤ (2:ℤ) ^ e.nbits - 2 + e.ref := by omega
    exact_mod_cast this
  apply cvtDvalToI64_onGrid code e hv x k hg (by omega)
  · exact ge_fmin_of_scaled e hv x (by unfold T10; linarith [hxx.1])
  · exact le_fmax_of_scaled e hv x (by unfold T10; linarith [hxx.2])

example : (1:ℤ) ≤ 2665 - (-27315) ∧ (2665:ℤ) - (-27315) < 2 ^ 16 - 2 := by decide

/-! ## clause 1 — round trip -/

/-- **round trip** (double path): for every encoding of the domain and every raw value below the
all-ones pattern, converting to the physical value and back yields the raw value -/
theorem C08_roundtrip (code : Desc) (e : Enc) (hv : e.Valid) (i : ℕ) (hi : i < 2 ^ e.nbits - 1) :
    cvtDvalToI64 code e (.fin (cvtI64ToDval e i)) = i := by
  have h1 : (1:ℕ) ≤ 2 ^ e.nbits := Nat.one_le_two_pow
  have hi' : (i:ℤ) < 2 ^ e.nbits - 1 := by
    have : (i:ℤ) < ((2 ^ e.nbits - 1 : ℕ) : ℤ) := by exact_mod_cast hi
    rw [Nat.cast_sub h1] at this; push_cast at this; exact this
  have h0 : (0:ℤ) ≤ i := Int.natCast_nonneg i
  have := cvtDvalToI64_onGrid code e hv _ _ (decode_onGrid e hv i h0 hi') (by omega)
    (decode_ge_fmin e hv i h0 hi') (decode_le_fmax e hv i h0 hi')
  rw [this]
  simp

example : (29980:ℕ) < 2 ^ (⟨2, -27315, 16⟩ : Enc).nbits - 1 := by decide
example : cvtDvalToI64 12101 ⟨2, -27315, 16⟩ (.fin (cvtI64ToDval ⟨2, -27315, 16⟩ 29980)) = 29980 := by
  decide +kernel
-- an all-negative range (0 02 129: scale 0, reference −150, 5 bits), where `fmax` is computed from a
-- wrapped unsigned sum, and a scale for which `(int)pow(10,s)` does not fit an `int`
example : (⟨0, -150, 5⟩ : Enc).Valid ∧ (⟨15, -8000, 14⟩ : Enc).Valid ∧ (⟨-16, 0, 6⟩ : Enc).Valid := by decide
example : cvtDvalToI64 2129 ⟨0, -150, 5⟩ (.fin (cvtI64ToDval ⟨0, -150, 5⟩ 30)) = 30 := by decide +kernel
example : cvtDvalToI64 59118 ⟨15, -8000, 14⟩ (.fin (cvtI64ToDval ⟨15, -8000, 14⟩ 16382)) = 16382 := by
  decide +kernel

/-! ## clause 2 — order -/

/-- **strictly increasing**: physical values increase strictly with the raw value -/
theorem C08_strict_mono (e : Enc) (hv : e.Valid) (i j : ℕ) (h : i < j) (hj : j < 2 ^ e.nbits - 1) :
    cvtI64ToDval e i < cvtI64ToDval e j := by
  have h1 : (1:ℕ) ≤ 2 ^ e.nbits := Nat.one_le_two_pow
  have hj' : (j:ℤ) < 2 ^ e.nbits - 1 := by
    have : (j:ℤ) < ((2 ^ e.nbits - 1 : ℕ) : ℤ) := by exact_mod_cast hj
    rw [Nat.cast_sub h1] at this; push_cast at this; exact this
  exact decode_strict_mono e hv i j (Int.natCast_nonneg i) (by exact_mod_cast h) hj'

example : cvtI64ToDval ⟨2, -27315, 16⟩ 29980 < cvtI64ToDval ⟨2, -27315, 16⟩ 29981 := by decide +kernel

/-! ## clause 3 — missing -/

/-- **missing iff all ones** (decode side): a raw value of the width decodes to the library's
"missing" double exactly when it is the all-ones pattern.  (Class 31 is handled by the callers of
the conversion, which never treat a delayed-replication count as missing; `C08_class31_count`.) -/
theorem C08_missing_iff (e : Enc) (hv : e.Valid) (i : ℕ) (hi : i ≤ 2 ^ e.nbits - 1) :
    isMissingDouble (.fin (cvtI64ToDval e i)) = true ↔ i = 2 ^ e.nbits - 1 := by
  have h1 : (1:ℕ) ≤ 2 ^ e.nbits := Nat.one_le_two_pow
  constructor
  · intro hm
    by_contra hne
    have hlt : i < 2 ^ e.nbits - 1 := lt_of_le_of_ne hi hne
    have hi' : (i:ℤ) < 2 ^ e.nbits - 1 := by
      have : (i:ℤ) < ((2 ^ e.nbits - 1 : ℕ) : ℤ) := by exact_mod_cast hlt
      rw [Nat.cast_sub h1] at this; push_cast at this; exact this
    have := decode_not_missing e hv i (Int.natCast_nonneg i) hi'
    simp [isMissingDouble] at hm
    exact this hm
  · intro h
    have : ((i:ℕ):ℤ) = 2 ^ e.nbits - 1 := by rw [h, Nat.cast_sub h1]; push_cast; ring
    rw [this, decode_missing e hv]
    simp [isMissingDouble]

example : isMissingDouble (.fin (cvtI64ToDval ⟨2, -27315, 16⟩ 65535)) = true := by decide +kernel
example : isMissingDouble (.fin (cvtI64ToDval ⟨2, -27315, 16⟩ 65534)) = false := by decide +kernel

/-- **missing encodes to all ones** (encode side): NaN, ±∞ and `DBL_MAX` are stored as the all-ones
pattern; by `C08_encode_grid` no value on the grid is -/
theorem C08_encode_missing (code : Desc) (e : Enc) (hv : e.Valid) (x : FP)
    (h : isMissingDouble x = true) : cvtDvalToI64 code e x = 2 ^ e.nbits - 1 :=
  encode_missing code e hv x h

example : cvtDvalToI64 12101 ⟨2, -27315, 16⟩ .nan = 65535 := by decide +kernel

/-- class 31: the largest count `2^n − 1` is accepted as a value (Reg. 94.1.5) -/
theorem C08_class31_count (e : Enc) (hv : e.Valid) (x : ℚ) (h : x > dFmax e) :
    cvtDvalToI64 31001 e (.fin x) = 2 ^ e.nbits - 1 :=
  encode_rejected 31001 e hv x (Or.inr h)

example : cvtDvalToI64 31001 ⟨0, 0, 8⟩ (.fin 255) = 255 := by decide +kernel

/-- the all-ones pattern of `bufr_missing_ivalue`, for every width 1..64 (full strength since the
`1ULL << 64` repair, DESIGN §10 #23) -/
theorem C08_missing_pattern (n : ℕ) (h1 : 1 ≤ n) (h64 : n ≤ 64) :
    missingIvalue n = 2 ^ n - 1 := by
  by_cases h : n ≤ 63
  · exact missingIvalue_eq n h1 h
  · have : n = 64 := by omega
    subst this
    exact missingIvalue_ge64 _ (by norm_num)

example : missingIvalue 12 = 4095 := by decide
example : missingIvalue 64 = 18446744073709551615 := by decide

/-! ## clause 4a — out of range -/

/-- **out of range**: a physical value more than half a unit below the smallest or above the largest
representable value is stored as the all-ones pattern, never as another value — for every encoding
of the domain, all-negative ranges and negative scales included (full strength since the repairs of
the wrapped upper bound and of the missing overflow test in the `scale < 0` branch). -/
theorem C08_out_of_range (code : Desc) (e : Enc) (hv : e.Valid) (x : ℚ)
    (h : x * (10:ℚ) ^ e.scale < (e.ref:ℚ) - 1 / 2 ∨
         x * (10:ℚ) ^ e.scale > (((2:ℤ) ^ e.nbits - 2 + e.ref : ℤ) : ℚ) + 1 / 2) :
    cvtDvalToI64 code e (.fin x) = 2 ^ e.nbits - 1 := by
  rcases h with h | h
  · exact encode_rejected code e hv x (Or.inl (below_fmin e hv x h))
  · exact encode_rejected code e hv x (Or.inr (above_fmax e hv x h))

example : (-274:ℚ) * (10:ℚ) ^ (2:ℤ) < ((-27315:ℤ):ℚ) - 1 / 2 := by norm_num
example : cvtDvalToI64 12101 ⟨2, -27315, 16⟩ (.fin (-274)) = 65535 := by decide +kernel
-- the former counterexamples: all-negative range with scale −1 (10000 was stored as 2000) and with
-- scale 10 (1.2147478651 was stored as 3)
example : (⟨-1, -1000, 8⟩ : Enc).Valid ∧ (⟨10, -5000, 8⟩ : Enc).Valid := by decide
example : cvtDvalToI64 63001 ⟨-1, -1000, 8⟩ (.fin 10000) = 255 := by decide +kernel
example : cvtDvalToI64 63001 ⟨10, -5000, 8⟩ (.fin (12147478651 / 10000000000)) = 255 := by decide +kernel

/-- **out of range, as the code tests it**: a value the library's range test rejects
(`x < fmin` or `x > fmax`) is stored as the all-ones pattern -/
theorem C08_range_test_rejects (code : Desc) (e : Enc) (hv : e.Valid) (x : ℚ)
    (h : x < dFmin e ∨ x > dFmax e) : cvtDvalToI64 code e (.fin x) = 2 ^ e.nbits - 1 :=
  encode_rejected code e hv x h

example : (30000:ℚ) > dFmax ⟨2, -27315, 16⟩ := by decide +kernel
example : cvtDvalToI64 12101 ⟨2, -27315, 16⟩ (.fin 30000) = 65535 := by decide +kernel

/-- **the bounds of a negative-scale element are its exact extreme values**: for `scale < 0` the
library multiplies by the exact `10^−scale`, so when the extreme values are below 2^53 in magnitude
`fmin = ref·10^−scale` and `fmax = (2^n − 2 + ref)·10^−scale` exactly (before the repair they were
`ref / pow(10,scale)` with an inexact power and could land one ulp inside the range) -/
theorem C08_neg_scale_bounds_exact (e : Enc) (hv : e.Valid) (hs : e.scale < 0)
    (hlo : |e.ref| * 10 ^ (-e.scale).toNat < 2 ^ 53)
    (hhi : |(2:ℤ) ^ e.nbits - 2 + e.ref| * 10 ^ (-e.scale).toNat < 2 ^ 53) :
    dFmin e = (e.ref:ℚ) * (10:ℚ) ^ (-e.scale) ∧
    dFmax e = ((((2:ℤ) ^ e.nbits - 2 + e.ref : ℤ)) : ℚ) * (10:ℚ) ^ (-e.scale) := by
  obtain ⟨m, hm⟩ := Int.eq_ofNat_of_zero_le (show 0 ≤ -e.scale by omega)
  have hm22 : m ≤ 22 := by have := hv.s1; omega
  have hQ : pow10 (-e.scale) = (((10:ℤ) ^ m : ℤ) : ℚ) := by rw [hm]; exact pow10_nat m hm22
  have hT : (10:ℚ) ^ (-e.scale) = (((10:ℤ) ^ m : ℤ) : ℚ) := by
    rw [hm]; push_cast; rw [zpow_natCast]
  have htn : (-e.scale).toNat = m := by rw [hm]; simp
  rw [htn] at hlo hhi
  have h10 : (0:ℤ) < 10 ^ m := by positivity
  have hMM : (2:ℤ) ^ e.nbits - 2 + e.ref = (2:ℤ) ^ e.nbits - 1 - 1 + e.ref := by ring
  constructor
  · unfold dFmin
    rw [if_pos hs, hQ, hT, ← Int.cast_mul]
    exact fl_int 53 _ (by rw [abs_mul, abs_of_pos h10]; exact hlo)
  · unfold dFmax
    simp only
    rw [if_pos hs, hQ, hT, ← hMM]
    have hMlt : |(2:ℤ) ^ e.nbits - 2 + e.ref| < 2 ^ 53 := by
      have : |(2:ℤ) ^ e.nbits - 2 + e.ref| * 1 ≤ |(2:ℤ) ^ e.nbits - 2 + e.ref| * 10 ^ m :=
        mul_le_mul_of_nonneg_left (by omega) (abs_nonneg _)
      omega
    rw [fl_int 53 _ hMlt, ← Int.cast_mul]
    exact fl_int 53 _ (by rw [abs_mul, abs_of_pos h10]; exact hhi)

/-- **encode on the grid, negative scale, exact range**: with exact bounds the library's range test is
the true range, so the hypothesis is simply that the scaled value lies in `[ref, 2^n − 2 + ref]` — the
exact minimum and maximum included (DESIGN-form statement; repaired finding "range edge"). -/
theorem C08_encode_grid_neg_scale (code : Desc) (e : Enc) (hv : e.Valid) (hs : e.scale < 0)
    (hlo : |e.ref| * 10 ^ (-e.scale).toNat < 2 ^ 53)
    (hhi : |(2:ℤ) ^ e.nbits - 2 + e.ref| * 10 ^ (-e.scale).toNat < 2 ^ 53)
    (x : ℚ) (k : ℤ) (hk : 0 ≤ k - e.ref ∧ k - e.ref < 2 ^ e.nbits - 1)
    (hx : |x * (10:ℚ) ^ e.scale - k| ≤ 1 / 2 - 1 / 2 ^ 18)
    (hin : (e.ref:ℚ) ≤ x * (10:ℚ) ^ e.scale ∧
           x * (10:ℚ) ^ e.scale ≤ (((2:ℤ) ^ e.nbits - 2 + e.ref : ℤ) : ℚ)) :
    cvtDvalToI64 code e (.fin x) = (k - e.ref).toNat := by
  obtain ⟨h1, h2⟩ := C08_neg_scale_bounds_exact e hv hs hlo hhi
  have hpos : (0:ℚ) < (10:ℚ) ^ (-e.scale) := zpow_pos (by norm_num) _
  have hone : (10:ℚ) ^ e.scale * (10:ℚ) ^ (-e.scale) = 1 := by
    rw [← zpow_add₀ (by norm_num : (10:ℚ) ≠ 0)]; simp
  have hxe : x = x * (10:ℚ) ^ e.scale * (10:ℚ) ^ (-e.scale) := by rw [mul_assoc, hone, mul_one]
  apply C08_encode_grid code e hv x k hk hx
  rw [h1, h2]
  constructor
  · calc (e.ref:ℚ) * (10:ℚ) ^ (-e.scale) ≤ x * (10:ℚ) ^ e.scale * (10:ℚ) ^ (-e.scale) :=
          mul_le_mul_of_nonneg_right hin.1 hpos.le
      _ = x := hxe.symm
  · calc x = x * (10:ℚ) ^ e.scale * (10:ℚ) ^ (-e.scale) := hxe
      _ ≤ _ := mul_le_mul_of_nonneg_right hin.2 hpos.le

-- 0 02 067 (Hz, scale −5, 15 bits): the exact maximum 3276600000 is the bound, and is accepted
example : (⟨-5, 0, 15⟩ : Enc).Valid ∧ |(⟨-5, 0, 15⟩ : Enc).ref| * 10 ^ 5 < 2 ^ 53 ∧
    |(2:ℤ) ^ 15 - 2 + 0| * 10 ^ 5 < 2 ^ 53 := by decide
example : dFmax ⟨-5, 0, 15⟩ = 3276600000 := by decide +kernel
example : cvtDvalToI64 2067 ⟨-5, 0, 15⟩ (.fin 3276600000) = 32766 := by decide +kernel

/-- **the range of `bufr_descriptor_get_range` is the encoder's range test**: outside class 31,
`[min, max]` are exactly the bounds `fmin`, `fmax` the encoder compares with — so a value
`bufr_descriptor_set_dvalue` keeps is never refused by the encoder, and a value it refuses would
have been stored as missing anyway. -/
theorem C08_range_is_encoder_range (code : Desc) (e : Enc) (h31 : Desc.x code ≠ 31) :
    getRange code e = (dFmin e, dFmax e) := by
  unfold getRange dFmin dFmax
  simp only [h31, if_false]
  split_ifs <;> rfl

example : getRange 12101 ⟨2, -27315, 16⟩ = (dFmin ⟨2, -27315, 16⟩, dFmax ⟨2, -27315, 16⟩) := by
  decide +kernel

/-! ## the single-precision path -/

/-- **round trip, single precision, every scale**.  *Partial*: forced hypotheses `|ref| ≤ 2^20` and
`|i + ref| ≤ 2^20`.  A float carries 24 significand bits and the round trip spends two roundings
(`|i+ref|·2^−23`), the `delta < reference` branch a third on `reference/val_pow`; 2^20 is what the
three branches admit with simple constants.  The code is observed (C-side exhaustive sweeps) to
round-trip up to 2^22 and `C08_single_roundtrip_fails` shows it does not at 2^22.1. -/
theorem C08_single_roundtrip_partial (code : Desc) (e : Enc) (hv : e.Valid) (hr : |e.ref| ≤ 2 ^ 20)
    (i : ℕ) (hi : i < 2 ^ e.nbits - 1) (hN : |(i:ℤ) + e.ref| ≤ 2 ^ 20) :
    cvtFvalToI32 code e (.fin (cvtI32ToFval e i)) = i := by
  have h1 : (1:ℕ) ≤ 2 ^ e.nbits := Nat.one_le_two_pow
  have hi' : (i:ℤ) < 2 ^ e.nbits - 1 := by
    have : (i:ℤ) < ((2 ^ e.nbits - 1 : ℕ) : ℤ) := by exact_mod_cast hi
    rw [Nat.cast_sub h1] at this; push_cast at this; exact this
  have hr' := abs_le.mp hr
  have hS : Small20 e (i:ℤ) := ⟨hv, hr, Int.natCast_nonneg i, hi', hN⟩
  rw [cvtI32ToFval_eq e i hv.n1 hv.n32 (by omega) hi' (lt_of_le_of_lt hN (by norm_num))]
  have := cvtFvalToI32_small code e (i:ℤ) hS
  unfold fx at this
  rw [this]; simp

example : (⟨2, -27315, 16⟩ : Enc).Valid ∧ |(⟨2, -27315, 16⟩ : Enc).ref| ≤ 2 ^ 20 ∧
    |((30000:ℕ):ℤ) + (⟨2, -27315, 16⟩ : Enc).ref| ≤ 2 ^ 20 := by decide
example : cvtFvalToI32 12101 ⟨2, -27315, 16⟩ (.fin (cvtI32ToFval ⟨2, -27315, 16⟩ 30000)) = 30000 := by
  decide +kernel

/-- **round trip, single precision, scale 0** — the honest bound of a 24-bit significand.
*Partial*: forced hypotheses `|ref| < 2^24`, `i < 2^24`, `|i + ref| < 2^24`. -/
theorem C08_single_roundtrip_scale0_partial (code : Desc) (e : Enc) (hs : e.scale = 0)
    (hn1 : 1 ≤ e.nbits) (hn : e.nbits ≤ 32) (hr : |e.ref| < 2 ^ 24)
    (i : ℕ) (hi : i < 2 ^ e.nbits - 1) (hi24 : i < 2 ^ 24) (hN : |(i:ℤ) + e.ref| < 2 ^ 24) :
    cvtFvalToI32 code e (.fin (cvtI32ToFval e i)) = i := by
  have h1 : (1:ℕ) ≤ 2 ^ e.nbits := Nat.one_le_two_pow
  have hi' : (i:ℤ) < 2 ^ e.nbits - 1 := by
    have : (i:ℤ) < ((2 ^ e.nbits - 1 : ℕ) : ℤ) := by exact_mod_cast hi
    rw [Nat.cast_sub h1] at this; push_cast at this; exact this
  have hr' := abs_lt.mp hr
  rw [cvtI32ToFval_exact24 e i hs hn1 hn (by omega) hi' hN]
  have hE : Exact24 e ((i:ℤ) + e.ref) :=
    ⟨hs, hn1, hn, hr, hN, by omega, by omega, by omega⟩
  rw [cvtFvalToI32_exact24 code e _ hE]
  simp

example : cvtFvalToI32 63001 ⟨0, 1, 28⟩ (.fin (cvtI32ToFval ⟨0, 1, 28⟩ 16777214)) = 16777214 := by
  decide +kernel

/-- … beyond the hypotheses the single-precision pair does not round-trip:
(a) scale 0, reference 0, 30 bits, raw 2^24 + 1 comes back as 2^24;
(b) scale 7, reference 2^20, 24 bits, raw 3951441 (|i+ref| = 5000017 < 2^24) comes back changed:
for scale ≠ 0 two float roundings cost up to |i+ref|·2^−23, so the honest bound there is 2^22. -/
theorem C08_single_roundtrip_fails :
    cvtFvalToI32 63001 ⟨0, 0, 30⟩ (.fin (cvtI32ToFval ⟨0, 0, 30⟩ 16777217)) ≠ 16777217 ∧
    cvtFvalToI32 63001 ⟨7, 1048576, 24⟩ (.fin (cvtI32ToFval ⟨7, 1048576, 24⟩ 3951441)) ≠ 3951441 := by
  decide +kernel

/-- **the INT32-with-reference path of `bufr_put_desc_value`** (scale 0: the integer is converted to
`double` and sent through the double encoder): every integer of the element's range is stored as
`v − ref`.  Full strength since repository commit 8cba48a (DESIGN §10 #11). -/
theorem C08_int32_path (code : Desc) (e : Enc) (hv : e.Valid) (hs : e.scale = 0)
    (v : ℤ) (hlo : e.ref ≤ v) (hhi : v - e.ref < 2 ^ e.nbits - 1) :
    int32Path code e v = (v - e.ref).toNat := by
  have h0 : 0 ≤ v - e.ref := by omega
  have hp := two_pow_nbits_le e hv
  have hr := abs_le.mp hv.r
  -- at scale 0 the decoder is exact: v is the decoded value of raw v − ref
  have hdec : cvtI64ToDval e (v - e.ref) = (v:ℚ) := by
    rw [cvtI64ToDval_eq e hv _ h0 hhi, dP_of_nonneg e (by omega), hs, pow10_zero, div_one]
    have : v - e.ref + e.ref = v := by ring
    rw [this]
    exact fl_int 53 v (by rw [abs_lt]; constructor <;> omega)
  have hrt := C08_roundtrip code e hv (v - e.ref).toNat (by
    have h1 : (1:ℤ) ≤ 2 ^ e.nbits := one_le_pow₀ (by norm_num)
    zify
    rw [Int.toNat_of_nonneg h0, Nat.cast_sub (by exact_mod_cast h1)]
    push_cast; linarith)
  rw [Int.toNat_of_nonneg h0, hdec] at hrt
  exact hrt

example : (⟨0, 1, 28⟩ : Enc).Valid := by decide
example : int32Path 63001 ⟨0, 1, 28⟩ 16777219 = 16777218 := by decide +kernel

end Bufr.C08
