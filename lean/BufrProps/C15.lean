import BufrModel.History
import BufrModel.Sprintf
import BufrProofs.Sprintf
import BufrProps.C12
import BufrProps.C13
import BufrProps.C19
import Generated.SwitchSites
import Generated.StaticState
import Generated.SprintfSites
/-
  C15 — results do not depend on diagnostic settings or on what was processed before; diagnostic
  text of any length is produced without memory errors.

  Property theorems only.  What each clause rests on:

  * SWITCHES.  The model functions behind encoding and decoding (`createTemplate`, `expandDatasubset`,
    `encodeData`, `decodeData`, the value setters) have no `Switches` parameter: their independence is
    by construction, and `C15_switches` says so for the record the driver keeps (`LibState.sw`).  The
    content is the tie: (1) `C15_sites_covered` — every place where the C reads a switch
    (Generated/SwitchSites.lean, extracted from the current sources on every check) is an accessor
    mirrored by `Switches.set`, or guards statements that syntactically can only produce text, or is
    annotated result-neutral with a one-line reason; (2) the two switches that do reach a model
    function have their own theorems, cited here: `C15_ieee_switch` (C19) and `C15_trimzero_switch`
    (C13); (3) the 16-configuration stream of props/c15.py: the implementation's outputs are equal
    under all settings and equal to the model's.
  * HISTORY.  `C15_history`: whatever sequence of lookups, switch settings, reference-value overrides
    and first uses of static tables came before, the lookup functions the library answers with
    (`History.view`) are the same, the cache invariant of C12 is kept and the tables are untouched;
    `C15_history_function`: hence any function of the tables gives the same result after any two
    histories.  `C15_state_covered`: the inventory of process-wide variables and storage pools
    (Generated/StaticState.lean) contains nothing but switches, handlers, constants filled on first
    use, allocator bookkeeping and last-error information.  Tie: the history stream (alone in a fresh
    process = after any interleaving).
  * TEXT.  `C15_sprintf_bound`: `Sprintf.maxLen` bounds the rendering of every format for all arguments
    of the given C types; `C15_sprintf_site`: a site the generated table calls safe has room for every
    such rendering; `C15_sprintf_partial`: all sites outside the recorded finding are safe;
    `C15_sprintf_fails`: the recorded finding (public printers without a size parameter) is real.
-/
namespace Bufr.C15
open Bufr Bufr.Tbl Bufr.History Bufr.Generated

/-! ## switches -/

/-- **the setters as the C couples them**: debug mode switches verbose mode on and keeps it on;
leaving debug mode gives verbose mode back; the other two are plain assignments. -/
theorem C15_switch_setters (s : Switches) (v : Int) :
    (v ≠ 0 → (s.setDebug v).isDebug = true ∧ (s.setDebug v).isVerbose = true) ∧
    (s.isDebug = true → ((s.setVerbose 0).isVerbose = true)) ∧
    ((s.setDebug 0).isDebug = false) ∧
    (s.verbosemode = 0 → v ≠ 0 → ((s.setDebug v).setDebug 0).verbosemode = 0) ∧
    ((s.setMeta v).isMeta = decide (v ≠ 0) ∧ (s.setTrimzero v).isTrimzero = decide (v ≠ 0)) := by
  refine ⟨fun hv => ?_, fun hd => ?_, ?_, fun h0 hv => ?_, ?_⟩
  · unfold Switches.setDebug Switches.isDebug Switches.isVerbose
    simp only [hv, if_false]
    by_cases h0 : s.verbosemode = 0 <;> simp [h0, hv]
  · unfold Switches.isDebug at hd
    unfold Switches.setVerbose Switches.isVerbose
    have : s.debugmode ≠ 0 := by simpa using hd
    simp [this]
  · unfold Switches.setDebug Switches.isDebug
    by_cases h1 : s.verbosemode = -1 <;> simp [h1]
  · unfold Switches.setDebug
    simp [hv, h0]
  · unfold Switches.setMeta Switches.isMeta Switches.setTrimzero Switches.isTrimzero
    by_cases hv : v = 0 <;> simp [hv]

example : (({} : Switches).setDebug 1).isVerbose = true := by decide
example : ((({} : Switches).setDebug 1).setVerbose 0).isVerbose = true := by decide
example : ((({} : Switches).setVerbose 1).setDebug 1 |>.setDebug 0).isVerbose = true := by decide
example : (((({} : Switches).setDebug 2).setDebug 0)) = {} := by decide

/-- **switch independence of the model**: nothing the library answers depends on the switch record —
for any state, replacing the switches (or running any switch setter) leaves the lookup view, and
with it every model function of the tables, unchanged.  (By construction: the model functions have
no `Switches` parameter; see the header for what ties this to the code.) -/
theorem C15_switches (L : Libc) (h : Heap) (s : LibState) (sw' : Switches) (w : Sw) (v : Int) :
    view L h { s with sw := sw' } = view L h s ∧
    view L h (step L h s (.setSw w v)) = view L h s ∧
    (step L h s (.setSw w v)).tables = s.tables := ⟨rfl, rfl, rfl⟩

/-- the functions C15's workloads go through take the tables, a template, descriptors, values — no switch -/
example (T : Tables) (fuel ed : Nat) (ds : List Nat) : Except XErr Template := createTemplate T fuel ed ds
example (ss : List (List Node)) (flag : Nat) (x : Int) : Nat × W := encodeData ss flag x

/-- **every read of a switch is accounted for** (generated from the current sources): accessor,
alias, syntactically harmless guard, or annotated -/
theorem C15_sites_covered : switchSites.all SwitchSite.covered = true ∧ switchSites.length ≥ 200 := by
  refine ⟨switchSites_covered, ?_⟩
  rw [switchSites_length]; decide

/-- **the native IEEE switch** (C19): both settings decode every pattern to the same value and encode
every non-NaN value to the same pattern -/
theorem C15_ieee_switch :
    (∀ u u' b, ieeeDecodeSingle u b = ieeeDecodeSingle u' b) ∧
    (∀ u u' b, ieeeDecodeDouble u b = ieeeDecodeDouble u' b) ∧
    (∀ u u' b g, b < 2 ^ 64 → ¬ Spec.isNaN 11 52 b → GuessOKV cfg64 (Spec.ieeeValue64 b) g →
      ieeeEncodeDouble u b g = ieeeEncodeDouble u' b g) ∧
    (∀ u u' b g, b < 2 ^ 32 → ¬ Spec.isNaN 8 23 b → GuessOKV cfg32 (Spec.ieeeValue32 b) g →
      ieeeEncodeSingle u b g = ieeeEncodeSingle u' b g) := by
  obtain ⟨h1, h2, _, _, h5, h6⟩ := C19.C19_native_paths
  exact ⟨fun u u' b => by rw [h1 u b, h1 u' b], fun u u' b => by rw [h2 u b, h2 u' b],
         fun u u' b g hb hn hg => by rw [h6 u b g hb hn hg, h6 u' b g hb hn hg],
         fun u u' b g hb hn hg => by rw [h5 u b g hb hn hg, h5 u' b g hb hn hg]⟩

/-- **zero trimming** (C13): the dump text of a decoded value differs with the switch, what the loader
makes of it does not -/
theorem C15_trimzero_switch (trim trim' : Bool) (code : Desc) (h31 : Desc.x code ≠ 31) (e : Scale.Enc) (hv : e.Valid)
    (i : ℕ) (hi : i < 2 ^ e.nbits - 1) :
    Scale.cvtDvalToI64 code e (Printf.strtod (Dump.printScaledValue trim (.f64 (.fin (Scale.cvtI64ToDval e i))) (some e.scale))) =
    Scale.cvtDvalToI64 code e (Printf.strtod (Dump.printScaledValue trim' (.f64 (.fin (Scale.cvtI64ToDval e i))) (some e.scale))) := by
  have a := (C13.C13_value_roundtrip trim code h31 e hv i hi).1
  have b := (C13.C13_value_roundtrip trim' code h31 e hv i hi).1
  exact a.trans b.symm

/-! ## history -/

theorem fetchD_congr (L : Libc) (t t' : BTables) (hm : t'.master = t.master) (hl : t'.loc = t.loc) (d : Nat) :
    Tbl.fetchD L t' d = Tbl.fetchD L t d := by
  unfold Tbl.fetchD; rw [hm, hl]

theorem view_of_inv (L : Libc) (hL : L.Contract) (h : Heap) (s : LibState) (hI : CacheInv h s.tables) :
    view L h s = { fetchB := fun d => lookupSpec (contentB h s.tables.loc.tableB) (contentB h s.tables.master.tableB) d,
                   fetchD := fun d => Tbl.fetchD L s.tables d } := by
  unfold view
  congr 1
  funext d
  rw [(C12.C12_lookup L hL h s.tables d hI).1]
  rfl

theorem step_inv (L : Libc) (hL : L.Contract) (h : Heap) (s : LibState) (hI : CacheInv h s.tables) (op : HOp) :
    CacheInv h (step L h s op).tables ∧ (step L h s op).tables.master = s.tables.master ∧
    (step L h s op).tables.loc = s.tables.loc := by
  cases op with
  | lookupB d =>
    obtain ⟨_, hI', hm, hl⟩ := C12.C12_lookup L hL h s.tables d hI
    exact ⟨hI', hm, hl⟩
  | lookupD d => exact ⟨hI, rfl, rfl⟩
  | setSw w v => exact ⟨hI, rfl, rfl⟩
  | override => exact ⟨hI, rfl, rfl⟩
  | touchStatics => exact ⟨hI, rfl, rfl⟩

/-- **history independence of the lookups**: from a state meeting the cache invariant of C12 (every
state reachable by loading and looking up, `C12_ops_preserve_inv`), any sequence of Table B and
Table D lookups, switch settings, reference-value overrides and first uses of the static tables
keeps the invariant, leaves the loaded tables untouched, and leaves what the library answers to
every lookup — the `Tables` record the model functions take — exactly as it was. -/
theorem C15_history (L : Libc) (hL : L.Contract) (h : Heap) (ops : List HOp) :
    ∀ (s : LibState), CacheInv h s.tables →
      CacheInv h (run L h s ops).tables ∧
      (run L h s ops).tables.master = s.tables.master ∧ (run L h s ops).tables.loc = s.tables.loc ∧
      view L h (run L h s ops) = view L h s := by
  induction ops with
  | nil => intro s hI; exact ⟨hI, rfl, rfl, rfl⟩
  | cons op rest ih =>
    intro s hI
    obtain ⟨hI1, hm1, hl1⟩ := step_inv L hL h s hI op
    obtain ⟨hI2, hm2, hl2, hv2⟩ := ih (step L h s op) hI1
    have hrun : run L h s (op :: rest) = run L h (step L h s op) rest := rfl
    rw [hrun]
    refine ⟨hI2, hm2.trans hm1, hl2.trans hl1, ?_⟩
    rw [hv2, view_of_inv L hL h _ hI1, view_of_inv L hL h s hI, hm1, hl1]
    congr 1
    funext d
    exact fetchD_congr L s.tables (step L h s op).tables hm1 hl1 d

/-- **history independence of results**: whatever is computed from the tables — a template, an
expansion, a decoded data set — is the same after any two histories (`F` is any function of the
lookup record, e.g. `fun T => decodeData T fuel t enforce nsub compressed bytes`). -/
theorem C15_history_function {α : Type} (F : Tables → α) (L : Libc) (hL : L.Contract) (h : Heap) (s : LibState)
    (hI : CacheInv h s.tables) (ops₁ ops₂ : List HOp) :
    F (view L h (run L h s ops₁)) = F (view L h (run L h s ops₂)) := by
  rw [(C15_history L hL h ops₁ s hI).2.2.2, (C15_history L hL h ops₂ s hI).2.2.2]

-- the hypothesis is met by the state of C12's worked example, after real lookups
example : CacheInv C12.stFetched.1 C12.stFetched.2 := C12.stFetched_inv
example (fuel ed : Nat) (ds : List Nat) (ops : List HOp) :
    createTemplate (view glibc C12.stFetched.1 (run glibc C12.stFetched.1 { tables := C12.stFetched.2 } ops)) fuel ed ds =
    createTemplate (view glibc C12.stFetched.1 { tables := C12.stFetched.2 }) fuel ed ds := by
  have := C15_history_function (fun T => createTemplate T fuel ed ds) glibc glibc_contract C12.stFetched.1
    { tables := C12.stFetched.2 } C12.stFetched_inv ops []
  simpa [run] using this

/-- **static tables**: `bufr_missing_ivalue` reads `msng_values`, filled on first use: the answer is
the closed form of the model whether or not the table had been filled by an earlier call -/
theorem C15_statics (ready ready' : Bool) (n : Nat) :
    missingFromStatic ready n = missingFromStatic ready' n ∧
    missingFromStatic ready n = Bufr.missingIvalue (n : Int) := by
  refine ⟨rfl, ?_⟩
  unfold missingFromStatic Bufr.missingIvalue
  by_cases h0 : n = 0
  · simp [h0]
  · have hpos : ¬ ((n : Int) ≤ 0) := by omega
    by_cases h64 : n ≥ 64
    · have : (n : Int) ≥ 64 := by omega
      simp [h0, h64, this]
    · have h1 : ¬ ((n : Int) ≥ 64) := by omega
      have h2 : n < 64 := by omega
      simp [h0, h64, h1, h2]

example : missingFromStatic false 12 = 4095 ∧ missingFromStatic true 64 = 2 ^ 64 - 1 := by decide

/-- **the inventory of process-wide state** (generated from the current sources): every variable of
static storage duration is a switch, a handler, a constant filled on first use, allocator
bookkeeping or last-error information; the storage pool `ddo_tbe` of a template is only created,
appended to, tested and freed -/
theorem C15_state_covered :
    staticState.all StateVar.covered = true ∧
    poolUses.all (fun u => u.2.2.2 ∈ ["append", "free", "assign", "test"]) = true :=
  ⟨staticState_covered, poolUses_storage_only⟩

/-! ## diagnostic text -/

/-- **the bound is a bound**: for every format the model parses and all arguments within the bounds
their C types give, `sprintf` produces a text and it is at most `maxLen` characters long -/
theorem C15_sprintf_bound (fmt : List Nat) (bs : List Sprintf.ArgB) (as : List Sprintf.Arg) (m : Nat)
    (hm : Sprintf.maxLen fmt bs = some m) (hok : Sprintf.argsOK bs as = true) :
    ∃ out, Sprintf.render fmt as = some out ∧ out.length ≤ m :=
  Sprintf.render_length_le fmt bs as m hm hok

-- "%f --> %llu" with a double and an unsigned long long: up to 342 characters (bufr_put_desc_value)
example : Sprintf.maxLen [37, 102, 32, 45, 45, 62, 32, 37, 108, 108, 117] [.dbl, .int 64 false] = some 342 := by decide +kernel
example : Sprintf.argsOK [.dbl, .int 64 false] [.dbl (.fin SF.maxDouble), .int (2 ^ 64 - 1)] = true := by decide +kernel
example : (Sprintf.render [37, 102, 32, 45, 45, 62, 32, 37, 108, 108, 117] [.dbl (.fin SF.maxDouble), .int (2 ^ 64 - 1)]).map List.length
    = some 341 := by decide +kernel

/-- **a safe row has room**: for a `sprintf`/`strcpy`/`strcat` row of the generated table that
`siteSafe` accepts, every rendering of each of its formats (plural forms, translations) with
arguments of the recorded types, after the `pre` characters already in the buffer, fits the
destination with its terminating NUL -/
theorem C15_sprintf_site (s : Sprintf.Site) (hs : s ∈ sprintfSites) (pre c : Nat)
    (hk : s.kind = .fmt (some pre)) (hc : s.cap = some c) (f : List Nat) (hf : f ∈ s.fmts)
    (as : List Sprintf.Arg) (hok : Sprintf.argsOK s.args as = true) :
    ∃ out, Sprintf.render f as = some out ∧ pre + out.length + 1 ≤ c := by
  have hall := sprintfSites_safe
  rw [List.all_eq_true] at hall
  exact Sprintf.siteSafe_fmt_sound s pre c hk hc (hall s hs) f hf as hok

/-- **all sites outside the recorded finding are safe** (generated from the current sources).
PARTIAL: the full statement is `(sprintfSites ++ sprintfKnown).all siteSafe`; missing are the rows of
finding C15-printers-without-size (`sprintfKnown`): the public printers that take no buffer size and
the dump, which prints through them into a fixed buffer.  Of the safe rows, those of kind `manual`
are safe by reading (their number is part of the statement), `relay` by the (buffer, size) contract
of the enclosing function, whose calls are rows of their own. -/
theorem C15_sprintf_partial :
    sprintfSites.all Sprintf.siteSafe = true ∧
    (sprintfSites.filter Sprintf.Site.isManual).length ≤ 70 ∧ sprintfSites.length ≥ 400 := by
  refine ⟨sprintfSites_safe, ?_, ?_⟩
  · rw [sprintfSites_manual]; decide
  · rw [sprintfSites_length]; decide

/-- **the recorded finding is real**: among its rows there are calls that hand an unbounded text to a
buffer whose size the callee does not know (witness scenario: corpus/C15-printers-without-size.bvp) -/
theorem C15_sprintf_fails : ¬ ((sprintfSites ++ sprintfKnown).all Sprintf.siteSafe = true) := by
  decide +kernel

end Bufr.C15
