import BufrProofs.Tables
/-
  C12 — Loaded tables are exactly what the files say; local entries override master.

  Property theorems only (helper lemmas live in BufrProofs/Tables.lean).
  Model: BufrModel/Tables.lean, tied to bufr_tables.c / bufr_array.c / bufr_util.c by the `tbl.*`
  correspondence streams.  `bsearch`/`qsort` enter through `Libc.Contract`; every theorem below
  holds for any libc meeting it (`C12_glibc_contract`: the one the driver runs does).

  History: on the code as first examined three clauses failed (a local load after a lookup left a
  stale pointer in the lookup cache; loading into an already loaded set searched an array that was no
  longer sorted; `bufr_merge_tables` freed entries the cache pointed to).  They were repaired in the
  library (known_findings.json, status "fixed"); the model and the theorems below describe the
  repaired code, and the former witnesses are now positive examples.
-/
namespace Bufr.C12
open Bufr Bufr.Tbl

/-! ### concrete data for the non-vacuity examples -/

def eM : EntryB := { desc := 12101, scale := 2, ref := 0, nbits := 16, typ := .numeric, unit := "K", descr := "M" }
def eL : EntryB := { desc := 12101, scale := 3, ref := 0, nbits := 20, typ := .numeric, unit := "K", descr := "L" }
def e1 : EntryB := { desc := 1001, scale := 0, ref := 0, nbits := 7, typ := .numeric, unit := "N", descr := "B" }
def eA (d : Nat) : EntryB := { desc := d, scale := 1, ref := 0, nbits := 10, typ := .numeric, unit := "K", descr := "A" }
def eB (d : Nat) : EntryB := { desc := d, scale := 2, ref := 5, nbits := 12, typ := .numeric, unit := "M", descr := "B" }

/-- the empty tables object satisfies the invariant -/
theorem inv_empty : CacheInv #[] {} :=
  { mas := ⟨fun _ h => by simp at h, by simp [keysOf]⟩, loc := ⟨fun _ h => by simp at h, by simp [keysOf]⟩
    disj := fun _ h => by simp at h, cacheSorted := by simp [keysOf]
    cacheGood := fun _ h => by simp at h, lastGood := fun _ h => by simp at h }

/-! ### 1. parsing -/

/-- **parse-line**: a well-formed fixed-column Table B line (declarative reading `FixedColumns`:
fields by column slices, numbers as blank-padded decimal text) is turned by the loader into
exactly that entry, whatever the 256-byte line buffer held before. -/
theorem C12_parse_line (l junk : Bytes) (e : EntryB) (s : BRead) (hc : s.count = 6) (hcol : s.col = stdCols)
    (hdl : s.desclen = 44) (h : FixedColumns l e) :
    bLine true { s with buf := l ++ 10 :: 0 :: junk } =
      { s with buf := l ++ 10 :: 0 :: junk, out := e :: s.out } :=
  parse_line l junk e s hc hcol hdl h

/-- the shipped line for 0 12 101, read with the loader on its whole-file path -/
def line012101 : Bytes := asciiBytes
  "012101  TEMPERATURE/DRY-BULB TEMPERATURE            K            2          0    16"

example : (readTableB true (line012101 ++ [10])).1 =
    [{ desc := 12101, scale := 2, ref := 0, nbits := 16, typ := .numeric, unit := "K",
       descr := "TEMPERATURE/DRY-BULB TEMPERATURE" }] := by decide

/-- … and the hypotheses of `C12_parse_line` are satisfiable (negative reference, code table) -/
def line020003 : Bytes := asciiBytes
  "020003  PRESENT WEATHER                             CODE TABLE   0       -400     9"

example : FixedColumns line020003
    { desc := 20003, scale := 0, ref := -400, nbits := 9, typ := .codetable, unit := "CODE TABLE", descr := "PRESENT WEATHER" } where
  len := by decide
  clean := by decide
  first := by decide
  desc := ⟨0, false, asciiBytes "020003", line020003.drop 6, by decide, by decide, by decide, by decide, by decide, by decide, by decide⟩
  descF := by decide
  scale := ⟨2, false, [48], line020003.drop 66, by decide, by decide, by decide, by decide, by decide, by decide, by decide⟩
  ref := ⟨7, true, asciiBytes "400", line020003.drop 77, by decide, by decide, by decide, by decide, by decide, by decide, by decide⟩
  nbits := ⟨4, false, [57], [], by decide, by decide, by decide, by decide, by decide, by decide, by decide⟩
  descr := by decide
  unit := by decide
  typ := by decide

/-! ### 2. sorted array + binary search -/

/-- the libc routines the driver runs (`bsearchG`: glibc's binary search; `isort`: a stable sort)
satisfy the contracts every other theorem assumes -/
theorem C12_glibc_contract : glibc.Contract := glibc_contract

/-- **search**: on an array whose keys are strictly increasing (sorted, no duplicate), any
`bsearch` meeting the contract returns the pointer whose entry has the key if there is one, and
NULL iff there is none.  (Two equal keys inside one array — duplicates inside one file — are
outside this theorem: `bsearch` may then return either; see `unspecified` in props/c12.py.) -/
theorem C12_bsearch_sorted (L : Libc) (hL : L.Contract) (h : Heap) (arr : List Nat) (d : Nat)
    (hs : (keysOf h arr).Pairwise (· < ·)) :
    searchB L h arr d = findId h arr d ∧
    (∀ id, searchB L h arr d = some id → id ∈ arr ∧ keyOf h id = d) ∧
    (searchB L h arr d = none ↔ d ∉ keysOf h arr) := by
  have he := searchB_eq_findId L hL h arr d hs
  refine ⟨he, fun id hid => searchB_sound L hL h arr d id hid, ?_⟩
  rw [he]
  constructor
  · exact findId_none
  · intro hn
    cases hf : findId h arr d with
    | none => rfl
    | some id =>
      exfalso; apply hn
      obtain ⟨hm, hk⟩ := findId_mem hf
      rw [← hk]; exact List.mem_map_of_mem hm

example : (keysOf #[some e1, some eM] [0, 1]).Pairwise (· < ·) := by decide
example : searchB glibc #[some e1, some eM] [0, 1] 12101 = some 1 := by decide
example : searchB glibc #[some e1, some eM] [0, 1] 12102 = none := by decide

/-! ### 3. lookups -/

/-- **lookup** (T-Cache): in any state satisfying the cache invariant — reached by whatever
sequence of lookups — `bufr_fetch_tableB` returns exactly what the specification `lookupSpec`
(local entry first, then master, nothing for F ∈ {1,2,3}) says about the loaded content, keeps
the invariant, and leaves the tables untouched. -/
theorem C12_lookup (L : Libc) (hL : L.Contract) (h : Heap) (t : BTables) (d : Nat) (hI : CacheInv h t) :
    (fetchB L h t d).1 = some (lookupSpec (contentB h t.loc.tableB) (contentB h t.master.tableB) d) ∧
    CacheInv h (fetchB L h t d).2 ∧
    (fetchB L h t d).2.master = t.master ∧ (fetchB L h t d).2.loc = t.loc :=
  fetchB_spec L hL h t d hI

/-- any number of lookups in a row: every one answers by the specification -/
theorem C12_lookup_history (L : Libc) (hL : L.Contract) (h : Heap) : ∀ (ds : List Nat) (t : BTables), CacheInv h t →
    ∀ d, ((ds.foldl (fun t d => (fetchB L h t d).2) t) |> fun t' => (fetchB L h t' d).1) =
      some (lookupSpec (contentB h t.loc.tableB) (contentB h t.master.tableB) d) := by
  intro ds
  induction ds with
  | nil => intro t hI d; exact (fetchB_spec L hL h t d hI).1
  | cons x rest ih =>
    intro t hI d
    obtain ⟨_, hI', hm, hl⟩ := fetchB_spec L hL h t x hI
    have := ih (fetchB L h t x).2 hI' d
    rw [hm, hl] at this
    exact this

/-- **local wins**: a descriptor present in the local table is answered from the local table -/
theorem C12_local_wins (loc mas : List EntryB) (d : Nat) (e : EntryB) (hF : ¬ isNonB d)
    (hl : findE loc d = some e) : lookupSpec loc mas d = some e := by
  unfold lookupSpec; simp [hF, hl]

/-- … and `bufr_fetch_tableB` returns it (corollary of `C12_lookup`) -/
theorem C12_local_wins_fetch (L : Libc) (hL : L.Contract) (h : Heap) (t : BTables) (d : Nat) (e : EntryB)
    (hI : CacheInv h t) (hF : ¬ isNonB d) (hl : findE (contentB h t.loc.tableB) d = some e) :
    (fetchB L h t d).1 = some (some e) := by
  rw [(C12_lookup L hL h t d hI).1, C12_local_wins _ _ d e hF hl]

/-- **absent is absent**: Table C/D/replication descriptors, and descriptors in neither table,
are reported as NULL -/
theorem C12_fetch_absent (L : Libc) (hL : L.Contract) (h : Heap) (t : BTables) (d : Nat) (hI : CacheInv h t)
    (hd : isNonB d ∨ (findE (contentB h t.loc.tableB) d = none ∧ findE (contentB h t.master.tableB) d = none)) :
    (fetchB L h t d).1 = some none := by
  rw [(C12_lookup L hL h t d hI).1]
  unfold lookupSpec
  rcases hd with hF | ⟨h1, h2⟩
  · simp [hF]
  · by_cases hF : isNonB d
    · simp [hF]
    · simp [hF, h1, h2]

/-- master loaded, then a local table overriding 0 12 101, *then* the first lookups: local wins -/
def stLM : Heap × BTables :=
  let a := loadBEntries glibc #[] {} .master (some [e1, eM]) (some 35)
  let b := loadBEntries glibc a.1 a.2.1 .loc (some [eL]) none
  (b.1, b.2.1)

example : (fetchB glibc stLM.1 stLM.2 12101).1 = some (some eL) := by decide
example : (fetchB glibc stLM.1 (fetchB glibc stLM.1 stLM.2 1001).2 12101).1 = some (some eL) := by decide
example : (fetchB glibc stLM.1 stLM.2 1001).1 = some (some e1) := by decide
example : (fetchB glibc stLM.1 stLM.2 101000).1 = some none := by decide
example : (fetchB glibc stLM.1 stLM.2 1002).1 = some none := by decide
example : lookupSpec (contentB stLM.1 stLM.2.loc.tableB) (contentB stLM.1 stLM.2.master.tableB) 12101 = some eL := by decide

/-! ### 4. loads and merges -/

/-- **first load**: loading a file whose entries have pairwise different descriptors into an empty
set gives a strictly sorted array holding exactly the file's entries, and touches nothing else. -/
theorem C12_load_first (L : Libc) (hL : L.Contract) (h : Heap) (t : BTables) (w : Which) (es : List EntryB)
    (ver : Option Int) (hnone : (t.get w).tableB = none) (hn : (es.map (·.desc)).Nodup) :
    ∃ h' arr, loadBEntries L h t w (some es) ver = (h', (flushT t).put w (newSet L h' arr (t.get w) ver), 0) ∧
      SetOK h' (some (sortB L h' arr)) ∧
      (∀ d, lookupArr h' (sortB L h' arr) d = findE es d) ∧
      (∀ x, x < h.size → deref h' x = deref h x) := by
  have hE := loadBEntries_some L h t w es ver
  rw [hnone] at hE
  obtain ⟨R, _⟩ := allocAll_spec es h hn
  obtain ⟨hS, hperm⟩ := sortB_ok L hL _ _ R.ok
  refine ⟨_, _, hE, hS, ?_, fun x hx => R.frame x hx (by simp)⟩
  intro d
  unfold lookupArr
  rw [findId_perm R.ok.nodupKeys hperm d]
  have := R.look d
  unfold lookupArr at this
  rw [this]
  cases findE es d <;> simp [findId]

example : (loadBEntries glibc #[] {} .master (some [eM, e1]) (some 35)).2.1.master.tableB = some [1, 0] := by decide

/-- **merge keeps the union, the newer file wins**: `bufr_merge_tableB` — the body of a load into an
already loaded set and of the local part of `bufr_merge_tables` — applied to a strictly sorted
array and a file with pairwise different descriptors yields an array whose lookup function is the
right-biased union of the two, with no duplicate key, strictly sorted again.  (The array is re-sorted
after every append, so each `bsearch` of the loop runs on a sorted array.) -/
theorem C12_merge_union (L : Libc) (hL : L.Contract) (es : List EntryB) (h : Heap) (arr : List Nat)
    (hlive : AllLive h arr) (hsorted : (keysOf h arr).Pairwise (· < ·)) (hn : (es.map (·.desc)).Nodup) :
    let r := mergeB L h arr es
    (∀ d, lookupArr r.1 r.2 d = match findE es d with | some e => some e | none => lookupArr h arr d) ∧
    (∀ d, d ∈ keysOf r.1 r.2 ↔ d ∈ keysOf h arr ∨ d ∈ es.map (·.desc)) ∧
    (keysOf r.1 r.2).Pairwise (· < ·) ∧ AllLive r.1 r.2 := by
  intro r
  obtain ⟨R, hS⟩ := mergeB_spec L hL es h arr hlive hsorted hn
  refine ⟨R.look, ?_, hS, R.ok.live⟩
  intro d
  have key : ∀ (hh : Heap) (a : List Nat), AllLive hh a → (d ∈ keysOf hh a ↔ lookupArr hh a d ≠ none) := by
    intro hh a hl
    rw [Ne, lookupArr_none_iff hl]
    constructor
    · intro hm hf; exact findId_none hf hm
    · intro hf
      cases hfi : findId hh a d with
      | none => exact absurd hfi hf
      | some id => obtain ⟨hm, hk⟩ := findId_mem hfi; rw [← hk]; exact List.mem_map_of_mem hm
  rw [key _ _ R.ok.live, key _ _ hlive, R.look d]
  cases hf : findE es d with
  | none =>
    simp only
    have hnot : d ∉ es.map (·.desc) := by
      intro hm
      unfold findE at hf; rw [List.find?_eq_none] at hf
      obtain ⟨x, hx, hxd⟩ := List.mem_map.mp hm
      exact hf x hx (by simp [hxd])
    exact ⟨fun hx => Or.inl hx, fun hx => hx.elim id (fun h2 => absurd h2 hnot)⟩
  | some e =>
    simp only
    refine ⟨fun _ => Or.inr ?_, fun _ hcontra => by cases hcontra⟩
    unfold findE at hf
    have hd : e.desc = d := by simpa using List.find?_some hf
    rw [← hd]; exact List.mem_map_of_mem (List.mem_of_find?_eq_some hf)

def hA4 : Heap := #[some (eA 10001), some (eA 10002), some (eA 10003), some (eA 10004)]
def file2 : List EntryB := [eB 1001, eB 1002, eB 1003, eB 1004, eB 10004]

/-- the former counter-example (new descriptors first, then an override of the largest existing one):
the override now replaces the old entry -/
example : (let r := mergeB glibc hA4 [0, 1, 2, 3] file2
           (searchB glibc r.1 r.2 10004).bind (deref r.1) = some (eB 10004) ∧ (keysOf r.1 r.2).Nodup ∧
           keysOf r.1 r.2 = [1001, 1002, 1003, 1004, 10001, 10002, 10003, 10004]) := by decide
example : (keysOf hA4 [0, 1, 2, 3]).Pairwise (· < ·) ∧ (file2.map (·.desc)).Nodup := by decide

/-- **operations keep the invariant**: a lookup, a load into the master set and a load into the local
set (file entries with pairwise different descriptors) all keep `CacheInv`; after a load the table
loaded into is the right-biased union of its previous content and the file, and the other table is
unchanged.  Together with `C12_lookup` this gives: after *any* interleaving of loads and lookups,
every lookup answers by the specification of the content loaded so far. -/
theorem C12_ops_preserve_inv (L : Libc) (hL : L.Contract) (h : Heap) (t : BTables) (hI : CacheInv h t) :
    (∀ d, CacheInv h (fetchB L h t d).2) ∧
    (∀ es ver, (es.map (·.desc)).Nodup →
      ∃ h' t', loadBEntries L h t .master (some es) ver = (h', t', 0) ∧ CacheInv h' t' ∧
        (∀ d, lookupArr h' (t'.master.tableB.getD []) d =
          match findE es d with | some e => some e | none => lookupArr h (t.master.tableB.getD []) d) ∧
        (∀ d, lookupArr h' (t'.loc.tableB.getD []) d = lookupArr h (t.loc.tableB.getD []) d)) ∧
    (∀ es ver, (es.map (·.desc)).Nodup →
      ∃ h' t', loadBEntries L h t .loc (some es) ver = (h', t', 0) ∧ CacheInv h' t' ∧
        (∀ d, lookupArr h' (t'.loc.tableB.getD []) d =
          match findE es d with | some e => some e | none => lookupArr h (t.loc.tableB.getD []) d) ∧
        (∀ d, lookupArr h' (t'.master.tableB.getD []) d = lookupArr h (t.master.tableB.getD []) d)) :=
  ⟨fun d => (fetchB_spec L hL h t d hI).2.1,
   fun es ver hn => loadB_master_preserves L hL h t es ver hI hn,
   fun es ver hn => loadB_loc_preserves L hL h t es ver hI hn⟩

/-- the state after "load master, look up 0 12 101" -/
def stFetched : Heap × BTables :=
  let a := loadBEntries glibc #[] {} .master (some [e1, eM]) (some 35)
  (a.1, (fetchB glibc a.1 a.2.1 12101).2)

theorem stFetched_inv : CacheInv stFetched.1 stFetched.2 := by
  obtain ⟨h', t', heq, hI, _, _⟩ :=
    loadB_master_preserves glibc glibc_contract #[] {} [e1, eM] (some 35) inv_empty (by decide)
  have h1 : stFetched.1 = h' := by
    have : (loadBEntries glibc #[] {} .master (some [e1, eM]) (some 35)).1 = h' := by rw [heq]
    exact this
  have h2 : (loadBEntries glibc #[] {} .master (some [e1, eM]) (some 35)).2.1 = t' := by rw [heq]
  unfold stFetched
  simp only
  rw [h2, show (loadBEntries glibc #[] {} .master (some [e1, eM]) (some 35)).1 = h' from by rw [heq]]
  exact (fetchB_spec glibc glibc_contract h' t' 12101 hI).2.1

/-- the former counter-example (DESIGN §10 #15): master loaded, 0 12 101 looked up, *then* a local
table overriding it is loaded: the next lookups return the local entry -/
example : (let r := loadBEntries glibc stFetched.1 stFetched.2 .loc (some [eL]) none
           (fetchB glibc r.1 r.2.1 12101).1 = some (some eL) ∧
           (fetchB glibc r.1 (fetchB glibc r.1 r.2.1 1001).2 12101).1 = some (some eL) ∧
           r.2.1.cache = none ∧ r.2.1.last = none) := by decide
example : stFetched.2.last = some 1 ∧ stFetched.2.cache = some [1] := by decide

/-- **`bufr_merge_tables`**: for two objects owning different entries (as any two objects created and
loaded separately do), whatever has been looked up before, the result satisfies `CacheInv`; its local
table is the right-biased union (source wins), its master table is the source's if the source has one. -/
theorem C12_merge_tables (L : Libc) (hL : L.Contract) (h : Heap) (dst src : BTables)
    (hI : CacheInv h dst)
    (hsm : SetOK h src.master.tableB) (hsl : SetOK h src.loc.tableB)
    (hsep1 : ∀ x ∈ dst.master.tableB.getD [], x ∉ src.master.tableB.getD [] ∧ x ∉ src.loc.tableB.getD [])
    (hsep2 : ∀ x ∈ dst.loc.tableB.getD [], x ∉ src.master.tableB.getD []) :
    CacheInv (mergeTables L h dst src).1 (mergeTables L h dst src).2 ∧
    (∀ d, lookupArr (mergeTables L h dst src).1 ((mergeTables L h dst src).2.loc.tableB.getD []) d =
      match lookupArr h (src.loc.tableB.getD []) d with
      | some e => some e
      | none => lookupArr h (dstLocal dst) d) ∧
    (∀ d, lookupArr (mergeTables L h dst src).1 ((mergeTables L h dst src).2.master.tableB.getD []) d =
      lookupArr h (mergedMaster dst src) d) :=
  mergeTables_preserves L hL h dst src hI hsm hsl hsep1 hsep2

/-- two objects, neither looked into: dst (master 1001,12101; local 12101) ← src (master 1001; local 10004) -/
def stTwo : Heap × BTables × BTables :=
  let a := loadBEntries glibc #[] {} .master (some [e1, eM]) (some 35)
  let b := loadBEntries glibc a.1 a.2.1 .loc (some [eL]) none
  let c := loadBEntries glibc b.1 {} .master (some [e1]) (some 36)
  let d := loadBEntries glibc c.1 c.2.1 .loc (some [eA 10004]) none
  (d.1, b.2.1, d.2.1)

example : (fetchB glibc (mergeTables glibc stTwo.1 stTwo.2.1 stTwo.2.2).1 (mergeTables glibc stTwo.1 stTwo.2.1 stTwo.2.2).2 12101).1
    = some (some eL) := by decide
example : (fetchB glibc (mergeTables glibc stTwo.1 stTwo.2.1 stTwo.2.2).1 (mergeTables glibc stTwo.1 stTwo.2.1 stTwo.2.2).2 10004).1
    = some (some (eA 10004)) := by decide
example : (mergeTables glibc stTwo.1 stTwo.2.1 stTwo.2.2).2.master.version = 36 := by decide

/-- the former use-after-free: object 0 has looked up 0 12 101, then an object holding a master
Table B is merged into it: the cache is dropped with the freed entries, lookups go to the new tables -/
example : (let src := (loadBEntries glibc stFetched.1 {} .master (some [e1]) (some 36))
           let m := mergeTables glibc src.1 stFetched.2 src.2.1
           (fetchB glibc m.1 m.2 1001).1 = some (some e1) ∧ (fetchB glibc m.1 m.2 12101).1 = some none) := by
  decide

/-! ### 5. version selection -/

/-- **version**: if tables with master version `v` are in the list, `bufr_use_tables_list` returns
tables with exactly that version (the first such) -/
theorem C12_version_exact (versions : List Int) (v : Int) (hv : v ∈ versions) :
    ∃ i, useTablesList versions v = some i ∧ versions[i]? = some v := by
  obtain ⟨j, h1, h2⟩ := useListGo_exact v versions 0 none none hv
  exact ⟨j, by unfold useTablesList; rw [h1]; simp, h2⟩

example : useTablesList [13, 31, 32, 35] 32 = some 2 := by decide
example : useTablesList [13, 31, 32, 35] 33 = some 3 := by decide   -- otherwise: the highest above
example : useTablesList [13, 31, 32, 35] 40 = some 3 := by decide   -- or the highest below
example : useTablesList [] 13 = none := by decide

/-! ### 6. circular Table D -/

/-- **a circular or incomplete Table D is reported**: if `bufr_check_loop_tableD` returns 0 then
every member of every entry of the checked set expands finitely and completely (`Good`), hence
lies on no cycle and reaches none.  Contrapositive: a cycle (or an undefined sequence) reachable
from the set makes the load return a negative code. -/
theorem C12_checkloop_reports (L : Libc) (t : BTables) (arr : List EntryD) :
    (checkLoop L t (some arr) = 0 → ∀ e ∈ arr, ∀ m ∈ e.members, Good L t m) ∧
    (∀ e ∈ arr, ∀ m ∈ e.members, ∀ x, (x = m ∨ Reach L t m x) →
      (Reach L t x x ∨ (fOf x = 3 ∧ fetchD L t x = none)) → checkLoop L t (some arr) ≠ 0) := by
  refine ⟨checkLoop_zero_good L t arr, ?_⟩
  intro e he m hm x hx hbad h0
  have hg := checkLoop_zero_good L t arr h0 e he m hm
  have hgx : Good L t x := by
    rcases hx with rfl | hr
    · exact hg
    · exact Good_reach hr hg
  rcases hbad with hcyc | ⟨hf, hnone⟩
  · exact Good_acyclic hgx hcyc
  · cases hgx with
    | nonD _ hn => exact hn hf
    | seq _ e' hf' _ => rw [hnone] at hf'; cases hf'

def dCyc : List EntryD := [{ desc := 363001, members := [363002, 1001] }, { desc := 363002, members := [363001] }]
def tCyc : BTables := { loc := { tableD := some dCyc, ownsD := true } }
example : checkLoop glibc tCyc (some dCyc) = -2 := by decide
example : checkLoop glibc { loc := { tableD := some [{ desc := 363001, members := [363001] }] } }
    (some [{ desc := 363001, members := [363001] }]) = -1 := by decide    -- a self-loop alone is reported as −1
example : Reach glibc tCyc 363002 363002 :=
  Reach.trans _ 363001 _ (Reach.step _ ⟨363002, [363001]⟩ _ (by decide) (by decide))
    (Reach.step _ ⟨363001, [363002, 1001]⟩ _ (by decide) (by decide))

/-- **an acyclic, complete Table D is accepted** (partial): if the sequences can be ranked so that
members rank strictly lower, and every sequence member of the checked set is defined, the check
returns 0.  Partial because the ranks are assumed to fit the recursion fuel the model supplies
(`loopFuel` = number of entries + 2); that a ranking with such ranks always exists for an acyclic
table (pigeonhole on the path) is not proved here — for the shipped tables it is checked
(`Generated/ShippedD.lean`, maximal rank 6). -/
theorem C12_checkloop_accepts_partial (L : Libc) (t : BTables) (r : Nat → Nat) (arr : List EntryD)
    (hr : ∀ d e, fetchD L t d = some e → ∀ m ∈ e.members, fOf m = 3 → (fetchD L t m).isSome = true ∧ r m < r d)
    (hdef : ∀ e ∈ arr, ∀ m ∈ e.members, fOf m = 3 → (fetchD L t m).isSome = true)
    (hb : ∀ d, r d + 1 < loopFuel t) : checkLoop L t (some arr) = 0 :=
  checkLoop_accepts L t r arr hr hdef hb

def dOk : List EntryD := [{ desc := 301001, members := [1001, 1002] }, { desc := 301002, members := [301001, 4001] },
                          { desc := 301003, members := [301002, 301001] }]
example : checkLoop glibc { master := { tableD := some dOk } } (some dOk) = 0 := by decide

end Bufr.C12
