import BufrProofs.CodecValues
/-
  C07 — Re-encoding a decoded message is stable: decode–encode is idempotent.

  Property theorems only (helper lemmas: BufrProofs/CodecValues.lean, Codec.lean, Scale.lean).
  Tie: props/c07.py runs decode → encode → decode → encode on the implementation and the model for the
  library's own messages and for foreign ones produced by the reference encoder.

  Proved at full strength: every raw pattern of a code table, flag table or scaled numeric element
  decodes to a value that encodes to the same pattern (so decode∘encode is the identity on raw bits —
  the element-level reason why m'' = m'), character octets are reproduced, and for static templates a
  decoded subset re-encodes to exactly the bits it was decoded from (`C07_subset_stable`), hence the
  own-message clause m' = m at Section 4 level.  Not proved: templates with delayed replication or
  2 03, integers wider than 32 bits with a reference, compressed re-encoding of foreign messages
  (whose R0/NBINC legitimately change once): decided by the correspondence and the oracle.
-/
namespace Bufr.C07
open Bufr Bufr.SF Bufr.Scale

/-- code and flag tables: decode then encode is the identity on every raw pattern -/
theorem C07_code_stable (n : Node) (raw : Nat) (ht : n.enc.type = .codetable ∨ n.enc.type = .flagtable)
    (h1 : 1 ≤ n.enc.nbits) (h2 : n.enc.nbits ≤ 63) (hraw : raw ≤ missingIvalue n.enc.nbits) :
    valueBits { n with val := valueOfBits n (freshVal n.enc) raw } = raw :=
  valueBits_valueOfBits_code n raw ht h1 h2 hraw

/-- scaled numerics (widths to 32 bits, the domain of C08): decode then encode is the identity on
every raw pattern, the all-ones pattern included -/
theorem C07_numeric_stable (n : Node) (raw : Nat) (x0 : FP) (ht : n.enc.type = .numeric)
    (hnb : n.enc.nbits ≤ 32) (hv : (sEnc n.enc).Valid) (hraw : raw ≤ 2^(sEnc n.enc).nbits - 1) :
    valueBits { n with val := valueOfBits n (.f64 x0) raw } = raw :=
  valueBits_valueOfBits_f64 n raw x0 ht hnb hv hraw

/-- character data: octets (without NUL) read back and written again are the same octets -/
theorem C07_characters_stable (n : Node) (cs : List Nat) (hlen : cs.length = (n.enc.nbits / 8).toNat)
    (hc : ∀ c ∈ cs, c ≠ 0) (v0 : List Nat) :
    paddedString { n with val := (Val.str v0).setString (some cs) (n.enc.nbits / 8).toNat } = cs :=
  paddedString_stable n cs hlen hc v0

/-- **one element**: the node the decoder builds from the bits of `m` writes exactly those bits -/
theorem C07_element_stable (n m : Node) (hn : n.val = .none) (hl : SameLayout n m)
    (hns : m.flags.skipped = false) (hk : StableKind m) : nodeBits (readBack n m) = nodeBits m :=
  nodeBits_readBack n m hn hl hns hk

/-- **one subset, hence the whole uncompressed Section 4**: if every data-bearing position of the
layout is of a stable kind, the decoded subsets re-encode to the bits they were decoded from -/
theorem C07_subset_stable (bsq : List Node) (ss : List (List Node))
    (h : ∀ ms ∈ ss, List.Forall₂ (fun n m => nodeBits (readBack' n m) = nodeBits m) bsq ms) :
    (ss.map (fun ms => List.zipWith readBack' bsq ms)).flatMap (fun s => s.flatMap nodeBits) =
      ss.flatMap (fun s => s.flatMap nodeBits) := by
  induction ss with
  | nil => rfl
  | cons ms ss ih =>
    simp only [List.map_cons, List.flatMap_cons]
    rw [ih (fun m hm => h m (by simp [hm]))]
    congr 1
    have := h ms (by simp)
    clear ih h
    induction this with
    | nil => rfl
    | cons hnm _ ih2 => simp only [List.zipWith_cons_cons, List.flatMap_cons, hnm, ih2]

/-- positions without data contribute no bits before or after -/
theorem C07_skipped_no_bits (n : Node) (h : n.flags.skipped = true) : nodeBits n = [] := by
  unfold nodeBits; simp [h]

/-! ### Non-vacuity -/
def exCode : Node := { desc := 20003, enc := { type := .codetable, scale := 0, ref := 0, nbits := 9, afNbits := 0 } }
example : valueBits { exCode with val := valueOfBits exCode (freshVal exCode.enc) 300 } = 300 := by decide +kernel
example : valueBits { exCode with val := valueOfBits exCode (freshVal exCode.enc) 511 } = 511 := by decide +kernel
def exNum : Node := { desc := 12101, enc := { type := .numeric, scale := 2, ref := -27315, nbits := 16, afNbits := 0 } }
example : (sEnc exNum.enc).Valid := by decide
example : StableKind exNum := .scaled rfl (by decide) (by decide) ⟨_, rfl⟩
example : StableKind exCode := .code (Or.inl rfl) (by decide) (by decide)

end Bufr.C07
