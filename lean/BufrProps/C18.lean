import BufrModel.TemplateText
import BufrModel.Codec
import BufrProofs.TemplateText
import BufrProofs.TemplateReal
/-
  C18 — templates survive save, load and copy.

  Model: BufrModel/TemplateText.lean (`save`, `load`, `copyTemplate`, `compareTemplate`, templates
  with default values), tied to bufr_template.c by the `tm.newv / tm.save / tm.loadtext / tm.reload /
  tm.copy / tm.compare / tm.descvals / tm.gabvals` correspondence streams, and through `tm.use` to the
  expansion and Section 4 models (`ss.*`, `ds.encode`).

  The model describes the library with eight `fix:` commits (known_findings.json, property C18).

  What a template text can carry (`Savable`): the format has no type information, so a default
  value must have the type `bufr_load_template` gives the values of its descriptor (the type the
  element's encoding calls for — what the library's own example does), strings the width of the
  element, without NUL, newline, or a double quote directly followed by a comma, tab or newline;
  reals finite.  Outside that set the text denotes another template: `C18_text_fails_newline`.
-/
namespace Bufr.C18
open Bufr Bufr.TT Bufr.SF

/-- `t` is a finished template: what `bufr_finalize_template` makes of `t`'s own edition and
descriptor list.  Every template the library hands out satisfies it (`wellMade_*`). -/
def WellMade (T : Tables) (fuel : Nat) (t : TmplV) : Prop := finalizeV T fuel t.edition t.codets = .ok t

theorem finalizeV_fields (T : Tables) (fuel : Nat) (ed : Int) (cs : List DescVal) (t : TmplV)
    (h : finalizeV T fuel ed cs = .ok t) :
    t.edition = ed ∧ t.codets = cs ∧ descsValid T none (cs.map (·.desc)) = true := by
  unfold finalizeV at h
  simp only at h
  by_cases hv : descsValid T none (cs.map (·.desc)) = true
  · simp only [hv, Bool.not_true, Bool.false_eq_true, if_false] at h
    cases hc : checkSequence T (cs.map (·.desc)) with
    | none => rw [hc] at h; simp at h
    | some d =>
      rw [hc] at h
      simp only at h
      split at h
      · simp at h
      · simp only [Except.ok.injEq] at h
        subst h
        exact ⟨rfl, rfl, hv⟩
  · simp [hv] at h

theorem wellMade_of_finalize (T : Tables) (fuel : Nat) (ed : Int) (cs : List DescVal) (t : TmplV)
    (h : finalizeV T fuel ed cs = .ok t) : WellMade T fuel t := by
  obtain ⟨h1, h2, _⟩ := finalizeV_fields T fuel ed cs t h
  unfold WellMade
  rw [h1, h2]; exact h

/-- templates made by `bufr_create_template`, `bufr_copy_template` and `bufr_load_template` are finished -/
theorem wellMade_create (T : Tables) (fuel : Nat) (ed : Int) (cs : List DescVal) (t : TmplV)
    (h : createTemplateV T fuel ed cs = .ok t) : WellMade T fuel t :=
  wellMade_of_finalize T fuel ed _ t h

theorem wellMade_copy (T : Tables) (fuel : Nat) (t t' : TmplV) (h : copyTemplate T fuel t = .ok t') : WellMade T fuel t' :=
  wellMade_create T fuel _ _ t' h

theorem wellMade_load (T : Tables) (fuel : Nat) (text : List Nat) (t : TmplV) (h : load T fuel text = .ok t) :
    WellMade T fuel t := by
  unfold load at h
  simp only at h
  split at h
  · simp at h
  · split at h
    · rename_i t' hf
      simp only [Except.ok.injEq] at h
      subst h
      exact wellMade_of_finalize T fuel _ _ _ hf
    · simp at h
    · simp at h

theorem descsValid_bound (T : Tables) (prev : Option Nat) (ds : List Nat) (h : descsValid T prev ds = true) :
    ∀ d ∈ ds, d < 400000 := by
  induction ds generalizing prev with
  | nil => intro d hd; simp at hd
  | cons a ds ih =>
    intro d hd
    unfold descsValid at h
    simp only [Bool.and_eq_true] at h
    rcases List.mem_cons.mp hd with rfl | hd
    · have h1 := h.1
      by_cases hdesc : isDescriptor d = true
      · unfold isDescriptor Desc.f Desc.y at hdesc
        simp only [Bool.and_eq_true, decide_eq_true_eq] at hdesc
        omega
      · simp [hdesc] at h1
    · exact ih (some a) h.2 d hd

theorem zip_self_all (l : List Node) : (l.zip l).all (fun p => decide (p.1.desc = p.2.desc)) = true := by
  induction l with
  | nil => rfl
  | cons a l ih => simp [List.zip_cons_cons, ih]

theorem compare_self (t : TmplV) : compareTemplate t t = 0 := by
  unfold compareTemplate
  rw [if_neg (by simp), if_pos (zip_self_all _)]

/-- **Save then load.**  For every finished template whose default values the text form can carry,
loading the saved text yields a template that compares equal to the original and has the same
edition, descriptor list, default values and expanded list — in fact the same template. -/
theorem C18_text (T : Tables) (fuel : Nat) (t : TmplV) (hw : WellMade T fuel t) (hs : Savable T t = true) :
    ∃ t', load T fuel (save t) = .ok t' ∧ compareTemplate t' t = 0 ∧
      t'.edition = t.edition ∧ t'.codets = t.codets ∧ t'.gabarit = t.gabarit ∧ t' = t := by
  refine ⟨t, ?_, compare_self t, rfl, rfl, rfl, rfl⟩
  unfold Savable at hs
  simp only [Bool.and_eq_true, List.all_eq_true] at hs
  obtain ⟨hed, hdv⟩ := hs
  obtain ⟨_, _, hvalid⟩ := finalizeV_fields T fuel _ _ t hw
  have hbound : ∀ c ∈ t.codets, c.desc < 2 ^ 31 := by
    intro c hc
    have := descsValid_bound T none _ hvalid c.desc (List.mem_map.mpr ⟨c, hc, rfl⟩)
    omega
  unfold load
  rw [parseText_save T t hed hbound hdv]
  simp only [List.reverse_reverse]
  have hneg : (t.codets.map fun c => ((c.desc : Int), c.vals)).any (fun c => decide (c.1 < 0)) = false := by
    rw [List.any_eq_false]
    intro c hc
    obtain ⟨c', _, rfl⟩ := List.mem_map.mp hc
    simp
  rw [hneg]
  simp only [Bool.false_eq_true, if_false, List.map_map]
  have hmap : (t.codets.map ((fun c : Int × List Val => ({ desc := c.1.toNat, vals := c.2 } : DescVal)) ∘ fun c => ((c.desc : Int), c.vals))) = t.codets := by
    conv => rhs; rw [← List.map_id t.codets]
    apply List.map_congr_left
    intro c _
    simp
  rw [hmap]
  unfold WellMade at hw
  rw [hw]

/-- **Same expansion, same encoding.**  The reloaded template is the template the expansion and
Section 4 models see: every data subset created from it, every expansion of a subset and the
padding of the encoded section are those of the original. -/
theorem C18_same_expansion (T : Tables) (fuel : Nat) (t t' : TmplV) (hw : WellMade T fuel t) (hs : Savable T t = true)
    (hl : load T fuel (save t) = .ok t') :
    t'.toTemplate = t.toTemplate ∧
    createDatasubset T fuel t'.toTemplate = createDatasubset T fuel t.toTemplate ∧
    (∀ s, expandDatasubset T fuel t'.toTemplate s = expandDatasubset T fuel t.toTemplate s) ∧
    (∀ w, padSection4 t'.toTemplate.edition w = padSection4 t.toTemplate.edition w) := by
  obtain ⟨t'', h1, _, _, _, _, h6⟩ := C18_text T fuel t hw hs
  rw [h1] at hl
  simp only [Except.ok.injEq] at hl
  subst hl; subst h6
  exact ⟨rfl, rfl, fun _ => rfl, fun _ => rfl⟩

/-! ### copy -/

/-- every default value is in the form `bufr_duplicate_value` leaves it in (strings padded to their
length, no NUL inside) -/
def ValsNormal (cs : List DescVal) : Prop := ∀ c ∈ cs, ∀ v ∈ c.vals, dupVal v = v

theorem mem_takeWhile_p (p : Nat → Bool) (l : List Nat) : ∀ c ∈ l.takeWhile p, p c = true := by
  induction l with
  | nil => intro c hc; simp at hc
  | cons a l ih =>
    intro c hc
    by_cases ha : p a = true
    · simp only [List.takeWhile_cons, ha, if_true, List.mem_cons] at hc
      rcases hc with rfl | hc
      · exact ha
      · exact ih c hc
    · simp [List.takeWhile_cons, ha] at hc

theorem strPad_length (s : Option (List Nat)) (n : Nat) : (strPad s n).length = n := by
  cases s with
  | none => simp [strPad]
  | some bs =>
    simp only [strPad, List.length_append, List.length_replicate, List.length_take]
    omega

theorem strPad_nonul (s : Option (List Nat)) (n : Nat) : ∀ c ∈ strPad s n, c ≠ 0 := by
  intro c hc
  cases s with
  | none =>
    simp only [strPad, List.nil_append, List.mem_replicate] at hc
    obtain ⟨_, h⟩ := hc
    split at h <;> omega
  | some bs =>
    simp only [strPad, List.mem_append, List.mem_replicate] at hc
    rcases hc with h | ⟨_, h⟩
    · have := mem_takeWhile_p _ bs c (List.mem_of_mem_take h)
      simpa using this
    · split at h <;> omega

theorem strPad_normal (s : Option (List Nat)) (n : Nat) : dupVal (.str (strPad s n)) = .str (strPad s n) := by
  simp only [dupVal]
  rw [strPad_id _ (strPad_nonul s n)]

theorem dupVal_idem (v : Val) : dupVal (dupVal v) = dupVal v := by
  cases v with
  | str bs => simp only [dupVal]; rw [strPad_id _ (strPad_nonul _ _)]
  | _ => rfl

theorem valsNormal_create (T : Tables) (fuel : Nat) (ed : Int) (cs : List DescVal) (t : TmplV)
    (h : createTemplateV T fuel ed cs = .ok t) : ValsNormal t.codets := by
  obtain ⟨_, h2, _⟩ := finalizeV_fields T fuel ed _ t h
  rw [h2]
  intro c hc v hv
  unfold addDescValue at hc
  obtain ⟨c0, _, rfl⟩ := List.mem_map.mp hc
  simp only [List.mem_map] at hv
  obtain ⟨v0, _, rfl⟩ := hv
  exact dupVal_idem v0

/-- **Copy.**  The copy of a finished template compares equal to it and has the same edition,
descriptor list, default values and expanded list. -/
theorem C18_copy (T : Tables) (fuel : Nat) (t : TmplV) (hw : WellMade T fuel t) (hn : ValsNormal t.codets) :
    ∃ t', copyTemplate T fuel t = .ok t' ∧ compareTemplate t' t = 0 ∧
      t'.edition = t.edition ∧ t'.codets = t.codets ∧ t'.gabarit = t.gabarit ∧ t' = t := by
  refine ⟨t, ?_, compare_self t, rfl, rfl, rfl, rfl⟩
  unfold copyTemplate createTemplateV
  have : addDescValue t.codets = t.codets := by
    unfold addDescValue
    conv => rhs; rw [← List.map_id t.codets]
    apply List.map_congr_left
    intro c hc
    have : c.vals.map dupVal = c.vals := by
      conv => rhs; rw [← List.map_id c.vals]
      exact List.map_congr_left (fun v hv => hn c hc v hv)
    simp [this]
  rw [this]
  exact hw

/-- in particular the copy of a template made by `bufr_create_template` -/
theorem C18_copy_created (T : Tables) (fuel : Nat) (ed : Int) (cs : List DescVal) (t : TmplV)
    (h : createTemplateV T fuel ed cs = .ok t) : copyTemplate T fuel t = .ok t := by
  obtain ⟨t', h1, _, _, _, _, h6⟩ := C18_copy T fuel t (wellMade_create T fuel ed cs t h) (valsNormal_create T fuel ed cs t h)
  rw [h1, h6]

theorem parseVal_normal (vt : VT) (vlen : Nat) (tok : List Nat) : dupVal (parseVal vt vlen tok) = parseVal vt vlen tok := by
  cases vt with
  | string => simp only [parseVal]; exact strPad_normal _ _
  | int32 => simp only [parseVal]; split <;> rfl
  | int64 => simp only [parseVal]; split <;> rfl
  | flt64 => simp only [parseVal]; split; rfl; split <;> rfl
  | flt32 => simp only [parseVal]; split; rfl; split <;> rfl
  | undefined => rfl

theorem parseVals_normal (vt : VT) (vlen : Nat) (f : Nat) (s : List Nat) : ∀ v ∈ parseVals vt vlen f s, dupVal v = v := by
  induction f generalizing s with
  | zero => intro v hv; simp [parseVals] at hv
  | succ f ih =>
    intro v hv
    unfold parseVals at hv
    split at hv
    · simp at hv
    · simp only [List.mem_cons] at hv
      rcases hv with rfl | hv
      · exact parseVal_normal _ _ _
      · exact ih _ v hv

theorem lineValues_normal (T : Tables) (icode : Int) (rest : List Nat) : ∀ v ∈ lineValues T icode rest, dupVal v = v := by
  intro v hv
  unfold lineValues at hv
  split at hv
  · split at hv
    · unfold valuesAfter at hv
      split at hv
      · simp at hv
      · simp only [List.mem_cons] at hv
        rcases hv with rfl | hv
        · exact parseVal_normal _ _ _
        · exact parseVals_normal _ _ _ _ v hv
    · simp at hv
  · simp at hv

/-- every value the loader stores is in duplicated form -/
def StNormal (st : LoadSt) : Prop := ∀ p ∈ st.codets, ∀ v ∈ p.2, dupVal v = v

theorem loadLine_normal (T : Tables) (st : LoadSt) (l : List Nat) (h : StNormal st) : StNormal (loadLine T st l) := by
  unfold loadLine
  simp only
  split
  · exact h
  · split
    · exact h
    · split
      · unfold editionLine
        split
        · exact h
        · exact h
      · unfold descLine
        split
        · exact h
        · intro p hp v hv
          simp only [List.mem_cons] at hp
          rcases hp with rfl | hp
          · exact lineValues_normal T _ _ v hv
          · exact h p hp v hv

theorem foldl_normal (T : Tables) (ls : List (List Nat)) (st : LoadSt) (h : StNormal st) :
    StNormal (ls.foldl (loadLine T) st) := by
  induction ls generalizing st with
  | nil => exact h
  | cons l ls ih => exact ih _ (loadLine_normal T st l h)

theorem valsNormal_load (T : Tables) (fuel : Nat) (text : List Nat) (t : TmplV) (h : load T fuel text = .ok t) :
    ValsNormal t.codets := by
  have hst : StNormal (parseText T text) := foldl_normal T _ {} (by intro p hp; simp at hp)
  unfold load at h
  simp only at h
  split at h
  · simp at h
  · split at h
    · rename_i t' hf
      simp only [Except.ok.injEq] at h
      subst h
      obtain ⟨_, h2, _⟩ := finalizeV_fields T fuel _ _ _ hf
      rw [h2]
      intro c hc v hv
      obtain ⟨p, hp, rfl⟩ := List.mem_map.mp hc
      exact hst p (List.mem_reverse.mp hp) v hv
    · simp at h
    · simp at h

/-- the copy of a loaded template (what `bufr_create_dataset` makes of it) is the template -/
theorem C18_copy_loaded (T : Tables) (fuel : Nat) (text : List Nat) (t : TmplV) (h : load T fuel text = .ok t) :
    copyTemplate T fuel t = .ok t := by
  obtain ⟨t', h1, _, _, _, _, h6⟩ := C18_copy T fuel t (wellMade_load T fuel text t h) (valsNormal_load T fuel text t h)
  rw [h1, h6]

/-! ### refusal -/

/-- the descriptors a text names, as `bufr_load_template` reads them (`atoi` of the first word of
every line that is neither a comment nor a key) -/
def namedDescs (T : Tables) (text : List Nat) : List Int := (parseText T text).codets.reverse.map (·.1)

/-- **Refusal.**  A text that names a number that is no descriptor or an element that is in no
table (`descsValid`, the test of C10_rejects_unknown), or whose descriptors are rejected by
`bufr_check_sequence` (unknown Table D sequence, replication span running past the end or past the
enclosing span, delayed replication without a class 31 factor: C10_rejects), is refused. -/
theorem C18_refuses (T : Tables) (fuel : Nat) (text : List Nat)
    (h : (∃ d ∈ namedDescs T text, d < 0) ∨
         descsValid T none ((namedDescs T text).map Int.toNat) = false ∨
         checkSequence T ((namedDescs T text).map Int.toNat) = none) :
    load T fuel text = .error .refused := by
  unfold load
  simp only
  by_cases hneg : ((parseText T text).codets.reverse.any fun c => decide (c.1 < 0)) = true
  · simp [hneg]
  · simp only [hneg, Bool.false_eq_true, if_false]
    have hdescs : ((parseText T text).codets.reverse.map fun c => ({ desc := c.1.toNat, vals := c.2 } : DescVal)).map (·.desc)
        = (namedDescs T text).map Int.toNat := by
      simp [namedDescs, List.map_map, Function.comp_def]
    rcases h with ⟨d, hd, hlt⟩ | h | h
    · exfalso
      apply hneg
      rw [List.any_eq_true]
      unfold namedDescs at hd
      obtain ⟨c, hc, rfl⟩ := List.mem_map.mp hd
      exact ⟨c, hc, by simpa using hlt⟩
    · unfold finalizeV
      simp only [hdescs, h]
      simp
    · unfold finalizeV
      simp only [hdescs, h]
      have : (if (!descsValid T none ((namedDescs T text).map Int.toNat)) = true then (Except.error XErr.null : Except XErr TmplV)
          else Except.error XErr.null) = Except.error XErr.null := by split <;> rfl
      rw [this]

/-! ### what `bufr_compare_template` compares -/

theorem zip_all_iff (l1 l2 : List Node) (hl : l1.length = l2.length) :
    (l1.zip l2).all (fun p => decide (p.1.desc = p.2.desc)) = true ↔ l1.map (·.desc) = l2.map (·.desc) := by
  induction l1 generalizing l2 with
  | nil => cases l2 with
    | nil => simp
    | cons b l2 => simp at hl
  | cons a l1 ih =>
    cases l2 with
    | nil => simp at hl
    | cons b l2 =>
      simp only [List.length_cons, Nat.add_right_cancel_iff] at hl
      simp only [List.zip_cons_cons, List.all_cons, Bool.and_eq_true, decide_eq_true_eq, List.map_cons, List.cons.injEq]
      rw [ih l2 hl]

/-- **Compare is sound for the expanded descriptor list, and for nothing else.**  It returns 0
exactly when the two expanded lists name the same descriptors in the same order.  It does not look at
the edition, the default values or the unexpanded lists (`compare_ignores` below). -/
theorem C18_compare_sound (t1 t2 : TmplV) :
    compareTemplate t1 t2 = 0 ↔ t1.gabarit.map (·.desc) = t2.gabarit.map (·.desc) := by
  unfold compareTemplate
  by_cases hl : t1.gabarit.length = t2.gabarit.length
  · rw [if_neg (by simpa using hl)]
    by_cases hz : (t1.gabarit.zip t2.gabarit).all (fun p => decide (p.1.desc = p.2.desc)) = true
    · rw [if_pos hz]
      exact ⟨fun _ => (zip_all_iff _ _ hl).mp hz, fun _ => rfl⟩
    · rw [if_neg hz]
      exact ⟨fun h => by simp at h, fun h => absurd ((zip_all_iff _ _ hl).mpr h) hz⟩
  · rw [if_pos (by simpa using hl)]
    constructor
    · intro h; simp at h
    · intro h
      exact absurd (by simpa using congrArg List.length h) hl

/-- **Reals.**  A finite double written by `bufr_save_template` (15 significant digits when they
identify it, 17 otherwise) is read back by `strtod` as the same double. -/
theorem C18_real_roundtrip (q : Rat) (h : isDouble q = true) : strtodC (printReal q) = .fin q :=
  strtod_printReal q h

/-! ### Non-vacuity -/

/-- a small table set: integer, real (scale 2), character (3 octets), 40-bit integer and class 31 elements, one sequence -/
def exT : Tables :=
  { fetchB := fun d =>
      if d = 1001 then some { desc := 1001, scale := 0, ref := 0, nbits := 7, typ := .numeric }
      else if d = 12101 then some { desc := 12101, scale := 2, ref := 0, nbits := 16, typ := .numeric }
      else if d = 1015 then some { desc := 1015, scale := 0, ref := 0, nbits := 24, typ := .ccitt }
      else if d = 2040 then some { desc := 2040, scale := 0, ref := 0, nbits := 40, typ := .numeric }
      else if d = 31001 then some { desc := 31001, scale := 0, ref := 0, nbits := 8, typ := .numeric }
      else none,
    fetchD := fun d => if d = 301001 then some { desc := 301001, members := [1001, 102002, 12101, 1001] } else none }

def okT (r : Except XErr TmplV) : Option TmplV := match r with | .ok t => some t | _ => none
def okL (r : Except LoadErr TmplV) : Option TmplV := match r with | .ok t => some t | _ => none
def refused (r : Except LoadErr TmplV) : Bool := match r with | .error .refused => true | _ => false

/-- Table D, delayed replication with a preset factor, an operator; integer (also negative and
missing), 64-bit, real (the double nearest 1/3, which needs 17 digits; 0.1, which needs 1; missing) and string
(blanks, a quote, a comma, `#`) defaults, three values on one descriptor -/
def exCodets : List DescVal :=
  [ { desc := 301001 }, { desc := 101000 }, { desc := 31001, vals := [.i32 2] },
    { desc := 1001, vals := [.i32 5, .i32 (-1), .i32 (-7)] }, { desc := 201130 },
    { desc := 12101, vals := [.f64 (.fin ((6004799503160661 : Rat) / 18014398509481984)),      -- 1/3: 0.33333333333333331
                              .f64 (.fin ((3602879701896397 : Rat) / 36028797018963968)),      -- 0.1
                              .f64 (.fin maxDouble)] },
    { desc := 201000 }, { desc := 1015, vals := [.str [34, 35, 44]] }, { desc := 2040, vals := [.i64 (-(2:Int)^40)] } ]

/-- the template exists, is finished, and the text form can carry it -/
example : (okT (createTemplateV exT 100 3 exCodets)).isSome = true := by decide +kernel
example : (okT (createTemplateV exT 100 3 exCodets)).map (Savable exT) = some true := by decide +kernel
/-- and, run on it, `load ∘ save` is the identity (what `C18_text` proves for all of them) -/
example : (okT (createTemplateV exT 100 3 exCodets)).bind (fun t => okL (load exT 100 (save t))) =
    okT (createTemplateV exT 100 3 exCodets) := by decide +kernel
/-- the saved text of a small template, byte for byte: `1001,VALUE=5,MSNG` and `1015,VALUE="A B"` -/
example : (okT (createTemplateV exT 100 4 [{ desc := 1001, vals := [.i32 5, .i32 (-1)] }, { desc := 1015, vals := [.str [65, 32, 66]] }])).map save =
    some (hdrA ++ [50] ++ hdrB ++ [10] ++ hdrEd ++ [52, 10, 35, 10] ++
      [49, 48, 48, 49, 44, 86, 65, 76, 85, 69, 61, 53, 44, 77, 83, 78, 71, 10] ++
      [49, 48, 49, 53, 44, 86, 65, 76, 85, 69, 61, 34, 65, 32, 66, 34, 10] ++ [35, 10]) := by decide +kernel

/-- refused: an element that is in no table, a sequence that is in no table, a replication running
past the end, a delayed replication without factor, a negative number, garbage -/
example : refused (load exT 100 [49, 57, 57, 57, 10]) = true := by decide +kernel                       -- "1999"
example : refused (load exT 100 [51, 57, 57, 48, 48, 49, 10]) = true := by decide +kernel               -- "399001"
example : refused (load exT 100 [49, 48, 50, 48, 48, 51, 10, 49, 48, 48, 49, 10]) = true := by decide +kernel   -- "102003" "1001"
example : refused (load exT 100 [49, 48, 49, 48, 48, 48, 10, 49, 48, 48, 49, 10]) = true := by decide +kernel   -- "101000" "1001"
example : refused (load exT 100 [45, 53, 10]) = true := by decide +kernel                               -- "-5"
example : refused (load exT 100 [104, 101, 108, 108, 111, 10]) = true := by decide +kernel              -- "hello"
/-- the hypothesis of `C18_refuses` on the first of these -/
example : descsValid exT none ((namedDescs exT [49, 57, 57, 57, 10]).map Int.toNat) = false := by decide +kernel

/-- `bufr_compare_template` ignores the edition and the default values -/
example : (do let a ← okT (createTemplateV exT 100 3 [{ desc := 1001, vals := [.i32 5] }])
              let b ← okT (createTemplateV exT 100 4 [{ desc := 1001 }])
              pure (compareTemplate a b, decide (a = b))) = some (0, false) := by decide +kernel

/-- **What the text form cannot carry.**  A character default holding a newline is written on two
lines; the second one is read as a descriptor: the saved text of this valid template is refused.
(`Savable` is false for it; known finding C18-string-newline.) -/
theorem C18_text_fails_newline :
    ∃ t, createTemplateV exT 100 4 [{ desc := 1015, vals := [.str [65, 10, 66]] }] = .ok t ∧
      Savable exT t = false ∧ load exT 100 (save t) = .error .refused := by
  refine ⟨{ edition := 4, codets := [{ desc := 1015, vals := [.str [65, 10, 66]] }],
            gabarit := [{ desc := 1015, enc := { type := .ccitt, scale := 0, ref := 0, nbits := 24 }, val := .str [65, 10, 66] }],
            hasDelayed := false }, ?_, ?_, ?_⟩ <;> decide +kernel

end Bufr.C18
