import BufrProofs.Ieee
/-
  C19 — IEEE 754 fields are stored bit-exactly (operators 2 09 032 / 2 09 064).
  POST-FIX version: for bufr_ieee754.c with (1) the stray `;` in check_C_ieee754_compliance removed and
  (2) subnormals handled in bufr_single/double_get_significand (`rem` decremented from the first iteration
  when expon == emin; expon forced to emin below FLT_MIN/DBL_MIN).

  Property theorems only (helper lemmas live in BufrProofs/Ieee.lean).
  Spec:  BufrSpec/Ieee.lean   (`Spec.ieeeValue32/64`: IEEE 754-2008 §3.4, written from the standard).
  Model: BufrModel/Ieee.lean  (`decodeSingle/Double`, `encodeSingle/Double`, `useCIeee754`), tied to
         bufr_ieee754.c by the `ieee.*` correspondence streams.

  Every statement quantifies over ALL bit patterns (no enumeration); all are full strength.  The exponent
  guess `g` (`(int)(logf(x)/logf(2.0))`, libm) is universally quantified under its contract
  `GuessOKV cfg x g`:  `x = 0`, or `x < 2^emin` (guess irrelevant), or `2^(g−2) ≤ x < 2^(g+2)`.
-/
namespace Bufr.C19
open Bufr Bufr.Spec

/-! ## decoding: every pattern, both formats -/

/-- **decode (binary32)**: the portable decoder returns the IEEE 754 value of every 32-bit pattern —
normal, subnormal, zero of either sign, infinity of either sign, and NaN for every NaN pattern. -/
theorem C19_decode32 (b : Nat) : decodeSingle b = ieeeValue32 b := by
  rw [decodeSingle_eq, hostVal32_eq]

example : decodeSingle 0x00000001 = .fin false (1 / 2 ^ 149) := by decide +kernel
example : decodeSingle 0x807fffff = .fin true ((2 ^ 23 - 1) / 2 ^ 149) := by decide +kernel
example : decodeSingle 0xc43b8a00 = .fin true (750 + 5 / 32) := by decide +kernel
example : decodeSingle 0x80000000 = .fin true 0 := by decide +kernel
example : decodeSingle 0xff800000 = .inf true := by decide +kernel
example : ieeeValue32 0x7f7fffff = .fin false (2 ^ 128 - 2 ^ 104) := by decide +kernel

/-- **decode (binary64)** -/
theorem C19_decode64 (b : Nat) : decodeDouble b = ieeeValue64 b := by
  rw [decodeDouble_eq, hostVal64_eq]

example : decodeDouble 0x0000000000000001 = .fin false (1 / 2 ^ 1074) := by decide +kernel
example : decodeDouble 0xc087714000000000 = .fin true (750 + 5 / 32) := by decide +kernel
example : decodeDouble 0x7ff0000000000000 = .inf false := by decide +kernel

/-! ## encoding -/

/-- **encode (binary32)**: for every non-NaN pattern `b` the portable encoder maps the value of `b` back
to `b`, whatever the exponent guess within its contract. -/
theorem C19_encode32 (b : Nat) (hb : b < 2 ^ 32) (hnan : ¬ isNaN 8 23 b) (g : Int)
    (hg : GuessOKV cfg32 (ieeeValue32 b) g) : encodeSingle (ieeeValue32 b) g = b := by
  rw [← hostVal32_eq] at hg ⊢
  exact encodeSingle_host b hb g hnan hg

-- 1.0 with the guess one too high, −750.15625 with the guess two too high, 2^−125·(1−2^−24) with the guess
-- glibc really returns (−124 = ⌊log₂x⌋+2), the largest subnormal with a guess above emin, the smallest
-- subnormal (former witness of the defect), 1e-40f, −∞, −0
example : encodeSingle (ieeeValue32 0x3f800000) 1 = 0x3f800000 :=
  C19_encode32 _ (by decide) (by decide) _ (by decide +kernel)
example : encodeSingle (ieeeValue32 0xc43b8a00) 11 = 0xc43b8a00 :=
  C19_encode32 _ (by decide) (by decide) _ (by decide +kernel)
example : encodeSingle (ieeeValue32 0x00ffffff) (-124) = 0x00ffffff :=
  C19_encode32 _ (by decide) (by decide) _ (by decide +kernel)
example : encodeSingle (ieeeValue32 0x007fffff) (-125) = 0x007fffff :=
  C19_encode32 _ (by decide) (by decide) _ (by decide +kernel)
example : encodeSingle (ieeeValue32 0x00000001) (-149) = 0x00000001 :=
  C19_encode32 _ (by decide) (by decide) _ (by decide +kernel)
example : encodeSingle (ieeeValue32 0x000116c2) (-132) = 0x000116c2 :=
  C19_encode32 _ (by decide) (by decide) _ (by decide +kernel)
example : encodeSingle (ieeeValue32 0xff800000) 0 = 0xff800000 :=
  C19_encode32 _ (by decide) (by decide) _ (by decide +kernel)
example : encodeSingle (ieeeValue32 0x80000000) 0 = 0x80000000 :=
  C19_encode32 _ (by decide) (by decide) _ (by decide +kernel)
-- the model really computes it (not only the theorem): kernel evaluation of the former witnesses
example : encodeSingle (ieeeValue32 0x00000001) (-149) = 0x00000001 := by decide +kernel
example : encodeSingle (ieeeValue32 0x803fffff) (-127) = 0x803fffff := by decide +kernel

/-- **encode (binary64)** -/
theorem C19_encode64 (b : Nat) (hb : b < 2 ^ 64) (hnan : ¬ isNaN 11 52 b) (g : Int)
    (hg : GuessOKV cfg64 (ieeeValue64 b) g) : encodeDouble (ieeeValue64 b) g = b := by
  rw [← hostVal64_eq] at hg ⊢
  exact encodeDouble_host b hb g hnan hg

example : encodeDouble (ieeeValue64 0x3ff0000000000000) (-1) = 0x3ff0000000000000 :=
  C19_encode64 _ (by decide) (by decide) _ (by decide +kernel)
example : encodeDouble (ieeeValue64 0xc087714000000000) 9 = 0xc087714000000000 :=
  C19_encode64 _ (by decide) (by decide) _ (by decide +kernel)
example : encodeDouble (ieeeValue64 0x0000000000000001) (-1074) = 0x0000000000000001 :=
  C19_encode64 _ (by decide) (by decide) _ (by decide +kernel)
example : encodeDouble (ieeeValue64 0x7fefffffffffffff) 1024 = 0x7fefffffffffffff :=
  C19_encode64 _ (by decide) (by decide) _ (by decide +kernel)
example : encodeDouble (ieeeValue64 0x000012688b70e62b) (-1029) = 0x000012688b70e62b := by decide +kernel

/-! ## round trips -/

/-- **pattern round trip (binary32)**: encode ∘ decode is the identity on non-NaN patterns. -/
theorem C19_roundtrip32 (b : Nat) (hb : b < 2 ^ 32) (hnan : ¬ isNaN 8 23 b) (g : Int)
    (hg : GuessOKV cfg32 (decodeSingle b) g) : encodeSingle (decodeSingle b) g = b := by
  rw [C19_decode32] at hg ⊢
  exact C19_encode32 b hb hnan g hg

example : encodeSingle (decodeSingle 0x80000001) (-149) = 0x80000001 :=
  C19_roundtrip32 _ (by decide) (by decide) _ (by decide +kernel)

theorem C19_roundtrip64 (b : Nat) (hb : b < 2 ^ 64) (hnan : ¬ isNaN 11 52 b) (g : Int)
    (hg : GuessOKV cfg64 (decodeDouble b) g) : encodeDouble (decodeDouble b) g = b := by
  rw [C19_decode64] at hg ⊢
  exact C19_encode64 b hb hnan g hg

example : encodeDouble (decodeDouble 0x8000000000000001) (-1074) = 0x8000000000000001 :=
  C19_roundtrip64 _ (by decide) (by decide) _ (by decide +kernel)

/-- **value round trip (binary32)**: every representable value — the value of a non-NaN pattern — is read
back identically after being written. -/
theorem C19_value_roundtrip32 (b : Nat) (hb : b < 2 ^ 32) (hnan : ¬ isNaN 8 23 b) (g : Int)
    (hg : GuessOKV cfg32 (ieeeValue32 b) g) :
    decodeSingle (encodeSingle (ieeeValue32 b) g) = ieeeValue32 b := by
  rw [C19_encode32 b hb hnan g hg, C19_decode32]

example : decodeSingle (encodeSingle (ieeeValue32 1) (-149)) = .fin false (1 / 2 ^ 149) := by decide +kernel

theorem C19_value_roundtrip64 (b : Nat) (hb : b < 2 ^ 64) (hnan : ¬ isNaN 11 52 b) (g : Int)
    (hg : GuessOKV cfg64 (ieeeValue64 b) g) :
    decodeDouble (encodeDouble (ieeeValue64 b) g) = ieeeValue64 b := by
  rw [C19_encode64 b hb hnan g hg, C19_decode64]

example : decodeDouble (encodeDouble (ieeeValue64 1) (-1074)) = .fin false (1 / 2 ^ 1074) := by decide +kernel

/-! ## NaN, as the C handles it -/

/-- **NaN (binary32)**: every NaN pattern reads as NaN; NaN is written as the quiet NaN `7fc00000`, which is
a NaN pattern (payload and sign of a NaN are not preserved by the portable path). -/
theorem C19_nan32 :
    (∀ b, isNaN 8 23 b → decodeSingle b = .nan) ∧ (∀ g, encodeSingle .nan g = 0x7fc00000) ∧
    isNaN 8 23 0x7fc00000 := by
  refine ⟨fun b h => ?_, fun g => ?_, by decide⟩
  · rw [decodeSingle_eq]; exact hostVal_nan 8 23 b h
  · show (0x7f800000 ||| (1 <<< 22) : Nat) = 0x7fc00000; decide

example : decodeSingle 0x7f800001 = .nan := C19_nan32.1 _ (by decide)

theorem C19_nan64 :
    (∀ b, isNaN 11 52 b → decodeDouble b = .nan) ∧ (∀ g, encodeDouble .nan g = 0x7ff8000000000000) ∧
    isNaN 11 52 0x7ff8000000000000 := by
  refine ⟨fun b h => ?_, fun g => ?_, by decide⟩
  · rw [decodeDouble_eq]; exact hostVal_nan 11 52 b h
  · show (0x7ff0000000000000 ||| (1 <<< 51) : Nat) = 0x7ff8000000000000; decide

example : decodeDouble 0xfff0000000000001 = .nan := C19_nan64.1 _ (by decide)

/-! ## the native-layout shortcut -/

/-- **both paths**: whether or not `C_use_ieee754` is on, decoding gives the IEEE value of the pattern and
encoding returns the pattern (native: for *every* pattern, NaN payloads included).  (Host layout assumption:
`hostVal` = binary32/64, proved equal to the spec in `hostVal32_eq`/`hostVal64_eq`.) -/
theorem C19_native_paths :
    (∀ useC b, ieeeDecodeSingle useC b = ieeeValue32 b) ∧ (∀ useC b, ieeeDecodeDouble useC b = ieeeValue64 b) ∧
    (∀ b g, ieeeEncodeSingle true b g = b) ∧ (∀ b g, ieeeEncodeDouble true b g = b) ∧
    (∀ useC b g, b < 2 ^ 32 → ¬ isNaN 8 23 b → GuessOKV cfg32 (ieeeValue32 b) g →
      ieeeEncodeSingle useC b g = b) ∧
    (∀ useC b g, b < 2 ^ 64 → ¬ isNaN 11 52 b → GuessOKV cfg64 (ieeeValue64 b) g →
      ieeeEncodeDouble useC b g = b) := by
  refine ⟨fun useC b => ?_, fun useC b => ?_, fun b g => rfl, fun b g => rfl, ?_, ?_⟩
  · cases useC
    · exact C19_decode32 b
    · exact hostVal32_eq b
  · cases useC
    · exact C19_decode64 b
    · exact hostVal64_eq b
  · intro useC b g hb hn hg
    cases useC
    · show encodeSingle (hostVal32 b) g = b
      rw [hostVal32_eq]; exact C19_encode32 b hb hn g hg
    · rfl
  · intro useC b g hb hn hg
    cases useC
    · show encodeDouble (hostVal64 b) g = b
      rw [hostVal64_eq]; exact C19_encode64 b hb hn g hg
    · rfl

example : ieeeEncodeSingle true 0x00000001 0 = 0x00000001 := C19_native_paths.2.2.1 _ _
example : ieeeDecodeSingle true 0x00000001 = .fin false (1 / 2 ^ 149) := by decide +kernel

/-- **the switch works**: on a host whose type sizes are right and whose libm meets the guess contract on
the 17 self-test values, the start-up test passes, `bufr_use_C_ieee754(1)` returns 1 and sets
`C_use_ieee754`, and `bufr_use_C_ieee754(0)` turns it off again. -/
theorem C19_native_on (env : SelfTestEnv) (hs : env.sizesOK = true)
    (h32 : ∀ b ∈ selfTestValues32, GuessOKV cfg32 (hostVal32 b) (env.guess32 b))
    (h64 : ∀ b ∈ selfTestValues64, GuessOKV cfg64 (hostVal64 b) (env.guess64 b)) :
    (useCIeee754 env {} 1).2 = 1 ∧ (useCIeee754 env {} 1).1.cUse = true ∧
    (useCIeee754 env (useCIeee754 env {} 1).1 0).2 = 0 ∧
    (useCIeee754 env (useCIeee754 env {} 1).1 0).1.cUse = false := by
  unfold useCIeee754
  simp [checkCompliance_one env hs h32 h64]

end Bufr.C19
