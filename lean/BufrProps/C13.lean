import BufrProofs.DumpNode
import BufrProps.C08
/-
  C13 — a dataset written as text and loaded back encodes to the identical message.

  What is proved here, for the model of `bufr_fdump_dataset` / `bufr_read_dataset_dump` /
  `bufr_genmsgs_from_dump` in BufrModel/Dump.lean (the PATCHED library: see known_findings.json,
  property C13):

  * value level (full strength): the decimal text of every decoded value reads back as the very
    same double and re-encodes to the raw value it came from (`C13_value_text`,
    `C13_value_roundtrip`, `C13_value_node`), integers (`C13_int_roundtrip`), flag tables in
    binary (`C13_flag_roundtrip`), quoted strings (`C13_string_roundtrip`), associated fields
    (`C13_af_roundtrip`), missing values (`C13_missing_roundtrip`);
  * line level (full strength): the line printed for any node, whatever meta text stands between
    descriptor and value, parses to the node's record (`C13_line_roundtrip`);
  * header (full strength): the header block reads back (`C13_header_roundtrip`);
  * dataset level (full strength, text): reading the text of a dataset IS the loader's walk over the
    records of its nodes (`C13_text_roundtrip`); several datasets printed one after the other are
    read one by one, in order (`C13_concat`);
  * `C13_roundtrip_partial`, `C13_concat_partial`: the loaded dataset encodes to the identical
    message — under the hypothesis `Reloads` that the walk, a function of nodes and records with no
    text in it, reproduces a dataset with the same encoding.  What is missing for full strength: a
    proof that every dataset built by `createDatasubset`/`expandDatasubset`/the setters or by
    `decodeData` satisfies `Reloads` (template expansion driven by the dataset's own replication
    factors reproduces its descriptors and encodings).  `Reloads` is decidable; it is evaluated for
    the examples below and, in effect, on every dataset of every run of the correspondence.
-/
namespace Bufr.C13
open Bufr Bufr.SF Bufr.Printf Bufr.Dump Bufr.Scale

/-! ## values -/

/-- **the text of a decoded value reads back as the same double** — `%.{scale}f`, and `%.1f` for
a negative scale, against `strtod`; every encoding of the C08 domain (width 1..32, |reference| ≤
2^30, scale −16..15), every raw value below all-ones -/
theorem C13_value_text (e : Scale.Enc) (hv : e.Valid) (i : ℕ) (hi : i < 2 ^ e.nbits - 1) :
    strtod (printScaled e.scale (cvtI64ToDval e i)) = .fin (cvtI64ToDval e i) := by
  have h1 : (1:ℕ) ≤ 2 ^ e.nbits := Nat.one_le_two_pow
  have hi' : (i:ℤ) < 2 ^ e.nbits - 1 := by
    have : (i:ℤ) < ((2 ^ e.nbits - 1 : ℕ) : ℤ) := by exact_mod_cast hi
    rw [Nat.cast_sub h1] at this; push_cast at this; exact this
  exact strtod_printScaled e hv i (Int.natCast_nonneg i) hi'

example : strtod (printScaled 2 (cvtI64ToDval ⟨2, -27315, 16⟩ 30000)) = .fin (cvtI64ToDval ⟨2, -27315, 16⟩ 30000) := by
  decide +kernel
-- the range end of 0 02 067 (scale −5, 15 bits): "3276600000.0"
example : printScaled (-5) (cvtI64ToDval ⟨-5, 0, 15⟩ 32766) = B "3276600000.0" := by decide +kernel
example : (⟨-5, 0, 15⟩ : Scale.Enc).Valid := by decide
example : printScaled 2 (cvtI64ToDval ⟨2, -27315, 16⟩ 30000) = B "26.85" := by decide +kernel

/-- **key lemma**: for every encoding in range and every raw value `i`, parsing the printed text of
`cvtI64ToDval e i` and converting back gives raw `i`, and the value passes the range test of
`bufr_descriptor_set_dvalue` — for both settings of the zero-trimming switch -/
theorem C13_value_roundtrip (trim : Bool) (code : Desc) (h31 : Desc.x code ≠ 31) (e : Scale.Enc) (hv : e.Valid)
    (i : ℕ) (hi : i < 2 ^ e.nbits - 1) :
    let tok := printScaledValue trim (.f64 (.fin (cvtI64ToDval e i))) (some e.scale)
    cvtDvalToI64 code e (strtod tok) = i ∧ setDvalueAccepts code e (strtod tok) = true := by
  have h1 : (1:ℕ) ≤ 2 ^ e.nbits := Nat.one_le_two_pow
  have hi' : (i:ℤ) < 2 ^ e.nbits - 1 := by
    have : (i:ℤ) < ((2 ^ e.nbits - 1 : ℕ) : ℤ) := by exact_mod_cast hi
    rw [Nat.cast_sub h1] at this; push_cast at this; exact this
  have h0 : (0:ℤ) ≤ i := Int.natCast_nonneg i
  have hnm : cvtI64ToDval e i ≠ maxDouble := decode_not_missing e hv i h0 hi'
  have htok : printScaledValue trim (.f64 (.fin (cvtI64ToDval e i))) (some e.scale) =
      printScaled e.scale (cvtI64ToDval e i) := by
    simp [printScaledValue, fpMissingD, hnm]
  simp only [htok, C13_value_text e hv i hi]
  refine ⟨C08.C08_roundtrip code e hv i hi, ?_⟩
  unfold setDvalueAccepts
  simp only [hnm, if_false, getRange_eq code e h31]
  have hlo := decode_ge_fmin e hv i h0 hi'
  have hhi := decode_le_fmax e hv i h0 hi'
  simp [not_lt.mp hlo, not_lt.mp hhi]

example : (⟨2, -27315, 16⟩ : Scale.Enc).Valid ∧ (30000:ℕ) < 2 ^ 16 - 1 ∧ Desc.x 12101 ≠ 31 := by decide

/-- the same at the level of a descriptor node: the loader's node (same descriptor and encoding,
any double in it) becomes the node that was printed -/
theorem C13_value_node (trim : Bool) (n n0 : Node) (r : Rec) (x0 : FP) (i : ℕ)
    (hty : n.enc.type = .numeric) (hv : (sEnc n.enc).Valid) (hi : i < 2 ^ (sEnc n.enc).nbits - 1)
    (hval : n.val = .f64 (.fin (cvtI64ToDval (sEnc n.enc) i)))
    (hn0 : n0 = { n with val := .f64 x0 }) (h31 : Desc.x n.desc ≠ 31) (hlk : class31Locked n0 = false) :
    storeTok n0 r (printDscptrValue trim n) = n :=
  storeTok_numeric trim n n0 r x0 i hty hv hi hval hn0 h31 hlk

/-- **missing values**: a missing double is written `MSNG` and the loader's missing value stays -/
theorem C13_missing_roundtrip (trim : Bool) (n : Node) (r : Rec) (hty : n.enc.type = .numeric)
    (hval : n.val = .f64 (.fin maxDouble)) :
    printDscptrValue trim n = B "MSNG" ∧ storeTok n r (printDscptrValue trim n) = n := by
  refine ⟨?_, storeTok_numeric_missing trim n r hty hval⟩
  unfold printDscptrValue
  rw [hty]
  simp [hval, printScaledValue, fpMissingD]

/-- **integers** (`%d`, `%lld` against `atol`): code tables, integer-valued numerics, new
reference values -/
theorem C13_int_roundtrip (v : Int) (h0 : -(2:Int) ^ 63 ≤ v) (h1 : v < 2 ^ 63) :
    intOfTok false (fmtInt v) = v ∧ atol (fmtInt v) = v :=
  ⟨intOfTok_fmtInt v h0 h1, atol_fmtInt v h0 h1⟩

example : intOfTok false (fmtInt (-140879)) = -140879 := by decide +kernel
example : fmtInt 4000000001 = B "4000000001" := by decide +kernel

/-- **flag tables printed in binary**, up to 64 bits wide: the digits read back as the value -/
theorem C13_flag_roundtrip (v : Int) (n : Int) (h0 : 0 ≤ v) (h1 : v < 2 ^ 63) (hn : n ≤ 64) :
    intOfTok true (printBinary v n) = v :=
  intOfTok_printBinary v n h0 h1 hn

example : printBinary 7 4 = B "0111" := by decide +kernel
example : printBinary 4000000000 32 = B "11101110011010110010100000000000" := by decide +kernel
example : intOfTok true (printBinary 1234567890123 64) = 1234567890123 := by decide +kernel

/-- **strings with embedded and trailing blanks** (and quotes, braces, parentheses): the quoted
text is read back whole, and stored in the loader's node it gives the printed node -/
theorem C13_string_roundtrip (d : Nat) (hd : d < 2 ^ 31) (L : List (List Nat × Nat)) (hL : ∀ p ∈ L, BlockOK p.1)
    (a : Option (Nat × Nat)) (ha : ∀ p, a = some p → p.1 < 2 ^ 64) (str : List Nat) (hne : str ≠ [])
    (hs : ∀ c ∈ str, c ≠ 10 ∧ c ≠ 13) :
    parseLine (fmtD6 (d : Int) ++ 32 :: (renderMeta L ++ (afText a ++ (34 :: (str ++ [34]))) ++ [10])) =
      some { icode := (d : Int), af := a.map (fun p => some p.1), tok := some str, quoted := true } :=
  parseLine_quoted d hd L hL a ha str hne hs

theorem C13_string_node (n n0 : Node) (bs bs0 : List Nat) (hval : n.val = .str bs)
    (hlen : bs.length = (n.enc.nbits / 8).toNat) (hnul : ∀ c ∈ bs, c ≠ 0)
    (hn0 : n0 = { n with val := .str bs0 }) :
    storeTok n0 { icode := n.desc, tok := some (cstr bs), quoted := true } (cstr bs) = n :=
  storeTok_string n n0 bs bs0 hval hlen hnul hn0

-- a string with a leading blank, an embedded `}` and quote, trailing blanks, after a meta block
example : parseLine (B "001015 {R=1} \" a}\"b  \"\n") =
    some { icode := 1015, af := none, tok := some (B " a}\"b  "), quoted := true } := by decide +kernel
-- the four characters MSNG in quotes are a string, not a missing value
example : parseLine (B "001104 \"MSNG\"\n") = some { icode := 1104, tok := some (B "MSNG"), quoted := true } := by
  decide +kernel

/-- **associated fields**: `(0x…:Nbits)` before the value gives the bits back, and the value
after it is read as without it -/
theorem C13_af_roundtrip (d : Nat) (hd : d < 2 ^ 31) (L : List (List Nat × Nat)) (hL : ∀ p ∈ L, BlockOK p.1)
    (bits w : Nat) (hb : bits < 2 ^ 64) (V : List Nat) (hV : CleanTok V) :
    parseLine (fmtD6 (d : Int) ++ 32 :: (renderMeta L ++ (printAf bits w ++ V) ++ [10])) =
      some { icode := (d : Int), af := some (some bits), tok := some V, quoted := false } := by
  have := parseLine_value d hd L hL (some (bits, w)) (by intro p hp; simp at hp; rw [← hp]; exact hb) V hV
  simpa [afText] using this

example : parseLine (B "020011 {R=2} (0xbc:8bits)2\n") =
    some { icode := 20011, af := some (some 188), tok := some (B "2") } := by decide +kernel

/-! ## lines, header -/

/-- **one dump line**: for every node and every meta text made of `{…}` blocks, under the
conditions `NodeText`, the line `bufr_fdump_dataset` writes is one `fgets` holds whole (no NUL, one
line feed, at most 2047 characters) and `bufr_load_datasubsets` parses it to the node's record -/
theorem C13_line_roundtrip (trim : Bool) (mt : List Nat) (n : Node) (h : NodeText trim mt n)
    (hc : isComment n = false) : parseLine (printNode trim mt n) = some (recOf trim n) :=
  (lineOK_of_nodeText trim mt n h).parse hc

/-- **Section 1 header fields**, data flag and header string survive the text form: the header
block is read back into the header it was printed from (the sub-centre, which editions before 3 do
not have, and the header string when there is none, come from the dataset read into) -/
theorem C13_header_roundtrip (ed : Nat) (hed : ed < 2 ^ 31) (h0 h : Hdr) (hok : HdrOK h)
    (i n : Nat) (hi : i < 10 ^ 9) (hn : n < 10 ^ 9) (s : List Nat) (F : Nat) (hF : 21 ≤ F) :
    loadHeader F h0 (printHeader ed h ++ (dsLine i n ++ s)) = (hdrLoaded ed h0 h, dsLine i n ++ s, true) :=
  loadHeader_printHeader ed hed h0 h hok i n hi hn s F hF

theorem C13_header_same (ed : Nat) (hed3 : 3 ≤ ed) (h0 h : Hdr) (hs : ∀ s, h.headerString = some s → cstr s = s)
    (hd : h0.s1data = h.s1data) :
    hdrLoaded ed { h0 with headerString := none } h = h := by
  unfold hdrLoaded
  have : ed ≥ 3 := hed3
  cases hh : h.headerString with
  | none => cases h; simp_all
  | some s => have := hs s hh; cases h; simp_all

def exHdr : Hdr :=
  { masterTable := 0, centre := 54, subCentre := 3, updSeq := 1, msgType := 2, interSub := 3,
    localSub := 4, masterVer := 17, localVer := 1, year := 2024, month := 2, day := 3, hour := 4, minute := 5,
    second := 6, dataFlag := 192, headerString := some (B "IUSA01 \"x\"") }

/-- decidable form of `HdrOK` -/
def hdrOKB (h : Hdr) : Bool :=
  let sh (v : Int) : Bool := decide (-32768 ≤ v ∧ v ≤ 32767)
  sh h.masterTable && decide (-(2:Int) ^ 31 ≤ h.centre ∧ h.centre < 2 ^ 31) && sh h.subCentre && sh h.updSeq &&
  sh h.msgType && sh h.interSub && sh h.localSub && sh h.masterVer && sh h.localVer && sh h.year && sh h.month &&
  sh h.day && sh h.hour && sh h.minute && sh h.second && decide (0 ≤ h.dataFlag ∧ h.dataFlag < 2 ^ 31) &&
  (match h.headerString with
   | some s => (cstr s).all (· ≠ 10) && decide ((cstr s).length ≤ 2000)
   | none => true)

theorem hdrOK_of_B (h : Hdr) (hb : hdrOKB h = true) : HdrOK h := by
  unfold hdrOKB at hb
  simp only [Bool.and_eq_true, decide_eq_true_eq] at hb
  obtain ⟨⟨⟨⟨⟨⟨⟨⟨⟨⟨⟨⟨⟨⟨⟨⟨a1, a2⟩, a3⟩, a4⟩, a5⟩, a6⟩, a7⟩, a8⟩, a9⟩, a10⟩, a11⟩, a12⟩, a13⟩, a14⟩, a15⟩, a16⟩, a17⟩ := hb
  refine ⟨a1, a2, a3, a4, a5, a6, a7, a8, a9, a10, a11, a12, a13, a14, a15, a16, ?_⟩
  intro s hs
  rw [hs] at a17
  simp only [Bool.and_eq_true, List.all_eq_true, decide_eq_true_eq] at a17
  exact ⟨fun x hx => by simpa using a17.1 x hx, a17.2⟩

example : HdrOK exHdr := hdrOK_of_B _ (by decide +kernel)
example : printHeader 4 exHdr = B ("BUFR_EDITION=4\nHEADER_STRING=\"IUSA01 \"x\"\"\nBUFR_MASTER_TABLE=0\nORIG_CENTER=54\n" ++
    "ORIG_SUB_CENTER=3\nUPDATE_SEQUENCE=1\nDATA_CATEGORY=2\nINTERN_SUB_CATEGORY=3\nLOCAL_SUB_CATEGORY=4\n" ++
    "MASTER_TABLE_VERSION=17\nLOCAL_TABLE_VERSION=1\nYEAR=2024\nMONTH=2\nDAY=3\nHOUR=4\nMINUTE=5\nSECOND=6\n" ++
    "DATA_FLAG=192\nCOMPRESSED=1\n") := by decide +kernel

/-! ## datasets -/

/-- **reading the text of a dataset is walking its records**: `bufr_read_dataset_dump` on what
`bufr_fdump_dataset` wrote (followed by nothing, or by the next dataset of the file) returns 1,
leaves the rest of the stream untouched, and yields the dataset whose subsets are the loader's
walks over the records of the printed nodes — for every dataset whose lines satisfy `LineOK`
(see `C13_line_roundtrip`), every meta text, both zero-trimming settings.  No text is left in
the right-hand side. -/
theorem C13_text_roundtrip (T : Tables) (t : Template) (fuel : Nat) (trim : Bool) (metas : List (List (List Nat)))
    (ds : Dataset) (hok : TextOK trim metas ds) (hed : t.edition < 2 ^ 31) (sts : List LdSt)
    (hw : List.Forall₂ (fun ns st => walk T t.edition fuel trim { todo := bsqOf T t } ns = some st) ds.subsets sts)
    (h0 : Hdr) (tail : List Nat) (ht : Tail tail) :
    readDataset T t fuel h0 (Dump.print trim t.edition metas ds ++ tail) =
      (1, { hdr := loadedHdr t.edition h0 ds (bsqErr T t || sts.any (·.invalid)),
            subsets := sts.map (finishSubset T fuel) }, tail) :=
  readDataset_print T t fuel trim metas ds hok hed sts hw h0 tail ht

/-- **several datasets concatenated in one text are loaded one by one, in order**: the loop of
`bufr_genmsgs_from_dump` on the texts of `items` returns exactly one dataset per item, in the
order of the text, each the walk of its own records, and ends with status 0 at the end of the text -/
theorem C13_concat (T : Tables) (t : Template) (fuel : Nat) (hed : t.edition < 2 ^ 31) (items : List Item)
    (hok : ∀ it ∈ items, it.OK T t fuel) (F : Nat) (hF : items.length < F) (h0 : Hdr) :
    loadAll T t fuel F h0 ((items.map fun it => Dump.print it.trim t.edition it.metas it.ds).flatten) =
      (loadedList T t fuel h0 items, 0) :=
  loadAll_prints T t fuel hed items hok F hF h0

theorem loadedList_length (T : Tables) (t : Template) (fuel : Nat) (h0 : Hdr) (items : List Item) :
    (loadedList T t fuel h0 items).length = items.length := by
  induction items generalizing h0 with
  | nil => rfl
  | cons it r ih => simp [loadedList, ih]

/-- the structural hypothesis: the walk over the item's records, started from the header `h0`,
gives a dataset that encodes to the same message as the original (no text involved; decidable) -/
def Reloads (T : Tables) (t : Template) (fuel : Nat) (h0 : Hdr) (it : Item) (c : Int) : Prop :=
  (encodeMessage T t (it.loaded T t fuel h0) c).2.2 = (encodeMessage T t it.ds c).2.2

instance (T : Tables) (t : Template) (fuel : Nat) (h0 : Hdr) (it : Item) (c : Int) : Decidable (Reloads T t fuel h0 it c) := by
  unfold Reloads; infer_instance

/-- **dump, load, encode = encode** (compressed and not), under `Reloads`.  PARTIAL: what is
missing is a proof that `Reloads` holds for every dataset the library's constructors and decoder
build (see the header of this file). -/
theorem C13_roundtrip_partial (T : Tables) (t : Template) (fuel : Nat) (hed : t.edition < 2 ^ 31) (it : Item)
    (hok : it.OK T t fuel) (h0 : Hdr) (c : Int) (hr : Reloads T t fuel h0 it c) (tail : List Nat) (ht : Tail tail) :
    let r := readDataset T t fuel h0 (Dump.print it.trim t.edition it.metas it.ds ++ tail)
    r.1 = 1 ∧ r.2.2 = tail ∧ (encodeMessage T t r.2.1 c).2.2 = (encodeMessage T t it.ds c).2.2 := by
  have := readDataset_print T t fuel it.trim it.metas it.ds hok.text hed it.sts hok.walks h0 tail ht
  simp only [this]
  exact ⟨trivial, trivial, hr⟩

/-- the same for a file of several datasets: as many are loaded as were dumped, in order, and
dataset `k` encodes to the message of the `k`-th dataset dumped (under `Reloads` for each, with
the header the loop carries from one dataset to the next) -/
theorem C13_concat_partial (T : Tables) (t : Template) (fuel : Nat) (hed : t.edition < 2 ^ 31) (items : List Item)
    (hok : ∀ it ∈ items, it.OK T t fuel) (F : Nat) (hF : items.length < F) (h0 : Hdr) (c : Int)
    (hr : ∀ (k : Nat) (hk : k < items.length),
      (encodeMessage T t ((loadedList T t fuel h0 items)[k]'(by rw [loadedList_length]; exact hk)) c).2.2 =
        (encodeMessage T t items[k].ds c).2.2) :
    let r := loadAll T t fuel F h0 ((items.map fun it => Dump.print it.trim t.edition it.metas it.ds).flatten)
    r.2 = 0 ∧ r.1.length = items.length ∧
      ∀ (k : Nat) (hk : k < items.length) (hk' : k < r.1.length),
        (encodeMessage T t r.1[k] c).2.2 = (encodeMessage T t items[k].ds c).2.2 := by
  have := loadAll_prints T t fuel hed items hok F hF h0
  simp only [this]
  refine ⟨trivial, loadedList_length T t fuel h0 items, ?_⟩
  intro k hk hk'
  exact hr k hk

/-! ## the hypotheses are met: decidable forms and a worked dataset -/

/-- decidable form of `CleanTok` -/
def cleanTokB (V : List Nat) : Bool := !V.isEmpty && V.all isTokChar

theorem cleanTok_of_B (V : List Nat) (h : cleanTokB V = true) : CleanTok V := by
  unfold cleanTokB at h
  simp only [Bool.and_eq_true, Bool.not_eq_true', List.all_eq_true] at h
  exact ⟨by intro hv; rw [hv] at h; simp at h, h.2⟩

/-- decidable form of `NodeText` for a node printed without meta text -/
def nodeTextB (trim : Bool) (n : Node) : Bool :=
  decide (n.desc < 2 ^ 31) && decide (n.afBits < 2 ^ 64) &&
  (n.flags.skipped || (match n.val with
     | .none => true
     | .str bs => decide (n.enc.type ≠ .flagtable) && !(cstr bs).isEmpty && (cstr bs).all (fun c => c ≠ 10 && c ≠ 13)
     | _ => cleanTokB (printDscptrValue trim n))) &&
  decide ((printNode trim [] n).length ≤ 2047)

theorem nodeText_of_B (trim : Bool) (n : Node) (h : nodeTextB trim n = true) : NodeText trim [] n := by
  unfold nodeTextB at h
  simp only [Bool.and_eq_true, decide_eq_true_eq, Bool.or_eq_true] at h
  obtain ⟨⟨⟨h1, h2⟩, h3⟩, h4⟩ := h
  refine ⟨h1, fun _ => ⟨[], rfl, by simp⟩, h2, ?_, ?_, h4⟩
  · intro bs hs hv
    rcases h3 with h3 | h3
    · rw [hs] at h3; simp at h3
    · rw [hv] at h3
      simp only [Bool.and_eq_true, decide_eq_true_eq, Bool.not_eq_true', List.all_eq_true] at h3
      refine ⟨h3.1.1, by intro he; rw [he] at h3; simp at h3, ?_⟩
      intro c hc; have := h3.2 c hc; simpa using this
  · intro hs hv hns
    rcases h3 with h3 | h3
    · rw [hs] at h3; simp at h3
    · cases hval : n.val with
      | none => rw [hval] at hv; simp [Val.isSome] at hv
      | str bs => exact absurd hval (hns bs)
      | i32 v => rw [hval] at h3; exact cleanTok_of_B _ h3
      | i64 v => rw [hval] at h3; exact cleanTok_of_B _ h3
      | f32 v => rw [hval] at h3; exact cleanTok_of_B _ h3
      | f64 v => rw [hval] at h3; exact cleanTok_of_B _ h3

theorem zipMeta_nil (ns : List Node) : zipMeta ns [] = ns.map (·, []) := by
  induction ns with
  | nil => rfl
  | cons n t ih => simp [zipMeta, ih]

theorem zipMetas_nil (ss : List (List Node)) : zipMetas ss [] = ss.map (·, []) := by
  induction ss with
  | nil => rfl
  | cons n t ih => simp [zipMetas, ih]

/-- decidable form of `TextOK` for a dataset printed without meta text -/
def textOKB (trim : Bool) (ds : Dataset) : Bool :=
  hdrOKB ds.hdr && !ds.subsets.isEmpty && decide (ds.subsets.length + 1 < 10 ^ 9) &&
  ds.subsets.all (fun ns => decide (ns.length < 10 ^ 9) && ns.all (nodeTextB trim))

theorem textOK_of_B (trim : Bool) (ds : Dataset) (h : textOKB trim ds = true) : TextOK trim [] ds := by
  unfold textOKB at h
  simp only [Bool.and_eq_true, decide_eq_true_eq, Bool.not_eq_true', List.all_eq_true] at h
  obtain ⟨⟨⟨h1, h2⟩, h3⟩, h4⟩ := h
  refine ⟨hdrOK_of_B _ h1, by intro he; rw [he] at h2; simp at h2, h3, fun ns hns => (h4 ns hns).1, ?_⟩
  intro p hp q hq
  rw [zipMetas_nil] at hp
  simp only [List.mem_map] at hp
  obtain ⟨ns, hns, rfl⟩ := hp
  rw [zipMeta_nil] at hq
  simp only [List.mem_map] at hq
  obtain ⟨n, hn, rfl⟩ := hq
  exact lineOK_of_nodeText trim [] n (nodeText_of_B trim n ((h4 ns hns).2 n hn))

theorem forall₂_of_mapM {α β} (f : α → Option β) (l : List α) (r : List β) (h : l.mapM f = some r) :
    List.Forall₂ (fun a b => f a = some b) l r := by
  induction l generalizing r with
  | nil => simp at h; subst h; exact List.Forall₂.nil
  | cons a t ih =>
    rw [List.mapM_cons] at h
    cases hfa : f a with
    | none => rw [hfa] at h; simp at h
    | some b =>
      rw [hfa] at h
      cases ht : t.mapM f with
      | none => rw [ht] at h; simp at h
      | some r' =>
        rw [ht] at h; simp at h; subst h
        exact List.Forall₂.cons hfa (ih r' ht)

/-- an item printed without meta text, with the end states of its walks computed -/
def mkItem (T : Tables) (t : Template) (fuel : Nat) (trim : Bool) (ds : Dataset) : Option Item :=
  (ds.subsets.mapM (walk T t.edition fuel trim { todo := bsqOf T t })).map fun sts =>
    { trim := trim, metas := [], ds := ds, sts := sts }

theorem mkItem_ok (T : Tables) (t : Template) (fuel : Nat) (trim : Bool) (ds : Dataset) (it : Item)
    (h : mkItem T t fuel trim ds = some it) (htxt : textOKB trim ds = true) : it.OK T t fuel := by
  unfold mkItem at h
  cases hm : ds.subsets.mapM (walk T t.edition fuel trim { todo := bsqOf T t }) with
  | none => rw [hm] at h; simp at h
  | some sts =>
    rw [hm] at h; simp at h; subst h
    exact ⟨textOK_of_B trim ds htxt, forall₂_of_mapM _ _ _ hm⟩

/-- a small table set: integer, character, scaled (positive and negative scale), factor, code and
flag table elements -/
def exB : List EntryB :=
  [ { desc := 1001, scale := 0, ref := 0, nbits := 7, typ := .numeric },
    { desc := 1019, scale := 0, ref := 0, nbits := 64, typ := .ccitt },
    { desc := 12101, scale := 2, ref := 0, nbits := 16, typ := .numeric },
    { desc := 10004, scale := -1, ref := 0, nbits := 14, typ := .numeric },
    { desc := 31001, scale := 0, ref := 0, nbits := 8, typ := .numeric },
    { desc := 31021, scale := 0, ref := 0, nbits := 6, typ := .codetable },
    { desc := 20011, scale := 0, ref := 0, nbits := 4, typ := .codetable },
    { desc := 2002, scale := 0, ref := 0, nbits := 4, typ := .flagtable } ]
def exT : Tables := { fetchB := fun d => exB.find? (·.desc = d), fetchD := fun _ => none }

/-- a template with an associated field (2 04 008) and a delayed replication of a flag table -/
def exTmpl : Template :=
  match createTemplate exT 100 4 [1001, 1019, 12101, 10004, 204008, 31021, 20011, 204000, 101000, 31001, 2002] with
  | .ok t => t
  | .error _ => { edition := 4, descs := [], gabarit := [], hasDelayed := false }

def exVals (ns : List Node) : List Node := ns.map fun n =>
  if n.flags.skipped then n
  else if n.desc = 1001 then (setRaw n 64).1
  else if n.desc = 1019 then (setSvalue n (B " a}\"b")).1            -- leading blank, `}`, quote, trailing blanks
  else if n.desc = 12101 then (setRaw n 30000).1
  else if n.desc = 10004 then (setRaw n 16382).1                      -- the largest raw value of a negative scale
  else if n.desc = 20011 then { (setRaw n 2).1 with afBits := 188 }
  else if n.desc = 2002 then (setRaw n 7).1
  else n

/-- a subset built the way an application does: new subset, replication factor, expansion, values -/
def exSubset (factor : Int) : List Node :=
  match createDatasubset exT 100 exTmpl with
  | .ok (s, _) =>
    let ns := s.nodes.map fun n => if n.desc = 31001 then { n with val := n.val.setInt32 factor } else n
    match expandDatasubset exT 100 exTmpl { nodes := ns } with
    | .ok (s2, _) => exVals s2.nodes
    | .error _ => []
  | .error _ => []

def exDs1 : Dataset := { hdr := exHdr, subsets := [exSubset 2, exSubset 0] }
def exDs2 : Dataset := { hdr := { exHdr with headerString := none, year := 1999, dataFlag := 0 }, subsets := [exSubset 1] }

-- the text of the first dataset's first subset
example : printSubset true 0 [] (exSubset 2) = B ("DATASUBSET 1 : 12 codes\n001001 64\n001019 \" a}\"b   \"\n012101 300.00\n" ++
    "010004 163820.0\n204008 \n031021 MSNG\n020011 (0xbc:8bits)2\n204000 \n101000 \n031001 2\n002002 0111\n002002 0111\n\n") := by
  decide +kernel
-- a replication that occurs zero times: its placeholder is a comment
example : printSubset false 1 [] (exSubset 0) = B ("DATASUBSET 2 : 11 codes\n001001 64\n001019 \" a}\"b   \"\n012101 300.00\n" ++
    "010004 163820.0\n204008 \n031021 MSNG\n020011 (0xbc:8bits)2\n204000 \n101000 \n031001 0\n#002002 \n\n") := by
  decide +kernel

-- the hypotheses of `C13_text_roundtrip`, `C13_roundtrip_partial` hold for it, for both trim settings,
-- compressed and not
example : textOKB true exDs1 = true ∧ textOKB false exDs1 = true ∧ textOKB true exDs2 = true := by decide +kernel
example : ∃ it, mkItem exT exTmpl 100 true exDs1 = some it ∧ it.OK exT exTmpl 100 ∧
    Reloads exT exTmpl 100 {} it 0 ∧ Reloads exT exTmpl 100 {} it 1 := by
  cases h : mkItem exT exTmpl 100 true exDs1 with
  | none => exact absurd h (by decide +kernel)
  | some it =>
    refine ⟨it, rfl, mkItem_ok _ _ _ _ _ it h (by decide +kernel), ?_, ?_⟩
    · have : (mkItem exT exTmpl 100 true exDs1).all (fun it => decide (Reloads exT exTmpl 100 {} it 0)) = true := by
        decide +kernel
      rw [h] at this; simpa using this
    · have : (mkItem exT exTmpl 100 true exDs1).all (fun it => decide (Reloads exT exTmpl 100 {} it 1)) = true := by
        decide +kernel
      rw [h] at this; simpa using this
-- end to end on the model: dump, load, encode = encode, for a file of two datasets
example : (loadAll exT exTmpl 100 5 {} (Dump.print true 4 [] exDs1 ++ Dump.print false 4 [] exDs2)).1.map
      (fun ds => (encodeMessage exT exTmpl ds 0).2.2) =
    [exDs1, exDs2].map (fun ds => (encodeMessage exT exTmpl ds 0).2.2) := by decide +kernel
example : (loadAll exT exTmpl 100 5 {} (Dump.print true 4 [] exDs1 ++ Dump.print false 4 [] exDs2)).2 = 0 := by
  decide +kernel

/-! ## known finding: the additional octets of Section 1 have no key in the text form -/

/-- a dataset whose Section 1 carries two additional (local use) octets, as a decoded message of an
ADP centre may -/
def exDs3 : Dataset := { hdr := { exHdr with headerString := none, s1data := [170, 187] }, subsets := [exSubset 1] }

/-- **FAILS (known finding C13-sect1-local-octets)**: the dump has no line for the additional
octets of Section 1, so the dataset loaded from the text encodes to a shorter Section 1: the
messages differ.  Forced hypothesis of the round trip: `hdr.s1data = []`. -/
theorem C13_sect1_local_octets_fails :
    (encodeMessage exT exTmpl (readDataset exT exTmpl 100 {} (Dump.print true 4 [] exDs3)).2.1 0).2.2 ≠
      (encodeMessage exT exTmpl exDs3 0).2.2 := by decide +kernel

-- without the additional octets the same dataset does round-trip
example : (encodeMessage exT exTmpl (readDataset exT exTmpl 100 {} (Dump.print true 4 [] { exDs3 with hdr := { exDs3.hdr with s1data := [] } })).2.1 0).2.2 =
    (encodeMessage exT exTmpl { exDs3 with hdr := { exDs3.hdr with s1data := [] } } 0).2.2 := by decide +kernel

end Bufr.C13
