import BufrProofs.FindKeys
/-
  C17 — search returns the first match, honouring value, range and qualifier keys.

  "Searching a subset for a descriptor, or for a sequence of element-descriptor/value keys, from a start
  position returns the smallest position at or after the start at which the keys match consecutively —
  values equal within half the element precision, two-value keys as inclusive ranges, qualifier keys against
  the most recent non-missing qualifier (classes 01-09) in effect for the element — and -1 when there is no
  such position."

  Model: BufrModel/Find.lean (bufr_subset_find_descriptor, bufr_subset_find_values, bufr_compare_value,
  bufr_between_values, bufr_expand_qualifiers, bufr_fetch_rtmd_qualifier, the bufr_set_key_* constructors) — the
  code AFTER the nine C17 fix commits.  Specification: BufrSpec/Find.lean.

  * `C17_descriptor`  find_descriptor = first position at or after the start with that descriptor, else -1.
  * `C17_values`      find_values = the LEAST position at or after the start at which the loop's per-position
                      test holds for all element keys consecutively — for every subset, key list, start and
                      qualifier lists: the `i/j/jj` restart logic never skips a match and never reports a later one.
  * `C17_first`, `C17_none`   the same, spelt out: a result `p ≥ 0` matches and nothing in `[start, p)` does;
                      the result is -1 exactly when no position at or after the start matches.
  * `C17_qualifiers`  after bufr_expand_qualifiers the list of every descriptor answers
                      bufr_fetch_rtmd_qualifier(d) with the qualifier `d` in effect (`Spec.inEffect`): the most
                      recent carrier before it, none if that one is missing; whatever lists there were before.
  * `C17_keys`        the loop's per-position test IS the property's (`Spec.posMatches`): descriptor number, value
                      equal within half the precision / inclusive range / text up to padding, every qualifier key
                      against the qualifier in effect — under the decidable side conditions `leafOk`.
  * `C17_values_spec` find_values = `Spec.firstMatch`, the statement of the property.

  Side conditions of `C17_keys`/`C17_values_spec` (all decidable, see `leafOk`, `cmpOkB`, `rngOkB`): keys name
  element descriptors (no time/location or callback bit); compared values are both text without NUL bytes or both
  numbers; scales within -40…40; reals finite and below 2^200; no 32-bit IEEE element values and no INT64 key
  values; integer elements compared with integer keys have scale ≥ 0; range bounds are not missing; and — the only
  one that is not about well-formedness — where the C compares two reals in double arithmetic
  (`fabs(f1-f2) <= 0.5/pow(10,scale)`), the exact distance is not within one part in 2^40 of the tolerance.
  Inside that band the model still mirrors the C bit for bit (correspondence), the property's exact comparison
  may differ by the rounding of one subtraction.
-/
namespace Bufr.C17
open Bufr Bufr.SF Bufr.Find Bufr.Spec.Find

/-- the start position after `if (startpos < 0) startpos = 0` -/
def startOf (start : Int) : Nat := if start < 0 then 0 else start.toNat

/-- `bufr_subset_find_descriptor` returns the first position at or after the start holding the descriptor, `-1`
when there is none (also for a start beyond the end; a negative start counts as 0) -/
theorem C17_descriptor (ns : List Node) (d start : Int) :
    findDescriptor ns d start = result (firstIndexFrom ns d start) :=
  findDescriptor_eq ns d start

/-- **main theorem**: for every subset `ns`, qualifier lists `quals`, key list `keys` and start, the loop of
`bufr_subset_find_values` returns the least position `p` at or after the start such that its per-position test
`posMatch` holds for the `j`-th element key at `p + j`, for all of them, inside the subset — and `-1` if there is
no such position.  No hypotheses. -/
theorem C17_values (ns : List Node) (quals : List (List Nat)) (keys : List Key) (start : Int) :
    findValues ns quals keys start =
      result (firstMatchGen (posMatch ns quals (splitKeys keys).2.1 (splitKeys keys).2.2)
        (splitKeys keys).2.2.length ns.length (startOf start)) := by
  unfold findValues startOf
  simp only []
  by_cases h0 : ns.length = 0
  · rw [if_pos h0]
    have : firstMatchGen (posMatch ns quals (splitKeys keys).2.1 (splitKeys keys).2.2)
        (splitKeys keys).2.2.length ns.length (if start < 0 then 0 else start.toNat) = none := by
      unfold firstMatchGen; rw [h0]; rfl
    rw [this]; rfl
  · rw [if_neg h0]
    by_cases hge : start ≥ (ns.length : Int)
    · rw [if_pos hge]
      have : firstMatchGen (posMatch ns quals (splitKeys keys).2.1 (splitKeys keys).2.2)
          (splitKeys keys).2.2.length ns.length (if start < 0 then 0 else start.toNat) = none := by
        unfold firstMatchGen
        rw [List.find?_range_eq_none]
        intro i hi
        have hneg : ¬ (start < 0) := by omega
        have : ¬ ((if start < 0 then 0 else start.toNat) ≤ i) := by rw [if_neg hneg]; omega
        simp [this]
      rw [this]; rfl
    · rw [if_neg hge]
      have hs : (if start < 0 then 0 else start.toNat) < ns.length := by
        split_ifs <;> omega
      by_cases hk : keys.isEmpty = true
      · rw [if_pos hk]
        have hkeys : keys = [] := List.isEmpty_iff.mp hk
        subst hkeys
        have : firstMatchGen (posMatch ns quals (splitKeys []).2.1 (splitKeys []).2.2)
            (splitKeys []).2.2.length ns.length (if start < 0 then 0 else start.toNat) =
            some (if start < 0 then 0 else start.toNat) := by
          unfold firstMatchGen
          rw [List.find?_range_eq_some]
          refine ⟨by simp [splitKeys]; omega, List.mem_range.mpr hs, ?_⟩
          intro j hj
          have : ¬ ((if start < 0 then 0 else start.toNat) ≤ j) := by omega
          simp [this]
        rw [this]; rfl
      · rw [if_neg hk]
        exact findLoop_eq _ _ _ _ hs

/-- a result `p ≥ 0` is a position at or after the start at which all the keys match, and no position between
the start and `p` is one -/
theorem C17_first (ns : List Node) (quals : List (List Nat)) (keys : List Key) (start : Int) (p : Nat)
    (h : findValues ns quals keys start = (p : Int)) :
    startOf start ≤ p ∧ p < ns.length ∧
    FullAt (posMatch ns quals (splitKeys keys).2.1 (splitKeys keys).2.2) (splitKeys keys).2.2.length ns.length p ∧
    ∀ q, startOf start ≤ q → q < p →
      ¬ FullAt (posMatch ns quals (splitKeys keys).2.1 (splitKeys keys).2.2) (splitKeys keys).2.2.length ns.length q := by
  rw [C17_values] at h
  cases hf : firstMatchGen (posMatch ns quals (splitKeys keys).2.1 (splitKeys keys).2.2)
      (splitKeys keys).2.2.length ns.length (startOf start) with
  | none =>
    rw [hf] at h
    simp [result] at h
  | some q =>
    rw [hf] at h
    have : q = p := by simpa [result] using h
    subst this
    exact firstMatchGen_some hf

/-- `-1` is returned exactly when no position at or after the start matches -/
theorem C17_none (ns : List Node) (quals : List (List Nat)) (keys : List Key) (start : Int) :
    findValues ns quals keys start = -1 ↔
      ∀ q, startOf start ≤ q → q < ns.length →
        ¬ FullAt (posMatch ns quals (splitKeys keys).2.1 (splitKeys keys).2.2) (splitKeys keys).2.2.length ns.length q := by
  rw [C17_values]
  cases hf : firstMatchGen (posMatch ns quals (splitKeys keys).2.1 (splitKeys keys).2.2)
      (splitKeys keys).2.2.length ns.length (startOf start) with
  | none =>
    simp only [result, true_iff]
    exact firstMatchGen_none hf
  | some p =>
    obtain ⟨h1, h2, h3, _⟩ := firstMatchGen_some hf
    simp only [result]
    constructor
    · intro h; omega
    · intro h; exact absurd h3 (h p h1 h2)

/-- **qualifier tracking**: after `bufr_expand_qualifiers` with tracking on — whatever lists the descriptors had
before — `bufr_fetch_rtmd_qualifier(d)` on the list of the descriptor at `i` returns the qualifier `d` in effect
for it: the most recent descriptor before `i` carrying `d` (a value, not a zero-count placeholder), provided it is
not missing.  (Descriptors flagged class 31/33 are not qualified and keep their list.) -/
theorem C17_qualifiers (ns : List Node) (hs : flagsSane ns = true) (prev : List (List Nat))
    (i : Nat) (n : Node) (hn : ns[i]? = some n) (hfl : (n.flags.class31 || n.flags.class33) = false) (d : Nat) :
    fetchRtmdQualifier ns ((expandQualifiers true ns prev).2.getD i []) d = (inEffect ns i d).bind (ns[·]?) :=
  (expandQualifiers_spec hs prev i n hn).2 hfl d

/-- the qualifier lists of a subset on which `bufr_expand_qualifiers` ran with tracking on and no lists before -/
def freshQuals (ns : List Node) : List (List Nat) := (expandQualifiers true ns (List.replicate ns.length [])).2

/-- the test the loop makes at position `i` for the `j`-th element key is the property's: same descriptor, value
test of the key, and every qualifier key against the qualifier in effect -/
theorem C17_keys (ns : List Node) (keys : List Key) (hs : flagsSane ns = true) (hl : leafOk ns keys = true)
    (i j : Nat) (hi : i < ns.length) :
    posMatch ns (freshQuals ns) (qualKeys keys) (elemKeys keys) i j = posMatches ns keys i j := by
  unfold posMatch posMatches
  have hn : ns[i]? = some ns[i] := List.getElem?_eq_getElem hi
  rw [hn]
  cases hk : (elemKeys keys)[j]? with
  | none => rfl
  | some k =>
    simp only []
    have hkm : k ∈ elemKeys keys := List.mem_of_getElem? hk
    have hk2 : k ∈ keys ∧ isQualKey k = false := by
      unfold elemKeys at hkm
      rw [List.mem_filter] at hkm
      exact ⟨hkm.1, by simpa using hkm.2⟩
    have hok : keyOkFor ns k = true := (List.all_eq_true.mp hl) k hk2.1
    have hnm : ns[i] ∈ ns := List.getElem_mem hi
    have hE := elemKey_eq hok hk2.2 hnm
    -- the qualifier keys
    have hfetch : ∀ d, fetchRtmdQualifier ns ((freshQuals ns).getD i []) d = (inEffect ns i d).bind (ns[·]?) := by
      intro d
      by_cases hfl : (ns[i].flags.class31 || ns[i].flags.class33) = true
      · have h1 := (expandQualifiers_spec hs (List.replicate ns.length []) i ns[i] hn).1 hfl
        unfold freshQuals
        rw [h1]
        have : (List.replicate ns.length ([] : List Nat)).getD i [] = [] := by
          simp [List.getD_eq_getElem?_getD, hi]
        rw [this]
        unfold inEffect
        rw [hn]
        simp [hfl, fetchRtmdQualifier]
      · have hfl' : (ns[i].flags.class31 || ns[i].flags.class33) = false := by simpa using hfl
        exact C17_qualifiers ns hs _ i ns[i] hn hfl' d
    have hQ : (qualKeys keys).all (qualKeyOk ns ((freshQuals ns).getD i [])) = (qualKeys keys).all (qualKeyHolds ns i) := by
      rw [Bool.eq_iff_iff, List.all_eq_true, List.all_eq_true]
      have hq : ∀ q ∈ qualKeys keys, qualKeyOk ns ((freshQuals ns).getD i []) q = qualKeyHolds ns i q := by
        intro q hqm
        unfold qualKeys at hqm
        rw [List.mem_filter] at hqm
        exact qualKey_eq ((List.all_eq_true.mp hl) q hqm.1) hqm.2 i _ hfetch
      constructor
      · intro h q hqm; rw [← hq q hqm]; exact h q hqm
      · intro h q hqm; rw [hq q hqm]; exact h q hqm
    rw [← hE, hQ]
    cases (ns[i].desc == stripFlags k.desc) <;> cases (elemKeyOk ns[i] k) <;>
      cases ((qualKeys keys).all (qualKeyHolds ns i)) <;> rfl

/-- **the property**: on a subset whose qualifiers have been tracked, `bufr_subset_find_values` returns the smallest
position at or after the start at which the keys match consecutively in the sense of the specification, `-1` when
there is none -/
theorem C17_values_spec (ns : List Node) (keys : List Key) (start : Int) (hs : flagsSane ns = true)
    (hl : leafOk ns keys = true) :
    findValues ns (freshQuals ns) keys start = result (firstMatch ns keys start) := by
  rw [C17_values]
  have hshape : ∀ k ∈ keys, keyShapeOk k = true := by
    intro k hk
    have := (List.all_eq_true.mp hl) k hk
    unfold keyOkFor at this
    simp only [Bool.and_eq_true] at this
    exact this.1
  rw [splitKeys_eq keys hshape]
  unfold firstMatch startOf
  congr 1
  exact firstMatchGen_congr _ _ _ (fun i j hi => C17_keys ns keys hs hl i j hi)

/-! ### the hypotheses are met by concrete, non-trivial data -/

section Examples

def numEnc (scale : Int) (nbits : Int) : Enc := { type := .numeric, scale := scale, ref := 0, nbits := nbits }
def codeEnc (nbits : Int) : Enc := { type := .codetable, scale := 0, ref := 0, nbits := nbits }

/-- 0 08 002 = 5 | 0 12 001 = 272.1 | 0 12 001 = 273.1 | 0 12 001 = 273.1 | 0 08 002 missing | 0 12 001 = 273.1 |
1 01 000 | 0 31 001 = 0 | 0 08 002 (placeholder) | 0 12 001 missing -/
def ex1 : List Node := [
  { desc := 8002, enc := codeEnc 6, val := .i32 5 },
  { desc := 12001, enc := numEnc 1 12, val := .f64 (.fin (2721/10)) },
  { desc := 12001, enc := numEnc 1 12, val := .f64 (.fin (2731/10)) },
  { desc := 12001, enc := numEnc 1 12, val := .f64 (.fin (2731/10)) },
  { desc := 8002, enc := codeEnc 6, val := .i32 (-1) },
  { desc := 12001, enc := numEnc 1 12, val := .f64 (.fin (2731/10)) },
  { desc := 101000 },
  { desc := 31001, flags := { class31 := true }, enc := numEnc 0 8, val := .i32 0 },
  { desc := 8002, flags := { skipped := true, ignored := true }, enc := codeEnc 6, val := .i32 (-1) },
  { desc := 12001, enc := numEnc 1 12, val := .f64 (.fin maxDouble) } ]

-- find_descriptor: first occurrence at or after the start, -1 past the last one, negative start = 0
example : findDescriptor ex1 12001 2 = 2 ∧ findDescriptor ex1 12001 6 = 9 ∧ findDescriptor ex1 8002 9 = -1 ∧
    findDescriptor ex1 8002 (-7) = 0 ∧ findDescriptor ex1 12001 10 = -1 := by decide +kernel

-- the restart: keys (12001, 12001 = 273.1, 12001 = 273.1) partially match at 1 (two keys), the match is at 1? no:
-- position 1 holds 272.1 for the first (valueless) key, 2 and 3 hold 273.1: the match IS at 1; asking for
-- 273.1 three times matches nowhere (the run 2,3 is followed by 0 08 002); two times: at 2
def k273 : Key := setKeyFlt32 12001 [.fin (fl 24 (2731/10))]
example : findValues ex1 (freshQuals ex1) [setKeyInt32 12001 [], k273, k273] 0 = 1 ∧
    findValues ex1 (freshQuals ex1) [k273, k273, k273] 0 = -1 ∧
    findValues ex1 (freshQuals ex1) [k273, k273] 0 = 2 ∧
    findValues ex1 (freshQuals ex1) [k273, k273] 3 = -1 ∧
    findValues ex1 (freshQuals ex1) [k273] 3 = 3 := by decide +kernel

-- qualifier keys: 0 08 002 = 5 is in effect at 1-3, cancelled (missing) at 5, and the placeholder at 8 changes nothing
example : freshQuals ex1 = [[], [0], [0], [0], [0], [], [], [], [], []] := by decide +kernel
example : findValues ex1 (freshQuals ex1) [setKeyQualifierInt32 8002 5, k273] 0 = 2 ∧
    findValues ex1 (freshQuals ex1) [setKeyQualifierInt32 8002 5, k273] 4 = -1 ∧
    findValues ex1 (freshQuals ex1) [setKeyQualifier 8002 none, setKeyInt32 12001 []] 4 = -1 ∧
    findValues ex1 (freshQuals ex1) [setKeyQualifier 8002 none, setKeyInt32 12001 []] 0 = 1 := by decide +kernel

-- ranges are inclusive, missing equals missing only
example : findValues ex1 (freshQuals ex1) [setKeyInt32 12001 [273, 274]] 0 = 2 ∧
    findValues ex1 (freshQuals ex1) [{ desc := 12001, vals := [.f64 (.fin (2731/10)), .f64 (.fin 280)] }] 0 = 2 ∧
    findValues ex1 (freshQuals ex1) [{ desc := 12001, vals := [.f64 (.fin 270), .f64 (.fin (2721/10))] }] 0 = 1 ∧
    findValues ex1 (freshQuals ex1) [setKeyInt32 12001 [-1]] 0 = 9 ∧
    findValues ex1 (freshQuals ex1) [setKeyInt32 8002 [-5, 5]] 1 = -1 := by decide +kernel

-- the side conditions of `C17_values_spec` hold for these keys …
example : flagsSane ex1 = true ∧
    leafOk ex1 [setKeyQualifierInt32 8002 5, setKeyInt32 12001 [], k273, setKeyInt32 12001 [273, 274],
                setKeyInt32 12001 [-1], setKeyQualifier 8002 none] = true := by decide +kernel
-- … and the specification gives the same answers
example : firstMatch ex1 [setKeyQualifierInt32 8002 5, k273] 0 = some 2 ∧
    firstMatch ex1 [setKeyInt32 12001 [], k273, k273] 0 = some 1 ∧
    firstMatch ex1 [k273, k273, k273] 0 = none ∧
    firstMatch ex1 [setKeyInt32 12001 [-1]] (-3) = some 9 := by decide +kernel
-- the qualifier in effect: 0 08 002 at position 0 for 1…3, none from 5 on
example : inEffect ex1 3 8002 = some 0 ∧ inEffect ex1 5 8002 = none ∧ inEffect ex1 9 8002 = none ∧
    inEffect ex1 7 8002 = none := by decide +kernel

-- text: equal up to padding, not by prefix
def ex2 : List Node := [
  { desc := 1015, enc := { type := .ccitt, nbits := 32 }, val := .str [65, 66, 67, 32] },
  { desc := 1015, enc := { type := .ccitt, nbits := 32 }, val := .str [65, 66, 32, 32] } ]
example : findValues ex2 (freshQuals ex2) [setKeyString 1015 [[65, 66]]] 0 = 1 ∧
    findValues ex2 (freshQuals ex2) [setKeyString 1015 [[65, 66, 67, 32, 32, 32]]] 0 = 0 ∧
    findValues ex2 (freshQuals ex2) [setKeyString 1015 [[]]] 0 = -1 ∧
    leafOk ex2 [setKeyString 1015 [[65, 66]]] = true := by decide +kernel

end Examples

end Bufr.C17
