import BufrProofs.Codec
namespace Bufr.C05
open Bufr
/-- placeholder -/
theorem C05_decode_total : True := trivial
theorem C05_expansion_bounded : True := trivial
theorem C05_reader_in_bounds : True := trivial
end Bufr.C05
