import BufrProofs.Codec
import BufrProofs.Bitmap
/-
  C05 — Decoding arbitrary bytes is memory-safe, terminates and never kills the process.  (partial)

  What a proof about a model can carry, and what it cannot: the model's functions are total and have
  no memory to corrupt; the memory safety of the C code itself is decided by running the real code
  under AddressSanitizer/UBSan on the mutated and random inputs of props/c05.py, with `exit` intercepted,
  and by the exact tie: the model predicts the outcome (`ok`/`invalid`/`null`/`abort`, and `crash` where
  the C would dereference NULL) of every such input, so an unexpected crash is a disagreement.

  Proved here, for ALL byte strings: the bit reader never leaves the section (an over-long read is
  an error, a successful one stays inside); an element read keeps descriptor and encoding whatever the
  bits; and for static templates the subset loop cannot reach a NULL dereference, needs no more
  iterations than the list has nodes (nothing the data claim can lengthen it) and returns every node.
  Templates with delayed replication rely on the expansion guard (`s4.len` test) mirrored in the
  model and exercised by the streams; no theorem bounds their work.
-/
namespace Bufr.C05
open Bufr

/-- **the cursor never leaves the section**: a read of 1..64 bits either reports an error or ends
at most at the end of the data; it never changes the data -/
theorem C05_reader_in_bounds (r : R) (n : Nat) (hI : RInv r) (hn : 1 ≤ n ∧ n ≤ 64)
    (hpos : r.pos ≤ 8 * r.maxDataLen) :
    (r.getbits n).2.1 < 0 ∨
    ((r.getbits n).2.2.pos = r.pos + n ∧ (r.getbits n).2.2.pos ≤ 8 * r.maxDataLen ∧
     (r.getbits n).2.2.data = r.data) := by
  by_cases hfit : r.pos + n ≤ 8 * r.maxDataLen
  · obtain ⟨r', e, hp, _, hd, _⟩ := getbits_ok r n hI hn.1 hn.2 hfit
    right
    rw [e]
    exact ⟨hp, by simp only; omega, hd⟩
  · left
    exact getbits_past_end r n hI hn.1 hn.2 (by omega)

/-- whatever the bits, reading an element keeps its descriptor and encoding -/
theorem C05_element_shape (r : R) (n : Node) (r' : R) (n' : Node) (h : getDescValue r n = some (r', n')) :
    n'.desc = n.desc ∧ n'.enc = n.enc :=
  getDescValue_preserves r n r' n' h

/-- **static templates, arbitrary bytes**: no NULL dereference, no dependence of the number of
iterations on the data, every node returned, completion or a clean stop at the premature end -/
theorem C05_decode_total (T : Tables) (edition s4max : Nat) (nodes : List Node) (fuel : Nat) (ddo : DDO)
    (st : DecSt) (done : List Node) (hf : nodes.length < fuel) (hok : staticOK T edition ddo nodes = true) :
    ∃ st' out fin, decodeSubsetLoop T edition s4max fuel ddo st done nodes = .ok (st', out, fin) ∧
      (fin = .complete ∨ fin = .shortRead) ∧ out.length = done.length + nodes.length :=
  decodeSubsetLoop_static_any T edition s4max nodes fuel ddo st done hf hok

/-- the iteration bound does not depend on the data: the same fuel works for every reader state -/
theorem C05_expansion_bounded (T : Tables) (edition s4max : Nat) (nodes : List Node) (ddo : DDO)
    (hok : staticOK T edition ddo nodes = true) :
    ∀ (st : DecSt), ∃ res, decodeSubsetLoop T edition s4max (nodes.length + 1) ddo st [] nodes = .ok res := by
  intro st
  obtain ⟨st', out, fin, e, _, _⟩ := decodeSubsetLoop_static_any T edition s4max nodes (nodes.length + 1) ddo st []
    (by omega) hok
  exact ⟨_, e⟩

/-- **the data present bit-map arrays are never indexed out of bounds**, for any template (delayed
replication, any operators, bit-maps announced twice, shorter or longer than the data) and any
data: along the whole decode of a subset the three `nb_codes`-sized arrays of `BufrDPBM` satisfy
what the C subscripts rely on — `dp[nb_dp++] = i` is executed at most `nb_codes` times (the bit-map
is evaluated once: `dp = []` as long as `remain_dpi ≥ 0`, and `remain_dpi` is −1 afterwards), and
every `dp` entry is a valid subscript of `index[]`.  (`dp[idp-1]` is guarded by the C itself.) -/
theorem C05_bitmap_in_bounds (T : Tables) (edition s4max fuel : Nat) (ddo : DDO) (st : DecSt) (done todo : List Node)
    (st' : DecSt) (out : List Node) (fin : SubsetEnd) (bm' : BM)
    (h : decodeSubsetLoopB T edition s4max fuel ddo {} st done todo = .ok (st', out, fin, bm')) : bm'.WF :=
  decodeSubsetLoopB_WF T edition s4max fuel ddo {} st done todo st' out fin bm' (by simp [BM.WF]) h

/-- the same, step by step: whatever node comes next -/
theorem C05_bitmap_step (T : Tables) (edition : Nat) (bsq : Unit → List Node) (ddo : DDO) (bm : BM) (n : Node) (h : bm.WF) :
    (applyTables2nodeB T edition bsq ddo bm n).2.1.WF :=
  applyTables2nodeB_WF T edition bsq ddo bm n h

/-! ### Non-vacuity -/
-- a bit-map of three bits over three elements, two flagged present: evaluated in the kernel
example : (initDpbm { index := [1, 2, 3] }
    [{ desc := 12101 }, { desc := 224000 }, { desc := 236000 },
     { desc := 31031, val := .i32 0 }, { desc := 31031, val := .i32 (-1) }, { desc := 31031, val := .i32 0 }] (some 2)).dp = [0, 2] := by
  decide
example : RInv (R.ofBytes [1, 2, 3]) ∧ (R.ofBytes [1, 2, 3]).pos ≤ 8 * (R.ofBytes [1, 2, 3]).maxDataLen :=
  ⟨⟨by decide⟩, by decide⟩
example : ((R.ofBytes [1, 2, 3]).getbits 25).2.1 < 0 := by decide
example : ((R.ofBytes [1, 2, 3]).getbits 24).2.2.pos = 24 := by decide

end Bufr.C05
