import BufrProps.C19
#print axioms Bufr.C19.C19_decode32
#print axioms Bufr.C19.C19_decode64
#print axioms Bufr.C19.C19_encode32
#print axioms Bufr.C19.C19_encode64
#print axioms Bufr.C19.C19_roundtrip32
#print axioms Bufr.C19.C19_roundtrip64
#print axioms Bufr.C19.C19_value_roundtrip32
#print axioms Bufr.C19.C19_value_roundtrip64
#print axioms Bufr.C19.C19_nan32
#print axioms Bufr.C19.C19_nan64
#print axioms Bufr.C19.C19_native_paths
#print axioms Bufr.C19.C19_native_on
