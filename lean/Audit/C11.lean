import BufrProps.C11
#print axioms Bufr.C11.C11_put
#print axioms Bufr.C11.C11_get
#print axioms Bufr.C11.C11_get_past_end
#print axioms Bufr.C11.C11_skip
#print axioms Bufr.C11.C11_skip_any
#print axioms Bufr.C11.C11_fields
#print axioms Bufr.C11.C11_padstring
#print axioms Bufr.C11.C11_skip_past_end
