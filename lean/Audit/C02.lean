import BufrProps.C02
#print axioms Bufr.C02.C02_single_subset_not_compressed
