import BufrProps.C02
#print axioms Bufr.C02.C02_single_subset_not_compressed
#print axioms Bufr.C02.C02_numeric_column
#print axioms Bufr.C02.C02_plan_sound
#print axioms Bufr.C02.C02_fallback
#print axioms Bufr.C02.C02_flag
#print axioms Bufr.C02.C02_same_value_function
#print axioms Bufr.C02.C02_af_column
#print axioms Bufr.C02.C02_character_column
#print axioms Bufr.C02.C02_equal_strings_same_octets
#print axioms Bufr.C02.C02_static_compressed
#print axioms Bufr.C02.C02_position
#print axioms Bufr.C02.C02_ieee_column
