import BufrProps.C13
#print axioms Bufr.C13.C13_value_text
#print axioms Bufr.C13.C13_value_roundtrip
#print axioms Bufr.C13.C13_value_node
#print axioms Bufr.C13.C13_missing_roundtrip
#print axioms Bufr.C13.C13_int_roundtrip
#print axioms Bufr.C13.C13_flag_roundtrip
#print axioms Bufr.C13.C13_string_roundtrip
#print axioms Bufr.C13.C13_string_node
#print axioms Bufr.C13.C13_af_roundtrip
#print axioms Bufr.C13.C13_line_roundtrip
#print axioms Bufr.C13.C13_header_roundtrip
#print axioms Bufr.C13.C13_header_same
#print axioms Bufr.C13.C13_text_roundtrip
#print axioms Bufr.C13.C13_concat
#print axioms Bufr.C13.C13_roundtrip_partial
#print axioms Bufr.C13.C13_concat_partial
#print axioms Bufr.C13.C13_sect1_local_octets_fails
