import BufrProps.C18
#print axioms Bufr.C18.C18_text
#print axioms Bufr.C18.C18_same_expansion
#print axioms Bufr.C18.C18_copy
#print axioms Bufr.C18.C18_copy_created
#print axioms Bufr.C18.C18_copy_loaded
#print axioms Bufr.C18.C18_refuses
#print axioms Bufr.C18.C18_compare_sound
#print axioms Bufr.C18.C18_real_roundtrip
#print axioms Bufr.C18.C18_text_fails_newline
