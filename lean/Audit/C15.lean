import BufrProps.C15
#print axioms Bufr.C15.C15_switches
#print axioms Bufr.C15.C15_switch_setters
#print axioms Bufr.C15.C15_sites_covered
#print axioms Bufr.C15.C15_ieee_switch
#print axioms Bufr.C15.C15_trimzero_switch
#print axioms Bufr.C15.C15_history
#print axioms Bufr.C15.C15_history_function
#print axioms Bufr.C15.C15_statics
#print axioms Bufr.C15.C15_state_covered
#print axioms Bufr.C15.C15_sprintf_bound
#print axioms Bufr.C15.C15_sprintf_site
#print axioms Bufr.C15.C15_sprintf_partial
#print axioms Bufr.C15.C15_sprintf_fails
