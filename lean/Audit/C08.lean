import BufrProps.C08
#print axioms Bufr.C08.C08_encode_grid
#print axioms Bufr.C08.C08_encode_grid_interior
#print axioms Bufr.C08.C08_roundtrip
#print axioms Bufr.C08.C08_strict_mono
#print axioms Bufr.C08.C08_missing_iff
#print axioms Bufr.C08.C08_encode_missing
#print axioms Bufr.C08.C08_class31_count
#print axioms Bufr.C08.C08_missing_pattern
#print axioms Bufr.C08.C08_out_of_range
#print axioms Bufr.C08.C08_range_test_rejects
#print axioms Bufr.C08.C08_neg_scale_bounds_exact
#print axioms Bufr.C08.C08_encode_grid_neg_scale
#print axioms Bufr.C08.C08_range_is_encoder_range
#print axioms Bufr.C08.C08_single_roundtrip_partial
#print axioms Bufr.C08.C08_single_roundtrip_scale0_partial
#print axioms Bufr.C08.C08_single_roundtrip_fails
#print axioms Bufr.C08.C08_int32_path
