import BufrProps.C04
#print axioms Bufr.C04.C04_const_column
#print axioms Bufr.C04.C04_listed_column
#print axioms Bufr.C04.C04_listed_column_spec
#print axioms Bufr.C04.C04_element
#print axioms Bufr.C04.C04_minNbinc_pos
#print axioms Bufr.C04.C04_character_column_listed
#print axioms Bufr.C04.C04_character_column_const
#print axioms Bufr.C04.C04_af_column_listed
#print axioms Bufr.C04.C04_marker_refers
#print axioms Bufr.C04.C04_bitmap_evaluated
#print axioms Bufr.C04.C04_bitmap_index
#print axioms Bufr.C04.C04_bitmap_bits
