import BufrProps.C04
#print axioms Bufr.C04.C04_const_column
#print axioms Bufr.C04.C04_listed_column
#print axioms Bufr.C04.C04_listed_column_spec
#print axioms Bufr.C04.C04_element
#print axioms Bufr.C04.C04_minNbinc_pos
