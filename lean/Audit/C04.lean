import BufrProps.C04
#print axioms Bufr.C04.C04_minNbinc_pos
