import BufrProps.C05
#print axioms Bufr.C05.C05_decode_total
#print axioms Bufr.C05.C05_expansion_bounded
#print axioms Bufr.C05.C05_reader_in_bounds
#print axioms Bufr.C05.C05_element_shape
#print axioms Bufr.C05.C05_bitmap_in_bounds
#print axioms Bufr.C05.C05_bitmap_step
