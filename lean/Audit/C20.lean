import BufrProps.C20
#print axioms Bufr.C20.C20_fields_number
#print axioms Bufr.C20.C20_fields_signed
#print axioms Bufr.C20.C20_fields_text
#print axioms Bufr.C20.C20_fields_fxy
#print axioms Bufr.C20.C20_extract_items
#print axioms Bufr.C20.C20_section3
#print axioms Bufr.C20.C20_section4
#print axioms Bufr.C20.C20_refdecode
#print axioms Bufr.C20.C20_roundtrip_partial
#print axioms Bufr.C20.C20_decodes_alike
#print axioms Bufr.C20.C20_decode_congr
