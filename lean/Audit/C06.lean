import BufrProps.C06
#print axioms Bufr.C06.C06_length
#print axioms Bufr.C06.C06_maxlen_refused
#print axioms Bufr.C06.C06_even
#print axioms Bufr.C06.C06_end
#print axioms Bufr.C06.C06_readback_partial
#print axioms Bufr.C06.C06_readback_fails_eot
#print axioms Bufr.C06.C06_stream
#print axioms Bufr.C06.C06_stream_header_partial
#print axioms Bufr.C06.C06_paths
#print axioms Bufr.C06.C06_pad_is_putbits
#print axioms Bufr.C06.C06_copy_sect1
