import BufrProps.C12
import Generated.ShippedD
#print axioms Bufr.C12.C12_parse_line
#print axioms Bufr.C12.C12_glibc_contract
#print axioms Bufr.C12.C12_bsearch_sorted
#print axioms Bufr.C12.C12_lookup
#print axioms Bufr.C12.C12_lookup_history
#print axioms Bufr.C12.C12_local_wins
#print axioms Bufr.C12.C12_local_wins_fetch
#print axioms Bufr.C12.C12_fetch_absent
#print axioms Bufr.C12.C12_load_first
#print axioms Bufr.C12.C12_merge_union
#print axioms Bufr.C12.C12_ops_preserve_inv
#print axioms Bufr.C12.C12_merge_tables
#print axioms Bufr.C12.C12_version_exact
#print axioms Bufr.C12.C12_checkloop_reports
#print axioms Bufr.C12.C12_checkloop_accepts_partial
#print axioms Bufr.Generated.shippedD_acyclic
