import BufrProps.C10
#print axioms Bufr.C10.C10_static_refines
#print axioms Bufr.C10.C10_rejects
#print axioms Bufr.C10.C10_rejects_unknown
#print axioms Bufr.C10.C10_factor_count
#print axioms Bufr.C10.C10_terminates
#print axioms Bufr.C10.C10_total_correct
#print axioms Bufr.C10.C10_fuel_irrelevant
