import BufrProps.C10
#print axioms Bufr.C10.C10_factor_count
