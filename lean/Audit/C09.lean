import BufrProps.C09
#print axioms Bufr.C09.C09_201_operand
