import BufrProps.C09
#print axioms Bufr.C09.C09_layout
#print axioms Bufr.C09.C09_class31_untouched
#print axioms Bufr.C09.C09_edition_gate
#print axioms Bufr.C09.C09_skipped_operator_inert
