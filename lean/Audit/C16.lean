import BufrProps.C16
#print axioms Bufr.C16.C16_inv
#print axioms Bufr.C16.C16_inv_run
#print axioms Bufr.C16.C16_no_dangling
#print axioms Bufr.C16.C16_owner_live
#print axioms Bufr.C16.C16_no_leak
#print axioms Bufr.C16.C16_counts
#print axioms Bufr.C16.C16_counts_prim
#print axioms Bufr.C16.C16_growth
#print axioms Bufr.C16.C16_growth_elements
