import BufrProps.C14
#print axioms Bufr.C14.C14_compressed_column
#print axioms Bufr.C14.C14_slice_length
#print axioms Bufr.C14.C14_fixed_subsets
#print axioms Bufr.C14.C14_merge_refuses
#print axioms Bufr.C14.C14_merge_places
#print axioms Bufr.C14.C14_merge_clamps
#print axioms Bufr.C14.C14_ieee_column_const
#print axioms Bufr.C14.C14_ieee_column_listed
