import BufrProps.C17
#print axioms Bufr.C17.C17_descriptor
#print axioms Bufr.C17.C17_values
#print axioms Bufr.C17.C17_first
#print axioms Bufr.C17.C17_none
#print axioms Bufr.C17.C17_qualifiers
#print axioms Bufr.C17.C17_keys
#print axioms Bufr.C17.C17_values_spec
