import BufrProps.C07
#print axioms Bufr.C07.C07_code_stable
#print axioms Bufr.C07.C07_numeric_stable
#print axioms Bufr.C07.C07_characters_stable
#print axioms Bufr.C07.C07_element_stable
#print axioms Bufr.C07.C07_subset_stable
#print axioms Bufr.C07.C07_skipped_no_bits
