import BufrProps.C03
#print axioms Bufr.C03.C03_column_equal
