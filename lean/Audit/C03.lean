import BufrProps.C03
#print axioms Bufr.C03.C03_element_bits
#print axioms Bufr.C03.C03_section4_bits
#print axioms Bufr.C03.C03_characters
#print axioms Bufr.C03.C03_raw_value
#print axioms Bufr.C03.C03_missing_all_ones
#print axioms Bufr.C03.C03_column_bits
#print axioms Bufr.C03.C03_refdecode_element
#print axioms Bufr.C03.C03_refdecode_column
