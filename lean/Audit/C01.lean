import BufrProps.C01
#print axioms Bufr.C01.C01_static_roundtrip
#print axioms Bufr.C01.C01_structure
#print axioms Bufr.C01.C01_layout_rederived
#print axioms Bufr.C01.C01_element
#print axioms Bufr.C01.C01_raw_bits
#print axioms Bufr.C01.C01_dynamic_subset
#print axioms Bufr.C01.C01_dynamic_roundtrip
#print axioms Bufr.C01.C01_dynamic_positions
#print axioms Bufr.C01.C01_bitmap_head_inert
#print axioms Bufr.C01.C01_subset_loop_head_inert
#print axioms Bufr.C01.C01_bitmap_head_inert_build
