import BufrProps.C01
#print axioms Bufr.C01.C01_compressible_needs_two
