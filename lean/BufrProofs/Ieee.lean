import BufrModel.Ieee
import Mathlib.Tactic.Ring
import Mathlib.Tactic.Linarith
import Mathlib.Tactic.NormNum
import Mathlib.Tactic.FieldSimp
import Mathlib.Tactic.Positivity
import Mathlib.Data.Rat.Floor
import Mathlib.Algebra.Order.Field.Power
import Mathlib.Data.Nat.Bitwise
/-
  Helper lemmas for C19 (portable IEEE 754 codec, bufr_ieee754.c).

  Layout:
    * powers of two (`ipow2`, `Spec.twoPow` = `2 ^ e`), `ilog2q` is ⌊log₂⌋, `flr` is the identity on
      values with ≤ p significant bits above the smallest ulp (`flr_exact`);
    * decoders: `significandValue` sums the fraction, `decodeSingle/Double b = hostVal32/64 b`,
      `hostVal = Spec.ieeeValue`;
    * extraction loop: `encLoop_lead` (leading zeros, `rem` untouched), `encLoop_run`
      (`(ival + dvalue)·2^rem` invariant, stops as soon as `dvalue = 0`);
    * `getSignificand_normal` (any guess with `2^(g−2) ≤ x < 2^(g+2)`), `getSignificand_sub_high`;
    * `encodeSingle_host`, `encodeDouble_host`;
    * the start-up self-test (`checkCompliance_zero`, `checkCompliancePatched_one`).
-/
namespace Bufr

/-! ### powers of two, `ilog2q`, rounding -/

theorem ipow2_eq (e : Int) : ipow2 e = (2 : ℚ) ^ e := by
  unfold ipow2
  split
  · rename_i h
    obtain ⟨n, rfl⟩ := Int.eq_ofNat_of_zero_le h
    simp
  · rename_i h
    have h' : 0 ≤ -e := by omega
    obtain ⟨n, hn⟩ := Int.eq_ofNat_of_zero_le h'
    have : e = -(n : Int) := by omega
    subst this
    simp

theorem twoPow_eq (e : Int) : Spec.twoPow e = (2 : ℚ) ^ e := by
  cases e with
  | ofNat n => simp [Spec.twoPow]
  | negSucc n =>
    simp only [Spec.twoPow, Int.negSucc_eq]
    rw [zpow_neg]
    push_cast
    norm_cast
    simp

theorem zpow2_pos (e : Int) : (0 : ℚ) < 2 ^ e := zpow_pos (by norm_num) e

theorem zpow2_le {a b : Int} (h : a ≤ b) : (2 : ℚ) ^ a ≤ 2 ^ b :=
  zpow_le_zpow_right₀ (by norm_num) h

theorem zpow2_lt {a b : Int} (h : a < b) : (2 : ℚ) ^ a < 2 ^ b :=
  zpow_lt_zpow_right₀ (by norm_num) h

theorem zpow2_lt_iff {a b : Int} : (2 : ℚ) ^ a < 2 ^ b ↔ a < b :=
  zpow_lt_zpow_iff_right₀ (by norm_num)

theorem zpow2_add (a b : Int) : (2 : ℚ) ^ (a + b) = 2 ^ a * 2 ^ b := zpow_add₀ (by norm_num) a b

theorem zpow2_sub (a b : Int) : (2 : ℚ) ^ (a - b) = 2 ^ a / 2 ^ b := zpow_sub₀ (by norm_num) a b

/-- `ilog2q` is the floor of the binary logarithm -/
theorem ilog2q_spec (q : ℚ) (hq : 0 < q) : (2 : ℚ) ^ ilog2q q ≤ q ∧ q < 2 ^ (ilog2q q + 1) := by
  have hn : 0 < q.num := Rat.num_pos.mpr hq
  obtain ⟨n, hnn⟩ := Int.eq_ofNat_of_zero_le hn.le
  have hn0 : n ≠ 0 := by
    intro h; rw [h] at hnn
    have : q.num = 0 := by simpa using hnn
    omega
  have hd0 : q.den ≠ 0 := q.den_nz
  have hqe : q = (n : ℚ) / (q.den : ℚ) := by
    have := Rat.num_div_den q
    rw [hnn, Int.cast_natCast] at this
    exact this.symm
  have hnat : q.num.natAbs = n := by rw [hnn]; simp
  unfold ilog2q
  simp only [hnat, ipow2_eq]
  generalize q.den = d at *
  have h1 : (2 : ℚ) ^ (n.log2 : Int) ≤ n := by
    have := Nat.log2_self_le hn0
    rw [zpow_natCast]; exact_mod_cast this
  have h2 : (n : ℚ) < 2 ^ ((n.log2 : Int) + 1) := by
    have := @Nat.lt_log2_self n
    have e : ((n.log2 : Int) + 1) = ((n.log2 + 1 : Nat) : Int) := by push_cast; rfl
    rw [e, zpow_natCast]; exact_mod_cast this
  have h3 : (2 : ℚ) ^ (d.log2 : Int) ≤ d := by
    have := Nat.log2_self_le hd0
    rw [zpow_natCast]; exact_mod_cast this
  have h4 : (d : ℚ) < 2 ^ ((d.log2 : Int) + 1) := by
    have := @Nat.lt_log2_self d
    have e : ((d.log2 : Int) + 1) = ((d.log2 + 1 : Nat) : Int) := by push_cast; rfl
    rw [e, zpow_natCast]; exact_mod_cast this
  have hdpos : (0 : ℚ) < d := by exact_mod_cast Nat.pos_of_ne_zero hd0
  have hlow : (2 : ℚ) ^ ((n.log2 : Int) - d.log2 - 1) < q := by
    rw [hqe, lt_div_iff₀ hdpos]
    calc (2 : ℚ) ^ ((n.log2 : Int) - d.log2 - 1) * d
        < 2 ^ ((n.log2 : Int) - d.log2 - 1) * 2 ^ ((d.log2 : Int) + 1) :=
          mul_lt_mul_of_pos_left h4 (zpow2_pos _)
      _ = 2 ^ (n.log2 : Int) := by rw [← zpow2_add]; congr 1; ring
      _ ≤ n := h1
  have hhigh : q < (2 : ℚ) ^ ((n.log2 : Int) - d.log2 + 1) := by
    rw [hqe, div_lt_iff₀ hdpos]
    calc (n : ℚ) < 2 ^ ((n.log2 : Int) + 1) := h2
      _ = 2 ^ ((n.log2 : Int) - d.log2 + 1) * 2 ^ (d.log2 : Int) := by
          rw [← zpow2_add]; congr 1; ring
      _ ≤ 2 ^ ((n.log2 : Int) - d.log2 + 1) * d :=
          mul_le_mul_of_nonneg_left h3 (zpow2_pos _).le
  split
  · rename_i h
    exact ⟨h, hhigh⟩
  · rename_i h
    rw [not_le] at h
    refine ⟨hlow.le, ?_⟩
    have : ((n.log2 : Int) - d.log2 - 1 + 1) = (n.log2 : Int) - d.log2 := by ring
    rw [this]; exact h

theorem ilog2q_unique (q : ℚ) (e : Int) (h1 : (2 : ℚ) ^ e ≤ q) (h2 : q < 2 ^ (e + 1)) : ilog2q q = e := by
  have hq : 0 < q := lt_of_lt_of_le (zpow2_pos e) h1
  obtain ⟨a, b⟩ := ilog2q_spec q hq
  have c1 : ilog2q q < e + 1 := zpow2_lt_iff.mp (lt_of_le_of_lt a h2)
  have c2 : e < ilog2q q + 1 := zpow2_lt_iff.mp (lt_of_le_of_lt h1 b)
  omega

/-- rounding an integer leaves it alone -/
theorem rneq_int (n : Int) : rneq (n : ℚ) = n := by
  unfold rneq
  have : (n : ℚ).floor = n := by
    show ⌊(n : ℚ)⌋ = n
    exact Int.floor_intCast n
  simp only [this]
  norm_num

/-- a value with at most `p` significant bits above the smallest ulp is left unchanged by rounding -/
theorem flr_exact (p : Nat) (umin : Int) (n : Nat) (k : Int) (hn : n < 2 ^ p) (hk : umin ≤ k) :
    flr p umin ((n : ℚ) * 2 ^ k) = (n : ℚ) * 2 ^ k := by
  unfold flr
  by_cases h0 : (n : ℚ) * 2 ^ k = 0
  · simp [h0]
  simp only [h0, if_false]
  have hnpos : 0 < n := by
    rcases Nat.eq_zero_or_pos n with h | h
    · subst h; simp at h0
    · exact h
  have hq : 0 < (n : ℚ) * 2 ^ k := by
    have : (0 : ℚ) < n := by exact_mod_cast hnpos
    exact mul_pos this (zpow2_pos k)
  obtain ⟨a, _⟩ := ilog2q_spec _ hq
  -- ilog2q ≤ k + p - 1
  have hub : (n : ℚ) * 2 ^ k < 2 ^ ((p : Int) + k) := by
    rw [zpow2_add]
    apply mul_lt_mul_of_pos_right _ (zpow2_pos k)
    rw [zpow_natCast]; exact_mod_cast hn
  have hle : ilog2q ((n : ℚ) * 2 ^ k) < (p : Int) + k := zpow2_lt_iff.mp (lt_of_le_of_lt a hub)
  set u := max (ilog2q ((n : ℚ) * 2 ^ k) - ((p : Int) - 1)) umin with hu
  have huk : u ≤ k := by
    rw [hu]; apply max_le <;> omega
  obtain ⟨j, hj⟩ := Int.eq_ofNat_of_zero_le (by omega : 0 ≤ k - u)
  have hdiv : (n : ℚ) * 2 ^ k / ipow2 u = ((n * 2 ^ j : Nat) : Int) := by
    rw [ipow2_eq]
    have hk' : k = u + j := by omega
    rw [hk', zpow2_add, zpow_natCast]
    have := zpow2_pos u
    field_simp
    push_cast
    ring
  rw [hdiv, rneq_int, ipow2_eq]
  have hk' : k = (j : Int) + u := by omega
  rw [hk', zpow2_add, zpow_natCast]
  push_cast
  ring

/-! ### decoders -/

theorem and_two_pow_ne_zero (f k : Nat) : (f &&& 2 ^ k ≠ 0) ↔ f / 2 ^ k % 2 = 1 := by
  rw [Nat.and_two_pow, Nat.toNat_testBit]
  have h2 : 0 < 2 ^ k := Nat.two_pow_pos k
  rcases Nat.mod_two_eq_zero_or_one (f / 2 ^ k) with h | h <;> simp [h]

theorem sigValueLoop_eq (f n : Nat) (k : Nat) (hk : k ≤ n) (s : ℚ) :
    sigValueLoop f n k s = s + ((f % 2 ^ k : Nat) : ℚ) / 2 ^ n := by
  induction k generalizing s with
  | zero => simp [sigValueLoop, Nat.mod_one]
  | succ k ih =>
    unfold sigValueLoop
    simp only
    rw [ih (by omega)]
    have hi : n - (n - k) = k := by omega
    rw [hi, Nat.one_shiftLeft, Nat.mod_pow_succ]
    have h2 : (2 : ℚ) ^ n = 2 ^ (n - k) * 2 ^ k := by rw [← pow_add]; congr 1; omega
    have hp1 := pow_pos (by norm_num : (0 : ℚ) < 2) k
    have hp2 := pow_pos (by norm_num : (0 : ℚ) < 2) (n - k)
    rcases Nat.mod_two_eq_zero_or_one (f / 2 ^ k) with h | h
    · have : ¬ (f &&& 2 ^ k ≠ 0) := by rw [and_two_pow_ne_zero]; omega
      rw [if_neg this, h]; simp
    · have : (f &&& 2 ^ k ≠ 0) := by rw [and_two_pow_ne_zero]; omega
      rw [if_pos this, h]
      push_cast
      rw [h2]
      field_simp
      ring

theorem significandValue_eq (f n : Nat) (d : Bool) (hf : f < 2 ^ n) :
    significandValue f n d = (if d then 0 else 1) + (f : ℚ) / 2 ^ n := by
  unfold significandValue
  rw [sigValueLoop_eq f n n le_rfl, Nat.mod_eq_of_lt hf]

/-- the arithmetic of both decoders after the fields are extracted -/
theorem decode_body (t : Nat) (bias : Int) (E f : Nat) (hf : f < 2 ^ t) :
    flr (t + 1) (1 - bias - t)
      (significandValue f t (decide (E = 0)) * ipow2 (if E = 0 then 1 - bias else (E : Int) - bias))
    = if E = 0 then (f : ℚ) * ipow2 (1 - bias - t)
      else ((2 ^ t + f : Nat) : ℚ) * ipow2 ((E : Int) - bias - t) := by
  rw [significandValue_eq f t _ hf]
  have hp := pow_pos (by norm_num : (0 : ℚ) < 2) t
  by_cases hE : E = 0
  · simp only [hE, decide_true, if_true, ipow2_eq]
    have : (0 + (f : ℚ) / 2 ^ t) * 2 ^ (1 - bias) = (f : ℚ) * 2 ^ (1 - bias - (t : Int)) := by
      rw [zpow2_sub (1 - bias) (t : Int), zpow_natCast, zero_add]; field_simp
    rw [this]
    exact flr_exact (t + 1) _ f _ (by rw [pow_succ]; omega) le_rfl
  · simp only [hE, decide_false, Bool.false_eq_true, if_false, ipow2_eq]
    have : (1 + (f : ℚ) / 2 ^ t) * 2 ^ ((E : Int) - bias) = ((2 ^ t + f : Nat) : ℚ) * 2 ^ ((E : Int) - bias - (t : Int)) := by
      rw [zpow2_sub _ (t : Int), zpow_natCast]; push_cast; field_simp
    rw [this]
    exact flr_exact (t + 1) _ _ _ (by rw [pow_succ]; omega) (by omega)

theorem fld_frac (b t : Nat) (m : Nat) (hm : m = 2 ^ t - 1) : b &&& m = b % 2 ^ t := by
  subst hm; exact Nat.and_two_pow_sub_one_eq_mod b t

theorem fld_exp (b w t : Nat) (m : Nat) (hm : m = (2 ^ w - 1) <<< t) :
    (b &&& m) >>> t = b / 2 ^ t % 2 ^ w := by
  subst hm
  rw [Nat.shiftRight_and_distrib, Nat.shiftLeft_shiftRight, Nat.and_two_pow_sub_one_eq_mod,
    Nat.shiftRight_eq_div_pow]

theorem fld_sign (b i : Nat) (m : Nat) (hm : m = 2 ^ i) :
    decide (b &&& m ≠ 0) = b.testBit i := by
  subst hm
  rw [Nat.testBit_eq_decide_div_mod_eq]
  exact decide_eq_decide.mpr (and_two_pow_ne_zero b i)

theorem decodeSingle_eq (b : Nat) : decodeSingle b = hostVal32 b := by
  unfold decodeSingle hostVal32 hostVal
  simp only [fld_frac b 23 0x007fffff (by norm_num), fld_exp b 8 23 0x7f800000 (by decide),
    fld_sign b 31 0x80000000 (by norm_num)]
  have hf : b % 2 ^ 23 < 2 ^ 23 := Nat.mod_lt _ (by norm_num)
  generalize b % 2 ^ 23 = f at *
  generalize b / 2 ^ 23 % 2 ^ 8 = E at *
  by_cases h1 : E = 0 ∧ f = 0
  · obtain ⟨rfl, rfl⟩ := h1; simp
  rw [if_neg h1]
  by_cases h2 : E = 0xff
  · subst h2; simp
  rw [if_neg h2]
  have := decode_body 23 127 E f hf
  norm_num at this ⊢
  rw [this, if_neg h2]
  split <;> rfl

theorem decodeDouble_eq (b : Nat) : decodeDouble b = hostVal64 b := by
  unfold decodeDouble hostVal64 hostVal
  simp only [fld_frac b 52 0x000fffffffffffff (by norm_num), fld_exp b 11 52 0x7ff0000000000000 (by decide),
    fld_sign b 63 0x8000000000000000 (by norm_num)]
  have hf : b % 2 ^ 52 < 2 ^ 52 := Nat.mod_lt _ (by norm_num)
  generalize b % 2 ^ 52 = f at *
  generalize b / 2 ^ 52 % 2 ^ 11 = E at *
  by_cases h1 : E = 0 ∧ f = 0
  · obtain ⟨rfl, rfl⟩ := h1; simp
  rw [if_neg h1]
  by_cases h2 : E = 0x7ff
  · subst h2; simp
  rw [if_neg h2]
  have := decode_body 52 1023 E f hf
  norm_num at this ⊢
  rw [this, if_neg h2]
  split <;> rfl

/-- the model's reading of a host object is the IEEE 754 value of the bit string -/
theorem hostVal_eq_ieee (w t b : Nat) : hostVal w t b = Spec.ieeeValue w t b := by
  unfold hostVal Spec.ieeeValue
  simp only [twoPow_eq, ipow2_eq]
  have hs : b.testBit (t + w) = decide (b / 2 ^ (t + w) % 2 = 1) := Nat.testBit_eq_decide_div_mod_eq
  rw [hs]
  have hp := pow_pos (by norm_num : (0 : ℚ) < 2) t
  have hb : ((2 : Int) ^ (w - 1) - 1) = (((2 ^ (w - 1) : Nat) : Int) - 1) := by push_cast; rfl
  split
  · rfl
  split
  · congr 1
    rw [zero_add]
    have : (2 : Int) - 2 ^ (w - 1) - (t : Int) = (1 - (2 ^ (w - 1) - 1)) - (t : Int) := by ring
    rw [this, zpow2_sub _ (t : Int), zpow_natCast]
    push_cast
    field_simp
  · congr 1
    rw [zpow2_sub _ (t : Int), zpow_natCast]
    push_cast
    field_simp

theorem hostVal32_eq (b : Nat) : hostVal32 b = Spec.ieeeValue32 b := hostVal_eq_ieee 8 23 b
theorem hostVal64_eq (b : Nat) : hostVal64 b = Spec.ieeeValue64 b := hostVal_eq_ieee 11 52 b

/-! ### the significand extraction loop -/

theorem shl1_or1 (a : Nat) : (a <<< 1 ||| 1) = 2 * a + 1 := by
  rw [← Nat.shiftLeft_add_eq_or_of_lt (by norm_num : 1 < 2 ^ 1), Nat.shiftLeft_eq]; omega

theorem shl1 (a : Nat) : (a <<< 1) = 2 * a := by
  rw [Nat.shiftLeft_eq]; omega

/-- one iteration of the loop body -/
def encStep (W nb : Nat) (den : Bool) (s : SigSt) : SigSt :=
  let n := s.n + 1
  let d := s.dvalue * 2
  let s1 : SigSt :=
    if 1 ≤ d then
      { s with ival := ((s.ival <<< 1) ||| 1) % 2 ^ W, dvalue := d - 1, n := n,
               ni0 := if s.ni0 = 0 then n else s.ni0 }
    else
      { s with ival := (s.ival <<< 1) % 2 ^ W, dvalue := d, n := n }
  if 0 < s1.ni0 ∨ 0 < nb ∨ den then { s1 with rem := s1.rem - 1 } else s1

theorem encLoop_succ (W nb : Nat) (den : Bool) (fuel : Nat) (s : SigSt) :
    encLoop W nb den (fuel + 1) s =
      if 0 < s.dvalue ∧ 0 < s.rem then encLoop W nb den fuel (encStep W nb den s) else s := rfl

/-- the leading-zero phase (`nb = 0`, no 1 bit seen yet): `rem` is not decremented until the first
1 bit, found at iteration `j` when `2^−j ≤ dvalue < 2^(1−j)` -/
theorem encLoop_lead (W : Nat) (hW : 1 ≤ W) (j : Nat) (hj : 1 ≤ j) (fuel : Nat) (s : SigSt)
    (hi : s.ival = 0) (hn : s.ni0 = 0) (hrem : 0 < s.rem)
    (hlo : 1 ≤ s.dvalue * 2 ^ j) (hhi : s.dvalue * 2 ^ j < 2) :
    encLoop W 0 false (fuel + j) s = encLoop W 0 false fuel
      { ival := 1, dvalue := s.dvalue * 2 ^ j - 1, rem := s.rem - 1, n := s.n + j, ni0 := s.n + j } := by
  induction j, hj using Nat.le_induction generalizing s with
  | base =>
    have hW2 : 1 % 2 ^ W = 1 := Nat.mod_eq_of_lt (Nat.one_lt_two_pow (by omega))
    rw [pow_one] at hlo hhi
    have hpos : 0 < s.dvalue := by linarith
    rw [encLoop_succ, if_pos ⟨hpos, hrem⟩]
    congr 1
    unfold encStep
    simp only [hlo, if_true, hi, hn, shl1_or1, Nat.mul_zero, Nat.zero_add, hW2, pow_one]
    simp
  | succ j hj ih =>
    rw [show fuel + (j + 1) = (fuel + j) + 1 from rfl]
    have h2j : (2 : ℚ) ≤ 2 ^ j := by
      calc (2 : ℚ) = 2 ^ 1 := by norm_num
        _ ≤ 2 ^ j := pow_le_pow_right₀ (by norm_num) hj
    have hpos : 0 < s.dvalue := by
      have : (0 : ℚ) < 2 ^ (j + 1) := by positivity
      by_contra hc
      rw [not_lt] at hc
      have : s.dvalue * 2 ^ (j + 1) ≤ 0 := mul_nonpos_of_nonpos_of_nonneg hc this.le
      linarith
    rw [encLoop_succ, if_pos ⟨hpos, hrem⟩]
    have hlt : ¬ (1 ≤ s.dvalue * 2) := by
      rw [not_le]
      rw [pow_succ] at hhi
      nlinarith
    have hstep : encStep W 0 false s = { ival := 0, dvalue := s.dvalue * 2, rem := s.rem, n := s.n + 1, ni0 := 0 } := by
      unfold encStep
      simp only [hlt, if_false, hi, hn, shl1, Nat.mul_zero, Nat.zero_mod, lt_irrefl, or_self, Bool.false_eq_true]
    rw [hstep, ih { ival := 0, dvalue := s.dvalue * 2, rem := s.rem, n := s.n + 1, ni0 := 0 } rfl rfl hrem (by show 1 ≤ s.dvalue * 2 * 2 ^ j; rw [pow_succ] at hlo; linarith)
      (by show s.dvalue * 2 * 2 ^ j < 2; rw [pow_succ] at hhi; linarith)]
    congr 1
    simp only [SigSt.mk.injEq]
    refine ⟨trivial, ?_, trivial, ?_, ?_⟩
    · rw [pow_succ]; ring
    · omega
    · omega

/-- the extraction loop once `rem` is being decremented (after the first 1 bit, or `nb > 0`):
`(ival + dvalue)·2^rem` is invariant, the loop stops with `dvalue = 0` or `rem = 0`, and it stops
as soon as `dvalue = 0` (so `C` is not a multiple of `2^(rem+1)` if at least one step was made) -/
theorem encLoop_run (W nb : Nat) (den : Bool) (C : Nat) (hCW : C < 2 ^ W) (fuel : Nat) (s : SigSt)
    (hmode : 0 < s.ni0 ∨ 0 < nb ∨ den = true)
    (hd0 : 0 ≤ s.dvalue) (hd1 : s.dvalue < 1) (hrem : 0 ≤ s.rem)
    (hfuel : s.rem.toNat ≤ fuel)
    (hC : ((s.ival : ℚ) + s.dvalue) * 2 ^ s.rem = C) :
    ((((encLoop W nb den fuel s).ival : ℚ) + (encLoop W nb den fuel s).dvalue) * 2 ^ (encLoop W nb den fuel s).rem = C) ∧
    0 ≤ (encLoop W nb den fuel s).dvalue ∧ (encLoop W nb den fuel s).dvalue < 1 ∧ 0 ≤ (encLoop W nb den fuel s).rem ∧
    ((encLoop W nb den fuel s).dvalue = 0 ∨ (encLoop W nb den fuel s).rem = 0) ∧
    (0 < s.ni0 → (encLoop W nb den fuel s).ni0 = s.ni0) ∧
    (encLoop W nb den fuel s).rem ≤ s.rem ∧
    ((encLoop W nb den fuel s).rem < s.rem → ∀ k : ℤ, (k : ℚ) * 2 ^ ((encLoop W nb den fuel s).rem + 1) ≠ C) := by
  induction fuel generalizing s with
  | zero =>
    have : s.rem = 0 := by omega
    rw [show encLoop W nb den 0 s = s from rfl]
    exact ⟨hC, hd0, hd1, hrem, Or.inr this, fun _ => rfl, le_rfl, fun h => absurd h (lt_irrefl _)⟩
  | succ fuel ih =>
    unfold encLoop
    by_cases hcond : 0 < s.dvalue ∧ 0 < s.rem
    · rw [if_pos hcond]
      obtain ⟨hdp, hrp⟩ := hcond
      -- the state after one iteration
      have hstep : ∀ (v : Nat) (dv : ℚ) (ni : Nat), (0 ≤ dv) → (dv < 1) →
          ((v : ℚ) + dv = 2 * ((s.ival : ℚ) + s.dvalue)) → (0 < s.ni0 → ni = s.ni0) → (0 < ni ∨ 0 < nb ∨ den = true) →
          let s2 : SigSt := { ival := v % 2 ^ W, dvalue := dv, rem := s.rem - 1, n := s.n + 1, ni0 := ni }
          ((((encLoop W nb den fuel s2).ival : ℚ) + (encLoop W nb den fuel s2).dvalue) * 2 ^ (encLoop W nb den fuel s2).rem = C) ∧
          0 ≤ (encLoop W nb den fuel s2).dvalue ∧ (encLoop W nb den fuel s2).dvalue < 1 ∧ 0 ≤ (encLoop W nb den fuel s2).rem ∧
          ((encLoop W nb den fuel s2).dvalue = 0 ∨ (encLoop W nb den fuel s2).rem = 0) ∧
          (0 < s.ni0 → (encLoop W nb den fuel s2).ni0 = s.ni0) ∧
          (encLoop W nb den fuel s2).rem ≤ s.rem ∧
          ((encLoop W nb den fuel s2).rem < s.rem → ∀ k : ℤ, (k : ℚ) * 2 ^ ((encLoop W nb den fuel s2).rem + 1) ≠ C) := by
        intro v dv ni hdv0 hdv1 hsum hni hm2 s2
        have hpow : (2 : ℚ) ^ s.rem = 2 * 2 ^ (s.rem - 1) := by
          have : s.rem = 1 + (s.rem - 1) := by ring
          conv_lhs => rw [this, zpow2_add]
          simp
        have hC2 : ((v : ℚ) + dv) * 2 ^ (s.rem - 1) = C := by
          rw [hsum, ← hC, hpow]; ring
        have hp1 : (1 : ℚ) ≤ 2 ^ (s.rem - 1) := by
          have := zpow2_le (show (0 : Int) ≤ s.rem - 1 by omega)
          simpa using this
        have hvC : (v : ℚ) ≤ C := by
          have h1 : (v : ℚ) ≤ (v : ℚ) + dv := by linarith
          have h2 : (v : ℚ) + dv ≤ ((v : ℚ) + dv) * 2 ^ (s.rem - 1) := by
            have : 0 ≤ (v : ℚ) + dv := by positivity
            nlinarith
          linarith
        have hvW : v < 2 ^ W := by
          have : v ≤ C := by exact_mod_cast hvC
          omega
        have hmod : v % 2 ^ W = v := Nat.mod_eq_of_lt hvW
        have key := ih s2 hm2 hdv0 hdv1 (by show 0 ≤ s.rem - 1; omega) (by show (s.rem - 1).toNat ≤ fuel; omega)
          (by show ((((v % 2 ^ W : Nat)) : ℚ) + dv) * 2 ^ (s.rem - 1) = C; rw [hmod]; exact hC2)
        obtain ⟨k1, k2, k3, k4, k5, k6, k7, k8⟩ := key
        refine ⟨k1, k2, k3, k4, k5, ?_, ?_, ?_⟩
        · intro h; rw [k6 (by show 0 < ni; rw [hni h]; exact h)]; exact hni h
        · have : (encLoop W nb den fuel s2).rem ≤ s.rem - 1 := k7
          omega
        · intro _ k hk
          have h7 : (encLoop W nb den fuel s2).rem ≤ s.rem - 1 := k7
          rcases lt_or_eq_of_le h7 with hlt | heq
          · exact k8 hlt k hk
          · rw [heq] at hk
            have e1 : s.rem - 1 + 1 = s.rem := by ring
            rw [e1] at hk
            have hpos := zpow2_pos s.rem
            have : (k : ℚ) = (s.ival : ℚ) + s.dvalue := by
              have := hk.trans hC.symm
              exact mul_right_cancel₀ hpos.ne' this
            have h1 : ((k - (s.ival : ℤ) : ℤ) : ℚ) = s.dvalue := by push_cast; linarith
            have h2 : (0 : ℚ) < ((k - (s.ival : ℤ) : ℤ) : ℚ) := by rw [h1]; exact hdp
            have h3 : ((k - (s.ival : ℤ) : ℤ) : ℚ) < 1 := by rw [h1]; exact hd1
            have h4 : (0 : ℤ) < k - (s.ival : ℤ) := by exact_mod_cast h2
            have h5 : k - (s.ival : ℤ) < 1 := by exact_mod_cast h3
            omega
      by_cases h1 : 1 ≤ s.dvalue * 2
      · simp only [h1, if_true]
        have hni : (0 < s.ni0 → (if s.ni0 = 0 then s.n + 1 else s.ni0) = s.ni0) := by
          intro h; rw [if_neg (by omega)]
        have hm2 : 0 < (if s.ni0 = 0 then s.n + 1 else s.ni0) ∨ 0 < nb ∨ den = true := by
          left; split <;> omega
        have := hstep (2 * s.ival + 1) (s.dvalue * 2 - 1) _ (by linarith) (by linarith)
          (by push_cast; ring) hni hm2
        simp only [hm2, if_true, shl1_or1]
        exact this
      · simp only [h1, if_false]
        have hm2 : 0 < s.ni0 ∨ 0 < nb ∨ den = true := hmode
        have := hstep (2 * s.ival) (s.dvalue * 2) s.ni0 (by linarith) (by linarith)
          (by push_cast; ring) (fun _ => rfl) hm2
        simp only [hm2, if_true, shl1]
        exact this
    · rw [if_neg hcond]
      refine ⟨hC, hd0, hd1, hrem, ?_, fun _ => rfl, le_rfl, fun h => absurd h (lt_irrefl _)⟩
      rw [not_and_or] at hcond
      rcases hcond with h | h
      · left; linarith
      · right; omega


/-! ### `bufr_*_get_significand` -/

structure CfgOK (c : FCfg) : Prop where
  prec : c.prec = c.nbits + 1
  word : c.nbits + 2 ≤ c.word
  umin : c.umin = c.emin - c.nbits
  emin : c.emin ≤ -2
  emax : 0 ≤ c.emax
  fuel : c.nbits + 4 ≤ c.fuel
  nbits : 1 ≤ c.nbits

theorem cfg32_ok : CfgOK cfg32 := by constructor <;> simp [cfg32]
theorem cfg64_ok : CfgOK cfg64 := by constructor <;> simp [cfg64]

theorem loop_final (iv : Nat) (dv : ℚ) (rem : ℤ) (C : Nat)
    (h : ((iv : ℚ) + dv) * 2 ^ rem = C) (h0 : 0 ≤ dv) (h1 : dv < 1) (hr : 0 ≤ rem)
    (hz : dv = 0 ∨ rem = 0) : dv = 0 ∧ iv * 2 ^ rem.toNat = C := by
  rcases hz with hz | hz
  · subst hz
    obtain ⟨k, rfl⟩ := Int.eq_ofNat_of_zero_le hr
    refine ⟨rfl, ?_⟩
    rw [add_zero, zpow_natCast] at h
    simp only [Int.toNat_natCast]
    exact_mod_cast h
  · subst hz
    rw [zpow_zero, mul_one] at h
    have e1 : (((C : ℤ) - (iv : ℤ) : ℤ) : ℚ) = dv := by push_cast; linarith
    have h2 : (0 : ℚ) ≤ (((C : ℤ) - (iv : ℤ) : ℤ) : ℚ) := by rw [e1]; exact h0
    have h3 : (((C : ℤ) - (iv : ℤ) : ℤ) : ℚ) < 1 := by rw [e1]; exact h1
    have h4 : (0 : ℤ) ≤ (C : ℤ) - (iv : ℤ) := by exact_mod_cast h2
    have h5 : (C : ℤ) - (iv : ℤ) < 1 := by exact_mod_cast h3
    have h6 : (C : ℤ) = iv := by omega
    refine ⟨?_, ?_⟩
    · rw [← e1, h6]; simp
    · simp only [Int.toNat_zero, pow_zero, mul_one]; exact_mod_cast h6.symm

theorem shl_mask (iv k M W t : Nat) (h : iv * 2 ^ k = M) (hM : M < 2 ^ W) :
    ((iv <<< k) % 2 ^ W) &&& (2 ^ t - 1) = M % 2 ^ t := by
  rw [Nat.shiftLeft_eq, h, Nat.mod_eq_of_lt hM, Nat.and_two_pow_sub_one_eq_mod]

theorem clampExp_window (c : FCfg) (hmin : c.emin ≤ c.emax) (x : ℚ) (hx : ¬ x < ipow2 c.emin) (e g : Int)
    (he1 : c.emin ≤ e) (he2 : e ≤ c.emax) (h1 : e - 1 ≤ g) (h2 : g ≤ e + 2) :
    e - 1 ≤ clampExp c x g ∧ clampExp c x g ≤ e + 2 ∧ c.emin ≤ clampExp c x g ∧ clampExp c x g ≤ c.emax := by
  unfold clampExp
  simp only [hx, or_false]
  split_ifs <;> omega

/-- the state entering the loop for a non-negative `fv` whose integer part fits the word -/
theorem sigInit_eq (c : FCfg) (fv : ℚ) (q0 : Nat) (hfl : ⌊fv⌋ = (q0 : ℤ)) (hq : q0 < 2 ^ c.word) :
    sigInit c fv = (if 0 < q0 then leftestBit q0 else 0,
      { ival := q0, dvalue := fv - q0,
        rem := if 0 < (if 0 < q0 then leftestBit q0 else 0) then (c.nbits : ℤ) - (if 0 < q0 then leftestBit q0 else 0 : Nat) + 1 else (c.nbits : ℤ) + 1,
        n := 0, ni0 := 0 }) := by
  unfold sigInit
  have : fv.floor = (q0 : ℤ) := hfl
  simp only [this, Int.toNat_natCast, Nat.mod_eq_of_lt hq]

theorem leftestBit_eq (q k : Nat) (h1 : 2 ^ k ≤ q) (h2 : q < 2 ^ (k + 1)) : leftestBit q = k + 1 := by
  unfold leftestBit
  have hq : q ≠ 0 := by have := Nat.two_pow_pos k; omega
  rw [if_neg hq, (Nat.log2_eq_iff hq).mpr ⟨h1, h2⟩]

/-- guess at or below the true exponent by `k ≤ t` (the C needs `k ≤ 1`): integer part has `k+1` bits -/
theorem sig_core_ge (c : FCfg) (hc : CfgOK c) (M k : Nat) (E : Int) (den : Bool)
    (hM1 : 2 ^ c.nbits ≤ M) (hM2 : M < 2 ^ (c.nbits + 1)) (hk : k ≤ c.nbits) :
    sigFinish c E (sigInit c ((M : ℚ) * 2 ^ ((k : ℤ) - (c.nbits : ℤ)))).1
      (encLoop c.word (sigInit c ((M : ℚ) * 2 ^ ((k : ℤ) - (c.nbits : ℤ)))).1 den c.fuel
        (sigInit c ((M : ℚ) * 2 ^ ((k : ℤ) - (c.nbits : ℤ)))).2)
    = (M - 2 ^ c.nbits, E + k, false) := by
  obtain ⟨hprec, hword, humin, hemin, hemax, hfuel, hnb⟩ := hc
  generalize ht : c.nbits = t at *
  set fv : ℚ := (M : ℚ) * 2 ^ ((k : ℤ) - (t : ℤ)) with hfv
  have hfv' : fv = (M : ℚ) / ((2 ^ (t - k) : Nat) : ℚ) := by
    rw [hfv]
    have : (k : ℤ) - (t : ℤ) = -((t - k : Nat) : ℤ) := by omega
    rw [this, zpow_neg, zpow_natCast]; push_cast; rfl
  have hP : 0 < 2 ^ (t - k) := Nat.two_pow_pos _
  set q0 := M / 2 ^ (t - k) with hq0
  have hfl : ⌊fv⌋ = (q0 : ℤ) := by
    rw [hfv']
    have := Rat.floor_intCast_div_natCast (M : ℤ) (2 ^ (t - k))
    rw [Int.cast_natCast] at this
    rw [this, hq0]; norm_cast
  have hsplit : 2 ^ t = 2 ^ k * 2 ^ (t - k) := by rw [← pow_add]; congr 1; omega
  have hq1 : 2 ^ k ≤ q0 := by
    rw [hq0, Nat.le_div_iff_mul_le hP, ← hsplit]; exact hM1
  have hq2 : q0 < 2 ^ (k + 1) := by
    rw [hq0, Nat.div_lt_iff_lt_mul hP, pow_succ, mul_assoc, mul_comm 2, ← mul_assoc, ← hsplit, ← pow_succ]; exact hM2
  have hqW : q0 < 2 ^ c.word := lt_of_lt_of_le hq2 (Nat.pow_le_pow_right (by norm_num) (by omega))
  have hqpos : 0 < q0 := lt_of_lt_of_le (Nat.two_pow_pos k) hq1
  have hnbv : leftestBit q0 = k + 1 := leftestBit_eq q0 k hq1 hq2
  rw [sigInit_eq c fv q0 hfl hqW]
  simp only [hqpos, if_true, hnbv, ht, Nat.succ_pos]
  have hrem0 : (t : ℤ) - ((k + 1 : Nat) : ℤ) + 1 = ((t - k : Nat) : ℤ) := by omega
  rw [hrem0]
  -- run the loop
  have hfl1 : ((q0 : ℤ) : ℚ) ≤ fv := by rw [← hfl]; exact Int.floor_le fv
  have hfl2 : fv < ((q0 : ℤ) : ℚ) + 1 := by rw [← hfl]; exact Int.lt_floor_add_one fv
  rw [Int.cast_natCast] at hfl1 hfl2
  have hMW : M < 2 ^ c.word := lt_of_lt_of_le hM2 (Nat.pow_le_pow_right (by norm_num) (by omega))
  have hC : (((q0 : ℚ)) + (fv - q0)) * 2 ^ (((t - k : Nat)) : ℤ) = M := by
    rw [zpow_natCast, hfv']
    have : (0 : ℚ) < ((2 ^ (t - k) : Nat) : ℚ) := by exact_mod_cast hP
    push_cast at this ⊢
    field_simp
    ring
  obtain ⟨r1, r2, r3, r4, r5, _, _, _⟩ := encLoop_run c.word (k + 1) den M hMW c.fuel
    { ival := q0, dvalue := fv - q0, rem := ((t - k : Nat) : ℤ), n := 0, ni0 := 0 }
    (Or.inr (Or.inl (Nat.succ_pos k))) (by show 0 ≤ fv - q0; linarith) (by show fv - q0 < 1; linarith)
    (by show (0 : ℤ) ≤ ((t - k : Nat) : ℤ); omega)
    (by show (((t - k : Nat) : ℤ)).toNat ≤ c.fuel; omega) hC
  generalize encLoop c.word (k + 1) den c.fuel
    { ival := q0, dvalue := fv - q0, rem := ((t - k : Nat) : ℤ), n := 0, ni0 := 0 } = r at *
  obtain ⟨_, hfin⟩ := loop_final r.ival r.dvalue r.rem M r1 r2 r3 r4 r5
  have hmod : M % 2 ^ t = M - 2 ^ t := by
    rw [Nat.mod_eq_sub_mod hM1, Nat.mod_eq_of_lt (by rw [pow_succ] at hM2; omega)]
  unfold sigFinish
  simp only [Nat.succ_pos, if_true, ht]
  refine Prod.ext ?_ (Prod.ext ?_ rfl)
  · show (if 0 < r.rem then r.ival <<< r.rem.toNat % 2 ^ c.word &&& 2 ^ t - 1 else r.ival &&& 2 ^ t - 1) = M - 2 ^ t
    split
    · rw [shl_mask _ _ M _ _ hfin hMW, hmod]
    · have : r.rem = 0 := by omega
      rw [this] at hfin
      simp only [Int.toNat_zero, pow_zero, mul_one] at hfin
      rw [hfin, Nat.and_two_pow_sub_one_eq_mod, hmod]
  · show E + ((k + 1 : Nat) : ℤ) - 1 = E + k
    push_cast; ring

/-- common part of the `nb = 0` cases: `fv < 1` with its first 1 bit at position `j`; the loop ends
with `ival·2^rem = fv·2^(j+t)` (=: `C`), `ni0 = j`, and `C` not a multiple of `2^(rem+1)` unless
`rem = t` -/
theorem sig_lead_run (c : FCfg) (hc : CfgOK c) (fv : ℚ) (j C : Nat) (hj1 : 1 ≤ j) (hj4 : j ≤ 4)
    (hlo : 1 ≤ fv * 2 ^ j) (hhi : fv * 2 ^ j < 2) (hC : fv * 2 ^ j * 2 ^ c.nbits = C)
    (hCW : C < 2 ^ c.word) :
    (sigInit c fv).1 = 0 ∧
    (encLoop c.word 0 false c.fuel (sigInit c fv).2).ival * 2 ^ (encLoop c.word 0 false c.fuel (sigInit c fv).2).rem.toNat = C ∧
    (encLoop c.word 0 false c.fuel (sigInit c fv).2).ni0 = j ∧
    0 ≤ (encLoop c.word 0 false c.fuel (sigInit c fv).2).rem ∧
    ((encLoop c.word 0 false c.fuel (sigInit c fv).2).rem < c.nbits →
      ∀ k : ℤ, (k : ℚ) * 2 ^ ((encLoop c.word 0 false c.fuel (sigInit c fv).2).rem + 1) ≠ C) := by
  obtain ⟨hprec, hword, humin, hemin, hemax, hfuel, hnb⟩ := hc
  have h2j : (0 : ℚ) < 2 ^ j := by positivity
  have h2j1 : (2 : ℚ) ≤ 2 ^ j := by
    calc (2 : ℚ) = 2 ^ 1 := by norm_num
      _ ≤ 2 ^ j := pow_le_pow_right₀ (by norm_num) hj1
  have hfv0 : 0 < fv := by
    by_contra h; rw [not_lt] at h
    have : fv * 2 ^ j ≤ 0 := mul_nonpos_of_nonpos_of_nonneg h h2j.le
    linarith
  have hfv1 : fv < 1 := by nlinarith
  have hfl : ⌊fv⌋ = ((0 : Nat) : ℤ) := by
    rw [Int.floor_eq_iff]; constructor <;> simp <;> linarith
  rw [sigInit_eq c fv 0 hfl (Nat.two_pow_pos _)]
  simp only [lt_irrefl, if_false, Nat.cast_zero, sub_zero]
  have hf : c.fuel = (c.fuel - j) + j := by omega
  rw [hf, encLoop_lead c.word (by omega) j hj1 (c.fuel - j)
    { ival := 0, dvalue := fv, rem := (c.nbits : ℤ) + 1, n := 0, ni0 := 0 } rfl rfl
    (by show (0 : ℤ) < (c.nbits : ℤ) + 1; omega) hlo hhi]
  simp only [Nat.zero_add, add_sub_cancel_right]
  obtain ⟨r1, r2, r3, r4, r5, r6, r7, r8⟩ := encLoop_run c.word 0 false C hCW (c.fuel - j)
    { ival := 1, dvalue := fv * 2 ^ j - 1, rem := (c.nbits : ℤ), n := j, ni0 := j }
    (Or.inl (by show 0 < j; omega)) (by show 0 ≤ fv * 2 ^ j - 1; linarith) (by show fv * 2 ^ j - 1 < 1; linarith)
    (by show (0 : ℤ) ≤ (c.nbits : ℤ); omega)
    (by show ((c.nbits : ℤ)).toNat ≤ c.fuel - j; omega)
    (by show (((1 : Nat) : ℚ) + (fv * 2 ^ j - 1)) * 2 ^ ((c.nbits : ℤ)) = C
        rw [zpow_natCast, ← hC]; push_cast; ring)
  generalize encLoop c.word 0 false (c.fuel - j)
    { ival := 1, dvalue := fv * 2 ^ j - 1, rem := (c.nbits : ℤ), n := j, ni0 := j } = r at *
  obtain ⟨_, hfin⟩ := loop_final r.ival r.dvalue r.rem C r1 r2 r3 r4 r5
  exact ⟨trivial, hfin, r6 (by show 0 < j; omega), r4, r8⟩

/-- guess above the true exponent by `j ∈ 1..4` (the C needs `j ≤ 2`), not taken for a subnormal -/
theorem sig_core_lt (c : FCfg) (hc : CfgOK c) (M j : Nat) (E : Int) (hj1 : 1 ≤ j) (hj4 : j ≤ 4)
    (hM1 : 2 ^ c.nbits ≤ M) (hM2 : M < 2 ^ (c.nbits + 1)) (hE : E ≠ c.emin) :
    sigFinish c E (sigInit c ((M : ℚ) * 2 ^ (-(j : ℤ) - (c.nbits : ℤ)))).1
      (encLoop c.word (sigInit c ((M : ℚ) * 2 ^ (-(j : ℤ) - (c.nbits : ℤ)))).1 false c.fuel
        (sigInit c ((M : ℚ) * 2 ^ (-(j : ℤ) - (c.nbits : ℤ)))).2)
    = (M - 2 ^ c.nbits, E - j, false) := by
  have hc' := hc
  obtain ⟨hprec, hword, humin, hemin, hemax, hfuel, hnb⟩ := hc
  set fv : ℚ := (M : ℚ) * 2 ^ (-(j : ℤ) - (c.nbits : ℤ)) with hfv
  have hp1 : (0 : ℚ) < 2 ^ j := by positivity
  have hp2 : (0 : ℚ) < 2 ^ c.nbits := by positivity
  have hfv' : fv * 2 ^ j * 2 ^ c.nbits = M := by
    rw [hfv]
    have : -(j : ℤ) - (c.nbits : ℤ) = -((j + c.nbits : Nat) : ℤ) := by push_cast; ring
    rw [this, zpow_neg, zpow_natCast, pow_add]
    field_simp
  have hM1' : ((2 : ℚ) ^ c.nbits) ≤ M := by exact_mod_cast hM1
  have hM2' : (M : ℚ) < 2 ^ (c.nbits + 1) := by exact_mod_cast hM2
  have hlo : 1 ≤ fv * 2 ^ j := by
    have : fv * 2 ^ j = M / 2 ^ c.nbits := by rw [eq_div_iff hp2.ne']; exact hfv'
    rw [this, le_div_iff₀ hp2]; linarith
  have hhi : fv * 2 ^ j < 2 := by
    have : fv * 2 ^ j = M / 2 ^ c.nbits := by rw [eq_div_iff hp2.ne']; exact hfv'
    rw [this, div_lt_iff₀ hp2]; rw [pow_succ] at hM2'; linarith
  have hMW : M < 2 ^ c.word := lt_of_lt_of_le hM2 (Nat.pow_le_pow_right (by norm_num) (by omega))
  obtain ⟨h1, h2, h3, h4, _⟩ := sig_lead_run c hc' fv j M hj1 hj4 hlo hhi hfv' hMW
  rw [h1]
  generalize encLoop c.word 0 false c.fuel (sigInit c fv).2 = r at *
  have hmod : M % 2 ^ c.nbits = M - 2 ^ c.nbits := by
    rw [Nat.mod_eq_sub_mod hM1, Nat.mod_eq_of_lt (by rw [pow_succ] at hM2; omega)]
  unfold sigFinish
  simp only [lt_irrefl, if_false, hE]
  rw [shl_mask _ _ M _ _ h2 hMW, hmod, h3]

/-- every non-zero subnormal (`expon = emin`, so `rem` is decremented from the first iteration) -/
theorem sig_sub (c : FCfg) (hc : CfgOK c) (M : Nat) (hM1 : 0 < M) (hM2 : M < 2 ^ c.nbits) :
    sigFinish c c.emin (sigInit c ((M : ℚ) * 2 ^ (-(c.nbits : ℤ)))).1
      (encLoop c.word (sigInit c ((M : ℚ) * 2 ^ (-(c.nbits : ℤ)))).1 true c.fuel
        (sigInit c ((M : ℚ) * 2 ^ (-(c.nbits : ℤ)))).2)
    = (M, c.emin, true) := by
  obtain ⟨hprec, hword, humin, hemin, hemax, hfuel, hnb⟩ := hc
  set fv : ℚ := (M : ℚ) * 2 ^ (-(c.nbits : ℤ)) with hfv
  have hp2 : (0 : ℚ) < 2 ^ c.nbits := by positivity
  have hfvd : fv = (M : ℚ) / 2 ^ c.nbits := by rw [hfv, zpow_neg, zpow_natCast]; rfl
  have hM1' : (0 : ℚ) < M := by exact_mod_cast hM1
  have hM2' : (M : ℚ) < 2 ^ c.nbits := by exact_mod_cast hM2
  have hfv0 : 0 < fv := by rw [hfvd]; positivity
  have hfv1 : fv < 1 := by rw [hfvd, div_lt_one hp2]; exact hM2'
  have hfl : ⌊fv⌋ = ((0 : Nat) : ℤ) := by
    rw [Int.floor_eq_iff]; constructor <;> simp <;> linarith
  have hMW : 2 * M < 2 ^ c.word := by
    have : 2 ^ (c.nbits + 1) ≤ 2 ^ c.word := Nat.pow_le_pow_right (by norm_num) (by omega)
    rw [pow_succ] at this; omega
  rw [sigInit_eq c fv 0 hfl (Nat.two_pow_pos _)]
  simp only [lt_irrefl, if_false, Nat.cast_zero, sub_zero]
  obtain ⟨r1, r2, r3, r4, r5, _, r7, r8⟩ := encLoop_run c.word 0 true (2 * M) hMW c.fuel
    { ival := 0, dvalue := fv, rem := (c.nbits : ℤ) + 1, n := 0, ni0 := 0 }
    (Or.inr (Or.inr rfl)) hfv0.le hfv1 (by show (0 : ℤ) ≤ (c.nbits : ℤ) + 1; omega)
    (by show ((c.nbits : ℤ) + 1).toNat ≤ c.fuel; omega)
    (by show (((0 : Nat) : ℚ) + fv) * 2 ^ ((c.nbits : ℤ) + 1) = ((2 * M : Nat) : ℚ)
        rw [zpow2_add, zpow_natCast, hfvd]; push_cast; field_simp; ring)
  generalize encLoop c.word 0 true c.fuel
    { ival := 0, dvalue := fv, rem := (c.nbits : ℤ) + 1, n := 0, ni0 := 0 } = r at *
  obtain ⟨_, h2⟩ := loop_final r.ival r.dvalue r.rem (2 * M) r1 r2 r3 r4 r5
  have h7 : r.rem ≤ (c.nbits : ℤ) + 1 := r7
  unfold sigFinish
  simp only [lt_irrefl, if_false, if_true]
  refine Prod.ext ?_ rfl
  show (if 1 < r.rem then r.ival <<< (r.rem - 1).toNat % 2 ^ c.word &&& 2 ^ c.nbits - 1 else r.ival) = M
  have hr0 : r.rem ≠ 0 := by
    intro h0
    have := r8 (by show r.rem < (c.nbits : ℤ) + 1; rw [h0]; omega) (M : ℤ)
    apply this
    rw [h0]; push_cast; ring
  split
  · rename_i hgt
    have hk : r.rem.toNat = (r.rem - 1).toNat + 1 := by omega
    rw [hk, pow_succ] at h2
    have h2' : r.ival * 2 ^ (r.rem - 1).toNat = M :=
      Nat.eq_of_mul_eq_mul_right (by norm_num : 0 < 2) (by rw [mul_assoc, h2]; ring)
    rw [shl_mask _ _ M _ _ h2' (by omega), Nat.mod_eq_of_lt hM2]
  · have : r.rem = 1 := by omega
    rw [this] at h2
    simp at h2
    omega

/-- every normal value, any guess within the contract -/
theorem getSignificand_normal (c : FCfg) (hc : CfgOK c) (M : Nat) (e g : Int)
    (hM1 : 2 ^ c.nbits ≤ M) (hM2 : M < 2 ^ (c.nbits + 1)) (he1 : c.emin ≤ e) (he2 : e ≤ c.emax)
    (hg : GuessOK ((M : ℚ) * ipow2 (e - (c.nbits : ℤ))) g) :
    getSignificand c ((M : ℚ) * ipow2 (e - (c.nbits : ℤ))) g = (M - 2 ^ c.nbits, e, false) := by
  have hc' := hc
  obtain ⟨hprec, hword, humin, hemin, hemax, hfuel, hnb⟩ := hc
  rw [ipow2_eq] at hg ⊢
  have hp2 : (0 : ℚ) < 2 ^ c.nbits := by positivity
  have hM1' : ((2 : ℚ) ^ c.nbits) ≤ M := by exact_mod_cast hM1
  have hM2' : (M : ℚ) < 2 ^ (c.nbits + 1) := by exact_mod_cast hM2
  have hx1 : (2 : ℚ) ^ e ≤ (M : ℚ) * 2 ^ (e - (c.nbits : ℤ)) := by
    rw [zpow2_sub, zpow_natCast, mul_div_assoc', le_div_iff₀ hp2]
    have := zpow2_pos e
    nlinarith
  have hx2 : (M : ℚ) * 2 ^ (e - (c.nbits : ℤ)) < 2 ^ (e + 1) := by
    rw [zpow2_sub, zpow_natCast, mul_div_assoc', div_lt_iff₀ hp2, zpow2_add, zpow_one]
    have := zpow2_pos e
    rw [pow_succ] at hM2'
    nlinarith
  obtain ⟨hg1, hg2⟩ := hg
  rw [ipow2_eq] at hg1 hg2
  have hgl : g - 2 < e + 1 := zpow2_lt_iff.mp (lt_of_le_of_lt hg1 hx2)
  have hgu : e < g + 2 := zpow2_lt_iff.mp (lt_of_le_of_lt hx1 hg2)
  have hnsub : ¬ (M : ℚ) * 2 ^ (e - (c.nbits : ℤ)) < ipow2 c.emin := by
    rw [not_lt, ipow2_eq]
    exact le_trans (zpow2_le he1) hx1
  obtain ⟨w1, w2, w3, w4⟩ := clampExp_window c (by omega) _ hnsub e g he1 he2 (by omega) (by omega)
  unfold getSignificand
  simp only
  generalize clampExp c ((M : ℚ) * 2 ^ (e - (c.nbits : ℤ))) g = E at *
  have hfv : flr c.prec c.umin ((M : ℚ) * 2 ^ (e - (c.nbits : ℤ)) / ipow2 E)
      = (M : ℚ) * 2 ^ (e - E - (c.nbits : ℤ)) := by
    have : (M : ℚ) * 2 ^ (e - (c.nbits : ℤ)) / ipow2 E = (M : ℚ) * 2 ^ (e - E - (c.nbits : ℤ)) := by
      rw [ipow2_eq, mul_div_assoc, ← zpow2_sub]; congr 2; ring
    rw [this]
    exact flr_exact c.prec c.umin M _ (by rw [hprec]; exact hM2) (by omega)
  rw [hfv]
  by_cases hd : 0 ≤ e - E
  · obtain ⟨k, hk⟩ := Int.eq_ofNat_of_zero_le hd
    have : e - E - (c.nbits : ℤ) = (k : ℤ) - (c.nbits : ℤ) := by omega
    rw [this, sig_core_ge c hc' M k E _ hM1 hM2 (by omega)]
    congr 2; omega
  · obtain ⟨j, hj⟩ := Int.eq_ofNat_of_zero_le (by omega : 0 ≤ E - e)
    have : e - E - (c.nbits : ℤ) = -(j : ℤ) - (c.nbits : ℤ) := by omega
    have hden : decide (E = c.emin) = false := decide_eq_false (by omega)
    rw [this, hden, sig_core_lt c hc' M j E (by omega) (by omega) hM1 hM2 (by omega)]
    congr 2; omega

/-- every non-zero subnormal, whatever the guess -/
theorem getSignificand_sub (c : FCfg) (hc : CfgOK c) (M : Nat) (g : Int)
    (hM1 : 0 < M) (hM2 : M < 2 ^ c.nbits) :
    getSignificand c ((M : ℚ) * ipow2 (c.emin - (c.nbits : ℤ))) g = (M, c.emin, true) := by
  have hc' := hc
  obtain ⟨hprec, hword, humin, hemin, hemax, hfuel, hnb⟩ := hc
  have hsub : (M : ℚ) * ipow2 (c.emin - (c.nbits : ℤ)) < ipow2 c.emin := by
    rw [ipow2_eq, ipow2_eq, zpow2_sub, zpow_natCast, mul_div_assoc']
    have hp2 : (0 : ℚ) < 2 ^ c.nbits := by positivity
    rw [div_lt_iff₀ hp2]
    have : (M : ℚ) < 2 ^ c.nbits := by exact_mod_cast hM2
    have := zpow2_pos c.emin
    nlinarith
  have hcl : clampExp c ((M : ℚ) * ipow2 (c.emin - (c.nbits : ℤ))) g = c.emin := by
    unfold clampExp; simp only [hsub, or_true, if_true]; split_ifs <;> omega
  unfold getSignificand
  simp only [hcl, decide_true]
  have hfv : flr c.prec c.umin ((M : ℚ) * ipow2 (c.emin - (c.nbits : ℤ)) / ipow2 c.emin)
      = (M : ℚ) * 2 ^ (-(c.nbits : ℤ)) := by
    have : (M : ℚ) * ipow2 (c.emin - (c.nbits : ℤ)) / ipow2 c.emin = (M : ℚ) * 2 ^ (-(c.nbits : ℤ)) := by
      rw [ipow2_eq, ipow2_eq, mul_div_assoc, ← zpow2_sub]; congr 2; ring
    rw [this]
    exact flr_exact c.prec c.umin M _ (by rw [hprec, pow_succ]; omega) (by omega)
  rw [hfv]
  exact sig_sub c hc' M hM1 hM2

/-! ### the encoders -/

theorem or_sign (x i : Nat) (hx : x < 2 ^ i) : x ||| 2 ^ i = x + 2 ^ i := by
  rw [Nat.or_comm, ← Nat.one_shiftLeft, ← Nat.shiftLeft_add_eq_or_of_lt hx, Nat.add_comm]

theorem shl_or (E f t : Nat) (hf : f < 2 ^ t) : (E <<< t ||| f) = E * 2 ^ t + f := by
  rw [← Nat.shiftLeft_add_eq_or_of_lt hf, Nat.shiftLeft_eq]

/-- putting the sign bit on -/
theorem sign_finish (i b ival m : Nat) (hm : m = 2 ^ i) (hlt : ival < 2 ^ i)
    (hrec : b = (b / 2 ^ i % 2) * 2 ^ i + ival) :
    (if b.testBit i = true then ival ||| m else ival) = b := by
  subst hm
  rw [Nat.testBit_eq_decide_div_mod_eq]
  rcases Nat.mod_two_eq_zero_or_one (b / 2 ^ i) with h | h
  · rw [h] at hrec; simp only [h]; simp; omega
  · rw [h] at hrec; simp only [h]; simp; rw [or_sign _ _ hlt]; omega

/-- the three shapes of a host value (generic in the format) -/
theorem hostVal_cases (w t b : Nat) :
    (b / 2 ^ t % 2 ^ w = 2 ^ w - 1 ∧
      hostVal w t b = (if b % 2 ^ t = 0 then .inf (b.testBit (t + w)) else .nan)) ∨
    (b / 2 ^ t % 2 ^ w = 0 ∧
      hostVal w t b = .fin (b.testBit (t + w)) (((b % 2 ^ t : Nat) : ℚ) * ipow2 (2 - 2 ^ (w - 1) - (t : ℤ)))) ∨
    (b / 2 ^ t % 2 ^ w ≠ 2 ^ w - 1 ∧ b / 2 ^ t % 2 ^ w ≠ 0 ∧ hostVal w t b =
      .fin (b.testBit (t + w)) (((2 ^ t + b % 2 ^ t : Nat) : ℚ) *
        ipow2 (((b / 2 ^ t % 2 ^ w : Nat) : ℤ) - (2 ^ (w - 1) - 1) - (t : ℤ)))) := by
  unfold hostVal
  by_cases h1 : b / 2 ^ t % 2 ^ w = 2 ^ w - 1
  · left; exact ⟨h1, by simp only [h1, if_true]⟩
  by_cases h2 : b / 2 ^ t % 2 ^ w = 0
  · right; left
    refine ⟨h2, ?_⟩
    simp only
    rw [if_neg h1, if_pos h2]
  · right; right
    refine ⟨h1, h2, ?_⟩
    simp only
    rw [if_neg h1, if_neg h2]

theorem encodeSingle_host (b : Nat) (hb : b < 2 ^ 32) (g : Int)
    (hnan : ¬ Spec.isNaN 8 23 b) (hg : GuessOKV cfg32 (hostVal32 b) g) : encodeSingle (hostVal32 b) g = b := by
  unfold Spec.isNaN at hnan
  have hf : b % 2 ^ 23 < 2 ^ 23 := Nat.mod_lt _ (by norm_num)
  have hE : b / 2 ^ 23 % 2 ^ 8 < 2 ^ 8 := Nat.mod_lt _ (by norm_num)
  have hrec : b = (b / 2 ^ 31 % 2) * 2 ^ 31 + ((b / 2 ^ 23 % 2 ^ 8) * 2 ^ 23 + b % 2 ^ 23) := by
    norm_num at hb ⊢; omega
  have e2 : (0x80000000 : Nat) = 2 ^ 31 := by norm_num
  unfold hostVal32 at hg ⊢
  rcases hostVal_cases 8 23 b with ⟨hE1, hv⟩ | ⟨hE0, hv⟩ | ⟨hE1, hE0, hv⟩
  · -- infinity
    have hf0 : b % 2 ^ 23 = 0 := by
      by_contra h; exact hnan ⟨hE1, h⟩
    rw [hv, if_pos hf0]
    unfold encodeSingle
    simp only
    exact sign_finish 31 b 0x7f800000 _ e2 (by norm_num) (by rw [hE1, hf0] at hrec; exact hrec)
  · -- zero and subnormal
    rw [hv]
    by_cases hf0 : b % 2 ^ 23 = 0
    · unfold encodeSingle
      simp only [hf0, Nat.cast_zero, zero_mul, if_true]
      exact sign_finish 31 b 0 _ e2 (by norm_num) (by rw [hE0, hf0] at hrec; exact hrec)
    · have hq0 : ((b % 2 ^ 23 : Nat) : ℚ) * ipow2 (2 - 2 ^ (8 - 1) - ((23 : Nat) : ℤ)) ≠ 0 := by
        rw [ipow2_eq]
        have := zpow2_pos (2 - 2 ^ (8 - 1) - ((23 : Nat) : ℤ))
        have : (0 : ℚ) < ((b % 2 ^ 23 : Nat) : ℚ) := by exact_mod_cast Nat.pos_of_ne_zero hf0
        positivity
      have hexp : (2 : ℤ) - 2 ^ (8 - 1) - ((23 : Nat) : ℤ) = cfg32.emin - (cfg32.nbits : ℤ) := by simp [cfg32]
      unfold encodeSingle
      simp only [hq0, if_false]
      rw [hexp, getSignificand_sub cfg32 cfg32_ok (b % 2 ^ 23) g (Nat.pos_of_ne_zero hf0) hf]
      simp only [if_true]
      exact sign_finish 31 b _ _ e2 (by omega) (by rw [hE0] at hrec; simpa using hrec)
  · -- normal
    rw [hv] at hg ⊢
    have hM1 : 2 ^ cfg32.nbits ≤ 2 ^ 23 + b % 2 ^ 23 := by simp [cfg32]
    have hM2 : 2 ^ 23 + b % 2 ^ 23 < 2 ^ (cfg32.nbits + 1) := by simp only [cfg32]; omega
    have hexp : ((b / 2 ^ 23 % 2 ^ 8 : Nat) : ℤ) - (2 ^ (8 - 1) - 1) - ((23 : Nat) : ℤ)
        = (((b / 2 ^ 23 % 2 ^ 8 : Nat) : ℤ) - 127) - (cfg32.nbits : ℤ) := by simp [cfg32]
    rw [hexp] at hg ⊢
    have hE0' : 1 ≤ b / 2 ^ 23 % 2 ^ 8 := Nat.pos_of_ne_zero hE0
    have hE1' : b / 2 ^ 23 % 2 ^ 8 ≤ 254 := by norm_num at hE1 hE ⊢; omega
    have hpos : (0 : ℚ) < ((2 ^ 23 + b % 2 ^ 23 : Nat) : ℚ) := by
      have : 0 < 2 ^ 23 + b % 2 ^ 23 := by positivity
      exact_mod_cast this
    have hq0 : ((2 ^ 23 + b % 2 ^ 23 : Nat) : ℚ) * ipow2 ((((b / 2 ^ 23 % 2 ^ 8 : Nat) : ℤ) - 127) - (cfg32.nbits : ℤ)) ≠ 0 := by
      rw [ipow2_eq]
      have := zpow2_pos ((((b / 2 ^ 23 % 2 ^ 8 : Nat) : ℤ) - 127) - (cfg32.nbits : ℤ))
      positivity
    have hnsub : ¬ ((2 ^ 23 + b % 2 ^ 23 : Nat) : ℚ) * ipow2 ((((b / 2 ^ 23 % 2 ^ 8 : Nat) : ℤ) - 127) - (cfg32.nbits : ℤ))
        < ipow2 cfg32.emin := by
      rw [not_lt, ipow2_eq, ipow2_eq]
      have h1 : (2 : ℚ) ^ ((cfg32.nbits : Nat) : ℤ) ≤ ((2 ^ 23 + b % 2 ^ 23 : Nat) : ℚ) := by
        rw [zpow_natCast]; exact_mod_cast hM1
      have h2 : cfg32.emin ≤ (cfg32.nbits : ℤ) + ((((b / 2 ^ 23 % 2 ^ 8 : Nat) : ℤ) - 127) - (cfg32.nbits : ℤ)) := by
        simp only [cfg32]; omega
      calc (2 : ℚ) ^ cfg32.emin ≤ 2 ^ ((cfg32.nbits : ℤ) + ((((b / 2 ^ 23 % 2 ^ 8 : Nat) : ℤ) - 127) - (cfg32.nbits : ℤ))) := zpow2_le h2
        _ = 2 ^ ((cfg32.nbits : Nat) : ℤ) * 2 ^ ((((b / 2 ^ 23 % 2 ^ 8 : Nat) : ℤ) - 127) - (cfg32.nbits : ℤ)) := zpow2_add _ _
        _ ≤ _ := mul_le_mul_of_nonneg_right h1 (zpow2_pos _).le
    have hgo : GuessOK (((2 ^ 23 + b % 2 ^ 23 : Nat) : ℚ) * ipow2 ((((b / 2 ^ 23 % 2 ^ 8 : Nat) : ℤ) - 127) - (cfg32.nbits : ℤ))) g := by
      rcases hg with h | h | h
      · exact absurd h hq0
      · exact absurd h hnsub
      · exact h
    unfold encodeSingle
    simp only [hq0, if_false]
    rw [getSignificand_normal cfg32 cfg32_ok _ _ g hM1 hM2 (by simp only [cfg32]; omega)
      (by simp only [cfg32]; omega) hgo]
    have hfr : 2 ^ 23 + b % 2 ^ 23 - 2 ^ cfg32.nbits = b % 2 ^ 23 := by simp [cfg32]
    have hex : (((b / 2 ^ 23 % 2 ^ 8 : Nat) : ℤ) - 127 + 127).toNat = b / 2 ^ 23 % 2 ^ 8 := by omega
    have hlt : (b / 2 ^ 23 % 2 ^ 8) * 2 ^ 23 + b % 2 ^ 23 < 2 ^ 31 := by norm_num at hE1' hf ⊢; omega
    simp only [hfr, hex, Bool.false_eq_true, if_false, shl_or _ _ 23 hf]
    rw [Nat.mod_eq_of_lt (by omega)]
    exact sign_finish 31 b _ _ e2 hlt hrec

theorem encodeDouble_host (b : Nat) (hb : b < 2 ^ 64) (g : Int)
    (hnan : ¬ Spec.isNaN 11 52 b) (hg : GuessOKV cfg64 (hostVal64 b) g) : encodeDouble (hostVal64 b) g = b := by
  unfold Spec.isNaN at hnan
  have hf : b % 2 ^ 52 < 2 ^ 52 := Nat.mod_lt _ (by norm_num)
  have hE : b / 2 ^ 52 % 2 ^ 11 < 2 ^ 11 := Nat.mod_lt _ (by norm_num)
  have hrec : b = (b / 2 ^ 63 % 2) * 2 ^ 63 + ((b / 2 ^ 52 % 2 ^ 11) * 2 ^ 52 + b % 2 ^ 52) := by
    norm_num at hb ⊢; omega
  have e2 : (0x8000000000000000 : Nat) = 2 ^ 63 := by norm_num
  unfold hostVal64 at hg ⊢
  rcases hostVal_cases 11 52 b with ⟨hE1, hv⟩ | ⟨hE0, hv⟩ | ⟨hE1, hE0, hv⟩
  · -- infinity
    have hf0 : b % 2 ^ 52 = 0 := by
      by_contra h; exact hnan ⟨hE1, h⟩
    rw [hv, if_pos hf0]
    unfold encodeDouble
    simp only
    exact sign_finish 63 b 0x7ff0000000000000 _ e2 (by norm_num) (by rw [hE1, hf0] at hrec; exact hrec)
  · -- zero and subnormal
    rw [hv]
    by_cases hf0 : b % 2 ^ 52 = 0
    · unfold encodeDouble
      simp only [hf0, Nat.cast_zero, zero_mul, if_true]
      exact sign_finish 63 b 0 _ e2 (by norm_num) (by rw [hE0, hf0] at hrec; exact hrec)
    · have hq0 : ((b % 2 ^ 52 : Nat) : ℚ) * ipow2 (2 - 2 ^ (11 - 1) - ((52 : Nat) : ℤ)) ≠ 0 := by
        rw [ipow2_eq]
        have := zpow2_pos (2 - 2 ^ (11 - 1) - ((52 : Nat) : ℤ))
        have : (0 : ℚ) < ((b % 2 ^ 52 : Nat) : ℚ) := by exact_mod_cast Nat.pos_of_ne_zero hf0
        positivity
      have hexp : (2 : ℤ) - 2 ^ (11 - 1) - ((52 : Nat) : ℤ) = cfg64.emin - (cfg64.nbits : ℤ) := by simp [cfg64]
      unfold encodeDouble
      simp only [hq0, if_false]
      rw [hexp, getSignificand_sub cfg64 cfg64_ok (b % 2 ^ 52) g (Nat.pos_of_ne_zero hf0) hf]
      have hden : ((cfg64.emin + 1023 - 1).toNat <<< 52 ||| b % 2 ^ 52) % 2 ^ 64 = b % 2 ^ 52 := by
        have : (cfg64.emin + 1023 - 1).toNat = 0 := by simp [cfg64]
        rw [this, Nat.zero_shiftLeft, Nat.zero_or, Nat.mod_eq_of_lt (by omega)]
      simp only [if_true, hden]
      exact sign_finish 63 b _ _ e2 (by omega) (by rw [hE0] at hrec; simpa using hrec)
  · -- normal
    rw [hv] at hg ⊢
    have hM1 : 2 ^ cfg64.nbits ≤ 2 ^ 52 + b % 2 ^ 52 := by simp [cfg64]
    have hM2 : 2 ^ 52 + b % 2 ^ 52 < 2 ^ (cfg64.nbits + 1) := by simp only [cfg64]; omega
    have hexp : ((b / 2 ^ 52 % 2 ^ 11 : Nat) : ℤ) - (2 ^ (11 - 1) - 1) - ((52 : Nat) : ℤ)
        = (((b / 2 ^ 52 % 2 ^ 11 : Nat) : ℤ) - 1023) - (cfg64.nbits : ℤ) := by simp [cfg64]
    rw [hexp] at hg ⊢
    have hE0' : 1 ≤ b / 2 ^ 52 % 2 ^ 11 := Nat.pos_of_ne_zero hE0
    have hE1' : b / 2 ^ 52 % 2 ^ 11 ≤ 2046 := by norm_num at hE1 hE ⊢; omega
    have hpos : (0 : ℚ) < ((2 ^ 52 + b % 2 ^ 52 : Nat) : ℚ) := by
      have : 0 < 2 ^ 52 + b % 2 ^ 52 := by positivity
      exact_mod_cast this
    have hq0 : ((2 ^ 52 + b % 2 ^ 52 : Nat) : ℚ) * ipow2 ((((b / 2 ^ 52 % 2 ^ 11 : Nat) : ℤ) - 1023) - (cfg64.nbits : ℤ)) ≠ 0 := by
      rw [ipow2_eq]
      have := zpow2_pos ((((b / 2 ^ 52 % 2 ^ 11 : Nat) : ℤ) - 1023) - (cfg64.nbits : ℤ))
      positivity
    have hnsub : ¬ ((2 ^ 52 + b % 2 ^ 52 : Nat) : ℚ) * ipow2 ((((b / 2 ^ 52 % 2 ^ 11 : Nat) : ℤ) - 1023) - (cfg64.nbits : ℤ))
        < ipow2 cfg64.emin := by
      rw [not_lt, ipow2_eq, ipow2_eq]
      have h1 : (2 : ℚ) ^ ((cfg64.nbits : Nat) : ℤ) ≤ ((2 ^ 52 + b % 2 ^ 52 : Nat) : ℚ) := by
        rw [zpow_natCast]; exact_mod_cast hM1
      have h2 : cfg64.emin ≤ (cfg64.nbits : ℤ) + ((((b / 2 ^ 52 % 2 ^ 11 : Nat) : ℤ) - 1023) - (cfg64.nbits : ℤ)) := by
        simp only [cfg64]; omega
      calc (2 : ℚ) ^ cfg64.emin ≤ 2 ^ ((cfg64.nbits : ℤ) + ((((b / 2 ^ 52 % 2 ^ 11 : Nat) : ℤ) - 1023) - (cfg64.nbits : ℤ))) := zpow2_le h2
        _ = 2 ^ ((cfg64.nbits : Nat) : ℤ) * 2 ^ ((((b / 2 ^ 52 % 2 ^ 11 : Nat) : ℤ) - 1023) - (cfg64.nbits : ℤ)) := zpow2_add _ _
        _ ≤ _ := mul_le_mul_of_nonneg_right h1 (zpow2_pos _).le
    have hgo : GuessOK (((2 ^ 52 + b % 2 ^ 52 : Nat) : ℚ) * ipow2 ((((b / 2 ^ 52 % 2 ^ 11 : Nat) : ℤ) - 1023) - (cfg64.nbits : ℤ))) g := by
      rcases hg with h | h | h
      · exact absurd h hq0
      · exact absurd h hnsub
      · exact h
    unfold encodeDouble
    simp only [hq0, if_false]
    rw [getSignificand_normal cfg64 cfg64_ok _ _ g hM1 hM2 (by simp only [cfg64]; omega)
      (by simp only [cfg64]; omega) hgo]
    have hfr : 2 ^ 52 + b % 2 ^ 52 - 2 ^ cfg64.nbits = b % 2 ^ 52 := by simp [cfg64]
    have hex : (((b / 2 ^ 52 % 2 ^ 11 : Nat) : ℤ) - 1023 + 1023).toNat = b / 2 ^ 52 % 2 ^ 11 := by omega
    have hlt : (b / 2 ^ 52 % 2 ^ 11) * 2 ^ 52 + b % 2 ^ 52 < 2 ^ 63 := by norm_num at hE1' hf ⊢; omega
    simp only [hfr, hex, Bool.false_eq_true, if_false, shl_or _ _ 52 hf]
    rw [Nat.mod_eq_of_lt (by omega)]
    exact sign_finish 63 b _ _ e2 hlt hrec


/-! ### the start-up self-test -/

theorem hostVal_nan (w t b : Nat) (h : Spec.isNaN w t b) : hostVal w t b = .nan := by
  obtain ⟨h1, h2⟩ := h
  unfold hostVal
  simp only
  rw [if_pos h1, if_neg h2]

theorem foldl_tests (f : Int → Nat → Int) (l : List Nat) (h : ∀ b ∈ l, f 0 b = 0) : l.foldl f 0 = 0 := by
  induction l with
  | nil => rfl
  | cons a l ih =>
    rw [List.foldl_cons, h a List.mem_cons_self]
    exact ih (fun b hb => h b (List.mem_cons_of_mem _ hb))

theorem feq_self (v : FVal) : feq v v = true ∨ v.isNan = true := by
  cases v with
  | fin n q => left; simp [feq]
  | inf n => left; simp [feq]
  | nan => right; rfl

theorem testDecodingSingle_ok (b : Nat) : testDecodingSingle b = 1 := by
  unfold testDecodingSingle
  simp only [decodeSingle_eq]
  rcases feq_self (hostVal32 b) with h | h <;> simp [h]

theorem testDecodingDouble_ok (b : Nat) : testDecodingDouble b = 1 := by
  unfold testDecodingDouble
  simp only [decodeDouble_eq]
  rcases feq_self (hostVal64 b) with h | h <;> simp [h]

theorem hostVal32_qnan : hostVal32 0x7fc00000 = .nan := hostVal_nan 8 23 _ (by decide)
theorem hostVal64_qnan : hostVal64 0x7ff8000000000000 = .nan := hostVal_nan 11 52 _ (by decide)

theorem testEncodingSingle_ok (env : SelfTestEnv) (b : Nat) (hb : b < 2 ^ 32)
    (hg : GuessOKV cfg32 (hostVal32 b) (env.guess32 b)) :
    testEncodingSingle env b = 1 := by
  unfold testEncodingSingle
  by_cases hn : Spec.isNaN 8 23 b
  · have : hostVal32 b = .nan := hostVal_nan 8 23 b hn
    rw [this]
    have : encodeSingle .nan (env.guess32 b) = 0x7fc00000 := by
      show (0x7f800000 ||| (1 <<< 22) : Nat) = 0x7fc00000; decide
    rw [this, hostVal32_qnan]; simp [FVal.isNan]
  · rw [encodeSingle_host b hb _ hn hg]
    rcases feq_self (hostVal32 b) with h | h <;> simp [h]

theorem testEncodingDouble_ok (env : SelfTestEnv) (b : Nat) (hb : b < 2 ^ 64)
    (hg : GuessOKV cfg64 (hostVal64 b) (env.guess64 b)) :
    testEncodingDouble env b = 1 := by
  unfold testEncodingDouble
  by_cases hn : Spec.isNaN 11 52 b
  · have : hostVal64 b = .nan := hostVal_nan 11 52 b hn
    rw [this]
    have : encodeDouble .nan (env.guess64 b) = 0x7ff8000000000000 := by
      show (0x7ff0000000000000 ||| (1 <<< 51) : Nat) = 0x7ff8000000000000; decide
    rw [this, hostVal64_qnan]; simp [FVal.isNan]
  · rw [encodeDouble_host b hb _ hn hg]
    rcases feq_self (hostVal64 b) with h | h <;> simp [h]

/-- the self-test passes on an IEEE host whose libm meets the guess contract -/
theorem checkCompliance_one (env : SelfTestEnv) (hs : env.sizesOK = true)
    (h32 : ∀ b ∈ selfTestValues32, GuessOKV cfg32 (hostVal32 b) (env.guess32 b))
    (h64 : ∀ b ∈ selfTestValues64, GuessOKV cfg64 (hostVal64 b) (env.guess64 b)) :
    checkCompliance env = 1 := by
  have hl32 : ∀ b ∈ selfTestValues32, b < 2 ^ 32 := by decide
  have hl64 : ∀ b ∈ selfTestValues64, b < 2 ^ 64 := by decide
  have e32 : ∀ b ∈ selfTestValues32, testEncodingSingle env b = 1 := fun b hb =>
    testEncodingSingle_ok env b (hl32 b hb) (h32 b hb)
  have e64 : ∀ b ∈ selfTestValues64, testEncodingDouble env b = 1 := fun b hb =>
    testEncodingDouble_ok env b (hl64 b hb) (h64 b hb)
  have hfold32 : checkSingleMemLayout env = 0 := by
    unfold checkSingleMemLayout
    apply foldl_tests
    intro b hb
    simp only [testDecodingSingle_ok, e32 b hb]
    rfl
  have hfold64 : checkDoubleMemLayout env = 0 := by
    unfold checkDoubleMemLayout
    apply foldl_tests
    intro b hb
    simp only [testDecodingDouble_ok, e64 b hb]
    rfl
  have hmatch : checkMatchEncoding2Decoding env = 0 := by
    unfold checkMatchEncoding2Decoding
    have m32 : (0x7f7fffff : Nat) ∈ selfTestValues32 := by decide
    have m64 : (0x7fefffffffffffff : Nat) ∈ selfTestValues64 := by decide
    rw [encodeSingle_host 0x7f7fffff (by norm_num) _ (by decide) (h32 _ m32),
      encodeDouble_host 0x7fefffffffffffff (by norm_num) _ (by decide) (h64 _ m64)]
    simp
  have hsign : checkSignBit = 1 := by decide
  unfold checkCompliance
  simp [hs, hsign, hfold32, hfold64, hmatch]

end Bufr
