import BufrModel.Dump
import BufrProofs.Printf
import BufrProofs.Scale
import Mathlib.Tactic.Linarith
import Mathlib.Tactic.Ring
import Mathlib.Tactic.NormNum
import Mathlib.Tactic.Positivity
import Mathlib.Tactic.FieldSimp
/-
  Helper lemmas for C13: the decimal text of a decoded value reads back as the same double;
  binary, quoted strings, associated fields; one dump line parses to its record.
-/
namespace Bufr.SF

/-- `fl p` of something is a fixed point of `fl p` -/
theorem fl_idem (p : ℕ) (hp : 1 ≤ p) (q : ℚ) : fl p (fl p q) = fl p q := by
  by_cases hq : q = 0
  · subst hq; simp [fl_zero]
  have two : (2:ℚ) ≠ 0 := by norm_num
  have hfl : fl p q = (rne (q / (2:ℚ) ^ (ilog2 q - ((p:ℤ) - 1))) : ℚ) * (2:ℚ) ^ (ilog2 q - ((p:ℤ) - 1)) := by
    unfold fl; rw [if_neg hq]; simp only; rw [pow2_eq]
  set e := ilog2 q with he
  set j := e - ((p:ℤ) - 1) with hj
  set m := rne (q / (2:ℚ) ^ j) with hm
  have hsc : (0:ℚ) < (2:ℚ) ^ j := zpow_pos (by norm_num) _
  -- |q / sc| < 2^p
  have hhi : |q| < (2:ℚ) ^ (e + 1) := (ilog2_spec q hq).2
  have hdiv : |q / (2:ℚ) ^ j| < (2:ℚ) ^ (p:ℤ) := by
    rw [abs_div, abs_of_pos hsc, div_lt_iff₀ hsc, ← zpow_add₀ two]
    have : (p:ℤ) + j = e + 1 := by rw [hj]; ring
    rw [this]; exact hhi
  have hmle : |m| ≤ 2 ^ p := by
    have h1 := rne_err (q / (2:ℚ) ^ j)
    have h2 : |(m:ℚ)| < (2:ℚ) ^ (p:ℤ) + 1 / 2 := by
      have := abs_sub_abs_le_abs_sub (m:ℚ) (q / (2:ℚ) ^ j)
      linarith
    have h3 : |(m:ℚ)| < ((2 ^ p + 1 : ℤ) : ℚ) := by
      push_cast; rw [zpow_natCast] at h2; linarith
    have h4 : |m| < 2 ^ p + 1 := by
      have : ((|m| : ℤ) : ℚ) < ((2 ^ p + 1 : ℤ) : ℚ) := by rw [Int.cast_abs]; exact h3
      exact_mod_cast this
    omega
  rw [hfl]
  rcases lt_or_eq_of_le hmle with hlt | heq
  · exact fl_exact p m j hlt
  · -- |m| = 2^p : m·2^j = ±1·2^(p+j)
    have h1p : |(1:ℤ)| < 2 ^ p := by
      simp; exact_mod_cast Nat.one_lt_two_pow (by omega : p ≠ 0)
    rcases abs_eq (by positivity : (0:ℤ) ≤ 2 ^ p) |>.mp heq with h | h
    · have : (m:ℚ) * (2:ℚ) ^ j = ((1:ℤ):ℚ) * (2:ℚ) ^ ((p:ℤ) + j) := by
        rw [h, zpow_add₀ two, zpow_natCast]; push_cast; ring
      rw [this]; exact fl_exact p 1 _ h1p
    · have : (m:ℚ) * (2:ℚ) ^ j = ((-1:ℤ):ℚ) * (2:ℚ) ^ ((p:ℤ) + j) := by
        rw [h, zpow_add₀ two, zpow_natCast]; push_cast; ring
      rw [this]; exact fl_exact p (-1) _ (by simpa using h1p)

/-- `fl p` of an integer is an integer -/
theorem fl_int_isInt (p : ℕ) (z : ℤ) : ∃ w : ℤ, fl p (z:ℚ) = w := by
  by_cases hz : |z| < 2 ^ p
  · exact ⟨z, fl_int p z hz⟩
  have hz0 : (z:ℚ) ≠ 0 := by
    intro h
    have : z = 0 := by exact_mod_cast h
    subst this; simp at hz
  have two : (2:ℚ) ≠ 0 := by norm_num
  unfold fl
  rw [if_neg hz0]
  simp only
  rw [pow2_eq]
  set e := ilog2 (z:ℚ) with he
  -- 2^p ≤ |z| < 2^(e+1)  ⇒  p ≤ e
  have hhi : |(z:ℚ)| < (2:ℚ) ^ (e + 1) := (ilog2_spec _ hz0).2
  have hlo : (2:ℚ) ^ (p:ℤ) ≤ |(z:ℚ)| := by
    rw [zpow_natCast]
    have : (2:ℤ) ^ p ≤ |z| := not_lt.mp hz
    have : (((2:ℤ) ^ p : ℤ) : ℚ) ≤ ((|z| : ℤ) : ℚ) := by exact_mod_cast this
    rw [Int.cast_abs] at this; push_cast at this; exact this
  have hpe : (p:ℤ) < e + 1 :=
    (zpow_lt_zpow_iff_right₀ (by norm_num : (1:ℚ) < 2)).mp (lt_of_le_of_lt hlo hhi)
  obtain ⟨d, hd⟩ := Int.eq_ofNat_of_zero_le (show 0 ≤ e - ((p:ℤ) - 1) by omega)
  rw [hd, zpow_natCast]
  exact ⟨rne ((z:ℚ) / (2:ℚ) ^ d) * 2 ^ d, by push_cast; ring⟩

end Bufr.SF

namespace Bufr.Dump
open Bufr Bufr.SF Bufr.Printf Bufr.Scale

/-! ### the printed decimal of a decoded value -/

/-- the printed decimal is within half a unit of the last place of the value -/
theorem fmtFVal_near (k : ℕ) (q : ℚ) :
    ∃ z : ℤ, fmtFVal k q = (z:ℚ) / ((10 ^ k : ℕ) : ℚ) ∧ |(z:ℚ) - q * ((10 ^ k : ℕ) : ℚ)| ≤ 1 / 2 := by
  have hpos : (0:ℚ) < ((10 ^ k : ℕ) : ℚ) := by positivity
  have hnn : 0 ≤ rne (|q| * ((10 ^ k : ℕ) : ℚ)) :=
    rne_ge_of_int_le _ 0 (by simpa using mul_nonneg (abs_nonneg q) hpos.le)
  have hcast : ((rneNat (|q| * ((10 ^ k : ℕ) : ℚ)) : ℕ) : ℚ) = (rne (|q| * ((10 ^ k : ℕ) : ℚ)) : ℚ) := by
    unfold rneNat
    have : ((rne (|q| * ((10 ^ k : ℕ) : ℚ))).toNat : ℤ) = rne (|q| * ((10 ^ k : ℕ) : ℚ)) := Int.toNat_of_nonneg hnn
    exact_mod_cast this
  have herr := rne_err (|q| * ((10 ^ k : ℕ) : ℚ))
  unfold fmtFVal
  simp only [hcast]
  by_cases hq : q < 0
  · refine ⟨-rne (|q| * ((10 ^ k : ℕ) : ℚ)), by rw [if_pos hq]; push_cast; ring, ?_⟩
    rw [abs_of_neg hq] at herr ⊢
    have e1 : ((-rne (-q * ((10 ^ k : ℕ) : ℚ)) : ℤ) : ℚ) - q * ((10 ^ k : ℕ) : ℚ) =
      -((rne (-q * ((10 ^ k : ℕ) : ℚ)) : ℚ) - -q * ((10 ^ k : ℕ) : ℚ)) := by push_cast; ring
    rw [e1, abs_neg]
    exact herr
  · refine ⟨rne (|q| * ((10 ^ k : ℕ) : ℚ)), by rw [if_neg hq], ?_⟩
    rw [abs_of_nonneg (not_lt.mp hq)] at herr ⊢
    exact herr

/-- a value within less than half a unit of the last place of an integer multiple prints as it -/
theorem fmtFVal_of_near (k : ℕ) (q : ℚ) (N : ℤ) (h : |q * ((10 ^ k : ℕ) : ℚ) - N| < 1 / 2) :
    fmtFVal k q = (N:ℚ) / ((10 ^ k : ℕ) : ℚ) := by
  obtain ⟨z, hz, herr⟩ := fmtFVal_near k q
  have : |(z:ℚ) - (N:ℚ)| < 1 := by
    have := abs_sub_le (z:ℚ) (q * ((10 ^ k : ℕ) : ℚ)) (N:ℚ)
    linarith
  have h2 : |((z - N : ℤ) : ℚ)| < 1 := by push_cast; exact this
  have h3 : |z - N| < 1 := by exact_mod_cast h2
  have h4 := abs_lt.mp h3
  have : z = N := by omega
  rw [hz, this]

/-- `roundIEEE` in the normal range without overflow is `fl` -/
theorem roundIEEE_normal (q : ℚ) (hlo : q = 0 ∨ (1:ℚ) / 10 ^ 16 ≤ |q|) (hhi : |q| ≤ 10 ^ 30) :
    roundIEEE 53 (-1022) 1023 q = .fin (fl 53 q) := by
  unfold roundIEEE
  by_cases hq : q = 0
  · simp [hq, fl_zero]
  rw [if_neg hq]
  simp only
  have hlo' : (1:ℚ) / 10 ^ 16 ≤ |q| := hlo.resolve_left hq
  have habs : (if q < 0 then -q else q) = |q| := by
    split_ifs with h
    · exact (abs_of_neg h).symm
    · exact (abs_of_nonneg (not_lt.mp h)).symm
  rw [habs]
  have hmin : pow2 (-1022) ≤ (1:ℚ) / 10 ^ 16 := by
    rw [pow2_eq, show (-1022:ℤ) = -((1022:ℕ):ℤ) by norm_num, zpow_neg, zpow_natCast, ← one_div]
    rw [div_le_div_iff₀ (by positivity) (by positivity)]
    have h64 : (10:ℚ) ^ 16 ≤ 2 ^ 64 := by norm_num
    have h1022 : (2:ℚ) ^ 64 ≤ 2 ^ 1022 := pow_le_pow_right₀ (by norm_num) (by norm_num)
    rw [one_mul, one_mul]; exact le_trans h64 h1022
  rw [if_neg (not_lt.mpr (le_trans hmin hlo'))]
  have hb := fl53_abs_le q
  have hu : u53 ≤ 1 := by unfold u53; norm_num
  have hfl : |fl 53 q| ≤ 2 * 10 ^ 30 := by
    have : |q| * u53 ≤ |q| := by
      have := mul_le_mul_of_nonneg_left hu (abs_nonneg q); simpa using this
    linarith
  have hmax : (2:ℚ) * 10 ^ 30 < pow2 (1023 + 1) := by
    rw [pow2_eq, show (1023:ℤ) + 1 = ((1024:ℕ):ℤ) by norm_num, zpow_natCast]
    have h128 : (2:ℚ) * 10 ^ 30 < 2 ^ 128 := by norm_num
    have h1024 : (2:ℚ) ^ 128 ≤ 2 ^ 1024 := pow_le_pow_right₀ (by norm_num) (by norm_num)
    exact lt_of_lt_of_le h128 h1024
  have h1 : ¬ (pow2 (1023 + 1) ≤ fl 53 q ∨ fl 53 q ≤ -pow2 (1023 + 1)) := by
    have := abs_le.mp hfl
    rintro (h | h) <;> linarith
  rw [if_neg h1]

/-- integer powers of ten: `T10 s` for `s ≥ 0` is the natural power -/
theorem T10_toNat (s : ℤ) (hs : 0 ≤ s) : T10 s = ((10 ^ s.toNat : ℕ) : ℚ) := by
  obtain ⟨k, hk⟩ := Int.eq_ofNat_of_zero_le hs
  subst hk
  simp [T10, zpow_natCast]

/-- **the decimal text of a decoded value reads back as the same double** (both branches of
`bufr_print_scaled_double`: `%.{scale}f`, and `%.1f` for a negative scale) -/
theorem strtod_printScaled (e : Scale.Enc) (hv : e.Valid) (i : ℤ) (h0 : 0 ≤ i) (h1 : i < 2 ^ e.nbits - 1) :
    strtod (printScaled e.scale (cvtI64ToDval e i)) = .fin (cvtI64ToDval e i) := by
  have hN := N_bound e hv i h0 h1
  have hxeq := cvtI64ToDval_eq e hv i h0 h1
  rw [dP_eq_T e hv] at hxeq
  set x := cvtI64ToDval e i with hx
  set N : ℤ := i + e.ref with hNd
  unfold strtod printScaled
  by_cases hs : e.scale < 0
  · -- `%.1f` of an integer-valued double
    rw [if_pos hs, strtoFP_fmtF]
    obtain ⟨m, hm⟩ := Int.eq_ofNat_of_zero_le (show 0 ≤ -e.scale by omega)
    have hT : (N:ℚ) / T10 e.scale = ((N * 10 ^ m : ℤ) : ℚ) := by
      have : e.scale = -(m:ℤ) := by omega
      rw [this]; simp only [T10, zpow_neg, zpow_natCast]; push_cast; field_simp
    obtain ⟨w, hw⟩ := fl_int_isInt 53 (N * 10 ^ m)
    rw [hT, hw] at hxeq
    have hval : fmtFVal 1 x = x := by
      have := fmtFVal_of_near 1 x (w * 10) (by rw [hxeq]; push_cast; simp)
      rw [this, hxeq]; push_cast; field_simp
    rw [hval]
    have hidem : fl 53 x = x := by
      rw [hxeq, ← hw]; exact fl_idem 53 (by norm_num) _
    -- range
    have hm16 : m ≤ 16 := by have := hv.s1; omega
    have hbig : |(((N * 10 ^ m : ℤ)) : ℚ)| ≤ (2 ^ 32 + 2 ^ 30) * 10 ^ 16 := by
      push_cast; rw [abs_mul, abs_of_pos (by positivity : (0:ℚ) < 10 ^ m)]
      have : (10:ℚ) ^ m ≤ 10 ^ 16 := pow_le_pow_right₀ (by norm_num) hm16
      exact mul_le_mul hN this (by positivity) (by positivity)
    have hxb : |x| ≤ 10 ^ 30 := by
      have hb := fl53_abs_le (((N * 10 ^ m : ℤ)) : ℚ)
      rw [hw] at hb
      have hu : u53 ≤ 1 := by unfold u53; norm_num
      have : |(((N * 10 ^ m : ℤ)) : ℚ)| * u53 ≤ |(((N * 10 ^ m : ℤ)) : ℚ)| := by
        have := mul_le_mul_of_nonneg_left hu (abs_nonneg (((N * 10 ^ m : ℤ)) : ℚ)); simpa using this
      rw [hxeq]
      have : (2 ^ 32 + 2 ^ 30 : ℚ) * 10 ^ 16 * 2 ≤ 10 ^ 30 := by norm_num
      linarith
    have hxl : x = 0 ∨ (1:ℚ) / 10 ^ 16 ≤ |x| := by
      by_cases hw0 : w = 0
      · left; rw [hxeq, hw0]; simp
      · right
        rw [hxeq]
        have : (1:ℤ) ≤ |w| := Int.one_le_abs hw0
        have : (1:ℚ) ≤ |(w:ℚ)| := by
          have : ((1:ℤ):ℚ) ≤ ((|w| : ℤ) : ℚ) := by exact_mod_cast this
          rw [Int.cast_abs] at this; simpa using this
        have : (1:ℚ) / 10 ^ 16 ≤ 1 := by norm_num
        linarith
    rw [roundIEEE_normal x hxl hxb, hidem]
  · -- `%.{scale}f`
    rw [if_neg hs, strtoFP_fmtF]
    have hs0 : 0 ≤ e.scale := not_lt.mp hs
    have hg := decode_onGrid e hv i h0 h1
    have hnear : |x * ((10 ^ e.scale.toNat : ℕ) : ℚ) - N| < 1 / 2 := by
      have := hg.near
      rw [T10_toNat e.scale hs0] at this
      have h18 : (0:ℚ) < 1 / 2 ^ 18 := by positivity
      linarith
    rw [fmtFVal_of_near _ x N hnear, ← T10_toNat e.scale hs0]
    -- range of N / 10^s
    have hT1 : (1:ℚ) ≤ T10 e.scale := by
      rw [T10_toNat e.scale hs0]; exact_mod_cast Nat.one_le_pow _ _ (by norm_num)
    have hT2 : T10 e.scale ≤ 10 ^ 16 := by
      rw [T10_toNat e.scale hs0]
      have : e.scale.toNat ≤ 16 := by have := hv.s2; omega
      exact_mod_cast Nat.pow_le_pow_right (by norm_num) this
    have hTpos := T10_pos e.scale
    have hqb : |(N:ℚ) / T10 e.scale| ≤ 10 ^ 30 := by
      rw [abs_div, abs_of_pos hTpos, div_le_iff₀ hTpos]
      have : (2:ℚ) ^ 32 + 2 ^ 30 ≤ 10 ^ 30 * 1 := by norm_num
      have : (10:ℚ) ^ 30 * 1 ≤ 10 ^ 30 * T10 e.scale := by
        apply mul_le_mul_of_nonneg_left hT1 (by positivity)
      linarith
    have hql : (N:ℚ) / T10 e.scale = 0 ∨ (1:ℚ) / 10 ^ 16 ≤ |(N:ℚ) / T10 e.scale| := by
      by_cases hN0 : N = 0
      · left; rw [hN0]; simp
      · right
        rw [abs_div, abs_of_pos hTpos, div_le_div_iff₀ (by positivity) hTpos]
        have : (1:ℤ) ≤ |N| := Int.one_le_abs hN0
        have h1N : (1:ℚ) ≤ |(N:ℚ)| := by
          have : ((1:ℤ):ℚ) ≤ ((|N| : ℤ) : ℚ) := by exact_mod_cast this
          rw [Int.cast_abs] at this; simpa using this
        calc 1 * T10 e.scale ≤ 1 * 10 ^ 16 := by linarith
          _ ≤ |(N:ℚ)| * 10 ^ 16 := by apply mul_le_mul_of_nonneg_right h1N (by positivity)
    rw [roundIEEE_normal _ hql hqb, ← hxeq]

/-! ### binary -/

theorem binVal_foldl (ds : List Nat) (a : Nat) :
    ds.foldl (fun a c => 2 * a + (if c = 49 then 1 else 0)) a = a * 2 ^ ds.length + binVal ds := by
  induction ds generalizing a with
  | nil => simp [binVal]
  | cons d t ih =>
    simp only [List.foldl_cons, List.length_cons, binVal]
    rw [ih, ih (2 * 0 + _)]; ring

theorem binVal_append (a b : List Nat) : binVal (a ++ b) = binVal a * 2 ^ b.length + binVal b := by
  unfold binVal
  rw [List.foldl_append, binVal_foldl]; rfl

theorem binVal_zeros (k : Nat) : binVal (List.replicate k 48) = 0 := by
  induction k with
  | zero => rfl
  | succ k ih =>
    rw [List.replicate_succ, show (48 :: List.replicate k 48) = [48] ++ List.replicate k 48 from rfl,
      binVal_append, ih]; simp [binVal]

theorem binDigits_val (f v : Nat) (h : v < 2 ^ f) : binVal (binDigits f v) = v := by
  induction f generalizing v with
  | zero => simp at h; subst h; rfl
  | succ f ih =>
    unfold binDigits
    by_cases hv : v = 0
    · simp [hv, binVal]
    · rw [if_neg hv, binVal_append, ih (v / 2) (by rw [pow_succ] at h; omega)]
      simp only [List.length_cons, List.length_nil, binVal, List.foldl_cons, List.foldl_nil]
      have : (if 48 + v % 2 = 49 then 1 else 0) = v % 2 := by
        rcases Nat.mod_two_eq_zero_or_one v with h2 | h2 <;> simp [h2]
      rw [this]; omega

theorem binDigits_chars (f v : Nat) : ∀ c ∈ binDigits f v, c = 48 ∨ c = 49 := by
  induction f generalizing v with
  | zero => simp [binDigits]
  | succ f ih =>
    unfold binDigits
    split_ifs
    · simp
    · intro c hc
      rcases List.mem_append.mp hc with h | h
      · exact ih _ c h
      · simp at h; subst h
        rcases Nat.mod_two_eq_zero_or_one v with h2 | h2 <;> simp [h2]

theorem binDigits_length (f v : Nat) (k : Nat) (h : v < 2 ^ k) : (binDigits f v).length ≤ k := by
  induction f generalizing v k with
  | zero => simp [binDigits]
  | succ f ih =>
    unfold binDigits
    split_ifs with hv
    · simp
    · have hk : 1 ≤ k := by
        by_contra hc
        have : k = 0 := by omega
        subst this; simp at h; exact hv h
      have := ih (v / 2) (k - 1) (by
        have : 2 ^ k = 2 ^ (k - 1) * 2 := by rw [← pow_succ]; congr 1; omega
        rw [this] at h; omega)
      simp only [List.length_append, List.length_cons, List.length_nil]
      omega

theorem printBinary_chars (v : Int) (n : Int) (hv : 0 ≤ v) : ∀ c ∈ printBinary v n, c = 48 ∨ c = 49 := by
  unfold printBinary
  rw [if_neg (by omega)]
  intro c hc
  rcases List.mem_append.mp hc with h | h
  · left; exact List.eq_of_mem_replicate h
  · exact binDigits_chars _ _ c h

theorem strIsBinary_of_chars (s : List Nat) (h : ∀ c ∈ s, c = 48 ∨ c = 49) : strIsBinary s = true := by
  cases s with
  | nil => rfl
  | cons c t =>
    unfold strIsBinary
    have hc := h c (by simp)
    have ht : t.all (fun c => decide (c = 48) || decide (c = 49)) = true := by
      rw [List.all_eq_true]; intro x hx
      rcases h x (by simp [hx]) with h1 | h1 <;> simp [h1]
    rcases hc with h1 | h1 <;> simp [h1, ht]

/-- **flag tables**: the binary text reads back as the value -/
theorem binaryToInt_printBinary (v : Int) (n : Int) (h0 : 0 ≤ v) (h1 : v < 2 ^ 63) (hn : n ≤ 64) :
    binaryToInt (printBinary v n) = v := by
  have hch := printBinary_chars v n h0
  unfold binaryToInt
  rw [strIsBinary_of_chars _ hch]
  simp only [Bool.not_true, Bool.false_eq_true, if_false]
  have hv63 : v.toNat < 2 ^ 63 := by omega
  have hlen : (binDigits 64 v.toNat).length ≤ 63 := binDigits_length 64 _ 63 hv63
  have hval : binVal (printBinary v n) = v.toNat := by
    unfold printBinary
    rw [if_neg (by omega), binVal_append, binVal_zeros,
      binDigits_val 64 _ (lt_trans hv63 (by norm_num))]; simp
  have hl : (printBinary v n).length ≤ 64 := by
    unfold printBinary
    rw [if_neg (by omega)]
    simp only [List.length_append, List.length_replicate]
    omega
  rw [if_neg (by omega), hval]
  unfold castToI64
  rw [if_pos hv63]; omega

/-! ### the safe alphabet of value tokens -/

/-- characters of an unquoted value token: digits, `-`, `.`, `+`, `E`, and the letters of `MSNG` -/
def isTokChar (c : Nat) : Bool :=
  isDigit c || c = 45 || c = 46 || c = 43 || c = 69 || c = 77 || c = 83 || c = 78 || c = 71

theorem isTokChar_digit (c : Nat) (h : isDigit c = true) : isTokChar c = true := by
  unfold isTokChar; simp [h]

theorem decNat_tok (n : Nat) : ∀ c ∈ decNat n, isTokChar c = true :=
  fun c hc => isTokChar_digit c (decNat_digits n c hc)

theorem fmtInt_tok (v : Int) : ∀ c ∈ fmtInt v, isTokChar c = true := by
  unfold fmtInt
  split_ifs
  · intro c hc
    simp only [List.mem_cons] at hc
    rcases hc with rfl | hc
    · rfl
    · exact decNat_tok _ c hc
  · exact decNat_tok _

theorem zpad_tok (w : Nat) (ds : List Nat) (h : ∀ c ∈ ds, isTokChar c = true) : ∀ c ∈ zpad w ds, isTokChar c = true := by
  intro c hc
  unfold zpad at hc
  rcases List.mem_append.mp hc with h1 | h1
  · have := List.eq_of_mem_replicate h1; subst this; rfl
  · exact h c h1

theorem fmtF_tok (k : Nat) (q : ℚ) : ∀ c ∈ fmtF k q, isTokChar c = true := by
  unfold fmtF
  simp only
  intro c hc
  simp only [List.mem_append] at hc
  rcases hc with (h | h) | h
  · by_cases hq : q < 0
    · simp [hq] at h; subst h; rfl
    · simp [hq] at h
  · exact decNat_tok _ c h
  · by_cases hk : k = 0
    · simp [hk] at h
    · simp only [hk, if_false, List.mem_cons] at h
      rcases h with rfl | h
      · rfl
      · exact zpad_tok _ _ (decNat_tok _) c h

theorem fmtInt_ne_nil (v : Int) : fmtInt v ≠ [] := by
  unfold fmtInt; split_ifs <;> simp [decNat_ne_nil]

theorem fmtF_ne_nil (k : Nat) (q : ℚ) : fmtF k q ≠ [] := by
  unfold fmtF
  simp only
  intro h
  have := List.append_eq_nil_iff.mp h
  have := List.append_eq_nil_iff.mp this.1
  exact decNat_ne_nil _ this.2

/-! ### integers, quoted strings, associated fields -/

theorem B_MSNG : B "MSNG" = [77, 83, 78, 71] := by decide

/-- an INT32/INT64 element that is not a flag table reads back the integer `%d`/`%lld` printed -/
theorem intOfTok_fmtInt (v : Int) (h0 : -(2:Int) ^ 63 ≤ v) (h1 : v < 2 ^ 63) : intOfTok false (fmtInt v) = v := by
  have hat := atol_fmtInt v h0 h1
  unfold intOfTok
  obtain ⟨c, t, hct⟩ := List.exists_cons_of_ne_nil (fmtInt_ne_nil v)
  have hc : isDigit c = true ∨ c = 45 := by
    have : c ∈ fmtInt v := by rw [hct]; simp
    unfold fmtInt at this hct
    split_ifs at this hct with hv
    · right; simp at hct; exact hct.1.symm
    · left; exact decNat_digits _ c this
  have hne : fmtInt v ≠ B "MSNG" := by
    rw [hct, B_MSNG]; intro h; simp at h
    rcases hc with h2 | h2
    · unfold isDigit at h2; simp at h2; omega
    · omega
  rw [if_neg hne]
  simp only [Bool.false_and, Bool.false_eq_true, if_false]
  rw [hct] at hat ⊢
  have hc' : c ≠ 105 ∧ c ≠ 111 ∧ c ≠ 120 ∧ c ≠ 98 := by
    rcases hc with h2 | h2
    · unfold isDigit at h2; simp at h2; omega
    · omega
  split
  · next r heq => simp at heq; exact absurd heq.1 hc'.1
  · next r heq => simp at heq; exact absurd heq.1 hc'.2.1
  · next r heq => simp at heq; exact absurd heq.1 hc'.2.2.1
  · next r heq => simp at heq; exact absurd heq.1 hc'.2.2.2
  · exact hat

/-- a flag table reads back the binary digits -/
theorem intOfTok_printBinary (v : Int) (n : Int) (h0 : 0 ≤ v) (h1 : v < 2 ^ 63) (hn : n ≤ 64) :
    intOfTok true (printBinary v n) = v := by
  have hch := printBinary_chars v n h0
  unfold intOfTok
  have hne : printBinary v n ≠ B "MSNG" := by
    rw [B_MSNG]; intro h
    have := hch 77 (by rw [h]; simp)
    omega
  rw [if_neg hne, strIsBinary_of_chars _ hch]
  simp only [Bool.and_self, if_true]
  exact binaryToInt_printBinary v n h0 h1 hn

theorem cutLastQuote_append (s : List Nat) (hs : s ≠ []) : cutLastQuote (s ++ [34]) = s := by
  unfold cutLastQuote
  simp only [List.reverse_append, List.reverse_cons, List.reverse_nil, List.nil_append, List.singleton_append,
    List.dropWhile_cons, ne_eq, not_true_eq_false, decide_false, Bool.false_eq_true, if_false]
  have : (34 :: s.reverse).length ≥ 2 := by
    have := List.length_pos_of_ne_nil hs
    simp; omega
  rw [if_pos this]
  simp

/-! ### tokens and white space -/

theorem dropWhile_mem_stop (delims : List Nat) (c : Nat) (t : List Nat) (hc : c ∉ delims) :
    (c :: t).dropWhile (delims.contains ·) = c :: t := by
  simp [List.dropWhile_cons, hc]

theorem strtok_mid (delims : List Nat) (tok : List Nat) (d : Nat) (rest : List Nat) (hne : tok ≠ [])
    (ht : ∀ c ∈ tok, c ∉ delims) (hd : d ∈ delims) :
    strtok delims (tok ++ d :: rest) = some (tok, rest) := by
  obtain ⟨c, t, hct⟩ := List.exists_cons_of_ne_nil hne
  unfold strtok
  have h1 : (tok ++ d :: rest).dropWhile (delims.contains ·) = tok ++ d :: rest := by
    rw [hct]; exact dropWhile_mem_stop delims c _ (ht c (by rw [hct]; simp))
  simp only [h1]
  have h2 : (tok ++ d :: rest).isEmpty = false := by rw [hct]; rfl
  simp only [h2, Bool.false_eq_true, if_false]
  have h3 : (tok ++ d :: rest).takeWhile (fun c => !delims.contains c) = tok :=
    takeWhile_append_stop _ tok (d :: rest) (by intro x hx; simp [ht x hx]) (by intro x hx; simp at hx; subst hx; simp [hd])
  rw [h3]
  simp

theorem strtok_end (delims : List Nat) (tok : List Nat) (hne : tok ≠ [])
    (ht : ∀ c ∈ tok, c ∉ delims) : strtok delims tok = some (tok, []) := by
  obtain ⟨c, t, hct⟩ := List.exists_cons_of_ne_nil hne
  unfold strtok
  have h1 : tok.dropWhile (delims.contains ·) = tok := by
    rw [hct]; exact dropWhile_mem_stop delims c _ (ht c (by rw [hct]; simp))
  simp only [h1]
  have h2 : tok.isEmpty = false := by rw [hct]; rfl
  simp only [h2, Bool.false_eq_true, if_false]
  have h3 : tok.takeWhile (fun c => !delims.contains c) = tok :=
    takeWhile_all _ tok (by intro x hx; simp [ht x hx])
  rw [h3]
  simp

theorem strtok_nil (delims : List Nat) : strtok delims [] = none := by simp [strtok]

theorem strtok_skip (delims : List Nat) (pre s : List Nat) (h : ∀ c ∈ pre, c ∈ delims) :
    strtok delims (pre ++ s) = strtok delims s := by
  unfold strtok
  have : (pre ++ s).dropWhile (delims.contains ·) = s.dropWhile (delims.contains ·) := by
    induction pre with
    | nil => rfl
    | cons a t ih =>
      have ha : delims.contains a = true := by simp [h a (by simp)]
      simp only [List.cons_append, List.dropWhile_cons, ha, if_true]
      exact ih (fun c hc => h c (by simp [hc]))
  rw [this]

theorem rstrip_nonspace (a : List Nat) (c : Nat) (ws : List Nat) (hc : isSpace c = false)
    (hws : ∀ x ∈ ws, isSpace x = true) : rstrip (a ++ c :: ws) = a ++ [c] := by
  unfold rstrip
  have : (a ++ c :: ws).reverse = ws.reverse ++ c :: a.reverse := by simp
  rw [this, dropWhile_append_stop isSpace ws.reverse (c :: a.reverse)
    (fun x hx => hws x (List.mem_reverse.mp hx)) (by intro x hx; simp at hx; subst hx; exact hc)]
  simp

theorem rstrip_spaces (ws : List Nat) (hws : ∀ x ∈ ws, isSpace x = true) : rstrip ws = [] := by
  unfold rstrip
  have := dropWhile_append_stop isSpace ws.reverse [] (fun x hx => hws x (List.mem_reverse.mp hx)) (by simp)
  simp at this; simp [this]

/-! ### meta text -/

/-- the meta text the library writes between descriptor and value: `{…}` blocks, each followed
by any number of blanks -/
def renderMeta : List (List Nat × Nat) → List Nat
  | [] => []
  | (b, sp) :: r => 123 :: (b ++ 125 :: (List.replicate sp 32 ++ renderMeta r))

/-- a block may hold anything but `}` (and the bytes that end a line or a C string) -/
def BlockOK (b : List Nat) : Prop := ∀ c ∈ b, c ≠ 125 ∧ c ≠ 10 ∧ c ≠ 0

theorem skipMeta_block (f : Nat) (s b rest : List Nat) (h1 : s.dropWhile isSpace = 123 :: (b ++ 125 :: rest))
    (hb : ∀ c ∈ b, c ≠ 125) : skipMeta (f + 1) s = skipMeta f rest := by
  have h2 : (123 :: (b ++ 125 :: rest)).takeWhile (· ≠ 125) = 123 :: b := by
    have := takeWhile_append_stop (· ≠ 125) (123 :: b) (125 :: rest)
      (by intro x hx; simp at hx; rcases hx with rfl | hx
          · simp
          · simp [hb x hx])
      (by intro x hx; simp at hx; subst hx; simp)
    simpa using this
  simp only [skipMeta, h1, h2]
  have h3 : (123 :: b).length < (123 :: (b ++ 125 :: rest)).length := by simp
  rw [if_pos h3]
  congr 1
  simp [List.drop_append]

theorem skipMeta_stop (f : Nat) (s : List Nat) (h : ∀ c, (s.dropWhile isSpace).head? = some c → c ≠ 123) :
    skipMeta (f + 1) s = s := by
  simp only [skipMeta]
  split
  · next t heq => exact absurd rfl (h 123 (by rw [heq]; rfl))
  · rfl

theorem skipMeta_render (L : List (List Nat × Nat)) (hL : ∀ p ∈ L, BlockOK p.1) (u : List Nat)
    (hu : ∀ c, u.head? = some c → isSpace c = false ∧ c ≠ 123) (f : Nat) (hf : L.length < f) (sp0 : Nat) :
    ∃ sp, skipMeta f (List.replicate sp0 32 ++ (renderMeta L ++ u)) = List.replicate sp 32 ++ u := by
  have hsp : ∀ (k : Nat), ∀ x ∈ List.replicate k 32, isSpace x = true := by
    intro k x hx; have := List.eq_of_mem_replicate hx; subst this; rfl
  induction L generalizing f sp0 with
  | nil =>
    obtain ⟨f', rfl⟩ : ∃ f', f = f' + 1 := ⟨f - 1, by simp at hf; omega⟩
    refine ⟨sp0, ?_⟩
    simp only [renderMeta, List.nil_append]
    apply skipMeta_stop
    rw [dropWhile_append_stop isSpace _ u (hsp sp0) (fun x hx => (hu x hx).1)]
    intro c hc; exact (hu c hc).2
  | cons p r ih =>
    obtain ⟨b, sp⟩ := p
    obtain ⟨f', rfl⟩ : ∃ f', f = f' + 1 := ⟨f - 1, by simp at hf; omega⟩
    have hb : BlockOK b := hL (b, sp) (by simp)
    have h1 : (List.replicate sp0 32 ++ (renderMeta ((b, sp) :: r) ++ u)).dropWhile isSpace
        = 123 :: (b ++ 125 :: (List.replicate sp 32 ++ (renderMeta r ++ u))) := by
      rw [dropWhile_append_stop isSpace _ _ (hsp sp0) (by intro x hx; simp [renderMeta] at hx; subst hx; rfl)]
      simp [renderMeta]
    rw [skipMeta_block f' _ b _ h1 (fun c hc => (hb c hc).1)]
    exact ih (fun p hp => hL p (by simp [hp])) f' (by simp at hf; omega) sp

/-! ### one data line -/

theorem isTokChar_facts (c : Nat) (h : isTokChar c = true) :
    isSpace c = false ∧ c ∉ [32, 9, 10, 13, 61] ∧ c ≠ 34 ∧ c ≠ 40 ∧ c ≠ 123 ∧ c ≠ 0 ∧ c ∉ [32, 9, 10, 13, 40, 41, 58] := by
  unfold isTokChar isDigit at h
  unfold isSpace
  simp at h ⊢
  omega

theorem fmtD6_nat (d : Nat) : fmtD6 (d : Int) = zpad 6 (decNat d) := by
  unfold fmtD6; simp

theorem atoi_fmtD6 (d : Nat) (hd : d < 2 ^ 31) : atoi (fmtD6 (d : Int)) = d := by
  rw [fmtD6_nat]
  have hdig := zpad_digits 6 _ (decNat_digits d)
  have hne : zpad 6 (decNat d) ≠ [] := by
    unfold zpad; intro h
    exact decNat_ne_nil d (List.append_eq_nil_iff.mp h).2
  obtain ⟨c, t, hct⟩ := List.exists_cons_of_ne_nil hne
  unfold atoi
  rw [hct] at hdig ⊢
  rw [strtol_digits c t hdig, ← hct, digitsVal_zpad, digitsVal_decNat]
  have : ¬ ((d : Int) > 2 ^ 63 - 1) := by omega
  rw [if_neg this]
  exact wrapI32_of_range _ (by omega) (by exact_mod_cast hd)

/-- the descriptor field of a data line -/
theorem strtok_descriptor (d : Nat) (body : List Nat) :
    strtok [32, 9, 10, 13, 44, 61] (fmtD6 (d : Int) ++ 32 :: body) = some (fmtD6 (d : Int), body) := by
  apply strtok_mid
  · rw [fmtD6_nat]; unfold zpad; intro h
    exact decNat_ne_nil d (List.append_eq_nil_iff.mp h).2
  · intro c hc
    rw [fmtD6_nat] at hc
    have := zpad_digits 6 _ (decNat_digits d) c hc
    unfold isDigit at this; simp at this ⊢; omega
  · simp

/-- the text of the associated field of a line, if any -/
def afText : Option (Nat × Nat) → List Nat
  | none => []
  | some (bits, w) => printAf bits w

/-- unquoted value token: not empty, made of digits, sign, point, exponent letter or `MSNG` -/
def CleanTok (V : List Nat) : Prop := V ≠ [] ∧ ∀ c ∈ V, isTokChar c = true

theorem B_lit1 : B "(0x" = [40, 48, 120] := by decide
theorem B_lit2 : B ":" = [58] := by decide
theorem B_lit3 : B "bits)" = [98, 105, 116, 115, 41] := by decide

theorem hexNat_chars (b : Nat) : ∀ c ∈ hexNat b, c ∉ [32, 9, 10, 13, 40, 41, 58] := by
  intro c hc
  unfold hexNat at hc
  rw [hexRev_eq] at hc
  simp only [List.mem_reverse, List.mem_map] at hc
  obtain ⟨d, hd, rfl⟩ := hc
  have := hexRevV_lt _ _ d hd
  unfold hexDig
  split_ifs <;> simp <;> omega

theorem hexNat_ne_nil (b : Nat) : hexNat b ≠ [] := by
  unfold hexNat; simp [hexRev]

/-- after the meta text: the associated field and what follows it (`w` = the value text) -/
theorem af_parse (sp : Nat) (bits wd : Nat) (hb : bits < 2 ^ 64) (w : List Nat)
    (hw : ∀ c, w.head? = some c → isSpace c = false) :
    (match strtok [32, 9, 10, 13, 40, 41, 58] (List.replicate sp 32 ++ (printAf bits wd ++ w)) with
     | none => ((some none : Option (Option Nat)), ([] : List Nat))
     | some (t, rest) =>
       let r2 := rest.dropWhile (· ≠ 41)
       let r3 := match r2 with | 41 :: r => r | _ => r2
       (some (scanHex t), r3.dropWhile isSpace)) = (some (some bits), w) := by
  have hskip : strtok [32, 9, 10, 13, 40, 41, 58] (List.replicate sp 32 ++ (printAf bits wd ++ w)) =
      strtok [32, 9, 10, 13, 40, 41, 58] (48 :: 120 :: hexNat bits ++ 58 :: (decNat wd ++ B "bits)" ++ w)) := by
    unfold printAf
    rw [B_lit1, B_lit2]
    have : List.replicate sp 32 ++ ([40, 48, 120] ++ hexNat bits ++ [58] ++ decNat wd ++ B "bits)" ++ w) =
        (List.replicate sp 32 ++ [40]) ++ (48 :: 120 :: hexNat bits ++ 58 :: (decNat wd ++ B "bits)" ++ w)) := by simp
    rw [this, strtok_skip]
    intro c hc
    rcases List.mem_append.mp hc with h | h
    · have := List.eq_of_mem_replicate h; subst this; simp
    · simp at h; subst h; simp
  rw [hskip, strtok_mid _ (48 :: 120 :: hexNat bits) 58 _ (by simp)
    (by intro c hc; simp only [List.mem_cons] at hc
        rcases hc with rfl | rfl | hc
        · simp
        · simp
        · exact hexNat_chars bits c hc) (by simp)]
  simp only [scanHex_hexNat bits hb]
  have hd1 : (decNat wd ++ B "bits)" ++ w).dropWhile (· ≠ 41) = 41 :: w := by
    rw [B_lit3]
    have : decNat wd ++ [98, 105, 116, 115, 41] ++ w = (decNat wd ++ [98, 105, 116, 115]) ++ (41 :: w) := by simp
    rw [this]
    apply dropWhile_append_stop
    · intro x hx
      rcases List.mem_append.mp hx with h | h
      · have := decNat_digits wd x h; unfold isDigit at this; simp at this ⊢; omega
      · simp at h; rcases h with rfl | rfl | rfl | rfl <;> simp
    · intro x hx; simp at hx; subst hx; simp
  simp only [hd1]
  congr 1
  cases w with
  | nil => rfl
  | cons c t => simp [List.dropWhile_cons, hw c rfl]

/-- the associated-field step of `parseLine`: `p1` is the text after the meta blocks, `p2` the same
without leading blanks -/
def afStep (p1 p2 : List Nat) : Option (Option Nat) × List Nat :=
  match p2 with
  | 40 :: _ =>
    (match strtok [32, 9, 10, 13, 40, 41, 58] p1 with
     | none => (some none, [])
     | some (t, rest) =>
       let r2 := rest.dropWhile (· ≠ 41)
       let r3 := match r2 with | 41 :: r => r | _ => r2
       (some (scanHex t), r3.dropWhile isSpace))
  | _ => (none, p2)

/-- the value step of `parseLine` -/
def valStep (icode : Int) (af : Option (Option Nat)) (p3 : List Nat) : Option Rec :=
  match p3 with
  | 34 :: q =>
    (match strtok [10, 13] q with
     | none => some { icode := icode, af := af, tok := none, quoted := true }
     | some (t, _) => some { icode := icode, af := af, tok := some (cutLastQuote t), quoted := true })
  | _ => some { icode := icode, af := af, tok := (strtok [32, 9, 10, 13, 61] p3).map (·.1) }

/-- `parseLine` after the descriptor: what it does with the rest of the line -/
theorem parseLine_desc (d : Nat) (hd : d < 2 ^ 31) (body : List Nat) :
    parseLine (fmtD6 (d : Int) ++ 32 :: body) =
      (let p1 := skipMeta ((fmtD6 (d : Int) ++ 32 :: body).length + 1) (rstrip body)
       let afp := afStep p1 (p1.dropWhile isSpace)
       valStep d afp.1 afp.2) := by
  unfold parseLine
  rw [strtok_descriptor]
  simp only [atoi_fmtD6 d hd]
  rfl

theorem afStep_none (p1 p2 : List Nat) (h : ∀ t, p2 ≠ 40 :: t) : afStep p1 p2 = (none, p2) := by
  unfold afStep
  split
  · next t => exact absurd rfl (h t)
  · rfl

theorem printAf_cons (bits wd : Nat) :
    printAf bits wd = 40 :: (48 :: 120 :: (hexNat bits ++ (58 :: (decNat wd ++ B "bits)")))) := by
  simp [printAf, B_lit1, B_lit2]

theorem afStep_af (sp bits wd : Nat) (hb : bits < 2 ^ 64) (w : List Nat)
    (hw : ∀ c, w.head? = some c → isSpace c = false) :
    afStep (List.replicate sp 32 ++ (printAf bits wd ++ w)) (printAf bits wd ++ w) = (some (some bits), w) := by
  have := af_parse sp bits wd hb w hw
  unfold afStep
  rw [printAf_cons] at this ⊢
  simpa using this

theorem valStep_plain (icode : Int) (af : Option (Option Nat)) (V : List Nat) (hne : V ≠ [])
    (hV : ∀ c ∈ V, isTokChar c = true) :
    valStep icode af V = some { icode := icode, af := af, tok := some V, quoted := false } := by
  obtain ⟨cv, tv, hVh⟩ := List.exists_cons_of_ne_nil hne
  have hcv := isTokChar_facts cv (hV cv (by rw [hVh]; simp))
  have htok : strtok [32, 9, 10, 13, 61] V = some (V, []) :=
    strtok_end _ V hne (fun c hc => (isTokChar_facts c (hV c hc)).2.1)
  unfold valStep
  rw [hVh]
  split
  · next q heq => simp at heq; exact absurd heq.1 hcv.2.2.1
  · rw [← hVh, htok]; rfl

theorem valStep_quoted (icode : Int) (af : Option (Option Nat)) (str : List Nat) (hne : str ≠ [])
    (hs : ∀ c ∈ str, c ≠ 10 ∧ c ≠ 13) :
    valStep icode af (34 :: (str ++ [34])) = some { icode := icode, af := af, tok := some str, quoted := true } := by
  have htok : strtok [10, 13] (str ++ [34]) = some (str ++ [34], []) :=
    strtok_end _ _ (by simp) (by
      intro c hc
      rcases List.mem_append.mp hc with h | h
      · have := hs c h; simp; omega
      · simp at h; subst h; simp)
  simp only [valStep, htok, cutLastQuote_append str hne]

theorem valStep_nil (icode : Int) (af : Option (Option Nat)) :
    valStep icode af [] = some { icode := icode, af := af, tok := none } := by
  simp [valStep, strtok_nil]

theorem renderMeta_length (L : List (List Nat × Nat)) : L.length ≤ (renderMeta L).length := by
  induction L with
  | nil => simp
  | cons p r ih => obtain ⟨b, sp⟩ := p; simp [renderMeta]; omega

theorem dropWhile_append_ne_nil {α} (p : α → Bool) (a b : List α) (h : a.dropWhile p ≠ []) :
    (a ++ b).dropWhile p = a.dropWhile p ++ b := by
  induction a with
  | nil => simp at h
  | cons x t ih =>
    simp only [List.cons_append, List.dropWhile_cons] at h ⊢
    split_ifs with hx
    · rw [if_pos hx] at h; exact ih h
    · rfl

theorem rstrip_append (x y : List Nat) (h : rstrip y ≠ []) : rstrip (x ++ y) = x ++ rstrip y := by
  unfold rstrip at h ⊢
  have h' : y.reverse.dropWhile isSpace ≠ [] := by
    intro hh; rw [hh] at h; simp at h
  rw [List.reverse_append, dropWhile_append_ne_nil isSpace _ _ h']
  simp

theorem renderMeta_ne_nil (p : List Nat × Nat) (r : List (List Nat × Nat)) : renderMeta (p :: r) ≠ [] := by
  obtain ⟨b, sp⟩ := p; simp [renderMeta]

/-- trailing white space after the meta text of a line without value: the last block's blanks go -/
theorem rstrip_render (L : List (List Nat × Nat)) (hL : ∀ p ∈ L, BlockOK p.1) :
    ∃ L', rstrip (renderMeta L ++ [10]) = renderMeta L' ∧ (∀ p ∈ L', BlockOK p.1) ∧ L'.length = L.length := by
  induction L with
  | nil =>
    refine ⟨[], ?_, by simp, rfl⟩
    exact rstrip_spaces [10] (by intro x hx; simp at hx; subst hx; rfl)
  | cons p r ih =>
    obtain ⟨b, sp⟩ := p
    cases r with
    | nil =>
      refine ⟨[(b, 0)], ?_, by intro p hp; simp at hp; subst hp; exact hL (b, sp) (by simp), rfl⟩
      have : renderMeta [(b, sp)] ++ [10] = (123 :: b) ++ 125 :: (List.replicate sp 32 ++ [10]) := by
        simp [renderMeta]
      rw [this, rstrip_nonspace (123 :: b) 125 _ rfl
        (by intro x hx; rcases List.mem_append.mp hx with h | h
            · have := List.eq_of_mem_replicate h; subst this; rfl
            · simp at h; subst h; rfl)]
      simp [renderMeta]
    | cons q r' =>
      obtain ⟨L', h1, h2, h3⟩ := ih (fun p hp => hL p (by simp [hp]))
      have hne : rstrip (renderMeta (q :: r') ++ [10]) ≠ [] := by
        rw [h1]
        cases L' with
        | nil => simp at h3
        | cons p' t' => exact renderMeta_ne_nil p' t'
      refine ⟨(b, sp) :: L', ?_, ?_, by simp [h3]⟩
      · have : renderMeta ((b, sp) :: q :: r') ++ [10] =
            (123 :: (b ++ 125 :: List.replicate sp 32)) ++ (renderMeta (q :: r') ++ [10]) := by
          simp [renderMeta]
        rw [this, rstrip_append _ _ hne, h1]
        simp [renderMeta]
      · intro p hp
        simp only [List.mem_cons] at hp
        rcases hp with rfl | hp
        · exact hL (b, sp) (by simp)
        · exact h2 p hp

/-- a line without value: descriptor, optional meta text, nothing else (also the line of a
SKIPPED node, which has no meta text) -/
theorem parseLine_novalue (d : Nat) (hd : d < 2 ^ 31) (L : List (List Nat × Nat)) (hL : ∀ p ∈ L, BlockOK p.1) :
    parseLine (fmtD6 (d : Int) ++ 32 :: (renderMeta L ++ [10])) = some { icode := (d : Int) } := by
  rw [parseLine_desc d hd]
  obtain ⟨L', h1, h2, h3⟩ := rstrip_render L hL
  have hfuel : L'.length < (fmtD6 (d : Int) ++ 32 :: (renderMeta L ++ [10])).length + 1 := by
    have := renderMeta_length L
    simp only [List.length_append, List.length_cons]; omega
  obtain ⟨sp, hsk⟩ := skipMeta_render L' h2 [] (by simp) _ hfuel 0
  simp only [List.replicate_zero, List.nil_append, List.append_nil] at hsk
  simp only [h1, hsk]
  have : (List.replicate sp 32).dropWhile isSpace = [] := by
    have := dropWhile_append_stop isSpace (List.replicate sp 32) []
      (by intro x hx; have := List.eq_of_mem_replicate hx; subst this; rfl) (by simp)
    simpa using this
  rw [this, afStep_none _ [] (by simp), valStep_nil]

/-- the part of a line after the descriptor when there is a value: meta text, associated field,
value text `w` (which ends in a character that is not white space) -/
theorem rstrip_value (pre w : List Nat) (c : Nat) (hc : isSpace c = false) :
    rstrip (pre ++ (w ++ [c]) ++ [10]) = pre ++ (w ++ [c]) := by
  have : pre ++ (w ++ [c]) ++ [10] = (pre ++ w) ++ c :: [10] := by simp
  rw [this, rstrip_nonspace _ c [10] hc (by intro x hx; simp at hx; subst hx; rfl)]
  simp

theorem afText_head (a : Option (Nat × Nat)) (w : List Nat) (c : Nat) (h : (afText a ++ w).head? = some c)
    (hw : ∀ c, w.head? = some c → isSpace c = false ∧ c ≠ 123) : isSpace c = false ∧ c ≠ 123 := by
  cases a with
  | none => exact hw c (by simpa [afText] using h)
  | some p =>
    obtain ⟨bits, wd⟩ := p
    simp only [afText, printAf, B_lit1] at h
    simp at h; subst h; exact ⟨rfl, by decide⟩

/-- the text after the descriptor, for a line whose value text is `V` (first character not white
space and not `{`, last character not white space) -/
theorem afp_of_line (d : Nat) (L : List (List Nat × Nat)) (hL : ∀ p ∈ L, BlockOK p.1)
    (a : Option (Nat × Nat)) (ha : ∀ p, a = some p → p.1 < 2 ^ 64) (V0 : List Nat) (cf cl : Nat)
    (V : List Nat) (hVf : ∃ t, V = cf :: t) (hVl : V = V0 ++ [cl])
    (hcf : isSpace cf = false ∧ cf ≠ 123 ∧ cf ≠ 40) (hcl : isSpace cl = false) :
    (let p1 := skipMeta ((fmtD6 (d : Int) ++ 32 :: (renderMeta L ++ (afText a ++ V) ++ [10])).length + 1)
        (rstrip (renderMeta L ++ (afText a ++ V) ++ [10]))
     afStep p1 (p1.dropWhile isSpace)) = (a.map (fun p => some p.1), V) := by
  obtain ⟨tv, hVh⟩ := hVf
  have hrs : rstrip (renderMeta L ++ (afText a ++ V) ++ [10]) = renderMeta L ++ (afText a ++ V) := by
    have : afText a ++ V = (afText a ++ V0) ++ [cl] := by rw [hVl]; simp
    rw [this]; exact rstrip_value _ _ cl hcl
  have hVhead : ∀ c, V.head? = some c → isSpace c = false ∧ c ≠ 123 := by
    intro c hc; rw [hVh] at hc; simp at hc; subst hc; exact ⟨hcf.1, hcf.2.1⟩
  have hfuel : L.length < (fmtD6 (d : Int) ++ 32 :: (renderMeta L ++ (afText a ++ V) ++ [10])).length + 1 := by
    have := renderMeta_length L
    simp only [List.length_append, List.length_cons]; omega
  obtain ⟨sp, hsk⟩ := skipMeta_render L hL (afText a ++ V) (fun c hc => afText_head a V c hc hVhead) _ hfuel 0
  simp only [List.replicate_zero, List.nil_append] at hsk
  simp only [hrs, hsk]
  have hsp : ∀ x ∈ List.replicate sp 32, isSpace x = true := by
    intro x hx; have := List.eq_of_mem_replicate hx; subst this; rfl
  have hp2 : (List.replicate sp 32 ++ (afText a ++ V)).dropWhile isSpace = afText a ++ V :=
    dropWhile_append_stop isSpace _ _ hsp (fun x hx => (afText_head a V x hx hVhead).1)
  rw [hp2]
  cases a with
  | none =>
    simp only [afText, List.nil_append, Option.map_none]
    exact afStep_none _ V (by intro t ht; rw [hVh] at ht; simp at ht; exact hcf.2.2 ht.1)
  | some p =>
    obtain ⟨bits, wd⟩ := p
    simp only [afText, Option.map_some]
    exact afStep_af sp bits wd (ha (bits, wd) rfl) V (fun c hc => (hVhead c hc).1)

/-- **a line with an unquoted value** parses to descriptor, associated field and the token -/
theorem parseLine_value (d : Nat) (hd : d < 2 ^ 31) (L : List (List Nat × Nat)) (hL : ∀ p ∈ L, BlockOK p.1)
    (a : Option (Nat × Nat)) (ha : ∀ p, a = some p → p.1 < 2 ^ 64) (V : List Nat) (hV : CleanTok V) :
    parseLine (fmtD6 (d : Int) ++ 32 :: (renderMeta L ++ (afText a ++ V) ++ [10])) =
      some { icode := (d : Int), af := a.map (fun p => some p.1), tok := some V, quoted := false } := by
  rw [parseLine_desc d hd]
  obtain ⟨hVne, hVc⟩ := hV
  obtain ⟨cv, tv, hVh⟩ := List.exists_cons_of_ne_nil hVne
  have hcv := isTokChar_facts cv (hVc cv (by rw [hVh]; simp))
  have hcl := (isTokChar_facts (V.getLast hVne) (hVc _ (List.getLast_mem hVne))).1
  have := afp_of_line d L hL a ha V.dropLast cv (V.getLast hVne) V ⟨tv, hVh⟩
    (List.dropLast_append_getLast hVne).symm ⟨hcv.1, hcv.2.2.2.2.1, hcv.2.2.2.1⟩ hcl
  simp only at this ⊢
  rw [this]
  exact valStep_plain _ _ V hVne hVc

/-- **a line with a quoted string**: blanks, quotes, braces, parentheses inside the string are kept -/
theorem parseLine_quoted (d : Nat) (hd : d < 2 ^ 31) (L : List (List Nat × Nat)) (hL : ∀ p ∈ L, BlockOK p.1)
    (a : Option (Nat × Nat)) (ha : ∀ p, a = some p → p.1 < 2 ^ 64) (str : List Nat) (hne : str ≠ [])
    (hs : ∀ c ∈ str, c ≠ 10 ∧ c ≠ 13) :
    parseLine (fmtD6 (d : Int) ++ 32 :: (renderMeta L ++ (afText a ++ (34 :: (str ++ [34]))) ++ [10])) =
      some { icode := (d : Int), af := a.map (fun p => some p.1), tok := some str, quoted := true } := by
  rw [parseLine_desc d hd]
  have := afp_of_line d L hL a ha (34 :: str) 34 34 (34 :: (str ++ [34])) ⟨_, rfl⟩ (by simp)
    ⟨rfl, by decide, by decide⟩ rfl
  simp only at this ⊢
  rw [this]
  exact valStep_quoted _ _ str hne hs

/-! ### reading lines -/

theorem fgetsAux_line (f : Nat) (acc body s : List Nat) (hb : ∀ c ∈ body, c ≠ 10) (hf : body.length < f) :
    fgetsAux f acc (body ++ 10 :: s) = (acc.reverse ++ body ++ [10], s) := by
  induction body generalizing f acc with
  | nil =>
    obtain ⟨f', rfl⟩ : ∃ f', f = f' + 1 := ⟨f - 1, by simp at hf; omega⟩
    simp [fgetsAux]
  | cons c t ih =>
    obtain ⟨f', rfl⟩ : ∃ f', f = f' + 1 := ⟨f - 1, by simp at hf; omega⟩
    have hc : c ≠ 10 := (hb c (by simp))
    simp only [List.cons_append, fgetsAux, hc, if_false]
    rw [ih f' (c :: acc) (fun x hx => hb x (by simp [hx])) (by simp at hf; omega)]
    simp

/-- `fgets` returns a whole line (terminated by a line feed, at most 2047 characters) -/
theorem fgets_line (body s : List Nat) (hb : ∀ c ∈ body, c ≠ 10) (hlen : body.length + 1 ≤ 2047) :
    fgets (body ++ 10 :: s) = some (body ++ [10], s) := by
  unfold fgets
  have : (body ++ 10 :: s).isEmpty = false := by cases body <;> rfl
  rw [this]
  simp only [Bool.false_eq_true, if_false]
  rw [fgetsAux_line 2047 [] body s hb (by omega)]
  simp

theorem cstr_of_no_nul (l : List Nat) (h : ∀ c ∈ l, c ≠ 0) : cstr l = l := by
  unfold cstr
  exact takeWhile_all _ l (by intro x hx; simp [h x hx])

theorem startsWith_cons_ne (a b : Nat) (p s : List Nat) (h : a ≠ b) : startsWith (a :: p) (b :: s) = false := by
  unfold startsWith
  simp only [List.length_cons, List.take_succ_cons]
  simp [h.symm]

/-! ### the loader on the lines of printed subsets -/

/-- the associated field a printed line carries -/
def afOf (n : Node) : Option (Option Nat) := if hasAf n then some (some n.afBits) else none

/-- what the line printed for a node says -/
def recOf (trim : Bool) (n : Node) : Rec :=
  if n.flags.skipped || !n.val.isSome then { icode := n.desc }
  else match n.val with
    | .str bs => { icode := n.desc, af := afOf n, tok := some (cstr bs), quoted := true }
    | _ => { icode := n.desc, af := afOf n, tok := some (printDscptrValue trim n), quoted := false }

/-- the placeholders of a replication that occurred zero times are written as comments -/
def isComment (n : Node) : Bool := n.flags.skipped && n.flags.ignored && !n.flags.expanded

/-- the printed line of a node is one the reader holds whole, and it parses to `recOf` -/
structure LineOK (trim : Bool) (mt : List Nat) (n : Node) : Prop where
  body : ∃ b, printNode trim mt n = b ++ [10] ∧ (∀ c ∈ b, c ≠ 10 ∧ c ≠ 0) ∧ b.length + 1 ≤ 2047
  headC : isComment n = true → ∃ t, printNode trim mt n = 35 :: t
  headD : isComment n = false → ∃ c t, printNode trim mt n = c :: t ∧ isDigit c = true
  parse : isComment n = false → parseLine (printNode trim mt n) = some (recOf trim n)

/-- the loader's walk over the nodes of one printed subset, text left out: every line that is not
a comment is handed to `loadLine` as the record `recOf` -/
def walk (T : Tables) (edition fuel : Nat) (trim : Bool) : LdSt → List Node → Option LdSt
  | st, [] => some st
  | st, n :: ns =>
    if isComment n then walk T edition fuel trim st ns
    else match loadLine T edition fuel st (recOf trim n) with
      | .next st' => walk T edition fuel trim st' ns
      | _ => none

theorem startsWith_head_ne (p s : List Nat) (a b : Nat) (hp : p.head? = some a) (hs : s.head? = some b) (h : a ≠ b) :
    startsWith p s = false := by
  cases p with
  | nil => simp at hp
  | cons x p' =>
    cases s with
    | nil => simp at hs
    | cons y s' =>
      simp at hp hs; subst hp; subst hs
      exact startsWith_cons_ne _ _ _ _ h

theorem startsWith_self_append (p t : List Nat) : startsWith p (p ++ t) = true := by
  unfold startsWith; simp

theorem B_be : B "BUFR_EDITION=" = [66, 85, 70, 82, 95, 69, 68, 73, 84, 73, 79, 78, 61] := by decide
theorem B_ds : B "DATASUBSET" = [68, 65, 84, 65, 83, 85, 66, 83, 69, 84] := by decide

/-- one step of `bufr_load_datasubsets` on a line that is neither a comment nor a key line -/
theorem loadSubsets_data (T : Tables) (ed fuel : Nat) (bsq : List Node) (f : Nat) (cur : Option LdSt)
    (acc : List (List Node)) (inv : Bool) (b s : List Nat) (c : Nat) (t : List Nat)
    (hb : ∀ x ∈ b, x ≠ 10 ∧ x ≠ 0) (hlen : b.length + 1 ≤ 2047) (hct : b ++ [10] = c :: t)
    (hc : c ≠ 35 ∧ c ≠ 42 ∧ c ≠ 66 ∧ c ≠ 68) :
    loadSubsets T ed fuel bsq (f + 1) cur acc inv (b ++ 10 :: s) =
      (match parseLine (b ++ [10]) with
       | none =>
         loadSubsets T ed fuel bsq f (cur.map fun st => { st with ddo := some (st.ddo.getD { enforce := .strict }) }) acc inv s
       | some r =>
         match cur with
         | none => { status := 0, subsets := acc.reverse, invalid := inv, rest := s }
         | some st =>
           match loadLine T ed fuel st r with
           | .next st' => loadSubsets T ed fuel bsq f (some st') acc inv s
           | .stop st' =>
             { status := 1, subsets := (finishSubset T fuel st' :: acc).reverse, invalid := inv || st'.invalid, rest := s }
           | .fail => { status := -1, subsets := acc.reverse, invalid := inv || st.invalid, rest := s }) := by
  rw [loadSubsets, fgets_line b s (fun x hx => (hb x hx).1) hlen]
  have hcs : cstr (b ++ [10]) = b ++ [10] := cstr_of_no_nul _ (by
    intro x hx; rcases List.mem_append.mp hx with h | h
    · exact (hb x h).2
    · simp at h; subst h; decide)
  simp only [hcs]
  have hh : (b ++ [10]).head? = some c := by rw [hct]; rfl
  have h1 : ¬ ((b ++ [10]).head? = some 35 ∨ (b ++ [10]).head? = some 42) := by
    rw [hh]; simp; exact ⟨hc.1, hc.2.1⟩
  rw [if_neg h1]
  have h2 : startsWith (B "BUFR_EDITION=") (b ++ [10]) = false :=
    startsWith_head_ne _ _ 66 c (by rw [B_be]; rfl) hh (Ne.symm hc.2.2.1)
  have h3 : startsWith (B "DATASUBSET") (b ++ [10]) = false :=
    startsWith_head_ne _ _ 68 c (by rw [B_ds]; rfl) hh (Ne.symm hc.2.2.2)
  simp only [h2, h3, Bool.false_eq_true, if_false]
  cases parseLine (b ++ [10]) with
  | none => rfl
  | some r =>
    cases cur with
    | none => rfl
    | some st =>
      simp only
      cases loadLine T ed fuel st r <;> rfl

/-- a comment line is skipped -/
theorem loadSubsets_comment (T : Tables) (ed fuel : Nat) (bsq : List Node) (f : Nat) (cur : Option LdSt)
    (acc : List (List Node)) (inv : Bool) (b s t : List Nat)
    (hb : ∀ x ∈ b, x ≠ 10 ∧ x ≠ 0) (hlen : b.length + 1 ≤ 2047) (hct : b ++ [10] = 35 :: t) :
    loadSubsets T ed fuel bsq (f + 1) cur acc inv (b ++ 10 :: s) = loadSubsets T ed fuel bsq f cur acc inv s := by
  rw [loadSubsets, fgets_line b s (fun x hx => (hb x hx).1) hlen]
  have hcs : cstr (b ++ [10]) = b ++ [10] := cstr_of_no_nul _ (by
    intro x hx; rcases List.mem_append.mp hx with h | h
    · exact (hb x h).2
    · simp at h; subst h; decide)
  simp only [hcs]
  have hh : (b ++ [10]).head? = some 35 := by rw [hct]; rfl
  rw [if_pos (Or.inl hh)]

/-- the node lines of one subset -/
theorem loadSubsets_nodes (T : Tables) (ed fuel : Nat) (bsq : List Node) (trim : Bool)
    (acc : List (List Node)) (inv : Bool) (nodes : List (Node × List Nat))
    (hok : ∀ p ∈ nodes, LineOK trim p.2 p.1) (st st' : LdSt)
    (hw : walk T ed fuel trim st (nodes.map (·.1)) = some st') (f : Nat) (s : List Nat) :
    loadSubsets T ed fuel bsq (f + nodes.length) (some st) acc inv
        (nodes.flatMap (fun p => printNode trim p.2 p.1) ++ s) =
      loadSubsets T ed fuel bsq f (some st') acc inv s := by
  induction nodes generalizing st with
  | nil => simp [walk] at hw; subst hw; simp
  | cons p r ih =>
    obtain ⟨n, mt⟩ := p
    have hl := hok (n, mt) (by simp)
    obtain ⟨b, hb1, hb2, hb3⟩ := hl.body
    simp only [List.flatMap_cons, List.length_cons, List.map_cons, walk] at hw ⊢
    have hfe : f + (r.length + 1) = (f + r.length) + 1 := by omega
    rw [hfe, hb1]
    have hassoc : b ++ [10] ++ List.flatMap (fun p => printNode trim p.2 p.1) r ++ s =
        b ++ 10 :: (List.flatMap (fun p => printNode trim p.2 p.1) r ++ s) := by simp
    rw [hassoc]
    by_cases hcm : isComment n = true
    · rw [if_pos hcm] at hw
      obtain ⟨t, ht⟩ := hl.headC hcm
      rw [loadSubsets_comment T ed fuel bsq _ _ acc inv b _ t hb2 hb3 (by rw [← hb1]; exact ht)]
      exact ih (fun p hp => hok p (by simp [hp])) st hw
    · have hcm' : isComment n = false := by simpa using hcm
      rw [if_neg hcm] at hw
      obtain ⟨c, t, hct, hcd⟩ := hl.headD hcm'
      have hc : c ≠ 35 ∧ c ≠ 42 ∧ c ≠ 66 ∧ c ≠ 68 := by
        unfold isDigit at hcd; simp at hcd; omega
      rw [loadSubsets_data T ed fuel bsq _ (some st) acc inv b _ c t hb2 hb3 (by rw [← hb1]; exact hct) hc]
      rw [← hb1, hl.parse hcm']
      simp only
      cases hll : loadLine T ed fuel st (recOf trim n) with
      | next st1 =>
        rw [hll] at hw
        simp only at hw ⊢
        exact ih (fun p hp => hok p (by simp [hp])) st1 hw
      | stop st1 => rw [hll] at hw; simp at hw
      | fail => rw [hll] at hw; simp at hw

/-- what `bufr_load_datasubsets` does with the subset being filled when a new one starts or the
text ends: `bufr_mkval_rest_sequence`, `bufr_add_datasubset` -/
def finCur (T : Tables) (fuel : Nat) (cur : Option LdSt) (acc : List (List Node)) (inv : Bool) :
    List (List Node) × Bool :=
  match cur with
  | some st => (finishSubset T fuel st :: acc, inv || st.invalid)
  | none => (acc, inv)

/-- the state after the blank line that ends a subset's block (the operator state exists) -/
def blankAdj (st : LdSt) : LdSt := { st with ddo := some (st.ddo.getD { enforce := .strict }) }

theorem loadSubsets_blank (T : Tables) (ed fuel : Nat) (bsq : List Node) (f : Nat) (st : LdSt)
    (acc : List (List Node)) (inv : Bool) (s : List Nat) :
    loadSubsets T ed fuel bsq (f + 1) (some st) acc inv (10 :: s) =
      loadSubsets T ed fuel bsq f (some (blankAdj st)) acc inv s := by
  have := loadSubsets_data T ed fuel bsq f (some st) acc inv [] s 10 [] (by simp) (by simp) rfl (by decide)
  simp only [List.nil_append] at this
  rw [this]
  have : parseLine [10] = none := by decide
  rw [this]
  rfl

theorem B_dsl : B "DATASUBSET " = B "DATASUBSET" ++ [32] := by decide
theorem B_col : B " : " = [32, 58, 32] := by decide
theorem B_codes : B " codes\n" = [32, 99, 111, 100, 101, 115, 10] := by decide

/-- the `DATASUBSET i : n codes` line closes the subset being filled and starts a new one -/
theorem loadSubsets_dsline (T : Tables) (ed fuel : Nat) (bsq : List Node) (f : Nat) (cur : Option LdSt)
    (acc : List (List Node)) (inv : Bool) (i n : Nat) (hi : i < 10 ^ 9) (hn : n < 10 ^ 9) (s : List Nat) :
    loadSubsets T ed fuel bsq (f + 1) cur acc inv
        (B "DATASUBSET " ++ decNat i ++ B " : " ++ decNat n ++ B " codes\n" ++ s) =
      loadSubsets T ed fuel bsq f (some { todo := bsq }) (finCur T fuel cur acc inv).1 (finCur T fuel cur acc inv).2 s := by
  set b := B "DATASUBSET" ++ 32 :: (decNat i ++ [32, 58, 32] ++ decNat n ++ [32, 99, 111, 100, 101, 115]) with hbd
  have htxt : B "DATASUBSET " ++ decNat i ++ B " : " ++ decNat n ++ B " codes\n" ++ s = b ++ 10 :: s := by
    rw [B_dsl, B_col, B_codes, hbd]; simp
  have hdig : ∀ (k : Nat), ∀ x ∈ decNat k, x ≠ 10 ∧ x ≠ 0 := by
    intro k x hx; have := decNat_digits k x hx; unfold isDigit at this; simp at this; omega
  have hb : ∀ x ∈ b, x ≠ 10 ∧ x ≠ 0 := by
    intro x hx
    rw [hbd, B_ds] at hx
    simp only [List.mem_append, List.mem_cons] at hx
    rcases hx with h | h
    · simp at h; omega
    · rcases h with rfl | h
      · decide
      · rcases h with ((h | h) | h) | h
        · exact hdig i x h
        · simp at h; omega
        · exact hdig n x h
        · simp at h; omega
  have hlen : b.length + 1 ≤ 2047 := by
    have h1 := decNat_length i 9 (by norm_num) hi
    have h2 := decNat_length n 9 (by norm_num) hn
    rw [hbd, B_ds]; simp; omega
  rw [htxt, loadSubsets, fgets_line b s (fun x hx => (hb x hx).1) hlen]
  have hcs : cstr (b ++ [10]) = b ++ [10] := cstr_of_no_nul _ (by
    intro x hx; rcases List.mem_append.mp hx with h | h
    · exact (hb x h).2
    · simp at h; subst h; decide)
  simp only [hcs]
  have hh : (b ++ [10]).head? = some 68 := by rw [hbd, B_ds]; rfl
  have h1 : ¬ ((b ++ [10]).head? = some 35 ∨ (b ++ [10]).head? = some 42) := by rw [hh]; simp
  rw [if_neg h1]
  have h2 : startsWith (B "BUFR_EDITION=") (b ++ [10]) = false :=
    startsWith_head_ne _ _ 66 68 (by rw [B_be]; rfl) hh (by decide)
  have h3 : startsWith (B "DATASUBSET") (b ++ [10]) = true := by
    rw [hbd, List.append_assoc]; exact startsWith_self_append _ _
  simp only [h2, h3, Bool.false_eq_true, if_false, if_true]
  cases cur <;> rfl

/-- the end of the text -/
theorem loadSubsets_eof (T : Tables) (ed fuel : Nat) (bsq : List Node) (f : Nat) (cur : Option LdSt)
    (acc : List (List Node)) (inv : Bool) :
    loadSubsets T ed fuel bsq (f + 1) cur acc inv [] =
      { status := if cur.isSome then 1 else 0, subsets := (finCur T fuel cur acc inv).1.reverse,
        invalid := (finCur T fuel cur acc inv).2, rest := [] } := by
  rw [loadSubsets]
  simp only [fgets, List.isEmpty_nil, if_true]
  cases cur <;> rfl

/-- the `BUFR_EDITION=` line of the next dataset ends this one and is left in the stream -/
theorem loadSubsets_next (T : Tables) (ed fuel : Nat) (bsq : List Node) (f : Nat) (cur : Option LdSt)
    (acc : List (List Node)) (inv : Bool) (b s : List Nat) (hb : ∀ x ∈ b, x ≠ 10 ∧ x ≠ 0)
    (hlen : (B "BUFR_EDITION=" ++ b).length + 1 ≤ 2047) :
    loadSubsets T ed fuel bsq (f + 1) cur acc inv (B "BUFR_EDITION=" ++ b ++ 10 :: s) =
      { status := 1, subsets := (finCur T fuel cur acc inv).1.reverse,
        invalid := (finCur T fuel cur acc inv).2, rest := B "BUFR_EDITION=" ++ b ++ 10 :: s } := by
  have hb' : ∀ x ∈ B "BUFR_EDITION=" ++ b, x ≠ 10 ∧ x ≠ 0 := by
    intro x hx
    rcases List.mem_append.mp hx with h | h
    · rw [B_be] at h; simp at h; omega
    · exact hb x h
  rw [loadSubsets, fgets_line _ s (fun x hx => (hb' x hx).1) hlen]
  have hnn : ∀ x ∈ B "BUFR_EDITION=" ++ b ++ [10], x ≠ 0 := by
    intro x hx; rcases List.mem_append.mp hx with h | h
    · exact (hb' x h).2
    · simp at h; subst h; decide
  have hcs : cstr (B "BUFR_EDITION=" ++ b ++ [10]) = B "BUFR_EDITION=" ++ b ++ [10] := cstr_of_no_nul _ hnn
  simp only [hcs]
  have hh : (B "BUFR_EDITION=" ++ b ++ [10]).head? = some 66 := by rw [B_be]; rfl
  have h1 : ¬ ((B "BUFR_EDITION=" ++ b ++ [10]).head? = some 35 ∨ (B "BUFR_EDITION=" ++ b ++ [10]).head? = some 42) := by
    rw [hh]; simp
  rw [if_neg h1]
  have h2 : startsWith (B "BUFR_EDITION=") (B "BUFR_EDITION=" ++ b ++ [10]) = true := by
    rw [List.append_assoc]; exact startsWith_self_append _ _
  simp only [h2, if_true]
  have hun : unread (B "BUFR_EDITION=" ++ b ++ [10]) s = B "BUFR_EDITION=" ++ b ++ 10 :: s := by
    unfold unread; rw [hcs]; simp
  rw [hun]
  cases cur <;> rfl

theorem zipMeta_map_fst (ns : List Node) (ms : List (List Nat)) : (zipMeta ns ms).map (·.1) = ns := by
  induction ns generalizing ms with
  | nil => rfl
  | cons n t ih => cases ms <;> simp [zipMeta, ih]

theorem zipMeta_length (ns : List Node) (ms : List (List Nat)) : (zipMeta ns ms).length = ns.length := by
  have := congrArg List.length (zipMeta_map_fst ns ms)
  simpa using this

/-- the subsets accumulated when the walks of the printed subsets end in the states `sts` -/
def accum (T : Tables) (fuel : Nat) : Option LdSt → List (List Node) → Bool → List LdSt → List (List Node) × Bool
  | cur, acc, inv, [] => finCur T fuel cur acc inv
  | cur, acc, inv, st :: rest =>
    accum T fuel (some (blankAdj st)) (finCur T fuel cur acc inv).1 (finCur T fuel cur acc inv).2 rest

/-- what may follow the subsets of a dataset in a dump file: nothing, or the next dataset -/
inductive Tail : List Nat → Prop
  | eof : Tail []
  | next (b s : List Nat) (hb : ∀ x ∈ b, x ≠ 10 ∧ x ≠ 0) (hlen : (B "BUFR_EDITION=" ++ b).length + 1 ≤ 2047) :
      Tail (B "BUFR_EDITION=" ++ b ++ 10 :: s)

/-- number of lines of the subset blocks -/
def linesOf (subs : List (List Node × List (List Nat))) : Nat := (subs.map fun p => p.1.length + 2).sum

/-- **the loader on printed subsets is the walk over their records** -/
theorem loadSubsets_printSubsets (T : Tables) (ed fuel : Nat) (bsq : List Node) (trim : Bool)
    (subs : List (List Node × List (List Nat))) (sts : List LdSt)
    (hw : List.Forall₂ (fun p st => walk T ed fuel trim { todo := bsq } p.1 = some st) subs sts)
    (hok : ∀ p ∈ subs, ∀ q ∈ zipMeta p.1 p.2, LineOK trim q.2 q.1)
    (i : Nat) (hi : i + subs.length < 10 ^ 9) (hn : ∀ p ∈ subs, p.1.length < 10 ^ 9)
    (tail : List Nat) (ht : Tail tail) (F : Nat) (hF : linesOf subs + 1 ≤ F)
    (cur : Option LdSt) (acc : List (List Node)) (inv : Bool) :
    loadSubsets T ed fuel bsq F cur acc inv (printSubsets trim i subs ++ tail) =
      { status := if cur.isSome ∨ subs ≠ [] ∨ tail ≠ [] then 1 else 0,
        subsets := (accum T fuel cur acc inv sts).1.reverse,
        invalid := (accum T fuel cur acc inv sts).2, rest := tail } := by
  induction hw generalizing i F cur acc inv with
  | nil =>
    obtain ⟨f, rfl⟩ : ∃ f, F = f + 1 := ⟨F - 1, by omega⟩
    simp only [printSubsets, List.nil_append, accum]
    cases ht with
    | eof => rw [loadSubsets_eof]; simp
    | next b s hb hlen => rw [loadSubsets_next T ed fuel bsq f cur acc inv b s hb hlen]; simp
  | @cons p st subs' sts' hp _ ih =>
    obtain ⟨ns, ms⟩ := p
    have hlines : linesOf ((ns, ms) :: subs') = (ns.length + 2) + linesOf subs' := by simp [linesOf]
    rw [hlines] at hF
    obtain ⟨F3, hF3⟩ : ∃ F3, F = ((F3 + 1) + (zipMeta ns ms).length) + 1 := ⟨F - ns.length - 2, by rw [zipMeta_length]; omega⟩
    simp only [printSubsets, printSubset]
    have hassoc : B "DATASUBSET " ++ decNat (i + 1) ++ B " : " ++ decNat ns.length ++ B " codes\n" ++
          List.flatMap (fun p => printNode trim p.2 p.1) (zipMeta ns ms) ++ [10] ++ printSubsets trim (i + 1) subs' ++ tail =
        B "DATASUBSET " ++ decNat (i + 1) ++ B " : " ++ decNat ns.length ++ B " codes\n" ++
          (List.flatMap (fun p => printNode trim p.2 p.1) (zipMeta ns ms) ++ (10 :: (printSubsets trim (i + 1) subs' ++ tail))) := by
      simp
    rw [hassoc, hF3, loadSubsets_dsline T ed fuel bsq _ cur acc inv (i + 1) ns.length
      (by simp at hi; omega) (hn (ns, ms) (by simp))]
    have hw1 : walk T ed fuel trim { todo := bsq } ((zipMeta ns ms).map (·.1)) = some st := by
      rw [zipMeta_map_fst]; exact hp
    rw [loadSubsets_nodes T ed fuel bsq trim _ _ (zipMeta ns ms) (hok (ns, ms) (by simp)) _ st hw1,
      loadSubsets_blank]
    rw [ih (fun p hp => hok p (by simp [hp])) (i + 1) (by simp at hi ⊢; omega) (fun p hp => hn p (by simp [hp]))
      F3 (by rw [zipMeta_length] at hF3; omega)]
    simp [accum]

/-! ### the header -/

/-- verdict of `startsWith p (q ++ t)` that does not depend on `t`, when there is one -/
def swLit (p q : List Nat) : Option Bool :=
  if p.length ≤ q.length then some (startsWith p q)
  else if q ≠ p.take q.length then some false else none

theorem swLit_sound (p q t : List Nat) (b : Bool) (h : swLit p q = some b) : startsWith p (q ++ t) = b := by
  unfold swLit at h
  split_ifs at h with h1 h2
  · simp at h; subst h
    unfold startsWith
    rw [List.take_append_of_le_length h1]
  · simp at h; subst h
    unfold startsWith
    have hlen : q.length ≤ p.length := by omega
    simp only [beq_eq_false_iff_ne, ne_eq]
    intro heq
    apply h2
    have := congrArg (List.take q.length) heq
    rw [List.take_take, Nat.min_eq_left hlen, List.take_append_of_le_length (le_refl _), List.take_length] at this
    exact this

theorem find?_congr' {α} (l : List α) (p q : α → Bool) (h : ∀ x ∈ l, p x = q x) : l.find? p = l.find? q := by
  induction l with
  | nil => rfl
  | cons a t ih =>
    simp only [List.find?_cons, h a (by simp)]
    rw [ih (fun x hx => h x (by simp [hx]))]

theorem findKey_lit (q t : List Nat) (hdet : ∀ k ∈ hkeys, (swLit (B k.2) q).isSome = true) :
    findKey (q ++ t) = ((hkeys.find? fun k => swLit (B k.2) q = some true).map fun k => (k.1, k.2.length)) := by
  unfold findKey
  congr 1
  apply find?_congr'
  intro k hk
  have := hdet k hk
  cases hsw : swLit (B k.2) q with
  | none => rw [hsw] at this; simp at this
  | some b => rw [swLit_sound _ q t b hsw]; cases b <;> simp

theorem fmtInt_chars (v : Int) : ∀ c ∈ fmtInt v, c ∉ [32, 61, 9, 10] ∧ c ≠ 0 ∧ c ≠ 10 := by
  intro c hc
  have := fmtInt_tok v c hc
  unfold isTokChar isDigit at this
  simp at this ⊢; omega

theorem fmtInt_length (v : Int) (hv : v.natAbs < 10 ^ 10) : (fmtInt v).length ≤ 11 := by
  unfold fmtInt
  have := decNat_length v.natAbs 10 (by norm_num) hv
  split_ifs <;> simp <;> omega

/-- the integer after the `=` of a header line -/
theorem hdrInt_kv (K : List Nat) (v : Int) (h0 : -(2:Int) ^ 31 ≤ v) (h1 : v < 2 ^ 31) :
    hdrInt (K ++ 61 :: (fmtInt v ++ [10])) K.length = some v := by
  unfold hdrInt
  have hdrop : List.drop K.length (K ++ 61 :: (fmtInt v ++ [10])) = 61 :: (fmtInt v ++ [10]) := by simp
  rw [hdrop]
  have h2 : strtok [32, 61, 9, 10] (61 :: (fmtInt v ++ [10])) = strtok [32, 61, 9, 10] (fmtInt v ++ [10]) :=
    strtok_skip _ [61] _ (by simp)
  rw [h2, strtok_mid _ (fmtInt v) 10 [] (fmtInt_ne_nil v) (fun c hc => (fmtInt_chars v c hc).1) (by simp)]
  simp [atoi_fmtInt v h0 h1]

/-- a header key: the literal of the key, with its `=`, decides which branch of the chain is taken -/
structure KeyLit (k : HKey) (K : String) : Prop where
  det : ∀ p ∈ hkeys, (swLit (B p.2) (B K ++ [61])).isSome = true
  hit : ((hkeys.find? fun p => swLit (B p.2) (B K ++ [61]) = some true).map fun p => (p.1, p.2.length)) = some (k, K.length)
  chars : ∀ c ∈ B K, c ≠ 10 ∧ c ≠ 0
  head : (B K).head? ≠ none ∧ (B K).head? ≠ some 35 ∧ (B K).head? ≠ some 42
  len : (B K).length ≤ 30
  blen : (B K).length = K.length

theorem findKey_key (k : HKey) (K : String) (hK : KeyLit k K) (t : List Nat) :
    findKey (B K ++ 61 :: t) = some (k, K.length) := by
  have : B K ++ 61 :: t = (B K ++ [61]) ++ t := by simp
  rw [this, findKey_lit _ t hK.det, hK.hit]

/-- one `KEY=value` line of the header -/
theorem loadHeader_kv (k : HKey) (K : String) (hK : KeyLit k K) (v : Int) (hv : v.natAbs < 10 ^ 10)
    (f : Nat) (h : Hdr) (s : List Nat) :
    loadHeader (f + 1) h (kv K v ++ s) = loadHeader f (applyKey h k K.length (B K ++ 61 :: (fmtInt v ++ [10]))) s := by
  have hkv : kv K v ++ s = (B K ++ 61 :: fmtInt v) ++ 10 :: s := by
    unfold kv; rw [show B "=" = [61] by decide]; simp
  have hb : ∀ x ∈ B K ++ 61 :: fmtInt v, x ≠ 10 ∧ x ≠ 0 := by
    intro x hx
    rcases List.mem_append.mp hx with h1 | h1
    · exact hK.chars x h1
    · simp only [List.mem_cons] at h1
      rcases h1 with rfl | h1
      · decide
      · have := fmtInt_chars v x h1; exact ⟨this.2.2, this.2.1⟩
  have hlen : (B K ++ 61 :: fmtInt v).length + 1 ≤ 2047 := by
    have := fmtInt_length v hv; have := hK.len; simp; omega
  rw [hkv, loadHeader, fgets_line _ s (fun x hx => (hb x hx).1) hlen]
  have hcs : cstr ((B K ++ 61 :: fmtInt v) ++ [10]) = (B K ++ 61 :: fmtInt v) ++ [10] := cstr_of_no_nul _ (by
    intro x hx; rcases List.mem_append.mp hx with h1 | h1
    · exact (hb x h1).2
    · simp at h1; subst h1; decide)
  simp only [hcs]
  obtain ⟨hc0, hc1, hc2⟩ := hK.head
  have hh : ((B K ++ 61 :: fmtInt v) ++ [10]).head? = (B K).head? := by
    cases hbk : B K with
    | nil => rw [hbk] at hc0; simp at hc0
    | cons c t => rfl
  have h1 : ¬ (((B K ++ 61 :: fmtInt v) ++ [10]).head? = some 35 ∨ ((B K ++ 61 :: fmtInt v) ++ [10]).head? = some 42) := by
    rw [hh]; intro h; rcases h with h | h
    · exact hc1 h
    · exact hc2 h
  rw [if_neg h1]
  have hform : (B K ++ 61 :: fmtInt v) ++ [10] = B K ++ 61 :: (fmtInt v ++ [10]) := by simp
  rw [hform]
  unfold hdrLine
  rw [findKey_key k K hK]
  rfl

theorem keyLit_edition : KeyLit .edition "BUFR_EDITION" := ⟨by decide, by decide, by decide, by decide, by decide, by decide⟩
theorem keyLit_masterTable : KeyLit .masterTable "BUFR_MASTER_TABLE" := ⟨by decide, by decide, by decide, by decide, by decide, by decide⟩
theorem keyLit_centre : KeyLit .centre "ORIG_CENTER" := ⟨by decide, by decide, by decide, by decide, by decide, by decide⟩
theorem keyLit_subCentre : KeyLit .subCentre "ORIG_SUB_CENTER" := ⟨by decide, by decide, by decide, by decide, by decide, by decide⟩
theorem keyLit_updSeq : KeyLit .updSeq "UPDATE_SEQUENCE" := ⟨by decide, by decide, by decide, by decide, by decide, by decide⟩
theorem keyLit_msgType : KeyLit .msgType "DATA_CATEGORY" := ⟨by decide, by decide, by decide, by decide, by decide, by decide⟩
theorem keyLit_interSub : KeyLit .interSub "INTERN_SUB_CATEGORY" := ⟨by decide, by decide, by decide, by decide, by decide, by decide⟩
theorem keyLit_localSub : KeyLit .localSub "LOCAL_SUB_CATEGORY" := ⟨by decide, by decide, by decide, by decide, by decide, by decide⟩
theorem keyLit_masterVer : KeyLit .masterVer "MASTER_TABLE_VERSION" := ⟨by decide, by decide, by decide, by decide, by decide, by decide⟩
theorem keyLit_localVer : KeyLit .localVer "LOCAL_TABLE_VERSION" := ⟨by decide, by decide, by decide, by decide, by decide, by decide⟩
theorem keyLit_year : KeyLit .year "YEAR" := ⟨by decide, by decide, by decide, by decide, by decide, by decide⟩
theorem keyLit_month : KeyLit .month "MONTH" := ⟨by decide, by decide, by decide, by decide, by decide, by decide⟩
theorem keyLit_day : KeyLit .day "DAY" := ⟨by decide, by decide, by decide, by decide, by decide, by decide⟩
theorem keyLit_hour : KeyLit .hour "HOUR" := ⟨by decide, by decide, by decide, by decide, by decide, by decide⟩
theorem keyLit_minute : KeyLit .minute "MINUTE" := ⟨by decide, by decide, by decide, by decide, by decide, by decide⟩
theorem keyLit_second : KeyLit .second "SECOND" := ⟨by decide, by decide, by decide, by decide, by decide, by decide⟩
theorem keyLit_dataFlag : KeyLit .dataFlag "DATA_FLAG" := ⟨by decide, by decide, by decide, by decide, by decide, by decide⟩
theorem keyLit_compressed : KeyLit .compressed "COMPRESSED" := ⟨by decide, by decide, by decide, by decide, by decide, by decide⟩
theorem keyLit_headerString : KeyLit .headerString "HEADER_STRING" := ⟨by decide, by decide, by decide, by decide, by decide, by decide⟩

end Bufr.Dump
