import BufrModel.Expand
import BufrSpec.Expand
/-
  T-Expand (static part): the flat flagged expansion of `bufr_expand_list` with `flags = 0`
  (what `bufr_finalize_template` computes) refines regulation 94.5 for Table D sequences and
  fixed replication, delayed replication groups being kept as written.
-/
namespace Bufr
open Bufr.Spec

/-- a node no expansion has touched yet -/
def Fresh (n : Node) : Prop := n.flags.skipped = false ∧ n.flags.expanded = false

/-- the descriptors that carry data or are still to be resolved: everything not flagged SKIPPED -/
def items (ns : List Node) : List Nat := (ns.filter (fun n => !n.flags.skipped)).map (·.desc)

@[simp] theorem items_nil : items [] = [] := rfl

theorem items_cons (n : Node) (ns : List Node) :
    items (n :: ns) = if n.flags.skipped then items ns else n.desc :: items ns := by
  unfold items
  cases h : n.flags.skipped <;> simp [h]

theorem items_append (a b : List Node) : items (a ++ b) = items a ++ items b := by
  unfold items; simp

theorem items_fresh (ns : List Node) (h : ∀ n ∈ ns, n.flags.skipped = false) :
    items ns = ns.map (·.desc) := by
  induction ns with
  | nil => rfl
  | cons n ns ih =>
    rw [items_cons, h n (by simp), ih (fun m hm => h m (by simp [hm]))]
    simp

/-! facts about the node transformations -/

theorem resolveUnknown_desc (T : Tables) (n : Node) : (resolveUnknown T n).desc = n.desc := by
  unfold resolveUnknown
  split
  · split
    · split <;> rfl
    · rfl
  · rfl

theorem resolveUnknown_flags (T : Tables) (n : Node) : (resolveUnknown T n).flags = n.flags := by
  unfold resolveUnknown
  split
  · split
    · split <;> rfl
    · rfl
  · rfl

@[simp] theorem dropPlaceholder_desc (n : Node) : (dropPlaceholder n).desc = n.desc := by
  unfold dropPlaceholder; split <;> rfl

@[simp] theorem dropPlaceholder_flags (n : Node) : (dropPlaceholder n).flags = n.flags := by
  unfold dropPlaceholder; split <;> rfl

theorem replicaOf_desc (T : Tables) (extra : Bool) (body : List Node) (j : Nat) :
    (replicaOf T extra body j).map (·.desc) = body.map (·.desc) := by
  unfold replicaOf
  simp [List.map_map, Function.comp_def, resolveUnknown_desc]

theorem replicaOf_fresh (T : Tables) (extra : Bool) (body : List Node) (j : Nat)
    (h : ∀ n ∈ body, Fresh n) : ∀ n ∈ replicaOf T extra body j, Fresh n := by
  intro n hn
  unfold replicaOf at hn
  simp only [List.mem_map] at hn
  obtain ⟨m, hm, rfl⟩ := hn
  constructor
  · rfl
  · simp only [dropPlaceholder_flags, resolveUnknown_flags]; exact (h m hm).2

theorem replicas_desc (T : Tables) (extra : Bool) (body : List Node) (count : Nat) :
    (replicas T extra body count).map (·.desc) = (List.replicate count (body.map (·.desc))).flatten := by
  unfold replicas
  induction count with
  | zero => simp
  | succ k ih =>
    rw [List.range_succ, List.flatMap_append, List.map_append, ih, List.replicate_succ']
    simp [replicaOf_desc]

theorem replicas_fresh (T : Tables) (extra : Bool) (body : List Node) (count : Nat)
    (h : ∀ n ∈ body, Fresh n) : ∀ n ∈ replicas T extra body count, Fresh n := by
  intro n hn
  unfold replicas at hn
  simp only [List.mem_flatMap] at hn
  obtain ⟨j, _, hj⟩ := hn
  exact replicaOf_fresh T extra body j h n hj

theorem mkNode_desc (T : Tables) (d : Nat) : (mkNode T d).desc = d := by
  unfold mkNode; split <;> rfl

theorem mkNode_fresh (T : Tables) (d : Nat) : Fresh (mkNode T d) := by
  unfold mkNode Fresh; split <;> simp

theorem memberNodes_spec (T : Tables) : ∀ (ms : List Nat) (prev : Option Nat) (ns : List Node),
    memberNodes T prev ms = some ns → ns.map (·.desc) = ms ∧ ∀ n ∈ ns, Fresh n := by
  intro ms
  induction ms with
  | nil => intro prev ns h; simp [memberNodes] at h; subst h; simp
  | cons c cs ih =>
    intro prev ns h
    unfold memberNodes at h
    simp only at h
    split at h
    · cases hr : memberNodes T (some c) cs with
      | none => rw [hr] at h; simp at h
      | some r =>
        rw [hr] at h
        simp only [Option.map_some, Option.some.injEq] at h
        subst h
        obtain ⟨h1, h2⟩ := ih _ _ hr
        refine ⟨by simp [mkNode_desc, h1], ?_⟩
        intro n hn
        simp only [List.mem_cons] at hn
        rcases hn with rfl | hn
        · exact mkNode_fresh T c
        · exact h2 n hn
    · simp at h

theorem assign0_desc (T : Tables) (body : List Node) :
    (assignDescriptors T 0 body).map (·.desc) = body.map (·.desc) := by
  unfold assignDescriptors
  simp [hasFlag, OP_EXPAND_DELAY_REPL, resolveUnknown_desc]

theorem assign0_skipped (T : Tables) (body : List Node) (h : ∀ n ∈ body, Fresh n) :
    ∀ n ∈ assignDescriptors T 0 body, n.flags.skipped = false := by
  intro n hn
  unfold assignDescriptors at hn
  simp [hasFlag, OP_EXPAND_DELAY_REPL] at hn
  obtain ⟨m, hm, rfl⟩ := hn
  rw [resolveUnknown_flags]; exact (h m hm).1

/-- `x >>= f = ok b` in `Except` -/
theorem except_bind_ok {ε α β : Type} (x : Except ε α) (f : α → Except ε β) (b : β)
    (h : (x >>= f) = .ok b) : ∃ a, x = .ok a ∧ f a = .ok b := by
  cases x with
  | error e => simp [bind, Except.bind] at h
  | ok a => exact ⟨a, rfl, by simpa [bind, Except.bind] using h⟩

theorem except_map_ok {ε α β : Type} (x : Except ε α) (f : α → β) (b : β)
    (h : (x.map f) = .ok b) : ∃ a, x = .ok a ∧ f a = b := by
  cases x with
  | error e => simp [Except.map] at h
  | ok a => exact ⟨a, rfl, by simpa [Except.map] using h⟩

theorem fresh_take {ns : List Node} (h : ∀ n ∈ ns, Fresh n) (k : Nat) : ∀ n ∈ ns.take k, Fresh n :=
  fun n hn => h n (List.mem_of_mem_take hn)
theorem fresh_drop {ns : List Node} (h : ∀ n ∈ ns, Fresh n) (k : Nat) : ∀ n ∈ ns.drop k, Fresh n :=
  fun n hn => h n (List.mem_of_mem_drop hn)

/-- the three mutually recursive functions, `flags = 0`, no decode-size guard -/
def StaticOK (T : Tables) (f : Nat) : Prop :=
  (∀ ns r, (∀ n ∈ ns, Fresh n) → expandList T f 0 none ns = .ok (r, false) →
      Static T (ns.map (·.desc)) (items r)) ∧
  (∀ body count r, (∀ n ∈ body, Fresh n) → replDescriptors T f 0 none body count = .ok (r, false) →
      Static T (List.replicate count (body.map (·.desc))).flatten (items r)) ∧
  (∀ d r, expandDesc T f 0 none d = .ok (r, false) →
      ∃ e, Desc.f d = 3 ∧ T.fetchD d = some e ∧ Static T e.members (items r))

theorem or_false_split {a b : Bool} (h : (a || b) = false) : a = false ∧ b = false := by
  cases a <;> cases b <;> simp_all

theorem static_ok (T : Tables) : ∀ f, StaticOK T f := by
  intro f
  induction f with
  | zero =>
    refine ⟨?_, ?_, ?_⟩
    · intro ns r _ h; simp [expandList] at h
    · intro b c r _ h; simp [replDescriptors] at h
    · intro d r h; simp [expandDesc] at h
  | succ f ih =>
    obtain ⟨ihL, ihR, ihD⟩ := ih
    refine ⟨?_, ?_, ?_⟩
    · -- expandList
      intro ns r hfresh h
      cases ns with
      | nil => simp [expandList] at h; obtain ⟨rfl, _⟩ := h; exact Static.nil
      | cons n rest =>
        have hn : Fresh n := hfresh n (by simp)
        have hrest : ∀ m ∈ rest, Fresh m := fun m hm => hfresh m (by simp [hm])
        unfold expandList at h
        simp only [Node.skipped, Node.expanded, hn.1, hn.2, Bool.false_eq_true, or_self, if_false] at h
        simp only [List.map_cons]
        by_cases h1 : Desc.f n.desc = 1
        · simp only [h1, if_true] at h
          by_cases hy : Desc.y n.desc > 0
          · simp only [hy, if_true] at h
            by_cases hlen : rest.length < Desc.x n.desc
            · simp [hlen] at h
            · simp only [hlen, if_false] at h
              obtain ⟨⟨sub, e1⟩, hs, h⟩ := except_bind_ok _ _ _ h
              obtain ⟨⟨r2, e2⟩, hr, h⟩ := except_bind_ok _ _ _ h
              simp only [pure, Except.pure, Except.ok.injEq, Prod.mk.injEq] at h
              obtain ⟨rfl, he⟩ := h
              obtain ⟨rfl, rfl⟩ := or_false_split he
              have s1 := ihR _ _ _ (fresh_take hrest _) hs
              have s2 := ihL _ _ (fresh_drop hrest _) hr
              rw [List.cons_append, items_cons]
              simp only [if_true, items_append]
              rw [List.map_take] at s1
              rw [List.map_drop] at s2
              exact Static.fixed n.desc (rest.map (·.desc)) _ _ h1 hy (by simp; omega) s1 s2
          · simp only [hy, if_false] at h
            cases rest with
            | nil => simp at h
            | cons c31 rest' =>
              simp only at h
              by_cases hc : Desc.f c31.desc = 0 ∧ Desc.x c31.desc = 31
              · simp only [hc, and_self, if_true] at h
                have hflag : hasFlag 0 OP_EXPAND_DELAY_REPL = false := by decide
                simp only [hflag, Bool.false_eq_true, and_false, if_false] at h
                have hc31 : Fresh c31 := hrest c31 (by simp)
                have hrest' : ∀ m ∈ rest', Fresh m := fun m hm => hrest m (by simp [hm])
                have hy0 : Desc.y n.desc = 0 := by omega
                have key : ∀ (C : Node) (r2 : List Node), C.desc = c31.desc → C.flags.skipped = false →
                    expandList T f 0 none (List.drop (Desc.x n.desc) rest') = .ok (r2, false) →
                    Static T (n.desc :: (c31 :: rest').map (·.desc))
                      (items (n :: C :: assignDescriptors T 0 (List.take (Desc.x n.desc) rest') ++ r2)) := by
                  intro C r2 hCd hCs hr
                  have s2 := ihL _ _ (fresh_drop hrest' _) hr
                  rw [List.cons_append, List.cons_append, items_cons, hn.1]
                  simp only [Bool.false_eq_true, if_false]
                  rw [items_cons, hCs]
                  simp only [Bool.false_eq_true, if_false, items_append]
                  rw [items_fresh _ (assign0_skipped T _ (fresh_take hrest' _)), assign0_desc, hCd]
                  rw [List.map_drop] at s2
                  rw [List.map_take, List.map_cons]
                  exact Static.delayed n.desc c31.desc (rest'.map (·.desc)) _ h1 hy0 hc s2
                obtain ⟨⟨r2, e2⟩, hr, h⟩ := except_bind_ok _ _ _ h
                simp only [pure, Except.pure, Except.ok.injEq, Prod.mk.injEq] at h
                obtain ⟨rfl, rfl⟩ := h
                exact key _ _ rfl hc31.1 hr
              · simp only [hc, if_false] at h
                obtain ⟨⟨r2, e2⟩, _, h⟩ := except_map_ok _ _ _ h
                simp at h
        · simp only [h1, if_false] at h
          by_cases h3 : Desc.f n.desc = 3
          · simp only [h3, if_true] at h
            obtain ⟨⟨sub, e1⟩, hs, h⟩ := except_bind_ok _ _ _ h
            obtain ⟨⟨r2, e2⟩, hr, h⟩ := except_bind_ok _ _ _ h
            simp only [pure, Except.pure, Except.ok.injEq, Prod.mk.injEq] at h
            obtain ⟨rfl, he⟩ := h
            obtain ⟨rfl, rfl⟩ := or_false_split he
            obtain ⟨e, _, hfd, s1⟩ := ihD _ _ hs
            have s2 := ihL _ _ hrest hr
            rw [List.cons_append, items_cons]
            simp only [if_true, items_append]
            exact Static.seq n.desc _ e _ _ h3 hfd s1 s2
          · simp only [h3, if_false] at h
            obtain ⟨⟨r2, e2⟩, hr, h⟩ := except_map_ok _ _ _ h
            simp only [Prod.mk.injEq] at h
            obtain ⟨rfl, rfl⟩ := h
            have s2 := ihL _ _ hrest hr
            rw [items_cons]
            simp only [hn.1, Bool.false_eq_true, if_false]
            exact Static.elem n.desc _ _ ⟨h1, h3⟩ s2
    · -- replDescriptors
      intro body count r hfresh h
      unfold replDescriptors at h
      simp only at h
      have hflag : hasFlag 0 OP_ZDRC_IGNORE = false := by decide
      simp only [hflag, Bool.false_eq_true, if_false] at h
      have s := ihL _ _ (replicas_fresh T _ body count hfresh) h
      rw [replicas_desc] at s
      exact s
    · -- expandDesc
      intro d r h
      unfold expandDesc at h
      by_cases h3 : Desc.f d ≠ 3
      · simp [h3] at h
      · simp only [h3, if_false] at h
        cases hfd : T.fetchD d with
        | none => simp [hfd] at h
        | some e =>
          simp only [hfd] at h
          cases hm : memberNodes T none e.members with
          | none => simp [hm] at h
          | some nodes =>
            simp only [hm] at h
            have hsc : (!spansClosed e.members) = false := by
              cases hc : (!spansClosed e.members) with
              | false => rfl
              | true => simp [hc] at h
            simp only [hsc, Bool.false_eq_true, if_false] at h
            have hcy : tabledCircular T d = false := by
              cases hc : tabledCircular T d with
              | false => rfl
              | true => simp [hc] at h
            simp only [hcy, Bool.false_eq_true, if_false] at h
            obtain ⟨hd, hf⟩ := memberNodes_spec T _ _ _ hm
            have s := ihL _ _ hf h
            rw [hd] at s
            exact ⟨e, by omega, rfl, s⟩

end Bufr
