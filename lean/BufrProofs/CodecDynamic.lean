import BufrProofs.Codec
/-
  BufrProofs.CodecDynamic — the uncompressed decode loop over *any* template: delayed replication
  (expanded when its factor has been read), new reference values (2 03) and every other operator.

  `decodeSubsetLoop_static` needs a list that is already a fixed point of Table C application and
  holds no delayed replication and no 2 03.  Here the control flow of the loop is separated from the
  bits instead: `walk` makes the decisions of `decodeSubsetLoop` (Table C application, expansion at a
  factor, the Section 4 size guard, the state changes of 2 03) from the *encoder's nodes*, without
  looking at a single bit.  `decodeSubsetLoop_walk` proves that whenever that bit-free walk goes
  through, the real loop, fed the encoder's bits, takes the same path, reads every data-bearing
  position from exactly the bits the encoder wrote for it (`readBack`), raises no error and stops at
  the first bit after the subset.  `walk` is computable: `decide +kernel` evaluates it on a concrete
  template and dataset, nested delayed replication and 2 03 included.
-/
namespace Bufr
open Bufr

/-- what lets the decoder's node `n1` (tables applied, not skipped) be read from the bits of the
encoder's node `m`: a node that takes a value shares `m`'s encoding, associated field width and a
supported width; a node that takes none (an operator, a replication descriptor — which the encoder's
list may already hold flagged as expanded) faces no bits at all -/
def readOKb (n1 m : Node) : Bool :=
  if (mkvalNode n1).val.isSome then
    decide (n1.enc = m.enc) && decide (n1.flags.skipped = m.flags.skipped) &&
      decide ((mkvalNode n1).afW = m.afW) && widthOKb m
  else decide (nodeBits m = [])

/-- the decisions of `decodeSubsetLoop`, made from the encoder's nodes `ms` instead of the bits:
`some out` = the loop walks to the end and leaves `out`; `none` = some position of the decoder's list
does not pair with the encoder's, an operator error is raised, an expansion is refused, or the list
and the encoder's nodes differ in length. -/
def walk (T : Tables) (edition s4max : Nat) (s4len : Int) :
    Nat → DDO → List Node → List Node → List Node → Option (List Node)
  | 0, _, _, _, _ => none
  | _+1, _, done, [], ms => if ms.isEmpty then some done.reverse else none
  | _+1, _, _, _ :: _, [] => none
  | f+1, ddo, done, n :: rest, m :: ms =>
    let a := applyTables2node T edition ddo n
    if a.2.2 then none
    else if n.flags.skipped != a.2.1.flags.skipped then none
    else if n.flags.skipped then
      if nodeBits m = [] then walk T edition s4max s4len f a.1 (a.2.1 :: done) rest ms else none
    else if !readOKb a.2.1 m then none
    else
      let n2 := readBack' a.2.1 m
      let ddo2 := applyOpCrefval T a.1 n2
      if Desc.f n2.desc = 1 ∧ Desc.y n2.desc = 0 then
        match rest, ms with
        | c31 :: rest', mc :: ms' =>
          if Desc.f c31.desc = 0 ∧ Desc.x c31.desc = 31 then
            if !(readOKb c31 mc && !c31.flags.skipped && (mkvalNode c31).val.isSome) then none
            else
              match expandNodeDecode T f (some s4max) n2 (readBack c31 mc) rest' with
              | .ok (x :: y :: more, false) =>
                if (s4len + minSeqLength (done.reverse ++ x :: y :: more)) / 8 > (s4max : Int) * 3 then none
                else walk T edition s4max s4len f ddo2 (y :: x :: done) more ms'
              | _ => none
          else walk T edition s4max s4len f ddo2 (n2 :: done) rest ms
        | _, _ => none
      else walk T edition s4max s4len f ddo2 (n2 :: done) rest ms

/-- one position read: the decoder's node `n1` (tables applied, not skipped) comes back as
`readBack' n1 m` and the reader moves past `nodeBits m` -/
theorem getDescValue_read (r : R) (hI : RInv r) (n1 m : Node) (rest : List Bool)
    (hp : readOKb n1 m = true) (hsk : n1.flags.skipped = false) (hb : r.bits = nodeBits m ++ rest) :
    ∃ r', getDescValue r n1 = some (r', readBack' n1 m) ∧ r'.bits = rest ∧ RInv r' := by
  unfold readOKb at hp
  by_cases hv : (mkvalNode n1).val.isSome = true
  · rw [if_pos hv] at hp
    simp only [Bool.and_eq_true, decide_eq_true_eq] at hp
    obtain ⟨⟨⟨henc, hs⟩, hafw⟩, hw⟩ := hp
    have hw' := widthOK_of_b m hw
    have hl : SameLayout n1 m := ⟨henc, hs, hafw, hv⟩
    have hms : m.flags.skipped = false := by rw [← hs]; exact hsk
    obtain ⟨r2, e2, hb2, hI2⟩ := getDescValue_view r hI n1 m _ hl hms hw'.1 hw'.2 hb
    exact ⟨r2, by rw [e2]; simp [readBack', hsk, hv], hb2, hI2⟩
  · rw [if_neg hv] at hp
    have hnb : nodeBits m = [] := by simpa using hp
    have hv' : (mkvalNode n1).val.isSome = false := by simpa using hv
    rw [hnb, List.nil_append] at hb
    refine ⟨r, ?_, hb, hI⟩
    unfold getDescValue
    simp [hsk, hv', readBack']

/-- **the decode loop follows the bit-free walk**, for any template -/
theorem decodeSubsetLoop_walk (T : Tables) (edition s4max : Nat) :
    ∀ (fuel : Nat) (ddo : DDO) (st : DecSt) (done todo ms out : List Node) (rest : List Bool),
    walk T edition s4max st.s4len fuel ddo done todo ms = some out →
    RInv st.r → st.r.bits = ms.flatMap nodeBits ++ rest →
    ∃ r', decodeSubsetLoop T edition s4max fuel ddo st done todo = .ok ({ st with r := r' }, out, .complete) ∧
      r'.bits = rest ∧ RInv r' := by
  intro fuel
  induction fuel with
  | zero => intro ddo st done todo ms out rest h; simp [walk] at h
  | succ f ih =>
    intro ddo st done todo ms out rest h hI hb
    cases todo with
    | nil =>
      cases ms with
      | nil =>
        simp [walk] at h
        subst h
        exact ⟨st.r, by simp [decodeSubsetLoop], by simpa using hb, hI⟩
      | cons m ms => simp [walk] at h
    | cons n restn =>
      cases ms with
      | nil => simp [walk] at h
      | cons m ms =>
        unfold walk at h
        unfold decodeSubsetLoop
        generalize ha : applyTables2node T edition ddo n = a at h
        obtain ⟨ddo1, n1, err⟩ := a
        simp only at h ⊢
        by_cases herr : err = true
        · simp [herr] at h
        have herr' : err = false := by simpa using herr
        subst herr'
        simp only [Bool.false_eq_true, if_false, Bool.or_false] at h ⊢
        by_cases hskeq : n.flags.skipped = n1.flags.skipped
        swap
        · simp [hskeq] at h
        simp only [hskeq, bne_self_eq_false, Bool.false_eq_true, if_false] at h
        rw [List.flatMap_cons, List.append_assoc] at hb
        by_cases hsk : n1.flags.skipped = true
        · -- nothing on the wire
          rw [hskeq, if_pos hsk]
          rw [if_pos hsk] at h
          by_cases hm : nodeBits m = []
          swap
          · simp [hm] at h
          rw [if_pos hm] at h
          rw [hm, List.nil_append] at hb
          exact ih ddo1 st (n1 :: done) restn ms out rest h hI hb
        · have hsk' : n1.flags.skipped = false := by simpa using hsk
          rw [hskeq, if_neg hsk]
          rw [if_neg hsk] at h
          by_cases hp : readOKb n1 m = true
          swap
          · simp [hp] at h
          simp only [hp, Bool.not_true, Bool.false_eq_true, if_false] at h
          obtain ⟨r2, e2, hb2, hI2⟩ := getDescValue_read st.r hI n1 m _ hp hsk' hb
          rw [e2]
          simp only
          by_cases hd : Desc.f (readBack' n1 m).desc = 1 ∧ Desc.y (readBack' n1 m).desc = 0
          · rw [if_pos hd]
            rw [if_pos hd] at h
            cases restn with
            | nil => simp at h
            | cons c31 rest' =>
              cases ms with
              | nil => simp at h
              | cons mc ms' =>
                simp only at h ⊢
                by_cases h31 : Desc.f c31.desc = 0 ∧ Desc.x c31.desc = 31
                · rw [if_pos h31]
                  rw [if_pos h31] at h
                  by_cases hc : (readOKb c31 mc && !c31.flags.skipped && (mkvalNode c31).val.isSome) = true
                  swap
                  · simp [hc] at h
                  simp only [hc, Bool.not_true, Bool.false_eq_true, if_false] at h
                  simp only [Bool.and_eq_true, Bool.not_eq_true'] at hc
                  obtain ⟨⟨hcp, hcs⟩, hcv⟩ := hc
                  rw [List.flatMap_cons, List.append_assoc] at hb2
                  obtain ⟨r3, e3, hb3, hI3⟩ := getDescValue_read r2 hI2 c31 mc _ hcp hcs hb2
                  have hrb : readBack' c31 mc = readBack c31 mc := by simp [readBack', hcs, hcv]
                  rw [hrb] at e3
                  rw [e3]
                  simp only
                  generalize hx : expandNodeDecode T f (some s4max) (readBack' n1 m) (readBack c31 mc) rest' = xr at h
                  match xr, h with
                  | .ok (x :: y :: more, false), h =>
                    simp only at h ⊢
                    by_cases hg : (st.s4len + minSeqLength (done.reverse ++ x :: y :: more)) / 8 > (s4max : Int) * 3
                    · simp [hg] at h
                    rw [if_neg hg] at h
                    simp only [Bool.or_false]
                    rw [if_neg hg]
                    obtain ⟨r', e, hb', hI'⟩ := ih (applyOpCrefval T ddo1 (readBack' n1 m)) { st with r := r3 }
                      (y :: x :: done) more ms' out rest h hI3 hb3
                    exact ⟨r', e, hb', hI'⟩
                · rw [if_neg h31]
                  rw [if_neg h31] at h
                  obtain ⟨r', e, hb', hI'⟩ := ih (applyOpCrefval T ddo1 (readBack' n1 m)) { st with r := r2 }
                    (readBack' n1 m :: done) (c31 :: rest') (mc :: ms') out rest h hI2 hb2
                  exact ⟨r', e, hb', hI'⟩
          · rw [if_neg hd]
            rw [if_neg hd] at h
            obtain ⟨r', e, hb', hI'⟩ := ih (applyOpCrefval T ddo1 (readBack' n1 m)) { st with r := r2 }
              (readBack' n1 m :: done) restn ms out rest h hI2 hb2
            exact ⟨r', e, hb', hI'⟩

/-! ### all the subsets of a message -/

/-- the walk of every subset in turn; the bits accounted for so far (`s4.len`, which the size guard of
a later expansion looks at) are carried from one subset to the next as the decoder carries them -/
def walkAll (T : Tables) (edition : Nat) (enforce : Enforce) (s4max fuel : Nat) (bsq : List Node)
    (lenConst : Bool) (nbitsSeq : Int) : Int → List (List Node) → Option (List (List Node))
  | _, [] => some []
  | s4len, ms :: mss =>
    match walk T edition s4max s4len fuel { enforce := enforce } [] bsq ms with
    | none => none
    | some out =>
      match walkAll T edition enforce s4max fuel bsq lenConst nbitsSeq
              (s4len + (if lenConst then nbitsSeq else estimateSeqLength T fuel out)) mss with
      | none => none
      | some outs => some (mkvalAll out :: outs)

theorem decodeUncompressed_walk (T : Tables) (edition : Nat) (enforce : Enforce) (fuel s4max : Nat)
    (bsq : List Node) (nbitsSeq : Int) (lenConst : Bool) (from_ to_ : Int)
    (hkeep : lenConst = true ∨ from_ ≤ 0) :
    ∀ (mss : List (List Node)) (j : Nat) (st : DecSt) (acc outs : List (List Node)) (rest : List Bool),
    walkAll T edition enforce s4max fuel bsq lenConst nbitsSeq st.s4len mss = some outs →
    RInv st.r → st.r.bits = mss.flatMap (fun ms => ms.flatMap nodeBits) ++ rest →
    ∃ st', decodeUncompressed T edition enforce fuel s4max bsq nbitsSeq lenConst from_ to_ mss.length j st acc =
        .ok (st', acc.reverse ++ outs) ∧
      st'.invalid = st.invalid ∧ st'.r.bits = rest ∧ RInv st'.r := by
  intro mss
  induction mss with
  | nil =>
    intro j st acc outs rest h hI hb
    simp [walkAll] at h
    subst h
    exact ⟨st, by simp [decodeUncompressed], rfl, by simpa using hb, hI⟩
  | cons ms mss ih =>
    intro j st acc outs rest h hI hb
    rw [List.flatMap_cons, List.append_assoc] at hb
    unfold walkAll at h
    generalize hw : walk T edition s4max st.s4len fuel { enforce := enforce } [] bsq ms = w at h
    match w, h with
    | some out, h =>
      simp only at h
      generalize hw2 : walkAll T edition enforce s4max fuel bsq lenConst nbitsSeq
          (st.s4len + (if lenConst then nbitsSeq else estimateSeqLength T fuel out)) mss = w2 at h
      match w2, h with
      | some outs', h =>
        simp only [Option.some.injEq] at h
        subst h
        obtain ⟨r', e, hb', hI'⟩ := decodeSubsetLoop_walk T edition s4max fuel { enforce := enforce } st [] bsq ms out _
          hw hI hb
        simp only [List.length_cons, decodeUncompressed, e]
        have hk : (lenConst = true ∨ from_ ≤ 0 ∨ (from_ ≤ (j : Int) + 1 ∧ (j : Int) + 1 ≤ to_)) := by
          rcases hkeep with h | h
          · exact Or.inl h
          · exact Or.inr (Or.inl h)
        simp only [hk, if_true]
        obtain ⟨st', e2, hinv, hb2, hI2⟩ := ih (j + 1)
          { st with r := r', s4len := st.s4len + (if lenConst then nbitsSeq else estimateSeqLength T fuel out) }
          (mkvalAll out :: acc) outs' rest hw2 hI' hb'
        refine ⟨st', ?_, hinv, hb2, hI2⟩
        rw [e2]
        simp

/-- **encode, then decode, any template**: if the bit-free walk of the subsets `ss` over the decoder's
template copy `bsq` goes through, decoding the uncompressed encoding of `ss` returns exactly the
subsets the walk computed, and the dataset is not flagged invalid -/
theorem encode_decode_walk (T : Tables) (edition : Nat) (enforce : Enforce) (fuel s4max : Nat)
    (bsq : List Node) (nbitsSeq : Int) (lenConst : Bool) (ss outs : List (List Node)) (dataFlag : Nat)
    (h : walkAll T edition enforce s4max fuel bsq lenConst nbitsSeq 0 ss = some outs) :
    ∃ st', decodeUncompressed T edition enforce fuel s4max bsq nbitsSeq lenConst 0 0 ss.length 0
        { r := R.ofBytes (padSection4 edition (encodeData ss dataFlag 0).2).bytes, invalid := false } [] =
        .ok (st', outs) ∧ st'.invalid = false := by
  obtain ⟨pad, hb, hI⟩ := encodeData_reader ss dataFlag edition
  obtain ⟨st', e, hinv, _, _⟩ := decodeUncompressed_walk T edition enforce fuel s4max bsq nbitsSeq lenConst 0 0
    (Or.inr (le_refl 0)) ss 0
    { r := R.ofBytes (padSection4 edition (encodeData ss dataFlag 0).2).bytes, invalid := false } [] outs pad h hI hb
  exact ⟨st', by simpa using e, hinv⟩

/-! ### what the walk leaves in each position -/

theorem readBack'_enc (n m : Node) : (readBack' n m).enc = n.enc ∧ (readBack' n m).desc = n.desc := by
  unfold readBack'
  split
  · exact ⟨rfl, rfl⟩
  · split
    · exact ⟨(readBack_enc n m).1.trans (mkvalNode_enc n).1, (readBack_enc n m).2.trans (mkvalNode_enc n).2⟩
    · exact mkvalNode_enc n

/-- the two nodes an expansion puts in place of the replication descriptor and its factor keep their
descriptors, encodings and values — except that a factor without a usable value (missing, or none at
all) is given the value 0, as `bufr_expand_node_descriptor` does -/
theorem expandNodeDecode_heads (T : Tables) (f : Nat) (s4 : Option Nat) (n c31 : Node) (rest : List Node)
    (x y : Node) (more : List Node) (e : Bool)
    (h : expandNodeDecode T f s4 n c31 rest = .ok (x :: y :: more, e)) :
    x.desc = n.desc ∧ x.enc = n.enc ∧ x.val = n.val ∧ y.desc = c31.desc ∧ y.enc = c31.enc ∧
      (y.val = c31.val ∨ (if c31.hasVal then c31.ival else -1) < 0) := by
  unfold expandNodeDecode at h
  simp only at h
  by_cases hc : (if c31.hasVal then c31.ival else -1) < 0
  · simp only [hc, if_true] at h
    repeat' split at h
    all_goals first
      | (simp at h; done)
      | (simp only [Except.ok.injEq, Prod.mk.injEq, List.cons.injEq] at h
         obtain ⟨⟨rfl, rfl, _⟩, _⟩ := h
         exact ⟨rfl, rfl, rfl, rfl, rfl, Or.inr hc⟩)
  · simp only [hc, if_false] at h
    repeat' split at h
    all_goals first
      | (simp at h; done)
      | (simp only [Except.ok.injEq, Prod.mk.injEq, List.cons.injEq] at h
         obtain ⟨⟨rfl, rfl, _⟩, _⟩ := h
         exact ⟨rfl, rfl, rfl, rfl, rfl, Or.inl rfl⟩)

/-- position `o` of the decoded subset faces position `m` of the encoder's: it is the decoder's node
`n1` (descriptor and encoding as Table C application derived them) holding the value `readBack'`
reads from the bits of `m` -/
def Reads (o m : Node) : Prop :=
  ∃ n1 : Node, o.desc = n1.desc ∧ o.enc = n1.enc ∧
    ((n1.flags.skipped = true ∧ nodeBits m = [] ∧ o.val = n1.val) ∨
     (n1.flags.skipped = false ∧ readOKb n1 m = true ∧
        (o.val = (readBack' n1 m).val ∨
         (Desc.x o.desc = 31 ∧ (if (readBack' n1 m).hasVal then (readBack' n1 m).ival else -1) < 0))))

theorem walk_reads (T : Tables) (edition s4max : Nat) (s4len : Int) :
    ∀ (fuel : Nat) (ddo : DDO) (done todo ms out : List Node),
    walk T edition s4max s4len fuel ddo done todo ms = some out →
    ∃ tail, out = done.reverse ++ tail ∧ List.Forall₂ Reads tail ms := by
  intro fuel
  induction fuel with
  | zero => intro ddo done todo ms out h; simp [walk] at h
  | succ f ih =>
    intro ddo done todo ms out h
    cases todo with
    | nil =>
      cases ms with
      | nil =>
        simp [walk] at h
        exact ⟨[], by simp [h], List.Forall₂.nil⟩
      | cons m ms => simp [walk] at h
    | cons n restn =>
      cases ms with
      | nil => simp [walk] at h
      | cons m ms =>
        unfold walk at h
        generalize ha : applyTables2node T edition ddo n = a at h
        obtain ⟨ddo1, n1, err⟩ := a
        simp only at h
        by_cases herr : err = true
        · simp [herr] at h
        have herr' : err = false := by simpa using herr
        subst herr'
        simp only [Bool.false_eq_true, if_false] at h
        by_cases hskeq : n.flags.skipped = n1.flags.skipped
        swap
        · simp [hskeq] at h
        simp only [hskeq, bne_self_eq_false, Bool.false_eq_true, if_false] at h
        by_cases hsk : n1.flags.skipped = true
        · rw [if_pos hsk] at h
          by_cases hm : nodeBits m = []
          swap
          · simp [hm] at h
          rw [if_pos hm] at h
          obtain ⟨tail, e, hf⟩ := ih ddo1 (n1 :: done) restn ms out h
          refine ⟨n1 :: tail, by simp [e], List.Forall₂.cons ?_ hf⟩
          exact ⟨n1, rfl, rfl, Or.inl ⟨hsk, hm, rfl⟩⟩
        · have hsk' : n1.flags.skipped = false := by simpa using hsk
          rw [if_neg hsk] at h
          by_cases hp : readOKb n1 m = true
          swap
          · simp [hp] at h
          simp only [hp, Bool.not_true, Bool.false_eq_true, if_false] at h
          have hrb := readBack'_enc n1 m
          have hself : Reads (readBack' n1 m) m :=
            ⟨n1, hrb.2, hrb.1, Or.inr ⟨hsk', hp, Or.inl rfl⟩⟩
          by_cases hd : Desc.f (readBack' n1 m).desc = 1 ∧ Desc.y (readBack' n1 m).desc = 0
          · rw [if_pos hd] at h
            cases restn with
            | nil => simp at h
            | cons c31 rest' =>
              cases ms with
              | nil => simp at h
              | cons mc ms' =>
                simp only at h
                by_cases h31 : Desc.f c31.desc = 0 ∧ Desc.x c31.desc = 31
                · rw [if_pos h31] at h
                  by_cases hc : (readOKb c31 mc && !c31.flags.skipped && (mkvalNode c31).val.isSome) = true
                  swap
                  · simp [hc] at h
                  simp only [hc, Bool.not_true, Bool.false_eq_true, if_false] at h
                  simp only [Bool.and_eq_true, Bool.not_eq_true'] at hc
                  obtain ⟨⟨hcp, hcs⟩, hcv⟩ := hc
                  have hrbc : readBack' c31 mc = readBack c31 mc := by simp [readBack', hcs, hcv]
                  generalize hx : expandNodeDecode T f (some s4max) (readBack' n1 m) (readBack c31 mc) rest' = xr at h
                  match xr, h with
                  | .ok (x :: y :: more, false), h =>
                    simp only at h
                    by_cases hg : (s4len + minSeqLength (done.reverse ++ x :: y :: more)) / 8 > (s4max : Int) * 3
                    · simp [hg] at h
                    rw [if_neg hg] at h
                    obtain ⟨tail, e, hf⟩ := ih _ (y :: x :: done) more ms' out h
                    obtain ⟨hx1, hx2, hx3, hy1, hy2, hy3⟩ := expandNodeDecode_heads T f (some s4max) _ _ _ x y more false hx
                    have hrc := readBack'_enc c31 mc
                    refine ⟨x :: y :: tail, by simp [e], List.Forall₂.cons ?_ (List.Forall₂.cons ?_ hf)⟩
                    · exact ⟨n1, hx1.trans hrb.2, hx2.trans hrb.1, Or.inr ⟨hsk', hp, Or.inl hx3⟩⟩
                    · refine ⟨c31, ?_, ?_, Or.inr ⟨hcs, hcp, ?_⟩⟩
                      · rw [hy1, ← hrbc]; exact hrc.2
                      · rw [hy2, ← hrbc]; exact hrc.1
                      · rw [hrbc]
                        rcases hy3 with h1 | h2
                        · exact Or.inl h1
                        · refine Or.inr ⟨?_, h2⟩
                          rw [hy1, ← hrbc, hrc.2]; exact h31.2
                · rw [if_neg h31] at h
                  obtain ⟨tail, e, hf⟩ := ih _ (readBack' n1 m :: done) (c31 :: rest') (mc :: ms') out h
                  exact ⟨readBack' n1 m :: tail, by simp [e], List.Forall₂.cons hself hf⟩
          · rw [if_neg hd] at h
            obtain ⟨tail, e, hf⟩ := ih _ (readBack' n1 m :: done) restn ms out h
            exact ⟨readBack' n1 m :: tail, by simp [e], List.Forall₂.cons hself hf⟩

end Bufr
