import BufrModel.Tables
/-
  T-Cache / T-Tables: helper lemmas for C12.

  §1  the libc contracts (`Libc.Contract`) and the proof that the concrete `glibc` meets them
  §2  searching a strictly sorted array = `find?` (from the contract only)
  §3  `lookupSpec`, `CacheInv`, and `fetchB`
  §4  `mergeB` / loads
  §5  version selection
  §6  Table D loop check
  §7  fixed-column line parsing
-/
namespace Bufr.Tbl

/-! ## §1 contracts -/

/-- what the C standard promises about `bsearch` and `qsort` -/
structure Libc.Contract (L : Libc) : Prop where
  /-- `bsearch` only ever returns an element that compares equal -/
  bsearch_sound : ∀ keys k i, L.bsearch keys k = some i → keys[i]? = some k
  /-- on an array sorted by the comparison function it finds an equal element if there is one -/
  bsearch_complete : ∀ keys k, keys.Pairwise (· ≤ ·) → k ∈ keys → (L.bsearch keys k).isSome = true
  qsort_perm : ∀ {α : Type} (f : α → Nat) (xs : List α), (L.qsort f xs).Perm xs
  qsort_sorted : ∀ {α : Type} (f : α → Nat) (xs : List α), (L.qsort f xs).Pairwise (fun a b => f a ≤ f b)

theorem bsearchGo_sound (keys : List Nat) (k : Nat) :
    ∀ fuel l u i, u ≤ keys.length → bsearchGo keys k fuel l u = some i → keys[i]? = some k := by
  intro fuel
  induction fuel with
  | zero => intro l u i _ h; simp [bsearchGo] at h
  | succ n ih =>
    intro l u i hu h
    unfold bsearchGo at h
    by_cases hlu : l < u
    · simp only [hlu, if_true] at h
      have hidx : (l + u) / 2 < keys.length := by omega
      by_cases h1 : k < keys.getD ((l + u) / 2) 0
      · simp only [h1, if_true] at h
        exact ih l ((l + u) / 2) i (by omega) h
      · simp only [h1, if_false] at h
        by_cases h2 : keys.getD ((l + u) / 2) 0 < k
        · simp only [h2, if_true] at h
          exact ih ((l + u) / 2 + 1) u i hu h
        · simp only [h2, if_false] at h
          injection h with h
          subst h
          have : keys.getD ((l + u) / 2) 0 = k := by omega
          rw [List.getD_eq_getElem?_getD] at this
          rw [List.getElem?_eq_getElem hidx] at this ⊢
          simp at this
          rw [this]
    · simp [hlu] at h

theorem bsearchGo_complete (keys : List Nat) (k : Nat) (hs : keys.Pairwise (· ≤ ·)) :
    ∀ fuel l u, u ≤ keys.length → u - l < fuel →
      (∃ j, l ≤ j ∧ j < u ∧ keys[j]? = some k) → (bsearchGo keys k fuel l u).isSome = true := by
  rw [List.pairwise_iff_getElem] at hs
  intro fuel
  induction fuel with
  | zero => intro l u _ h; omega
  | succ n ih =>
    intro l u hu hf ⟨j, hlj, hju, hj⟩
    unfold bsearchGo
    have hlu : l < u := by omega
    simp only [hlu, if_true]
    have hidx : (l + u) / 2 < keys.length := by omega
    have hjl : j < keys.length := by omega
    have hgd : keys.getD ((l + u) / 2) 0 = keys[(l + u) / 2] := by
      rw [List.getD_eq_getElem?_getD, List.getElem?_eq_getElem hidx]; rfl
    have hjv : keys[j] = k := by
      rw [List.getElem?_eq_getElem hjl] at hj; exact Option.some.inj hj
    by_cases h1 : k < keys.getD ((l + u) / 2) 0
    · simp only [h1, if_true]
      apply ih l ((l + u) / 2) (by omega) (by omega)
      refine ⟨j, hlj, ?_, hj⟩
      rcases Nat.lt_or_ge j ((l + u) / 2) with hok | hge
      · exact hok
      · exfalso
        rcases Nat.lt_or_ge ((l + u) / 2) j with hlt | hge'
        · have := hs ((l + u) / 2) j hidx hjl hlt
          rw [hgd] at h1; omega
        · have : (l + u) / 2 = j := by omega
          subst this; rw [hgd] at h1; omega
    · simp only [h1, if_false]
      by_cases h2 : keys.getD ((l + u) / 2) 0 < k
      · simp only [h2, if_true]
        apply ih ((l + u) / 2 + 1) u hu (by omega)
        refine ⟨j, ?_, hju, hj⟩
        rcases Nat.lt_or_ge ((l + u) / 2) j with hok | hle
        · exact hok
        · exfalso
          rcases Nat.lt_or_ge j ((l + u) / 2) with hlt | hge'
          · have := hs j ((l + u) / 2) hjl hidx hlt
            rw [hgd] at h2; omega
          · have : (l + u) / 2 = j := by omega
            subst this; rw [hgd] at h2; omega
      · simp only [h2, if_false]; rfl

theorem insertBy_perm {α : Type} (f : α → Nat) (x : α) (ys : List α) : (insertBy f x ys).Perm (x :: ys) := by
  induction ys with
  | nil => simp [insertBy]
  | cons y ys ih =>
    unfold insertBy
    by_cases h : f x ≤ f y
    · simp [h]
    · simp only [h, if_false]
      exact (List.Perm.cons y ih).trans (List.Perm.swap x y ys)

theorem insertBy_sorted {α : Type} (f : α → Nat) (x : α) (ys : List α)
    (h : ys.Pairwise (fun a b => f a ≤ f b)) : (insertBy f x ys).Pairwise (fun a b => f a ≤ f b) := by
  induction ys with
  | nil => simp [insertBy]
  | cons y ys ih =>
    unfold insertBy
    rw [List.pairwise_cons] at h
    by_cases hxy : f x ≤ f y
    · simp only [hxy, if_true]
      rw [List.pairwise_cons]
      refine ⟨?_, List.pairwise_cons.mpr h⟩
      intro a ha
      rcases List.mem_cons.mp ha with rfl | ha
      · exact hxy
      · exact Nat.le_trans hxy (h.1 a ha)
    · simp only [hxy, if_false]
      rw [List.pairwise_cons]
      refine ⟨?_, ih h.2⟩
      intro a ha
      have := (insertBy_perm f x ys).mem_iff.mp ha
      rcases List.mem_cons.mp this with rfl | ha'
      · omega
      · exact h.1 a ha'

theorem isort_perm {α : Type} (f : α → Nat) (xs : List α) : (isort f xs).Perm xs := by
  induction xs with
  | nil => simp [isort]
  | cons x xs ih =>
    have : isort f (x :: xs) = insertBy f x (isort f xs) := rfl
    rw [this]
    exact (insertBy_perm f x _).trans (List.Perm.cons x ih)

theorem isort_sorted {α : Type} (f : α → Nat) (xs : List α) : (isort f xs).Pairwise (fun a b => f a ≤ f b) := by
  induction xs with
  | nil => simp [isort]
  | cons x xs ih =>
    have : isort f (x :: xs) = insertBy f x (isort f xs) := rfl
    rw [this]
    exact insertBy_sorted f x _ ih

/-- the routines the driver runs meet the contracts -/
theorem glibc_contract : glibc.Contract where
  bsearch_sound := by
    intro keys k i h
    exact bsearchGo_sound keys k _ 0 keys.length i (Nat.le_refl _) h
  bsearch_complete := by
    intro keys k hs hk
    obtain ⟨j, hj, hjk⟩ := List.mem_iff_getElem.mp hk
    apply bsearchGo_complete keys k hs _ 0 keys.length (Nat.le_refl _) (by omega)
    exact ⟨j, Nat.zero_le _, hj, by rw [List.getElem?_eq_getElem hj, hjk]⟩
  qsort_perm := fun f xs => isort_perm f xs
  qsort_sorted := fun f xs => isort_sorted f xs

/-! ## §2 searching a strictly sorted array -/

/-- what a correct search of the array returns: the first pointer whose entry has key `d` -/
def findId (h : Heap) (arr : List Nat) (d : Nat) : Option Nat := arr.find? (fun id => keyOf h id == d)

def lookupArr (h : Heap) (arr : List Nat) (d : Nat) : Option EntryB := (findId h arr d).bind (deref h)

theorem keysOf_getElem? (h : Heap) (arr : List Nat) (i : Nat) :
    (keysOf h arr)[i]? = (arr[i]?).map (keyOf h) := by
  unfold keysOf; rw [List.getElem?_map]

theorem lt_pairwise_le {l : List Nat} (hs : l.Pairwise (· < ·)) : l.Pairwise (· ≤ ·) :=
  hs.imp (fun h => Nat.le_of_lt h)

theorem lt_pairwise_nodup {l : List Nat} (hs : l.Pairwise (· < ·)) : l.Nodup := by
  rw [List.nodup_iff_pairwise_ne]
  exact hs.imp (fun h => Nat.ne_of_lt h)

theorem le_nodup_pairwise_lt {l : List Nat} (h1 : l.Pairwise (· ≤ ·)) (h2 : l.Nodup) : l.Pairwise (· < ·) := by
  rw [List.nodup_iff_pairwise_ne] at h2
  exact (h1.and h2).imp (fun h => Nat.lt_of_le_of_ne h.1 h.2)

/-- any search that honours the contract returns, on a strictly sorted array, exactly the pointer
with that key, and NULL when there is none -/
theorem searchB_eq_findId (L : Libc) (hL : L.Contract) (h : Heap) (arr : List Nat) (d : Nat)
    (hs : (keysOf h arr).Pairwise (· < ·)) : searchB L h arr d = findId h arr d := by
  unfold searchB findId
  cases hf : arr.find? (fun id => keyOf h id == d) with
  | none =>
    rw [List.find?_eq_none] at hf
    cases hb : L.bsearch (keysOf h arr) d with
    | none => rfl
    | some i =>
      exfalso
      have := hL.bsearch_sound _ _ _ hb
      rw [keysOf_getElem?] at this
      cases hi : arr[i]? with
      | none => rw [hi] at this; simp at this
      | some id =>
        rw [hi] at this
        simp at this
        have hmem : id ∈ arr := List.mem_of_getElem? hi
        exact hf id hmem (by simp [this])
  | some id =>
    obtain ⟨hp, as, bs, harr, has⟩ := List.find?_eq_some_iff_append.mp hf
    have hkey : keyOf h id = d := by simpa using hp
    have hmem : d ∈ keysOf h arr := by
      unfold keysOf; rw [harr]; simp [hkey]
    have hsome := hL.bsearch_complete _ _ (lt_pairwise_le hs) hmem
    cases hb : L.bsearch (keysOf h arr) d with
    | none => rw [hb] at hsome; simp at hsome
    | some i =>
      have hsound := hL.bsearch_sound _ _ _ hb
      have hlen : i < (keysOf h arr).length := by
        rcases Nat.lt_or_ge i (keysOf h arr).length with hlt | hge
        · exact hlt
        · rw [List.getElem?_eq_none hge] at hsound; simp at hsound
      have hj : as.length < (keysOf h arr).length := by unfold keysOf; rw [harr]; simp
      have hkj : (keysOf h arr)[as.length] = d := by
        have : (keysOf h arr)[as.length]? = some d := by
          rw [keysOf_getElem?, harr]; simp [hkey]
        rw [List.getElem?_eq_getElem hj] at this; exact Option.some.inj this
      have hki : (keysOf h arr)[i] = d := by
        rw [List.getElem?_eq_getElem hlen] at hsound; exact Option.some.inj hsound
      have heq : i = as.length := by
        rw [List.pairwise_iff_getElem] at hs
        rcases Nat.lt_trichotomy i as.length with hlt | heq | hgt
        · have := hs i as.length hlen hj hlt; omega
        · exact heq
        · have := hs as.length i hj hlen hgt; omega
      subst heq
      simp [harr]

/-! ## §3 the specification of a lookup, the cache invariant, `fetchB` -/

/-- the Table B entries of a set, as values, in array order -/
def contentB (h : Heap) (arr : Option (List Nat)) : List EntryB := (arr.getD []).filterMap (deref h)

def findE (es : List EntryB) (d : Nat) : Option EntryB := es.find? (fun e => e.desc == d)

def isNonB (d : Nat) : Prop := fOf d = 1 ∨ fOf d = 2 ∨ fOf d = 3
instance (d : Nat) : Decidable (isNonB d) := by unfold isNonB; exact inferInstance

/-- **the specification**: Table C/D/replication descriptors have no entry; otherwise the local
entry if there is one, else the master entry -/
def lookupSpec (loc mas : List EntryB) (d : Nat) : Option EntryB :=
  if isNonB d then none
  else match findE loc d with
    | some e => some e
    | none => findE mas d

def AllLive (h : Heap) (arr : List Nat) : Prop := ∀ id ∈ arr, ∃ e, deref h id = some e

theorem keyOf_of_deref {h : Heap} {id : Nat} {e : EntryB} (he : deref h id = some e) : keyOf h id = e.desc := by
  unfold keyOf; rw [he]

theorem findE_content (h : Heap) (arr : List Nat) (d : Nat) (hl : AllLive h arr) :
    findE (contentB h (some arr)) d = lookupArr h arr d := by
  unfold findE contentB lookupArr findId
  simp only [Option.getD_some]
  induction arr with
  | nil => simp
  | cons id rest ih =>
    obtain ⟨e, he⟩ := hl id (List.mem_cons_self)
    have hl' : AllLive h rest := fun x hx => hl x (List.mem_cons_of_mem _ hx)
    rw [List.filterMap_cons, he]
    simp only [List.find?_cons, keyOf_of_deref he]
    by_cases hk : e.desc == d
    · simp [hk, he]
    · simp only [hk]
      exact ih hl'

/-- a set (master or local Table B) is in order: pointers live, keys strictly increasing -/
structure SetOK (h : Heap) (arr : Option (List Nat)) : Prop where
  live : AllLive h (arr.getD [])
  sorted : (keysOf h (arr.getD [])).Pairwise (· < ·)

def specOf (h : Heap) (t : BTables) (d : Nat) : Option EntryB :=
  lookupSpec (contentB h t.loc.tableB) (contentB h t.master.tableB) d

/-- the *pointer* a walk of correctly searched tables yields (local first) -/
def specPtr (h : Heap) (t : BTables) (d : Nat) : Option Nat :=
  if isNonB d then none
  else match findId h (t.loc.tableB.getD []) d with
    | some id => some id
    | none => findId h (t.master.tableB.getD []) d

/-- a pointer the cache may hold: live, and it *is* the pointer the tables give for its key -/
def GoodPtr (h : Heap) (t : BTables) (id : Nat) : Prop :=
  ∃ e, deref h id = some e ∧ specPtr h t e.desc = some id

/-- **the cache invariant** -/
structure CacheInv (h : Heap) (t : BTables) : Prop where
  mas : SetOK h t.master.tableB
  loc : SetOK h t.loc.tableB
  /-- local and master arrays own different entries -/
  disj : ∀ id ∈ t.loc.tableB.getD [], id ∉ t.master.tableB.getD []
  cacheSorted : (keysOf h (t.cache.getD [])).Pairwise (· < ·)
  cacheGood : ∀ id ∈ t.cache.getD [], GoodPtr h t id
  lastGood : ∀ id, t.last = some id → GoodPtr h t id

theorem findE_content' (h : Heap) (arr : Option (List Nat)) (d : Nat) (hl : AllLive h (arr.getD [])) :
    findE (contentB h arr) d = lookupArr h (arr.getD []) d := by
  cases arr with
  | none => simp [contentB, findE, lookupArr, findId]
  | some a => exact findE_content h a d hl

theorem findId_mem {h : Heap} {arr : List Nat} {d id : Nat} (hf : findId h arr d = some id) :
    id ∈ arr ∧ keyOf h id = d := by
  unfold findId at hf
  exact ⟨List.mem_of_find?_eq_some hf, by simpa using List.find?_some hf⟩

theorem findId_none {h : Heap} {arr : List Nat} {d : Nat} (hf : findId h arr d = none) :
    d ∉ keysOf h arr := by
  unfold findId at hf
  rw [List.find?_eq_none] at hf
  intro hmem
  unfold keysOf at hmem
  obtain ⟨id, hid, hk⟩ := List.mem_map.mp hmem
  exact hf id hid (by simp [hk])

/-- the specification is the entry behind the specified pointer -/
theorem specOf_eq_ptr (h : Heap) (t : BTables) (d : Nat) (hm : SetOK h t.master.tableB) (hl : SetOK h t.loc.tableB) :
    specOf h t d = (specPtr h t d).bind (deref h) := by
  unfold specOf lookupSpec specPtr
  by_cases hF : isNonB d
  · simp [hF]
  · simp only [hF, if_false]
    rw [findE_content' h _ d hl.live, findE_content' h _ d hm.live]
    unfold lookupArr
    cases hf : findId h (t.loc.tableB.getD []) d with
    | none => simp
    | some id =>
      obtain ⟨e, he⟩ := hl.live id (findId_mem hf).1
      simp [he]

/-- `tableSearch` (local first, then master; any contract-abiding `bsearch`) finds the specified pointer -/
theorem tableSearch_eq (L : Libc) (hL : L.Contract) (h : Heap) (t : BTables) (d : Nat)
    (hm : SetOK h t.master.tableB) (hl : SetOK h t.loc.tableB) :
    tableSearch L h t d = match findId h (t.loc.tableB.getD []) d with
      | some id => some id
      | none => findId h (t.master.tableB.getD []) d := by
  unfold tableSearch
  rw [searchB_eq_findId L hL h (t.master.tableB.getD []) d hm.sorted]
  cases hloc : t.loc.tableB with
  | none => simp [findId]
  | some a =>
    have hls : (keysOf h a).Pairwise (· < ·) := by have := hl.sorted; rw [hloc] at this; exact this
    simp only [Option.getD_some]
    rw [searchB_eq_findId L hL h a d hls]
    cases findId h a d <;> rfl

theorem specPtr_congr (h : Heap) (t t' : BTables) (hm : t'.master = t.master) (hl : t'.loc = t.loc) (d : Nat) :
    specPtr h t' d = specPtr h t d := by unfold specPtr; rw [hm, hl]

theorem specOf_congr (h : Heap) (t t' : BTables) (hm : t'.master = t.master) (hl : t'.loc = t.loc) (d : Nat) :
    specOf h t' d = specOf h t d := by unfold specOf; rw [hm, hl]

theorem GoodPtr_congr (h : Heap) (t t' : BTables) (hm : t'.master = t.master) (hl : t'.loc = t.loc) (id : Nat) :
    GoodPtr h t' id ↔ GoodPtr h t id := by
  unfold GoodPtr; simp only [specPtr_congr h t t' hm hl]

theorem GoodPtr_spec {h : Heap} {t : BTables} {id : Nat} {e : EntryB} (hm : SetOK h t.master.tableB)
    (hl : SetOK h t.loc.tableB) (he : deref h id = some e) (hp : specPtr h t e.desc = some id) :
    specOf h t e.desc = some e := by
  rw [specOf_eq_ptr h t _ hm hl, hp]; simpa using he

theorem fetchSlow_spec (L : Libc) (hL : L.Contract) (h : Heap) (t : BTables) (c : List Nat) (d : Nat)
    (hI : CacheInv h t) (hc : c = t.cache.getD []) (hmiss : findId h c d = none) :
    (fetchSlow L h t c d).1 = some (specOf h t d) ∧ CacheInv h (fetchSlow L h t c d).2 ∧
    (fetchSlow L h t c d).2.master = t.master ∧ (fetchSlow L h t c d).2.loc = t.loc := by
  have hI1 : CacheInv h { t with cache := some c } :=
    { mas := hI.mas, loc := hI.loc, disj := hI.disj
      cacheSorted := by simp only [Option.getD_some]; rw [hc]; exact hI.cacheSorted
      cacheGood := by
        intro id hid; simp only [Option.getD_some] at hid; rw [hc] at hid
        exact (GoodPtr_congr h t _ rfl rfl id).mpr (hI.cacheGood id hid)
      lastGood := fun id hid => (GoodPtr_congr h t _ rfl rfl id).mpr (hI.lastGood id hid) }
  unfold fetchSlow
  dsimp only
  by_cases hF : (fOf d == 1 || fOf d == 2 || fOf d == 3) = true
  · rw [if_pos hF]
    refine ⟨?_, hI1, rfl, rfl⟩
    have : isNonB d := by
      unfold isNonB
      simp only [Bool.or_eq_true, beq_iff_eq] at hF
      rcases hF with (h1 | h2) | h3
      · exact Or.inl h1
      · exact Or.inr (Or.inl h2)
      · exact Or.inr (Or.inr h3)
    unfold specOf lookupSpec; simp [this]
  · rw [if_neg hF]
    have hF' : ¬ isNonB d := by
      unfold isNonB
      intro hh; apply hF
      simp only [Bool.or_eq_true, beq_iff_eq]
      rcases hh with h1 | h2 | h3
      · exact Or.inl (Or.inl h1)
      · exact Or.inl (Or.inr h2)
      · exact Or.inr h3
    have hts : tableSearch L h { t with cache := some c } d = tableSearch L h t d := rfl
    rw [hts]
    have hT := tableSearch_eq L hL h t d hI.mas hI.loc
    have hP : specPtr h t d = tableSearch L h t d := by unfold specPtr; rw [if_neg hF', hT]
    have hS := specOf_eq_ptr h t d hI.mas hI.loc
    rw [hP] at hS
    generalize hr : (tableSearch L h t d) = r at hS hP hT ⊢
    cases r with
    | none =>
      refine ⟨?_, hI1, rfl, rfl⟩
      rw [hS]; rfl
    | some id =>
      have hmemkey : (id ∈ t.loc.tableB.getD [] ∨ id ∈ t.master.tableB.getD []) ∧ keyOf h id = d := by
        cases hf : findId h (t.loc.tableB.getD []) d with
        | some x =>
          rw [hf] at hT; simp only [Option.some.injEq] at hT
          have := findId_mem hf; rw [← hT] at this; exact ⟨Or.inl this.1, this.2⟩
        | none =>
          rw [hf] at hT; simp only at hT
          have := findId_mem hT.symm; exact ⟨Or.inr this.1, this.2⟩
      obtain ⟨e, he⟩ : ∃ e, deref h id = some e := by
        rcases hmemkey.1 with h1 | h1
        · exact hI.loc.live id h1
        · exact hI.mas.live id h1
      have hed : e.desc = d := by rw [← keyOf_of_deref he]; exact hmemkey.2
      have hgood : GoodPtr h t id := ⟨e, he, by rw [hed]; exact hP⟩
      refine ⟨?_, ?_, rfl, rfl⟩
      · show some (deref h id) = some (specOf h t d)
        rw [hS]; rfl
      · have hperm : (sortB L h (c ++ [id])).Perm (c ++ [id]) := hL.qsort_perm _ _
        refine { mas := hI.mas, loc := hI.loc, disj := hI.disj, cacheSorted := ?_, cacheGood := ?_, lastGood := ?_ }
        · simp only [Option.getD_some]
          apply le_nodup_pairwise_lt
          · unfold keysOf; rw [List.pairwise_map]; exact hL.qsort_sorted _ _
          · have hpk : (keysOf h (sortB L h (c ++ [id]))).Perm (keysOf h (c ++ [id])) := hperm.map _
            rw [hpk.nodup_iff]
            unfold keysOf
            rw [List.map_append, List.nodup_append]
            refine ⟨?_, by simp, ?_⟩
            · have := lt_pairwise_nodup hI.cacheSorted; rw [← hc] at this; exact this
            · intro a ha b hb
              simp only [List.map_cons, List.map_nil, List.mem_singleton] at hb
              rw [hb, keyOf_of_deref he, hed]
              intro hab; rw [hab] at ha
              exact findId_none hmiss ha
        · intro x hx
          simp only [Option.getD_some] at hx
          have hx' := hperm.mem_iff.mp hx
          apply (GoodPtr_congr h t _ rfl rfl x).mpr
          rcases List.mem_append.mp hx' with hx1 | hx2
          · rw [hc] at hx1; exact hI.cacheGood x hx1
          · simp only [List.mem_singleton] at hx2; rw [hx2]; exact hgood
        · intro x hx
          simp only [Option.some.injEq] at hx
          apply (GoodPtr_congr h t _ rfl rfl x).mpr
          rw [← hx]; exact hgood

/-- **T-Cache**: under the invariant, `bufr_fetch_tableB` returns what the specification says,
whatever was looked up before, and keeps the invariant; the tables themselves are untouched -/
theorem fetchB_spec (L : Libc) (hL : L.Contract) (h : Heap) (t : BTables) (d : Nat) (hI : CacheInv h t) :
    (fetchB L h t d).1 = some (specOf h t d) ∧ CacheInv h (fetchB L h t d).2 ∧
    (fetchB L h t d).2.master = t.master ∧ (fetchB L h t d).2.loc = t.loc := by
  have hcache : (fetchB.fetchCache L h t d).1 = some (specOf h t d) ∧ CacheInv h (fetchB.fetchCache L h t d).2 ∧
      (fetchB.fetchCache L h t d).2.master = t.master ∧ (fetchB.fetchCache L h t d).2.loc = t.loc := by
    unfold fetchB.fetchCache
    cases hc : t.cache with
    | none =>
      simp only
      exact fetchSlow_spec L hL h t [] d hI (by rw [hc]; rfl) (by simp [findId])
    | some c =>
      simp only
      have hlive : c.all (live h) = true := by
        rw [List.all_eq_true]
        intro id hid
        obtain ⟨e, he, _⟩ := hI.cacheGood id (by rw [hc]; exact hid)
        unfold live; rw [he]; rfl
      simp only [hlive, Bool.not_true, Bool.false_eq_true, if_false]
      have hcs : (keysOf h c).Pairwise (· < ·) := by have := hI.cacheSorted; rw [hc] at this; exact this
      rw [searchB_eq_findId L hL h c d hcs]
      cases hf : findId h c d with
      | none =>
        simp only
        exact fetchSlow_spec L hL h t c d hI (by rw [hc]; rfl) hf
      | some id =>
        simp only
        obtain ⟨hmem, hk⟩ := findId_mem hf
        have hg := hI.cacheGood id (by rw [hc]; exact hmem)
        obtain ⟨e, he, hs⟩ := hg
        have hed : e.desc = d := by rw [← keyOf_of_deref he]; exact hk
        refine ⟨?_, ?_, by first | rfl | trivial, by first | rfl | trivial⟩
        · rw [he, ← hed, GoodPtr_spec hI.mas hI.loc he hs]
        · exact { mas := hI.mas, loc := hI.loc, disj := hI.disj
                  cacheSorted := by simp only [Option.getD_some]; exact hcs
                  cacheGood := by
                    intro x hx
                    simp only [Option.getD_some] at hx
                    exact (GoodPtr_congr h t _ rfl rfl x).mpr (hI.cacheGood x (by rw [hc]; exact hx))
                  lastGood := by
                    intro x hx
                    simp only [Option.some.injEq] at hx
                    apply (GoodPtr_congr h t _ rfl rfl x).mpr
                    rw [← hx]; exact ⟨e, he, hs⟩ }
  unfold fetchB
  cases hlast : t.last with
  | none => simp only; exact hcache
  | some id =>
    simp only
    obtain ⟨e, he, hs⟩ := hI.lastGood id hlast
    rw [he]
    simp only
    by_cases hd : (e.desc == d) = true
    · simp only [hd, if_true]
      have : e.desc = d := by simpa using hd
      refine ⟨?_, hI, by first | rfl | trivial, by first | rfl | trivial⟩
      rw [← this, GoodPtr_spec hI.mas hI.loc he hs]
    · simp only [hd]
      exact hcache

/-! ## §4 heap facts, `mergeB`, loads -/

theorem deref_eq (h : Heap) (id : Nat) : deref h id = (h[id]?).getD none := by
  unfold deref; rw [Array.getD_eq_getD_getElem?]

theorem deref_lt_size {h : Heap} {id : Nat} {e : EntryB} (he : deref h id = some e) : id < h.size := by
  rcases Nat.lt_or_ge id h.size with hlt | hge
  · exact hlt
  · rw [deref_eq, Array.getElem?_eq_none hge] at he; simp at he

theorem deref_set_self {h : Heap} {id : Nat} (v : Option EntryB) (hlt : id < h.size) :
    deref (h.setIfInBounds id v) id = v := by
  rw [deref_eq, Array.getElem?_setIfInBounds]; simp [hlt]

theorem deref_set_other {h : Heap} {id x : Nat} (v : Option EntryB) (hne : x ≠ id) :
    deref (h.setIfInBounds id v) x = deref h x := by
  rw [deref_eq, deref_eq, Array.getElem?_setIfInBounds]
  have : ¬ id = x := fun hh => hne hh.symm
  simp [this]

theorem deref_push_lt {h : Heap} {x : Nat} (v : Option EntryB) (hlt : x < h.size) :
    deref (h.push v) x = deref h x := by
  rw [deref_eq, deref_eq, Array.getElem?_push]
  have : ¬ x = h.size := by omega
  simp [this]

theorem deref_push_self (h : Heap) (v : Option EntryB) : deref (h.push v) h.size = v := by
  rw [deref_eq, Array.getElem?_push]; simp

theorem keyOf_congr {h h' : Heap} {x : Nat} (hd : deref h' x = deref h x) : keyOf h' x = keyOf h x := by
  unfold keyOf; rw [hd]

theorem keysOf_congr {h h' : Heap} {arr : List Nat} (hk : ∀ x ∈ arr, keyOf h' x = keyOf h x) :
    keysOf h' arr = keysOf h arr := by
  unfold keysOf; exact List.map_congr_left hk

theorem findId_congr {h h' : Heap} {arr : List Nat} (hk : ∀ x ∈ arr, keyOf h' x = keyOf h x) (d : Nat) :
    findId h' arr d = findId h arr d := by
  unfold findId
  induction arr with
  | nil => rfl
  | cons a rest ih =>
    simp only [List.find?_cons, hk a (List.mem_cons_self)]
    rw [ih (fun x hx => hk x (List.mem_cons_of_mem _ hx))]

/-- soundness alone: whatever the order of the array, a returned pointer is in it and has the key -/
theorem searchB_sound (L : Libc) (hL : L.Contract) (h : Heap) (arr : List Nat) (d id : Nat)
    (hs : searchB L h arr d = some id) : id ∈ arr ∧ keyOf h id = d := by
  unfold searchB at hs
  cases hb : L.bsearch (keysOf h arr) d with
  | none => rw [hb] at hs; simp at hs
  | some i =>
    rw [hb] at hs
    simp only [Option.map_some, Option.some.injEq] at hs
    have hsnd := hL.bsearch_sound _ _ _ hb
    rw [keysOf_getElem?] at hsnd
    cases hi : arr[i]? with
    | none => rw [hi] at hsnd; simp at hsnd
    | some x =>
      rw [hi] at hsnd
      simp only [Option.map_some, Option.some.injEq] at hsnd
      have : arr.getD i 0 = x := by rw [List.getD_eq_getElem?_getD, hi]; rfl
      rw [this] at hs
      subst hs
      exact ⟨List.mem_of_getElem? hi, hsnd⟩

structure ArrOK (h : Heap) (arr : List Nat) : Prop where
  live : AllLive h arr
  nodupKeys : (keysOf h arr).Nodup

theorem findId_unique {h : Heap} {arr : List Nat} {d id : Nat} (hn : (keysOf h arr).Nodup)
    (hmem : id ∈ arr) (hk : keyOf h id = d) : findId h arr d = some id := by
  unfold findId
  induction arr with
  | nil => simp at hmem
  | cons a rest ih =>
    simp only [List.find?_cons]
    by_cases ha : (keyOf h a == d) = true
    · simp only [ha]
      have hka : keyOf h a = d := by simpa using ha
      rcases List.mem_cons.mp hmem with rfl | hr
      · rfl
      · exfalso
        unfold keysOf at hn
        rw [List.map_cons, List.nodup_cons] at hn
        apply hn.1
        rw [hka, ← hk]
        exact List.mem_map_of_mem hr
    · simp only [ha]
      rcases List.mem_cons.mp hmem with rfl | hr
      · exfalso; apply ha; simp [hk]
      · apply ih _ hr
        unfold keysOf at hn ⊢
        rw [List.map_cons, List.nodup_cons] at hn
        exact hn.2

def updF (f : Nat → Option EntryB) (e : EntryB) : Nat → Option EntryB :=
  fun d => if d = e.desc then some e else f d

/-- one iteration of the loop of `bufr_merge_tableB`, overwrite-in-place case -/
theorem merge_step_found (h : Heap) (arr : List Nat) (e2 : EntryB) (id : Nat) (hA : ArrOK h arr)
    (hmem : id ∈ arr) (hk : keyOf h id = e2.desc) :
    let h1 := h.setIfInBounds id (some e2)
    ArrOK h1 arr ∧ (∀ x, keyOf h1 x = keyOf h x) ∧ (∀ x, x ≠ id → deref h1 x = deref h x) ∧
    deref h1 id = some e2 ∧ h1.size = h.size ∧
    (∀ d, lookupArr h1 arr d = updF (lookupArr h arr) e2 d) := by
  intro h1
  obtain ⟨e0, he0⟩ := hA.live id hmem
  have hlt := deref_lt_size he0
  have hself : deref h1 id = some e2 := deref_set_self _ hlt
  have hother : ∀ x, x ≠ id → deref h1 x = deref h x := fun x hx => deref_set_other _ hx
  have hkeys : ∀ x, keyOf h1 x = keyOf h x := by
    intro x
    by_cases hx : x = id
    · subst hx; rw [keyOf_of_deref hself, hk]
    · exact keyOf_congr (hother x hx)
  have hlive : AllLive h1 arr := by
    intro x hx
    by_cases hxi : x = id
    · subst hxi; exact ⟨e2, hself⟩
    · rw [hother x hxi]; exact hA.live x hx
  refine ⟨⟨hlive, ?_⟩, hkeys, hother, hself, Array.size_setIfInBounds, ?_⟩
  · rw [keysOf_congr (fun x _ => hkeys x)]; exact hA.nodupKeys
  · intro d
    unfold lookupArr updF
    rw [findId_congr (fun x _ => hkeys x)]
    by_cases hd : d = e2.desc
    · subst hd
      simp only [if_true]
      rw [findId_unique hA.nodupKeys hmem hk]
      simpa using hself
    · simp only [hd, if_false]
      cases hf : findId h arr d with
      | none => rfl
      | some x =>
        have := findId_mem hf
        have hxi : x ≠ id := by
          intro hh; subst hh; rw [hk] at this; exact hd this.2.symm
        simp only [Option.bind_some]
        exact hother x hxi

/-- one iteration, append case (`e2.desc` is not a key of the array) -/
theorem merge_step_new (h : Heap) (arr : List Nat) (e2 : EntryB) (hA : ArrOK h arr)
    (hnew : e2.desc ∉ keysOf h arr) :
    let h1 := h.push (some e2)
    ArrOK h1 (arr ++ [h.size]) ∧ (∀ x, x < h.size → deref h1 x = deref h x) ∧
    deref h1 h.size = some e2 ∧ h1.size = h.size + 1 ∧
    keysOf h1 (arr ++ [h.size]) = keysOf h arr ++ [e2.desc] ∧
    (∀ d, lookupArr h1 (arr ++ [h.size]) d = updF (lookupArr h arr) e2 d) := by
  intro h1
  have hold : ∀ x, x < h.size → deref h1 x = deref h x := fun x hx => deref_push_lt _ hx
  have hself : deref h1 h.size = some e2 := deref_push_self h _
  have hlt : ∀ x ∈ arr, x < h.size := by
    intro x hx; obtain ⟨e, he⟩ := hA.live x hx; exact deref_lt_size he
  have hkeys : ∀ x ∈ arr, keyOf h1 x = keyOf h x := fun x hx => keyOf_congr (hold x (hlt x hx))
  have hkeysAll : keysOf h1 (arr ++ [h.size]) = keysOf h arr ++ [e2.desc] := by
    unfold keysOf
    rw [List.map_append]
    congr 1
    · exact List.map_congr_left hkeys
    · simp [keyOf_of_deref hself]
  refine ⟨⟨?_, ?_⟩, hold, hself, Array.size_push _, hkeysAll, ?_⟩
  · intro x hx
    rcases List.mem_append.mp hx with hx | hx
    · rw [hold x (hlt x hx)]; exact hA.live x hx
    · simp only [List.mem_singleton] at hx; subst hx; exact ⟨e2, hself⟩
  · rw [hkeysAll, List.nodup_append]
    refine ⟨hA.nodupKeys, by simp, ?_⟩
    intro a ha b hb
    simp only [List.mem_singleton] at hb
    subst hb
    intro hab; subst hab; exact hnew ha
  · intro d
    have happ : findId h1 (arr ++ [h.size]) d = (findId h arr d).or (findId h1 [h.size] d) := by
      have hfc : findId h1 arr d = findId h arr d := findId_congr hkeys d
      rw [← hfc]; unfold findId; rw [List.find?_append]
    have hlast : findId h1 [h.size] d = if e2.desc = d then some h.size else none := by
      unfold findId
      simp only [List.find?_cons, keyOf_of_deref hself, List.find?_nil]
      by_cases hd : e2.desc = d
      · simp [hd]
      · have hb : (e2.desc == d) = false := by simp [hd]
        rw [hb]; simp [hd]
    show (findId h1 (arr ++ [h.size]) d).bind (deref h1) =
      if d = e2.desc then some e2 else (findId h arr d).bind (deref h)
    rw [happ, hlast]
    cases hf : findId h arr d with
    | some x =>
      have hm := findId_mem hf
      have hd : ¬ d = e2.desc := by
        intro hh; apply hnew; rw [← hh, ← hm.2]; exact List.mem_map_of_mem hm.1
      simp only [Option.some_or, Option.bind_some, hd, if_false]
      exact hold x (hlt x hm.1)
    | none =>
      by_cases hd : d = e2.desc
      · subst hd; simp [hself]
      · have : ¬ e2.desc = d := fun hh => hd hh.symm
        simp [this, hd]

theorem findE_none_of_not_mem {es : List EntryB} {d : Nat} (hd : d ∉ es.map (·.desc)) : findE es d = none := by
  unfold findE
  rw [List.find?_eq_none]
  intro x hx hp
  apply hd
  have : x.desc = d := by simpa using hp
  rw [← this]; exact List.mem_map_of_mem hx

theorem look_compose (f : Nat → Option EntryB) (e2 : EntryB) (rest : List EntryB) (d : Nat)
    (hn : ((e2 :: rest).map (·.desc)).Nodup) :
    (match findE rest d with | some e => some e | none => updF f e2 d) =
    (match findE (e2 :: rest) d with | some e => some e | none => f d) := by
  rw [List.map_cons, List.nodup_cons] at hn
  by_cases hd : d = e2.desc
  · subst hd
    rw [findE_none_of_not_mem hn.1]
    simp [findE, updF]
  · have hb : (e2.desc == d) = false := by simp; exact fun hh => hd hh.symm
    have : findE (e2 :: rest) d = findE rest d := by unfold findE; simp [hb]
    rw [this]
    cases findE rest d with
    | some e => rfl
    | none => simp [updF, hd]

theorem lookupArr_none_iff {h : Heap} {arr : List Nat} {d : Nat} (hl : AllLive h arr) :
    lookupArr h arr d = none ↔ findId h arr d = none := by
  unfold lookupArr
  cases hf : findId h arr d with
  | none => simp
  | some id =>
    obtain ⟨e, he⟩ := hl id (findId_mem hf).1
    simp [he]

theorem findId_perm {h : Heap} {arr arr' : List Nat} (hn : (keysOf h arr).Nodup) (hp : arr'.Perm arr) (d : Nat) :
    findId h arr' d = findId h arr d := by
  have hn' : (keysOf h arr').Nodup := by
    have : (keysOf h arr').Perm (keysOf h arr) := hp.map _
    exact this.nodup_iff.mpr hn
  cases hf : findId h arr d with
  | some id =>
    obtain ⟨hm, hk⟩ := findId_mem hf
    exact findId_unique hn' (hp.mem_iff.mpr hm) hk
  | none =>
    have h1 := findId_none hf
    cases hf' : findId h arr' d with
    | none => rfl
    | some id =>
      exfalso
      obtain ⟨hm, hk⟩ := findId_mem hf'
      apply h1; rw [← hk]; exact List.mem_map_of_mem (hp.mem_iff.mp hm)

/-- `arr_sort` after a load: the array is a strictly sorted permutation -/
theorem sortB_ok (L : Libc) (hL : L.Contract) (h : Heap) (arr : List Nat) (hA : ArrOK h arr) :
    SetOK h (some (sortB L h arr)) ∧ (sortB L h arr).Perm arr := by
  have hperm : (sortB L h arr).Perm arr := hL.qsort_perm _ _
  refine ⟨⟨?_, ?_⟩, hperm⟩
  · intro x hx
    simp only [Option.getD_some] at hx
    exact hA.live x (hperm.mem_iff.mp hx)
  · simp only [Option.getD_some]
    apply le_nodup_pairwise_lt
    · unfold keysOf; rw [List.pairwise_map]; exact hL.qsort_sorted _ _
    · have : (keysOf h (sortB L h arr)).Perm (keysOf h arr) := hperm.map _
      exact this.nodup_iff.mpr hA.nodupKeys


theorem ArrOK_perm {h : Heap} {arr arr' : List Nat} (hA : ArrOK h arr) (hp : arr'.Perm arr) : ArrOK h arr' :=
  ⟨fun x hx => hA.live x (hp.mem_iff.mp hx), ((hp.map (keyOf h)).nodup_iff).mpr hA.nodupKeys⟩

/-- what `bufr_merge_tableB(table1, table2)` achieves -/
structure MergeRes (h : Heap) (arr : List Nat) (es : List EntryB) (h' : Heap) (arr' : List Nat) : Prop where
  ok : ArrOK h' arr'
  /-- right-biased union: the new file wins on a clash, everything else is kept -/
  look : ∀ d, lookupArr h' arr' d = match findE es d with | some e => some e | none => lookupArr h arr d
  /-- entries outside the array are untouched -/
  frame : ∀ x, x < h.size → x ∉ arr → deref h' x = deref h x
  size : h.size ≤ h'.size
  sub : ∀ x ∈ arr, x ∈ arr'
  fresh : ∀ x ∈ arr', x ∈ arr ∨ h.size ≤ x
  keys : ∀ x ∈ arr, keyOf h' x = keyOf h x

/-- `bufr_merge_tableB` on a strictly sorted array: the array stays strictly sorted through the
loop (it is sorted again after every append), so every binary search is complete -/
theorem mergeB_spec (L : Libc) (hL : L.Contract) : ∀ (es : List EntryB) (h : Heap) (arr : List Nat),
    AllLive h arr → (keysOf h arr).Pairwise (· < ·) → (es.map (·.desc)).Nodup →
    MergeRes h arr es (mergeB L h arr es).1 (mergeB L h arr es).2 ∧
    (keysOf (mergeB L h arr es).1 (mergeB L h arr es).2).Pairwise (· < ·) := by
  intro es
  induction es with
  | nil =>
    intro h arr hl hs _
    have e1 : (mergeB L h arr []).1 = h := rfl
    have e2 : (mergeB L h arr []).2 = arr := rfl
    rw [e1, e2]
    exact ⟨{ ok := ⟨hl, lt_pairwise_nodup hs⟩, look := fun d => by simp [findE], frame := fun _ _ _ => rfl
             size := Nat.le_refl _, sub := fun _ hx => hx, fresh := fun _ hx => Or.inl hx, keys := fun _ _ => rfl }, hs⟩
  | cons e2 rest ih =>
    intro h arr hl hs hn
    have hA : ArrOK h arr := ⟨hl, lt_pairwise_nodup hs⟩
    have hn' : (rest.map (·.desc)).Nodup := by rw [List.map_cons, List.nodup_cons] at hn; exact hn.2
    unfold mergeB
    cases hsr : searchB L h arr e2.desc with
    | some id =>
      simp only
      obtain ⟨hmem, hk⟩ := searchB_sound L hL h arr e2.desc id hsr
      obtain ⟨hA1, hkeys1, hother1, hself1, hsize1, hlook1⟩ := merge_step_found h arr e2 id hA hmem hk
      have hkeq : keysOf (h.setIfInBounds id (some e2)) arr = keysOf h arr := keysOf_congr (fun x _ => hkeys1 x)
      obtain ⟨R, hS⟩ := ih (h.setIfInBounds id (some e2)) arr hA1.live (by rw [hkeq]; exact hs) hn'
      refine ⟨{
        ok := R.ok
        look := by
          intro d
          rw [R.look d, hlook1 d]
          exact look_compose (lookupArr h arr) e2 rest d hn
        frame := by
          intro x hx hxa
          rw [R.frame x (by rw [hsize1]; exact hx) hxa]
          exact hother1 x (fun hh => hxa (hh ▸ hmem))
        size := by have := R.size; rw [hsize1] at this; exact this
        sub := R.sub
        fresh := by intro x hx; have := R.fresh x hx; rw [hsize1] at this; exact this
        keys := by intro x hx; rw [R.keys x hx]; exact hkeys1 x }, hS⟩
    | none =>
      simp only
      have hnew : e2.desc ∉ keysOf h arr := by
        intro hin
        have := hL.bsearch_complete _ _ (lt_pairwise_le hs) hin
        unfold searchB at hsr
        cases hb : L.bsearch (keysOf h arr) e2.desc with
        | none => rw [hb] at this; simp at this
        | some i => rw [hb] at hsr; simp at hsr
      obtain ⟨hA1, hold1, hself1, hsize1, hkeys1, hlook1⟩ := merge_step_new h arr e2 hA hnew
      have hperm : (sortB L (h.push (some e2)) (arr ++ [h.size])).Perm (arr ++ [h.size]) := hL.qsort_perm _ _
      have hA2 := ArrOK_perm hA1 hperm
      have hS2 : (keysOf (h.push (some e2)) (sortB L (h.push (some e2)) (arr ++ [h.size]))).Pairwise (· < ·) := by
        apply le_nodup_pairwise_lt
        · unfold keysOf; rw [List.pairwise_map]; exact hL.qsort_sorted _ _
        · exact hA2.nodupKeys
      obtain ⟨R, hS⟩ := ih (h.push (some e2)) (sortB L (h.push (some e2)) (arr ++ [h.size])) hA2.live hS2 hn'
      have hlt : ∀ x ∈ arr, x < h.size := by
        intro x hx; obtain ⟨e, he⟩ := hA.live x hx; exact deref_lt_size he
      refine ⟨{
        ok := R.ok
        look := by
          intro d
          rw [R.look d]
          have : lookupArr (h.push (some e2)) (sortB L (h.push (some e2)) (arr ++ [h.size])) d =
              lookupArr (h.push (some e2)) (arr ++ [h.size]) d := by
            unfold lookupArr; rw [findId_perm hA1.nodupKeys hperm d]
          rw [this, hlook1 d]
          exact look_compose (lookupArr h arr) e2 rest d hn
        frame := by
          intro x hx hxa
          rw [R.frame x (by rw [hsize1]; omega) (by
            intro hh
            rcases List.mem_append.mp (hperm.mem_iff.mp hh) with h1 | h2
            · exact hxa h1
            · simp only [List.mem_singleton] at h2; omega)]
          exact hold1 x hx
        size := by have := R.size; rw [hsize1] at this; omega
        sub := fun x hx => R.sub x (hperm.mem_iff.mpr (List.mem_append_left _ hx))
        fresh := by
          intro x hx
          rcases R.fresh x hx with h1 | h2
          · rcases List.mem_append.mp (hperm.mem_iff.mp h1) with h3 | h4
            · exact Or.inl h3
            · simp only [List.mem_singleton] at h4; right; omega
          · rw [hsize1] at h2; right; omega
        keys := by
          intro x hx
          rw [R.keys x (hperm.mem_iff.mpr (List.mem_append_left _ hx))]
          exact keyOf_congr (hold1 x (hlt x hx)) }, hS⟩

theorem allocAll_spec : ∀ (es : List EntryB) (h : Heap), (es.map (·.desc)).Nodup →
    MergeRes h [] es (allocAll h es).1 (allocAll h es).2 ∧
    keysOf (allocAll h es).1 (allocAll h es).2 = es.map (·.desc) := by
  intro es
  induction es with
  | nil =>
    intro h _
    have e1 : (allocAll h []).1 = h := rfl
    have e2 : (allocAll h []).2 = [] := rfl
    rw [e1, e2]
    refine ⟨{ ok := ⟨fun _ hx => by simp at hx, by simp [keysOf]⟩, look := fun d => by simp [findE, lookupArr, findId]
              frame := fun _ _ _ => rfl, size := Nat.le_refl _, sub := fun _ hx => hx
              fresh := fun _ hx => Or.inl hx, keys := fun _ _ => rfl }, by simp [keysOf]⟩
  | cons e rest ih =>
    intro h hn
    have hn' : (rest.map (·.desc)).Nodup := by rw [List.map_cons, List.nodup_cons] at hn; exact hn.2
    have hnot : e.desc ∉ rest.map (·.desc) := by rw [List.map_cons, List.nodup_cons] at hn; exact hn.1
    obtain ⟨R, hK⟩ := ih (h.push (some e)) hn'
    have e1 : (allocAll h (e :: rest)).1 = (allocAll (h.push (some e)) rest).1 := rfl
    have e2 : (allocAll h (e :: rest)).2 = h.size :: (allocAll (h.push (some e)) rest).2 := rfl
    rw [e1, e2]
    generalize (allocAll (h.push (some e)) rest).1 = h' at R hK ⊢
    generalize (allocAll (h.push (some e)) rest).2 = ids at R hK ⊢
    have hsz : (h.push (some e)).size = h.size + 1 := Array.size_push _
    have hself : deref h' h.size = some e := by
      rw [R.frame h.size (by rw [hsz]; omega) (by simp)]
      exact deref_push_self h _
    have hge : ∀ x ∈ ids, h.size + 1 ≤ x := by
      intro x hx
      rcases R.fresh x hx with h1 | h2
      · simp at h1
      · rw [hsz] at h2; exact h2
    have hkeys : keysOf h' (h.size :: ids) = (e :: rest).map (·.desc) := by
      unfold keysOf at hK ⊢
      rw [List.map_cons, List.map_cons, hK, keyOf_of_deref hself]
    refine ⟨{ ok := ⟨?_, by rw [hkeys]; exact hn⟩, look := ?_, frame := ?_, size := ?_, sub := fun _ hx => by simp at hx
              fresh := ?_, keys := fun _ hx => by simp at hx }, hkeys⟩
    · intro x hx
      rcases List.mem_cons.mp hx with rfl | hx
      · exact ⟨e, hself⟩
      · exact R.ok.live x hx
    · intro d
      have hfe : findE (e :: rest) d = if e.desc == d then some e else findE rest d := by
        unfold findE; rw [List.find?_cons]; cases (e.desc == d) <;> rfl
      have hlr : lookupArr h' (h.size :: ids) d = if e.desc == d then some e else lookupArr h' ids d := by
        unfold lookupArr findId
        rw [List.find?_cons, keyOf_of_deref hself]
        cases hb : (e.desc == d)
        · rfl
        · simp [hself]
      rw [hlr, hfe, R.look d]
      cases hb : (e.desc == d)
      · simp only [Bool.false_eq_true, if_false]
        cases findE rest d <;> simp [lookupArr, findId]
      · simp
    · intro x hx _
      rw [R.frame x (by rw [hsz]; omega) (by simp)]
      exact deref_push_lt _ hx
    · have := R.size; rw [hsz] at this; omega
    · intro x hx
      rcases List.mem_cons.mp hx with rfl | hx
      · right; exact Nat.le_refl _
      · right; have := hge x hx; omega

/-- the set after a successful load -/
def newSet (L : Libc) (h' : Heap) (arr1 : List Nat) (s : TSet) (ver : Option Int) : TSet :=
  { version := ver.getD s.version, tableB := some (sortB L h' arr1), ownsB := true, tableD := s.tableD, ownsD := s.ownsD }

/-- `bufr_flush_tableB_cache` -/
def flushT (t : BTables) : BTables := { t with cache := none, last := none }

/-- how `loadBEntries` with a readable file decomposes: flush, merge (or fresh allocation), sort -/
theorem loadBEntries_some (L : Libc) (h : Heap) (t : BTables) (w : Which) (es : List EntryB) (ver : Option Int) :
    let m := match (t.get w).tableB with
      | none => allocAll h es
      | some arr => mergeB L h arr es
    loadBEntries L h t w (some es) ver =
      (m.1, (flushT t).put w (newSet L m.1 m.2 (t.get w) ver), 0) := by
  intro m
  cases w with
  | master =>
    cases hs : t.master.tableB with
    | none =>
      have hm : m = allocAll h es := by simp only [m, BTables.get, hs]
      rw [hm]; unfold loadBEntries; simp only [BTables.get, BTables.put, hs, newSet, flushT]
    | some arr =>
      have hm : m = mergeB L h arr es := by simp only [m, BTables.get, hs]
      rw [hm]; unfold loadBEntries; simp only [BTables.get, BTables.put, hs, newSet, flushT]
  | loc =>
    cases hs : t.loc.tableB with
    | none =>
      have hm : m = allocAll h es := by simp only [m, BTables.get, hs]
      rw [hm]; unfold loadBEntries; simp only [BTables.get, BTables.put, hs, newSet, flushT]
    | some arr =>
      have hm : m = mergeB L h arr es := by simp only [m, BTables.get, hs]
      rw [hm]; unfold loadBEntries; simp only [BTables.get, BTables.put, hs, newSet, flushT]

theorem SetOK.arrOK {h : Heap} {arr : Option (List Nat)} (hs : SetOK h arr) : ArrOK h (arr.getD []) :=
  ⟨hs.live, lt_pairwise_nodup hs.sorted⟩

/-- a load = flush, (merge or fresh allocation), sort; the merge result is described by `MergeRes` -/
theorem load_merge_res (L : Libc) (hL : L.Contract) (h : Heap) (t : BTables) (w : Which) (es : List EntryB)
    (ver : Option Int) (hset : SetOK h (t.get w).tableB) (hn : (es.map (·.desc)).Nodup) :
    ∃ h' arr1, MergeRes h ((t.get w).tableB.getD []) es h' arr1 ∧
      loadBEntries L h t w (some es) ver =
        (h', (flushT t).put w (newSet L h' arr1 (t.get w) ver), 0) := by
  have hE := loadBEntries_some L h t w es ver
  cases hs : (t.get w).tableB with
  | none =>
    rw [hs] at hE
    exact ⟨_, _, (allocAll_spec es h hn).1, hE⟩
  | some arr =>
    rw [hs] at hE hset
    exact ⟨_, _, (mergeB_spec L hL es h arr hset.live hset.sorted hn).1, hE⟩

/-- facts about the set a load modified (`W` before, `W'` = sorted merge result after) and the set
it left alone (`O`) -/
structure LoadFacts (h h' : Heap) (W W' O : List Nat) (es : List EntryB) : Prop where
  newOK : SetOK h' (some W')
  sub : ∀ x ∈ W, x ∈ W'
  keysW : ∀ x ∈ W, keyOf h' x = keyOf h x
  look : ∀ d, lookupArr h' W' d = match findE es d with | some e => some e | none => lookupArr h W d
  frameO : ∀ x ∈ O, deref h' x = deref h x
  fresh : ∀ x ∈ W', x ∈ W ∨ h.size ≤ x
  liveW : AllLive h W
  liveO : AllLive h O

theorem LoadFacts.findId_O {h h' : Heap} {W W' O : List Nat} {es : List EntryB} (F : LoadFacts h h' W W' O es)
    (k : Nat) : findId h' O k = findId h O k :=
  findId_congr (fun x hx => keyOf_congr (F.frameO x hx)) k

theorem LoadFacts.lookup_O {h h' : Heap} {W W' O : List Nat} {es : List EntryB} (F : LoadFacts h h' W W' O es)
    (d : Nat) : lookupArr h' O d = lookupArr h O d := by
  unfold lookupArr
  rw [F.findId_O]
  cases hf : findId h O d with
  | none => rfl
  | some x => simp only [Option.bind_some]; exact F.frameO x (findId_mem hf).1

theorem LoadFacts.setO {h h' : Heap} {W W' O : List Nat} {es : List EntryB} (F : LoadFacts h h' W W' O es)
    (hO : (keysOf h O).Pairwise (· < ·)) : SetOK h' (some O) := by
  refine ⟨?_, ?_⟩
  · intro x hx
    simp only [Option.getD_some] at hx
    rw [F.frameO x hx]; exact F.liveO x hx
  · simp only [Option.getD_some]
    rw [keysOf_congr (fun x hx => keyOf_congr (F.frameO x hx))]; exact hO

theorem LoadFacts.disjoint {h h' : Heap} {W W' O : List Nat} {es : List EntryB} (F : LoadFacts h h' W W' O es)
    (hd : ∀ x ∈ W, x ∉ O) : ∀ x ∈ W', x ∉ O := by
  intro x hx hxo
  rcases F.fresh x hx with h1 | h2
  · exact hd x h1 hxo
  · obtain ⟨e, he⟩ := F.liveO x hxo
    have := deref_lt_size he; omega

theorem load_facts (L : Libc) (hL : L.Contract) {h h' : Heap} {W arr1 O : List Nat} {es : List EntryB}
    (R : MergeRes h W es h' arr1) (hW : AllLive h W) (hO : AllLive h O) (hd : ∀ x ∈ O, x ∉ W) :
    LoadFacts h h' W (sortB L h' arr1) O es := by
  obtain ⟨hS, hperm⟩ := sortB_ok L hL h' arr1 R.ok
  exact {
    newOK := hS
    sub := fun x hx => hperm.mem_iff.mpr (R.sub x hx)
    keysW := R.keys
    look := by
      intro d
      unfold lookupArr
      rw [findId_perm R.ok.nodupKeys hperm d]
      exact R.look d
    frameO := by
      intro x hx
      obtain ⟨e, he⟩ := hO x hx
      exact R.frame x (deref_lt_size he) (hd x hx)
    fresh := fun x hx => R.fresh x (hperm.mem_iff.mp hx)
    liveW := hW
    liveO := hO }

/-- with an empty cache and no last hit the invariant is about the two arrays only -/
theorem CacheInv_flushed {h : Heap} {t : BTables} (hm : SetOK h t.master.tableB) (hl : SetOK h t.loc.tableB)
    (hd : ∀ id ∈ t.loc.tableB.getD [], id ∉ t.master.tableB.getD []) (hc : t.cache = none) (hla : t.last = none) :
    CacheInv h t :=
  { mas := hm, loc := hl, disj := hd
    cacheSorted := by rw [hc]; simp [keysOf]
    cacheGood := by rw [hc]; intro _ hx; simp at hx
    lastGood := by rw [hla]; intro _ hx; cases hx }

/-- **load into the local set** keeps the invariant (the lookup cache is dropped); the local table
becomes the right-biased union, the master table is untouched -/
theorem loadB_loc_preserves (L : Libc) (hL : L.Contract) (h : Heap) (t : BTables) (es : List EntryB)
    (ver : Option Int) (hI : CacheInv h t) (hn : (es.map (·.desc)).Nodup) :
    ∃ h' t', loadBEntries L h t .loc (some es) ver = (h', t', 0) ∧ CacheInv h' t' ∧
      (∀ d, lookupArr h' (t'.loc.tableB.getD []) d =
        match findE es d with | some e => some e | none => lookupArr h (t.loc.tableB.getD []) d) ∧
      (∀ d, lookupArr h' (t'.master.tableB.getD []) d = lookupArr h (t.master.tableB.getD []) d) := by
  obtain ⟨h', arr1, R, heq⟩ := load_merge_res L hL h t .loc es ver hI.loc hn
  have F : LoadFacts h h' (t.loc.tableB.getD []) (sortB L h' arr1) (t.master.tableB.getD []) es :=
    load_facts L hL R hI.loc.live hI.mas.live (fun x hx hxw => hI.disj x hxw hx)
  refine ⟨h', _, heq, ?_, F.look, F.lookup_O⟩
  exact CacheInv_flushed ⟨(F.setO hI.mas.sorted).live, (F.setO hI.mas.sorted).sorted⟩ F.newOK
    (F.disjoint hI.disj) rfl rfl

/-- **load into the master set** keeps the invariant -/
theorem loadB_master_preserves (L : Libc) (hL : L.Contract) (h : Heap) (t : BTables) (es : List EntryB)
    (ver : Option Int) (hI : CacheInv h t) (hn : (es.map (·.desc)).Nodup) :
    ∃ h' t', loadBEntries L h t .master (some es) ver = (h', t', 0) ∧ CacheInv h' t' ∧
      (∀ d, lookupArr h' (t'.master.tableB.getD []) d =
        match findE es d with | some e => some e | none => lookupArr h (t.master.tableB.getD []) d) ∧
      (∀ d, lookupArr h' (t'.loc.tableB.getD []) d = lookupArr h (t.loc.tableB.getD []) d) := by
  obtain ⟨h', arr1, R, heq⟩ := load_merge_res L hL h t .master es ver hI.mas hn
  have F : LoadFacts h h' (t.master.tableB.getD []) (sortB L h' arr1) (t.loc.tableB.getD []) es :=
    load_facts L hL R hI.mas.live hI.loc.live hI.disj
  refine ⟨h', _, heq, ?_, F.look, F.lookup_O⟩
  exact CacheInv_flushed F.newOK ⟨(F.setO hI.loc.sorted).live, (F.setO hI.loc.sorted).sorted⟩
    (fun x hx hxm => F.disjoint (fun y hy hyo => hI.disj y hyo hy) x hxm hx) rfl rfl

/-! ### `bufr_merge_tables` -/

theorem freeIds_size : ∀ (ids : List Nat) (h : Heap), (freeIds h ids).size = h.size := by
  intro ids
  induction ids with
  | nil => intro h; rfl
  | cons a rest ih =>
    intro h
    have : freeIds h (a :: rest) = freeIds (h.setIfInBounds a none) rest := rfl
    rw [this, ih, Array.size_setIfInBounds]

theorem deref_freeIds : ∀ (ids : List Nat) (h : Heap) (x : Nat), x ∉ ids → deref (freeIds h ids) x = deref h x := by
  intro ids
  induction ids with
  | nil => intro h x _; rfl
  | cons a rest ih =>
    intro h x hx
    have : freeIds h (a :: rest) = freeIds (h.setIfInBounds a none) rest := rfl
    rw [this, ih _ x (fun hh => hx (List.mem_cons_of_mem _ hh))]
    exact deref_set_other _ (fun hh => hx (hh ▸ List.mem_cons_self))

theorem filterMap_deref_keys (h : Heap) : ∀ (arr : List Nat), AllLive h arr →
    (arr.filterMap (deref h)).map (·.desc) = keysOf h arr := by
  intro arr
  induction arr with
  | nil => intro _; rfl
  | cons a rest ih =>
    intro hl
    obtain ⟨e, he⟩ := hl a (List.mem_cons_self)
    rw [List.filterMap_cons, he]
    simp only [List.map_cons]
    unfold keysOf
    rw [List.map_cons, keyOf_of_deref he]
    congr 1
    exact ih (fun x hx => hl x (List.mem_cons_of_mem _ hx))

theorem filterMap_deref_congr {h h' : Heap} {arr : List Nat} (hd : ∀ x ∈ arr, deref h' x = deref h x) :
    arr.filterMap (deref h') = arr.filterMap (deref h) := by
  induction arr with
  | nil => rfl
  | cons a rest ih =>
    rw [List.filterMap_cons, List.filterMap_cons, hd a (List.mem_cons_self),
      ih (fun x hx => hd x (List.mem_cons_of_mem _ hx))]

theorem lookupArr_congr {h h' : Heap} {arr : List Nat} (hd : ∀ x ∈ arr, deref h' x = deref h x) (d : Nat) :
    lookupArr h' arr d = lookupArr h arr d := by
  unfold lookupArr
  rw [findId_congr (fun x hx => keyOf_congr (hd x hx))]
  cases hf : findId h arr d with
  | none => rfl
  | some x => simp only [Option.bind_some]; exact hd x (findId_mem hf).1

/-- the local array `bufr_merge_TablesSet` merges into (a REFERENCED one is dropped) -/
def dstLocal (t : BTables) : List Nat := if t.loc.ownsB then t.loc.tableB.getD [] else []
/-- the master array after `bufr_merge_tables` -/
def mergedMaster (dst src : BTables) : List Nat :=
  match src.master.tableB with | some a => a | none => dst.master.tableB.getD []

/-- the heap after the master step of `bufr_merge_tables` (the destination's own master array is freed
when the source brings one) -/
def mtHeap (h : Heap) (dst src : BTables) : Heap :=
  match src.master.tableB with
  | some _ => if dst.master.ownsB then freeIds h (dst.master.tableB.getD []) else h
  | none => h

/-- **`bufr_merge_tables` keeps the invariant** (the lookup cache is dropped) when the two objects
own different entries.  The local table becomes the right-biased union, the master table the
source's (if it has one). -/
theorem mergeTables_preserves (L : Libc) (hL : L.Contract) (h : Heap) (dst src : BTables)
    (hI : CacheInv h dst)
    (hsm : SetOK h src.master.tableB) (hsl : SetOK h src.loc.tableB)
    (hsep1 : ∀ x ∈ dst.master.tableB.getD [], x ∉ src.master.tableB.getD [] ∧ x ∉ src.loc.tableB.getD [])
    (hsep2 : ∀ x ∈ dst.loc.tableB.getD [], x ∉ src.master.tableB.getD []) :
    CacheInv (mergeTables L h dst src).1 (mergeTables L h dst src).2 ∧
    (∀ d, lookupArr (mergeTables L h dst src).1 ((mergeTables L h dst src).2.loc.tableB.getD []) d =
      match lookupArr h (src.loc.tableB.getD []) d with
      | some e => some e
      | none => lookupArr h (dstLocal dst) d) ∧
    (∀ d, lookupArr (mergeTables L h dst src).1 ((mergeTables L h dst src).2.master.tableB.getD []) d =
      lookupArr h (mergedMaster dst src) d) := by
  -- the heap after the master step
  generalize hh1def : mtHeap h dst src = h1
  have hh1 : ∀ x, x ∉ dst.master.tableB.getD [] → deref h1 x = deref h x := by
    intro x hx
    rw [← hh1def]; unfold mtHeap
    cases src.master.tableB with
    | none => rfl
    | some a =>
      simp only
      cases dst.master.ownsB with
      | false => rfl
      | true => exact deref_freeIds _ h x hx
  have hnone : src.master.tableB = none → h1 = h := by
    intro hn
    rw [← hh1def]; unfold mtHeap; rw [hn]
  -- the arrays involved
  have hlBsub : ∀ x ∈ dstLocal dst, x ∈ dst.loc.tableB.getD [] := by
    intro x hx; unfold dstLocal at hx
    cases ho : dst.loc.ownsB with
    | true => rw [ho] at hx; exact hx
    | false => rw [ho] at hx; simp at hx
  have hlBh1 : ∀ x ∈ dstLocal dst, deref h1 x = deref h x :=
    fun x hx => hh1 x (fun hm => hI.disj x (hlBsub x hx) hm)
  have hlBok : ArrOK h1 (dstLocal dst) := by
    refine ⟨?_, ?_⟩
    · intro x hx; rw [hlBh1 x hx]; exact hI.loc.live x (hlBsub x hx)
    · rw [keysOf_congr (fun x hx => keyOf_congr (hlBh1 x hx))]
      unfold dstLocal
      cases dst.loc.ownsB with
      | true => exact lt_pairwise_nodup hI.loc.sorted
      | false => simp [keysOf]
  have hsrcL : ∀ x ∈ src.loc.tableB.getD [], deref h1 x = deref h x :=
    fun x hx => hh1 x (fun hm => (hsep1 x hm).2 hx)
  have hsrcB : (src.loc.tableB.getD []).filterMap (deref h1) = (src.loc.tableB.getD []).filterMap (deref h) :=
    filterMap_deref_congr hsrcL
  have hkeysB : (((src.loc.tableB.getD []).filterMap (deref h)).map (·.desc)) = keysOf h (src.loc.tableB.getD []) :=
    filterMap_deref_keys h _ hsl.live
  have hO_live : AllLive h1 (mergedMaster dst src) := by
    intro x hx
    unfold mergedMaster at hx
    cases hs : src.master.tableB with
    | none => rw [hs] at hx; rw [hnone hs]; exact hI.mas.live x hx
    | some a =>
      rw [hs] at hx
      have hxs : x ∈ src.master.tableB.getD [] := by rw [hs]; exact hx
      rw [hh1 x (fun hm => (hsep1 x hm).1 hxs)]
      exact hsm.live x hxs
  have hO_h : ∀ x ∈ mergedMaster dst src, deref h1 x = deref h x := by
    intro x hx
    unfold mergedMaster at hx
    cases hs : src.master.tableB with
    | none => rw [hnone hs]
    | some a =>
      rw [hs] at hx
      have hxs : x ∈ src.master.tableB.getD [] := by rw [hs]; exact hx
      exact hh1 x (fun hm => (hsep1 x hm).1 hxs)
  have hO_sorted : (keysOf h1 (mergedMaster dst src)).Pairwise (· < ·) := by
    rw [keysOf_congr (fun x hx => keyOf_congr (hO_h x hx))]
    unfold mergedMaster
    cases hs : src.master.tableB with
    | none => exact hI.mas.sorted
    | some a => have := hsm.sorted; rw [hs] at this; exact this
  have hO_disj : ∀ x ∈ mergedMaster dst src, x ∉ dstLocal dst := by
    intro x hx hxl
    unfold mergedMaster at hx
    cases hs : src.master.tableB with
    | none => rw [hs] at hx; exact hI.disj x (hlBsub x hxl) hx
    | some a =>
      rw [hs] at hx
      exact hsep2 x (hlBsub x hxl) (by rw [hs]; exact hx)
  have hlBsorted : (keysOf h1 (dstLocal dst)).Pairwise (· < ·) := by
    rw [keysOf_congr (fun x hx => keyOf_congr (hlBh1 x hx))]
    unfold dstLocal
    cases dst.loc.ownsB with
    | true => exact hI.loc.sorted
    | false => simp [keysOf]
  have R := (mergeB_spec L hL ((src.loc.tableB.getD []).filterMap (deref h1)) h1 (dstLocal dst) hlBok.live
    hlBsorted (by rw [hsrcB, hkeysB]; exact lt_pairwise_nodup hsl.sorted)).1
  have F := load_facts L hL R hlBok.live hO_live hO_disj
  -- the result of the model function, in these terms
  have hres1 : (mergeTables L h dst src).1 = (mergeB L h1 (dstLocal dst) ((src.loc.tableB.getD []).filterMap (deref h1))).1 := by
    rw [← hh1def]
    unfold mergeTables dstLocal mtHeap
    cases src.master.tableB <;> rfl
  have hresL : (mergeTables L h dst src).2.loc.tableB =
      some (sortB L (mergeB L h1 (dstLocal dst) ((src.loc.tableB.getD []).filterMap (deref h1))).1
                    (mergeB L h1 (dstLocal dst) ((src.loc.tableB.getD []).filterMap (deref h1))).2) := by
    rw [← hh1def]
    unfold mergeTables dstLocal mtHeap
    cases src.master.tableB <;> rfl
  have hresM : (mergeTables L h dst src).2.master.tableB.getD [] = mergedMaster dst src := by
    unfold mergeTables mergedMaster
    cases hs : src.master.tableB with
    | none => cases src.master.tableD <;> rfl
    | some a => cases src.master.tableD <;> rfl
  have hresC : (mergeTables L h dst src).2.cache = none := by unfold mergeTables; rfl
  have hresLast : (mergeTables L h dst src).2.last = none := by unfold mergeTables; rfl
  rw [hres1]
  refine ⟨?_, ?_, ?_⟩
  · exact {
      mas := ⟨by rw [hresM]; exact (F.setO hO_sorted).live, by rw [hresM]; exact (F.setO hO_sorted).sorted⟩
      loc := by rw [hresL]; exact F.newOK
      disj := by
        rw [hresL, hresM]
        exact F.disjoint (fun x hx hxo => hO_disj x hxo hx)
      cacheSorted := by rw [hresC]; simp [keysOf]
      cacheGood := by rw [hresC]; intro _ hx; simp at hx
      lastGood := by rw [hresLast]; intro _ hx; cases hx }
  · intro d
    rw [hresL]
    simp only [Option.getD_some]
    rw [F.look d, hsrcB]
    have hfe : findE ((src.loc.tableB.getD []).filterMap (deref h)) d = lookupArr h (src.loc.tableB.getD []) d :=
      findE_content' h src.loc.tableB d hsl.live
    rw [hfe, lookupArr_congr hlBh1]
  · intro d
    rw [hresM]
    unfold lookupArr
    rw [F.findId_O, findId_congr (fun x hx => keyOf_congr (hO_h x hx))]
    cases hf : findId h (mergedMaster dst src) d with
    | none => rfl
    | some x =>
      simp only [Option.bind_some]
      rw [F.frameO x (findId_mem hf).1, hO_h x (findId_mem hf).1]

/-! ## §5 version selection -/

theorem useListGo_exact (v : Int) : ∀ (xs : List Int) (i : Nat) (btn ltn : Option (Nat × Int)), v ∈ xs →
    ∃ j, useListGo v xs i btn ltn = some (i + j) ∧ xs[j]? = some v := by
  intro xs
  induction xs with
  | nil => intro _ _ _ h; simp at h
  | cons x rest ih =>
    intro i btn ltn hmem
    unfold useListGo
    by_cases hx : (x == v) = true
    · refine ⟨0, by simp [hx], ?_⟩
      have : x = v := by simpa using hx
      simp [this]
    · have hne : x ≠ v := by simpa using hx
      have hmem' : v ∈ rest := by
        rcases List.mem_cons.mp hmem with h1 | h2
        · exact absurd h1.symm hne
        · exact h2
      simp only [hx, Bool.false_eq_true, if_false]
      have key : ∀ b l, ∃ j, useListGo v rest (i + 1) b l = some (i + j) ∧ (x :: rest)[j]? = some v := by
        intro b l
        obtain ⟨j, h1, h2⟩ := ih (i + 1) b l hmem'
        exact ⟨j + 1, by rw [h1]; congr 1; omega, by simpa using h2⟩
      by_cases hgt : x > v
      · simp only [hgt, if_true]
        cases btn with
        | none => exact key _ _
        | some b =>
          obtain ⟨bi, bv⟩ := b
          simp only
          by_cases hb : bv < x
          · simp only [hb, if_true]; exact key _ _
          · simp only [hb, if_false]; exact key _ _
      · simp only [hgt, if_false]
        cases ltn with
        | none => exact key _ _
        | some l =>
          obtain ⟨li, lv⟩ := l
          simp only
          by_cases hb : lv < x
          · simp only [hb, if_true]; exact key _ _
          · simp only [hb, if_false]; exact key _ _

/-! ## §6 Table D loop check -/

/-- `d` expands finitely and completely: not a sequence, or a defined sequence all of whose members do -/
inductive Good (L : Libc) (t : BTables) : Nat → Prop
  | nonD (d : Nat) : fOf d ≠ 3 → Good L t d
  | seq (d : Nat) (e : EntryD) : fetchD L t d = some e → (∀ m ∈ e.members, Good L t m) → Good L t d

/-- `b` occurs in the expansion of `a` -/
inductive Reach (L : Libc) (t : BTables) : Nat → Nat → Prop
  | step (a : Nat) (e : EntryD) (m : Nat) : fetchD L t a = some e → m ∈ e.members → Reach L t a m
  | trans (a b c : Nat) : Reach L t a b → Reach L t b c → Reach L t a c

theorem fetchD_some_f {L : Libc} {t : BTables} {d : Nat} {e : EntryD} (h : fetchD L t d = some e) : fOf d = 3 := by
  unfold fetchD at h
  by_cases hf : (fOf d != 3) = true
  · simp [hf] at h
  · simpa using hf

theorem Reach_head {L : Libc} {t : BTables} {a c : Nat} (h : Reach L t a c) :
    ∃ e m, fetchD L t a = some e ∧ m ∈ e.members ∧ (m = c ∨ Reach L t m c) := by
  induction h with
  | step a e m hf hm => exact ⟨e, m, hf, hm, Or.inl rfl⟩
  | trans a b c _ hbc ih1 _ =>
    obtain ⟨e, m, hf, hm, hor⟩ := ih1
    refine ⟨e, m, hf, hm, Or.inr ?_⟩
    rcases hor with rfl | hr
    · exact hbc
    · exact Reach.trans _ _ _ hr hbc

theorem Good_reach {L : Libc} {t : BTables} {a b : Nat} (hr : Reach L t a b) : Good L t a → Good L t b := by
  induction hr with
  | step a e m hf hm =>
    intro hg
    cases hg with
    | nonD _ hn => exact absurd (fetchD_some_f hf) hn
    | seq _ e' hf' hall =>
      rw [hf] at hf'; cases hf'
      exact hall m hm
  | trans a b c _ _ ih1 ih2 => exact fun hg => ih2 (ih1 hg)

/-- a `Good` descriptor is on no cycle -/
theorem Good_acyclic {L : Libc} {t : BTables} {a : Nat} (hg : Good L t a) : ¬ Reach L t a a := by
  induction hg with
  | nonD d hn =>
    intro hr
    obtain ⟨e, _, hf, _, _⟩ := Reach_head hr
    exact hn (fetchD_some_f hf)
  | seq d e hf _ ih =>
    intro hr
    obtain ⟨e', m, hf', hm, hor⟩ := Reach_head hr
    rw [hf] at hf'; cases hf'
    rcases hor with rfl | hr'
    · exact ih m hm hr
    · exact ih m hm (Reach.trans _ _ _ hr' (Reach.step _ _ _ hf hm))

theorem checkMembers_true (f : Nat → List Nat → Int × List Nat) : ∀ (ms : List Nat) (st : List Nat),
    (checkMembers f ms st).1 = true → ∀ m ∈ ms, ∃ st', ¬ (f m st').1 < 0 := by
  intro ms
  induction ms with
  | nil => intro _ _ m hm; simp at hm
  | cons a rest ih =>
    intro st h m hm
    unfold checkMembers at h
    by_cases hneg : (f a st).1 < 0
    · simp [hneg] at h
    · simp only [hneg, if_false] at h
      rcases List.mem_cons.mp hm with rfl | hm'
      · exact ⟨st, hneg⟩
      · exact ih _ h m hm'

/-- a check that does not report an error certifies a finite, complete expansion -/
theorem checkDesc_good (L : Libc) (t : BTables) : ∀ (fuel d : Nat) (st : List Nat),
    ¬ (checkDesc L t fuel d st).1 < 0 → Good L t d := by
  intro fuel
  induction fuel with
  | zero =>
    intro d st h
    have : (checkDesc L t 0 d st).1 = -99 := rfl
    rw [this] at h; omega
  | succ n ih =>
    intro d st h
    unfold checkDesc at h
    by_cases hf : (fOf d != 3) = true
    · exact Good.nonD d (by simpa using hf)
    · rw [if_neg hf] at h
      by_cases hc : st.contains d = true
      · rw [if_pos hc] at h; simp at h
      · rw [if_neg hc] at h
        cases hfd : fetchD L t d with
        | none => rw [hfd] at h; simp at h
        | some e =>
          rw [hfd] at h
          simp only at h
          cases hcm : checkMembers (checkDesc L t n) e.members (st ++ [d]) with
          | mk ok st2 =>
            rw [hcm] at h
            cases ok with
            | false => simp at h
            | true =>
              apply Good.seq d e hfd
              intro m hm
              have h1 : (checkMembers (checkDesc L t n) e.members (st ++ [d])).1 = true := by rw [hcm]
              obtain ⟨st', hst'⟩ := checkMembers_true _ _ _ h1 m hm
              exact ih m st' hst'

theorem loopMembers_le (f : Nat → List Nat → Int × List Nat) : ∀ (ms : List Nat) (err : Int) (st : List Nat),
    (loopMembers f ms (err, st)).1 ≤ err := by
  intro ms
  induction ms with
  | nil => intro err st; exact Int.le_refl _
  | cons a rest ih =>
    intro err st
    unfold loopMembers
    have := ih (if (f a st).1 < 0 ∧ (f a st).1 < err then (f a st).1 else err) (f a st).2
    by_cases hc : (f a st).1 < 0 ∧ (f a st).1 < err
    · simp only [hc, and_self, if_true] at this ⊢; omega
    · simp only [hc, if_false] at this ⊢; exact this

theorem loopMembers_zero (f : Nat → List Nat → Int × List Nat) : ∀ (ms : List Nat) (err : Int) (st : List Nat),
    err ≤ 0 → (loopMembers f ms (err, st)).1 = 0 → err = 0 ∧ ∀ m ∈ ms, ∃ st', ¬ (f m st').1 < 0 := by
  intro ms
  induction ms with
  | nil => intro err st _ h; exact ⟨h, fun m hm => by simp at hm⟩
  | cons a rest ih =>
    intro err st hle h
    unfold loopMembers at h
    by_cases hc : (f a st).1 < 0 ∧ (f a st).1 < err
    · simp only [hc, and_self, if_true] at h
      have := ih (f a st).1 (f a st).2 (by omega) h
      omega
    · simp only [hc, if_false] at h
      obtain ⟨h0, hall⟩ := ih err (f a st).2 hle h
      refine ⟨h0, ?_⟩
      intro m hm
      rcases List.mem_cons.mp hm with rfl | hm'
      · refine ⟨st, ?_⟩
        intro hneg; apply hc; exact ⟨hneg, by omega⟩
      · exact hall m hm'

theorem loopEntries_le (f : Nat → List Nat → Int × List Nat) : ∀ (es : List EntryD) (err : Int) (st : List Nat),
    (loopEntries f es (err, st)).1 ≤ err := by
  intro es
  induction es with
  | nil => intro err st; exact Int.le_refl _
  | cons e rest ih =>
    intro err st
    unfold loopEntries
    have h1 := loopMembers_le f e.members err st
    have h2 := ih (loopMembers f e.members (err, st)).1 (loopMembers f e.members (err, st)).2
    exact Int.le_trans h2 h1

theorem loopEntries_zero (f : Nat → List Nat → Int × List Nat) : ∀ (es : List EntryD) (err : Int) (st : List Nat),
    err ≤ 0 → (loopEntries f es (err, st)).1 = 0 →
    err = 0 ∧ ∀ e ∈ es, ∀ m ∈ e.members, ∃ st', ¬ (f m st').1 < 0 := by
  intro es
  induction es with
  | nil => intro err st _ h; exact ⟨h, fun e he => by simp at he⟩
  | cons e rest ih =>
    intro err st hle h
    unfold loopEntries at h
    have hle1 := loopMembers_le f e.members err st
    obtain ⟨h0, hall⟩ := ih (loopMembers f e.members (err, st)).1 (loopMembers f e.members (err, st)).2
      (by omega) h
    obtain ⟨h00, hm⟩ := loopMembers_zero f e.members err st hle h0
    refine ⟨h00, ?_⟩
    intro e' he' m hmm
    rcases List.mem_cons.mp he' with rfl | he''
    · exact hm m hmm
    · exact hall e' he'' m hmm

/-- `bufr_check_loop_tableD` returning 0 certifies every member of every entry of the set -/
theorem checkLoop_zero_good (L : Libc) (t : BTables) (arr : List EntryD) (h : checkLoop L t (some arr) = 0) :
    ∀ e ∈ arr, ∀ m ∈ e.members, Good L t m := by
  unfold checkLoop at h
  simp only [Option.getD_some] at h
  obtain ⟨_, hall⟩ := loopEntries_zero _ arr 0 [] (Int.le_refl _) h
  intro e he m hm
  obtain ⟨st', hst'⟩ := hall e he m hm
  exact checkDesc_good L t _ m st' hst'

theorem checkMembers_all_ok (f : Nat → List Nat → Int × List Nat) (st : List Nat) :
    ∀ (ms : List Nat), (∀ m ∈ ms, f m st = (1, st)) → checkMembers f ms st = (true, st) := by
  intro ms
  induction ms with
  | nil => intro _; rfl
  | cons a rest ih =>
    intro h
    unfold checkMembers
    rw [h a (List.mem_cons_self)]
    simp only [show ¬ ((1 : Int) < 0) by decide, if_false]
    exact ih (fun m hm => h m (List.mem_cons_of_mem _ hm))

/-- a ranking of the sequences (members rank strictly lower) whose ranks fit the fuel: the check
returns 1 and leaves the path stack as it found it -/
theorem checkDesc_accepts (L : Libc) (t : BTables) (r : Nat → Nat)
    (hr : ∀ d e, fetchD L t d = some e → ∀ m ∈ e.members, fOf m = 3 → (fetchD L t m).isSome = true ∧ r m < r d) :
    ∀ (fuel d : Nat) (st : List Nat), r d + 1 < fuel → (fOf d = 3 → (fetchD L t d).isSome = true) →
      (∀ x ∈ st, r d < r x) → checkDesc L t fuel d st = (1, st) := by
  intro fuel
  induction fuel with
  | zero => intro d st h; omega
  | succ n ih =>
    intro d st hfuel hdef hst
    unfold checkDesc
    by_cases hf : (fOf d != 3) = true
    · simp [hf]
    · rw [if_neg hf]
      have hf3 : fOf d = 3 := by simpa using hf
      have hnc : ¬ st.contains d = true := by
        intro hc
        have : d ∈ st := by simpa using hc
        have := hst d this; omega
      rw [if_neg hnc]
      have hsome := hdef hf3
      cases hfd : fetchD L t d with
      | none => rw [hfd] at hsome; simp at hsome
      | some e =>
        simp only
        have hall : ∀ m ∈ e.members, checkDesc L t n m (st ++ [d]) = (1, st ++ [d]) := by
          intro m hm
          by_cases hm3 : fOf m = 3
          · obtain ⟨hs, hlt⟩ := hr d e hfd m hm hm3
            apply ih m (st ++ [d]) (by omega) (fun _ => hs)
            intro x hx
            rcases List.mem_append.mp hx with h1 | h2
            · have := hst x h1; omega
            · simp only [List.mem_singleton] at h2; subst h2; exact hlt
          · cases n with
            | zero => omega
            | succ k =>
              unfold checkDesc
              have : (fOf m != 3) = true := by simpa using hm3
              simp [this]
        rw [checkMembers_all_ok _ _ _ hall]
        simp

theorem loopMembers_all_ok (f : Nat → List Nat → Int × List Nat) (st : List Nat) :
    ∀ (ms : List Nat) (err : Int), (∀ m ∈ ms, f m st = (1, st)) → loopMembers f ms (err, st) = (err, st) := by
  intro ms
  induction ms with
  | nil => intro _ _; rfl
  | cons a rest ih =>
    intro err h
    unfold loopMembers
    rw [h a (List.mem_cons_self)]
    simp only [show ¬ ((1 : Int) < 0) by decide, false_and, if_false]
    exact ih err (fun m hm => h m (List.mem_cons_of_mem _ hm))

theorem loopEntries_all_ok (f : Nat → List Nat → Int × List Nat) (st : List Nat) :
    ∀ (es : List EntryD) (err : Int), (∀ e ∈ es, ∀ m ∈ e.members, f m st = (1, st)) →
      loopEntries f es (err, st) = (err, st) := by
  intro es
  induction es with
  | nil => intro _ _; rfl
  | cons e rest ih =>
    intro err h
    unfold loopEntries
    rw [loopMembers_all_ok f st e.members err (h e (List.mem_cons_self))]
    exact ih err (fun e' he' => h e' (List.mem_cons_of_mem _ he'))

theorem checkLoop_accepts (L : Libc) (t : BTables) (r : Nat → Nat) (arr : List EntryD)
    (hr : ∀ d e, fetchD L t d = some e → ∀ m ∈ e.members, fOf m = 3 → (fetchD L t m).isSome = true ∧ r m < r d)
    (hdef : ∀ e ∈ arr, ∀ m ∈ e.members, fOf m = 3 → (fetchD L t m).isSome = true)
    (hb : ∀ d, r d + 1 < loopFuel t) : checkLoop L t (some arr) = 0 := by
  unfold checkLoop
  simp only [Option.getD_some]
  rw [loopEntries_all_ok _ [] arr 0]
  intro e he m hm
  exact checkDesc_accepts L t r hr _ m [] (hb m) (hdef e he m hm) (fun x hx => by simp at hx)

/-! ## §7 fixed-column lines -/

def decVal (ds : Bytes) : Nat := ds.foldl (fun a c => a * 10 + (c - 48)) 0

/-- declarative reading of a number: the text from column `i` is blanks, an optional `-`, at least one
digit, and then something that is not a digit (or the end of the line); its value fits an `int` -/
def IntAt (l : Bytes) (i : Nat) (v : Int) : Prop :=
  ∃ (k : Nat) (neg : Bool) (ds rest : Bytes),
    l.drop i = List.replicate k 32 ++ ((if neg then [45] else []) ++ (ds ++ rest)) ∧
    ds ≠ [] ∧ (∀ c ∈ ds, isDigit c = true) ∧ (∀ c, rest.head? = some c → isDigit c = false) ∧
    v = (if neg then -(decVal ds : Int) else (decVal ds : Int)) ∧ -2147483648 ≤ v ∧ v ≤ 2147483647

theorem digitsVal_append (ds rest : Bytes) (hd : ∀ c ∈ ds, isDigit c = true)
    (hr : ∀ c, rest.head? = some c → isDigit c = false) :
    ∀ acc, digitsVal (ds ++ rest) acc = ds.foldl (fun a c => a * 10 + (c - 48)) acc := by
  induction ds with
  | nil =>
    intro acc
    simp only [List.nil_append, List.foldl_nil]
    cases rest with
    | nil => rfl
    | cons c cs =>
      unfold digitsVal
      rw [hr c rfl]; rfl
  | cons c cs ih =>
    intro acc
    simp only [List.cons_append, List.foldl_cons]
    unfold digitsVal
    rw [hd c (List.mem_cons_self)]
    simp only [if_true]
    exact ih (fun x hx => hd x (List.mem_cons_of_mem _ hx)) _

theorem dropWhile_blanks (k : Nat) (x : Bytes) (hx : ∀ c, x.head? = some c → isSpace c = false) :
    (List.replicate k 32 ++ x).dropWhile isSpace = x := by
  induction k with
  | zero =>
    simp only [List.replicate_zero, List.nil_append]
    cases x with
    | nil => rfl
    | cons c cs => rw [List.dropWhile_cons, hx c rfl]; rfl
  | succ n ih =>
    rw [List.replicate_succ, List.cons_append, List.dropWhile_cons]
    have : isSpace 32 = true := by decide
    rw [this]; exact ih

theorem isDigit_not_space {c : Nat} (h : isDigit c = true) : isSpace c = false := by
  unfold isDigit at h; unfold isSpace
  simp only [Bool.and_eq_true, decide_eq_true_eq] at h
  have h1 : (c == 32) = false := by simp; omega
  have h2 : (decide (9 ≤ c) && decide (c ≤ 13)) = false := by simp; omega
  rw [h1, h2]; rfl

theorem wrap_clamp_id (v : Int) (h1 : -2147483648 ≤ v) (h2 : v ≤ 2147483647) : wrap32 (clamp64 v) = v := by
  have hc : clamp64 v = v := by
    unfold clamp64
    have a : ¬ v > 9223372036854775807 := by omega
    have b : ¬ v < -9223372036854775808 := by omega
    simp [a, b]
  rw [hc]; unfold wrap32
  rw [Int.emod_eq_of_lt (by omega) (by omega)]; omega

/-- `atoi` on the buffer, started at column `i`, reads the number the declarative reading gives -/
theorem atoi_of_IntAt (l tail : Bytes) (i : Nat) (v : Int) (hi : i ≤ l.length) (h : IntAt l i v)
    (ht : ∀ c, tail.head? = some c → isDigit c = false) : atoi ((l ++ tail).drop i) = v := by
  obtain ⟨k, neg, ds, rest, hshape, hne, hdig, hrest, hv, hlo, hhi⟩ := h
  rw [List.drop_append_of_le_length hi, hshape]
  have hrt : ∀ c, (rest ++ tail).head? = some c → isDigit c = false := by
    intro c hc
    rw [List.head?_append] at hc
    cases hr : rest.head? with
    | some x => rw [hr] at hc; simp only [Option.some_or, Option.some.injEq] at hc; subst hc; exact hrest x hr
    | none => rw [hr] at hc; simp only [Option.none_or] at hc; exact ht c hc
  obtain ⟨d0, dsr, hds⟩ : ∃ d0 dsr, ds = d0 :: dsr := by
    cases ds with
    | nil => exact absurd rfl hne
    | cons a b => exact ⟨a, b, rfl⟩
  have hd0 : isDigit d0 = true := hdig d0 (by rw [hds]; exact List.mem_cons_self)
  have hraw : atoiRaw (List.replicate k 32 ++ ((if neg then [45] else []) ++ (ds ++ rest)) ++ tail) = v := by
    unfold atoiRaw
    have hassoc : List.replicate k 32 ++ ((if neg then [45] else []) ++ (ds ++ rest)) ++ tail =
        List.replicate k 32 ++ ((if neg then [45] else []) ++ (ds ++ (rest ++ tail))) := by simp [List.append_assoc]
    rw [hassoc]
    cases neg with
    | true =>
      simp only [if_true, List.cons_append, List.nil_append] at hv ⊢
      rw [dropWhile_blanks k _ (by intro c hc; simp only [List.head?_cons, Option.some.injEq] at hc; subst hc; decide)]
      simp only
      rw [digitsVal_append ds (rest ++ tail) hdig hrt 0, hv]; rfl
    | false =>
      simp only [Bool.false_eq_true, if_false, List.nil_append] at hv ⊢
      rw [dropWhile_blanks k _ (by
        intro c hc; rw [hds] at hc
        simp only [List.cons_append, List.head?_cons, Option.some.injEq] at hc
        subst hc; exact isDigit_not_space hd0)]
      have h45 : d0 ≠ 45 := by
        intro hh; rw [hh] at hd0; exact absurd hd0 (by decide)
      have h43 : d0 ≠ 43 := by
        intro hh; rw [hh] at hd0; exact absurd hd0 (by decide)
      rw [hds]
      simp only [List.cons_append]
      split
      · next r heq => simp only [List.cons.injEq] at heq; exact absurd heq.1 h45
      · next r heq => simp only [List.cons.injEq] at heq; exact absurd heq.1 h43
      · rw [← List.cons_append, ← hds, digitsVal_append ds (rest ++ tail) hdig hrt 0, hv]; rfl
  unfold atoi
  rw [hraw]
  exact wrap_clamp_id v hlo hhi

theorem rtrim_snoc (p : Nat → Bool) (xs : Bytes) (c : Nat) :
    rtrim p (xs ++ [c]) = if p c then rtrim p xs else xs ++ [c] := by
  unfold rtrim
  rw [List.reverse_append]
  simp only [List.reverse_cons, List.reverse_nil, List.nil_append, List.cons_append, List.dropWhile_cons]
  by_cases hp : p c = true
  · simp [hp]
  · simp [hp]

theorem take_trimLen (buf : Bytes) (start : Nat) : ∀ n, start + n ≤ buf.length →
    (buf.drop start).take (trimLen buf start n) = rtrim (· == 32) ((buf.drop start).take n) := by
  intro n
  induction n with
  | zero => intro _; simp [trimLen, rtrim]
  | succ n ih =>
    intro hn
    have hidx : n < (buf.drop start).length := by rw [List.length_drop]; omega
    have htk : (buf.drop start).take (n + 1) = (buf.drop start).take n ++ [buf.getD (start + n) 0] := by
      rw [List.take_add_one, List.getElem?_eq_getElem hidx]
      simp only [Option.toList_some, List.getElem_drop]
      rw [List.getD_eq_getElem?_getD, List.getElem?_eq_getElem (by omega)]; rfl
    rw [htk, rtrim_snoc]
    unfold trimLen
    by_cases hb : (buf.getD (start + n) 0 == 32) = true
    · simp only [hb, if_true]
      exact ih (by omega)
    · simp only [hb, Bool.false_eq_true, if_false]
      rw [← htk]

theorem rtrim_sublist (p : Nat → Bool) (xs : Bytes) : ∀ c ∈ rtrim p xs, c ∈ xs := by
  intro c hc
  unfold rtrim at hc
  rw [List.mem_reverse] at hc
  have := (List.dropWhile_sublist p).subset hc
  exact List.mem_reverse.mp this

theorem dropWhile_idem (p : Nat → Bool) (xs : Bytes) : (xs.dropWhile p).dropWhile p = xs.dropWhile p := by
  induction xs with
  | nil => rfl
  | cons a rest ih =>
    rw [List.dropWhile_cons]
    by_cases hp : p a = true
    · simp only [hp, if_true]; exact ih
    · simp only [hp, Bool.false_eq_true, if_false]; rw [List.dropWhile_cons]; simp [hp]

theorem rtrim_idem (p : Nat → Bool) (xs : Bytes) : rtrim p (rtrim p xs) = rtrim p xs := by
  unfold rtrim
  rw [List.reverse_reverse, dropWhile_idem]

theorem cstr_clean (b : Bytes) (h : ∀ c ∈ b, c ≠ 0) : cstr b = b := by
  unfold cstr
  induction b with
  | nil => rfl
  | cons a rest ih =>
    rw [List.takeWhile_cons]
    have : (a != 0) = true := by simp; exact h a (List.mem_cons_self)
    rw [this]; simp only [if_true]
    rw [ih (fun c hc => h c (List.mem_cons_of_mem _ hc))]

theorem cstr_line (l junk : Bytes) (h : ∀ c ∈ l, c ≠ 0 ∧ c ≠ 10) : cstr (l ++ 10 :: 0 :: junk) = l ++ [10] := by
  unfold cstr
  have : l ++ 10 :: 0 :: junk = (l ++ [10]) ++ 0 :: junk := by simp
  rw [this, List.takeWhile_append]
  have hall : List.takeWhile (fun x => x != 0) (l ++ [10]) = l ++ [10] := by
    have := cstr_clean (l ++ [10]) (by
      intro c hc; rcases List.mem_append.mp hc with h1 | h2
      · exact (h c h1).1
      · simp only [List.mem_singleton] at h2; omega)
    exact this
  rw [hall]; simp

/-- a well-formed line of a CMC Table B file in the default column layout, read declaratively:
`l` is the line without its terminator -/
structure FixedColumns (l : Bytes) (e : EntryB) : Prop where
  len : 81 ≤ l.length
  clean : ∀ c ∈ l, c ≠ 0 ∧ c ≠ 10
  first : l.head? = some 48
  desc : IntAt l 0 (e.desc : Int)
  descF : e.desc < 100000
  scale : IntAt l 63 e.scale
  ref : IntAt l 66 e.ref
  nbits : IntAt l 78 (e.nbits : Int)
  descr : e.descr = strOfBytes (rtrim (· == 32) ((l.drop 8).take 44))
  unit : e.unit = strOfBytes (rtrim isSpace ((l.drop 52).take 11))
  typ : e.typ = unitToType (rtrim isSpace ((l.drop 52).take 11))

theorem startsWith_head_ne (b pre : Bytes) (c c' : Nat) (hb : b.head? = some c) (hp : pre.head? = some c')
    (hne : c ≠ c') : startsWith b pre = false := by
  unfold startsWith
  cases b with
  | nil => simp at hb
  | cons x xs =>
    cases pre with
    | nil => simp at hp
    | cons y ys =>
      simp only [List.head?_cons, Option.some.injEq] at hb hp
      subst hb; subst hp
      simp [List.isPrefixOf, hne.symm]

theorem newline_not_digit : ∀ c, (10 :: 0 :: ([] : Bytes)).head? = some c → isDigit c = false := by
  intro c hc; simp at hc; subst hc; decide

theorem entryOfBuf_fixed (l junk : Bytes) (e : EntryB) (h : FixedColumns l e) :
    entryOfBuf (l ++ 10 :: 0 :: junk) stdCols 44 = e := by
  have htail : ∀ c, (10 :: 0 :: junk).head? = some c → isDigit c = false := by
    intro c hc; simp at hc; subst hc; decide
  have hlen := h.len
  have hz : ∀ c ∈ l, c ≠ 0 := fun c hc => (h.clean c hc).1
  have a0 := atoi_of_IntAt l (10 :: 0 :: junk) 0 _ (by omega) h.desc htail
  have a3 := atoi_of_IntAt l (10 :: 0 :: junk) 63 _ (by omega) h.scale htail
  have a4 := atoi_of_IntAt l (10 :: 0 :: junk) 66 _ (by omega) h.ref htail
  have a5 := atoi_of_IntAt l (10 :: 0 :: junk) 78 _ (by omega) h.nbits htail
  have hd : (l ++ 10 :: 0 :: junk).drop 8 = l.drop 8 ++ 10 :: 0 :: junk :=
    List.drop_append_of_le_length (by omega)
  have hlen8 : 44 ≤ (l.drop 8).length := by rw [List.length_drop]; omega
  have hdescr : rtrim (· == 32) (cstr (((l ++ 10 :: 0 :: junk).drop 8).take
      (trimLen (l ++ 10 :: 0 :: junk) 8 44))) = rtrim (· == 32) ((l.drop 8).take 44) := by
    rw [take_trimLen (l ++ 10 :: 0 :: junk) 8 44 (by rw [List.length_append]; omega)]
    rw [hd, List.take_append_of_le_length hlen8]
    rw [cstr_clean _ (fun c hc => hz c (List.mem_of_mem_drop (List.mem_of_mem_take (rtrim_sublist _ _ c hc))))]
    exact rtrim_idem _ _
  have hu : ((l ++ 10 :: 0 :: junk).drop 52).take 11 = (l.drop 52).take 11 := by
    rw [List.drop_append_of_le_length (by omega), List.take_append_of_le_length (by rw [List.length_drop]; omega)]
  have hunit : cstr (((l ++ 10 :: 0 :: junk).drop 52).take 11) = (l.drop 52).take 11 := by
    rw [hu]
    exact cstr_clean _ (fun c hc => hz c (List.mem_of_mem_drop (List.mem_of_mem_take hc)))
  unfold entryOfBuf
  have c0 : colAt stdCols 0 = 0 := rfl
  have c1 : colAt stdCols 1 = 8 := rfl
  have c2 : colAt stdCols 2 = 52 := rfl
  have c3 : colAt stdCols 3 = 63 := rfl
  have c4 : colAt stdCols 4 = 66 := rfl
  have c5 : colAt stdCols 5 = 78 := rfl
  simp only [c0, c1, c2, c3, c4, c5]
  rw [hdescr, hunit, a0, a3, a4, a5, ← h.descr, ← h.unit, ← h.typ]
  cases e
  simp

/-- **parse-line**: on a well-formed fixed-column line, whatever the line buffer held before, the
loader appends exactly the entry the line denotes -/
theorem parse_line (l junk : Bytes) (e : EntryB) (s : BRead) (hc : s.count = 6) (hcol : s.col = stdCols)
    (hdl : s.desclen = 44) (h : FixedColumns l e) :
    bLine true { s with buf := l ++ 10 :: 0 :: junk } =
      { s with buf := l ++ 10 :: 0 :: junk, out := e :: s.out } := by
  have hhead : (l ++ 10 :: 0 :: junk).head? = some 48 := by
    rw [List.head?_append, h.first]; rfl
  have n1 := startsWith_head_ne _ (asciiBytes "DATA_CATEGORY=") 48 68 hhead (by decide) (by decide)
  have n2 := startsWith_head_ne _ (asciiBytes "DATA_DESCRIPTION=") 48 68 hhead (by decide) (by decide)
  have n3 := startsWith_head_ne _ (asciiBytes "** VERSION") 48 42 hhead (by decide) (by decide)
  have hlen : ¬ (cstr (l ++ 10 :: 0 :: junk)).length < 82 := by
    rw [cstr_line l junk h.clean, List.length_append]; have := h.len; simp; omega
  have hatoi : atoi (l ++ 10 :: 0 :: junk) = (e.desc : Int) := by
    have := atoi_of_IntAt l (10 :: 0 :: junk) 0 _ (by omega) h.desc
      (by intro c hc; simp at hc; subst hc; decide)
    simpa using this
  have hdiv : ¬ ((e.desc : Int).tdiv 100000 != 0) = true := by
    have : (e.desc : Int).tdiv 100000 = 0 := by
      have := h.descF
      rw [Int.tdiv_eq_ediv_of_nonneg (by omega)]
      omega
    rw [this]; decide
  unfold bLine
  simp only [n1, n2, n3, hhead, hlen, hatoi, hdiv, hc, hcol, hdl, Bool.false_eq_true, if_false,
    Bool.and_false, Bool.not_true, Bool.false_and, Bool.true_and]
  simp [entryOfBuf_fixed l junk e h]

end Bufr.Tbl
