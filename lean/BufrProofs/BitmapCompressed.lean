import BufrProofs.Bitmap
/-
  BufrProofs.BitmapCompressed — the compressed lock-step loop with the bit-map head
  (`decodeCompressedLoopB`) is the plain loop while nothing of the bit-map machinery is met.
-/
namespace Bufr

/-- `b` has the descriptors and flags of `a`, position by position -/
def SameDF : List Node → List Node → Prop
  | [], [] => True
  | a :: as, b :: bs => b.desc = a.desc ∧ b.flags = a.flags ∧ SameDF as bs
  | _, _ => False

theorem SameDF.refl : ∀ l, SameDF l l
  | [] => trivial
  | _ :: as => ⟨rfl, rfl, SameDF.refl as⟩

theorem SameDF.length : ∀ {a b : List Node}, SameDF a b → b.length = a.length
  | [], [], _ => rfl
  | _ :: as, _ :: bs, h => by simp [SameDF.length h.2.2]
  | [], _ :: _, h => h.elim
  | _ :: _, [], h => h.elim

theorem SameDF.quiet : ∀ {a b : List Node}, SameDF a b → (∀ x ∈ a, quietNode x = true) → ∀ x ∈ b, quietNode x = true
  | [], [], _, _ => by simp
  | a :: as, b :: bs, h, hq => by
    intro x hx
    simp only [List.mem_cons] at hx
    rcases hx with hx | hx
    · rw [hx]; exact quietNode_of _ a h.1 (by rw [h.2.1]) (hq a (by simp))
    · exact SameDF.quiet h.2.2 (fun y hy => hq y (by simp [hy])) x hx
  | [], _ :: _, h, _ => h.elim
  | _ :: _, [], h, _ => h.elim

theorem SameDF.map (f : Node → Node) (hf : ∀ n, (f n).desc = n.desc ∧ (f n).flags = n.flags) :
    ∀ l, SameDF l (l.map f)
  | [] => trivial
  | a :: as => ⟨(hf a).1, (hf a).2, SameDF.map f hf as⟩

theorem SameDF.zipWithNodes (f : Node → Nat → Node) (hf : ∀ n v, (f n v).desc = n.desc ∧ (f n v).flags = n.flags) :
    ∀ (l : List Node) (vs : List Nat), SameDF l (zipWithNodes f l vs)
  | [], _ => by simp [Bufr.zipWithNodes, SameDF]
  | a :: as, [] => by unfold Bufr.zipWithNodes; exact SameDF.refl _
  | a :: as, v :: vs => by
    unfold Bufr.zipWithNodes
    exact ⟨(hf a v).1, (hf a v).2, SameDF.zipWithNodes f hf as vs⟩

theorem SameDF.zipWithStrs (f : Node → List Nat → Node) (hf : ∀ n v, (f n v).desc = n.desc ∧ (f n v).flags = n.flags) :
    ∀ (l : List Node) (vs : List (List Nat)), SameDF l (zipWithStrs f l vs)
  | [], _ => by simp [Bufr.zipWithStrs, SameDF]
  | a :: as, [] => by unfold Bufr.zipWithStrs; exact SameDF.refl _
  | a :: as, v :: vs => by
    unfold Bufr.zipWithStrs
    exact ⟨(hf a v).1, (hf a v).2, SameDF.zipWithStrs f hf as vs⟩

theorem setBitsValue_df (n : Node) (v : Nat) : (setBitsValue n v).desc = n.desc ∧ (setBitsValue n v).flags = n.flags := by
  have hm := mkvalNode_df n
  unfold setBitsValue
  split
  · exact ⟨rfl, rfl⟩
  · split
    · exact ⟨rfl, rfl⟩
    · simp only []
      repeat' (first | exact hm | exact ⟨rfl, rfl⟩ | split)

theorem getNumericCompressed_df (r r' : R) (col col' : List Node) (g : Range)
    (h : getNumericCompressed r col g = some (r', col')) : SameDF col col' := by
  unfold getNumericCompressed at h
  simp only [] at h
  repeat' (first | contradiction | split at h)
  all_goals (
    simp only [Option.some.injEq, Prod.mk.injEq] at h
    obtain ⟨_, rfl⟩ := h
    first
      | exact SameDF.refl _
      | (refine SameDF.map _ ?_ _; intro n; exact setBitsValue_df n _)
      | (refine SameDF.zipWithNodes _ ?_ _ _; intro n v; exact setBitsValue_df n _))

theorem numericPartial_df (r : R) (col : List Node) (g : Range) : SameDF col (numericPartial r col g) := by
  unfold numericPartial
  simp only []
  repeat' (first | exact SameDF.refl _ | exact SameDF.zipWithNodes _ (fun n v => setBitsValue_df n _) _ _ | split)

theorem getAfCompressed_df (r r' : R) (col col' : List Node) (g : Range)
    (h : getAfCompressed r col g = some (r', col')) : SameDF col col' := by
  unfold getAfCompressed at h
  simp only [] at h
  repeat' (first | contradiction | split at h)
  all_goals (
    simp only [Option.some.injEq, Prod.mk.injEq] at h
    obtain ⟨_, rfl⟩ := h
    first
      | exact SameDF.refl _
      | (refine SameDF.map _ ?_ _; intro n; exact mkvalNode_df n)
      | (refine SameDF.zipWithNodes _ ?_ _ _; intro n v; exact mkvalNode_df n))

theorem getCcittCompressed_df (r r' : R) (col col' : List Node) (g : Range)
    (h : getCcittCompressed r col g = some (r', col')) : SameDF col col' := by
  unfold getCcittCompressed at h
  simp only [] at h
  repeat' (first | contradiction | split at h)
  all_goals (
    simp only [Option.some.injEq, Prod.mk.injEq] at h
    obtain ⟨_, rfl⟩ := h
    first
      | exact SameDF.refl _
      | (refine SameDF.map _ ?_ _; intro n; exact mkvalNode_df n)
      | (refine SameDF.zipWithStrs _ ?_ _ _; intro n v; exact mkvalNode_df n))

theorem getIeeeCompressed_df (r r' : R) (col col' : List Node) (g : Range)
    (h : getIeeeCompressed r col g = some (r', col')) : SameDF col col' := by
  unfold getIeeeCompressed at h
  have hs : ∀ (n : Node) (v : Nat),
      (if (mkvalNode n).enc.nbits = 64 then { mkvalNode n with val := (mkvalNode n).val.setDouble (SF.ofDoubleBits v) }
        else { mkvalNode n with val := (mkvalNode n).val.setFloat (SF.ofFloatBits v) }).desc = n.desc ∧
      (if (mkvalNode n).enc.nbits = 64 then { mkvalNode n with val := (mkvalNode n).val.setDouble (SF.ofDoubleBits v) }
        else { mkvalNode n with val := (mkvalNode n).val.setFloat (SF.ofFloatBits v) }).flags = n.flags := by
    intro n v
    have := mkvalNode_df n
    split <;> exact this
  simp only [] at h
  repeat' (first | contradiction | split at h)
  all_goals (
    simp only [Option.some.injEq, Prod.mk.injEq] at h
    obtain ⟨_, rfl⟩ := h
    first
      | exact SameDF.refl _
      | (refine SameDF.map _ ?_ _; intro n; exact hs n _)
      | (refine SameDF.zipWithNodes _ ?_ _ _; intro n v; exact hs n v))

end Bufr
