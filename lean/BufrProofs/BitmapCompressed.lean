import BufrProofs.Bitmap
/-
  BufrProofs.BitmapCompressed — the compressed lock-step loop with the bit-map head
  (`decodeCompressedLoopB`) is the plain loop while nothing of the bit-map machinery is met.
-/
namespace Bufr

/-- `b` has the descriptors and flags of `a`, position by position -/
def SameDF : List Node → List Node → Prop
  | [], [] => True
  | a :: as, b :: bs => b.desc = a.desc ∧ b.flags = a.flags ∧ SameDF as bs
  | _, _ => False

theorem SameDF.refl : ∀ l, SameDF l l
  | [] => trivial
  | _ :: as => ⟨rfl, rfl, SameDF.refl as⟩

theorem SameDF.length : ∀ {a b : List Node}, SameDF a b → b.length = a.length
  | [], [], _ => rfl
  | _ :: as, _ :: bs, h => by simp [SameDF.length h.2.2]
  | [], _ :: _, h => h.elim
  | _ :: _, [], h => h.elim

theorem SameDF.quiet : ∀ {a b : List Node}, SameDF a b → (∀ x ∈ a, quietNode x = true) → ∀ x ∈ b, quietNode x = true
  | [], [], _, _ => by simp
  | a :: as, b :: bs, h, hq => by
    intro x hx
    simp only [List.mem_cons] at hx
    rcases hx with hx | hx
    · rw [hx]; exact quietNode_of _ a h.1 (by rw [h.2.1]) (hq a (by simp))
    · exact SameDF.quiet h.2.2 (fun y hy => hq y (by simp [hy])) x hx
  | [], _ :: _, h, _ => h.elim
  | _ :: _, [], h, _ => h.elim

theorem SameDF.map (f : Node → Node) (hf : ∀ n, (f n).desc = n.desc ∧ (f n).flags = n.flags) :
    ∀ l, SameDF l (l.map f)
  | [] => trivial
  | a :: as => ⟨(hf a).1, (hf a).2, SameDF.map f hf as⟩

theorem SameDF.zipWithNodes (f : Node → Nat → Node) (hf : ∀ n v, (f n v).desc = n.desc ∧ (f n v).flags = n.flags) :
    ∀ (l : List Node) (vs : List Nat), SameDF l (zipWithNodes f l vs)
  | [], _ => by simp [Bufr.zipWithNodes, SameDF]
  | a :: as, [] => by unfold Bufr.zipWithNodes; exact SameDF.refl _
  | a :: as, v :: vs => by
    unfold Bufr.zipWithNodes
    exact ⟨(hf a v).1, (hf a v).2, SameDF.zipWithNodes f hf as vs⟩

theorem SameDF.zipWithStrs (f : Node → List Nat → Node) (hf : ∀ n v, (f n v).desc = n.desc ∧ (f n v).flags = n.flags) :
    ∀ (l : List Node) (vs : List (List Nat)), SameDF l (zipWithStrs f l vs)
  | [], _ => by simp [Bufr.zipWithStrs, SameDF]
  | a :: as, [] => by unfold Bufr.zipWithStrs; exact SameDF.refl _
  | a :: as, v :: vs => by
    unfold Bufr.zipWithStrs
    exact ⟨(hf a v).1, (hf a v).2, SameDF.zipWithStrs f hf as vs⟩

theorem setBitsValue_df (n : Node) (v : Nat) : (setBitsValue n v).desc = n.desc ∧ (setBitsValue n v).flags = n.flags := by
  have hm := mkvalNode_df n
  unfold setBitsValue
  split
  · exact ⟨rfl, rfl⟩
  · split
    · exact ⟨rfl, rfl⟩
    · simp only []
      repeat' (first | exact hm | exact ⟨rfl, rfl⟩ | split)

theorem getNumericCompressed_df (r r' : R) (col col' : List Node) (g : Range)
    (h : getNumericCompressed r col g = some (r', col')) : SameDF col col' := by
  unfold getNumericCompressed at h
  simp only [] at h
  repeat' (first | contradiction | split at h)
  all_goals (
    simp only [Option.some.injEq, Prod.mk.injEq] at h
    obtain ⟨_, rfl⟩ := h
    first
      | exact SameDF.refl _
      | (refine SameDF.map _ ?_ _; intro n; exact setBitsValue_df n _)
      | (refine SameDF.zipWithNodes _ ?_ _ _; intro n v; exact setBitsValue_df n _))

theorem numericPartial_df (r : R) (col : List Node) (g : Range) : SameDF col (numericPartial r col g) := by
  unfold numericPartial
  simp only []
  repeat' (first | exact SameDF.refl _ | exact SameDF.zipWithNodes _ (fun n v => setBitsValue_df n _) _ _ | split)

theorem getAfCompressed_df (r r' : R) (col col' : List Node) (g : Range)
    (h : getAfCompressed r col g = some (r', col')) : SameDF col col' := by
  unfold getAfCompressed at h
  simp only [] at h
  repeat' (first | contradiction | split at h)
  all_goals (
    simp only [Option.some.injEq, Prod.mk.injEq] at h
    obtain ⟨_, rfl⟩ := h
    first
      | exact SameDF.refl _
      | (refine SameDF.map _ ?_ _; intro n; exact mkvalNode_df n)
      | (refine SameDF.zipWithNodes _ ?_ _ _; intro n v; exact mkvalNode_df n))

theorem getCcittCompressed_df (r r' : R) (col col' : List Node) (g : Range)
    (h : getCcittCompressed r col g = some (r', col')) : SameDF col col' := by
  unfold getCcittCompressed at h
  simp only [] at h
  repeat' (first | contradiction | split at h)
  all_goals (
    simp only [Option.some.injEq, Prod.mk.injEq] at h
    obtain ⟨_, rfl⟩ := h
    first
      | exact SameDF.refl _
      | (refine SameDF.map _ ?_ _; intro n; exact mkvalNode_df n)
      | (refine SameDF.zipWithStrs _ ?_ _ _; intro n v; exact mkvalNode_df n))

theorem getIeeeCompressed_df (r r' : R) (col col' : List Node) (g : Range)
    (h : getIeeeCompressed r col g = some (r', col')) : SameDF col col' := by
  unfold getIeeeCompressed at h
  have hs : ∀ (n : Node) (v : Nat),
      (if (mkvalNode n).enc.nbits = 64 then { mkvalNode n with val := (mkvalNode n).val.setDouble (SF.ofDoubleBits v) }
        else { mkvalNode n with val := (mkvalNode n).val.setFloat (SF.ofFloatBits v) }).desc = n.desc ∧
      (if (mkvalNode n).enc.nbits = 64 then { mkvalNode n with val := (mkvalNode n).val.setDouble (SF.ofDoubleBits v) }
        else { mkvalNode n with val := (mkvalNode n).val.setFloat (SF.ofFloatBits v) }).flags = n.flags := by
    intro n v
    have := mkvalNode_df n
    split <;> exact this
  simp only [] at h
  repeat' (first | contradiction | split at h)
  all_goals (
    simp only [Option.some.injEq, Prod.mk.injEq] at h
    obtain ⟨_, rfl⟩ := h
    first
      | exact SameDF.refl _
      | (refine SameDF.map _ ?_ _; intro n; exact hs n _)
      | (refine SameDF.zipWithNodes _ ?_ _ _; intro n v; exact hs n v))

/-! ### one step of the lock-step loop: the per-copy application -/

theorem applied_quiet (T : Tables) (edition : Nat) :
    ∀ (todos dones : List (List Node)) (ddos : List DDO) (bms : List BM),
    bms.length = ddos.length → dones.length = todos.length → ddos.length = todos.length →
    (∀ b ∈ bms, b = ({} : BM)) → (∀ d ∈ ddos, quietDDO d) →
    (∀ t ∈ todos, ∀ x ∈ t, quietNode x = true) → (∀ t ∈ todos, t ≠ []) →
    List.zipWith (stepFB T edition) (List.zip ddos bms) (List.zip dones todos) =
      (List.zipWith (fun ddo n => applyTables2node T edition ddo n) ddos (todos.filterMap (·.head?))).map
        (fun a => (a.1, ({} : BM), a.2.1, a.2.2)) := by
  intro todos
  induction todos with
  | nil =>
    intro dones ddos bms _ h2 _ _ _ _ _
    have : dones = [] := List.eq_nil_of_length_eq_zero (by simpa using h2)
    subst this
    simp
  | cons t ts ih =>
    intro dones ddos bms h1 h2 h3 hb hd hq hne
    match dones, ddos, bms, h1, h2, h3 with
    | dn :: dns, d :: ds, b :: bs, h1, h2, h3 =>
      have hbe : b = {} := hb b (by simp)
      subst hbe
      have hdq : quietDDO d := hd d (by simp)
      match t, hne t (by simp), hq t (by simp) with
      | n :: tl, _, hqt =>
        have hn : quietNode n = true := hqt n (by simp)
        simp only [List.zip_cons_cons, List.zipWith_cons_cons, List.filterMap_cons, List.head?_cons, List.map_cons]
        have e1 : stepFB T edition (d, {}) (dn, n :: tl) =
            ((applyTables2node T edition d n).1, ({} : BM), (applyTables2node T edition d n).2.1,
             (applyTables2node T edition d n).2.2) := by
          unfold stepFB
          simp only []
          exact applyTables2nodeB_quiet T edition _ d n hdq hn
        rw [e1]
        congr 1
        exact ih dns ds bs (by simpa using h1) (by simpa using h2) (by simpa using h3)
          (fun b hb' => hb b (by simp [hb'])) (fun d' hd' => hd d' (by simp [hd']))
          (fun t' ht' => hq t' (by simp [ht'])) (fun t' ht' => hne t' (by simp [ht']))

/-- what the lock-step loop keeps true while no bit-map operator is met -/
structure CInv (st : CompStB) : Prop where
  bms : ∀ b ∈ st.bms, b = ({} : BM)
  ddos : ∀ d ∈ st.ddos, quietDDO d
  todos : ∀ t ∈ st.todos, ∀ x ∈ t, quietNode x = true
  dones : ∀ t ∈ st.dones, ∀ x ∈ t, quietNode x = true
  l1 : st.bms.length = st.ddos.length
  l2 : st.dones.length = st.todos.length
  l3 : st.ddos.length = st.todos.length

def liftC (x : Except XErr CompStB) : Except XErr CompSt :=
  match x with
  | .ok s => .ok s.plain
  | .error e => .error e

end Bufr
