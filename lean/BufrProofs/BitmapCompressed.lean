import BufrProofs.Bitmap
/-
  BufrProofs.BitmapCompressed — the compressed lock-step loop with the bit-map head
  (`decodeCompressedLoopB`) is the plain loop while nothing of the bit-map machinery is met.
-/
namespace Bufr

/-- `b` has the descriptors and flags of `a`, position by position -/
def SameDF : List Node → List Node → Prop
  | [], [] => True
  | a :: as, b :: bs => b.desc = a.desc ∧ b.flags = a.flags ∧ SameDF as bs
  | _, _ => False

theorem SameDF.refl : ∀ l, SameDF l l
  | [] => trivial
  | _ :: as => ⟨rfl, rfl, SameDF.refl as⟩

theorem SameDF.length : ∀ {a b : List Node}, SameDF a b → b.length = a.length
  | [], [], _ => rfl
  | _ :: as, _ :: bs, h => by simp [SameDF.length h.2.2]
  | [], _ :: _, h => h.elim
  | _ :: _, [], h => h.elim

theorem SameDF.quiet : ∀ {a b : List Node}, SameDF a b → (∀ x ∈ a, quietNode x = true) → ∀ x ∈ b, quietNode x = true
  | [], [], _, _ => by simp
  | a :: as, b :: bs, h, hq => by
    intro x hx
    simp only [List.mem_cons] at hx
    rcases hx with hx | hx
    · rw [hx]; exact quietNode_of _ a h.1 (by rw [h.2.1]) (hq a (by simp))
    · exact SameDF.quiet h.2.2 (fun y hy => hq y (by simp [hy])) x hx
  | [], _ :: _, h, _ => h.elim
  | _ :: _, [], h, _ => h.elim

theorem SameDF.map (f : Node → Node) (hf : ∀ n, (f n).desc = n.desc ∧ (f n).flags = n.flags) :
    ∀ l, SameDF l (l.map f)
  | [] => trivial
  | a :: as => ⟨(hf a).1, (hf a).2, SameDF.map f hf as⟩

theorem SameDF.zipWithNodes (f : Node → Nat → Node) (hf : ∀ n v, (f n v).desc = n.desc ∧ (f n v).flags = n.flags) :
    ∀ (l : List Node) (vs : List Nat), SameDF l (zipWithNodes f l vs)
  | [], _ => by simp [Bufr.zipWithNodes, SameDF]
  | a :: as, [] => by unfold Bufr.zipWithNodes; exact SameDF.refl _
  | a :: as, v :: vs => by
    unfold Bufr.zipWithNodes
    exact ⟨(hf a v).1, (hf a v).2, SameDF.zipWithNodes f hf as vs⟩

theorem SameDF.zipWithStrs (f : Node → List Nat → Node) (hf : ∀ n v, (f n v).desc = n.desc ∧ (f n v).flags = n.flags) :
    ∀ (l : List Node) (vs : List (List Nat)), SameDF l (zipWithStrs f l vs)
  | [], _ => by simp [Bufr.zipWithStrs, SameDF]
  | a :: as, [] => by unfold Bufr.zipWithStrs; exact SameDF.refl _
  | a :: as, v :: vs => by
    unfold Bufr.zipWithStrs
    exact ⟨(hf a v).1, (hf a v).2, SameDF.zipWithStrs f hf as vs⟩

theorem setBitsValue_df (n : Node) (v : Nat) : (setBitsValue n v).desc = n.desc ∧ (setBitsValue n v).flags = n.flags := by
  have hm := mkvalNode_df n
  unfold setBitsValue
  split
  · exact ⟨rfl, rfl⟩
  · split
    · exact ⟨rfl, rfl⟩
    · simp only []
      repeat' (first | exact hm | exact ⟨rfl, rfl⟩ | split)

theorem getNumericCompressed_df (r r' : R) (col col' : List Node) (g : Range)
    (h : getNumericCompressed r col g = some (r', col')) : SameDF col col' := by
  unfold getNumericCompressed at h
  simp only [] at h
  repeat' (first | contradiction | split at h)
  all_goals (
    simp only [Option.some.injEq, Prod.mk.injEq] at h
    obtain ⟨_, rfl⟩ := h
    first
      | exact SameDF.refl _
      | (refine SameDF.map _ ?_ _; intro n; exact setBitsValue_df n _)
      | (refine SameDF.zipWithNodes _ ?_ _ _; intro n v; exact setBitsValue_df n _))

theorem numericPartial_df (r : R) (col : List Node) (g : Range) : SameDF col (numericPartial r col g) := by
  unfold numericPartial
  simp only []
  repeat' (first | exact SameDF.refl _ | exact SameDF.zipWithNodes _ (fun n v => setBitsValue_df n _) _ _ | split)

theorem getAfCompressed_df (r r' : R) (col col' : List Node) (g : Range)
    (h : getAfCompressed r col g = some (r', col')) : SameDF col col' := by
  unfold getAfCompressed at h
  simp only [] at h
  repeat' (first | contradiction | split at h)
  all_goals (
    simp only [Option.some.injEq, Prod.mk.injEq] at h
    obtain ⟨_, rfl⟩ := h
    first
      | exact SameDF.refl _
      | (refine SameDF.map _ ?_ _; intro n; exact mkvalNode_df n)
      | (refine SameDF.zipWithNodes _ ?_ _ _; intro n v; exact mkvalNode_df n))

theorem getCcittCompressed_df (r r' : R) (col col' : List Node) (g : Range)
    (h : getCcittCompressed r col g = some (r', col')) : SameDF col col' := by
  unfold getCcittCompressed at h
  simp only [] at h
  repeat' (first | contradiction | split at h)
  all_goals (
    simp only [Option.some.injEq, Prod.mk.injEq] at h
    obtain ⟨_, rfl⟩ := h
    first
      | exact SameDF.refl _
      | (refine SameDF.map _ ?_ _; intro n; exact mkvalNode_df n)
      | (refine SameDF.zipWithStrs _ ?_ _ _; intro n v; exact mkvalNode_df n))

theorem getIeeeCompressed_df (r r' : R) (col col' : List Node) (g : Range)
    (h : getIeeeCompressed r col g = some (r', col')) : SameDF col col' := by
  unfold getIeeeCompressed at h
  have hs : ∀ (n : Node) (v : Nat),
      (if (mkvalNode n).enc.nbits = 64 then { mkvalNode n with val := (mkvalNode n).val.setDouble (SF.ofDoubleBits v) }
        else { mkvalNode n with val := (mkvalNode n).val.setFloat (SF.ofFloatBits v) }).desc = n.desc ∧
      (if (mkvalNode n).enc.nbits = 64 then { mkvalNode n with val := (mkvalNode n).val.setDouble (SF.ofDoubleBits v) }
        else { mkvalNode n with val := (mkvalNode n).val.setFloat (SF.ofFloatBits v) }).flags = n.flags := by
    intro n v
    have := mkvalNode_df n
    split <;> exact this
  simp only [] at h
  repeat' (first | contradiction | split at h)
  all_goals (
    simp only [Option.some.injEq, Prod.mk.injEq] at h
    obtain ⟨_, rfl⟩ := h
    first
      | exact SameDF.refl _
      | (refine SameDF.map _ ?_ _; intro n; exact hs n _)
      | (refine SameDF.zipWithNodes _ ?_ _ _; intro n v; exact hs n v))

/-! ### one step of the lock-step loop: the per-copy application -/

theorem applied_quiet (T : Tables) (edition : Nat) :
    ∀ (todos dones : List (List Node)) (ddos : List DDO) (bms : List BM),
    bms.length = ddos.length → dones.length = todos.length → ddos.length = todos.length →
    (∀ b ∈ bms, b = ({} : BM)) → (∀ d ∈ ddos, quietDDO d) →
    (∀ t ∈ todos, ∀ x ∈ t, quietNode x = true) → (∀ t ∈ todos, t ≠ []) →
    List.zipWith (stepFB T edition) (List.zip ddos bms) (List.zip dones todos) =
      (List.zipWith (fun ddo n => applyTables2node T edition ddo n) ddos (todos.filterMap (·.head?))).map
        (fun a => (a.1, ({} : BM), a.2.1, a.2.2)) := by
  intro todos
  induction todos with
  | nil =>
    intro dones ddos bms _ h2 _ _ _ _ _
    have : dones = [] := List.eq_nil_of_length_eq_zero (by simpa using h2)
    subst this
    simp
  | cons t ts ih =>
    intro dones ddos bms h1 h2 h3 hb hd hq hne
    match dones, ddos, bms, h1, h2, h3 with
    | dn :: dns, d :: ds, b :: bs, h1, h2, h3 =>
      have hbe : b = {} := hb b (by simp)
      subst hbe
      have hdq : quietDDO d := hd d (by simp)
      match t, hne t (by simp), hq t (by simp) with
      | n :: tl, _, hqt =>
        have hn : quietNode n = true := hqt n (by simp)
        simp only [List.zip_cons_cons, List.zipWith_cons_cons, List.filterMap_cons, List.head?_cons, List.map_cons]
        have e1 : stepFB T edition (d, {}) (dn, n :: tl) =
            ((applyTables2node T edition d n).1, ({} : BM), (applyTables2node T edition d n).2.1,
             (applyTables2node T edition d n).2.2) := by
          unfold stepFB
          simp only []
          exact applyTables2nodeB_quiet T edition _ d n hdq hn
        rw [e1]
        congr 1
        exact ih dns ds bs (by simpa using h1) (by simpa using h2) (by simpa using h3)
          (fun b hb' => hb b (by simp [hb'])) (fun d' hd' => hd d' (by simp [hd']))
          (fun t' ht' => hq t' (by simp [ht'])) (fun t' ht' => hne t' (by simp [ht']))

/-- what the lock-step loop keeps true while no bit-map operator is met -/
structure CInv (st : CompStB) : Prop where
  bms : ∀ b ∈ st.bms, b = ({} : BM)
  ddos : ∀ d ∈ st.ddos, quietDDO d
  todos : ∀ t ∈ st.todos, ∀ x ∈ t, quietNode x = true
  dones : ∀ t ∈ st.dones, ∀ x ∈ t, quietNode x = true
  l1 : st.bms.length = st.ddos.length
  l2 : st.dones.length = st.todos.length
  l3 : st.ddos.length = st.todos.length

def liftC (x : Except XErr CompStB) : Except XErr CompSt :=
  match x with
  | .ok s => .ok s.plain
  | .error e => .error e

def QL (l : List Node) : Prop := ∀ x ∈ l, quietNode x = true
def QLL (l : List (List Node)) : Prop := ∀ t ∈ l, QL t

theorem heads_spec : ∀ (todos : List (List Node)), (∀ t ∈ todos, t ≠ []) → QLL todos →
    (todos.filterMap (·.head?)).length = todos.length ∧ QL (todos.filterMap (·.head?))
  | [], _, _ => ⟨rfl, by intro x hx; simp at hx⟩
  | t :: ts, hne, hq => by
    match t, hne t (by simp), hq t (by simp) with
    | n :: tl, _, hqt =>
      obtain ⟨a, b⟩ := heads_spec ts (fun t' h => hne t' (by simp [h])) (fun t' h => hq t' (by simp [h]))
      simp only [List.filterMap_cons, List.head?_cons, List.length_cons]
      refine ⟨by rw [a], ?_⟩
      intro x hx
      simp only [List.mem_cons] at hx
      rcases hx with hx | hx
      · rw [hx]; exact hqt n (by simp)
      · exact b x hx

theorem applied_facts (T : Tables) (edition : Nat) : ∀ (ddos : List DDO) (heads : List Node),
    ddos.length = heads.length → (∀ d ∈ ddos, quietDDO d) → QL heads →
    ((List.zipWith (fun ddo n => applyTables2node T edition ddo n) ddos heads).map (·.1)).length = heads.length ∧
    (∀ d ∈ (List.zipWith (fun ddo n => applyTables2node T edition ddo n) ddos heads).map (·.1), quietDDO d) ∧
    ((List.zipWith (fun ddo n => applyTables2node T edition ddo n) ddos heads).map (·.2.1)).length = heads.length ∧
    QL ((List.zipWith (fun ddo n => applyTables2node T edition ddo n) ddos heads).map (·.2.1))
  | [], [], _, _, _ => by simp [QL]
  | d :: ds, n :: ns, hl, hd, hq => by
    obtain ⟨a, b, c, e⟩ := applied_facts T edition ds ns (by simpa using hl) (fun d' h => hd d' (by simp [h]))
      (fun x h => hq x (by simp [h]))
    have hdq := hd d (by simp)
    have hnq := hq n (by simp)
    simp only [List.zipWith_cons_cons, List.map_cons, List.length_cons]
    refine ⟨by rw [a], ?_, by rw [c], ?_⟩
    · intro d' hd'
      simp only [List.mem_cons] at hd'
      rcases hd' with h | h
      · rw [h]; exact applyTables2node_quietDDO T edition d n hdq hnq
      · exact b d' h
    · intro x hx
      simp only [List.mem_cons] at hx
      rcases hx with h | h
      · rw [h, applyTables2node_quietNode]; exact hnq
      · exact e x h
  | [], _ :: _, hl, _, _ => by simp at hl
  | _ :: _, [], hl, _, _ => by simp at hl

theorem zipCons_facts : ∀ (col : List Node) (dones : List (List Node)), col.length = dones.length → QL col → QLL dones →
    (List.zipWith (fun n d => n :: d) col dones).length = dones.length ∧ QLL (List.zipWith (fun n d => n :: d) col dones)
  | [], [], _, _, _ => by simp [QLL]
  | n :: ns, d :: ds, hl, hq, hd => by
    obtain ⟨a, b⟩ := zipCons_facts ns ds (by simpa using hl) (fun x h => hq x (by simp [h])) (fun t h => hd t (by simp [h]))
    simp only [List.zipWith_cons_cons, List.length_cons]
    refine ⟨by rw [a], ?_⟩
    intro t ht
    simp only [List.mem_cons] at ht
    rcases ht with h | h
    · rw [h]; intro x hx
      simp only [List.mem_cons] at hx
      rcases hx with h' | h'
      · rw [h']; exact hq n (by simp)
      · exact hd d (by simp) x h'
    · exact b t h
  | [], _ :: _, hl, _, _ => by simp at hl
  | _ :: _, [], hl, _, _ => by simp at hl

theorem tails_facts (todos : List (List Node)) (hq : QLL todos) :
    (todos.map (·.drop 1)).length = todos.length ∧ QLL (todos.map (·.drop 1)) := by
  refine ⟨by simp, ?_⟩
  intro t ht
  simp only [List.mem_map] at ht
  obtain ⟨t0, h0, rfl⟩ := ht
  intro x hx
  exact hq t0 h0 x (List.mem_of_mem_drop hx)

theorem crefval_facts (T : Tables) : ∀ (ddos : List DDO) (col : List Node), ddos.length = col.length →
    (∀ d ∈ ddos, quietDDO d) →
    (List.zipWith (fun ddo n => applyOpCrefval T ddo n) ddos col).length = col.length ∧
    ∀ d ∈ List.zipWith (fun ddo n => applyOpCrefval T ddo n) ddos col, quietDDO d
  | [], [], _, _ => by simp
  | d :: ds, n :: ns, hl, hd => by
    obtain ⟨a, b⟩ := crefval_facts T ds ns (by simpa using hl) (fun d' h => hd d' (by simp [h]))
    simp only [List.zipWith_cons_cons, List.length_cons]
    refine ⟨by rw [a], ?_⟩
    intro d' hd'
    simp only [List.mem_cons] at hd'
    rcases hd' with h | h
    · rw [h]; exact applyOpCrefval_quiet T d n (hd d (by simp))
    · exact b d' h
  | [], _ :: _, hl, _ => by simp at hl
  | _ :: _, [], hl, _ => by simp at hl

theorem readBody_df (ty : DType) (r1 r2 : R) (col2 col3 : List Node) (g : Range)
    (h : readBody ty r1 col2 g = some (r2, col3)) : SameDF col2 col3 := by
  unfold readBody at h
  split at h
  · exact getCcittCompressed_df _ _ _ _ _ h
  · exact getIeeeCompressed_df _ _ _ _ _ h
  · exact getNumericCompressed_df _ _ _ _ _ h
  · exact getNumericCompressed_df _ _ _ _ _ h
  · exact getNumericCompressed_df _ _ _ _ _ h
  · exact getNumericCompressed_df _ _ _ _ _ h
  · simp only [Option.some.injEq, Prod.mk.injEq] at h
    obtain ⟨_, rfl⟩ := h
    exact SameDF.refl _

theorem foldl_expStep_error (T : Tables) (f s4max : Nat) (e : XErr) :
    ∀ ps, List.foldl (expStep T f s4max) (.error e) ps = .error e
  | [] => rfl
  | p :: ps => by simp only [List.foldl_cons, expStep]; exact foldl_expStep_error T f s4max e ps

theorem foldl_expStep (T : Tables) (hT : QClosed T) (f s4max : Nat) :
    ∀ (ps : List (List Node × Node × List Node)) (ds ts : List (List Node)) (inv : Bool)
      (ds' ts' : List (List Node)) (inv' : Bool),
    (∀ p ∈ ps, QL p.1 ∧ quietNode p.2.1 = true ∧ QL p.2.2) → QLL ds → QLL ts → ds.length = ts.length →
    List.foldl (expStep T f s4max) (.ok (ds, ts, inv)) ps = .ok (ds', ts', inv') →
    QLL ds' ∧ QLL ts' ∧ ds'.length = ts'.length ∧ ts'.length = ts.length + ps.length := by
  intro ps
  induction ps with
  | nil =>
    intro ds ts inv ds' ts' inv' _ hd ht hl h
    simp only [List.foldl_nil, Except.ok.injEq, Prod.mk.injEq] at h
    obtain ⟨rfl, rfl, _⟩ := h
    exact ⟨hd, ht, hl, by simp⟩
  | cons p ps ih =>
    intro ds ts inv ds' ts' inv' hp hd ht hl h
    obtain ⟨hp1, hp2, hp3⟩ := hp p (by simp)
    simp only [List.foldl_cons] at h
    -- one step
    cases hs : expStep T f s4max (.ok (ds, ts, inv)) p with
    | error e => rw [hs, foldl_expStep_error] at h; exact absurd h (by simp)
    | ok q =>
      obtain ⟨ds1, ts1, inv1⟩ := q
      rw [hs] at h
      unfold expStep at hs
      simp only [] at hs
      split at hs
      · rename_i rnode dprev hp1e
        split at hs
        · exact absurd hs (by simp)
        · rename_i lst eflag hx
          split at hs
          · rename_i a b more
            simp only [Except.ok.injEq, Prod.mk.injEq] at hs
            obtain ⟨rfl, rfl, _⟩ := hs
            have hq1 : QL (rnode :: dprev) := by rw [← hp1e]; exact hp1
            have hl' := hT f (some s4max) rnode p.2.1 p.2.2 (a :: b :: more) eflag
              (by intro x hx'
                  simp only [List.mem_cons] at hx'
                  rcases hx' with h1 | h1 | h1
                  · rw [h1]; exact hq1 rnode (by simp)
                  · rw [h1]; exact hp2
                  · exact hp3 x h1) hx
            have := ih ((b :: a :: dprev) :: ds) (more :: ts) _ ds' ts' inv'
              (fun p' hp' => hp p' (by simp [hp']))
              (by intro t ht'
                  simp only [List.mem_cons] at ht'
                  rcases ht' with h1 | h1
                  · rw [h1]; intro x hx'
                    simp only [List.mem_cons] at hx'
                    rcases hx' with h2 | h2 | h2
                    · rw [h2]; exact hl' b (by simp)
                    · rw [h2]; exact hl' a (by simp)
                    · exact hq1 x (by simp [h2])
                  · exact hd t h1)
              (by intro t ht'
                  simp only [List.mem_cons] at ht'
                  rcases ht' with h1 | h1
                  · rw [h1]; intro x hx'; exact hl' x (by simp [hx'])
                  · exact ht t h1)
              (by simp [hl]) h
            obtain ⟨r1, r2, r3, r4⟩ := this
            exact ⟨r1, r2, r3, by rw [r4]; simp; omega⟩
          · exact absurd hs (by simp)
      · exact absurd hs (by simp)

theorem decodeCompressedLoopB_quiet (T : Tables) (edition s4max : Nat) (g : Range) (hT : QClosed T) :
    ∀ (fuel : Nat) (st : CompStB), CInv st →
    liftC (decodeCompressedLoopB T edition s4max g fuel st) = decodeCompressedLoop T edition s4max g fuel st.plain := by
  intro fuel
  induction fuel with
  | zero => intro st _; simp [decodeCompressedLoopB, decodeCompressedLoop, liftC]
  | succ f ih =>
    intro st hI
    obtain ⟨r, invalid, ddos, bms, dones, todos, pend, early⟩ := st
    obtain ⟨hIb, hId, hIt, hIdn, hl1, hl2, hl3⟩ := hI
    simp only [] at hIb hId hIt hIdn hl1 hl2 hl3
    unfold decodeCompressedLoopB decodeCompressedLoop
    simp only [CompStB.plain]
    cases todos with
    | nil => simp [liftC, CompStB.plain]
    | cons todo0 trest =>
      simp only []
      cases todo0 with
      | nil => simp [liftC, CompStB.plain]
      | cons cb tl0 =>
        simp only []
        by_cases hemp : (List.any ((cb :: tl0) :: trest) (·.isEmpty)) = true
        · simp [hemp, liftC]
        · simp only [hemp, Bool.false_eq_true, if_false]
          have hne : ∀ t ∈ (cb :: tl0) :: trest, t ≠ [] := by
            intro t ht hte
            apply hemp
            rw [List.any_eq_true]
            exact ⟨t, ht, by rw [hte]; rfl⟩
          have hap := applied_quiet T edition ((cb :: tl0) :: trest) dones ddos bms hl1 hl2 hl3 hIb hId hIt hne
          obtain ⟨hh1, hh2⟩ := heads_spec ((cb :: tl0) :: trest) hne hIt
          obtain ⟨fa1, fa2, fa3, fa4⟩ := applied_facts T edition ddos _ (by rw [hh1]; exact hl3) hId hh2
          rw [hh1] at fa1 fa3
          obtain ⟨ft1, ft2⟩ := tails_facts ((cb :: tl0) :: trest) hIt
          rw [hap]
          simp only [List.map_map, Function.comp_def, List.any_map]
          generalize hA : List.zipWith (fun ddo n => applyTables2node T edition ddo n) ddos
              (List.filterMap (fun x => x.head?) ((cb :: tl0) :: trest)) = A at fa1 fa2 fa3 fa4 ⊢
          have hbl : (List.map (fun (_ : DDO × Node × Bool) => ({} : BM)) A).length = (List.map (fun x => x.1) A).length := by simp
          have hbq : ∀ b ∈ List.map (fun (_ : DDO × Node × Bool) => ({} : BM)) A, b = ({} : BM) := by
            intro b hb; simp only [List.mem_map] at hb; obtain ⟨_, _, rfl⟩ := hb; rfl
          generalize List.map (fun (_ : DDO × Node × Bool) => ({} : BM)) A = bms1 at hbl hbq ⊢
          generalize hd1 : List.map (fun x => x.1) A = ddos1 at fa1 fa2 hbl ⊢
          generalize hc1 : List.map (fun x => x.2.1) A = col1 at fa3 fa4 ⊢
          generalize (A.any fun x => x.2.2) = e1
          generalize htl : List.map (fun x => List.drop 1 x) ((cb :: tl0) :: trest) = tails at ft1 ft2 ⊢
          generalize hn : ((cb :: tl0) :: trest).length = n at hl2 hl3 fa1 fa3 ft1
          clear hap hA hh1 hh2 hd1 hc1 htl hn hne hemp
          have hdq : QLL dones := hIdn
          by_cases hsk : cb.flags.skipped = true
          · simp only [hsk, if_true]
            obtain ⟨z1, z2⟩ := zipCons_facts col1 dones (by omega) fa4 hdq
            have hS : CInv (CompStB.mk r (invalid || e1) ddos1 bms1
                (List.zipWith (fun x1 x2 => x1 :: x2) col1 dones) tails pend early) :=
              ⟨hbq, fa2, ft2, z2, hbl, by show (List.zipWith _ col1 dones).length = tails.length; omega,
               by show ddos1.length = tails.length; omega⟩
            rw [ih _ hS]
            rfl
          · simp only [hsk, Bool.false_eq_true, if_false]
            cases haf : getAfCompressed r col1 g with
            | none => simp [liftC, CompStB.plain]
            | some p =>
              obtain ⟨r1, col2⟩ := p
              have d12 := getAfCompressed_df _ _ _ _ _ haf
              have q2 : QL col2 := SameDF.quiet d12 fa4
              have l2 : col2.length = n := by rw [SameDF.length d12]; exact fa3
              simp only []
              cases hbd : readBody (col1.headD cb).enc.type r1 col2 g with
              | none =>
                simp only []
                by_cases hc : pend = true ∧ (Desc.f cb.desc = 0 ∧ Desc.x cb.desc = 31) ∧ (col1.headD cb).enc.type = DType.numeric
                · simp only [hc, and_self, if_true]
                  generalize List.foldl (expStep T f s4max) (Except.ok ([], [], false))
                    (dones.zip ((numericPartial r1 col2 g).zip tails)) = fr
                  cases fr with
                  | error e => cases e <;> simp [liftC, CompStB.plain]
                  | ok q =>
                    obtain ⟨ds, ts, iv⟩ := q
                    simp only []
                    split <;> simp [liftC, CompStB.plain]
                · simp only [hc, if_false]
                  simp [liftC, CompStB.plain]
              | some p2 =>
                obtain ⟨r2, col3⟩ := p2
                have d23 := readBody_df _ _ _ _ _ _ hbd
                have q3 : QL col3 := SameDF.quiet d23 q2
                have l3 : col3.length = n := by rw [SameDF.length d23]; exact l2
                simp only []
                obtain ⟨c1, c2⟩ := crefval_facts T ddos1 col3 (by omega) fa2
                by_cases hc : pend = true ∧ Desc.f cb.desc = 0 ∧ Desc.x cb.desc = 31
                · simp only [hc, and_self, if_true]
                  cases hfr : List.foldl (expStep T f s4max) (Except.ok ([], [], false)) (dones.zip (col3.zip tails)) with
                  | error e => cases e <;> simp [liftC, CompStB.plain]
                  | ok q =>
                    obtain ⟨ds, ts, iv⟩ := q
                    simp only []
                    split
                    · simp [liftC, CompStB.plain]
                    · have hps : ∀ p ∈ dones.zip (col3.zip tails), QL p.1 ∧ quietNode p.2.1 = true ∧ QL p.2.2 := by
                        intro p hp
                        obtain ⟨m1, m2⟩ := List.of_mem_zip hp
                        obtain ⟨m3, m4⟩ := List.of_mem_zip m2
                        exact ⟨hdq _ m1, q3 _ m3, ft2 _ m4⟩
                      obtain ⟨g1, g2, g3, g4⟩ := foldl_expStep T hT f s4max _ [] [] false ds ts iv hps
                        (by intro t ht; simp at ht) (by intro t ht; simp at ht) rfl hfr
                      have g5 : ts.length = n := by
                        rw [g4]; simp only [List.length_nil, List.length_zip, Nat.zero_add]; omega
                      have hS : CInv (CompStB.mk r2 ((invalid || e1) || iv)
                          (List.zipWith (fun ddo n => applyOpCrefval T ddo n) ddos1 col3) bms1 ds.reverse ts.reverse false false) :=
                        ⟨hbq, c2, by intro t ht; exact g2 t (List.mem_reverse.mp ht),
                         by intro t ht; exact g1 t (List.mem_reverse.mp ht),
                         by show bms1.length = (List.zipWith _ ddos1 col3).length; omega,
                         by show ds.reverse.length = ts.reverse.length; simp [g3],
                         by show (List.zipWith _ ddos1 col3).length = ts.reverse.length; simp only [List.length_reverse]; omega⟩
                      rw [ih _ hS]
                      rfl
                · simp only [hc, if_false]
                  obtain ⟨z1, z2⟩ := zipCons_facts col3 dones (by omega) q3 hdq
                  have hS : ∀ pd, CInv (CompStB.mk r2 (invalid || e1)
                      (List.zipWith (fun ddo n => applyOpCrefval T ddo n) ddos1 col3) bms1
                      (List.zipWith (fun x1 x2 => x1 :: x2) col3 dones) tails pd false) := fun pd =>
                    ⟨hbq, c2, ft2, z2,
                     by show bms1.length = (List.zipWith _ ddos1 col3).length; omega,
                     by show (List.zipWith _ col3 dones).length = tails.length; omega,
                     by show (List.zipWith _ ddos1 col3).length = tails.length; omega⟩
                  rw [ih _ (hS _)]
                  rfl



theorem decodeCompressedAllB_quiet (T : Tables) (edition : Nat) (enforce : Enforce) (fuel s4max : Nat) (bsq : List Node)
    (err : Bool) (g : Range) (r0 : R) (hT : QClosed T) (hq : ∀ x ∈ bsq, quietNode x = true) :
    decodeCompressedAllB T edition enforce fuel s4max bsq err g r0 =
      decodeCompressedAll T edition enforce fuel s4max bsq err g r0 := by
  unfold decodeCompressedAllB decodeCompressedAll
  simp only []
  split
  · rfl
  · have hI : CInv (CompStB.mk r0 err (List.replicate g.count { enforce := enforce })
        (List.replicate g.count {}) (List.replicate g.count []) (List.replicate g.count bsq) false false) :=
      ⟨by intro b hb; exact (List.eq_of_mem_replicate hb),
       by intro d hd; rw [List.eq_of_mem_replicate hd]; exact quietDDO_fresh enforce,
       by intro t' ht x hx'; rw [List.eq_of_mem_replicate ht] at hx'; exact hq x hx',
       by intro t' ht x hx'; rw [List.eq_of_mem_replicate ht] at hx'; simp at hx',
       by simp, by simp, by simp⟩
    have := decodeCompressedLoopB_quiet T edition s4max g hT fuel _ hI
    simp only [CompStB.plain] at this
    rw [← this]
    cases decodeCompressedLoopB T edition s4max g fuel _ with
    | error e => rfl
    | ok st => rfl

/-- **the decoder's data part with the bit-map head is the plain one**, compressed or not, as long as
the expanded template holds no 2 36 YYY operator and no class 33 element -/
theorem decodeDataB_quiet (T : Tables) (fuel : Nat) (t : Template) (enforce : Enforce) (nsub : Nat)
    (compressed : Bool) (s4max : Nat) (data : List Nat) (from0 to0 : Int) (hT : QClosed T)
    (hE : ∀ bsq0, expandSequence T fuel (OP_EXPAND_DELAY_REPL ||| OP_ZDRC_SKIP) t.gabarit = .ok bsq0 →
            ∀ x ∈ bsq0, quietNode x = true) :
    decodeDataB T fuel t enforce nsub compressed s4max data from0 to0 =
      decodeData T fuel t enforce nsub compressed s4max data from0 to0 := by
  cases compressed with
  | false => exact decodeDataB_quiet_uncompressed T fuel t enforce nsub s4max data from0 to0 hT hE
  | true =>
    unfold decodeDataB decodeData
    split
    · rfl
    · split
      · rfl
      · simp only []
        cases hx : expandSequence T fuel (OP_EXPAND_DELAY_REPL ||| OP_ZDRC_SKIP) t.gabarit with
        | error e => cases e <;> rfl
        | ok bsq0 =>
          have hq0 := hE bsq0 hx
          obtain ⟨e1, e2⟩ := applyTablesAllB_quiet T t.edition bsq0 { enforce := enforce } [] (quietDDO_fresh enforce) hq0
          simp only []
          rw [e1]
          generalize applyTablesAll T t.edition { enforce := enforce } bsq0 = a at e2
          obtain ⟨bsq, ddoF, err⟩ := a
          simp only [] at e2 ⊢
          simp only [Bool.not_true, Bool.false_eq_true, if_false]
          rw [decodeCompressedAllB_quiet T t.edition enforce fuel s4max bsq err _ _ hT e2]

/-- the implementation limit on associated fields (`decodeDataC`, what the correspondence runs) only
matters for datasets that hold more than 64 bits of associated fields on one element: otherwise the
decoder is `decodeDataB` -/
theorem decodeDataC_eq (T : Tables) (fuel : Nat) (t : Template) (enforce : Enforce) (nsub : Nat) (compressed : Bool)
    (s4max : Nat) (data : List Nat) (from0 to0 : Int)
    (h : ∀ out, decodeDataB T fuel t enforce nsub compressed s4max data from0 to0 = .ok (some out) → afOverflow out = false) :
    decodeDataC T fuel t enforce nsub compressed s4max data from0 to0 =
      decodeDataB T fuel t enforce nsub compressed s4max data from0 to0 := by
  unfold decodeDataC
  split
  · rename_i out he
    rw [h out he]; simp [he]
  · rfl

end Bufr
