import BufrProofs.DumpLoad
/-
  C13, node level: from conditions on a node and its meta text to `LineOK` (the printed line is
  read whole and parses to the node's record), and the values the loader stores from the tokens.
-/
namespace Bufr.Dump
open Bufr Bufr.SF Bufr.Printf

/-- the conditions under which the line printed for a node can be read back: descriptor an `int`,
meta text made of `{…}` blocks, associated field of at most 64 bits, a character value without line
ends (and not in a flag table), any other value printed as a clean token, and a line `fgets` holds -/
structure NodeText (trim : Bool) (mt : List Nat) (n : Node) : Prop where
  desc : n.desc < 2 ^ 31
  mtOK : n.flags.skipped = false → ∃ L, mt = renderMeta L ∧ ∀ p ∈ L, BlockOK p.1
  af : n.afBits < 2 ^ 64
  str : ∀ bs, n.flags.skipped = false → n.val = .str bs →
    n.enc.type ≠ .flagtable ∧ cstr bs ≠ [] ∧ ∀ c ∈ cstr bs, c ≠ 10 ∧ c ≠ 13
  tok : n.flags.skipped = false → n.val.isSome = true → (∀ bs, n.val ≠ .str bs) → CleanTok (printDscptrValue trim n)
  short : (printNode trim mt n).length ≤ 2047

theorem fmtD6_chars (d : Nat) : ∀ c ∈ fmtD6 (d : Int), isDigit c = true := by
  rw [fmtD6_nat]; exact zpad_digits 6 _ (decNat_digits d)

theorem fmtD6_ne_nil (d : Nat) : fmtD6 (d : Int) ≠ [] := by
  rw [fmtD6_nat]; unfold zpad; intro h
  exact decNat_ne_nil d (List.append_eq_nil_iff.mp h).2

theorem renderMeta_chars (L : List (List Nat × Nat)) (hL : ∀ p ∈ L, BlockOK p.1) :
    ∀ c ∈ renderMeta L, c ≠ 10 ∧ c ≠ 0 := by
  induction L with
  | nil => simp [renderMeta]
  | cons p r ih =>
    obtain ⟨b, sp⟩ := p
    intro c hc
    simp only [renderMeta, List.mem_cons, List.mem_append] at hc
    rcases hc with rfl | hc | rfl | hc | hc
    · decide
    · have := hL (b, sp) (by simp) c hc; exact ⟨this.2.1, this.2.2⟩
    · decide
    · have := List.eq_of_mem_replicate hc; subst this; decide
    · exact ih (fun p hp => hL p (by simp [hp])) c hc

theorem printAf_chars (bits w : Nat) : ∀ c ∈ printAf bits w, c ≠ 10 ∧ c ≠ 0 := by
  intro c hc
  rw [printAf_cons, B_lit3] at hc
  simp only [List.mem_cons, List.mem_append] at hc
  rcases hc with rfl | rfl | rfl | hc | rfl | hc | hc
  · decide
  · decide
  · decide
  · have := hexNat_chars bits c hc; simp at this; exact ⟨by omega, by
      unfold hexNat at hc; rw [hexRev_eq] at hc
      simp only [List.mem_reverse, List.mem_map] at hc
      obtain ⟨d, _, rfl⟩ := hc
      unfold hexDig; split_ifs <;> omega⟩
  · decide
  · have := decNat_digits w c hc; unfold isDigit at this; simp at this; omega
  · simp at hc; omega

theorem isTokChar_ne (c : Nat) (h : isTokChar c = true) : c ≠ 10 ∧ c ≠ 0 := by
  have := isTokChar_facts c h
  simp at this; omega

theorem printDscptrValue_str (trim : Bool) (n : Node) (bs : List Nat) (hv : n.val = .str bs)
    (ht : n.enc.type ≠ .flagtable) : printDscptrValue trim n = 34 :: (cstr bs ++ [34]) := by
  unfold printDscptrValue
  cases hty : n.enc.type <;> simp_all [printScaledValue]

theorem B_hash : B "#" = [35] := by decide
theorem B_sp : B " " = [32] := by decide

/-- **one dump line**: under `NodeText` the printed line is read whole and parses to the record of
the node — descriptor, associated field, value token (quoted strings keep their blanks, quotes,
braces and parentheses) -/
theorem lineOK_of_nodeText (trim : Bool) (mt : List Nat) (n : Node) (h : NodeText trim mt n) : LineOK trim mt n := by
  have hdig := fmtD6_chars n.desc
  have hdne := fmtD6_ne_nil n.desc
  obtain ⟨cd, td, hcd⟩ := List.exists_cons_of_ne_nil hdne
  have hcdd : isDigit cd = true := hdig cd (by rw [hcd]; simp)
  have hdch : ∀ c ∈ fmtD6 (n.desc : Int), c ≠ 10 ∧ c ≠ 0 := by
    intro c hc; have := hdig c hc; unfold isDigit at this; simp at this; omega
  by_cases hsk : n.flags.skipped = true
  · -- a SKIPPED node: `#`?, descriptor, blank
    have hform : printNode trim mt n =
        (if n.flags.ignored && !n.flags.expanded then [35] else []) ++ fmtD6 (n.desc : Int) ++ [32] ++ [10] := by
      unfold printNode; rw [if_pos hsk, B_hash, B_sp]
    refine ⟨⟨(if n.flags.ignored && !n.flags.expanded then [35] else []) ++ fmtD6 (n.desc : Int) ++ [32], hform, ?_, ?_⟩, ?_, ?_, ?_⟩
    · intro c hc
      simp only [List.mem_append] at hc
      rcases hc with (hc | hc) | hc
      · split_ifs at hc
        · simp at hc; subst hc; decide
        · simp at hc
      · exact hdch c hc
      · simp at hc; subst hc; decide
    · have := h.short; rw [hform] at this; simp at this ⊢; omega
    · intro hcm
      unfold isComment at hcm
      simp only [hsk, Bool.true_and] at hcm
      rw [hform, hcm]; exact ⟨_, rfl⟩
    · intro hcm
      unfold isComment at hcm
      simp only [hsk, Bool.true_and] at hcm
      rw [hform, hcm, hcd]; exact ⟨cd, _, rfl, hcdd⟩
    · intro hcm
      unfold isComment at hcm
      simp only [hsk, Bool.true_and] at hcm
      rw [hform, hcm]
      have := parseLine_novalue n.desc h.desc [] (by simp)
      simp only [renderMeta, List.nil_append] at this
      simp only [Bool.false_eq_true, if_false, List.nil_append, List.append_assoc, List.singleton_append]
      rw [this]
      unfold recOf; simp [hsk]
  · have hsk' : n.flags.skipped = false := by simpa using hsk
    obtain ⟨L, hmt, hL⟩ := h.mtOK hsk'
    have hcm : isComment n = false := by unfold isComment; simp [hsk']
    have hmch := renderMeta_chars L hL
    subst hmt
    -- the text after descriptor and meta
    set w := (if n.val.isSome then (if hasAf n then printAf n.afBits n.afW else []) ++ printDscptrValue trim n else []) with hw
    have hform : printNode trim (renderMeta L) n = fmtD6 (n.desc : Int) ++ 32 :: (renderMeta L ++ w ++ [10]) := by
      unfold printNode; rw [if_neg hsk, B_sp]; simp [hw]
    have hwch : ∀ c ∈ w, c ≠ 10 ∧ c ≠ 0 := by
      intro c hc
      rw [hw] at hc
      split_ifs at hc with hv haf
      · rcases List.mem_append.mp hc with h1 | h1
        · exact printAf_chars _ _ c h1
        · cases hval : n.val with
          | str bs =>
            obtain ⟨ht, _, hs⟩ := h.str bs hsk' hval
            rw [printDscptrValue_str trim n bs hval ht] at h1
            simp only [List.mem_cons, List.mem_append] at h1
            rcases h1 with rfl | h1 | h1
            · decide
            · exact ⟨(hs c h1).1, cstr_no_nul bs c h1⟩
            · simp at h1; subst h1; decide
          | none => rw [hval] at hv; simp [Val.isSome] at hv
          | i32 v => exact isTokChar_ne c ((h.tok hsk' hv (by rw [hval]; simp)).2 c h1)
          | i64 v => exact isTokChar_ne c ((h.tok hsk' hv (by rw [hval]; simp)).2 c h1)
          | f32 v => exact isTokChar_ne c ((h.tok hsk' hv (by rw [hval]; simp)).2 c h1)
          | f64 v => exact isTokChar_ne c ((h.tok hsk' hv (by rw [hval]; simp)).2 c h1)
      · simp only [List.nil_append] at hc
        cases hval : n.val with
        | str bs =>
          obtain ⟨ht, _, hs⟩ := h.str bs hsk' hval
          rw [printDscptrValue_str trim n bs hval ht] at hc
          simp only [List.mem_cons, List.mem_append] at hc
          rcases hc with rfl | hc | hc
          · decide
          · exact ⟨(hs c hc).1, cstr_no_nul bs c hc⟩
          · simp at hc; subst hc; decide
        | none => rw [hval] at hv; simp [Val.isSome] at hv
        | i32 v => exact isTokChar_ne c ((h.tok hsk' hv (by rw [hval]; simp)).2 c hc)
        | i64 v => exact isTokChar_ne c ((h.tok hsk' hv (by rw [hval]; simp)).2 c hc)
        | f32 v => exact isTokChar_ne c ((h.tok hsk' hv (by rw [hval]; simp)).2 c hc)
        | f64 v => exact isTokChar_ne c ((h.tok hsk' hv (by rw [hval]; simp)).2 c hc)
      · simp at hc
    refine ⟨⟨fmtD6 (n.desc : Int) ++ 32 :: (renderMeta L ++ w), by rw [hform]; simp, ?_, ?_⟩, ?_, ?_, ?_⟩
    · intro c hc
      simp only [List.mem_append, List.mem_cons] at hc
      rcases hc with hc | rfl | hc | hc
      · exact hdch c hc
      · decide
      · exact hmch c hc
      · exact hwch c hc
    · have := h.short; rw [hform] at this; simp at this ⊢; omega
    · intro hc; rw [hcm] at hc; simp at hc
    · intro _; rw [hform, hcd]; exact ⟨cd, _, rfl, hcdd⟩
    · intro _
      rw [hform]
      by_cases hv : n.val.isSome = true
      · have haf : ∀ p, (if hasAf n then some (n.afBits, n.afW) else none) = some p → p.1 < 2 ^ 64 := by
          intro p hp; split_ifs at hp; simp at hp; rw [← hp]; exact h.af
        have hafT : (if hasAf n then printAf n.afBits n.afW else []) = afText (if hasAf n then some (n.afBits, n.afW) else none) := by
          split_ifs <;> rfl
        have hafR : (if hasAf n then some (n.afBits, n.afW) else none : Option (Nat × Nat)).map (fun p => some p.1) = afOf n := by
          unfold afOf; split_ifs <;> rfl
        cases hval : n.val with
        | str bs =>
          obtain ⟨ht, hne, hs⟩ := h.str bs hsk' hval
          have hwv : w = afText (if hasAf n then some (n.afBits, n.afW) else none) ++ (34 :: (cstr bs ++ [34])) := by
            rw [hw, if_pos hv, hafT, printDscptrValue_str trim n bs hval ht]
          rw [hwv, parseLine_quoted n.desc h.desc L hL _ haf (cstr bs) hne hs, hafR]
          unfold recOf; simp [hsk', hval, Val.isSome]
        | none => rw [hval] at hv; simp [Val.isSome] at hv
        | i32 v =>
          have hwv : w = afText (if hasAf n then some (n.afBits, n.afW) else none) ++ printDscptrValue trim n := by
            rw [hw, if_pos hv, hafT]
          rw [hwv, parseLine_value n.desc h.desc L hL _ haf _ (h.tok hsk' hv (by rw [hval]; simp)), hafR]
          unfold recOf; simp [hsk', hval, Val.isSome]
        | i64 v =>
          have hwv : w = afText (if hasAf n then some (n.afBits, n.afW) else none) ++ printDscptrValue trim n := by
            rw [hw, if_pos hv, hafT]
          rw [hwv, parseLine_value n.desc h.desc L hL _ haf _ (h.tok hsk' hv (by rw [hval]; simp)), hafR]
          unfold recOf; simp [hsk', hval, Val.isSome]
        | f32 v =>
          have hwv : w = afText (if hasAf n then some (n.afBits, n.afW) else none) ++ printDscptrValue trim n := by
            rw [hw, if_pos hv, hafT]
          rw [hwv, parseLine_value n.desc h.desc L hL _ haf _ (h.tok hsk' hv (by rw [hval]; simp)), hafR]
          unfold recOf; simp [hsk', hval, Val.isSome]
        | f64 v =>
          have hwv : w = afText (if hasAf n then some (n.afBits, n.afW) else none) ++ printDscptrValue trim n := by
            rw [hw, if_pos hv, hafT]
          rw [hwv, parseLine_value n.desc h.desc L hL _ haf _ (h.tok hsk' hv (by rw [hval]; simp)), hafR]
          unfold recOf; simp [hsk', hval, Val.isSome]
      · have hwn : w = [] := by rw [hw, if_neg hv]
        rw [hwn, List.append_nil, parseLine_novalue n.desc h.desc L hL]
        unfold recOf
        have : n.val.isSome = false := by simpa using hv
        simp [hsk', this]

/-! ### the values the loader stores -/

open Bufr.Scale in
theorem getRange_eq (code : Desc) (e : Scale.Enc) (h31 : Desc.x code ≠ 31) :
    Scale.getRange code e = (dFmin e, dFmax e) := by
  unfold Scale.getRange dFmin dFmax
  simp only [h31, if_false]
  split_ifs <;> rfl

theorem fmtF_not_msng (k : Nat) (q : ℚ) : fmtF k q ≠ B "MSNG" := by
  intro h
  have hc := fmtF_tok k q
  unfold fmtF at h
  simp only at h
  rw [B_MSNG] at h
  by_cases hq : q < 0
  · simp only [hq, if_true] at h
    simp at h
  · simp only [hq, if_false, List.nil_append] at h
    obtain ⟨c, t, hct⟩ := List.exists_cons_of_ne_nil (decNat_ne_nil (rneNat ((if q < 0 then -q else q) * ((10 ^ k : Nat) : ℚ)) / 10 ^ k))
    have hd := decNat_digits _ c (by rw [hct]; simp)
    simp only [hq, if_false] at hct
    rw [hct] at h
    simp at h
    unfold isDigit at hd; simp at hd; omega

/-- **numeric values at their stored precision**: the line of a decoded value gives the loader
back the same double, which passes the range test of `bufr_descriptor_set_dvalue`; so the node the
loader had (same descriptor and encoding, a missing double) becomes the node that was printed -/
theorem storeTok_numeric (trim : Bool) (n n0 : Node) (r : Rec) (x0 : FP) (i : ℕ)
    (hty : n.enc.type = .numeric) (hv : (sEnc n.enc).Valid) (hi : i < 2 ^ (sEnc n.enc).nbits - 1)
    (hval : n.val = .f64 (.fin (Scale.cvtI64ToDval (sEnc n.enc) i)))
    (hn0 : n0 = { n with val := .f64 x0 }) (h31 : Desc.x n.desc ≠ 31) (hlk : class31Locked n0 = false) :
    storeTok n0 r (printDscptrValue trim n) = n := by
  have h1 : (1:ℕ) ≤ 2 ^ (sEnc n.enc).nbits := Nat.one_le_two_pow
  have hi' : (i:ℤ) < 2 ^ (sEnc n.enc).nbits - 1 := by
    have : (i:ℤ) < ((2 ^ (sEnc n.enc).nbits - 1 : ℕ) : ℤ) := by exact_mod_cast hi
    rw [Nat.cast_sub h1] at this; push_cast at this; exact this
  have h0 : (0:ℤ) ≤ i := Int.natCast_nonneg i
  set x := Scale.cvtI64ToDval (sEnc n.enc) i with hx
  have hnm : x ≠ maxDouble := Scale.decode_not_missing _ hv i h0 hi'
  have hsc : (sEnc n.enc).scale = n.enc.scale := rfl
  have hprint : printDscptrValue trim n = printScaled n.enc.scale x := by
    unfold printDscptrValue
    rw [hty]
    simp only [hval, printScaledValue, fpMissingD, hnm, decide_false, Bool.false_eq_true, if_false]
  have hstrtod : strtod (printScaled n.enc.scale x) = .fin x := by
    rw [← hsc]; exact strtod_printScaled _ hv i h0 hi'
  have hne : printScaled n.enc.scale x ≠ B "MSNG" := by
    unfold printScaled; split_ifs <;> exact fmtF_not_msng _ _
  rw [hprint]
  unfold storeTok
  have hv0 : n0.val = .f64 x0 := by rw [hn0]
  simp only [hv0, hne, if_false, hstrtod, fpMissingD, hnm, decide_false, Bool.false_eq_true]
  -- `bufr_descriptor_set_dvalue`
  unfold setDvalue
  rw [hlk]
  have hsome : n0.val.isSome = true := by rw [hv0]; rfl
  simp only [Bool.false_eq_true, if_false, hsome, if_true, Bool.not_true, fpMissingD, hnm, decide_false]
  have hrange : getRangeN n0 = some (Scale.dFmin (sEnc n.enc), Scale.dFmax (sEnc n.enc)) := by
    unfold getRangeN
    have : n0.enc = n.enc := by rw [hn0]
    have hd : n0.desc = n.desc := by rw [hn0]
    rw [this, hty, hd, getRange_eq _ _ h31]
  rw [hrange]
  have hlo := Scale.decode_ge_fmin _ hv i h0 hi'
  have hhi := Scale.decode_le_fmax _ hv i h0 hi'
  have hin : Scale.dFmin (sEnc n.enc) ≤ x ∧ x ≤ Scale.dFmax (sEnc n.enc) :=
    ⟨not_lt.mp hlo, not_lt.mp hhi⟩
  simp only [hin, and_self, if_true]
  rw [hn0]
  simp only [Val.setDouble]
  cases n
  simp_all

/-- a missing double is printed `MSNG`, which leaves the loader's (missing) value as it is -/
theorem storeTok_numeric_missing (trim : Bool) (n : Node) (r : Rec)
    (hty : n.enc.type = .numeric) (hval : n.val = .f64 (.fin maxDouble)) :
    storeTok n r (printDscptrValue trim n) = n := by
  have hprint : printDscptrValue trim n = B "MSNG" := by
    unfold printDscptrValue
    rw [hty]
    simp [hval, printScaledValue, fpMissingD]
  rw [hprint]
  unfold storeTok
  simp [hval]

/-- **strings with embedded and trailing blanks**: the quoted token gives the loader the string
back, whatever blanks, quotes, braces or parentheses it holds -/
theorem storeTok_string (n n0 : Node) (bs bs0 : List Nat) (hval : n.val = .str bs)
    (hlen : bs.length = (n.enc.nbits / 8).toNat) (hnul : ∀ c ∈ bs, c ≠ 0)
    (hn0 : n0 = { n with val := .str bs0 }) :
    storeTok n0 { icode := n.desc, tok := some (cstr bs), quoted := true } (cstr bs) = n := by
  have hc : cstr bs = bs := cstr_of_no_nul bs hnul
  have hpad : strPad (some bs) bs.length = bs := by
    unfold strPad
    have h1 : bs.takeWhile (fun x => !decide (x = 0)) = bs :=
      takeWhile_all _ bs (by intro x hx; simp [hnul x hx])
    simp [h1]
  subst hn0
  simp only [storeTok, true_or, if_true, hc, setSvalue, Val.isSome, Val.setString, ← hlen, hpad]
  cases n
  simp_all

/-- **wide integers** (`VALTYPE_INT64`): the decimal token is stored as it is -/
theorem storeTok_int64 (n n0 : Node) (r : Rec) (v v0 : Int) (hval : n.val = .i64 v)
    (h0 : -(2:Int) ^ 63 ≤ v) (h1 : v < 2 ^ 63) (hty : n.enc.type ≠ .flagtable)
    (hn0 : n0 = { n with val := .i64 v0 }) :
    storeTok n0 r (fmtInt v) = n := by
  unfold storeTok
  have hv0 : n0.val = .i64 v0 := by rw [hn0]
  have henc : n0.enc = n.enc := by rw [hn0]
  simp only [hv0, henc]
  have : decide (n.enc.type = DType.flagtable) = false := by simp [hty]
  rw [this, intOfTok_fmtInt v h0 h1]
  rw [hn0]
  simp only [Val.setInt64, SF.wrapI64_of_range v h0 h1]
  cases n
  simp_all

/-- **flag tables in binary** (`VALTYPE_INT64`, 32 bits and more) -/
theorem storeTok_flag64 (n n0 : Node) (r : Rec) (v v0 : Int) (hval : n.val = .i64 v)
    (h0 : 0 ≤ v) (h1 : v < 2 ^ 63) (hty : n.enc.type = .flagtable) (hn : n.enc.nbits ≤ 64)
    (hn0 : n0 = { n with val := .i64 v0 }) :
    storeTok n0 r (printBinary v n.enc.nbits) = n := by
  unfold storeTok
  have hv0 : n0.val = .i64 v0 := by rw [hn0]
  have henc : n0.enc = n.enc := by rw [hn0]
  simp only [hv0, henc]
  have : decide (n.enc.type = DType.flagtable) = true := by simp [hty]
  rw [this, intOfTok_printBinary v n.enc.nbits h0 h1 hn]
  rw [hn0]
  simp only [Val.setInt64, SF.wrapI64_of_range v (by have : (0:Int) ≤ (2:Int)^63 := by positivity
                                                     omega) h1]
  cases n
  simp_all

end Bufr.Dump
