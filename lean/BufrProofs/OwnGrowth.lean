import BufrModel.Codec
import BufrProofs.Bits
/-
  BufrProofs.OwnGrowth — C16, the growth clause: every write the Section 4 encoder makes (uncompressed
  subsets and compressed columns alike) is a `bufr_putbits` of some field, so with fields of at most 64 bits
  each write lands inside the allocation and the buffer is grown before the next one, whatever size the
  buffer had to start with (`bufr_encode_message` first allocates the *uncompressed* size, which compressed
  data may exceed).
-/
namespace Bufr

/-- every write of the field list lands inside the current allocation (`maxDataLen + 10` octets) -/
def SafeWrites : W → List (Nat × Nat) → Prop
  | _, [] => True
  | w, f :: fs => w.maxTouched f.2 < w.maxDataLen + 10 ∧ SafeWrites (w.putbits f.1 f.2) fs

theorem putFields_safe (fs : List (Nat × Nat)) (hfs : ∀ f ∈ fs, f.2 ≤ 64) : ∀ (w : W), WInv w → CapInv w →
    SafeWrites w fs ∧ CapInv (w.putFields fs) ∧ WInv (w.putFields fs) := by
  induction fs with
  | nil => intro w h hc; exact ⟨trivial, by simpa [W.putFields] using hc, by simpa [W.putFields] using h⟩
  | cons f fs ih =>
    intro w h hc
    have h1 := putbits_cap w f.1 f.2 h hc (hfs f (by simp))
    have h2 := (putbits_bits w f.1 f.2 h).2
    obtain ⟨a, b, c⟩ := ih (fun g hg => hfs g (by simp [hg])) _ h2 h1.2
    simp only [W.putFields, List.foldl_cons] at b c ⊢
    exact ⟨⟨h1.1, a⟩, b, c⟩

theorem putFields_nil (w : W) : w.putFields [] = w := rfl
theorem putFields_append (w : W) (a b : List (Nat × Nat)) : w.putFields (a ++ b) = (w.putFields a).putFields b := by
  simp [W.putFields, List.foldl_append]
theorem putFields_single (w : W) (v n : Nat) : w.putFields [(v, n)] = w.putbits v n := rfl

theorem foldl_putFields {α} (g : α → List (Nat × Nat)) (F : W → α → W) (h : ∀ w a, F w a = w.putFields (g a)) :
    ∀ (l : List α) (w : W), l.foldl F w = w.putFields (l.flatMap g) := by
  intro l
  induction l with
  | nil => intro w; rfl
  | cons a l ih => intro w; rw [List.foldl_cons, h, ih, List.flatMap_cons, putFields_append]

/-- a byte string as 8-bit fields -/
def bytesF (s : List Nat) : List (Nat × Nat) := s.flatMap fun c => [(c, 8)]

theorem putstring_fields (w : W) (s : List Nat) : w.putstring s = w.putFields (bytesF s) :=
  foldl_putFields (fun c => [(c, 8)]) (fun w c => w.putbits c 8) (fun _ _ => rfl) s w

def padF (s : List Nat) (enclen : Nat) : List (Nat × Nat) :=
  bytesF (s.take enclen) ++ bytesF (List.replicate (enclen - s.length) 32)

theorem putPadString_fields (w : W) (s : List Nat) (enclen : Nat) : w.putPadString s enclen = w.putFields (padF s enclen) := by
  unfold W.putPadString padF
  rw [putFields_append]
  have h1 := foldl_putFields (fun c => [(c, 8)]) (fun w c => w.putbits c 8) (fun _ _ => rfl)
  simp only [h1]
  rfl

/-- the fields `bufr_put_desc_value` writes for a node -/
def fieldsDesc (n : Node) : List (Nat × Nat) :=
  if n.flags.skipped then []
  else
    (if n.enc.afNbits > 0 ∧ n.afW > 0 then [(n.afBits, n.afW)] else []) ++
    (match n.enc.type with
     | .ccitt => padF (valueString n) (n.enc.nbits / 8).toNat
     | .ieee => [(valueBits n, if n.enc.nbits = 64 then 64 else 32)]
     | .numeric | .chngRef | .codetable | .flagtable => [(valueBits n, n.enc.nbits.toNat)]
     | _ => [])

theorem putDescValue_fields (w : W) (n : Node) : putDescValue w n = w.putFields (fieldsDesc n) := by
  unfold putDescValue fieldsDesc
  split
  · rfl
  · rw [putFields_append]
    have haf : (if n.enc.afNbits > 0 ∧ n.afW > 0 then w.putbits n.afBits n.afW else w) =
        w.putFields (if n.enc.afNbits > 0 ∧ n.afW > 0 then [(n.afBits, n.afW)] else []) := by
      split <;> rfl
    simp only [haf]
    cases n.enc.type <;> simp only [putPadString_fields, putFields_single, putFields_nil]

/-- the fields `bufr_put_numeric_compressed` writes for a column -/
def fieldsNum (col : List Node) : List (Nat × Nat) :=
  match col with
  | [] => []
  | n0 :: _ =>
    let plan := encNumCol n0.enc.nbits (col.map value2bits)
    [(plan.1, n0.enc.nbits.toNat), (plan.2.1, 6)] ++ plan.2.2.flatMap fun v => [(v, plan.2.1)]

theorem putNumericCompressed_fields (w : W) (col : List Node) : putNumericCompressed w col = w.putFields (fieldsNum col) := by
  unfold putNumericCompressed fieldsNum
  cases col with
  | nil => rfl
  | cons n0 rest =>
    simp only
    rw [putFields_append]
    exact foldl_putFields (fun v => [(v, _)]) (fun w v => w.putbits v _) (fun _ _ => rfl) _ _

def fieldsAf (col : List Node) : List (Nat × Nat) :=
  match col with
  | [] => []
  | n0 :: _ =>
    if n0.enc.afNbits = 0 ∨ n0.afW = 0 then []
    else
      let vals := col.map (·.afBits)
      let umin := listMin vals 0
      let umax := listMax vals 0
      if umin = umax then [(umin, n0.afW), (0, 6)]
      else
        let nbinc := valueNbits (umax - umin)
        [(umin, n0.afW), (nbinc, 6)] ++ col.flatMap fun n => if n.afW > 0 then [(n.afBits - umin, nbinc)] else []

theorem putAfCompressed_fields (w : W) (col : List Node) : putAfCompressed w col = w.putFields (fieldsAf col) := by
  unfold putAfCompressed fieldsAf
  cases col with
  | nil => rfl
  | cons n0 rest =>
    simp only
    split
    · rfl
    · split
      · rfl
      · rw [putFields_append]
        exact foldl_putFields
          (fun (n : Node) => if n.afW > 0 then [(n.afBits - listMin ((n0 :: rest).map (·.afBits)) 0,
              valueNbits (listMax ((n0 :: rest).map (·.afBits)) 0 - listMin ((n0 :: rest).map (·.afBits)) 0))] else [])
          (fun w (n : Node) => if n.afW > 0 then w.putbits (n.afBits - listMin ((n0 :: rest).map (·.afBits)) 0)
              (valueNbits (listMax ((n0 :: rest).map (·.afBits)) 0 - listMin ((n0 :: rest).map (·.afBits)) 0)) else w)
          (fun w n => by split <;> rfl) _ _

def fieldsCcitt (col : List Node) : List (Nat × Nat) :=
  match col with
  | [] => []
  | n0 :: _ =>
    let enclen := (n0.enc.nbits / 8).toNat
    let s0 := valueString n0
    let differs := col.any fun n => strDiffers s0 (valueString n) (n.enc.nbits / 8).toNat
    if !differs then padF s0 enclen ++ [(0, 6)]
    else bytesF (strPad none enclen) ++ [(enclen, 6)] ++ col.flatMap fun n => padF (valueString n) (n.enc.nbits / 8).toNat

theorem putCcittCompressed_fields (w : W) (col : List Node) : putCcittCompressed w col = w.putFields (fieldsCcitt col) := by
  cases col with
  | nil => rfl
  | cons n0 rest =>
    have hfold : ∀ (l : List Node) (w : W),
        l.foldl (fun w n => w.putPadString (valueString n) (n.enc.nbits / 8).toNat) w =
          w.putFields (l.flatMap fun n => padF (valueString n) (n.enc.nbits / 8).toNat) :=
      foldl_putFields (fun n => padF (valueString n) (n.enc.nbits / 8).toNat)
        (fun w n => w.putPadString (valueString n) (n.enc.nbits / 8).toNat) (fun w n => putPadString_fields w _ _)
    unfold putCcittCompressed fieldsCcitt
    simp only
    split
    · rw [putFields_append, putPadString_fields, putFields_single]
    · rw [putFields_append, putFields_append, putstring_fields, hfold, putFields_single]

def fieldsIeee (col : List Node) : List (Nat × Nat) :=
  match col with
  | [] => []
  | n0 :: _ =>
    let nb : Nat := if n0.enc.nbits = 64 then 64 else 32
    let vals := col.map valueBits
    if vals.all (· = valueBits n0) then [(valueBits n0, nb), (0, 6)]
    else [(0, nb), (nb / 8, 6)] ++ vals.flatMap fun v => [(v, nb)]

theorem putIeeeCompressed_fields (w : W) (col : List Node) : putIeeeCompressed w col = w.putFields (fieldsIeee col) := by
  unfold putIeeeCompressed fieldsIeee
  cases col with
  | nil => rfl
  | cons n0 rest =>
    simp only
    split
    · rfl
    · rw [putFields_append]
      exact foldl_putFields (fun v => [(v, _)]) (fun w v => w.putbits v _) (fun _ _ => rfl) _ _

/-- the fields written for one column of compressed data -/
def fieldsColumn (col : List Node) : List (Nat × Nat) :=
  match col with
  | [] => []
  | n0 :: _ =>
    if n0.flags.skipped then []
    else
      fieldsAf col ++
      (match n0.enc.type with
       | .ccitt => fieldsCcitt col
       | .ieee => fieldsIeee col
       | .numeric | .codetable | .flagtable | .chngRef => if n0.enc.nbits ≤ 0 then [] else fieldsNum col
       | _ => [])

theorem putColumn_fields (w : W) (col : List Node) : putColumn w col = w.putFields (fieldsColumn col) := by
  unfold putColumn fieldsColumn
  cases col with
  | nil => rfl
  | cons n0 rest =>
    simp only
    split
    · rfl
    · rw [putFields_append, putAfCompressed_fields]
      cases n0.enc.type <;>
        simp only [putCcittCompressed_fields, putIeeeCompressed_fields, putNumericCompressed_fields, putFields_nil] <;>
        (try (split <;> simp only [putFields_nil]))

/-- all the fields of Section 4, in the order `bufr_encode_message` writes them -/
def encodeFields (ss : List (List Node)) (compressed : Bool) : List (Nat × Nat) :=
  if compressed then (columns ss).flatMap fieldsColumn else ss.flatMap fun s => s.flatMap fieldsDesc

theorem encode_subsets_fields (ss : List (List Node)) (w : W) :
    ss.foldl (fun w s => s.foldl putDescValue w) w = w.putFields (encodeFields ss false) := by
  unfold encodeFields
  simp only [Bool.false_eq_true, if_false]
  exact foldl_putFields (fun s => s.flatMap fieldsDesc) (fun w s => s.foldl putDescValue w)
    (fun w s => foldl_putFields fieldsDesc putDescValue putDescValue_fields s w) ss w

theorem encode_columns_fields (ss : List (List Node)) (w : W) :
    (columns ss).foldl putColumn w = w.putFields (encodeFields ss true) := by
  unfold encodeFields
  simp only [if_true]
  exact foldl_putFields fieldsColumn putColumn putColumn_fields (columns ss) w

/-- the data part of `bufr_encode_message` is a sequence of `bufr_putbits` calls on the initial allocation -/
theorem encodeData_fields (ss : List (List Node)) (dataFlag : Nat) (xCompress : Int) :
    ∃ c : Bool, (encodeData ss dataFlag xCompress).2 = ((W.new 0).alloc (s4Estimate ss)).putFields (encodeFields ss c) := by
  have key : ∀ (xc : Bool) (fl : Nat) (w0 : W),
      (if !xc then (fl, ss.foldl (fun w s => s.foldl putDescValue w) w0) else (fl, (columns ss).foldl putColumn w0)).2
        = w0.putFields (encodeFields ss xc) := by
    intro xc fl w0
    cases xc
    · simpa using encode_subsets_fields ss w0
    · simpa using encode_columns_fields ss w0
  unfold encodeData
  exact ⟨_, key _ _ _⟩

/-- uncompressed data: elements of at most 64 bits with associated fields of at most 64 bits give fields of at
most 64 bits -/
theorem padF_le (s : List Nat) (e : Nat) : ∀ g ∈ padF s e, g.2 ≤ 64 := by
  intro g hg
  unfold padF bytesF at hg
  simp only [List.mem_append, List.mem_flatMap, List.mem_singleton] at hg
  rcases hg with ⟨_, _, rfl⟩ | ⟨_, _, rfl⟩ <;> (show 8 ≤ 64; omega)

theorem fieldsDesc_le (n : Node) (hn : n.enc.nbits ≤ 64) (ha : n.afW ≤ 64) : ∀ f ∈ fieldsDesc n, f.2 ≤ 64 := by
  intro f hf
  unfold fieldsDesc at hf
  split at hf
  · cases hf
  · rcases List.mem_append.mp hf with h | h
    · split at h
      · simp only [List.mem_singleton] at h; subst h; exact ha
      · cases h
    · have hw : n.enc.nbits.toNat ≤ 64 := by omega
      cases ht : n.enc.type <;> simp only [ht] at h
      case ccitt => exact padF_le _ _ f h
      case ieee =>
        simp only [List.mem_singleton] at h; subst h
        show (if n.enc.nbits = 64 then 64 else 32) ≤ 64
        split <;> omega
      case numeric => simp only [List.mem_singleton] at h; subst h; exact hw
      case chngRef => simp only [List.mem_singleton] at h; subst h; exact hw
      case codetable => simp only [List.mem_singleton] at h; subst h; exact hw
      case flagtable => simp only [List.mem_singleton] at h; subst h; exact hw
      all_goals cases h

end Bufr
