import BufrModel.LocalTables
import BufrProofs.Tables
import BufrProofs.Bits
import BufrSpec.RefDecode
/-
  Helper lemmas for C20 (local table update messages).

  §1  `sprintf` formats read back by `atoi`/`atoll`
  §2  text fields: `split_lines`, blank filling, `strimdup`; unit → data type survives the trip
-/
namespace Bufr.LT
open Bufr Bufr.Tbl

/-! ## §1 numbers -/

theorem decDigitsF_spec : ∀ (f v : Nat), v < f →
    (decDigitsF f v ≠ []) ∧ (∀ c ∈ decDigitsF f v, isDigit c = true) ∧ decVal (decDigitsF f v) = v := by
  intro f
  induction f with
  | zero => intro v h; omega
  | succ n ih =>
    intro v hv
    unfold decDigitsF
    by_cases h10 : v < 10
    · simp only [h10, if_true]
      refine ⟨by simp, ?_, ?_⟩
      · intro c hc
        simp only [List.mem_singleton] at hc
        subst hc
        unfold isDigit
        simp only [Bool.and_eq_true, decide_eq_true_eq]
        omega
      · unfold decVal
        simp only [List.foldl_cons, List.foldl_nil]
        omega
    · simp only [h10, if_false]
      obtain ⟨_, h2, h3⟩ := ih (v / 10) (by omega)
      refine ⟨by simp, ?_, ?_⟩
      · intro c hc
        rcases List.mem_append.mp hc with h | h
        · exact h2 c h
        · simp only [List.mem_singleton] at h
          subst h
          unfold isDigit
          simp only [Bool.and_eq_true, decide_eq_true_eq]
          omega
      · unfold decVal at h3 ⊢
        rw [List.foldl_append, h3]
        simp only [List.foldl_cons, List.foldl_nil]
        omega

theorem decDigits_spec (v : Nat) :
    (decDigits v ≠ []) ∧ (∀ c ∈ decDigits v, isDigit c = true) ∧ decVal (decDigits v) = v :=
  decDigitsF_spec (v + 1) v (by omega)

theorem decDigitsF_length : ∀ (f v w : Nat), v < f → v < 10 ^ w → 0 < w → (decDigitsF f v).length ≤ w := by
  intro f
  induction f with
  | zero => intro v w h; omega
  | succ n ih =>
    intro v w hv hw hw0
    unfold decDigitsF
    by_cases h10 : v < 10
    · simp only [h10, if_true, List.length_singleton]; omega
    · simp only [h10, if_false, List.length_append, List.length_singleton]
      obtain ⟨w', rfl⟩ : ∃ w', w = w' + 1 := ⟨w - 1, by omega⟩
      have hw' : 0 < w' := by
        rcases Nat.eq_zero_or_pos w' with h | h
        · subst h; simp at hw; omega
        · exact h
      have : v / 10 < 10 ^ w' := by
        rw [Nat.pow_succ] at hw
        exact Nat.div_lt_of_lt_mul (by omega)
      have := ih (v / 10) w' (by omega) this hw'
      omega

theorem decDigits_length (v w : Nat) (h : v < 10 ^ w) (hw : 0 < w) : (decDigits v).length ≤ w :=
  decDigitsF_length (v + 1) v w (by omega) h hw

theorem decVal_zeros (k : Nat) (ds : Bytes) : decVal (List.replicate k 48 ++ ds) = decVal ds := by
  unfold decVal
  induction k with
  | zero => simp
  | succ n ih => rw [List.replicate_succ, List.cons_append, List.foldl_cons]; simpa using ih

theorem fmtBlank_eq (w v : Nat) (h : v < 10 ^ w) (hw : 0 < w) :
    fmtBlank w v = List.replicate (w - (decDigits v).length) 32 ++ decDigits v := by
  unfold fmtBlank padLeft
  have := decDigits_length v w h hw
  rw [List.take_of_length_le]
  simp only [List.length_append, List.length_replicate]; omega

theorem fmtZero_eq (w v : Nat) (h : v < 10 ^ w) (hw : 0 < w) :
    fmtZero w v = List.replicate (w - (decDigits v).length) 48 ++ decDigits v := by
  unfold fmtZero padLeft
  have := decDigits_length v w h hw
  rw [List.take_of_length_le]
  simp only [List.length_append, List.length_replicate]; omega

theorem fmtBlank_length (w v : Nat) (h : v < 10 ^ w) (hw : 0 < w) : (fmtBlank w v).length = w := by
  rw [fmtBlank_eq w v h hw]
  have := decDigits_length v w h hw
  simp only [List.length_append, List.length_replicate]; omega

theorem fmtZero_length (w v : Nat) (h : v < 10 ^ w) (hw : 0 < w) : (fmtZero w v).length = w := by
  rw [fmtZero_eq w v h hw]
  have := decDigits_length v w h hw
  simp only [List.length_append, List.length_replicate]; omega

/-- `atoi` reads back what `%<w>d` printed -/
theorem atoi_fmtBlank (w v : Nat) (h : v < 10 ^ w) (hw : 0 < w) (hi : v ≤ 2147483647) :
    atoi (fmtBlank w v) = v := by
  obtain ⟨hne, hdig, hval⟩ := decDigits_spec v
  have key := atoi_of_IntAt (fmtBlank w v) [] 0 (v : Int) (by omega)
    ⟨w - (decDigits v).length, false, decDigits v, [], by rw [List.drop_zero, fmtBlank_eq w v h hw]; simp,
      hne, hdig, by intro c hc; simp at hc, by simp [hval], by omega, by omega⟩
    (by intro c hc; simp at hc)
  simpa using key

theorem zeros_digits (k : Nat) : ∀ c ∈ List.replicate k 48, isDigit c = true := by
  intro c hc
  rw [List.mem_replicate] at hc
  rw [hc.2]; decide

/-- `atoi` reads back what `%.<w>d` printed -/
theorem atoi_fmtZero (w v : Nat) (h : v < 10 ^ w) (hw : 0 < w) (hi : v ≤ 2147483647) :
    atoi (fmtZero w v) = v := by
  obtain ⟨hne, hdig, hval⟩ := decDigits_spec v
  have hall : ∀ c ∈ fmtZero w v, isDigit c = true := by
    rw [fmtZero_eq w v h hw]
    intro c hc
    rcases List.mem_append.mp hc with h1 | h1
    · exact zeros_digits _ c h1
    · exact hdig c h1
  have hne' : fmtZero w v ≠ [] := by
    rw [fmtZero_eq w v h hw]; simp [hne]
  have key := atoi_of_IntAt (fmtZero w v) [] 0 (v : Int) (by omega)
    ⟨0, false, fmtZero w v, [], by simp, hne', hall, by intro c hc; simp at hc,
      by simp only [Bool.false_eq_true, if_false]; rw [fmtZero_eq w v h hw, decVal_zeros, hval], by omega, by omega⟩
    (by intro c hc; simp at hc)
  simpa using key


theorem atoiRaw_blank_digits (k : Nat) (ds : Bytes) (hne : ds ≠ []) (hd : ∀ c ∈ ds, isDigit c = true) :
    atoiRaw (List.replicate k 32 ++ ds) = (decVal ds : Int) := by
  obtain ⟨d0, dsr, hds⟩ : ∃ d0 dsr, ds = d0 :: dsr := by
    cases ds with
    | nil => exact absurd rfl hne
    | cons a b => exact ⟨a, b, rfl⟩
  have hd0 : isDigit d0 = true := hd d0 (by rw [hds]; exact List.mem_cons_self)
  unfold atoiRaw
  rw [dropWhile_blanks k _ (by
    intro c hc; rw [hds] at hc
    simp only [List.head?_cons, Option.some.injEq] at hc
    subst hc; exact isDigit_not_space hd0)]
  have h45 : d0 ≠ 45 := by intro hh; rw [hh] at hd0; exact absurd hd0 (by decide)
  have h43 : d0 ≠ 43 := by intro hh; rw [hh] at hd0; exact absurd hd0 (by decide)
  have hdv := digitsVal_append ds [] hd (by intro c hc; simp at hc) 0
  rw [List.append_nil] at hdv
  rw [hds] at hdv ⊢
  split
  · next r heq => simp only [List.cons.injEq] at heq; exact absurd heq.1 h45
  · next r heq => simp only [List.cons.injEq] at heq; exact absurd heq.1 h43
  · rw [hdv]; rfl

/-- `atoll` reads back what `%<w>lld` printed -/
theorem atoll_fmtBlank (w v : Nat) (h : v < 10 ^ w) (hw : 0 < w) (hi : v ≤ 9223372036854775807) :
    atoll (fmtBlank w v) = v := by
  obtain ⟨hne, hdig, hval⟩ := decDigits_spec v
  unfold atoll
  rw [fmtBlank_eq w v h hw, atoiRaw_blank_digits _ _ hne hdig, hval]
  unfold clamp64
  have a : ¬ (v : Int) > 9223372036854775807 := by omega
  have b : ¬ (v : Int) < -9223372036854775808 := by omega
  simp [a, b]

theorem wrap32_id (v : Int) (h1 : -2147483648 ≤ v) (h2 : v ≤ 2147483647) : wrap32 v = v := by
  unfold wrap32
  rw [Int.emod_eq_of_lt (by omega) (by omega)]; omega

/-- the sign character and the magnitude give the number back: scale (`atoi`, three digits) -/
theorem signed_scale (v : Int) (h : v.natAbs ≤ 999) :
    wrap32 ((if [signChar v].head? = some 45 then (-1 : Int) else 1) * atoi (fmtBlank 3 v.natAbs)) = v := by
  rw [atoi_fmtBlank 3 v.natAbs (by omega) (by omega) (by omega)]
  unfold signChar
  by_cases hv : v ≥ 0
  · simp only [hv, if_true, List.head?_cons, Option.some.injEq, show (43 : Nat) ≠ 45 by decide, if_false]
    rw [wrap32_id] <;> omega
  · simp only [hv, if_false, List.head?_cons, if_true]
    rw [wrap32_id] <;> omega

/-- reference (`atoll`, ten digits): every `int`, `-2147483648` included -/
theorem signed_ref (v : Int) (h1 : -2147483648 ≤ v) (h2 : v ≤ 2147483647) :
    wrap32 ((if [signChar v].head? = some 45 then (-1 : Int) else 1) * atoll (fmtBlank 10 v.natAbs)) = v := by
  rw [atoll_fmtBlank 10 v.natAbs (by omega) (by omega) (by omega)]
  unfold signChar
  by_cases hv : v ≥ 0
  · simp only [hv, if_true, List.head?_cons, Option.some.injEq, show (43 : Nat) ≠ 45 by decide, if_false]
    rw [wrap32_id] <;> omega
  · simp only [hv, if_false, List.head?_cons, if_true]
    rw [wrap32_id] <;> omega

/-- F, X and Y as one, two and three digits give the descriptor back -/
theorem fxy_back (d : Nat) (h : d < 1000000) :
    atoi (fmtZero 1 (Desc.f d)) = Desc.f d ∧ atoi (fmtZero 2 (Desc.x d)) = Desc.x d ∧
    atoi (fmtZero 3 (Desc.y d)) = Desc.y d ∧
    wrap32 ((Desc.f d : Int) * 100000 + (Desc.x d : Int) * 1000 + (Desc.y d : Int)) = d := by
  have hf : Desc.f d < 10 := by unfold Desc.f; omega
  have hx : Desc.x d < 100 := by unfold Desc.x; omega
  have hy : Desc.y d < 1000 := by unfold Desc.y; omega
  refine ⟨atoi_fmtZero 1 _ (by omega) (by omega) (by omega), atoi_fmtZero 2 _ (by omega) (by omega) (by omega),
          atoi_fmtZero 3 _ (by omega) (by omega) (by omega), ?_⟩
  have : (Desc.f d : Int) * 100000 + (Desc.x d : Int) * 1000 + (Desc.y d : Int) = (d : Int) := by
    unfold Desc.f Desc.x Desc.y; omega
  rw [this, wrap32_id] <;> omega


/-! ## §2 text -/

/-- a C string: no NUL inside -/
def NoNul (s : Bytes) : Prop := ∀ c ∈ s, c ≠ 0

instance (s : Bytes) : Decidable (NoNul s) := by unfold NoNul; infer_instance

/-- characters are octets -/
def Octets (s : Bytes) : Prop := ∀ c ∈ s, c < 256

instance (s : Bytes) : Decidable (Octets s) := by unfold Octets; infer_instance

theorem splitLines_fst (n1 n2 : Nat) (s : Bytes) :
    (splitLines n1 n2 s).1 = s.take n1 ++ List.replicate (n1 - s.length) 32 := by
  unfold splitLines
  by_cases h : s.length > n1
  · simp only [h, if_true]
    have : n1 - s.length = 0 := by omega
    rw [this]; simp
  · simp only [h, if_false]
    rw [List.take_of_length_le (by omega)]

theorem splitLines_snd (n1 n2 : Nat) (s : Bytes) :
    (splitLines n1 n2 s).2 = (s.drop n1).take n2 ++ List.replicate (n2 - (s.length - n1)) 32 := by
  unfold splitLines
  by_cases h : s.length > n1
  · simp only [h, if_true, List.length_take, List.length_drop]
    congr 2
    omega
  · simp only [h, if_false]
    have : s.drop n1 = [] := List.drop_eq_nil_of_le (by omega)
    rw [this]; simp
    omega

theorem splitLines_fst_length (n1 n2 : Nat) (s : Bytes) : (splitLines n1 n2 s).1.length = n1 := by
  rw [splitLines_fst]; simp only [List.length_append, List.length_take, List.length_replicate]; omega

theorem splitLines_snd_length (n1 n2 : Nat) (s : Bytes) : (splitLines n1 n2 s).2.length = n2 := by
  rw [splitLines_snd]; simp only [List.length_append, List.length_take, List.length_drop, List.length_replicate]; omega

/-- the two lines together are the first `n1 + n2` characters, blank filled -/
theorem splitLines_append (n1 n2 : Nat) (s : Bytes) :
    (splitLines n1 n2 s).1 ++ (splitLines n1 n2 s).2 =
      s.take (n1 + n2) ++ List.replicate (n1 + n2 - s.length) 32 := by
  rw [splitLines_fst, splitLines_snd]
  by_cases h : s.length > n1
  · have e1 : n1 - s.length = 0 := by omega
    rw [e1, List.replicate_zero, List.append_nil, ← List.append_assoc]
    have : s.take n1 ++ (s.drop n1).take n2 = s.take (n1 + n2) := by
      rw [List.take_add]
    rw [this]
    congr 2
    omega
  · have e0 : s.drop n1 = [] := List.drop_eq_nil_of_le (by omega)
    rw [e0, List.take_nil, List.nil_append, List.take_of_length_le (by omega), List.take_of_length_le (by omega),
      List.append_assoc, List.replicate_append_replicate]
    congr 2
    omega

theorem dropWhile_blanks' (k : Nat) (x : Bytes) :
    (List.replicate k 32 ++ x).dropWhile isSpace = x.dropWhile isSpace := by
  induction k with
  | zero => simp
  | succ n ih =>
    rw [List.replicate_succ, List.cons_append, List.dropWhile_cons]
    have : isSpace 32 = true := by decide
    rw [this]; exact ih

/-- blank filling disappears under `strimdup` -/
theorem rtrim_append_blanks (s : Bytes) (k : Nat) :
    rtrim isSpace (s ++ List.replicate k 32) = rtrim isSpace s := by
  unfold rtrim
  rw [List.reverse_append, List.reverse_replicate, dropWhile_blanks']

theorem NoNul_take {s : Bytes} (h : NoNul s) (n : Nat) : NoNul (s.take n) :=
  fun c hc => h c (List.mem_of_mem_take hc)

theorem NoNul_append {a b : Bytes} (ha : NoNul a) (hb : NoNul b) : NoNul (a ++ b) := by
  intro c hc
  rcases List.mem_append.mp hc with h | h
  · exact ha c h
  · exact hb c h

theorem NoNul_blanks (k : Nat) : NoNul (List.replicate k 32) := by
  intro c hc; rw [List.mem_replicate] at hc; omega

theorem NoNul_splitLines {s : Bytes} (h : NoNul s) (n1 n2 : Nat) :
    NoNul (splitLines n1 n2 s).1 ∧ NoNul (splitLines n1 n2 s).2 := by
  rw [splitLines_fst, splitLines_snd]
  exact ⟨NoNul_append (NoNul_take h _) (NoNul_blanks _),
         NoNul_append (NoNul_take (fun c hc => h c (List.mem_of_mem_drop hc)) _) (NoNul_blanks _)⟩

/-- the name as `bufr_extract_tables` rebuilds it from the two lines -/
theorem strim_lines (s : Bytes) (h : NoNul s) (n1 n2 : Nat) :
    strim ((splitLines n1 n2 s).1 ++ (splitLines n1 n2 s).2) = rtrim isSpace (s.take (n1 + n2)) := by
  unfold strim
  have hn := NoNul_splitLines h n1 n2
  rw [cstr_clean _ (NoNul_append hn.1 hn.2), splitLines_append, rtrim_append_blanks]

/-- the unit: one line, no second line -/
theorem strim_line (s : Bytes) (h : NoNul s) (n : Nat) :
    strim (splitLines n 0 s).1 = rtrim isSpace (s.take n) := by
  unfold strim
  rw [cstr_clean _ (NoNul_splitLines h n 0).1, splitLines_fst, rtrim_append_blanks]

theorem NoNul_of_digits {s : Bytes} (h : ∀ c ∈ s, isDigit c = true) : NoNul s := by
  intro c hc
  have := h c hc
  unfold isDigit at this
  simp only [Bool.and_eq_true, decide_eq_true_eq] at this
  omega

theorem NoNul_fmtBlank (w v : Nat) (h : v < 10 ^ w) (hw : 0 < w) : NoNul (fmtBlank w v) := by
  rw [fmtBlank_eq w v h hw]
  exact NoNul_append (NoNul_blanks _) (NoNul_of_digits (decDigits_spec v).2.1)

theorem NoNul_fmtZero (w v : Nat) (h : v < 10 ^ w) (hw : 0 < w) : NoNul (fmtZero w v) := by
  rw [fmtZero_eq w v h hw]
  exact NoNul_append (NoNul_of_digits (zeros_digits _)) (NoNul_of_digits (decDigits_spec v).2.1)


/-! ## §3 what the message says, item by item, and the walk of `bufr_extract_tables` over it -/

def sItem (d : Nat) (s : Bytes) : Spec.Item := { desc := d, kind := .ccitt, width := 8 * s.length, str := s }
def nItem (d w v : Nat) : Spec.Item := { desc := d, kind := .num, width := w, raw := v }

def fxyItems (d : Nat) : List Spec.Item :=
  [sItem 10 (fmtZero 1 (Desc.f d)), sItem 11 (fmtZero 2 (Desc.x d)), sItem 12 (fmtZero 3 (Desc.y d))]

/-- the eleven elements of 3 00 004 for one Table B entry -/
def itemsB (e : LB) : List Spec.Item :=
  fxyItems e.desc ++
  [sItem 13 (splitLines 32 32 e.name).1, sItem 14 (splitLines 32 32 e.name).2, sItem 15 (splitLines 24 0 e.unit).1,
   sItem 16 [signChar e.scale], sItem 17 (fmtBlank 3 e.scale.natAbs),
   sItem 18 [signChar e.ref], sItem 19 (fmtBlank 10 e.ref.natAbs), sItem 20 (fmtBlank 3 e.width)]

/-- 3 00 010 for one Table D entry: F X Y, the count, one 0 00 030 per member -/
def itemsD (e : LD) : List Spec.Item :=
  fxyItems e.desc ++ [nItem 31001 8 e.members.length] ++
  e.members.map (fun m => sItem 30 (fillLine 6 (fmtZero 6 m) 6))

def headItems (l : Local) : List Spec.Item :=
  if l.b = [] then []
  else [nItem 31001 8 1, sItem 1 (fmtZero 3 (l.cat % 256)), sItem 2 (splitLines 32 32 l.catDesc).1,
        sItem 3 (splitLines 32 32 l.catDesc).2,
        if l.b.length < 256 then nItem 31001 8 l.b.length else nItem 31002 16 l.b.length]

def dHeadItems (l : Local) : List Spec.Item :=
  if l.d.length ≥ 256 then [nItem 31002 16 l.d.length] else []

/-- everything a decoder finds in the data section `bufr_store_tables` wrote -/
def specItems (l : Local) : List Spec.Item :=
  headItems l ++ l.b.flatMap itemsB ++ (dHeadItems l ++ l.d.flatMap itemsD)

theorem xWalk_eq (ns : List Node) : ∀ st, xWalk st ns = xWalkV st (ns.map fun n => (n.desc, n.val)) := by
  induction ns with
  | nil => intro st; rfl
  | cons n r ih =>
    intro st
    simp only [xWalk, xStep, List.map_cons, xWalkV]
    cases xStepV st n.desc n.val with
    | none => rfl
    | some st' => exact ih st'

theorem xWalkV_append (a b : List (Nat × Val)) : ∀ st, xWalkV st (a ++ b) = (xWalkV st a).bind (fun s => xWalkV s b) := by
  induction a with
  | nil => intro st; rfl
  | cons x r ih =>
    intro st
    obtain ⟨d, v⟩ := x
    simp only [List.cons_append, xWalkV]
    cases xStepV st d v with
    | none => rfl
    | some st' => exact ih st'

theorem walkItems_append (a b : List Spec.Item) (st : XSt) :
    walkItems st (a ++ b) = (walkItems st a).bind (fun s => walkItems s b) := by
  unfold walkItems; rw [List.map_append, xWalkV_append]

theorem strPad_clean (s : Bytes) (h : NoNul s) : strPad (some s) s.length = s := by
  unfold strPad
  have h1 : ∀ (l : Bytes), NoNul l → l.takeWhile (fun x => decide (x ≠ 0)) = l := by
    intro l
    induction l with
    | nil => intro _; rfl
    | cons a r ih =>
      intro hl
      have ha : a ≠ 0 := hl a List.mem_cons_self
      rw [List.takeWhile_cons]
      simp only [ha, ne_eq, not_false_eq_true, decide_true, if_true]
      rw [ih (fun c hc => hl c (List.mem_cons_of_mem _ hc))]
  simp only [h1 s h, List.take_length, Nat.sub_self, List.replicate_zero, List.append_nil]

theorem valStr_str (s : Bytes) (h : NoNul s) : valStr (.str (strPad (some s) s.length)) = some s := by
  rw [strPad_clean s h]
  show some (cstr s) = some s
  rw [cstr_clean s h]

/-- what the message can carry of a name and of a unit -/
def normName (s : Bytes) : Bytes := rtrim isSpace (s.take 64)
def normUnit (s : Bytes) : Bytes := rtrim isSpace (s.take 24)

/-- the blank trimming (and the cut to the element widths) the code applies, made explicit -/
def normB (e : LB) : LB := { e with name := normName e.name, unit := normUnit e.unit }

def normalizeL (l : Local) : Local := { l with b := l.b.map normB }

/-- a Table B entry the message can carry -/
def InRangeB (e : LB) : Prop :=
  e.desc < 1000000 ∧ NoNul e.name ∧ NoNul e.unit ∧ e.scale.natAbs ≤ 999 ∧
  -2147483648 ≤ e.ref ∧ e.ref ≤ 2147483647 ∧ e.width ≤ 999 ∧ Octets e.name ∧ Octets e.unit

instance (e : LB) : Decidable (InRangeB e) := by unfold InRangeB; infer_instance

/-- a Table D entry the message can carry -/
def InRangeD (e : LD) : Prop :=
  e.desc < 1000000 ∧ 1 ≤ e.members.length ∧ e.members.length ≤ 255 ∧ ∀ m ∈ e.members, m < 1000000

instance (e : LD) : Decidable (InRangeD e) := by unfold InRangeD; infer_instance

theorem walk_fxy (st : XSt) (d : Nat) (h : d < 1000000) :
    walkItems st (fxyItems d) =
      some { st with f := Desc.f d, x := Desc.x d, y := Desc.y d, descriptor := d, ebDesc := d } := by
  have hf : Desc.f d < 10 := by unfold Desc.f; omega
  have hx : Desc.x d < 100 := by unfold Desc.x; omega
  have hy : Desc.y d < 1000 := by unfold Desc.y; omega
  obtain ⟨a1, a2, a3, a4⟩ := fxy_back d h
  have n1 := valStr_str _ (NoNul_fmtZero 1 (Desc.f d) (by omega) (by omega))
  have n2 := valStr_str _ (NoNul_fmtZero 2 (Desc.x d) (by omega) (by omega))
  have n3 := valStr_str _ (NoNul_fmtZero 3 (Desc.y d) (by omega) (by omega))
  simp only [walkItems, fxyItems, List.map_cons, List.map_nil, xWalkV, xStepV, sItem, itemVal, if_true, n1, n2, n3,
    a1, a2, a3, a4]


theorem NoNul_sign (v : Int) : NoNul [signChar v] := by
  intro c hc
  simp only [List.mem_singleton] at hc
  subst hc
  unfold signChar
  split <;> omega

theorem take_of_short {α} (l : List α) (n : Nat) (h : l.length ≤ n) : l.take n = l := List.take_of_length_le h

/-- one Table B entry: the walk appends exactly the entry, with the text fields as carried -/
theorem walk_itemsB (st : XSt) (e : LB) (h : InRangeB e) :
    ∃ st', walkItems st (itemsB e) = some st' ∧
      st'.out = { st.out with b := st.out.b ++ [XB.ofLB (normB e)] } ∧
      st'.codes = st.codes ∧ st'.countD = st.countD ∧ st'.c = st.c := by
  obtain ⟨hd, hn, hu, hs, hr1, hr2, hw, _, _⟩ := h
  have hl := NoNul_splitLines hn 32 32
  have v13 := valStr_str _ hl.1
  have v14 := valStr_str _ hl.2
  have v15 := valStr_str _ (NoNul_splitLines hu 24 0).1
  have v16 := valStr_str _ (NoNul_sign e.scale)
  have v17 := valStr_str _ (NoNul_fmtBlank 3 e.scale.natAbs (by omega) (by omega))
  have v18 := valStr_str _ (NoNul_sign e.ref)
  have v19 := valStr_str _ (NoNul_fmtBlank 10 e.ref.natAbs (by omega) (by omega))
  have v20 := valStr_str _ (NoNul_fmtBlank 3 e.width (by omega) (by omega))
  have t13 : (splitLines 32 32 e.name).1.take 511 = (splitLines 32 32 e.name).1 :=
    take_of_short _ _ (by rw [splitLines_fst_length]; omega)
  have t14 : ((splitLines 32 32 e.name).1 ++ (splitLines 32 32 e.name).2).take 511 =
      (splitLines 32 32 e.name).1 ++ (splitLines 32 32 e.name).2 :=
    take_of_short _ _ (by rw [List.length_append, splitLines_fst_length, splitLines_snd_length]; omega)
  have nm := strim_lines e.name hn 32 32
  have un := strim_line e.unit hu 24
  have sc := signed_scale e.scale hs
  have rf := signed_ref e.ref hr1 hr2
  have wd := atoi_fmtBlank 3 e.width (by omega) (by omega) (by omega)
  unfold itemsB
  rw [walkItems_append, walk_fxy st e.desc hd]
  simp only [Option.bind_some, walkItems, List.map_cons, List.map_nil, xWalkV, xStepV, sItem, itemVal, if_true,
    v13, v14, v15, v16, v17, v18, v19, v20, Option.map_some, t13, t14, nm, un, sc, rf, wd]
  refine ⟨_, rfl, ?_, rfl, rfl, rfl⟩
  simp only [XB.ofLB, normB, normName, normUnit, unitTypeCode]


theorem fillLine_six (m : Nat) (h : m < 1000000) : fillLine 6 (fmtZero 6 m) 6 = fmtZero 6 m := by
  have hl := fmtZero_length 6 m (by omega) (by omega)
  unfold fillLine
  simp only [Nat.min_self]
  rw [List.take_of_length_le (by omega), hl]
  simp

/-- one 0 00 030: the member joins `codes`; the last one completes the entry -/
theorem step30 (st : XSt) (acc : List Int) (m n : Nat) (hm : m < 1000000)
    (hc : st.codes = some acc) (hcc : st.c = acc.length) (hn : st.countD = (n : Int)) (hlt : acc.length < n) :
    xStepV st 30 (itemVal (sItem 30 (fillLine 6 (fmtZero 6 m) 6))) =
      if acc.length + 1 = n then
        some { st with out := { st.out with d := st.out.d ++ [{ desc := st.descriptor, members := acc ++ [(m : Int)] }] },
                       codes := none, countD := 0, c := 0 }
      else some { st with codes := some (acc ++ [(m : Int)]), c := acc.length + 1 } := by
  rw [fillLine_six m hm]
  have v := valStr_str _ (NoNul_fmtZero 6 m (by omega) (by omega))
  have a := atoi_fmtZero 6 m (by omega) (by omega) (by omega)
  have h1 : ((st.c : Nat) : Int) < st.countD := by rw [hcc, hn]; omega
  simp only [xStepV, sItem, itemVal, if_true, v, h1, Option.map_some, hc, a]
  by_cases hl : acc.length + 1 = n
  · have h2 : ((st.c + 1 : Nat) : Int) = st.countD := by rw [hcc, hn]; omega
    simp only [h2, hl, if_true, Option.getD_some]
    rw [hcc, List.take_of_length_le (by simp)]
  · have h2 : ¬ ((acc.length + 1 : Nat) : Int) = st.countD := by rw [hn]; omega
    simp only [hcc, h2, hl, if_false]

theorem walk_members (ms : List Nat) (hms : ∀ m ∈ ms, m < 1000000) :
    ∀ (st : XSt) (acc : List Int), ms ≠ [] → st.codes = some acc → st.c = acc.length →
      st.countD = ((acc.length + ms.length : Nat) : Int) →
      ∃ st', walkItems st (ms.map (fun m => sItem 30 (fillLine 6 (fmtZero 6 m) 6))) = some st' ∧
        st'.out = { st.out with d := st.out.d ++ [{ desc := st.descriptor, members := acc ++ ms.map Int.ofNat }] } ∧
        st'.codes = none ∧ st'.countD = 0 ∧ st'.c = 0 := by
  induction ms with
  | nil => intro st acc h; exact absurd rfl h
  | cons m rest ih =>
    intro st acc _ hc hcc hn
    have hm := hms m List.mem_cons_self
    have hstep := step30 st acc m (acc.length + (m :: rest).length) hm hc hcc hn (by simp)
    simp only [walkItems, List.map_cons, xWalkV]
    have hdsc : (sItem 30 (fillLine 6 (fmtZero 6 m) 6)).desc = 30 := rfl
    rw [hdsc, hstep]
    by_cases hr : rest = []
    · subst hr
      simp only [List.length_cons, List.length_nil, if_true, List.map_nil, xWalkV, List.map_cons]
      exact ⟨_, rfl, rfl, rfl, rfl, rfl⟩
    · have hne : ¬ (acc.length + 1 = acc.length + (m :: rest).length) := by
        have : rest.length ≠ 0 := fun h => hr (List.length_eq_zero_iff.mp h)
        simp only [List.length_cons]; omega
      simp only [hne, if_false]
      obtain ⟨st', h1, h2, h3, h4, h5⟩ := ih (fun x hx => hms x (List.mem_cons_of_mem _ hx))
        { st with codes := some (acc ++ [(m : Int)]), c := acc.length + 1 } (acc ++ [(m : Int)]) hr rfl
        (by simp) (by simp only [hn, List.length_append, List.length_cons, List.length_nil]; omega)
      simp only [walkItems] at h1
      refine ⟨st', h1, ?_, h3, h4, h5⟩
      rw [h2]
      simp [List.append_assoc]


/-- one Table D entry -/
theorem walk_itemsD (st : XSt) (e : LD) (h : InRangeD e) :
    ∃ st', walkItems st (itemsD e) = some st' ∧
      st'.out = { st.out with d := st.out.d ++ [XD.ofLD e] } ∧ st'.codes = none ∧ st'.countD = 0 ∧ st'.c = 0 := by
  obtain ⟨hd, h1, h2, hm⟩ := h
  have hne : e.members ≠ [] := by intro h; rw [h] at h1; simp at h1
  unfold itemsD
  rw [walkItems_append, walkItems_append, walk_fxy st e.desc hd]
  simp only [Option.bind_some]
  have hc : walkItems { st with f := Desc.f e.desc, x := Desc.x e.desc, y := Desc.y e.desc, descriptor := e.desc, ebDesc := e.desc }
      [nItem 31001 8 e.members.length] =
      some { st with f := Desc.f e.desc, x := Desc.x e.desc, y := Desc.y e.desc, descriptor := e.desc, ebDesc := e.desc,
                     countD := (e.members.length : Int), codes := some [], c := 0 } := by
    have : ¬ ((e.members.length : Nat) : Int) < 0 := by omega
    simp only [walkItems, List.map_cons, List.map_nil, xWalkV, xStepV, nItem, itemVal, Val.getInt32, this, if_false]
    rfl
  rw [hc]
  simp only [Option.bind_some]
  obtain ⟨st', w1, w2, w3, w4, w5⟩ := walk_members e.members hm
    { st with f := Desc.f e.desc, x := Desc.x e.desc, y := Desc.y e.desc, descriptor := e.desc, ebDesc := e.desc,
              countD := (e.members.length : Int), codes := some [], c := 0 } [] hne rfl rfl (by simp)
  refine ⟨st', w1, ?_, w3, w4, w5⟩
  rw [w2]
  simp [XD.ofLD]

theorem walk_allB (bs : List LB) (h : ∀ e ∈ bs, InRangeB e) :
    ∀ st : XSt, ∃ st', walkItems st (bs.flatMap itemsB) = some st' ∧
      st'.out = { st.out with b := st.out.b ++ bs.map (fun e => XB.ofLB (normB e)) } ∧
      st'.codes = st.codes ∧ st'.countD = st.countD ∧ st'.c = st.c := by
  induction bs with
  | nil => intro st; exact ⟨st, rfl, by simp, rfl, rfl, rfl⟩
  | cons e rest ih =>
    intro st
    obtain ⟨s1, a1, a2, a3, a4, a5⟩ := walk_itemsB st e (h e List.mem_cons_self)
    obtain ⟨s2, b1, b2, b3, b4, b5⟩ := ih (fun x hx => h x (List.mem_cons_of_mem _ hx)) s1
    refine ⟨s2, ?_, ?_, by rw [b3, a3], by rw [b4, a4], by rw [b5, a5]⟩
    · rw [List.flatMap_cons, walkItems_append, a1]; exact b1
    · rw [b2, a2]; simp [List.append_assoc]

theorem walk_allD (ds : List LD) (h : ∀ e ∈ ds, InRangeD e) :
    ∀ st : XSt, ∃ st', walkItems st (ds.flatMap itemsD) = some st' ∧
      st'.out = { st.out with d := st.out.d ++ ds.map XD.ofLD } := by
  induction ds with
  | nil => intro st; exact ⟨st, rfl, by simp⟩
  | cons e rest ih =>
    intro st
    obtain ⟨s1, a1, a2, _, _, _⟩ := walk_itemsD st e (h e List.mem_cons_self)
    obtain ⟨s2, b1, b2⟩ := ih (fun x hx => h x (List.mem_cons_of_mem _ hx)) s1
    refine ⟨s2, ?_, ?_⟩
    · rw [List.flatMap_cons, walkItems_append, a1]; exact b1
    · rw [b2, a2]; simp [List.append_assoc]

/-- the category as `bufr_set_tables_category` leaves it: a number below 256 and 64 characters
without NUL or white space other than blanks -/
def CatOk (l : Local) : Prop :=
  l.cat < 256 ∧ l.catDesc.length = 64 ∧ (∀ c ∈ l.catDesc, c ≠ 0 ∧ (isSpace c = true → c = 32)) ∧ Octets l.catDesc

instance (l : Local) : Decidable (CatOk l) := by unfold CatOk; infer_instance

theorem map_blank_id (s : Bytes) (h : ∀ c ∈ s, isSpace c = true → c = 32) :
    s.map (fun ch => if isSpace ch then 32 else ch) = s := by
  induction s with
  | nil => rfl
  | cons a r ih =>
    rw [List.map_cons, ih (fun c hc => h c (List.mem_cons_of_mem _ hc))]
    by_cases hs : isSpace a = true
    · rw [if_pos hs, h a List.mem_cons_self hs]
    · rw [if_neg hs]

/-- category, description and the count of entries that precede the Table B entries -/
theorem walk_head (st : XSt) (l : Local) (h : CatOk l) (hb : l.b ≠ []) :
    ∃ st', walkItems st (headItems l) = some st' ∧
      st'.out = { st.out with cat := l.cat, catDesc := l.catDesc } := by
  obtain ⟨hc, hlen, hch, _⟩ := h
  have hnn : NoNul l.catDesc := fun c hc' => (hch c hc').1
  have hl := NoNul_splitLines hnn 32 32
  have v1 := valStr_str _ (NoNul_fmtZero 3 (l.cat % 256) (by omega) (by omega))
  have v2 := valStr_str _ hl.1
  have v3 := valStr_str _ hl.2
  have a1 := atoi_fmtZero 3 (l.cat % 256) (by omega) (by omega) (by omega)
  have t2 : (splitLines 32 32 l.catDesc).1.take 511 = (splitLines 32 32 l.catDesc).1 :=
    take_of_short _ _ (by rw [splitLines_fst_length]; omega)
  have t3 : ((splitLines 32 32 l.catDesc).1 ++ (splitLines 32 32 l.catDesc).2).take 511 =
      (splitLines 32 32 l.catDesc).1 ++ (splitLines 32 32 l.catDesc).2 :=
    take_of_short _ _ (by rw [List.length_append, splitLines_fst_length, splitLines_snd_length]; omega)
  have happ : (splitLines 32 32 l.catDesc).1 ++ (splitLines 32 32 l.catDesc).2 = l.catDesc := by
    rw [splitLines_append, List.take_of_length_le (by omega), hlen]; simp
  have hcat : setCategory { cat := st.out.cat, catDesc := st.out.catDesc } ((l.cat % 256 : Nat) : Int) (some l.catDesc) =
      { cat := l.cat, catDesc := l.catDesc, b := [], d := [] } := by
    have e1 : (0 : Int) ≤ ((l.cat % 256 : Nat) : Int) ∧ ((l.cat % 256 : Nat) : Int) < 256 := by omega
    unfold setCategory
    simp only [e1, and_self, if_true, Int.toNat_natCast]
    rw [cstr_clean _ hnn, List.take_of_length_le (by omega), map_blank_id _ (fun c hc' => (hch c hc').2), hlen]
    simp [Nat.mod_eq_of_lt hc]
  have hstep (s : XSt) (x : Spec.Item) (r : List Spec.Item) :
      walkItems s (x :: r) = (xStepV s x.desc (itemVal x)).bind (fun s' => walkItems s' r) := by
    simp only [walkItems, List.map_cons, xWalkV]
    cases xStepV s x.desc (itemVal x) <;> rfl
  -- the last item sets `countD` (0 31 001) or is ignored (0 31 002): either way `out` is untouched
  have hlast (s : XSt) : ∃ s', walkItems s [if l.b.length < 256 then nItem 31001 8 l.b.length else nItem 31002 16 l.b.length] = some s' ∧
      s'.out = s.out := by
    by_cases h256 : l.b.length < 256
    · simp only [h256, if_true, hstep, nItem, xStepV, walkItems, List.map_nil, xWalkV, Option.bind_some]
      exact ⟨_, rfl, rfl⟩
    · simp only [h256, if_false, hstep, nItem, xStepV, walkItems, List.map_nil, xWalkV, Option.bind_some]
      exact ⟨_, rfl, rfl⟩
  unfold headItems
  simp only [hb, if_false]
  rw [hstep]
  simp only [nItem, xStepV, Option.bind_some]
  rw [hstep]
  simp only [sItem, itemVal, if_true, xStepV, v1, a1, Option.bind_some]
  rw [hstep]
  simp only [itemVal, if_true, xStepV, v2, t2, Option.bind_some]
  rw [hstep]
  have t3' : l.catDesc.take 511 = l.catDesc := take_of_short _ _ (by omega)
  simp only [itemVal, if_true, xStepV, v3, happ, t3', hcat, Option.bind_some]
  obtain ⟨s', e1, e2⟩ := hlast
    { st with countD := (Val.i32 ↑1).getInt32, codes := if (Val.i32 ↑1).getInt32 < 0 then none else some [], c := 0,
              cat := ((l.cat % 256 : Nat) : Int), desc := l.catDesc,
              out := { st.out with cat := l.cat, catDesc := l.catDesc } }
  exact ⟨s', e1, e2⟩

theorem walk_dhead (st : XSt) (l : Local) : walkItems st (dHeadItems l) = some st := by
  unfold dHeadItems
  by_cases h : l.d.length ≥ 256
  · simp only [h, if_true, walkItems, List.map_cons, List.map_nil, xWalkV, xStepV, nItem]
  · simp only [h, if_false, walkItems, List.map_nil, xWalkV]

def Extracted.ofLocal (l : Local) : Extracted :=
  { cat := l.cat, catDesc := l.catDesc, b := l.b.map XB.ofLB, d := l.d.map XD.ofLD }

/-- what a table update message carries of a table set: the text fields cut and trimmed, and the
category only together with Table B entries -/
def carried (l : Local) : Local :=
  if l.b = [] then { cat := 0, catDesc := List.replicate 64 32, b := [], d := l.d } else normalizeL l

/-- every entry is within what the message can carry -/
def InRange (l : Local) : Prop :=
  CatOk l ∧ (∀ e ∈ l.b, InRangeB e) ∧ (∀ e ∈ l.d, InRangeD e) ∧ l.b.length < 65536 ∧ l.d.length < 65536

instance (l : Local) : Decidable (InRange l) := by unfold InRange; infer_instance

/-- **the walk inverts the writer, item by item** -/
theorem extract_specItems (l : Local) (h : InRange l) :
    extractItems (specItems l) = some (Extracted.ofLocal (carried l)) := by
  obtain ⟨hc, hb, hd, _, _⟩ := h
  unfold extractItems specItems
  simp only [walkItems_append]
  by_cases hbn : l.b = []
  · have : headItems l = [] := by unfold headItems; simp [hbn]
    rw [this, hbn]
    simp only [walkItems, List.map_nil, xWalkV, Option.bind_some, List.flatMap_nil]
    have hd0 := walk_dhead {} l
    simp only [walkItems] at hd0
    rw [hd0]
    obtain ⟨s2, b1, b2⟩ := walk_allD l.d hd {}
    simp only [walkItems, Option.bind_some] at b1 ⊢
    rw [b1]
    simp only [Option.map_some, b2, carried, hbn, if_true, Extracted.ofLocal]
    simp
  · obtain ⟨s0, z1, z2⟩ := walk_head {} l hc hbn
    obtain ⟨s1, a1, a2, _, _, _⟩ := walk_allB l.b hb s0
    obtain ⟨s2, b1, b2⟩ := walk_allD l.d hd s1
    rw [z1]
    simp only [Option.bind_some]
    rw [a1]
    simp only [Option.bind_some]
    rw [walk_dhead, Option.bind_some, b1]
    simp only [Option.map_some, b2, a2, z2, carried, hbn, if_false, Extracted.ofLocal, normalizeL]
    simp [List.map_map, Function.comp_def]


/-! ## §4 the bits `bufr_store_tables` writes are the items, one after the other -/

/-- the bits of one item in Section 4: octets for character data, `width` bits otherwise -/
def itemBits (it : Spec.Item) : List Bool :=
  if it.kind = .ccitt then bytesBits it.str else bitsMSB it.width it.raw

def itemsBits (its : List Spec.Item) : List Bool := its.flatMap itemBits

theorem itemsBits_append (a b : List Spec.Item) : itemsBits (a ++ b) = itemsBits a ++ itemsBits b := by
  unfold itemsBits; rw [List.flatMap_append]

@[simp] theorem itemsBits_nil : itemsBits [] = [] := rfl

theorem itemsBits_cons (a : Spec.Item) (b : List Spec.Item) : itemsBits (a :: b) = itemBits a ++ itemsBits b := by
  unfold itemsBits; rw [List.flatMap_cons]

theorem putstring_bits (s : Bytes) : ∀ (w : W), WInv w →
    (w.putstring s).bits = w.bits ++ bytesBits s ∧ WInv (w.putstring s) := by
  unfold W.putstring bytesBits
  induction s with
  | nil => intro w h; simp [h]
  | cons c cs ih =>
    intro w h
    obtain ⟨p1, p2⟩ := putbits_bits w c 8 h
    obtain ⟨q1, q2⟩ := ih _ p2
    simp only [List.foldl_cons]
    exact ⟨by rw [q1, p1, List.append_assoc]; simp [List.flatMap_cons], q2⟩

theorem put_sItem (w : W) (hI : WInv w) (d : Nat) (s : Bytes) :
    (w.putstring s).bits = w.bits ++ itemBits (sItem d s) ∧ WInv (w.putstring s) := by
  have := putstring_bits s w hI
  simpa [itemBits, sItem] using this

theorem put_nItem (w : W) (hI : WInv w) (d wd v : Nat) :
    (w.putbits v wd).bits = w.bits ++ itemBits (nItem d wd v) ∧ WInv (w.putbits v wd) := by
  have := putbits_bits w v wd hI
  simpa [itemBits, nItem] using this

theorem putFxy_bits (w : W) (hI : WInv w) (d : Nat) :
    (putFxy w d).bits = w.bits ++ itemsBits (fxyItems d) ∧ WInv (putFxy w d) := by
  unfold putFxy fxyItems
  obtain ⟨a1, a2⟩ := put_sItem w hI 10 (fmtZero 1 (Desc.f d))
  obtain ⟨b1, b2⟩ := put_sItem _ a2 11 (fmtZero 2 (Desc.x d))
  obtain ⟨c1, c2⟩ := put_sItem _ b2 12 (fmtZero 3 (Desc.y d))
  refine ⟨?_, c2⟩
  rw [c1, b1, a1]
  simp only [itemsBits_cons, itemsBits_nil, List.append_nil, List.append_assoc]

theorem putB_bits (w : W) (hI : WInv w) (e : LB) :
    (putB stdMeta w e).bits = w.bits ++ itemsBits (itemsB e) ∧ WInv (putB stdMeta w e) := by
  unfold putB itemsB
  simp only [stdMeta]
  obtain ⟨a1, a2⟩ := putFxy_bits w hI e.desc
  obtain ⟨b1, b2⟩ := put_sItem _ a2 13 (splitLines 32 32 e.name).1
  obtain ⟨c1, c2⟩ := put_sItem _ b2 14 (splitLines 32 32 e.name).2
  obtain ⟨d1, d2⟩ := put_sItem _ c2 15 (splitLines 24 0 e.unit).1
  obtain ⟨e1, e2⟩ := put_sItem _ d2 16 [signChar e.scale]
  obtain ⟨f1, f2⟩ := put_sItem _ e2 17 (fmtBlank 3 e.scale.natAbs)
  obtain ⟨g1, g2⟩ := put_sItem _ f2 18 [signChar e.ref]
  obtain ⟨h1, h2⟩ := put_sItem _ g2 19 (fmtBlank 10 e.ref.natAbs)
  obtain ⟨i1, i2⟩ := put_sItem _ h2 20 (fmtBlank 3 e.width)
  refine ⟨?_, i2⟩
  rw [i1, h1, g1, f1, e1, d1, c1, b1, a1]
  simp only [itemsBits_append, itemsBits_cons, itemsBits_nil, List.append_nil, List.append_assoc]

theorem putMembers_bits (ms : List Nat) : ∀ (w : W), WInv w →
    (ms.foldl (fun w c => w.putstring (fillLine 6 (fmtZero 6 c) 6)) w).bits =
      w.bits ++ itemsBits (ms.map (fun m => sItem 30 (fillLine 6 (fmtZero 6 m) 6))) ∧
    WInv (ms.foldl (fun w c => w.putstring (fillLine 6 (fmtZero 6 c) 6)) w) := by
  induction ms with
  | nil => intro w h; simp [itemsBits, h]
  | cons m r ih =>
    intro w h
    obtain ⟨a1, a2⟩ := put_sItem w h 30 (fillLine 6 (fmtZero 6 m) 6)
    obtain ⟨b1, b2⟩ := ih _ a2
    simp only [List.foldl_cons, List.map_cons]
    refine ⟨?_, b2⟩
    rw [b1, a1, itemsBits_cons, List.append_assoc]

theorem putD_bits (w : W) (hI : WInv w) (e : LD) :
    (putD stdMeta w e).bits = w.bits ++ itemsBits (itemsD e) ∧ WInv (putD stdMeta w e) := by
  unfold putD itemsD
  simp only [stdMeta]
  obtain ⟨a1, a2⟩ := putFxy_bits w hI e.desc
  obtain ⟨b1, b2⟩ := put_nItem _ a2 31001 8 e.members.length
  obtain ⟨c1, c2⟩ := putMembers_bits e.members _ b2
  refine ⟨?_, c2⟩
  rw [c1, b1, a1]
  simp only [itemsBits_append, itemsBits_cons, itemsBits_nil, List.append_nil, List.append_assoc]

theorem foldB_bits (bs : List LB) : ∀ (w : W), WInv w →
    (bs.foldl (putB stdMeta) w).bits = w.bits ++ itemsBits (bs.flatMap itemsB) ∧ WInv (bs.foldl (putB stdMeta) w) := by
  induction bs with
  | nil => intro w h; simp [itemsBits, h]
  | cons e r ih =>
    intro w h
    obtain ⟨a1, a2⟩ := putB_bits w h e
    obtain ⟨b1, b2⟩ := ih _ a2
    simp only [List.foldl_cons, List.flatMap_cons]
    refine ⟨?_, b2⟩
    rw [b1, a1, itemsBits_append, List.append_assoc]

theorem foldD_bits (ds : List LD) : ∀ (w : W), WInv w →
    (ds.foldl (putD stdMeta) w).bits = w.bits ++ itemsBits (ds.flatMap itemsD) ∧ WInv (ds.foldl (putD stdMeta) w) := by
  induction ds with
  | nil => intro w h; simp [itemsBits, h]
  | cons e r ih =>
    intro w h
    obtain ⟨a1, a2⟩ := putD_bits w h e
    obtain ⟨b1, b2⟩ := ih _ a2
    simp only [List.foldl_cons, List.flatMap_cons]
    refine ⟨?_, b2⟩
    rw [b1, a1, itemsBits_append, List.append_assoc]

theorem storeBPart_bits (l : Local) (w : W) (hI : WInv w) :
    (storeBPart stdMeta l w).bits = w.bits ++ itemsBits (headItems l ++ l.b.flatMap itemsB) ∧
    WInv (storeBPart stdMeta l w) := by
  unfold storeBPart headItems
  have m1 : stdMeta.w31001 = 8 := rfl
  have m2 : stdMeta.w31002 = 16 := rfl
  have m3 : stdMeta.n2 = 32 := rfl
  have m4 : stdMeta.n3 = 32 := rfl
  simp only [m1, m2, m3, m4]
  by_cases hbn : l.b = []
  · simp [hbn, hI]
  · have hpos : l.b.length > 0 := List.length_pos_iff.mpr hbn
    simp only [hpos, if_true, hbn, if_false]
    obtain ⟨a1, a2⟩ := put_nItem w hI 31001 8 1
    obtain ⟨b1, b2⟩ := put_sItem _ a2 1 (fmtZero 3 (l.cat % 256))
    obtain ⟨c1, c2⟩ := put_sItem _ b2 2 (splitLines 32 32 l.catDesc).1
    obtain ⟨d1, d2⟩ := put_sItem _ c2 3 (splitLines 32 32 l.catDesc).2
    by_cases h256 : l.b.length < 256
    · simp only [h256, if_true]
      obtain ⟨e1, e2⟩ := put_nItem _ d2 31001 8 l.b.length
      obtain ⟨f1, f2⟩ := foldB_bits l.b _ e2
      refine ⟨?_, f2⟩
      rw [f1, e1, d1, c1, b1, a1]
      simp only [itemsBits_append, itemsBits_cons, itemsBits_nil, List.append_nil, List.append_assoc]
    · simp only [h256, if_false]
      obtain ⟨e1, e2⟩ := put_nItem _ d2 31002 16 l.b.length
      obtain ⟨f1, f2⟩ := foldB_bits l.b _ e2
      refine ⟨?_, f2⟩
      rw [f1, e1, d1, c1, b1, a1]
      simp only [itemsBits_append, itemsBits_cons, itemsBits_nil, List.append_nil, List.append_assoc]

theorem storeDPart_bits (l : Local) (w : W) (hI : WInv w) :
    (storeDPart stdMeta l w).bits = w.bits ++ itemsBits (dHeadItems l ++ l.d.flatMap itemsD) ∧
    WInv (storeDPart stdMeta l w) := by
  unfold storeDPart dHeadItems
  have m2 : stdMeta.w31002 = 16 := rfl
  simp only [m2]
  by_cases hdn : l.d.length > 0
  · simp only [hdn, if_true]
    by_cases h256 : l.d.length ≥ 256
    · simp only [h256, if_true]
      obtain ⟨e1, e2⟩ := put_nItem w hI 31002 16 l.d.length
      obtain ⟨f1, f2⟩ := foldD_bits l.d _ e2
      refine ⟨?_, f2⟩
      rw [f1, e1]
      simp only [itemsBits_append, itemsBits_cons, itemsBits_nil, List.append_nil, List.append_assoc]
    · simp only [h256, if_false]
      obtain ⟨f1, f2⟩ := foldD_bits l.d w hI
      refine ⟨?_, f2⟩
      rw [f1]
      simp only [List.nil_append]
  · have hd : l.d = [] := by
      cases hd : l.d with
      | nil => rfl
      | cons a r => rw [hd] at hdn; simp at hdn
    have h256 : ¬ l.d.length ≥ 256 := by omega
    simp only [hdn, if_false, h256, hd]
    simp [hI]

/-- **Section 4 is the items in order, nothing else** -/
theorem storeBits_bits (l : Local) :
    (storeBits stdMeta l).bits = itemsBits (specItems l) ∧ WInv (storeBits stdMeta l) := by
  have h0 : WInv (W.new 8192) := WInv_new 8192
  have hb0 : (W.new 8192).bits = [] := by simp [W.bits, W.new]
  unfold storeBits specItems
  obtain ⟨a1, a2⟩ := storeBPart_bits l _ h0
  obtain ⟨b1, b2⟩ := storeDPart_bits l _ a2
  refine ⟨?_, b2⟩
  rw [b1, a1, hb0, List.nil_append, ← itemsBits_append]


/-! ## §5 the reference decoder (BufrSpec.RefDecode) reads the items back -/

theorem takeBits_bits (w v : Nat) (rest : List Bool) (h : v < 2 ^ w) :
    Spec.takeBits w (bitsMSB w v ++ rest) = some (v, rest) := by
  unfold Spec.takeBits
  have hl : ¬ (bitsMSB w v ++ rest).length < w := by simp
  simp only [hl, if_false]
  rw [List.take_left' (bitsMSB_length w v), List.drop_left' (bitsMSB_length w v), ofBitsMSB_bitsMSB_of_lt w v h]

theorem takeOctets_bytes (s : Bytes) (ho : Octets s) (rest : List Bool) :
    Spec.takeOctets s.length (bytesBits s ++ rest) = some (s, rest) := by
  induction s with
  | nil => simp [Spec.takeOctets, bytesBits]
  | cons c r ih =>
    have hc : c < 2 ^ 8 := by have := ho c List.mem_cons_self; omega
    have hr : Octets r := fun x hx => ho x (List.mem_cons_of_mem _ hx)
    simp only [List.length_cons, Spec.takeOctets, bytesBits, List.flatMap_cons, List.append_assoc]
    rw [takeBits_bits 8 c _ hc]
    have := ih hr
    simp only [bytesBits] at this
    simp [this]

def IsCcitt (T : Tables) (d n : Nat) : Prop := ∃ e, T.fetchB d = some e ∧ e.typ = .ccitt ∧ e.nbits = 8 * n
def IsFactor (T : Tables) (d w : Nat) : Prop := ∃ e, T.fetchB d = some e ∧ e.typ = .numeric ∧ e.nbits = w
def HasSeq (T : Tables) (d : Nat) (ms : List Nat) : Prop := ∃ e, T.fetchD d = some e ∧ e.members = ms

theorem decSeq_nil (T : Tables) (f : Nat) (st : Spec.OpState) (bs : List Bool) :
    Spec.decSeq T (f + 1) st [] bs = some ([], st, bs) := by
  rw [Spec.decSeq]
  omega

theorem afTotal_empty : Spec.afTotal {} = 0 := rfl

/-- one character element in the neutral operator state -/
theorem decSeq_ccitt (T : Tables) (d : Nat) (s : Bytes) (hT : IsCcitt T d s.length) (hf : Desc.f d = 0)
    (hx : Desc.x d ≠ 31) (ho : Octets s) (f : Nat) (ds : List Nat) (rest : List Bool) :
    Spec.decSeq T (f + 1) {} (d :: ds) (itemBits (sItem d s) ++ rest) =
      (Spec.decSeq T f {} ds rest).bind (fun r => some (sItem d s :: r.1, r.2.1, r.2.2)) := by
  obtain ⟨e, he, ht, hn⟩ := hT
  have h3 : ¬ Desc.f d = 3 := by omega
  have h1 : ¬ Desc.f d = 1 := by omega
  have h2 : ¬ Desc.f d = 2 := by omega
  have hstep : ∀ nr, Spec.stepElem T {} d nr =
      ({}, { desc := d, kind := .ccitt, width := ((8 * s.length : Nat) : Int), scale := e.scale, ref := e.ref, af := 0 }) := by
    intro nr
    unfold Spec.stepElem
    simp only [he, hx, if_false, ht, hn, afTotal_empty]
    rfl
  have hread : Spec.readItem { desc := d, kind := .ccitt, width := ((8 * s.length : Nat) : Int), scale := e.scale, ref := e.ref, af := 0 }
      (bytesBits s ++ rest) = some (sItem d s, rest) := by
    unfold Spec.readItem
    have hk : Spec.dataKind Spec.Kind.ccitt = true := rfl
    have hw : (8 * s.length) / 8 = s.length := by omega
    simp only [hk, Bool.not_true, Bool.false_eq_true, if_false, Spec.takeBits, List.length_nil, Nat.not_lt_zero,
      Int.toNat_natCast, hw, List.take_zero, List.drop_zero]
    simp only [Option.bind_eq_bind, Option.bind_some, if_true]
    rw [takeOctets_bytes s ho rest]
    rfl
  rw [Spec.decSeq]
  simp only [h3, h1, h2, if_false, hstep]
  have hib : itemBits (sItem d s) = bytesBits s := by simp [itemBits, sItem]
  rw [hib, hread]
  have hk : Spec.dataKind Spec.Kind.ccitt = true := rfl
  simp only [Option.bind_eq_bind, Option.bind_some, hk, if_true, List.singleton_append, Option.pure_def]


def runItems (specs : List (Nat × Bytes)) : List Spec.Item := specs.map fun p => sItem p.1 p.2

/-- a run of character elements -/
theorem decSeq_run (T : Tables) : ∀ (specs : List (Nat × Bytes)),
    (∀ p ∈ specs, IsCcitt T p.1 p.2.length ∧ Desc.f p.1 = 0 ∧ Desc.x p.1 ≠ 31 ∧ Octets p.2) →
    ∀ (f : Nat) (ds : List Nat) (rest : List Bool),
      Spec.decSeq T (f + specs.length) {} (specs.map (·.1) ++ ds) (itemsBits (runItems specs) ++ rest) =
        (Spec.decSeq T f {} ds rest).bind (fun r => some (runItems specs ++ r.1, r.2.1, r.2.2)) := by
  intro specs
  induction specs with
  | nil =>
    intro _ f ds rest
    simp only [List.length_nil, Nat.add_zero, List.map_nil, List.nil_append, runItems, itemsBits_nil]
    cases Spec.decSeq T f {} ds rest with
    | none => rfl
    | some r => rfl
  | cons p r ih =>
    intro h f ds rest
    obtain ⟨h1, h2, h3, h4⟩ := h p List.mem_cons_self
    have e1 : f + (p :: r).length = (f + r.length) + 1 := by simp only [List.length_cons]; omega
    rw [e1]
    simp only [List.map_cons, List.cons_append, runItems, itemsBits_cons, List.append_assoc]
    rw [decSeq_ccitt T p.1 p.2 h1 h2 h3 h4]
    have := ih (fun q hq => h q (List.mem_cons_of_mem _ hq)) f ds rest
    simp only [runItems] at this
    rw [this]
    cases Spec.decSeq T f {} ds rest with
    | none => rfl
    | some r => rfl

/-- the tables in force define the class 00 elements, the two replication factors and the three
sequences as WMO does -/
structure StdT (T : Tables) : Prop where
  c1 : IsCcitt T 1 3
  c2 : IsCcitt T 2 32
  c3 : IsCcitt T 3 32
  c10 : IsCcitt T 10 1
  c11 : IsCcitt T 11 2
  c12 : IsCcitt T 12 3
  c13 : IsCcitt T 13 32
  c14 : IsCcitt T 14 32
  c15 : IsCcitt T 15 24
  c16 : IsCcitt T 16 1
  c17 : IsCcitt T 17 3
  c18 : IsCcitt T 18 1
  c19 : IsCcitt T 19 10
  c20 : IsCcitt T 20 3
  c30 : IsCcitt T 30 6
  f1 : IsFactor T 31001 8
  f2 : IsFactor T 31002 16
  d3 : HasSeq T 300003 [10, 11, 12]
  d4 : HasSeq T 300004 [300003, 13, 14, 15, 16, 17, 18, 19, 20]
  d10 : HasSeq T 300010 [300003, 101000, 31001, 30]

theorem Octets_of_digits {s : Bytes} (h : ∀ c ∈ s, isDigit c = true) : Octets s := by
  intro c hc
  have := h c hc
  unfold isDigit at this
  simp only [Bool.and_eq_true, decide_eq_true_eq] at this
  omega

theorem Octets_append {a b : Bytes} (ha : Octets a) (hb : Octets b) : Octets (a ++ b) := by
  intro c hc
  rcases List.mem_append.mp hc with h | h
  · exact ha c h
  · exact hb c h

theorem Octets_blanks (k : Nat) : Octets (List.replicate k 32) := by
  intro c hc; rw [List.mem_replicate] at hc; omega

theorem Octets_fmtBlank (w v : Nat) (h : v < 10 ^ w) (hw : 0 < w) : Octets (fmtBlank w v) := by
  rw [fmtBlank_eq w v h hw]
  exact Octets_append (Octets_blanks _) (Octets_of_digits (decDigits_spec v).2.1)

theorem Octets_fmtZero (w v : Nat) (h : v < 10 ^ w) (hw : 0 < w) : Octets (fmtZero w v) := by
  rw [fmtZero_eq w v h hw]
  exact Octets_append (Octets_of_digits (zeros_digits _)) (Octets_of_digits (decDigits_spec v).2.1)

theorem Octets_splitLines {s : Bytes} (h : Octets s) (n1 n2 : Nat) :
    Octets (splitLines n1 n2 s).1 ∧ Octets (splitLines n1 n2 s).2 := by
  rw [splitLines_fst, splitLines_snd]
  exact ⟨Octets_append (fun c hc => h c (List.mem_of_mem_take hc)) (Octets_blanks _),
         Octets_append (fun c hc => h c (List.mem_of_mem_drop (List.mem_of_mem_take hc))) (Octets_blanks _)⟩

theorem Octets_sign (v : Int) : Octets [signChar v] := by
  intro c hc
  simp only [List.mem_singleton] at hc
  subst hc
  unfold signChar
  split <;> omega

/-- F X Y through 3 00 003 -/
theorem decSeq_300003 (T : Tables) (hT : StdT T) (d : Nat) (hd : d < 1000000) (g : Nat) (ds : List Nat) (rest : List Bool) :
    Spec.decSeq T (g + 5) {} (300003 :: ds) (itemsBits (fxyItems d) ++ rest) =
      (Spec.decSeq T (g + 4) {} ds rest).bind (fun r => some (fxyItems d ++ r.1, r.2.1, r.2.2)) := by
  have hf : Desc.f d < 10 := by unfold Desc.f; omega
  have hx : Desc.x d < 100 := by unfold Desc.x; omega
  have hy : Desc.y d < 1000 := by unfold Desc.y; omega
  obtain ⟨e, he, hm⟩ := hT.d3
  have e1 : g + 5 = (g + 4) + 1 := by omega
  rw [e1, Spec.decSeq]
  have h3 : Desc.f 300003 = 3 := by decide
  simp only [h3, if_true, he, hm]
  have hrun := decSeq_run T [(10, fmtZero 1 (Desc.f d)), (11, fmtZero 2 (Desc.x d)), (12, fmtZero 3 (Desc.y d))]
    (by
      intro p hp
      simp only [List.mem_cons, List.mem_nil_iff, or_false] at hp
      rcases hp with rfl | rfl | rfl
      · refine ⟨?_, (by decide : Desc.f 10 = 0), (by decide : Desc.x 10 ≠ 31), Octets_fmtZero 1 _ (by omega) (by omega)⟩
        simp only; rw [fmtZero_length 1 _ (by omega) (by omega)]; exact hT.c10
      · refine ⟨?_, (by decide : Desc.f 11 = 0), (by decide : Desc.x 11 ≠ 31), Octets_fmtZero 2 _ (by omega) (by omega)⟩
        simp only; rw [fmtZero_length 2 _ (by omega) (by omega)]; exact hT.c11
      · refine ⟨?_, (by decide : Desc.f 12 = 0), (by decide : Desc.x 12 ≠ 31), Octets_fmtZero 3 _ (by omega) (by omega)⟩
        simp only; rw [fmtZero_length 3 _ (by omega) (by omega)]; exact hT.c12)
    (g + 1) [] rest
  simp only [List.length_cons, List.length_nil, List.map_cons, List.map_nil, List.append_nil, runItems] at hrun
  have e2 : g + 4 = g + 1 + (0 + 1 + 1 + 1) := by omega
  rw [fxyItems, e2, hrun, decSeq_nil]
  simp only [Option.bind_eq_bind, Option.bind_some, List.append_nil, Option.pure_def]


/-- one Table B entry through 3 00 004 -/
theorem decSeq_300004 (T : Tables) (hT : StdT T) (e : LB) (he : InRangeB e) (g : Nat) (ds : List Nat) (rest : List Bool) :
    Spec.decSeq T (g + 11) {} (300004 :: ds) (itemsBits (itemsB e) ++ rest) =
      (Spec.decSeq T (g + 10) {} ds rest).bind (fun r => some (itemsB e ++ r.1, r.2.1, r.2.2)) := by
  obtain ⟨hd, _, _, hs, hr1, hr2, hw, on, ou⟩ := he
  obtain ⟨e4, he4, hm4⟩ := hT.d4
  have e1 : g + 11 = (g + 10) + 1 := by omega
  rw [e1, Spec.decSeq]
  have h3 : Desc.f 300004 = 3 := by decide
  simp only [h3, if_true, he4, hm4]
  unfold itemsB
  rw [itemsBits_append, List.append_assoc]
  have e2 : g + 10 = (g + 5) + 5 := by omega
  rw [e2, decSeq_300003 T hT e.desc hd (g + 5)]
  have hrun := decSeq_run T
    [(13, (splitLines 32 32 e.name).1), (14, (splitLines 32 32 e.name).2), (15, (splitLines 24 0 e.unit).1),
     (16, [signChar e.scale]), (17, fmtBlank 3 e.scale.natAbs), (18, [signChar e.ref]),
     (19, fmtBlank 10 e.ref.natAbs), (20, fmtBlank 3 e.width)]
    (by
      intro p hp
      simp only [List.mem_cons, List.mem_nil_iff, or_false] at hp
      rcases hp with rfl | rfl | rfl | rfl | rfl | rfl | rfl | rfl
      · refine ⟨?_, (by decide : Desc.f 13 = 0), (by decide : Desc.x 13 ≠ 31), (Octets_splitLines on 32 32).1⟩
        simp only; rw [splitLines_fst_length]; exact hT.c13
      · refine ⟨?_, (by decide : Desc.f 14 = 0), (by decide : Desc.x 14 ≠ 31), (Octets_splitLines on 32 32).2⟩
        simp only; rw [splitLines_snd_length]; exact hT.c14
      · refine ⟨?_, (by decide : Desc.f 15 = 0), (by decide : Desc.x 15 ≠ 31), (Octets_splitLines ou 24 0).1⟩
        simp only; rw [splitLines_fst_length]; exact hT.c15
      · exact ⟨hT.c16, (by decide : Desc.f 16 = 0), (by decide : Desc.x 16 ≠ 31), Octets_sign _⟩
      · refine ⟨?_, (by decide : Desc.f 17 = 0), (by decide : Desc.x 17 ≠ 31), Octets_fmtBlank 3 _ (by omega) (by omega)⟩
        simp only; rw [fmtBlank_length 3 _ (by omega) (by omega)]; exact hT.c17
      · exact ⟨hT.c18, (by decide : Desc.f 18 = 0), (by decide : Desc.x 18 ≠ 31), Octets_sign _⟩
      · refine ⟨?_, (by decide : Desc.f 19 = 0), (by decide : Desc.x 19 ≠ 31), Octets_fmtBlank 10 _ (by omega) (by omega)⟩
        simp only; rw [fmtBlank_length 10 _ (by omega) (by omega)]; exact hT.c19
      · refine ⟨?_, (by decide : Desc.f 20 = 0), (by decide : Desc.x 20 ≠ 31), Octets_fmtBlank 3 _ (by omega) (by omega)⟩
        simp only; rw [fmtBlank_length 3 _ (by omega) (by omega)]; exact hT.c20)
    (g + 1) [] rest
  simp only [List.length_cons, List.length_nil, List.map_cons, List.map_nil, List.append_nil, runItems] at hrun
  have e3 : g + 5 + 4 = g + 1 + (0 + 1 + 1 + 1 + 1 + 1 + 1 + 1 + 1) := by omega
  rw [e3, hrun, decSeq_nil]
  simp only [Option.bind_eq_bind, Option.bind_some, List.append_nil, Option.pure_def]


theorem decRep_zero (T : Tables) (f : Nat) (st : Spec.OpState) (body : List Nat) (bs : List Bool) :
    Spec.decRep T (f + 1) st body 0 bs = some ([], st, bs) := by
  rw [Spec.decRep]
  omega

/-- the Table B entries, one 3 00 004 each -/
theorem decRep_300004 (T : Tables) (hT : StdT T) : ∀ (bs : List LB), (∀ e ∈ bs, InRangeB e) →
    ∀ (g : Nat) (rest : List Bool),
      Spec.decRep T (g + bs.length + 12) {} [300004] bs.length (itemsBits (bs.flatMap itemsB) ++ rest) =
        some (bs.flatMap itemsB, {}, rest) := by
  intro bs
  induction bs with
  | nil =>
    intro _ g rest
    simp only [List.length_nil, List.flatMap_nil, itemsBits_nil, List.nil_append]
    exact decRep_zero T _ _ _ _
  | cons e r ih =>
    intro h g rest
    have e1 : g + (e :: r).length + 12 = (g + r.length + 12) + 1 := by simp only [List.length_cons]; omega
    rw [e1, List.length_cons, Spec.decRep]
    rw [List.flatMap_cons, itemsBits_append, List.append_assoc]
    have e2 : g + r.length + 12 = (g + r.length + 1) + 11 := by omega
    rw [e2, decSeq_300004 T hT e (h e List.mem_cons_self) (g + r.length + 1) [] _]
    have e3 : g + r.length + 1 + 10 = (g + r.length + 10) + 1 := by omega
    rw [e3, decSeq_nil]
    have e4 : g + r.length + 1 + 11 = g + r.length + 12 := by omega
    rw [e4]
    simp only [Option.bind_eq_bind, Option.bind_some, List.append_nil, Option.pure_def]
    rw [ih (fun x hx => h x (List.mem_cons_of_mem _ hx)) g rest]
    simp only [Option.bind_some]

/-- the members of one sequence, one 0 00 030 each -/
theorem decRep_members (T : Tables) (hT : StdT T) : ∀ (ms : List Nat), (∀ m ∈ ms, m < 1000000) →
    ∀ (g : Nat) (rest : List Bool),
      Spec.decRep T (g + ms.length + 3) {} [30] ms.length
        (itemsBits (ms.map (fun m => sItem 30 (fillLine 6 (fmtZero 6 m) 6))) ++ rest) =
        some (ms.map (fun m => sItem 30 (fillLine 6 (fmtZero 6 m) 6)), {}, rest) := by
  intro ms
  induction ms with
  | nil =>
    intro _ g rest
    simp only [List.length_nil, List.map_nil, itemsBits_nil, List.nil_append]
    exact decRep_zero T _ _ _ _
  | cons m r ih =>
    intro h g rest
    have hm := h m List.mem_cons_self
    have e1 : g + (m :: r).length + 3 = (g + r.length + 3) + 1 := by simp only [List.length_cons]; omega
    rw [e1, List.length_cons, Spec.decRep]
    rw [List.map_cons, itemsBits_cons, List.append_assoc]
    have e2 : g + r.length + 3 = (g + r.length + 2) + 1 := by omega
    have hc : IsCcitt T 30 (fillLine 6 (fmtZero 6 m) 6).length := by
      rw [fillLine_six m hm, fmtZero_length 6 m (by omega) (by omega)]; exact hT.c30
    have ho : Octets (fillLine 6 (fmtZero 6 m) 6) := by
      rw [fillLine_six m hm]; exact Octets_fmtZero 6 m (by omega) (by omega)
    rw [e2, decSeq_ccitt T 30 _ hc (by decide) (by decide) ho]
    have e3 : g + r.length + 2 = (g + r.length + 1) + 1 := by omega
    rw [e3, decSeq_nil]
    have e4 : g + r.length + 1 + 1 + 1 = g + r.length + 3 := by omega
    rw [e4]
    simp only [Option.bind_eq_bind, Option.bind_some, Option.pure_def]
    rw [ih (fun x hx => h x (List.mem_cons_of_mem _ hx)) g rest]
    simp only [Option.bind_some, List.singleton_append]


/-- a delayed replication whose group decodes to `a`: the factor, the group, then the tail -/
theorem decSeq_delayed (T : Tables) (d c w v : Nat) (body tail : List Nat)
    (hd : Desc.f d = 1) (hy : Desc.y d = 0) (hx : Desc.x d = body.length)
    (hc0 : Desc.f c = 0) (hc31 : Desc.x c = 31) (hT : IsFactor T c w) (hv : v < 2 ^ w)
    (f : Nat) (bs bs1 : List Bool) (a : List Spec.Item)
    (hrep : Spec.decRep T f {} body (Spec.factorCount c v) bs = some (a, {}, bs1)) :
    Spec.decSeq T (f + 1) {} (d :: c :: (body ++ tail)) (bitsMSB w v ++ bs) =
      (Spec.decSeq T f {} tail bs1).bind (fun r => some (nItem c w v :: a ++ r.1, r.2.1, r.2.2)) := by
  obtain ⟨e, he, _, hn⟩ := hT
  have hy' : ¬ Desc.y d > 0 := by omega
  rw [Spec.decSeq]
  have hcond : ¬ (Desc.f c ≠ 0 ∨ Desc.x c ≠ 31 ∨ (body ++ tail).length < body.length) := by
    rw [hc0, hc31, List.length_append]; simp
  simp only [hd, (by decide : ¬ (1 : Nat) = 3), if_false, if_true, hy', hx, hcond, he, hn]
  rw [takeBits_bits w v bs hv]
  simp only [Option.bind_eq_bind, Option.bind_some, List.take_left', List.drop_left', hrep, Option.pure_def, nItem]

/-- one Table D entry through 3 00 010 -/
theorem decSeq_300010 (T : Tables) (hT : StdT T) (e : LD) (he : InRangeD e) (g : Nat) (ds : List Nat) (rest : List Bool) :
    Spec.decSeq T (g + e.members.length + 12) {} (300010 :: ds) (itemsBits (itemsD e) ++ rest) =
      (Spec.decSeq T (g + e.members.length + 11) {} ds rest).bind (fun r => some (itemsD e ++ r.1, r.2.1, r.2.2)) := by
  obtain ⟨hd, h1, h2, hm⟩ := he
  obtain ⟨e10, he10, hm10⟩ := hT.d10
  have e1 : g + e.members.length + 12 = (g + e.members.length + 11) + 1 := by omega
  rw [e1, Spec.decSeq]
  have h3 : Desc.f 300010 = 3 := by decide
  simp only [h3, if_true, he10, hm10]
  unfold itemsD
  rw [itemsBits_append, itemsBits_append, List.append_assoc, List.append_assoc]
  have e2 : g + e.members.length + 11 = (g + e.members.length + 6) + 5 := by omega
  rw [e2, decSeq_300003 T hT e.desc hd (g + e.members.length + 6)]
  have hrep := decRep_members T hT e.members hm (g + 6) rest
  have e3 : g + e.members.length + 6 + 4 = (g + 6 + e.members.length + 3) + 1 := by omega
  have hbits : itemsBits [nItem 31001 8 e.members.length] = bitsMSB 8 e.members.length := by
    simp [itemsBits_cons, itemBits, nItem]
  rw [e3, hbits]
  have hfc : Spec.factorCount 31001 e.members.length = e.members.length := by simp [Spec.factorCount]
  have hdel := decSeq_delayed T 101000 31001 8 e.members.length [30] [] (by decide) (by decide) (by decide)
    (by decide) (by decide) hT.f1 (by omega) (g + 6 + e.members.length + 3) _ rest _ (by rw [hfc]; exact hrep)
  simp only [List.append_nil, List.singleton_append] at hdel
  rw [hdel]
  have e4 : g + 6 + e.members.length + 3 = (g + e.members.length + 8) + 1 := by omega
  rw [e4, decSeq_nil]
  simp only [Option.bind_eq_bind, Option.bind_some, List.append_nil, Option.pure_def]
  have e5 : g + e.members.length + 6 + 5 = g + e.members.length + 11 := by omega
  rw [e5]
  cases Spec.decSeq T (g + e.members.length + 11) {} ds rest with
  | none => rfl
  | some r => simp


theorem decSeq_300010' (T : Tables) (hT : StdT T) (e : LD) (he : InRangeD e) (F : Nat) (hF : F ≥ e.members.length + 12)
    (ds : List Nat) (rest : List Bool) :
    Spec.decSeq T F {} (300010 :: ds) (itemsBits (itemsD e) ++ rest) =
      (Spec.decSeq T (F - 1) {} ds rest).bind (fun r => some (itemsD e ++ r.1, r.2.1, r.2.2)) := by
  have := decSeq_300010 T hT e he (F - e.members.length - 12) ds rest
  have e1 : F - e.members.length - 12 + e.members.length + 12 = F := by omega
  have e2 : F - e.members.length - 12 + e.members.length + 11 = F - 1 := by omega
  rw [e1, e2] at this
  exact this

/-- the Table D entries, one 3 00 010 each -/
theorem decRep_300010 (T : Tables) (hT : StdT T) : ∀ (ds : List LD), (∀ e ∈ ds, InRangeD e) →
    ∀ (g : Nat) (rest : List Bool),
      Spec.decRep T (g + ds.length + 270) {} [300010] ds.length (itemsBits (ds.flatMap itemsD) ++ rest) =
        some (ds.flatMap itemsD, {}, rest) := by
  intro ds
  induction ds with
  | nil =>
    intro _ g rest
    simp only [List.length_nil, List.flatMap_nil, itemsBits_nil, List.nil_append]
    exact decRep_zero T _ _ _ _
  | cons e r ih =>
    intro h g rest
    have he := h e List.mem_cons_self
    have hlen : e.members.length ≤ 255 := he.2.2.1
    have e1 : g + (e :: r).length + 270 = (g + r.length + 270) + 1 := by simp only [List.length_cons]; omega
    rw [e1, List.length_cons, Spec.decRep]
    rw [List.flatMap_cons, itemsBits_append, List.append_assoc]
    rw [decSeq_300010' T hT e he (g + r.length + 270) (by omega) [] _]
    have e3 : g + r.length + 270 - 1 = (g + r.length + 268) + 1 := by omega
    rw [e3, decSeq_nil]
    simp only [Option.bind_eq_bind, Option.bind_some, List.append_nil, Option.pure_def]
    rw [ih (fun x hx => h x (List.mem_cons_of_mem _ hx)) g rest]
    simp only [Option.bind_some]

theorem desc_fixed (n : Nat) (h : n < 256) :
    Desc.f (101000 + n) = 1 ∧ Desc.x (101000 + n) = 1 ∧ Desc.y (101000 + n) = n := by
  unfold Desc.f Desc.x Desc.y; omega

/-- the Table D part of Section 3 -/
theorem decSeq_dpart (T : Tables) (hT : StdT T) (l : Local) (hd : ∀ e ∈ l.d, InRangeD e) (hn : l.d.length < 65536)
    (F : Nat) (hF : F ≥ l.d.length + 275) (pad : List Bool) :
    Spec.decSeq T F {} (if l.d.length > 0 then (if l.d.length < 256 then [101000 + l.d.length] else [101000, 31002]) ++ [300010] else [])
      (itemsBits (dHeadItems l ++ l.d.flatMap itemsD) ++ pad) =
      some (dHeadItems l ++ l.d.flatMap itemsD, {}, pad) := by
  obtain ⟨F', rfl⟩ : ∃ F', F = F' + 1 := ⟨F - 1, by omega⟩
  by_cases h0 : l.d.length > 0
  · simp only [h0, if_true]
    by_cases h256 : l.d.length < 256
    · have hdh : dHeadItems l = [] := by unfold dHeadItems; simp; omega
      obtain ⟨d1, d2, d3⟩ := desc_fixed l.d.length h256
      simp only [h256, if_true, hdh, List.nil_append, List.singleton_append]
      rw [Spec.decSeq]
      have hy : Desc.y (101000 + l.d.length) > 0 := by omega
      simp only [d1, (by decide : ¬ (1 : Nat) = 3), if_false, if_true, d2, hy, d3, List.length_cons, List.length_nil,
        (by decide : ¬ (0 + 1 < 1)), List.take_succ_cons, List.take_zero, List.drop_succ_cons, List.drop_zero]
      have hrep := decRep_300010 T hT l.d hd (F' - l.d.length - 270) pad
      have e1 : F' - l.d.length - 270 + l.d.length + 270 = F' := by omega
      rw [e1] at hrep
      rw [hrep]
      obtain ⟨F'', rfl⟩ : ∃ F'', F' = F'' + 1 := ⟨F' - 1, by omega⟩
      simp only [Option.bind_eq_bind, Option.bind_some, decSeq_nil, List.append_nil, Option.pure_def, h0, if_true]
    · have hdh : dHeadItems l = [nItem 31002 16 l.d.length] := by unfold dHeadItems; simp; omega
      simp only [h256, if_false, hdh, List.cons_append, List.nil_append]
      have hbits : itemsBits (nItem 31002 16 l.d.length :: l.d.flatMap itemsD) =
          bitsMSB 16 l.d.length ++ itemsBits (l.d.flatMap itemsD) := by
        rw [itemsBits_cons]; simp [itemBits, nItem]
      rw [hbits, List.append_assoc]
      have hrep := decRep_300010 T hT l.d hd (F' - l.d.length - 270) pad
      have e1 : F' - l.d.length - 270 + l.d.length + 270 = F' := by omega
      rw [e1] at hrep
      have hfc : Spec.factorCount 31002 l.d.length = l.d.length := by simp [Spec.factorCount]
      have hdel := decSeq_delayed T 101000 31002 16 l.d.length [300010] [] (by decide) (by decide) (by decide)
        (by decide) (by decide) hT.f2 (by omega) F' _ pad _ (by rw [hfc]; exact hrep)
      simp only [List.append_nil, List.singleton_append] at hdel
      rw [hdel]
      obtain ⟨F'', rfl⟩ : ∃ F'', F' = F'' + 1 := ⟨F' - 1, by omega⟩
      simp only [decSeq_nil, Option.bind_some, List.append_nil]
  · have hdn : l.d = [] := by
      cases hd' : l.d with
      | nil => rfl
      | cons a r => rw [hd'] at h0; simp at h0
    have hdh : dHeadItems l = [] := by unfold dHeadItems; simp [hdn]
    simp only [h0, if_false, hdh, hdn, List.flatMap_nil, List.append_nil, itemsBits_nil, List.nil_append]
    exact decSeq_nil T _ _ _


theorem sec3_eq (nb nd : Nat) : sec3 nb nd =
    (if nb > 0 then [103000, 31001, 1, 2, 3, 101000, if nb < 256 then 31001 else 31002, 300004] else []) ++
    (if nd > 0 then (if nd < 256 then [101000 + nd] else [101000, 31002]) ++ [300010] else []) := rfl

/-- **the reference decoder reads Section 4 back as the items** -/
theorem refdecode_store (T : Tables) (hT : StdT T) (l : Local) (h : InRange l) (F : Nat)
    (hF : F ≥ l.b.length + l.d.length + 300) (pad : List Bool) :
    Spec.decSeq T F {} (sec3 l.b.length l.d.length) (itemsBits (specItems l) ++ pad) = some (specItems l, {}, pad) := by
  obtain ⟨hc, hb, hd, hnb, hnd⟩ := h
  rw [sec3_eq]
  unfold specItems
  by_cases hbn : l.b = []
  · have hh : headItems l = [] := by unfold headItems; simp [hbn]
    have h0 : ¬ l.b.length > 0 := by rw [hbn]; simp
    simp only [h0, if_false, List.nil_append, hh, hbn, List.flatMap_nil]
    exact decSeq_dpart T hT l hd hnd F (by omega) pad
  · have hpos : l.b.length > 0 := List.length_pos_iff.mpr hbn
    obtain ⟨_, hlen, hch, hoct⟩ := hc
    simp only [hpos, if_true]
    rw [itemsBits_append, itemsBits_append, List.append_assoc, List.append_assoc]
    unfold headItems
    simp only [hbn, if_false]
    obtain ⟨F0, rfl⟩ : ∃ F0, F = F0 + 6 := ⟨F - 6, by omega⟩
    -- the 1 03 000 group: category and its description
    have hrun := decSeq_run T
      [(1, fmtZero 3 (l.cat % 256)), (2, (splitLines 32 32 l.catDesc).1), (3, (splitLines 32 32 l.catDesc).2)]
      (by
        intro p hp
        simp only [List.mem_cons, List.mem_nil_iff, or_false] at hp
        rcases hp with rfl | rfl | rfl
        · refine ⟨?_, (by decide : Desc.f 1 = 0), (by decide : Desc.x 1 ≠ 31), Octets_fmtZero 3 _ (by omega) (by omega)⟩
          simp only; rw [fmtZero_length 3 _ (by omega) (by omega)]; exact hT.c1
        · refine ⟨?_, (by decide : Desc.f 2 = 0), (by decide : Desc.x 2 ≠ 31), (Octets_splitLines hoct 32 32).1⟩
          simp only; rw [splitLines_fst_length]; exact hT.c2
        · refine ⟨?_, (by decide : Desc.f 3 = 0), (by decide : Desc.x 3 ≠ 31), (Octets_splitLines hoct 32 32).2⟩
          simp only; rw [splitLines_snd_length]; exact hT.c3)
      (F0 + 1) []
    simp only [List.length_cons, List.length_nil, List.map_cons, List.map_nil, List.append_nil, runItems] at hrun
    have hgrp : ∀ rest, Spec.decRep T (F0 + 5) {} [1, 2, 3] (Spec.factorCount 31001 1)
        (itemsBits [sItem 1 (fmtZero 3 (l.cat % 256)), sItem 2 (splitLines 32 32 l.catDesc).1,
                    sItem 3 (splitLines 32 32 l.catDesc).2] ++ rest) =
        some ([sItem 1 (fmtZero 3 (l.cat % 256)), sItem 2 (splitLines 32 32 l.catDesc).1,
               sItem 3 (splitLines 32 32 l.catDesc).2], {}, rest) := by
      intro rest
      have hfc : Spec.factorCount 31001 1 = 0 + 1 := by simp [Spec.factorCount]
      have e1 : F0 + 5 = (F0 + 4) + 1 := by omega
      rw [hfc, e1, Spec.decRep]
      have e3 : F0 + 4 = F0 + 1 + (0 + 1 + 1 + 1) := by omega
      rw [e3, hrun rest, decSeq_nil]
      simp only [Option.bind_eq_bind, Option.bind_some, List.append_nil, Option.pure_def]
      have e5 : F0 + 1 + (0 + 1 + 1 + 1) = (F0 + 3) + 1 := by omega
      rw [e5, decRep_zero]
      simp only [Option.bind_some, List.append_nil]
    -- the Table B entries, then the Table D part
    have hrepB := decRep_300004 T hT l.b hb (F0 + 4 - l.b.length - 12)
    have e6 : F0 + 4 - l.b.length - 12 + l.b.length + 12 = F0 + 4 := by omega
    rw [e6] at hrepB
    have hdp := decSeq_dpart T hT l hd hnd (F0 + 4) (by omega) pad
    have e7 : F0 + 6 = (F0 + 5) + 1 := by omega
    have e8 : F0 + 5 = (F0 + 4) + 1 := by omega
    by_cases h256 : l.b.length < 256
    · simp only [h256, if_true]
      have hb1 : itemsBits [nItem 31001 8 1, sItem 1 (fmtZero 3 (l.cat % 256)), sItem 2 (splitLines 32 32 l.catDesc).1,
            sItem 3 (splitLines 32 32 l.catDesc).2, nItem 31001 8 l.b.length] =
          bitsMSB 8 1 ++ (itemsBits [sItem 1 (fmtZero 3 (l.cat % 256)), sItem 2 (splitLines 32 32 l.catDesc).1,
            sItem 3 (splitLines 32 32 l.catDesc).2] ++ bitsMSB 8 l.b.length) := by
        simp only [itemsBits_cons, itemsBits_nil, List.append_nil, List.append_assoc]
        simp [itemBits, nItem]
      rw [hb1]
      simp only [List.append_assoc]
      have hdel1 := decSeq_delayed T 103000 31001 8 1 [1, 2, 3]
        ([101000, 31001, 300004] ++ (if l.d.length > 0 then (if l.d.length < 256 then [101000 + l.d.length] else [101000, 31002]) ++ [300010] else []))
        (by decide) (by decide) (by decide) (by decide) (by decide) hT.f1 (by omega) (F0 + 5) _ _ _
        (hgrp (bitsMSB 8 l.b.length ++ (itemsBits (l.b.flatMap itemsB) ++ (itemsBits (dHeadItems l ++ l.d.flatMap itemsD) ++ pad))))
      have hfc : Spec.factorCount 31001 l.b.length = l.b.length := by simp [Spec.factorCount]
      have hdel2 := decSeq_delayed T 101000 31001 8 l.b.length [300004]
        (if l.d.length > 0 then (if l.d.length < 256 then [101000 + l.d.length] else [101000, 31002]) ++ [300010] else [])
        (by decide) (by decide) (by decide) (by decide) (by decide) hT.f1 (by omega) (F0 + 4) _ _ _
        (by rw [hfc]; exact hrepB (itemsBits (dHeadItems l ++ l.d.flatMap itemsD) ++ pad))
      simp only [List.cons_append, List.nil_append] at hdel1 hdel2 ⊢
      rw [e7, hdel1, e8, hdel2, hdp]
      simp only [Option.bind_some, List.cons_append, List.nil_append, List.append_assoc]
    · simp only [h256, if_false]
      have hb1 : itemsBits [nItem 31001 8 1, sItem 1 (fmtZero 3 (l.cat % 256)), sItem 2 (splitLines 32 32 l.catDesc).1,
            sItem 3 (splitLines 32 32 l.catDesc).2, nItem 31002 16 l.b.length] =
          bitsMSB 8 1 ++ (itemsBits [sItem 1 (fmtZero 3 (l.cat % 256)), sItem 2 (splitLines 32 32 l.catDesc).1,
            sItem 3 (splitLines 32 32 l.catDesc).2] ++ bitsMSB 16 l.b.length) := by
        simp only [itemsBits_cons, itemsBits_nil, List.append_nil, List.append_assoc]
        simp [itemBits, nItem]
      rw [hb1]
      simp only [List.append_assoc]
      have hdel1 := decSeq_delayed T 103000 31001 8 1 [1, 2, 3]
        ([101000, 31002, 300004] ++ (if l.d.length > 0 then (if l.d.length < 256 then [101000 + l.d.length] else [101000, 31002]) ++ [300010] else []))
        (by decide) (by decide) (by decide) (by decide) (by decide) hT.f1 (by omega) (F0 + 5) _ _ _
        (hgrp (bitsMSB 16 l.b.length ++ (itemsBits (l.b.flatMap itemsB) ++ (itemsBits (dHeadItems l ++ l.d.flatMap itemsD) ++ pad))))
      have hfc : Spec.factorCount 31002 l.b.length = l.b.length := by simp [Spec.factorCount]
      have hdel2 := decSeq_delayed T 101000 31002 16 l.b.length [300004]
        (if l.d.length > 0 then (if l.d.length < 256 then [101000 + l.d.length] else [101000, 31002]) ++ [300010] else [])
        (by decide) (by decide) (by decide) (by decide) (by decide) hT.f2 (by omega) (F0 + 4) _ _ _
        (by rw [hfc]; exact hrepB (itemsBits (dHeadItems l ++ l.d.flatMap itemsD) ++ pad))
      simp only [List.cons_append, List.nil_append] at hdel1 hdel2 ⊢
      rw [e7, hdel1, e8, hdel2, hdp]
      simp only [Option.bind_some, List.cons_append, List.nil_append, List.append_assoc]


/-! ## §6 the data type inferred from the unit survives the trip -/

theorem suffix_dropWhile (p : Nat → Bool) (a : Bytes) (c : Nat) (r : Bytes) (ha : a = c :: r) (hc : p c = false) :
    ∀ b : Bytes, a <:+ (b ++ a).dropWhile p := by
  intro b
  induction b with
  | nil => rw [List.nil_append, ha, List.dropWhile_cons, hc]; exact List.suffix_refl _
  | cons x b' ih =>
    rw [List.cons_append, List.dropWhile_cons]
    by_cases hx : p x = true
    · rw [if_pos hx]; exact ih
    · rw [if_neg hx]; exact (List.suffix_append b' a).trans (List.suffix_cons x _)

theorem rtrim_prefix (p : Nat → Bool) (y : Bytes) : rtrim p y <+: y := by
  unfold rtrim
  have h := List.dropWhile_suffix (l := y.reverse) p
  have := List.reverse_prefix.mpr h
  rwa [List.reverse_reverse] at this

/-- a keyword whose last character is not trimmed is a prefix before and after trimming -/
theorem prefix_rtrim_iff (p : Nat → Bool) (kw y : Bytes) (c : Nat) (r : Bytes) (hk : kw.reverse = c :: r)
    (hc : p c = false) : kw <+: rtrim p y ↔ kw <+: y := by
  constructor
  · intro h; exact h.trans (rtrim_prefix p y)
  · intro ⟨t, ht⟩
    subst ht
    unfold rtrim
    rw [List.reverse_append]
    have h := suffix_dropWhile p kw.reverse c r hk hc t.reverse
    have := List.reverse_prefix.mpr h
    rwa [List.reverse_reverse] at this

theorem isSpace_toUpper (c : Nat) : isSpace (toUpper c) = isSpace c := by
  unfold toUpper
  by_cases h : 97 ≤ c ∧ c ≤ 122
  · rw [if_pos h]
    unfold isSpace
    have a1 : (c - 32 == 32) = false := by simp; omega
    have a2 : (c == 32) = false := by simp; omega
    have a3 : (decide (9 ≤ c - 32) && decide (c - 32 ≤ 13)) = false := by simp; omega
    have a4 : (decide (9 ≤ c) && decide (c ≤ 13)) = false := by simp; omega
    rw [a1, a2, a3, a4]
  · rw [if_neg h]

theorem map_dropWhile_space (l : Bytes) :
    (l.dropWhile isSpace).map toUpper = (l.map toUpper).dropWhile isSpace := by
  induction l with
  | nil => rfl
  | cons a r ih =>
    rw [List.dropWhile_cons, List.map_cons, List.dropWhile_cons, isSpace_toUpper]
    by_cases h : isSpace a = true
    · rw [if_pos h, if_pos h]; exact ih
    · rw [if_neg h, if_neg h, List.map_cons]

theorem map_rtrim_space (l : Bytes) : (rtrim isSpace l).map toUpper = rtrim isSpace (l.map toUpper) := by
  unfold rtrim
  rw [List.map_reverse, map_dropWhile_space, List.map_reverse]

def lastNotSpace (kw : Bytes) : Bool :=
  match kw.reverse with
  | c :: _ => !isSpace c
  | [] => false

/-- cutting a unit to 24 characters and trimming it does not change which keyword it starts with -/
theorem startsWith_normUnit (kw u : Bytes) (hk : lastNotSpace kw = true) (hl : kw.length ≤ 24) :
    startsWith ((normUnit u).map toUpper) kw = startsWith (u.map toUpper) kw := by
  unfold lastNotSpace at hk
  cases hr : kw.reverse with
  | nil => rw [hr] at hk; simp at hk
  | cons c r =>
    rw [hr] at hk
    simp only [Bool.not_eq_true'] at hk
    unfold startsWith normUnit
    rw [map_rtrim_space, List.map_take, Bool.eq_iff_iff, List.isPrefixOf_iff_prefix, List.isPrefixOf_iff_prefix,
      prefix_rtrim_iff isSpace kw _ c r hr hk, List.prefix_take_iff]
    exact ⟨fun h => h.1, fun h => ⟨h, hl⟩⟩

/-- **type inference**: the extracted entry gets the data type the original unit gives -/
theorem unitToType_normUnit (u : Bytes) : unitToType (normUnit u) = unitToType u := by
  unfold unitToType
  simp only [
    startsWith_normUnit (asciiBytes "NUMERI") u (by decide) (by decide),
    startsWith_normUnit (asciiBytes "FLAG TABLE") u (by decide) (by decide),
    startsWith_normUnit (asciiBytes "TABLE FLAG") u (by decide) (by decide),
    startsWith_normUnit (asciiBytes "TABLEFLAG") u (by decide) (by decide),
    startsWith_normUnit (asciiBytes "MARQUEURS") u (by decide) (by decide),
    startsWith_normUnit (asciiBytes "FLAGTABLE") u (by decide) (by decide),
    startsWith_normUnit (asciiBytes "TABLE CODE") u (by decide) (by decide),
    startsWith_normUnit (asciiBytes "TABLECODE") u (by decide) (by decide),
    startsWith_normUnit (asciiBytes "CODE TABLE") u (by decide) (by decide),
    startsWith_normUnit (asciiBytes "CODETABLE") u (by decide) (by decide),
    startsWith_normUnit (asciiBytes "CCITT IA5") u (by decide) (by decide),
    startsWith_normUnit (asciiBytes "CCITTIA5") u (by decide) (by decide)]


/-! ## §7 merging the extracted entries gives the tables merging the original entries gives -/

theorem insertSorted_map {α : Type} (key : α → Nat) (f : α → α) (hk : ∀ a, key (f a) = key a) (e : α) :
    ∀ l : List α, insertSorted key (f e) (l.map f) = (insertSorted key e l).map f := by
  intro l
  induction l with
  | nil => rfl
  | cons a r ih =>
    simp only [List.map_cons, insertSorted, hk]
    by_cases h : key e < key a
    · simp [h]
    · simp [h, ih]

theorem merge1_map {α : Type} (key : α → Nat) (f : α → α) (hk : ∀ a, key (f a) = key a) (dst : List α) (e : α) :
    merge1 key (dst.map f) (f e) = (merge1 key dst e).map f := by
  unfold merge1
  have hany : (dst.map f).any (fun a => key a = key (f e)) = dst.any (fun a => key a = key e) := by
    rw [List.any_map]; congr 1; funext a; simp [Function.comp, hk]
  rw [hany]
  by_cases h : dst.any (fun a => key a = key e) = true
  · simp only [h, if_true, List.map_map]
    apply List.map_congr_left
    intro a _
    simp only [Function.comp, hk]
    by_cases h2 : key a = key e <;> simp [h2]
  · simp only [h, Bool.false_eq_true, if_false]
    exact insertSorted_map key f hk e dst

theorem mergeArr_map {α : Type} (key : α → Nat) (f : α → α) (hk : ∀ a, key (f a) = key a) (src : List α) :
    ∀ dst : List α, mergeArr key (dst.map f) (src.map f) = (mergeArr key dst src).map f := by
  unfold mergeArr
  induction src with
  | nil => intro dst; rfl
  | cons e r ih =>
    intro dst
    simp only [List.map_cons, List.foldl_cons]
    rw [merge1_map key f hk dst e]
    exact ih _

theorem toLocal_ofLocal (l : Local) : (Extracted.ofLocal l).toLocal = l := by
  unfold Extracted.ofLocal Extracted.toLocal
  have hb : (l.b.map XB.ofLB).filterMap XB.toLB? = l.b := by
    rw [List.filterMap_map]
    have : (XB.toLB? ∘ XB.ofLB) = some := by
      funext e
      simp [XB.toLB?, XB.ofLB, Function.comp]
    rw [this, List.filterMap_some]
  have hd : (l.d.map XD.ofLD).filterMap XD.toLD? = l.d := by
    rw [List.filterMap_map]
    have : (XD.toLD? ∘ XD.ofLD) = some := by
      funext e
      simp only [XD.toLD?, XD.ofLD, Function.comp]
      have h1 : (List.map Int.ofNat e.members).all (fun x => decide (x ≥ 0)) = true := by
        rw [List.all_map]; simp
      have h2 : List.map (Int.toNat ∘ Int.ofNat) e.members = e.members := by
        have : (Int.toNat ∘ Int.ofNat) = id := by funext x; simp [Function.comp]
        rw [this, List.map_id]
      simp [h1, h2]
    rw [this, List.filterMap_some]
  simp only [hb, hd]

theorem mergeLocal_carried (l : Local) : mergeLocal {} (carried l) = mergeLocal {} (normalizeL l) := by
  unfold carried
  by_cases h : l.b = []
  · simp [h, mergeLocal, normalizeL]
  · simp [h]

theorem normB_desc (e : LB) : (normB e).desc = e.desc := rfl

theorem mergeLocal_normalizeL (l : Local) :
    (mergeLocal {} (normalizeL l)).b = (mergeLocal {} l).b.map normB ∧ (mergeLocal {} (normalizeL l)).d = (mergeLocal {} l).d := by
  unfold mergeLocal normalizeL
  refine ⟨?_, rfl⟩
  have := mergeArr_map LB.desc normB normB_desc l.b []
  simpa using this

/-- the Table B entry a lookup returns for an entry as carried: same descriptor, scale, reference,
width *and data type*; only the two texts are the carried ones -/
theorem toEntryB_normB (e : LB) :
    (normB e).toEntryB = { e.toEntryB with unit := strOfBytes (normUnit e.unit), descr := strOfBytes (normName e.name) } := by
  unfold LB.toEntryB normB
  simp only [unitToType_normUnit]

end Bufr.LT
