import BufrModel.Printf
import BufrProofs.SoftFloat
import Mathlib.Tactic.Linarith
import Mathlib.Tactic.Ring
import Mathlib.Tactic.NormNum
import Mathlib.Tactic.Positivity
/-
  Print/parse inverses for the libc conversions of BufrModel/Printf.lean: decimal and hexadecimal
  integers, `%.kf` against `strtod`.
-/
namespace Bufr.Printf
open Bufr.SF

/-! ### lists -/

theorem takeWhile_append_stop {α} (p : α → Bool) (l r : List α) (hl : ∀ x ∈ l, p x = true)
    (hr : ∀ x, r.head? = some x → p x = false) : (l ++ r).takeWhile p = l := by
  induction l with
  | nil =>
    cases r with
    | nil => rfl
    | cons a t => simp [hr a rfl]
  | cons a t ih =>
    have ha : p a = true := hl a (by simp)
    simp only [List.cons_append, List.takeWhile_cons, ha, if_true]
    rw [ih (fun x hx => hl x (by simp [hx]))]

theorem dropWhile_append_stop {α} (p : α → Bool) (l r : List α) (hl : ∀ x ∈ l, p x = true)
    (hr : ∀ x, r.head? = some x → p x = false) : (l ++ r).dropWhile p = r := by
  induction l with
  | nil =>
    cases r with
    | nil => rfl
    | cons a t => simp [hr a rfl]
  | cons a t ih =>
    have ha : p a = true := hl a (by simp)
    simp only [List.cons_append, List.dropWhile_cons, ha, if_true]
    exact ih (fun x hx => hl x (by simp [hx]))

/-! ### decimal digits -/

/-- value of digits given least significant first -/
def valRev : List Nat → Nat
  | [] => 0
  | d :: r => (d - 48) + 10 * valRev r

theorem digitsVal_foldl (ds : List Nat) (a : Nat) :
    ds.foldl (fun a d => 10 * a + (d - 48)) a = a * 10 ^ ds.length + digitsVal ds := by
  induction ds generalizing a with
  | nil => simp [digitsVal]
  | cons d t ih =>
    simp only [List.foldl_cons, List.length_cons, digitsVal]
    rw [ih, ih (10 * 0 + (d - 48))]
    ring

theorem digitsVal_append (a b : List Nat) : digitsVal (a ++ b) = digitsVal a * 10 ^ b.length + digitsVal b := by
  unfold digitsVal
  rw [List.foldl_append, digitsVal_foldl]
  rfl

theorem digitsVal_reverse (l : List Nat) : digitsVal l.reverse = valRev l := by
  induction l with
  | nil => rfl
  | cons d t ih =>
    rw [List.reverse_cons, digitsVal_append, ih]
    simp [digitsVal, valRev]; ring

theorem decRev_val (f n : Nat) (h : n < 10 ^ f) : valRev (decRev f n) = n := by
  induction f generalizing n with
  | zero => simp at h; subst h; rfl
  | succ f ih =>
    unfold decRev
    by_cases h0 : n / 10 = 0
    · simp only [h0, if_true, valRev]
      have : n < 10 := by omega
      omega
    · simp only [h0, if_false, valRev]
      have h1 : n / 10 < 10 ^ f := by
        rw [pow_succ] at h; omega
      rw [ih _ h1]; omega

theorem decRev_digits (f n : Nat) : ∀ d ∈ decRev f n, isDigit d = true := by
  induction f generalizing n with
  | zero => simp [decRev]
  | succ f ih =>
    unfold decRev
    intro d hd
    simp only [List.mem_cons] at hd
    rcases hd with rfl | hd
    · unfold isDigit; simp; omega
    · split at hd
      · simp at hd
      · exact ih _ d hd

theorem decRev_ne_nil (f n : Nat) : decRev (f + 1) n ≠ [] := by simp [decRev]

theorem lt_ten_pow_succ (n : Nat) : n < 10 ^ (n + 1) := by
  have : n < 2 ^ n := Nat.lt_two_pow_self
  calc n < 2 ^ n := this
    _ ≤ 10 ^ n := Nat.pow_le_pow_left (by norm_num) n
    _ ≤ 10 ^ (n + 1) := Nat.pow_le_pow_right (by norm_num) (by omega)

theorem digitsVal_decNat (n : Nat) : digitsVal (decNat n) = n := by
  unfold decNat
  rw [digitsVal_reverse, decRev_val _ _ (lt_ten_pow_succ n)]

theorem decNat_digits (n : Nat) : ∀ d ∈ decNat n, isDigit d = true := by
  intro d hd
  unfold decNat at hd
  exact decRev_digits _ _ d (List.mem_reverse.mp hd)

theorem decNat_ne_nil (n : Nat) : decNat n ≠ [] := by
  unfold decNat
  simp [decRev_ne_nil]

/-- number of digits: `decRev` never produces more than `k` digits for a number below `10^k` -/
theorem decRev_length (f n k : Nat) (hk : 1 ≤ k) (h : n < 10 ^ k) : (decRev f n).length ≤ k := by
  induction f generalizing n k with
  | zero => simp [decRev]
  | succ f ih =>
    unfold decRev
    by_cases h0 : n / 10 = 0
    · simp [h0]; omega
    · simp only [h0, if_false, List.length_cons]
      have hk2 : 2 ≤ k := by
        by_contra hc
        have : k = 1 := by omega
        subst this
        simp at h; omega
      have h1 : n / 10 < 10 ^ (k - 1) := by
        have : 10 ^ k = 10 ^ (k - 1) * 10 := by rw [← pow_succ]; congr 1; omega
        rw [this] at h; omega
      have := ih (n / 10) (k - 1) (by omega) h1
      omega

theorem decNat_length (n k : Nat) (hk : 1 ≤ k) (h : n < 10 ^ k) : (decNat n).length ≤ k := by
  unfold decNat
  rw [List.length_reverse]
  exact decRev_length _ _ _ hk h

theorem isDigit_not_space (c : Nat) (h : isDigit c = true) : isSpace c = false := by
  unfold isDigit at h; unfold isSpace
  simp at h ⊢; omega

theorem zpad_digits (w : Nat) (ds : List Nat) (h : ∀ d ∈ ds, isDigit d = true) :
    ∀ d ∈ zpad w ds, isDigit d = true := by
  intro d hd
  unfold zpad at hd
  rcases List.mem_append.mp hd with h1 | h1
  · have := List.eq_of_mem_replicate h1
    subst this; rfl
  · exact h d h1

theorem digitsVal_replicate_zero (k : Nat) : digitsVal (List.replicate k 48) = 0 := by
  induction k with
  | zero => rfl
  | succ k ih =>
    rw [List.replicate_succ]
    have := digitsVal_append [48] (List.replicate k 48)
    simp only [List.singleton_append] at this
    rw [this, ih]; simp [digitsVal]

theorem digitsVal_zpad (w : Nat) (ds : List Nat) : digitsVal (zpad w ds) = digitsVal ds := by
  unfold zpad
  rw [digitsVal_append, digitsVal_replicate_zero]; simp

theorem zpad_length (w : Nat) (ds : List Nat) (h : ds.length ≤ w) : (zpad w ds).length = w := by
  unfold zpad; simp; omega

/-! ### `%d` against `atol` -/

theorem takeWhile_all {α} (p : α → Bool) (l : List α) (hl : ∀ x ∈ l, p x = true) : l.takeWhile p = l := by
  have := takeWhile_append_stop p l [] hl (by simp)
  simpa using this

theorem strtol_digits (c : Nat) (t : List Nat) (hd : ∀ d ∈ c :: t, isDigit d = true) :
    strtol (c :: t) = (if (digitsVal (c :: t) : Int) > 2 ^ 63 - 1 then 2 ^ 63 - 1 else (digitsVal (c :: t) : Int)) := by
  have hc := hd c (by simp)
  have hsp : isSpace c = false := isDigit_not_space c hc
  have hc1 : c ≠ 45 ∧ c ≠ 43 := by
    unfold isDigit at hc; simp at hc; omega
  unfold strtol
  simp only [List.dropWhile_cons, hsp, Bool.false_eq_true, if_false]
  split
  · next r heq => simp at heq; exact absurd heq.1 hc1.1
  · next r heq => simp at heq; exact absurd heq.1 hc1.2
  · simp only [takeWhile_all isDigit (c :: t) hd, Bool.false_eq_true, if_false]

theorem strtol_neg_digits (t : List Nat) (hd : ∀ d ∈ t, isDigit d = true) :
    strtol (45 :: t) = (if (digitsVal t : Int) > 2 ^ 63 then -(2:Int) ^ 63 else -(digitsVal t : Int)) := by
  unfold strtol
  simp only [List.dropWhile_cons, show isSpace 45 = false from rfl, Bool.false_eq_true, if_false,
    takeWhile_all isDigit t hd, if_true]

theorem strtol_fmtInt (v : Int) (h0 : -(2:Int) ^ 63 ≤ v) (h1 : v < 2 ^ 63) : strtol (fmtInt v) = v := by
  unfold fmtInt
  by_cases hv : v < 0
  · rw [if_pos hv, strtol_neg_digits _ (decNat_digits _), digitsVal_decNat]
    have : ((v.natAbs : Nat) : Int) = -v := by omega
    rw [this]
    split_ifs <;> omega
  · rw [if_neg hv]
    obtain ⟨c, t, hct⟩ := List.exists_cons_of_ne_nil (decNat_ne_nil v.natAbs)
    have hd := decNat_digits v.natAbs
    rw [hct] at hd ⊢
    rw [strtol_digits c t hd, ← hct, digitsVal_decNat]
    have : ((v.natAbs : Nat) : Int) = v := by omega
    rw [this]
    split_ifs <;> omega

theorem atol_fmtInt (v : Int) (h0 : -(2:Int) ^ 63 ≤ v) (h1 : v < 2 ^ 63) : atol (fmtInt v) = v :=
  strtol_fmtInt v h0 h1

theorem atoi_fmtInt (v : Int) (h0 : -(2:Int) ^ 31 ≤ v) (h1 : v < 2 ^ 31) : atoi (fmtInt v) = v := by
  unfold atoi
  rw [strtol_fmtInt v (by omega) (by omega)]
  exact wrapI32_of_range v h0 h1

/-! ### `%llx` against `sscanf("%llx")` -/

theorem hexDigVal_hexDig (d : Nat) (h : d < 16) : hexDigVal (hexDig d) = some d := by
  unfold hexDig hexDigVal
  split_ifs <;> first | omega | (congr 1; omega)

/-- values of the hexadecimal digits, least significant first -/
def hexRevV : Nat → Nat → List Nat
  | 0, _ => []
  | f+1, n => (n % 16) :: (if n / 16 = 0 then [] else hexRevV f (n / 16))

theorem hexRev_eq (f n : Nat) : hexRev f n = (hexRevV f n).map hexDig := by
  induction f generalizing n with
  | zero => rfl
  | succ f ih =>
    unfold hexRev hexRevV
    split_ifs <;> simp [ih]

theorem hexRevV_lt (f n : Nat) : ∀ d ∈ hexRevV f n, d < 16 := by
  induction f generalizing n with
  | zero => simp [hexRevV]
  | succ f ih =>
    unfold hexRevV
    intro d hd
    simp only [List.mem_cons] at hd
    rcases hd with rfl | hd
    · omega
    · split at hd
      · simp at hd
      · exact ih _ d hd

def valRev16 : List Nat → Nat
  | [] => 0
  | d :: r => d + 16 * valRev16 r

theorem hexRevV_val (f n : Nat) (h : n < 16 ^ f) : valRev16 (hexRevV f n) = n := by
  induction f generalizing n with
  | zero => simp at h; subst h; rfl
  | succ f ih =>
    unfold hexRevV
    by_cases h0 : n / 16 = 0
    · simp only [h0, if_true, valRev16]; omega
    · simp only [h0, if_false, valRev16]
      have h1 : n / 16 < 16 ^ f := by rw [pow_succ] at h; omega
      rw [ih _ h1]; omega

theorem foldl16 (ds : List Nat) (a : Nat) :
    ds.foldl (fun a d => 16 * a + d) a = a * 16 ^ ds.length + ds.foldl (fun a d => 16 * a + d) 0 := by
  induction ds generalizing a with
  | nil => simp
  | cons d t ih =>
    simp only [List.foldl_cons, List.length_cons]
    rw [ih, ih (16 * 0 + d)]; ring

theorem foldl16_reverse (l : List Nat) : l.reverse.foldl (fun a d => 16 * a + d) 0 = valRev16 l := by
  induction l with
  | nil => rfl
  | cons d t ih =>
    rw [List.reverse_cons, List.foldl_append, foldl16, ih]
    simp [valRev16]; ring

theorem takeHex_map (l : List Nat) (h : ∀ d ∈ l, d < 16) : takeHex (l.map hexDig) = l := by
  induction l with
  | nil => rfl
  | cons d t ih =>
    simp only [List.map_cons, takeHex, hexDigVal_hexDig d (h d (by simp))]
    rw [ih (fun x hx => h x (by simp [hx]))]

theorem lt_sixteen_pow_succ (n : Nat) : n < 16 ^ (n + 1) := by
  have : n < 2 ^ n := Nat.lt_two_pow_self
  calc n < 2 ^ n := this
    _ ≤ 16 ^ n := Nat.pow_le_pow_left (by norm_num) n
    _ ≤ 16 ^ (n + 1) := Nat.pow_le_pow_right (by norm_num) (by omega)

/-- `sscanf("0x…", "%llx")` reads back what `%llx` printed after `0x` -/
theorem scanHex_hexNat (b : Nat) (hb : b < 2 ^ 64) : scanHex (48 :: 120 :: hexNat b) = some b := by
  have hne : hexRevV (b + 1) b ≠ [] := by simp [hexRevV]
  have hl := hexRevV_lt (b + 1) b
  have hform : hexNat b = ((hexRevV (b + 1) b).reverse).map hexDig := by
    unfold hexNat; rw [hexRev_eq, List.map_reverse]
  have hl' : ∀ d ∈ (hexRevV (b + 1) b).reverse, d < 16 := fun d hd => hl d (List.mem_reverse.mp hd)
  obtain ⟨c, t, hct⟩ := List.exists_cons_of_ne_nil (show (hexRevV (b + 1) b).reverse ≠ [] by simpa using hne)
  have hc : c < 16 := hl' c (by rw [hct]; simp)
  unfold scanHex
  simp only [List.dropWhile_cons, show isSpace 48 = false from rfl, Bool.false_eq_true, if_false]
  have hhead : ((hexNat b).head?.bind hexDigVal).isSome = true := by
    rw [hform, hct]; simp [hexDigVal_hexDig c hc]
  simp only [hhead, true_or, and_self, if_true]
  rw [hform, takeHex_map _ hl']
  have hemp : ((hexRevV (b + 1) b).reverse.isEmpty) = false := by rw [hct]; rfl
  simp only [hemp, Bool.false_eq_true, if_false]
  rw [foldl16_reverse, hexRevV_val _ _ (lt_sixteen_pow_succ b)]
  simp
  intro h
  have : (2:Nat) ^ 64 = 18446744073709551616 := by norm_num
  omega

/-! ### `%.kf` against `strtod` -/

theorem rne_near (y : ℚ) (n : ℤ) (h : |y - n| < 1 / 2) : rne y = n := by
  have h1 := rne_err y
  have : |((rne y : ℤ) : ℚ) - (n : ℚ)| < 1 := by
    have := abs_sub_le ((rne y : ℤ) : ℚ) y (n : ℚ)
    linarith
  have h2 : |((rne y - n : ℤ) : ℚ)| < 1 := by push_cast; exact this
  have h3 : |rne y - n| < 1 := by exact_mod_cast h2
  have := abs_lt.mp h3
  omega

/-- the decimal number `strtod` reads from `digits.digits` (k ≥ 1 decimals) -/
theorem scanDecimal_fixed (a b k : Nat) (hk : 1 ≤ k) (hb : b < 10 ^ k) :
    scanDecimal (decNat a ++ 46 :: zpad k (decNat b)) = some (((a * 10 ^ k + b : Nat) : ℚ) / ((10 ^ k : Nat) : ℚ)) := by
  have hda := decNat_digits a
  have hdb := zpad_digits k _ (decNat_digits b)
  have hlen : (zpad k (decNat b)).length = k := zpad_length k _ (decNat_length b k hk hb)
  unfold scanDecimal
  have h1 : (decNat a ++ 46 :: zpad k (decNat b)).takeWhile isDigit = decNat a :=
    takeWhile_append_stop isDigit _ _ hda (by intro x hx; simp at hx; subst hx; rfl)
  simp only [h1, List.drop_left']
  have h2 : (zpad k (decNat b)).takeWhile isDigit = zpad k (decNat b) := takeWhile_all _ _ hdb
  simp only [h2, List.drop_length]
  have hne : ¬ ((decNat a).isEmpty = true ∧ (zpad k (decNat b)).isEmpty = true) := by
    intro h; exact decNat_ne_nil a (List.isEmpty_iff.mp h.1)
  simp only [hne, if_false, hlen]
  rw [digitsVal_append, digitsVal_decNat, digitsVal_zpad, digitsVal_decNat, hlen]
  simp [pow10r]

/-- … and from an integer without a point (k = 0) -/
theorem scanDecimal_int (a : Nat) : scanDecimal (decNat a) = some (a : ℚ) := by
  have hda := decNat_digits a
  unfold scanDecimal
  have h1 : (decNat a).takeWhile isDigit = decNat a := takeWhile_all _ _ hda
  simp only [h1, List.drop_length]
  have hne : ¬ ((decNat a).isEmpty = true ∧ ([] : List Nat).isEmpty = true) := by
    intro h; exact decNat_ne_nil a (List.isEmpty_iff.mp h.1)
  simp only [hne, if_false]
  simp [digitsVal_decNat, pow10r]

/-- the decimal value of the text `%.kf` prints for `q` -/
def fmtFVal (k : Nat) (q : ℚ) : ℚ :=
  let m : ℚ := (rneNat (|q| * ((10 ^ k : Nat) : ℚ)) : ℚ) / ((10 ^ k : Nat) : ℚ)
  if q < 0 then -m else m

theorem digit_head_not_special (c : Nat) (hc : isDigit c = true) :
    isSpace c = false ∧ c ≠ 45 ∧ c ≠ 43 ∧ lower c ≠ 105 ∧ lower c ≠ 110 := by
  unfold isDigit at hc; simp at hc
  refine ⟨isDigit_not_space c (by unfold isDigit; simp; omega), by omega, by omega, ?_, ?_⟩ <;>
  · unfold lower; split_ifs <;> omega

/-- `strtoFP` on a string that starts with a digit -/
theorem strtoFP_digit (p : Nat) (emin emax : Int) (c : Nat) (t : List Nat) (hc : isDigit c = true) :
    strtoFP p emin emax (c :: t) = (match scanDecimal (c :: t) with
      | none => .fin 0
      | some q => roundIEEE p emin emax q) := by
  obtain ⟨hsp, h45, h43, hi, hn⟩ := digit_head_not_special c hc
  unfold strtoFP
  simp only [List.dropWhile_cons, hsp, Bool.false_eq_true, if_false]
  split
  · next r heq => simp at heq; exact absurd heq.1 h45
  · next r heq => simp at heq; exact absurd heq.1 h43
  · have hinf : startsWithCI [105, 110, 102] (c :: t) = false := by
      unfold startsWithCI; simp [hi]
    have hnan : startsWithCI [110, 97, 110] (c :: t) = false := by
      unfold startsWithCI; simp [hn]
    simp only [hinf, hnan, Bool.false_eq_true, if_false]
    split <;> simp_all

theorem strtoFP_neg_digit (p : Nat) (emin emax : Int) (c : Nat) (t : List Nat) (hc : isDigit c = true) :
    strtoFP p emin emax (45 :: c :: t) = (match scanDecimal (c :: t) with
      | none => .fin 0
      | some q => roundIEEE p emin emax (-q)) := by
  obtain ⟨_, _, _, hi, hn⟩ := digit_head_not_special c hc
  unfold strtoFP
  simp only [List.dropWhile_cons, show isSpace 45 = false from rfl, Bool.false_eq_true, if_false]
  have hinf : startsWithCI [105, 110, 102] (c :: t) = false := by
    unfold startsWithCI; simp [hi]
  have hnan : startsWithCI [110, 97, 110] (c :: t) = false := by
    unfold startsWithCI; simp [hn]
  simp only [hinf, hnan, Bool.false_eq_true, if_false, if_true]
  cases scanDecimal (c :: t) <;> rfl

/-- **`strtod` of what `%.kf` printed** is the correctly rounded binary of the printed decimal -/
theorem strtoFP_fmtF (p : Nat) (emin emax : Int) (k : Nat) (q : ℚ) :
    strtoFP p emin emax (fmtF k q) = roundIEEE p emin emax (fmtFVal k q) := by
  unfold fmtF fmtFVal
  simp only
  have habs : (if q < 0 then -q else q) = |q| := by
    split_ifs with h
    · exact (abs_of_neg h).symm
    · exact (abs_of_nonneg (not_lt.mp h)).symm
  rw [habs]
  set m := rneNat (|q| * ((10 ^ k : Nat) : ℚ)) with hm
  have hpos : (0:ℚ) < ((10 ^ k : Nat) : ℚ) := by positivity
  -- the digits after the optional sign
  have hval : scanDecimal (decNat (m / 10 ^ k) ++ (if k = 0 then [] else 46 :: zpad k (decNat (m % 10 ^ k)))) =
      some ((m : ℚ) / ((10 ^ k : Nat) : ℚ)) := by
    by_cases hk : k = 0
    · subst hk; simp [scanDecimal_int]
    · rw [if_neg hk, scanDecimal_fixed _ _ k (by omega) (Nat.mod_lt _ (by positivity))]
      congr 2
      have := Nat.div_add_mod m (10 ^ k)
      rw [mul_comm] at this
      exact_mod_cast this
  obtain ⟨c, t, hct⟩ := List.exists_cons_of_ne_nil (decNat_ne_nil (m / 10 ^ k))
  have hc : isDigit c = true := decNat_digits _ c (by rw [hct]; simp)
  by_cases hq : q < 0
  · simp only [hq, if_true, List.singleton_append, List.cons_append, List.nil_append]
    rw [hct] at hval ⊢
    simp only [List.cons_append] at hval ⊢
    rw [strtoFP_neg_digit p emin emax c _ hc, hval]
  · simp only [hq, if_false, List.nil_append]
    rw [hct] at hval ⊢
    simp only [List.cons_append] at hval ⊢
    rw [strtoFP_digit p emin emax c _ hc, hval]

end Bufr.Printf
